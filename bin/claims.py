# One claim(...) per property whose check is built. Executed by bin/mkmanifest.
IDEAL = ("Trusted: Lean kernel + propext/Classical.choice/Quot.sound; theorem statements; extractor, harness and driver glue; "
         "Go runtime and third-party libraries are modelled and differential-tested, not verified. ")

claim("C18", "DESIGN.md section 7 (C18)",
      "Kernel-checked theorems over the executable model of int160, bucketIndex, randomIdInBucket, CloserThan, the sorted candidate set and the K-nearest container: "
      "metric laws, lexicographic = numeric order, bucket index = shared-prefix length, random ID lands in its bucket, closer-than is a strict total order ranking known IDs by distance first, "
      "and for every push history the container holds exactly the K nearest (up to equal-distance ties). The model is tied to the Go code on every run by differential execution of every operation "
      "(int160.*, bucket index and random-ID hooks, CloserThan, containers, k-nearest) through the compiled Lean driver, plus direct oracles on the Go results.",
      IDEAL + "K-nearest tie-breaking (per-container random hash seed) is modelled as a relation; hash collisions between different address strings (64-bit) are ignored; immutable.SortedMap assumed a correct sorted map.",
      "Lean 4 theorems + differential correspondence (Go vs compiled Lean driver)")
