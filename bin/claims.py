# One claim(...) per property whose check is built. Executed by bin/mkmanifest.
IDEAL = ("Trusted: Lean kernel + propext/Classical.choice/Quot.sound; theorem statements; extractor, harness and driver glue; "
         "Go runtime and third-party libraries are modelled and differential-tested, not verified. ")

claim("C18", "DESIGN.md section 7 (C18)",
      "Kernel-checked theorems over the executable model of int160, bucketIndex, randomIdInBucket, CloserThan, the sorted candidate set and the K-nearest container: "
      "metric laws, lexicographic = numeric order, bucket index = shared-prefix length, random ID lands in its bucket, closer-than is a strict total order ranking known IDs by distance first, "
      "and for every push history the container holds exactly the K nearest (up to equal-distance ties). The model is tied to the Go code on every run by differential execution of every operation "
      "(int160.*, bucket index and random-ID hooks, CloserThan, containers, k-nearest) through the compiled Lean driver, plus direct oracles on the Go results.",
      IDEAL + "K-nearest tie-breaking (per-container random hash seed) is modelled as a relation; hash collisions between different address strings (64-bit) are ignored; immutable.SortedMap assumed a correct sorted map.",
      "Lean 4 theorems + differential correspondence (Go vs compiled Lean driver)")

claim("C17", "DESIGN.md section 7 (C17)",
      "Kernel-checked theorems over the executable model of security.go (bit-by-bit CRC32-C, masks regenerated from the source, To4, SecureNodeId, NodeIdSecure, isLocalNetwork): securing touches only the first 21 bits, "
      "is idempotent, makes the ID verify; verification is exactly the BEP 42 rule on 21-bit prefixes; local ranges accept every ID; no crash on any 4/16-byte address. Tied to the Go code on every run by "
      "differential execution of SecureNodeId/NodeIdSecure/CRC through the Lean driver, an independent statement of the BEP rule in the harness, NewServer-generated IDs for configured public IPs, "
      "and (thorough) the exhaustive 2^20 masked IPv4 values x 8 seeds.",
      IDEAL + "hash/crc32 is compared against the Lean CRC on every run (not assumed). The BEP 42 test vectors are tests, not theorems.",
      "Lean 4 theorems + differential correspondence (Go vs compiled Lean driver)")

claim("C07", "DESIGN.md section 7 (C07)",
      "Kernel-checked theorems over the executable model of the transaction dispatcher and the varint ID issuer: uvarint is injective, no history of register/inbound/deregister events makes Dispatcher.Add panic, "
      "outstanding IDs are pairwise distinct, a datagram is delivered only to the query registered under exactly (source address string, t), non-matching datagrams change nothing, delivery pops the transaction (at most once). "
      "Tied to the code by trace validation at the Conn boundary: concurrent real Server.Query calls, injected genuine / near-miss / replayed datagrams each carrying a unique marker, the observed completions replayed through the Lean dispatcher, "
      "plus direct oracles (completed only by the datagram from the exact address with the exact t; Stats().OutstandingTransactions agrees).",
      IDEAL + "The process-wide ID issuer is modelled as a counter whose start value is read off the first observed ID; uint64 wrap-around after 2^64 queries is out of scope.",
      "Lean 4 theorems + trace validation of real Query histories against the Lean dispatcher")

SRV_TIE = ("Tied to the code on every run by trace validation at the ServerConfig.Conn boundary: a real dht.Server is driven through an in-memory PacketConn, "
           "every datagram it writes and every change of its routing table (snapshot hook), peer store and BEP 44 store (recording wrappers) is recorded, "
           "the history is replayed through the Lean server model by the compiled driver (nondeterministic choices - evicted entry, node selection within a bucket, token bytes - are taken from the observation and checked against the relational model), "
           "and the property's direct oracle is evaluated on what the implementation did; regenerated source facts (go/ast) are side conditions of the theorems. ")
SRV_NOTE = IDEAL + ("The BEP 44 store and the query hook are environment inputs of the server model (their answers are observed, not predicted). "
            "Go-scheduler interleavings inside one critical section are not explored: the model's atomic steps are the code between Lock and Unlock of Server.mu. ")

claim("C08", "DESIGN.md section 7 (C08)",
      "Kernel-checked theorems over the executable model of serve/processPacket/handleQuery/reply/sendError: at most one datagram per inbound datagram, destination = source, t echoed, responses carry own ID and the requester's address, "
      "unknown method -> 204, missing arguments -> 203, the six methods are always answered (valid token for the write methods), nothing for non-queries or garbage, target chosen by method. " + SRV_TIE,
      SRV_NOTE, "Lean 4 theorems + trace validation of real server histories against the Lean server model")
claim("C01", "DESIGN.md section 7 (C01)",
      "Kernel-checked theorems over the server model in which every Go panic on the inbound path is an explicit failure outcome: from every well-formed state no datagram reaches one (never_crashes), the state stays well-formed (inv_step/inv_run), "
      "the server is never closed or silenced by traffic (stays_open, still_serves), and processPacket's lock discipline is a regenerated source fact. " + SRV_TIE +
      "The hostile part of the stream (damaged structured KRPC, mutated bytes, raw bytes, hostile replies to in-flight ping/bootstrap/announce/get/put with every subset of response fields) runs in a child process so that an unrecoverable panic is reported with the datagrams that caused it; liveness is judged by a probe ping and by Stats/NumNodes/Nodes/WriteStatus returning.",
      SRV_NOTE + "Memory safety and panic-freedom of the third-party bencode decoder and of Go library code on arbitrary bytes is observed (child-process fuzz stream), not proved.",
      "Lean 4 theorems + trace validation + child-process hostile stream with liveness oracle")
claim("C05", "DESIGN.md section 7 (C05)",
      "Kernel-checked inductive invariant of the routing-table model over every history of table events and every resolution of map-iteration order: every entry has a bucket index < 160 equal to its shared-prefix length with the root, no bucket exceeds K, no two entries share ID and address, root and zero ID never enter; "
      "none of the table panics is reachable; node counts agree with the entries. " + SRV_TIE,
      SRV_NOTE + "Elapsed time is simulated through the ageing hook; generated advances are whole minutes so the implementation's extra real milliseconds never cross the 15-minute boundary.",
      "Lean 4 theorems (inductive invariant) + trace validation of real table histories")
claim("C06", "DESIGN.md section 7 (C06)",
      "Kernel-checked theorems over the routing-table model: every entry was introduced by a query or matched response from its own address carrying its ID and not flagged read-only, or by the add API (entry_provenance, update_sites as a regenerated source fact); "
      "read-only senders, ID-less messages and failed pings never add; under enforcement every entry's ID is valid for its IP; a good entry is never removed; an entry is displaced only if bad or never-responded while the newcomer just answered; an eligible sender is admitted whenever its bucket has room. " + SRV_TIE,
      SRV_NOTE, "Lean 4 theorems + trace validation of real table histories")
claim("C09", "DESIGN.md section 7 (C09)",
      "Kernel-checked theorems over the bucket-walk relation closestAllowed (the model of table.closestNodes under closestGoodNodeInfos): at most K distinct contacts, each a currently good table entry that has responded and is not the node itself and is of the requested family, "
      "bucket priority (no contact from a farther bucket while an eligible one of a nearer visited bucket is omitted), short only if exhausted, walk starts at the target's bucket (159 for the own ID); target by method is proved on the handler model (C08.target_by_method). " + SRV_TIE,
      SRV_NOTE, "Lean 4 theorems (relational spec) + trace validation of real replies against table snapshots")
claim("C10", "DESIGN.md section 7 (C10)",
      "Kernel-checked theorems: token-server level (honoured at every instant up to maxDelta whole intervals after issue, hence >= 10 min with the regenerated constants; rejected from maxDelta+1 intervals on, hence <= 15 min; bound to the 16-byte IP, independent of the port; other secret / altered token rejected, SHA-1 idealised as an injective parameter) and handler level "
      "(invalid token => no datagram, no effect, nothing but the sender's table entry changes; valid token => effect and reply; the handler's test is the token server's). " + SRV_TIE +
      "The token clock is set through the hook, so issue/use instants on both sides of every rotation boundary are exercised exactly.",
      SRV_NOTE + "SHA-1 injectivity is a hypothesis of the theorems that need it. The driver learns token bytes from observed replies and checks their consistency.",
      "Lean 4 theorems + trace validation with a controlled token clock")
claim("C11", "DESIGN.md section 7 (C11)",
      "Kernel-checked theorems over the server model with the peer store as a map keyed by (infohash, raw IP bytes): an accepted announce stores exactly (infohash, source IP, announced or implied port) and is answered; the entry persists until an announce from the same IP bytes for that infohash; "
      "every stored entry stems from an accepted announce in the history; values are stored endpoints for that infohash, 6-byte only to requesters wanting IPv4 and 18-byte only to those wanting IPv6, and every get_peers reply with a store carries a token. " + SRV_TIE,
      SRV_NOTE + "The asynchronous store update (go ps.AddPeer) is awaited by observing the recording wrapper. An announce without port and without implied_port is outside the property's quantifier and is not judged.",
      "Lean 4 theorems + trace validation of announce/get_peers histories")
claim("C19", "DESIGN.md section 7 (C19)",
      "Kernel-checked theorems over the server model: a datagram from a blocked source leaves state and output untouched; nothing passes the write gate towards a blocked destination or after close; a passive node produces no output for any datagram and marks its queries read-only; "
      "regenerated source facts: the only socket write of the module is in writeToNode after the closed and blocklist tests, serve tests the source before processPacket, the passive test precedes the method switch, makeQueryBytes sets ro under Passive. " + SRV_TIE +
      "Outbound paths (ping, AddNode-triggered ping, questionable ping, announce and bootstrap traversals seeded with blocked and unblocked addresses) are exercised and every written datagram's destination and ro flag checked.",
      SRV_NOTE, "Lean 4 theorems + regenerated structural facts + trace validation across configurations")

TRAV_TIE = ("Tied to the code on every run by trace validation: a real traversal.Operation (hooks: read-only snapshot) whose DoQuery parks every query until the harness's PRNG schedule releases it with a result from a generated response graph "
            "(silent, lying, duplicate-ID nodes, one address under many IDs and across replies and seed sets, filtered addresses, ID-less seeds, late AddNodes, Stop); after each release the operation is polled to quiescence and its state (frontier in pop order, queried set, closest set, outstanding, have-more flag) "
            "is compared with the Lean model's, the closest-set tie-break being taken from the observation and checked against the relational container spec; direct oracles on the implementation accompany every step. ")
TRAV_NOTE = IDEAL + ("Atomic steps of the model are the critical sections of op.mu (mutual exclusion trusted). The Go scheduler cannot be forced: the lost-wake-up direction is carried by the regenerated statement-order facts plus the model theorem (with a kept counterexample for the wrong order); on the implementation it is observed as reaching quiescence / stalled within a deadline. "
             "Replies that use both Nodes and Nodes6 with free slots are judged by the direct oracles only (the interleaving of the two AddNodes calls with the run loop is not replayed).")
claim("C02", "DESIGN.md section 7 (C02)",
      "Kernel-checked theorems over the traversal model for every history of events: the closest set has at most K elements in distance order without duplicate keys, every member answered a query of this lookup and passed node and data filters, and the set is exactly the K nearest (up to equal-distance ties) of the responders that passed the filters, each with its latest data. " + TRAV_TIE,
      TRAV_NOTE + " The corollary for an honest finite network (result = the K closest nodes of the network) is not proved; the general statement above implies it given that every node of the network is eventually queried.",
      "Lean 4 theorems (invariants over event histories) + trace validation of real traversals")
claim("C03", "DESIGN.md section 7 (C03)",
      "Kernel-checked theorems over the traversal model with the condition-variable protocol explicit (generation counter): no lost wake-up (a run loop asleep on the current generation has a current view), quiescent with nothing in flight => stalled is on offer, the run loop can always progress, "
      "queries are bounded by the number of distinct reported addresses, at the stalled offer nothing is in flight and every remaining candidate is ID-less or strictly farther than the farthest member of a full result set, Stop completes once nothing is outstanding; the statement order the theorems need (channel taken before unlock, broadcast under lock) is a regenerated source fact, "
      "and the counterexample for the wrong order is kept proved. " + TRAV_TIE,
      TRAV_NOTE, "Lean 4 theorems + regenerated statement-order facts + trace validation")
claim("C04", "DESIGN.md section 7 (C04)",
      "Kernel-checked theorems over the traversal model for every history: never more than Alpha queries in flight, no address queried twice however often and under however many IDs it is reported, every queried address was reported by a candidate that passed the node filter; regenerated source facts: mark-queried precedes the launch, the per-query watcher cancels the context when the operation is stopping, four traversal start sites. " + TRAV_TIE,
      TRAV_NOTE, "Lean 4 theorems + regenerated structural facts + trace validation")
claim("C16", "DESIGN.md section 7 (C16)",
      "Kernel-checked theorems over the announce model on top of the traversal model: announce_peer goes only to members of the final closest set, every member carries a token and is announced to, the token sent to a node is the one that node returned in this traversal (via C02's provenance theorem), at most K=8 announces to distinct keys; the acceptance predicate used for validation is sound for the property; the order stalled -> stop -> stopped -> announce -> finished -> close is a regenerated source fact. "
      "Tied to the code by trace validation at the Conn boundary: simulated networks answering get_peers with distinct tokens / no token / values / errors / silence in PRNG order, options crossed, Close or StopTraversing at random points, consumer reading or not; every emitted announce_peer is decoded (independent bencode reader) and checked against the token that node issued, the set of destinations against the K nearest token-bearing responders, Peers delivery exactly once, channel closed, Finished() fires.",
      TRAV_NOTE, "Lean 4 theorems + trace validation of real announces against a simulated network")
claim("C15", "DESIGN.md section 7 (C15)",
      "Kernel-checked theorems over the executable model of the KRPC wire codec: bencode values with a structural canonical encoder and the strict parser (what the untyped decoder accepts); "
      "the parser inverts the encoder on every well-formed value with any trailing rest and accepts nothing but canonical encodings; the typed layer mirrors Msg/MsgArgs/Return/Bep51Return/Bep44Return/Error "
      "field by field (field lists, keys, omitempty and the five compact element sizes pinned to the regenerated struct tags and ElemSize methods): encoding any well-formed message never panics, is canonical bencode, "
      "and decodes to the same message up to the documented normalisation (empty compact list -> nil, contact width of the list); everything the decoder returns is well-formed and re-encodes to a fixpoint; "
      "compact lists decode exactly the multiples of 6/18/26/38/20 bytes and re-encode identically; NodeAddr/NodeInfo binary decoders are total when the length test is present (the unguarded slice is an explicit crash outcome with a kept counterexample). "
      "Tied to the Go code on every run by differential execution of bencode.Marshal/Unmarshal of generated krpc.Msg values over the full field set, byte- and tree-level mutations, raw bytes, the untyped parser, and every exported "
      "Marshal*/Unmarshal* of package krpc at every length residue, plus Write/ReadNodesFromFile, with direct oracles (round trip, re-encode fixpoint, no panic, compact length law) independent of the model.",
      IDEAL + "The reflection decoder's behaviour on shapes not transcribed (list or dictionary where a scalar field is expected and vice versa, unsorted or duplicate keys in typed dictionaries, non-canonical input that some decoder path could still consume) "
      "is answered `unmodelled` by the model, counted in the evidence histogram and judged only by the direct oracles; panic-freedom of the third-party reflection decoder on arbitrary bytes is observed, not proved; its 128 MiB string limit is not modelled.",
      "Lean 4 theorems + differential correspondence (Go vs compiled Lean driver)")

claim("C12", "DESIGN.md section 7 (C12)",
      "Kernel-checked theorems over the executable model of package bep44 (bufferToSign, Check, Item.Target, CheckIncoming, Wrapper.Put/Get over an abstract store with an explicit clock) and of the put/get handlers: for every history of puts/gets/clock advances every stored item verifies for its own (salt, seq, value) under its key, respects the regenerated size limits and sits under H(k||salt) or H(value); "
      "what get serves is what is stored; a rejected put carries 205/207/206 in the order of the Go checks and leaves the store unchanged. ed25519 verification and SHA-1 are parameters of the model (no hypothesis about them is needed on the store side). "
      "Client side (exts/getput): the acceptance rule of the get traversal is checked by the direct oracle in the hostile-reply streams of C01 and by the theorems' statement of Check; a dedicated client model is not yet built. "
      "Tied to the code on every run by differential execution through the Lean driver of Wrapper.Put, wire puts and Server.Put with real ed25519 keys (signatures valid / valid for another field / bit-flipped, salts 0..70 bytes, values around 1000 encoded bytes of every bencode shape; each op carries what the signature was really made for), with a recording Store and direct oracles.",
      IDEAL + "ed25519 is instantiated in the driver as 'verifies iff made for exactly this (key, message)' (idealised EUF-CMA); the getput client side is covered by oracles only.",
      "Lean 4 theorems + differential correspondence (Go vs compiled Lean driver)")
claim("C13", "DESIGN.md section 7 (C13)",
      "Kernel-checked theorems over the bep44 model: for every sequential history the stored seq per target never decreases; lower seq or equal seq with another value => 302; a put with cas is refused with 301 unless cas equals the stored seq (the rule the code implements is selected by one flag that is differential-tested; a kept counterexample shows the pre-repair rule violates the property); an accepted put is what later gets return; get with seq sends the value only if the stored one is newer; expired items are not served. "
      "Concurrency at the granularity of the store's Get/Put/Del calls: with the wrapper's mutex held across (regenerated facts wrapperPutLocked/GetLocked/SameLock from the source), for every thread list and schedule the store equals a sequential replay of the committed operations and every step is monotone; kept counterexample schedules (lost update, fresh item deleted by an expiring get) for the lock-less variant. "
      "Tied to the code by differential histories against bep44.Wrapper and the wire, and by trace validation of concurrent Wrapper.Put/Get and Server.Put vs inbound put over a Store that parks every call until the harness's schedule releases it.",
      IDEAL + "Wall-clock expiry is exercised with short Exp values; histories whose timing is ambiguous are counted as unmodelled.",
      "Lean 4 theorems + differential correspondence + schedule-controlled trace validation")
claim("C14", "DESIGN.md section 7 (C14)",
      "Kernel-checked theorems over the small-step model of Server.Query (waiter || sender || handleResponse || environment): sends <= NumTries, every reachable non-terminal state has an enabled own step and own steps strictly decrease a measure (so every fair run returns, within 3*NumTries+11 own steps), the transaction is removed on return, the waiter returns only after the sender exited, time-out only after the last resend interval, nothing is sent by a query started after Close; "
      "traversal ownership: an abstract interpretation over the regenerated control-flow graphs of every function that starts a traversal proves, for all paths incl. loops, that each return has the operation stopped, deferred-stopped, handed to a stopping goroutine or returned to a judged caller (certificate checked by decide +kernel; the exemption list is empty since the repairs). "
      "Tied to the code by trace validation at the Conn boundary with enumerated fault placements (reply before/after each send or after time-out, cancel at each point, i-th write fails, Close mid-query, NumTries 1..4, resend delay 0 and non-zero), runtime oracles (datagrams per t, OutstandingTransactions == 0, module goroutines back to baseline after 20 repetitions) and bootstrap / announce / getput scenarios that finish, fail to start or are stopped.",
      IDEAL + "Goroutine accounting is an observation of the runtime, not a theorem.",
      "Lean 4 theorems + abstract interpretation certificate over regenerated CFGs + trace validation with fault enumeration")
claim("C20", "DESIGN.md section 7 (C20)",
      "Kernel-checked theorems over an exact-arithmetic model of the token bucket (x/time/rate advance/reserveN for n = +-1, incl. its behaviour on instants that step back) and of writeToNode's gate and the reply / error / per-query policies: grants + tokens never exceed burst + rate*t on a monotone clock, hence the prefix and any-window bounds; every rated datagram is preceded by its own grant; without budget nothing is sent (or the send waits until the token is covered); replies and errors are always rated; the policy table; "
      "regenerated source facts (single WriteTo site, limiter call dominates the write, refusal returns, give-back on error, arguments of every writeToNode call, the decision trees of the query policy). A kept counterexample shows the bound fails when instants reach the limiter out of order, which is what /repo did before repair 5c6597a. "
      "Tied to the code by differential execution of rate.Limiter against the Lean bucket on float-exact synthetic timelines and by floods of every method from many spoofed sources against real servers with tight limiters (also several servers sharing one limiter), concurrent outbound queries with every flag combination, WaitToReply on/off, injected write failures; oracle: every prefix window of observed rated writes <= burst + rate*t (sound without slack because a write follows its grant).",
      IDEAL + "x/time/rate is assumed to be the modelled bucket (differential-tested on timelines where float64 is exact). Sub-windows not anchored at the limiter's creation are judged by the theorem, not by wall-clock measurements. Reservation.Cancel on context end is not modelled (it never yields a datagram).",
      "Lean 4 theorems + regenerated structural facts + differential correspondence + flood trace validation")
