# One claim(...) per property whose check is built. Executed by bin/mkmanifest.
IDEAL = ("Trusted: Lean kernel + propext/Classical.choice/Quot.sound; theorem statements; extractor, harness and driver glue; "
         "Go runtime and third-party libraries are modelled and differential-tested, not verified. ")

claim("C18", "DESIGN.md section 7 (C18)",
      "Kernel-checked theorems over the executable model of int160, bucketIndex, randomIdInBucket, CloserThan, the sorted candidate set and the K-nearest container: "
      "metric laws, lexicographic = numeric order, bucket index = shared-prefix length, random ID lands in its bucket, closer-than is a strict total order ranking known IDs by distance first, "
      "and for every push history the container holds exactly the K nearest (up to equal-distance ties). The model is tied to the Go code on every run by differential execution of every operation "
      "(int160.*, bucket index and random-ID hooks, CloserThan, containers, k-nearest) through the compiled Lean driver, plus direct oracles on the Go results.",
      IDEAL + "K-nearest tie-breaking (per-container random hash seed) is modelled as a relation; hash collisions between different address strings (64-bit) are ignored; immutable.SortedMap assumed a correct sorted map.",
      "Lean 4 theorems + differential correspondence (Go vs compiled Lean driver)")

claim("C17", "DESIGN.md section 7 (C17)",
      "Kernel-checked theorems over the executable model of security.go (bit-by-bit CRC32-C, masks regenerated from the source, To4, SecureNodeId, NodeIdSecure, isLocalNetwork): securing touches only the first 21 bits, "
      "is idempotent, makes the ID verify; verification is exactly the BEP 42 rule on 21-bit prefixes; local ranges accept every ID; no crash on any 4/16-byte address. Tied to the Go code on every run by "
      "differential execution of SecureNodeId/NodeIdSecure/CRC through the Lean driver, an independent statement of the BEP rule in the harness, NewServer-generated IDs for configured public IPs, "
      "and (thorough) the exhaustive 2^20 masked IPv4 values x 8 seeds.",
      IDEAL + "hash/crc32 is compared against the Lean CRC on every run (not assumed). The BEP 42 test vectors are tests, not theorems.",
      "Lean 4 theorems + differential correspondence (Go vs compiled Lean driver)")

claim("C07", "DESIGN.md section 7 (C07)",
      "Kernel-checked theorems over the executable model of the transaction dispatcher and the varint ID issuer: uvarint is injective, no history of register/inbound/deregister events makes Dispatcher.Add panic, "
      "outstanding IDs are pairwise distinct, a datagram is delivered only to the query registered under exactly (source address string, t), non-matching datagrams change nothing, delivery pops the transaction (at most once). "
      "Tied to the code by trace validation at the Conn boundary: concurrent real Server.Query calls, injected genuine / near-miss / replayed datagrams each carrying a unique marker, the observed completions replayed through the Lean dispatcher, "
      "plus direct oracles (completed only by the datagram from the exact address with the exact t; Stats().OutstandingTransactions agrees).",
      IDEAL + "The process-wide ID issuer is modelled as a counter whose start value is read off the first observed ID; uint64 wrap-around after 2^64 queries is out of scope.",
      "Lean 4 theorems + trace validation of real Query histories against the Lean dispatcher")

SRV_TIE = ("Tied to the code on every run by trace validation at the ServerConfig.Conn boundary: a real dht.Server is driven through an in-memory PacketConn, "
           "every datagram it writes and every change of its routing table (snapshot hook), peer store and BEP 44 store (recording wrappers) is recorded, "
           "the history is replayed through the Lean server model by the compiled driver (nondeterministic choices - evicted entry, node selection within a bucket, token bytes - are taken from the observation and checked against the relational model), "
           "and the property's direct oracle is evaluated on what the implementation did; regenerated source facts (go/ast) are side conditions of the theorems. ")
SRV_NOTE = IDEAL + ("The BEP 44 store and the query hook are environment inputs of the server model (their answers are observed, not predicted). "
            "Go-scheduler interleavings inside one critical section are not explored: the model's atomic steps are the code between Lock and Unlock of Server.mu. ")

claim("C08", "DESIGN.md section 7 (C08)",
      "Kernel-checked theorems over the executable model of serve/processPacket/handleQuery/reply/sendError: at most one datagram per inbound datagram, destination = source, t echoed, responses carry own ID and the requester's address, "
      "unknown method -> 204, missing arguments -> 203, the six methods are always answered (valid token for the write methods), nothing for non-queries or garbage, target chosen by method. " + SRV_TIE,
      SRV_NOTE, "Lean 4 theorems + trace validation of real server histories against the Lean server model")
claim("C01", "DESIGN.md section 7 (C01)",
      "Kernel-checked theorems over the server model in which every Go panic on the inbound path is an explicit failure outcome: from every well-formed state no datagram reaches one (never_crashes), the state stays well-formed (inv_step/inv_run), "
      "the server is never closed or silenced by traffic (stays_open, still_serves), and processPacket's lock discipline is a regenerated source fact. " + SRV_TIE +
      "The hostile part of the stream (damaged structured KRPC, mutated bytes, raw bytes, hostile replies to in-flight ping/bootstrap/announce/get/put with every subset of response fields) runs in a child process so that an unrecoverable panic is reported with the datagrams that caused it; liveness is judged by a probe ping and by Stats/NumNodes/Nodes/WriteStatus returning.",
      SRV_NOTE + "Memory safety and panic-freedom of the third-party bencode decoder and of Go library code on arbitrary bytes is observed (child-process fuzz stream), not proved.",
      "Lean 4 theorems + trace validation + child-process hostile stream with liveness oracle")
claim("C05", "DESIGN.md section 7 (C05)",
      "Kernel-checked inductive invariant of the routing-table model over every history of table events and every resolution of map-iteration order: every entry has a bucket index < 160 equal to its shared-prefix length with the root, no bucket exceeds K, no two entries share ID and address, root and zero ID never enter; "
      "none of the table panics is reachable; node counts agree with the entries. " + SRV_TIE,
      SRV_NOTE + "Elapsed time is simulated through the ageing hook; generated advances are whole minutes so the implementation's extra real milliseconds never cross the 15-minute boundary.",
      "Lean 4 theorems (inductive invariant) + trace validation of real table histories")
claim("C06", "DESIGN.md section 7 (C06)",
      "Kernel-checked theorems over the routing-table model: every entry was introduced by a query or matched response from its own address carrying its ID and not flagged read-only, or by the add API (entry_provenance, update_sites as a regenerated source fact); "
      "read-only senders, ID-less messages and failed pings never add; under enforcement every entry's ID is valid for its IP; a good entry is never removed; an entry is displaced only if bad or never-responded while the newcomer just answered; an eligible sender is admitted whenever its bucket has room. " + SRV_TIE,
      SRV_NOTE, "Lean 4 theorems + trace validation of real table histories")
claim("C09", "DESIGN.md section 7 (C09)",
      "Kernel-checked theorems over the bucket-walk relation closestAllowed (the model of table.closestNodes under closestGoodNodeInfos): at most K distinct contacts, each a currently good table entry that has responded and is not the node itself and is of the requested family, "
      "bucket priority (no contact from a farther bucket while an eligible one of a nearer visited bucket is omitted), short only if exhausted, walk starts at the target's bucket (159 for the own ID); target by method is proved on the handler model (C08.target_by_method). " + SRV_TIE,
      SRV_NOTE, "Lean 4 theorems (relational spec) + trace validation of real replies against table snapshots")
claim("C10", "DESIGN.md section 7 (C10)",
      "Kernel-checked theorems: token-server level (honoured at every instant up to maxDelta whole intervals after issue, hence >= 10 min with the regenerated constants; rejected from maxDelta+1 intervals on, hence <= 15 min; bound to the 16-byte IP, independent of the port; other secret / altered token rejected, SHA-1 idealised as an injective parameter) and handler level "
      "(invalid token => no datagram, no effect, nothing but the sender's table entry changes; valid token => effect and reply; the handler's test is the token server's). " + SRV_TIE +
      "The token clock is set through the hook, so issue/use instants on both sides of every rotation boundary are exercised exactly.",
      SRV_NOTE + "SHA-1 injectivity is a hypothesis of the theorems that need it. The driver learns token bytes from observed replies and checks their consistency.",
      "Lean 4 theorems + trace validation with a controlled token clock")
claim("C11", "DESIGN.md section 7 (C11)",
      "Kernel-checked theorems over the server model with the peer store as a map keyed by (infohash, raw IP bytes): an accepted announce stores exactly (infohash, source IP, announced or implied port) and is answered; the entry persists until an announce from the same IP bytes for that infohash; "
      "every stored entry stems from an accepted announce in the history; values are stored endpoints for that infohash, 6-byte only to requesters wanting IPv4 and 18-byte only to those wanting IPv6, and every get_peers reply with a store carries a token. " + SRV_TIE,
      SRV_NOTE + "The asynchronous store update (go ps.AddPeer) is awaited by observing the recording wrapper. An announce without port and without implied_port is outside the property's quantifier and is not judged.",
      "Lean 4 theorems + trace validation of announce/get_peers histories")
claim("C19", "DESIGN.md section 7 (C19)",
      "Kernel-checked theorems over the server model: a datagram from a blocked source leaves state and output untouched; nothing passes the write gate towards a blocked destination or after close; a passive node produces no output for any datagram and marks its queries read-only; "
      "regenerated source facts: the only socket write of the module is in writeToNode after the closed and blocklist tests, serve tests the source before processPacket, the passive test precedes the method switch, makeQueryBytes sets ro under Passive. " + SRV_TIE +
      "Outbound paths (ping, AddNode-triggered ping, questionable ping, announce and bootstrap traversals seeded with blocked and unblocked addresses) are exercised and every written datagram's destination and ro flag checked.",
      SRV_NOTE, "Lean 4 theorems + regenerated structural facts + trace validation across configurations")
