# One claim(...) per property whose check is built. Executed by bin/mkmanifest.
IDEAL = ("Trusted: Lean kernel + propext/Classical.choice/Quot.sound; theorem statements; extractor, harness and driver glue; "
         "Go runtime and third-party libraries are modelled and differential-tested, not verified. ")

claim("C18", "DESIGN.md section 7 (C18)",
      "Kernel-checked theorems over the executable model of int160, bucketIndex, randomIdInBucket, CloserThan, the sorted candidate set and the K-nearest container: "
      "metric laws, lexicographic = numeric order, bucket index = shared-prefix length, random ID lands in its bucket, closer-than is a strict total order ranking known IDs by distance first, "
      "and for every push history the container holds exactly the K nearest (up to equal-distance ties). The model is tied to the Go code on every run by differential execution of every operation "
      "(int160.*, bucket index and random-ID hooks, CloserThan, containers, k-nearest) through the compiled Lean driver, plus direct oracles on the Go results.",
      IDEAL + "K-nearest tie-breaking (per-container random hash seed) is modelled as a relation; hash collisions between different address strings (64-bit) are ignored; immutable.SortedMap assumed a correct sorted map.",
      "Lean 4 theorems + differential correspondence (Go vs compiled Lean driver)")

claim("C17", "DESIGN.md section 7 (C17)",
      "Kernel-checked theorems over the executable model of security.go (bit-by-bit CRC32-C, masks regenerated from the source, To4, SecureNodeId, NodeIdSecure, isLocalNetwork): securing touches only the first 21 bits, "
      "is idempotent, makes the ID verify; verification is exactly the BEP 42 rule on 21-bit prefixes; local ranges accept every ID; no crash on any 4/16-byte address. Tied to the Go code on every run by "
      "differential execution of SecureNodeId/NodeIdSecure/CRC through the Lean driver, an independent statement of the BEP rule in the harness, NewServer-generated IDs for configured public IPs, "
      "and (thorough) the exhaustive 2^20 masked IPv4 values x 8 seeds.",
      IDEAL + "hash/crc32 is compared against the Lean CRC on every run (not assumed). The BEP 42 test vectors are tests, not theorems.",
      "Lean 4 theorems + differential correspondence (Go vs compiled Lean driver)")

claim("C07", "DESIGN.md section 7 (C07)",
      "Kernel-checked theorems over the executable model of the transaction dispatcher and the varint ID issuer: uvarint is injective, no history of register/inbound/deregister events makes Dispatcher.Add panic, "
      "outstanding IDs are pairwise distinct, a datagram is delivered only to the query registered under exactly (source address string, t), non-matching datagrams change nothing, delivery pops the transaction (at most once). "
      "Tied to the code by trace validation at the Conn boundary: concurrent real Server.Query calls, injected genuine / near-miss / replayed datagrams each carrying a unique marker, the observed completions replayed through the Lean dispatcher, "
      "plus direct oracles (completed only by the datagram from the exact address with the exact t; Stats().OutstandingTransactions agrees).",
      IDEAL + "The process-wide ID issuer is modelled as a counter whose start value is read off the first observed ID; uint64 wrap-around after 2^64 queries is out of scope.",
      "Lean 4 theorems + trace validation of real Query histories against the Lean dispatcher")
