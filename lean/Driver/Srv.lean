/-
Driver section SRV: replays a history observed at a real Server's Conn boundary
(C01, C05, C06, C08, C09, C10 handler level, C11, C19) through Model/Server.

Nondeterminism of the implementation is resolved from the observation that is
part of the op line (which droppable entry a full bucket evicted, which eligible
nodes a reply lists, the token bytes) and *checked* against the relational
model (`updateNode` choice must be droppable, `closestAllowed`, token
consistency); everything else is computed by the model and compared.
-/
import DhtVerif.Model.Server
import Driver.Util
open Dht
namespace Drv

structure SrvSt where
  root       : Id := []
  noSec      : Bool := true
  passive    : Bool := false
  hasHook    : Bool := false
  hasPS      : Bool := false
  hasCb      : Bool := false
  ranges     : List (List UInt8 × List UInt8) := []   -- blocked 16-byte ranges
  s          : Srv := {}
  -- tokens learned from replies: (ip16, interval index) ↦ bytes
  toks       : List ((List UInt8 × Nat) × List UInt8) := []

def leBytes (a b : List UInt8) : Bool := Id.cmp a b != .gt

def SrvSt.blocked (st : SrvSt) (ip : List UInt8) : Bool :=
  match to16 ip with
  | none => true          -- iplist: "bad IP" is treated as blocked
  | some v6 => st.ranges.any (fun r => leBytes r.1 v6 && leBytes v6 r.2)

def SrvSt.cfg (st : SrvSt) : SrvCfg :=
  { tbl := { root := st.root, noSecurity := st.noSec }, passive := st.passive, hasHook := st.hasHook,
    hasPeerStore := st.hasPS, hasCallback := st.hasCb, blocked := st.blocked }

/-- Token function: learned values; unknown (ip, idx) pairs get a value no datagram can carry. -/
def SrvSt.tokFn (st : SrvSt) : TokenFn := fun ip16 idx =>
  match st.toks.find? (fun e => e.1 == (ip16, idx)) with
  | some e => e.2
  | none => str "<unissued>" ++ ip16 ++ be64 idx

def parseNAddr (s : String) : Option NAddr :=
  match s.splitOn "/" with
  | [ip, port] => do
    let b ← parseBytes ip
    let p ← port.toNat?
    some ⟨b, p⟩
  | _ => none

def naddrStr (a : NAddr) : String := bytesToHex a.ip ++ "/" ++ toString a.port

/-- `id/ip/port` naming a table entry (address compared by `key`). -/
def findNode (t : Table) (s : String) : Option Node :=
  match s.splitOn "/" with
  | [id, ip, port] => do
    let i ← parseBytes id
    let b ← parseBytes ip
    let p ← port.toNat?
    t.find? (·.is ⟨b, p⟩ i)
  | _ => none

def parseOptInt (s : String) : Option (Option Int) :=
  if s == "-" then some none else s.toInt?.map some

def parseMsg : List String → Option QMsg
  | [y, q, t, hasA, id, ih, target, token, port, implied, want, seq, ro, rid] => do
    let y ← parseBytes y
    let q ← parseBytes q
    let t ← parseBytes t
    let hasA ← parseBool hasA
    let id ← parseBytes id
    let ih ← parseBytes ih
    let target ← parseBytes target
    let token ← parseBytes token
    let port ← parseOptInt port
    let implied ← parseBool implied
    let want ← allSome ((splitList want).map parseBytes)
    let seq ← parseOptInt seq
    let ro ← parseBool ro
    let rid ← parseOptBytes rid
    let a : Option QArgs := if hasA then
      some { id := id, infoHash := ih, target := target, token := token, port := port,
             impliedPort := implied, want := want, seq := seq } else none
    some { y := y, q := q, t := t, a := a, ro := ro, rid := rid }
  | _ => none

def parsePutErr (s : String) : Option (Option (Option Nat)) :=
  if s == "ok" then some none
  else if s == "x" then some (some none)
  else if s.startsWith "e" then ((s.drop 1).toString.toNat?).map (fun c => some (some c))
  else none

structure GetSpec where
  res : Option (Option (Int × Bool)) := none
  err : Option Nat := none

def parseGet (s : String) : Option GetSpec :=
  if s == "nf" then some {}
  else if s == "x" then some { res := some none }
  else if s.startsWith "e" then ((s.drop 1).toString.toNat?).map (fun c => { err := some c })
  else if s.startsWith "i" then ((s.drop 1).toString.toInt?).map (fun q => { res := some (some (q, true)) })
  else none

def outcomeStr : AddOutcome → String
  | .unchanged _ => "u"
  | .updated => "u"
  | .added => "a"
  | .replaced _ => "r"

def sortStrings (xs : List String) : List String := (xs.toArray.qsort (· < ·)).toList

def effStr : Effect → String
  | .addPeer e => "peer:" ++ bytesToHex e.ih ++ "/" ++ bytesToHex e.ip ++ "/" ++ toString e.port
  | .announceCb ih ip p ok => "cb:" ++ bytesToHex ih ++ "/" ++ bytesToHex ip ++ "/" ++ toString p ++ "/" ++ boolStr ok
  | .storePut => "put"
  | .deliver _ => "dlv"

/-- Table outcome of a step, recomputed the way the harness observes it. -/
def tblOutcome (c : SrvCfg) (s : Srv) (src : NAddr) (d : Decoded) (env : Env) (gated : Bool) : String :=
  if gated then "u" else
  match d with
  | .msg m =>
    if m.y == str "q" then
      match updateNode c.tbl s.ts.now s.ts.table src (m.a.map (·.id)) (!m.ro) (onQuery s.ts.now) env.choice with
      | some (_, o) => outcomeStr o
      | none => "panic"
    else
      let addrStr := src.key.1 ++ [0] ++ (be64 src.key.2)
      match s.txns.lookup ⟨m.t, addrStr⟩ with
      | none => "u"
      | some _ =>
        let sid := if m.y == str "r" then m.rid else none
        match updateNode c.tbl s.ts.now s.ts.table src sid (!m.ro) (onResponse s.ts.now) env.choice with
        | some (_, o) => outcomeStr o
        | none => "panic"
  | _ => "u"

def nodesOk (c : SrvCfg) (s : Srv) (fam : Node → Bool) (target : Id) (want : Bool) (obs : List String) : String :=
  if !want then (if obs.isEmpty then "ok" else "bad:unwanted") else
  match allSome (obs.map (findNode s.ts.table)) with
  | none => "bad:not-in-table"
  | some ns => if closestAllowed c.tbl s.ts.now s.ts.table fam c.returnK target ns then "ok" else "bad:selection"

def dumpNode (c : SrvCfg) (now : Nat) (n : Node) : String :=
  let b := match n.bucket c.tbl with | some i => toString i | none => "x"
  -- zero-pad the bucket for sorting
  let b := if b.length == 1 then "00" ++ b else if b.length == 2 then "0" ++ b else b
  b ++ ":" ++ bytesToHex n.id ++ ":" ++ bytesToHex n.addr.key.1 ++ "/" ++ toString n.addr.key.2 ++
  ":q" ++ boolStr n.lastQuery.isSome ++ ":r" ++ boolStr n.lastResp.isSome ++ ":f" ++ boolStr n.failed ++
  ":g" ++ boolStr (isGood c.tbl now n) ++ ":b" ++ boolStr (isBad c.tbl n)

def stepSrv (st : SrvSt) (args : List String) : SrvSt × String :=
  match args with
  | ["new", root, nosec, passive, hook, ps, cb] =>
    match parseBytes root, parseBool nosec, parseBool passive, parseBool hook, parseBool ps, parseBool cb with
    | some r, some ns, some p, some h, some ps, some cb =>
      if r.length != 20 then (st, "bad-op") else
      ({ root := r, noSec := ns, passive := p, hasHook := h, hasPS := ps, hasCb := cb }, "ok")
    | _, _, _, _, _, _ => (st, "bad-op")
  | ["blk", rs] =>
    let parsed := allSome ((splitList rs).map (fun r => match r.splitOn ":" with
      | [lo, hi] => do let l ← parseBytes lo; let h ← parseBytes hi; some (l, h)
      | _ => none))
    match parsed with
    | some rs => ({ st with ranges := rs }, "ok")
    | none => (st, "bad-op")
  | ["adv", d] =>
    match d.toNat? with
    | some d => ({ st with s := { st.s with ts := { st.s.ts with now := st.s.ts.now + d } } }, "ok")
    | none => (st, "bad-op")
  | ["close"] => ({ st with s := { st.s with closed := true } }, "ok")
  | ["reg", dst, t] =>
    match parseNAddr dst, parseBytes t with
    | some dst, some t =>
      let addrStr := dst.key.1 ++ [0] ++ (be64 dst.key.2)
      let k : TxnKey := ⟨t, addrStr⟩
      if st.s.txns.have k then (st, "panic") else
      ({ st with s := { st.s with txns := { st.s.txns with pending := st.s.txns.pending ++ [(k, 0)] } } }, "ok")
    | _, _ => (st, "bad-op")
  | ["done", dst, t] =>
    match parseNAddr dst, parseBytes t with
    | some dst, some t =>
      let addrStr := dst.key.1 ++ [0] ++ (be64 dst.key.2)
      ({ st with s := { st.s with txns := st.s.txns.deregister ⟨t, addrStr⟩ } }, "ok")
    | _, _ => (st, "bad-op")
  | ["add", id, addr, drop] =>
    match parseBytes id, parseNAddr addr with
    | some id, some addr =>
      if id.length != 20 then (st, "bad-op") else
      let ch := if drop == "-" then none else findNode st.s.ts.table drop
      if drop != "-" && ch.isNone then (st, "reject:drop-not-in-table") else
      match st.s.ts.step st.cfg.tbl (.apiAdd addr id ch) with
      | some (ts', o) => ({ st with s := { st.s with ts := ts' } }, outcomeStr o)
      | none => (st, "panic-or-bad-choice")
    | _, _ => (st, "bad-op")
  | ["pingfail", id, addr] =>
    match parseBytes id, parseNAddr addr with
    | some id, some addr =>
      match st.s.ts.step st.cfg.tbl (.pingFailed addr id) with
      | some (ts', o) => ({ st with s := { st.s with ts := ts' } }, outcomeStr o)
      | none => (st, "panic")
    | _, _ => (st, "bad-op")
  | ["table"] =>
    let c := st.cfg
    (st, toString st.s.ts.table.length ++ " " ++ joinWith "," (sortStrings (st.s.ts.table.map (dumpNode c st.s.ts.now))))
  | ["counts"] =>
    let c := st.cfg
    (st, toString (numNodes st.s.ts.table) ++ " " ++ toString (numGoodNodes c.tbl st.s.ts.now st.s.ts.table) ++ " " ++
      toString (notBadNodes c.tbl st.s.ts.table).length)
  | ["peers", ih] =>
    match parseBytes ih with
    | some ih => (st, joinWith "," (sortStrings ((peersFor st.s ih).map (fun e => bytesToHex e.1 ++ "/" ++ toString e.2))))
    | none => (st, "bad-op")
  | "in" :: src :: size :: kind :: rest =>
    match parseNAddr src, size.toNat? with
    | some src, some size =>
      -- split rest into message fields (14, only for kind m), env (4), obs (3)
      let (mf, rest') := if kind == "m" then (rest.take 14, rest.drop 14) else ([], rest)
      let d : Option Decoded :=
        if kind == "nd" then some .notDict else if kind == "ud" then some .undecodable
        else if kind == "m" then (parseMsg mf).map .msg else none
      match d, rest' with
      | some d, [hook, putE, getS, drop, otok, n4, n6] =>
        match parseBool hook, parsePutErr putE, parseGet getS, parseOptBytes otok with
        | some hook, some putErr, some gs, some otok =>
          let ch := if drop == "-" then none else findNode st.s.ts.table drop
          if drop != "-" && ch.isNone then (st, "reject:drop-not-in-table") else
          let env : Env := { hookPropagate := hook, putErr := putErr, getRes := gs.res, getErr := gs.err, choice := ch }
          let c := st.cfg
          -- learn the token this reply carries (consistency is checked below)
          let now := st.s.ts.now
          let key := (ip16Of src.ip, now / c.tokInterval)
          let known := st.toks.find? (fun e => e.1 == key)
          let st1 := match otok, known with
            | some tk, none => { st with toks := st.toks ++ [(key, tk)] }
            | _, _ => st
          let mk := st1.tokFn
          let gated := size ≥ 65536 || src.port == 0 || st.s.closed || c.blocked src.ip
          let tblO := tblOutcome c st.s src d env gated
          match serveDatagram c mk st.s src size d env with
          | none => (st, "panic-or-bad-choice")
          | some (s', outs, effs) =>
            let ws := outs.filterMap (writeGate c s')
            let effS := joinWith "," (sortStrings ((effs.filter (fun e => match e with | .deliver _ => false | _ => true)).map effStr))
            let effS := if effS == "" then "-" else effS
            let wS := match ws with
              | [] => "none"
              | [o] =>
                match o.kind with
                | .error code => "err " ++ toString code ++ " " ++ naddrStr o.dst ++ " " ++ bytesToHex o.t
                | .reply r =>
                  let tokS := match r.token, otok with
                    | none, _ => "0"
                    | some t, some ot => if t == ot then "1" else "changed"
                    | some _, none => "1"
                  let tgt := r.nodesTarget.getD []
                  let n4S := nodesOk c s' fam4 tgt (r.nodesTarget.isSome && r.want4) (splitList n4)
                  let n6S := nodesOk c s' fam6 tgt (r.nodesTarget.isSome && r.want6) (splitList n6)
                  "rep " ++ naddrStr o.dst ++ " " ++ bytesToHex o.t ++ " id=" ++ optBytesToHex o.id ++
                  " ip=" ++ (match o.ip with | some a => naddrStr a | none => "-") ++ " tok=" ++ tokS ++
                  " vals=" ++ (let v := joinWith "," (sortStrings (r.values.map (fun e => bytesToHex e.1 ++ "/" ++ toString e.2))); if v == "" then "-" else v) ++
                  " n4=" ++ n4S ++ " n6=" ++ n6S ++
                  " seq=" ++ (match r.seq with | some q => toString q | none => "-") ++ " v=" ++ boolStr r.hasV
              | _ => "multiple"
            ({ st1 with s := s' }, tblO ++ " " ++ wS ++ " eff=" ++ effS)
        | _, _, _, _ => (st, "bad-op")
      | _, _ => (st, "bad-op")
    | _, _ => (st, "bad-op")
  | _ => (st, "bad-op")

end Drv
