/- Driver section QRY (C14): validates observed query histories against the query machine. -/
import DhtVerif.Model.Query
import Driver.Util
open Dht Dht.Qry
namespace Drv

def parseObs : String → Option Obs
  | "send" => some .send
  | "sendfail" => some .sendfail
  | "reply" => some .reply
  | "cancel" => some .cancel
  | "closecall" => some .closecall
  | "closeret" => some .closeret
  | _ => none

def parseObsOutcome : String → Option ObsOutcome
  | "reply" => some .reply
  | "ctx" => some .ctx
  | "timeout" => some .timeout
  | "writeerr" => some .writeErr
  | "closed" => some .closedErr
  | "refused" => some .refused
  | "empty" => some .empty
  | _ => none

/-- `run <numTries> <closedAtStart> <cancelledAtStart> <ev,ev,…|-> <outcome>`: is the observed
history (then quiescence) one the machine can produce?
`tries <numTries>`: the number of sends a silent peer sees. -/
def stepQry (args : List String) : String :=
  match args with
  | ["run", n, c, x, evs, out] =>
    match n.toNat?, parseBool c, parseBool x, allSome ((splitList evs).map parseObs), parseObsOutcome out with
    | some n, some c, some x, some evs, some out =>
      if n > 64 || evs.length > 256 then "bad-op"
      else if acceptsRunStr n c x evs out == "accept" then "accept" else "reject"
    | _, _, _, _, _ => "bad-op"
  -- same, with the place of the rejection (for debugging a disagreement by hand)
  | ["why", n, c, x, evs, out] =>
    match n.toNat?, parseBool c, parseBool x, allSome ((splitList evs).map parseObs), parseObsOutcome out with
    | some n, some c, some x, some evs, some out =>
      if n > 64 || evs.length > 256 then "bad-op" else acceptsRunStr n c x evs out
    | _, _, _, _, _ => "bad-op"
  | ["tries", n] =>
    match n.toNat? with
    | some n => toString (effectiveTries n)
    | none => "bad-op"
  | _ => "bad-op"

end Drv
