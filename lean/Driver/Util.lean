/- Line-protocol helpers for the driver. Core Lean only. -/
namespace Drv

def hexVal (c : Char) : Option Nat :=
  if '0' ≤ c && c ≤ '9' then some (c.toNat - '0'.toNat)
  else if 'a' ≤ c && c ≤ 'f' then some (c.toNat - 'a'.toNat + 10)
  else none

def hexToBytesAux : List Char → List UInt8 → Option (List UInt8)
  | [], acc => some acc.reverse
  | [_], _ => none
  | a :: b :: rest, acc =>
    match hexVal a, hexVal b with
    | some x, some y => hexToBytesAux rest ((x * 16 + y).toUInt8 :: acc)
    | _, _ => none

/-- `_` is the empty byte string; otherwise lowercase hex. -/
def parseBytes (s : String) : Option (List UInt8) :=
  if s == "_" then some [] else hexToBytesAux s.toList []

/-- `-` is absent. -/
def parseOptBytes (s : String) : Option (Option (List UInt8)) :=
  if s == "-" then some none else (parseBytes s).map some

def hexDigit (n : Nat) : Char :=
  if n < 10 then Char.ofNat (n + '0'.toNat) else Char.ofNat (n - 10 + 'a'.toNat)

def bytesToHex (b : List UInt8) : String :=
  if b.isEmpty then "_" else
  String.ofList (b.foldr (fun x acc => hexDigit (x.toNat / 16) :: hexDigit (x.toNat % 16) :: acc) [])

def optBytesToHex : Option (List UInt8) → String
  | none => "-"
  | some b => bytesToHex b

def parseBool (s : String) : Option Bool :=
  if s == "1" || s == "true" then some true else if s == "0" || s == "false" then some false else none

def boolStr (b : Bool) : String := if b then "1" else "0"

def ordStr : Ordering → String
  | .lt => "-1"
  | .eq => "0"
  | .gt => "1"

def parseInt (s : String) : Option Int := s.toInt?

def joinWith (sep : String) (xs : List String) : String := sep.intercalate xs

/-- Split a comma separated list; `-` or empty is the empty list. -/
def splitList (s : String) : List String :=
  if s == "-" || s == "" then [] else s.splitOn ","

def allSome {α} : List (Option α) → Option (List α)
  | [] => some []
  | none :: _ => none
  | some x :: xs => (allSome xs).map (x :: ·)

end Drv
