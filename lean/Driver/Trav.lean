/-
Driver section TRAV (C02, C03, C04): replays a traversal history observed on a real
`traversal.Operation` (queries parked in `DoQuery` and released one at a time by
the harness's schedule, late AddNodes, Stop) through Model/Traversal and prints
the model's quiescent state for comparison with the snapshot hook. The only
nondeterminism (which of several equally distant elements the closest set keeps)
is taken from the observation and checked with `KNN.pushAllowed`.
-/
import DhtVerif.Model.Traversal
import Driver.Core
open Dht
namespace Drv

structure TravSt where
  target : Id := []
  k : Nat := 0
  alpha : Nat := 0
  rejIps : List (List UInt8) := []
  rejIds : List (List UInt8) := []
  needData : Bool := false
  s : Trav := {}

def TravSt.cfg (st : TravSt) : TravCfg :=
  { target := st.target, k := st.k, alpha := st.alpha,
    nodeFilter := fun n => !(st.rejIps.contains n.addr.ip) &&
      !(match n.id with | some id => st.rejIds.contains id | none => false),
    dataFilter := fun d => !st.needData || d.isSome }

def canonClosest (t : Id) (xs : List KElem) : List String :=
  sortStringsC (xs.map (fun e => bytesToHex (Id.distance e.id t) ++ "|" ++ kelemStr e))
where sortStringsC (l : List String) : List String := (l.toArray.qsort (· < ·)).toList

def travDump (st : TravSt) : String :=
  let c := st.cfg
  let s := st.s
  let infl := ((s.inflight.map (fun e => addrStr e.1)).toArray.qsort (· < ·)).toList
  let q := ((s.queried.map addrStr).toArray.qsort (· < ·)).toList
  let offer := match s.run with | .sleeping _ o => boolStr o | _ => "?"
  "out=" ++ toString s.outstanding ++ " infl=" ++ joinWith "," infl ++ " unq=" ++ joinWith "," (s.unq.map candStr) ++
  " queried=" ++ joinWith "," q ++ " closest=" ++ joinWith "," (canonClosest st.target s.closest) ++
  " have=" ++ boolStr (s.haveQuery c) ++ " offer=" ++ offer ++ " stopped=" ++ boolStr s.isStopped

def parseCands (s : String) : Option (List Cand) := allSome ((splitList s).map parseCand)

/-- Drive the stop waiter as far as it goes. -/
def stopperSettle (c : TravCfg) : Nat → Trav → Trav
  | 0, s => s
  | f + 1, s => match s.step c .stopperStep with
    | some s' => stopperSettle c f s'
    | none => s

def stepTrav (st : TravSt) (args : List String) : TravSt × String :=
  match args with
  | ["new", t, k, alpha, rej, df, rejIds] =>
    match parseBytes t, k.toNat?, alpha.toNat?, allSome ((splitList rej).map parseBytes),
        allSome ((splitList rejIds).map parseBytes) with
    | some t, some k, some alpha, some rej, some rejIds =>
      let st' : TravSt := { target := t, k := k, alpha := alpha, rejIps := rej, rejIds := rejIds, needData := df == "str" }
      -- the run goroutine starts at once and goes to sleep
      ({ st' with s := Trav.settle st'.cfg 8 {} }, "ok")
    | _, _, _, _, _ => (st, "bad-op")
  | ["addnodes", ns] =>
    match parseCands ns with
    | some ns =>
      let c := st.cfg
      let s := Trav.settle c 8 (st.s.addNodes c ns)
      let st' := { st with s := stopperSettle c 4 s }
      (st', travDump st')
    | none => (st, "bad-op")
  | ["release", addr, rid, data, nodes, nodes6, obsClosest] =>
    match (addr.splitOn "/"), parseOptBytes rid, parseOptBytes data, parseCands nodes, parseCands nodes6,
          allSome ((splitList obsClosest).map parseKElem) with
    | [ip, port], some rid, some data, some nodes, some nodes6, some obs =>
      match parseAddr ip port with
      | none => (st, "bad-op")
      | some a =>
        let c := st.cfg
        let r : QResult := { responder := rid, data := data, nodes := nodes, nodes6 := nodes6 }
        match st.s.step c (.queryReturn a r) with
        | none => (st, "reject:not-in-flight")
        | some s1 =>
          -- addClosest, relationally
          let pushes := match rid with
            | some id => c.nodeFilter ⟨some id, a⟩ && c.dataFilter data
            | none => false
          let okClosest :=
            if pushes then KNN.pushAllowed c.target c.k s1.closest ⟨rid.getD [], a, data⟩ obs
            else decide (canonClosest c.target obs = canonClosest c.target s1.closest)
          if !okClosest then (st, "reject:closest " ++ joinWith "," (canonClosest c.target (KNN.push c.target c.k s1.closest ⟨rid.getD [], a, data⟩)))
          else
          match s1.step c (.addClosest a) with
          | none => (st, "reject:model")
          | some s2 =>
            let s2 := { s2 with closest := obs }
            match (do
              let s3 ← s2.step c (.addReplyNodes a)
              let s4 ← s3.step c (.addReplyNodes6 a)
              s4.step c (.finish a)) with
            | none => (st, "reject:model")
            | some s5 =>
              let s6 := stopperSettle c 4 (Trav.settle c 8 s5)
              let st' := { st with s := s6 }
              (st', travDump st')
    | _, _, _, _, _, _ => (st, "bad-op")
  | ["stalled"] =>
    match st.s.step st.cfg (.runWake .stalledReceived) with
    | some s => let st' := { st with s := Trav.settle st.cfg 8 s }; (st', "ok")
    | none => (st, "not-offered")
  | ["stop"] =>
    let c := st.cfg
    match st.s.step c .stop with
    | some s =>
      let s := stopperSettle c 4 (Trav.settle c 8 s)
      let st' := { st with s := s }
      (st', travDump st')
    | none => (st, "reject:model")
  | ["started"] => (st, joinWith "," (st.s.started.map addrStr))
  | _ => (st, "bad-op")

end Drv
