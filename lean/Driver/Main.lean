/- Line-protocol driver: one op per line on stdin, one answer per line on stdout. -/
import Driver.Core
import Driver.Sec
import Driver.Txn
import Driver.Srv
import Driver.Trav
import Driver.Ann
import Driver.Bep44
import Driver.Rate
import Driver.Krpc
import Driver.Query
import Driver.Getput
open Drv

structure St where
  core : CoreSt := {}
  txn : TxnSt := {}
  srv : SrvSt := {}
  trav : TravSt := {}
  b44 : Drv.B44.BSt := {}
  rate : RateSt := {}

def step (s : St) (line : String) : St × String :=
  match (line.trimAscii.toString.splitOn " ").filter (· ≠ "") with
  | "I160" :: args => (s, stepI160 args)
  | "ORD" :: args => (s, stepOrd args)
  | "SET" :: args => let (c, o) := stepSet s.core args; ({ s with core := c }, o)
  | "KNN" :: args => let (c, o) := stepKnn s.core args; ({ s with core := c }, o)
  | "SEC" :: args => (s, stepSec args)
  | "SRV" :: args => let (c, o) := stepSrv s.srv args; ({ s with srv := c }, o)
  | "TRAV" :: args => let (c, o) := stepTrav s.trav args; ({ s with trav := c }, o)
  | "ANN" :: args => (s, stepAnn args)
  | "B44" :: args => let (b, o) := Drv.B44.stepB44 s.b44 args; ({ s with b44 := b }, o)
  | "RATE" :: args => let (c, o) := stepRate s.rate args; ({ s with rate := c }, o)
  | "KRPC" :: args => (s, stepKrpc args)
  | "GETPUT" :: args => (s, Drv.Getput.stepGetput args)
  | "QRY" :: args => (s, stepQry args)
  | "TXN" :: args => let (c, o) := stepTxn s.txn args; ({ s with txn := c }, o)
  | _ => (s, "bad-op")

partial def loop (h : IO.FS.Stream) (out : IO.FS.Stream) (s : St) : IO Unit := do
  let line ← h.getLine
  if line.isEmpty then return ()
  let (s', o) := step s line
  out.putStrLn o
  loop h out s'

def main : IO Unit := do
  let stdin ← IO.getStdin
  let stdout ← IO.getStdout
  loop stdin stdout {}
