/- Driver sections for the metric, orders and containers (C18). -/
import DhtVerif.Model.Containers
import Driver.Util
open Dht
namespace Drv

def parseAddr (ip port : String) : Option Addr := do
  let b ← parseBytes ip
  let p ← port.toNat?
  some (Addr.ofBytes b p)

/-- `id/ip/port`, id `-` when unknown. -/
def parseCand (s : String) : Option Cand :=
  match s.splitOn "/" with
  | [id, ip, port] => do
    let i ← parseOptBytes id
    let a ← parseAddr ip port
    some ⟨i, a⟩
  | _ => none

def addrStr (a : Addr) : String := bytesToHex a.ip ++ "/" ++ toString a.port
def candStr (c : Cand) : String := optBytesToHex c.id ++ "/" ++ addrStr c.addr

/-- `id/ip/port/data`. -/
def parseKElem (s : String) : Option KElem :=
  match s.splitOn "/" with
  | [id, ip, port, data] => do
    let i ← parseBytes id
    let a ← parseAddr ip port
    let d ← parseOptBytes data
    some ⟨i, a, d⟩
  | _ => none

def kelemStr (e : KElem) : String :=
  bytesToHex e.id ++ "/" ++ addrStr e.addr ++ "/" ++ optBytesToHex e.data

structure CoreSt where
  setTarget : Id := []
  set : List Cand := []
  knnTarget : Id := []
  knnK : Nat := 0
  knn : List KElem := []

def len20 (b : List UInt8) : Bool := b.length == 20

def stepI160 (args : List String) : String :=
  match args with
  | ["xor", a, b] =>
    match parseBytes a, parseBytes b with
    | some a, some b => if len20 a && len20 b then bytesToHex (Id.xor a b) else "bad-op"
    | _, _ => "bad-op"
  | ["cmp", a, b] =>
    match parseBytes a, parseBytes b with
    | some a, some b => if len20 a && len20 b then ordStr (Id.cmp a b) else "bad-op"
    | _, _ => "bad-op"
  | ["bitlen", a] =>
    match parseBytes a with
    | some a => if len20 a then toString (Id.bitLen a) else "bad-op"
    | _ => "bad-op"
  | ["iszero", a] =>
    match parseBytes a with
    | some a => if len20 a then boolStr (Id.isZero a) else "bad-op"
    | _ => "bad-op"
  | ["getbit", a, i] =>
    match parseBytes a, i.toNat? with
    | some a, some i => if len20 a && i < 160 then boolStr (Id.getBit a i) else "bad-op"
    | _, _ => "bad-op"
  | ["setbit", a, i, v] =>
    match parseBytes a, i.toNat?, parseBool v with
    | some a, some i, some v => if len20 a && i < 160 then bytesToHex (Id.setBit a i v) else "bad-op"
    | _, _, _ => "bad-op"
  | ["bucket", root, id] =>
    match parseBytes root, parseBytes id with
    | some r, some i =>
      if len20 r && len20 i then
        match bucketIndex r i with
        | some n => toString n
        | none => "panic"
      else "bad-op"
    | _, _ => "bad-op"
  -- `rndbucket root i out`: the Go draw is internal; the model is applied to the
  -- output itself (the construction is idempotent on its own results) and the
  -- bucket of the output is reported.
  | ["rndbucket", root, i, out] =>
    match parseBytes root, i.toNat?, parseBytes out with
    | some r, some i, some o =>
      if len20 r && len20 o && i < 160 then
        let fix := randomIdInBucket o r i == o
        match bucketIndex r o with
        | some n => boolStr fix ++ " " ++ toString n
        | none => "panic"
      else "bad-op"
    | _, _, _ => "bad-op"
  | ["rnd", rnd, root, i] =>
    match parseBytes rnd, parseBytes root, i.toNat? with
    | some x, some r, some i =>
      if len20 r && len20 x && i < 160 then bytesToHex (randomIdInBucket x r i) else "bad-op"
    | _, _, _ => "bad-op"
  | _ => "bad-op"

def stepOrd (args : List String) : String :=
  match args with
  | ["closer", t, l, r] =>
    match parseBytes t, parseCand l, parseCand r with
    | some t, some l, some r => boolStr (closerThan t l r)
    | _, _, _ => "bad-op"
  | ["addrcmp", l, r] =>
    match parseCand l, parseCand r with
    | some l, some r => ordStr (l.addr.cmp r.addr)
    | _, _ => "bad-op"
  | _ => "bad-op"

def stepSet (s : CoreSt) (args : List String) : CoreSt × String :=
  match args with
  | ["new", t] =>
    match parseBytes t with
    | some t => ({ s with setTarget := t, set := [] }, "ok")
    | none => (s, "bad-op")
  | ["add", c] =>
    match parseCand c with
    | some c => let n := SSet.add s.setTarget s.set c; ({ s with set := n }, toString n.length)
    | none => (s, "bad-op")
  | ["del", c] =>
    match parseCand c with
    | some c => let n := SSet.delete s.setTarget s.set c; ({ s with set := n }, toString n.length)
    | none => (s, "bad-op")
  | ["next"] =>
    match SSet.next s.set with
    | some c => (s, candStr c)
    | none => (s, "panic")
  | ["len"] => (s, toString s.set.length)
  | ["dump"] => (s, joinWith "," (s.set.map candStr))
  | _ => (s, "bad-op")

/-- KNN: relational. `push e new...` carries the implementation's contents
after the push; the model accepts or rejects the step and adopts `new`. -/
def stepKnn (s : CoreSt) (args : List String) : CoreSt × String :=
  match args with
  | ["new", t, k] =>
    match parseBytes t, k.toNat? with
    | some t, some k => ({ s with knnTarget := t, knnK := k, knn := [] }, "ok")
    | _, _ => (s, "bad-op")
  | ["push", e, new] =>
    match parseKElem e, allSome ((splitList new).map parseKElem) with
    | some e, some new =>
      if KNN.pushAllowed s.knnTarget s.knnK s.knn e new then
        let detOk := KNN.pushAllowed s.knnTarget s.knnK s.knn e (KNN.push s.knnTarget s.knnK s.knn e)
        ({ s with knn := new }, if detOk then "accept" else "reject:det-model")
      else (s, "reject")
    | _, _ => (s, "bad-op")
  | ["farthest"] =>
    match KNN.farthest s.knn with
    | some e => (s, toString (e.dist s.knnTarget))
    | none => (s, "panic")
  | ["full"] => (s, boolStr (KNN.full s.knnK s.knn))
  | ["len"] => (s, toString s.knn.length)
  | _ => (s, "bad-op")

end Drv
