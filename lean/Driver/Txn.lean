/- Driver section TXN (C07): replays a history of registrations / inbound datagrams / completions. -/
import DhtVerif.Model.Txn
import Driver.Util
open Dht
namespace Drv

structure TxnSt where
  s : Txns := {}

def stepTxn (st : TxnSt) (args : List String) : TxnSt × String :=
  match args with
  | ["init", n] =>
    match n.toNat? with
    | some n => ({ s := { next := n, pending := [] } }, "ok")
    | none => (st, "bad-op")
  | ["uvarint", n] =>
    match n.toNat? with
    | some n => (st, bytesToHex (uvarint n))
    | none => (st, "bad-op")
  -- `reg q dst t`: the implementation sent a query with transaction ID t to dst.
  | ["reg", q, dst, t] =>
    match q.toNat?, parseBytes dst, parseBytes t with
    | some q, some dst, some t =>
      match st.s.register q dst with
      | none => (st, "panic")
      | some (s', k) => if k.t == t then ({ s := s' }, "ok") else (st, "mismatch:" ++ bytesToHex k.t)
    | _, _, _ => (st, "bad-op")
  | ["in", src, t] =>
    match parseBytes src, parseBytes t with
    | some src, some t =>
      let (s', r) := st.s.inbound src t
      ({ s := s' }, match r with | some q => "deliver " ++ toString q | none => "none")
    | _, _ => (st, "bad-op")
  | ["done", dst, t] =>
    match parseBytes dst, parseBytes t with
    | some dst, some t => ({ s := st.s.deregister ⟨t, dst⟩ }, "ok")
    | _, _ => (st, "bad-op")
  | ["pending"] => (st, toString st.s.pending.length)
  | _ => (st, "bad-op")

end Drv
