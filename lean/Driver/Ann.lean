/- Driver section ANN (C16): validates an observed announce run against Model/Announce. -/
import DhtVerif.Model.Announce
import Driver.Core
open Dht
namespace Drv

/-- `ip/port/id/token|-` -/
def parseGpResp (s : String) : Option GpResp :=
  match s.splitOn "/" with
  | [ip, port, id, tok] => do
    let a ← parseAddr ip port
    let i ← parseBytes id
    let t ← parseOptBytes tok
    some ⟨a, i, t⟩
  | _ => none

/-- `ip/port/token` -/
def parseAnnOut (s : String) : Option AnnounceOut :=
  match s.splitOn "/" with
  | [ip, port, tok] => do
    let a ← parseAddr ip port
    let t ← parseBytes tok
    some ⟨a, t⟩
  | _ => none

def stepAnn (args : List String) : String :=
  match args with
  | ["check", target, k, resps, outs] =>
    match parseBytes target, k.toNat?, allSome ((splitList resps).map parseGpResp), allSome ((splitList outs).map parseAnnOut) with
    | some t, some k, some rs, some os =>
      if announceAllowed t k (fun _ => true) rs os then "ok" else "reject"
    | _, _, _, _ => "bad-op"
  | _ => "bad-op"

end Drv
