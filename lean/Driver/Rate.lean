/- Driver section RATE (C20): token bucket, write gate, send policies. -/
import DhtVerif.Model.Rate
import DhtVerif.Model.RateCancel
import Driver.Util
open Dht
namespace Drv

structure RateSt where
  b : Option Bucket := none
  /-- limiter with `lastEvent`, for the `c…`/`cancel` ops (independent of `b`) -/
  c : Option CBucket := none
  /-- reservations handed out by `creserve`, by id (never removed) -/
  resv : Array Resv := #[]

def cstateStr (c : CBucket) : String :=
  toString c.b.tokens ++ " " ++ toString c.b.last ++ " " ++ toString c.lastEvent

def rateOutcomeStr : Outcome → String
  | .wrote => "wrote"
  | .errClosed => "err:closed"
  | .errBlocked => "err:blocked"
  | .errRateLimited => "err:ratelimited"
  | .errWait => "err:wait"
  | .waitsUntil t => "wait:" ++ toString t

def qendStr : QEnd → String
  | .ok => "ok"
  | .timeout => "timeout"
  | .err o => rateOutcomeStr o
  | .errWrite => "err:write"

def policyStr (p : SendPolicy) : String := boolStr p.wait ++ " " ++ boolStr p.rate

/-- `-` = no bound -/
def parseOptNat (s : String) : Option (Option Nat) :=
  if s == "-" then some none else s.toNat?.map some

def stepRate (s : RateSt) (args : List String) : RateSt × String :=
  match args with
  | ["new", p, q, burst, t0] =>
    match p.toNat?, q.toNat?, burst.toNat?, t0.toNat? with
    | some p, some q, some burst, some t0 =>
      if q = 0 then (s, "bad-op") else ({ s with b := some (Bucket.new p q burst t0) }, "ok")
    | _, _, _, _ => (s, "bad-op")
  | ["newinf"] => ({ s with b := some Bucket.newInf }, "ok")
  | ["allow", t] =>
    match s.b, t.toNat? with
    | some b, some t => let r := b.allow t; ({ s with b := some r.2 }, boolStr r.1)
    | _, _ => (s, "bad-op")
  | ["reserve", t, m] =>
    match s.b, t.toNat?, parseOptNat m with
    | some b, some t, some m =>
      let r := b.reserve t m
      ({ s with b := some r.2 }, match r.1 with | some a => toString a | none => "no")
    | _, _, _ => (s, "bad-op")
  | ["give", t] =>
    match s.b, t.toNat? with
    | some b, some t => let r := b.giveBack t; ({ s with b := some r.2 }, boolStr r.1)
    | _, _ => (s, "bad-op")
  | ["gate", closed, blocked, rate, wait, m, t] =>
    match s.b, parseBool closed, parseBool blocked, parseBool rate, parseBool wait, parseOptNat m, t.toNat? with
    | some b, some c, some bl, some r, some w, some m, some t =>
      let o := sendGate c bl r w m b t
      ({ s with b := some o.2 }, rateOutcomeStr o.1)
    | _, _, _, _, _, _, _ => (s, "bad-op")
  | ["gatef", closed, blocked, rate, wait, m, t, wok] =>
    match s.b, parseBool closed, parseBool blocked, parseBool rate, parseBool wait, parseOptNat m, t.toNat?, parseBool wok with
    | some b, some c, some bl, some r, some w, some m, some t, some wok =>
      let o := sendGate c bl r w m b t
      match o.1 with
      | .wrote =>
        if wok then ({ s with b := some o.2 }, "wrote")
        else ({ s with b := some (afterWriteError r o.2 t).2 }, "wrote+fail")
      | out => ({ s with b := some o.2 }, rateOutcomeStr out)
    | _, _, _, _, _, _, _, _ => (s, "bad-op")
  | ["query", nf, na, wr, nwf, closed, blocked, m, delay, resp, failAt, tries, t] =>
    match s.b, parseBool nf, parseBool na, parseBool wr, parseBool nwf, parseBool closed, parseBool blocked with
    | some b, some nf, some na, some wr, some nwf, some c, some bl =>
      match parseOptNat m, delay.toNat?, parseBool resp, failAt.toNat?, tries.toNat?, t.toNat? with
      | some m, some delay, some resp, some failAt, some tries, some t =>
        let r := querySend ⟨nf, na, wr, nwf⟩ c bl m delay resp failAt tries 0 0 b t
        ({ s with b := some r.2.2 }, toString r.1 ++ " " ++ qendStr r.2.1)
      | _, _, _, _, _, _ => (s, "bad-op")
    | _, _, _, _, _, _, _ => (s, "bad-op")
  | ["within", p, q, burst, n, dt] =>
    match p.toNat?, q.toNat?, burst.toNat?, n.toNat?, dt.toNat? with
    | some p, some q, some burst, some n, some dt => (s, boolStr (withinBudget p q burst n dt))
    | _, _, _, _, _ => (s, "bad-op")
  | ["wfail", rate, t] =>
    match s.b, parseBool rate, t.toNat? with
    | some b, some r, some t =>
      let o := afterWriteError r b t
      ({ s with b := some o.2 }, match o.1 with | some g => boolStr g | none => "-")
    | _, _, _ => (s, "bad-op")
  | ["cnew", p, q, burst, t0] =>
    match p.toNat?, q.toNat?, burst.toNat?, t0.toNat? with
    | some p, some q, some burst, some t0 =>
      if q = 0 then (s, "bad-op") else ({ s with c := some (CBucket.new p q burst t0), resv := #[] }, "ok")
    | _, _, _, _ => (s, "bad-op")
  | ["callow", t] =>
    match s.c, t.toNat? with
    | some c, some t => let r := c.allow t; ({ s with c := some r.2 }, boolStr r.1)
    | _, _ => (s, "bad-op")
  | ["creserve", t, m] =>
    match s.c, t.toNat?, parseOptNat m with
    | some c, some t, some m =>
      let r := c.reserve t m
      match r.1 with
      | some rv =>
        ({ s with c := some r.2, resv := s.resv.push rv },
         -- only what the Go side can observe: the id and the slot
         toString s.resv.size ++ " " ++ toString rv.slot)
      | none => ({ s with c := some r.2 }, "no")
    | _, _, _ => (s, "bad-op")
  | ["cgive", t] =>
    match s.c, t.toNat? with
    | some c, some t => let r := c.giveBack t; ({ s with c := some r.2 }, boolStr r.1)
    | _, _ => (s, "bad-op")
  | ["cancel", id, t] =>
    match s.c, id.toNat?, t.toNat? with
    | some c, some id, some t =>
      match s.resv[id]? with
      | some rv =>
        let c' := c.cancelAt rv t
        -- the limiter's fields are not observable from Go; later allow/reserve answers are
        ({ s with c := some c' }, "ok")
      | none => (s, "bad-op")
    | _, _, _ => (s, "bad-op")
  | ["cstate"] =>
    match s.c with
    | some c => (s, cstateStr c)
    | none => (s, "bad-op")
  | ["policy", "q", first, nf, na, wr, nwf] =>
    match parseBool first, parseBool nf, parseBool na, parseBool wr, parseBool nwf with
    | some first, some nf, some na, some wr, some nwf => (s, policyStr (queryPolicy first ⟨nf, na, wr, nwf⟩))
    | _, _, _, _, _ => (s, "bad-op")
  | ["policy", "reply", w] =>
    match parseBool w with
    | some w => (s, policyStr (replyPolicy w))
    | none => (s, "bad-op")
  | ["policy", "error"] => (s, policyStr errorPolicy)
  | _ => (s, "bad-op")

end Drv
