/- Driver section SEC (C17). -/
import DhtVerif.Model.Security
import Driver.Util
open Dht
namespace Drv

def stepSec (args : List String) : String :=
  match args with
  | ["crc", b] =>
    match parseBytes b with
    | some b => toString (crc32c b).toNat
    | none => "bad-op"
  | ["secure", id, ip] =>
    match parseBytes id, parseBytes ip with
    | some id, some ip =>
      if id.length != 20 then "bad-op" else
      match secureNodeId id ip with
      | some r => bytesToHex r
      | none => "panic"
    | _, _ => "bad-op"
  | ["valid", id, ip] =>
    match parseBytes id, parseBytes ip with
    | some id, some ip =>
      if id.length != 20 then "bad-op" else
      match nodeIdSecure id ip with
      | some r => boolStr r
      | none => "panic"
    | _, _ => "bad-op"
  | ["local", ip] =>
    match parseBytes ip with
    | some ip => boolStr (isLocalNetwork ip)
    | none => "bad-op"
  | _ => "bad-op"

end Drv
