/-
Driver section KRPC (C15).

Dump of a message (one token, no spaces), written by harness/c15.go and by this file:

  Msg   := Q|A|T|Y|R|E|IP|RO|V                 Q,T,Y,V bytes; RO 0/1; A, R, E, IP `-` when absent
  A     := id;info_hash;target;token;port;implied_port;want;noseed;scrape;v;seq;cas;k;salt;sig
  R     := id;nodes;nodes6;token;values;BFsd;BFpe;interval;num;samples;v;k;sig;seq
  E     := code/msg          IP := ip/port
  bytes := lowercase hex, `_` = empty;  optional things `-` = absent (nil pointer / nil slice)
  lists := `[]` = empty, otherwise comma separated; node = id/ip/port; addr = ip/port
  v     := hex of the canonical bencoding of the value (MsgArgs.V and Bep44Return.V)

Ops: enc <Msg> | dec <hex> | cls <hex> | bdec <hex> | compact <kind> <hex> | cenc <kind> <list>
     | nodeaddr <hex> | nodeinfo <hex> | idb <hex> | addrb <hex> | errb <hex> | compactb <kind> <hex>
-/
import DhtVerif.Model.Krpc
import Driver.Util
open Dht Dht.Benc Dht.Krpc
namespace Drv
namespace K

def parseOpt {α} (f : String → Option α) (s : String) : Option (Option α) :=
  if s == "-" then some none else (f s).map some

def parseListOf {α} (f : String → Option α) (s : String) : Option (List α) :=
  if s == "[]" then some [] else allSome ((s.splitOn ",").map f)

def parseFixed (n : Nat) (s : String) : Option (List UInt8) :=
  match parseBytes s with
  | some b => if b.length == n then some b else none
  | none => none

def parseBV (s : String) : Option BV :=
  match parseBytes s with
  | some b => decodeAll b
  | none => none

def parseAddr (s : String) : Option NodeAddr :=
  match s.splitOn "/" with
  | [ip, port] => do
    let i ← parseBytes ip
    let p ← port.toNat?
    some ⟨i, p⟩
  | _ => none

def parseNode (s : String) : Option NodeInfo :=
  match s.splitOn "/" with
  | [id, ip, port] => do
    let d ← parseFixed 20 id
    let i ← parseBytes ip
    let p ← port.toNat?
    some ⟨d, ⟨i, p⟩⟩
  | _ => none

def parseErr (s : String) : Option KError :=
  match s.splitOn "/" with
  | [code, msg] => do
    let c ← code.toInt?
    let m ← parseBytes msg
    some ⟨c, m⟩
  | _ => none

def parseArgs (s : String) : Option MsgArgs :=
  match s.splitOn ";" with
  | [id, ih, tg, tok, port, imp, want, noseed, scrape, v, seq, cas, k, salt, sig] => do
    let id ← parseFixed 20 id
    let infoHash ← parseFixed 20 ih
    let target ← parseFixed 20 tg
    let token ← parseBytes tok
    let port ← parseOpt String.toInt? port
    let impliedPort ← parseBool imp
    let want ← parseOpt (parseListOf parseBytes) want
    let noSeed ← noseed.toInt?
    let scrape ← scrape.toInt?
    let v ← parseOpt parseBV v
    let seq ← parseOpt String.toInt? seq
    let cas ← cas.toInt?
    let k ← parseFixed 32 k
    let salt ← parseOpt parseBytes salt
    let sig ← parseFixed 64 sig
    some { id, infoHash, target, token, port, impliedPort, want, noSeed, scrape, v, seq, cas, k, salt, sig }
  | _ => none

def parseReturn (s : String) : Option Return :=
  match s.splitOn ";" with
  | [id, nodes, nodes6, tok, values, bfsd, bfpe, interval, num, samples, v, k, sig, seq] => do
    let id ← parseFixed 20 id
    let nodes ← parseOpt (parseListOf parseNode) nodes
    let nodes6 ← parseOpt (parseListOf parseNode) nodes6
    let token ← parseOpt parseBytes tok
    let values ← parseOpt (parseListOf parseAddr) values
    let bfsd ← parseOpt (parseFixed 256) bfsd
    let bfpe ← parseOpt (parseFixed 256) bfpe
    let interval ← parseOpt String.toInt? interval
    let num ← parseOpt String.toInt? num
    let samples ← parseOpt (parseListOf (parseFixed 20)) samples
    let v ← parseOpt parseBV v
    let k ← parseFixed 32 k
    let sig ← parseFixed 64 sig
    let seq ← parseOpt String.toInt? seq
    some { id, nodes, nodes6, token, values, bfsd, bfpe, interval, num, samples, v, k, sig, seq }
  | _ => none

def parseMsg (s : String) : Option Msg :=
  match s.splitOn "|" with
  | [q, a, t, y, r, e, ip, ro, v] => do
    let q ← parseBytes q
    let a ← parseOpt parseArgs a
    let t ← parseBytes t
    let y ← parseBytes y
    let r ← parseOpt parseReturn r
    let e ← parseOpt parseErr e
    let ip ← parseOpt parseAddr ip
    let readOnly ← parseBool ro
    let clientId ← parseBytes v
    some { q, a, t, y, r, e, ip, readOnly, clientId }
  | _ => none

/-! Printing -/

def optStr {α} (f : α → String) : Option α → String
  | none => "-"
  | some x => f x

def listStr {α} (f : α → String) (l : List α) : String :=
  if l.isEmpty then "[]" else joinWith "," (l.map f)

def intStr (i : Int) : String := toString i
def addrStr (a : NodeAddr) : String := bytesToHex a.ip ++ "/" ++ toString a.port
def nodeStr (n : NodeInfo) : String := bytesToHex n.id ++ "/" ++ addrStr n.addr
def bvStr (v : BV) : String := bytesToHex (enc v)
def errStr (e : KError) : String := intStr e.code ++ "/" ++ bytesToHex e.msg

def argsStr (a : MsgArgs) : String :=
  joinWith ";" [bytesToHex a.id, bytesToHex a.infoHash, bytesToHex a.target, bytesToHex a.token,
    optStr intStr a.port, boolStr a.impliedPort, optStr (listStr bytesToHex) a.want, intStr a.noSeed,
    intStr a.scrape, optStr bvStr a.v, optStr intStr a.seq, intStr a.cas, bytesToHex a.k,
    optStr bytesToHex a.salt, bytesToHex a.sig]

def returnStr (r : Return) : String :=
  joinWith ";" [bytesToHex r.id, optStr (listStr nodeStr) r.nodes, optStr (listStr nodeStr) r.nodes6,
    optStr bytesToHex r.token, optStr (listStr addrStr) r.values, optStr bytesToHex r.bfsd,
    optStr bytesToHex r.bfpe, optStr intStr r.interval, optStr intStr r.num,
    optStr (listStr bytesToHex) r.samples, optStr bvStr r.v, bytesToHex r.k, bytesToHex r.sig,
    optStr intStr r.seq]

def msgStr (m : Msg) : String :=
  joinWith "|" [bytesToHex m.q, optStr argsStr m.a, bytesToHex m.t, bytesToHex m.y, optStr returnStr m.r,
    optStr errStr m.e, optStr addrStr m.ip, boolStr m.readOnly, bytesToHex m.clientId]

def resultStr {α} (f : α → String) : DecodeResult α → String
  | .ok x => f x
  | .err => "err"
  | .unmodelled => "unmodelled"

def classStr {α} : DecodeResult α → String
  | .ok _ => "ok"
  | .err => "err"
  | .unmodelled => "unmodelled"

def binStr {α} (f : α → String) : BinResult α → String
  | .ok x => f x
  | .error => "err"
  | .crash => "crash"

/-- Element size and shape of the five compact list types. -/
def compactSize (kind : String) : Option Nat :=
  if kind == "na4" then some Gen.sizeNodeAddr4
  else if kind == "na6" then some Gen.sizeNodeAddr6
  else if kind == "ni4" then some Gen.sizeNodeInfo4
  else if kind == "ni6" then some Gen.sizeNodeInfo6
  else if kind == "ih" then some Gen.sizeInfohash
  else none

def compactElemStr (kind : String) (c : List UInt8) : String :=
  if kind == "ni4" || kind == "ni6" then nodeStr (NodeInfo.ofBytes c)
  else if kind == "na4" || kind == "na6" then addrStr (NodeAddr.ofBytes c)
  else bytesToHex c

def compactDecStr (kind : String) (b : List UInt8) : String :=
  match compactSize kind with
  | none => "bad-op"
  | some size =>
    match decCompact size b with
    | none => "err"
    | some cs => listStr (compactElemStr kind) cs

/-- Binary marshalling of a compact list; `panic` when an element does not have the list's width. -/
def compactEncStr (kind : String) (l : String) : String :=
  match compactSize kind with
  | none => "bad-op"
  | some size =>
    let out (elems : List (List UInt8)) : String :=
      if elems.all (·.length == size) then bytesToHex (encCompact elems) else "panic"
    if kind == "ni4" then
      match parseListOf parseNode l with
      | some ns => out (ns.map (fun n => n.id ++ ((ipTo4 n.addr.ip).getD [] ++ be16 n.addr.port)))
      | none => "bad-op"
    else if kind == "ni6" then
      match parseListOf parseNode l with
      | some ns => out (ns.map (fun n => n.id ++ ((ipTo16 n.addr.ip).getD [] ++ be16 n.addr.port)))
      | none => "bad-op"
    else if kind == "na4" then
      match parseListOf parseAddr l with
      | some as => out (as.map (fun a => (ipTo4 a.ip).getD a.ip ++ be16 a.port))
      | none => "bad-op"
    else if kind == "na6" then
      match parseListOf parseAddr l with
      | some as => out (as.map (fun a => (ipTo16 a.ip).getD [] ++ be16 a.port))
      | none => "bad-op"
    else
      match parseListOf (parseFixed 20) l with
      | some hs => out hs
      | none => "bad-op"

/-- A bencoded byte string handed to a custom `UnmarshalBencode` whose target is a Go string or
byte slice: strict string → `f`; an integer, or anything that starts with a digit but is not a
complete strict string, is certainly an error; lists and dictionaries go through the reflection
decoder's coercions (not transcribed). -/
def onBencodedString (raw : List UInt8) (f : List UInt8 → String) : String :=
  match decodeAll raw with
  | some (.bytes b) => f b
  | some (.int _) => "err"
  | some _ => "unmodelled"
  | none =>
    match raw with
    | c :: _ => if isDigit c then "err" else "unmodelled"
    | [] => "err"

end K

open K in
def stepKrpc (args : List String) : String :=
  match args with
  | ["enc", dump] =>
    match parseMsg dump with
    | some m => if m.encPanics then "panic" else bytesToHex (encodeMsg m)
    | none => "bad-op"
  | ["dec", b] =>
    match parseBytes b with
    | some bs =>
      resultStr (fun (p : Msg × Nat) => if p.2 == 0 then "ok:" ++ msgStr p.1 else "ok-trailing:" ++ msgStr p.1)
        (decodeMsg bs)
    | none => "bad-op"
  | ["cls", b] =>
    match parseBytes b with
    | some bs => classStr (decodeMsg bs)
    | none => "bad-op"
  | ["bdec", b] =>
    match parseBytes b with
    | some bs =>
      match decode bs with
      | some (v, rest) => bytesToHex (enc v) ++ "/" ++ toString rest.length
      | none => "err"
    | none => "bad-op"
  | ["compact", kind, b] =>
    match parseBytes b with
    | some bs => compactDecStr kind bs
    | none => "bad-op"
  | ["cenc", kind, l] => compactEncStr kind l
  | ["nodeaddr", b] =>
    match parseBytes b with
    | some bs => binStr addrStr (NodeAddr.unmarshalBinary bs)
    | none => "bad-op"
  | ["nodeinfo", b] =>
    match parseBytes b with
    | some bs => binStr nodeStr (NodeInfo.unmarshalBinary nodeInfoGuarded bs)
    | none => "bad-op"
  | ["idb", b] =>
    match parseBytes b with
    | some raw => onBencodedString raw (fun s => if s.length < 20 then "err" else bytesToHex (s.take 20))
    | none => "bad-op"
  | ["addrb", b] =>
    match parseBytes b with
    | some raw => onBencodedString raw (fun s => binStr addrStr (NodeAddr.unmarshalBinary s))
    | none => "bad-op"
  | ["errb", b] =>
    match parseBytes b with
    | some raw =>
      match decodeAll raw with
      | none => "err"
      | some v =>
        match getErr (some v) with
        | .ok (some e) => errStr e
        | .ok none => "bad-op"
        | .err => "err"
        | .unmodelled => "unmodelled"
    | none => "bad-op"
  | ["compactb", kind, b] =>
    match parseBytes b with
    | some raw => onBencodedString raw (compactDecStr kind)
    | none => "bad-op"
  | _ => "bad-op"

end Drv
