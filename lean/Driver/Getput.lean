/- Driver section GETPUT (C12 client side): replays the outcomes of a get traversal's queries on
Model/Getput. `H` = the SHA-1 of Driver/Bep44.lean; `verify` = "the signature verifies iff it was
really made for this (key, message)", from what each reply of the op line says its signature
was made for (idealised EUF-CMA, as in the B44 section). Stateless.

  event   := x                                   no `r` dictionary (error reply, silence, undecodable)
           | v/k/sig/seq/token/sigKey/sigMsg     v, k, sig, token: hex | `_` | `-` (absent); seq: int | `-`;
                                                 sigKey sigMsg: what sig was made for, `-` `-` = nothing
  result  := notfound | imm <v> <sig> | mut <seq> <v> <sig>

  GETPUT fold <target> <salt> <events>            -> result of Get for this arrival order
  GETPUT check <target> <salt> <events> <result>  -> ok | reject   (order-free: Model `getAllowed`)
  GETPUT autoseq <target> <salt> <events>         -> the number Put hands to seqToPut
  GETPUT closest <events>                         -> per event `-` | token the closure leaves for the closest set
-/
import DhtVerif.Model.Getput
import Driver.Bep44
open Dht Dht.B44 Dht.Getput
namespace Drv.Getput

structure PEvent where
  ev  : Event
  sig : Option (Bytes × Bytes × Bytes)      -- (sig, key, message it was made for)

def parseOptInt (s : String) : Option (Option Int) :=
  if s == "-" then some none else (parseInt s).map some

def parseEvent (s : String) : Option PEvent :=
  if s == "x" then some ⟨none, none⟩ else
  match s.splitOn "/" with
  | [v, k, sig, seq, tok, sk, sm] => do
    let v ← parseOptBytes v
    let k ← parseOptBytes k
    let sg ← parseOptBytes sig
    let seq ← parseOptInt seq
    let tok ← parseOptBytes tok
    let sgB := sg.getD (Drv.B44.zeros 64)
    let made ← (if sk == "-" && sm == "-" then some none else do
      let sk ← parseBytes sk
      let sm ← parseBytes sm
      some (some (sgB, sk, sm)))
    some ⟨some ⟨v, k.getD (Drv.B44.zeros 32), sgB, seq, tok⟩, made⟩
  | _ => none

def parseEvents (s : String) : Option (List PEvent) := allSome ((splitList s).map parseEvent)

def verifyOf (pes : List PEvent) : Key → Bytes → Bytes → Bool :=
  let table := pes.filterMap (·.sig)
  fun k m sg => table.any (fun e => e.1 == sg && e.2.1 == k && e.2.2 == m)

def resultStr : Option GetResult → String
  | none => "notfound"
  | some r =>
    if r.isMutable then "mut " ++ toString r.seq ++ " " ++ optBytesToHex r.v ++ " " ++ bytesToHex r.sig
    else "imm " ++ optBytesToHex r.v ++ " " ++ bytesToHex r.sig

def parseResult : List String → Option (Option GetResult)
  | ["notfound"] => some none
  | ["imm", v, sig] => do
    let v ← parseOptBytes v
    let sg ← parseBytes sig
    some (some ⟨0, v, sg, false⟩)
  | ["mut", seq, v, sig] => do
    let q ← parseInt seq
    let v ← parseOptBytes v
    let sg ← parseBytes sig
    some (some ⟨q, v, sg, true⟩)
  | _ => none

def stepGetput (args : List String) : String :=
  match args with
  | ["fold", target, salt, evs] =>
    match parseBytes target, parseBytes salt, parseEvents evs with
    | some t, some s, some pes =>
      resultStr (clientGet Drv.B44.sha1 (verifyOf pes) t s (pes.map (·.ev)))
    | _, _, _ => "bad-op"
  | "check" :: target :: salt :: evs :: res =>
    match parseBytes target, parseBytes salt, parseEvents evs, parseResult res with
    | some t, some s, some pes, some out =>
      if getAllowed (results Drv.B44.sha1 (verifyOf pes) t s (pes.map (·.ev))) out then "ok" else "reject"
    | _, _, _, _ => "bad-op"
  | ["autoseq", target, salt, evs] =>
    match parseBytes target, parseBytes salt, parseEvents evs with
    | some t, some s, some pes =>
      toString (putSeq Drv.B44.sha1 (verifyOf pes) t s (pes.map (·.ev)))
    | _, _, _ => "bad-op"
  | ["closest", evs] =>
    match parseEvents evs with
    | some pes => joinWith "," (pes.map (fun pe => optBytesToHex (closestEntry pe.ev)))
    | none => "bad-op"
  | _ => "bad-op"

end Drv.Getput
