/- Driver section B44 (C12 store side, C13). SHA-1 here is an executable stand-in for the
model parameter `H`; `verify` is instantiated as "the signature verifies iff it was really made
for this (key, message)" from the table the harness supplies (idealised EUF-CMA). -/
import DhtVerif.Model.Bep44
import DhtVerif.Model.Bep44Fault
import Driver.Util
open Dht Dht.B44
namespace Drv.B44

/-! ### SHA-1 (FIPS 180-4), test-only stand-in for `H` -/

def rotl (x : UInt32) (n : UInt32) : UInt32 := (x <<< n) ||| (x >>> (32 - n))

def be64 (n : Nat) : List UInt8 :=
  [(n / 2^56 % 256).toUInt8, (n / 2^48 % 256).toUInt8, (n / 2^40 % 256).toUInt8, (n / 2^32 % 256).toUInt8,
   (n / 2^24 % 256).toUInt8, (n / 2^16 % 256).toUInt8, (n / 2^8 % 256).toUInt8, (n % 256).toUInt8]

def sha1Pad (msg : List UInt8) : Array UInt8 :=
  let l := msg.length
  (msg ++ [0x80] ++ List.replicate ((119 - l % 64) % 64) 0 ++ be64 (l * 8)).toArray

def be32 (x : UInt32) : List UInt8 :=
  [(x >>> 24).toUInt8, (x >>> 16).toUInt8, (x >>> 8).toUInt8, x.toUInt8]

def sha1 (msg : List UInt8) : List UInt8 := Id.run do
  let b := sha1Pad msg
  let mut h0 : UInt32 := 0x67452301
  let mut h1 : UInt32 := 0xEFCDAB89
  let mut h2 : UInt32 := 0x98BADCFE
  let mut h3 : UInt32 := 0x10325476
  let mut h4 : UInt32 := 0xC3D2E1F0
  for blk in [0:b.size / 64] do
    let off := blk * 64
    let mut w : Array UInt32 := Array.mkEmpty 80
    for i in [0:16] do
      let j := off + 4 * i
      w := w.push ((b[j]!.toUInt32 <<< 24) ||| (b[j+1]!.toUInt32 <<< 16) ||| (b[j+2]!.toUInt32 <<< 8) ||| b[j+3]!.toUInt32)
    for i in [16:80] do
      w := w.push (rotl (w[i-3]! ^^^ w[i-8]! ^^^ w[i-14]! ^^^ w[i-16]!) 1)
    let mut a := h0
    let mut bb := h1
    let mut c := h2
    let mut d := h3
    let mut e := h4
    for i in [0:80] do
      let (f, k) : UInt32 × UInt32 :=
        if i < 20 then ((bb &&& c) ||| ((~~~ bb) &&& d), 0x5A827999)
        else if i < 40 then (bb ^^^ c ^^^ d, 0x6ED9EBA1)
        else if i < 60 then ((bb &&& c) ||| (bb &&& d) ||| (c &&& d), 0x8F1BBCDC)
        else (bb ^^^ c ^^^ d, 0xCA62C1D6)
      let tmp := rotl a 5 + f + e + k + w[i]!
      e := d
      d := c
      c := rotl bb 30
      bb := a
      a := tmp
    h0 := h0 + a
    h1 := h1 + bb
    h2 := h2 + c
    h3 := h3 + d
    h4 := h4 + e
  return be32 h0 ++ be32 h1 ++ be32 h2 ++ be32 h3 ++ be32 h4

/-! ### state -/

structure BSt where
  store : Store := Store.empty
  now   : Nat := 0
  exp   : Nat := 0
  sigs  : List (Bytes × Bytes × Bytes) := []    -- (sig, key, message it was made for)

def BSt.params (s : BSt) : Params :=
  { H := sha1, verify := fun k m sg => s.sigs.any (fun e => e.1 == sg && e.2.1 == k && e.2.2 == m),
    casSpec := casRuleComparesStoredSeq }

def errStr : Option Nat → String
  | none => "ok"
  | some c => "err:" ++ toString c

def optKeyStr : Option Key → String
  | none => "-"
  | some k => bytesToHex k

def zeros (n : Nat) : Bytes := List.replicate n 0

/-- `k salt seq cas bv sig` → item; `k` is `-` (nil / absent) or bytes (all-zero = immutable). -/
def parseItem (k salt seq cas bv sig : String) : Option Item := do
  let k ← parseOptBytes k
  let salt ← parseBytes salt
  let seq ← parseInt seq
  let cas ← parseInt cas
  let bv ← parseBytes bv
  let sig ← parseBytes sig
  some ⟨bv, k.bind keyOfWire, salt, sig, cas, seq⟩

def itemDump (i : Item) : String :=
  "item " ++ optKeyStr i.k ++ " " ++ bytesToHex i.salt ++ " " ++ toString i.seq ++ " " ++ toString i.cas ++ " " ++
    bytesToHex i.bv ++ " " ++ bytesToHex i.sig

def addSig (s : BSt) (sig key msg : String) : Option BSt :=
  if key == "-" && msg == "-" then some s else do
    let sg ← parseBytes sig
    let k ← parseBytes key
    let m ← parseBytes msg
    some { s with sigs := (sg, k, m) :: s.sigs }

/-! ### concurrent schedules -/

def parseOp (s : String) : Option Op :=
  match s.splitOn "/" with
  | ["put", k, salt, seq, cas, bv, sig] => (parseItem k salt seq cas bv sig).map Op.put
  | ["get", t] => (parseBytes t).map Op.get
  | _ => none

inductive Obs where
  | get (seen : Option (Int × Bytes))
  | put
  | del

def parseStep (s : String) : Option (Nat × Obs) :=
  match s.splitOn "/" with
  | [tid, "g", "n"] => do some (← tid.toNat?, Obs.get none)
  | [tid, "g", seq, bv] => do some (← tid.toNat?, Obs.get (some (← parseInt seq, ← parseBytes bv)))
  | [tid, "p"] => do some (← tid.toNat?, Obs.put)
  | [tid, "d"] => do some (← tid.toNat?, Obs.del)
  | _ => none

def resStr : Res → String
  | .ok => "ok"
  | .err c => "err:" ++ toString c
  | .notFound => "notfound"
  | .item i => "item:" ++ toString i.seq ++ "/" ++ bytesToHex i.bv

def opTarget (P : Params) : Op → Target
  | .put i => target P i
  | .get t => t

/-- Validate the recorded schedule step by step against the micro-step model. -/
def runSched (P : Params) (exp now : Nat) (lock : Bool) (ops : List Op) :
    Sys → Nat → List (Nat × Obs) → Except String Sys
  | y, _, [] => .ok y
  | y, n, (tid, obs) :: rest =>
    let bad (why : String) : Except String Sys := .error ("reject:" ++ toString n ++ ":" ++ why)
    match ops[tid]? with
    | none => bad "no-such-thread"
    | some op =>
      let callOk : Bool := match (y.threads tid).next, obs with
        | some .get, .get seen =>
          (match y.store (opTarget P op), seen with
            | none, none => true
            | some e, some (q, bv) => e.item.seq == q && e.item.bv == bv
            | _, _ => false)
        | some .put, .put => true
        | some .del, .del => true
        | _, _ => false
      if !callOk then bad "call-or-observation-differs" else
      match y.step P exp lock tid now with
      | none => bad "not-enabled"
      | some y' => runSched P exp now lock ops y' (n + 1) rest

def stepSched (s : BSt) (threads steps results : String) : BSt × String :=
  match allSome ((splitList threads).map parseOp), allSome ((splitList steps).map parseStep) with
  | some ops, some sts =>
    let P := s.params
    match runSched P s.exp s.now putHoldsLock ops (Sys.init P s.store ops) 0 sts with
    | .error e => (s, e)
    | .ok y =>
      let rs := (List.range ops.length).map (fun j => match y.threads j with
        | .done r => resStr r
        | _ => "unfinished")
      let got := joinWith "," rs
      if got == results then ({ s with store := y.store }, "accept")
      else ({ s with store := y.store }, "reject:results:" ++ got)
  | _, _ => (s, "bad-op")

/-! ### puts against a failing store (Model/Bep44Fault) -/

/-- `none` | `get` (the Store.Get of this put fails with an ordinary error) | `put` (its Store.Put
fails) | `both`. -/
def parseFault : String → Option Fault
  | "none" => some ⟨false, false⟩
  | "get" => some ⟨true, false⟩
  | "put" => some ⟨false, true⟩
  | "both" => some ⟨true, true⟩
  | _ => none

/-- The datagrams the put handler sent, in the vocabulary of the harness's `replyCode`:
`ok` (a response), `err:<code>` (an error); anything but exactly one datagram is spelled out. -/
def answersStr : List PutAnswer → String
  | [.response] => "ok"
  | [.error c] => "err:" ++ toString c
  | l => "answers:" ++ toString l.length

/-! ### ops -/

def stepB44 (s : BSt) (args : List String) : BSt × String :=
  match args with
  | ["reset", exp] =>
    match exp.toNat? with
    | some e => ({ store := Store.empty, now := 0, exp := e, sigs := [] }, "ok")
    | none => (s, "bad-op")
  | ["advance", d] =>
    match d.toNat? with
    | some d => ({ s with now := s.now + d }, "ok")
    | none => (s, "bad-op")
  | ["sig", sig, key, msg] =>
    match addSig s sig key msg with
    | some s' => (s', "ok")
    | none => (s, "bad-op")
  | ["put", path, k, salt, seq, cas, bv, sig, sigKey, sigMsg] =>
    match addSig s sig sigKey sigMsg with
    | none => (s, "bad-op")
    | some s =>
      if path == "wire" then
        -- inbound `put`: k is the 32-byte array of the message (absent = all zero), seq may be absent
        match parseOptBytes k, parseBytes salt, (if seq == "-" then some none else (parseInt seq).map some),
              parseInt cas, parseBytes bv, parseBytes sig with
        | some k, some salt, some seq, some cas, some bv, some sig =>
          let (st, r) := handlePut s.params s.now s.store bv (k.getD (zeros 32)) salt sig cas seq
          ({ s with store := st }, errStr r)
        | _, _, _, _, _, _ => (s, "bad-op")
      else if path == "api" || path == "srv" then
        match parseItem k salt seq cas bv sig with
        | some i =>
          let (st, r) := Wrapper.put s.params s.now s.store i
          ({ s with store := st }, errStr r)
        | none => (s, "bad-op")
      else (s, "bad-op")
  | ["fput", fault, k, salt, seq, cas, bv, sig, sigKey, sigMsg] =>
    -- inbound `put` (fields as in `put wire`) over a store whose Get / Put of THIS operation fails
    match parseFault fault, addSig s sig sigKey sigMsg with
    | some f, some s =>
      match parseOptBytes k, parseBytes salt, (if seq == "-" then some none else (parseInt seq).map some),
            parseInt cas, parseBytes bv, parseBytes sig with
      | some k, some salt, some seq, some cas, some bv, some sig =>
        let (ans, st) := handlePutF s.params f s.now s.store bv (k.getD (zeros 32)) salt sig cas seq
        ({ s with store := st }, answersStr ans)
      | _, _, _, _, _, _ => (s, "bad-op")
    | _, _ => (s, "bad-op")
  | ["wget", t] =>
    match parseBytes t with
    | some t =>
      let (st, r) := Wrapper.get s.exp s.now s.store t
      ({ s with store := st }, match r with
        | none => "notfound"
        | some i => itemDump i)
    | none => (s, "bad-op")
  | ["get", t, seq] =>
    match parseBytes t, (if seq == "-" then some none else (parseInt seq).map some) with
    | some t, some a =>
      let (st, r) := handleGet s.exp s.now s.store t a
      ({ s with store := st }, match r with
        | .notFound => "notfound"
        | .seqOnly q => "r " ++ toString q ++ " _ - " ++ bytesToHex (zeros 64)
        | .full i => "r " ++ toString i.seq ++ " " ++ bytesToHex i.bv ++ " " ++ optKeyStr i.k ++ " " ++ bytesToHex i.sig)
    | _, _ => (s, "bad-op")
  | ["target", k, salt, bv] =>
    match parseItem k salt "0" "0" bv "_" with
    | some i => (s, bytesToHex (target s.params i))
    | none => (s, "bad-op")
  | ["sha1", b] =>
    match parseBytes b with
    | some b => (s, bytesToHex (sha1 b))
    | none => (s, "bad-op")
  | ["buf", salt, seq, bv] =>
    match parseBytes salt, parseInt seq, parseBytes bv with
    | some salt, some seq, some bv => (s, bytesToHex (bufferToSign salt seq bv))
    | _, _, _ => (s, "bad-op")
  | ["ci", sseq, scas, sbv, iseq, icas, ibv] =>
    match parseInt sseq, parseInt scas, parseBytes sbv, parseInt iseq, parseInt icas, parseBytes ibv with
    | some sseq, some scas, some sbv, some iseq, some icas, some ibv =>
      (s, errStr (checkIncoming ⟨sbv, none, [], [], scas, sseq⟩ ⟨ibv, none, [], [], icas, iseq⟩))
    | _, _, _, _, _, _ => (s, "bad-op")
  | ["lockfact"] => (s, boolStr putHoldsLock)
  | ["sched", threads, steps, results] => stepSched s threads steps results
  | _ => (s, "bad-op")

end Drv.B44
