-- Root of the library. The property modules are built one by one (`lake build DhtVerif.Props.Cxx`):
-- their helper-lemma files are written independently and may reuse names, so they are not imported together.
import DhtVerif.Model.Int160
import DhtVerif.Model.Order
import DhtVerif.Model.Containers
