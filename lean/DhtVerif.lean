import DhtVerif.Model.Int160
import DhtVerif.Model.Order
import DhtVerif.Model.Containers
