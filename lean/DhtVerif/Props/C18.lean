/-
C18 — XOR metric, bucket index and closeness orders obey their laws.

Property theorems only (helper lemmas live in DhtVerif/Lemmas/C18*.lean).
All statements are about the executable model in DhtVerif/Model, for all IDs /
candidates / push histories, with no bound on anything.
-/
import DhtVerif.Model.Containers
import DhtVerif.Lemmas.C18
import DhtVerif.Props.ST2Closer
namespace Dht

/-! ## XOR distance -/

/-- Distance is symmetric. -/
theorem C18.dist_symm (a b : Id) : Id.distance a b = Id.distance b a := by
  exact Id.xor_comm a b

/-- Distance is zero exactly for equal IDs. -/
theorem C18.dist_zero_iff (a b : Id) (h : a.length = b.length) :
    (Id.distance a b).isZero = true ↔ a = b := by
  exact Id.xor_isZero_iff a b h

/-- The byte-wise comparison `T.Cmp` orders IDs as unsigned big-endian integers. -/
theorem C18.cmp_eq_compare_toNat (a b : Id) (h : a.length = b.length) :
    Id.cmp a b = compare a.toNat b.toNat := by
  exact Id.cmp_eq_compare_toNat a b h

/-- Byte-wise xor is numeric xor. -/
theorem C18.toNat_xor (a b : Id) (h : a.length = b.length) :
    (Id.xor a b).toNat = a.toNat ^^^ b.toNat := by
  exact Id.toNat_xor a b h

/-- Distance to a fixed target is injective: equal distances only for equal IDs. -/
theorem C18.dist_injective (t a b : Id) (ha : a.length = t.length) (hb : b.length = t.length)
    (h : Id.distance a t = Id.distance b t) : a = b := by
  exact Id.xor_right_cancel t a b ha hb h

/-! ## Bucket index -/

/-- The bucket index of an ID is the length of the bit prefix it shares with
the root: all earlier bits agree and bit `i` differs. -/
theorem C18.bucketIndex_is_shared_prefix_len (root id : Id)
    (hr : root.length = 20) (hi : id.length = 20) (hne : id ≠ root) :
    ∃ i, bucketIndex root id = some i ∧ i < 160 ∧
      (∀ j, j < i → id.getBit j = root.getBit j) ∧ id.getBit i ≠ root.getBit i := by
  exact bucketIndex_spec root id hr hi hne

/-- The only ID without a bucket is the root (the Go code panics there). -/
theorem C18.bucketIndex_none_iff (root id : Id) : bucketIndex root id = none ↔ id = root := by
  unfold bucketIndex
  by_cases h : id = root <;> simp [h]

/-- A random ID drawn for bucket `i` lands in bucket `i`, whatever the draw. -/
theorem C18.randomIdInBucket_lands (rnd root : Id) (i : Nat)
    (hr : root.length = 20) (hx : rnd.length = 20) (hi : i < 160) :
    (randomIdInBucket rnd root i).length = 20 ∧
    bucketIndex root (randomIdInBucket rnd root i) = some i := by
  obtain ⟨hl, hp, hd⟩ := randomIdInBucket_spec rnd root i (by omega)
  have hl' : (randomIdInBucket rnd root i).length = 20 := by omega
  refine ⟨hl', bucketIndex_of_prefix root _ i hr hl' hi hp ?_⟩
  rw [hd]
  cases root.getBit i <;> simp

/-! ## closer-than is a strict total order ranking known IDs by distance first -/

def Cand.ok (c : Cand) : Prop := ∀ i, c.id = some i → i.length = 20

theorem C18.closerThan_irrefl (t : Id) (c : Cand) : closerThan t c c = false := by
  exact _root_.Dht.closerThan_irrefl t c

theorem C18.closerThan_asymm (t : Id) (l r : Cand) :
    closerThan t l r = true → closerThan t r l = false := by
  exact _root_.Dht.closerThan_asymm t l r

theorem C18.closerThan_trans (t : Id) (a b c : Cand) :
    closerThan t a b = true → closerThan t b c = true → closerThan t a c = true := by
  exact _root_.Dht.closerThan_trans t a b c

/-- Totality: two different candidates are always ordered one way or the other. -/
theorem C18.closerThan_total (t : Id) (l r : Cand) (ht : t.length = 20)
    (hl : l.ok) (hr : r.ok) (hne : l ≠ r) :
    closerThan t l r = true ∨ closerThan t r l = true := by
  exact _root_.Dht.closerThan_total t l r ht hl hr hne

/-- Known IDs rank ahead of unknown ones. -/
theorem C18.closerThan_known_before_unknown (t : Id) (l r : Cand) (i : Id)
    (hl : l.id = some i) (hr : r.id = none) : closerThan t l r = true := by
  exact closerThan_some_none t l r i hl hr

/-- Among known IDs the XOR distance to the target, as an unsigned integer, decides. -/
theorem C18.closerThan_by_distance (t : Id) (l r : Cand) (li ri : Id)
    (hl : l.id = some li) (hr : r.id = some ri)
    (hlen : li.length = t.length) (hlen' : ri.length = t.length)
    (hd : (Id.distance li t).toNat < (Id.distance ri t).toNat) :
    closerThan t l r = true := by
  exact _root_.Dht.closerThan_by_distance t l r li ri hl hr hlen hlen' hd

/-! ## The sorted candidate set -/

/-- Sortedness under `closerThan`. -/
def SSet.sorted (t : Id) : List Cand → Prop
  | [] => True
  | [_] => True
  | a :: b :: rest => closerThan t a b = true ∧ SSet.sorted t (b :: rest)

def SSet.okSet (t : Id) (xs : List Cand) : Prop := SSet.sorted t xs ∧ ∀ c ∈ xs, c.ok

/-- Adjacent sortedness is pairwise sortedness (by transitivity). -/
theorem SSet.sorted_iff_pairwise (t : Id) (xs : List Cand) :
    SSet.sorted t xs ↔ xs.Pairwise (fun a b => closerThan t a b = true) := by
  rw [← SSet.sorted'_iff_pairwise]
  induction xs with
  | nil => simp [SSet.sorted, SSet.sorted']
  | cons a xs ih =>
    cases xs with
    | nil => simp [SSet.sorted, SSet.sorted']
    | cons b rest => simp only [SSet.sorted, SSet.sorted', ih]

theorem C18.sset_add_sorted (t : Id) (ht : t.length = 20) (xs : List Cand) (c : Cand)
    (h : SSet.okSet t xs) (hc : c.ok) : SSet.okSet t (SSet.add t xs c) := by
  obtain ⟨hs, hok⟩ := h
  rw [SSet.sorted_iff_pairwise] at hs
  refine ⟨(SSet.sorted_iff_pairwise t _).mpr (SSet.add_pairwise t ht xs c hok hc hs), ?_⟩
  intro x hx
  rcases SSet.mem_add_imp t xs c x hx with rfl | hx
  · exact hc
  · exact hok x hx

theorem C18.sset_add_mem (t : Id) (ht : t.length = 20) (xs : List Cand) (c x : Cand)
    (h : SSet.okSet t xs) (hc : c.ok) :
    x ∈ SSet.add t xs c ↔ x = c ∨ x ∈ xs := by
  exact SSet.mem_add t ht xs c x h.2 hc

theorem C18.sset_delete_sorted (t : Id) (xs : List Cand) (c : Cand)
    (h : SSet.okSet t xs) : SSet.okSet t (SSet.delete t xs c) := by
  obtain ⟨hs, hok⟩ := h
  rw [SSet.sorted_iff_pairwise] at hs
  have hsub := SSet.delete_sublist t xs c
  exact ⟨(SSet.sorted_iff_pairwise t _).mpr (hs.sublist hsub), fun x hx => hok x (hsub.subset hx)⟩

theorem C18.sset_delete_mem (t : Id) (ht : t.length = 20) (xs : List Cand) (c x : Cand)
    (h : SSet.okSet t xs) (hc : c.ok) :
    x ∈ SSet.delete t xs c ↔ x ∈ xs ∧ x ≠ c := by
  obtain ⟨hs, hok⟩ := h
  rw [SSet.sorted_iff_pairwise] at hs
  exact SSet.mem_delete t ht xs c x hok hc hs

/-- `Next` returns the element closest to the target: nothing in the set is closer. -/
theorem C18.sset_next_is_min (t : Id) (xs : List Cand) (m : Cand)
    (h : SSet.okSet t xs) (hm : SSet.next xs = some m) :
    ∀ x ∈ xs, x ≠ m → closerThan t m x = true := by
  obtain ⟨hs, _⟩ := h
  rw [SSet.sorted_iff_pairwise] at hs
  cases xs with
  | nil => simp [SSet.next] at hm
  | cons y ys =>
    simp only [SSet.next, List.head?_cons, Option.some.injEq] at hm
    subst hm
    intro x hx hne
    rcases List.mem_cons.mp hx with h | h
    · exact absurd h hne
    · exact (List.pairwise_cons.mp hs).1 x h

/-! ## K-nearest container: for every push history, exactly the K nearest are retained -/

/-- Histories of pushes, each step any result the container may produce. -/
inductive KNN.Reach (t : Id) (k : Nat) : List KElem → List KElem → Prop
  | init : KNN.Reach t k [] []
  | push {hist s} (e : KElem) (s' : List KElem) :
      KNN.Reach t k hist s → KNN.pushAllowed t k s e s' = true → KNN.Reach t k (hist ++ [e]) s'

/-- The distinct keys pushed so far, each with the data of its latest push. -/
def KNN.latest (hist : List KElem) : List KElem := hist.foldl KNN.upsert []

/-- The full inductive invariant behind `C18.knn_retains_k_nearest` (it adds: no two
elements of the container, or of the latest-push list, share a key). -/
theorem C18.knn_invariant (t : Id) (k : Nat) (hist s : List KElem)
    (h : KNN.Reach t k hist s) : KNN.Inv t k (KNN.latest hist) s := by
  induction h with
  | init => exact KNN.Inv.init t k
  | @push hist s e s' _ hp ih =>
    have : KNN.latest (hist ++ [e]) = KNN.upsert (KNN.latest hist) e := KNN.latest'_snoc hist e
    rw [this]
    exact ih.step hp

/-- After any push history the container holds `min k (#distinct keys)`
elements, in distance order, each a pushed element with its latest data, and
every pushed key it does not hold is at least as far from the target as every
element it holds. -/
theorem C18.knn_retains_k_nearest (t : Id) (k : Nat) (hist s : List KElem)
    (h : KNN.Reach t k hist s) :
    s.length = min k (KNN.latest hist).length ∧
    KNN.sortedBy t s = true ∧
    (∀ m ∈ s, m ∈ KNN.latest hist) ∧
    (∀ p ∈ KNN.latest hist, p ∉ s → ∀ m ∈ s, m.dist t ≤ p.dist t) := by
  have hinv := C18.knn_invariant t k hist s h
  exact ⟨hinv.len, (KNN.sortedBy_iff t s).mpr hinv.sorted, hinv.sub, hinv.far⟩

/-- The deterministic instance used by the traversal model is one of the allowed results. -/
theorem C18.knn_push_allowed (t : Id) (k : Nat) (s : List KElem) (e : KElem)
    (hs : KNN.sortedBy t s = true) (hn : KNN.nodupKeys s = true) :
    KNN.pushAllowed t k s e (KNN.push t k s e) = true := by
  exact KNN.push_allowed t k s e ((KNN.sortedBy_iff t s).mp hs) ((KNN.nodupKeys_iff s).mp hn)

/-! ## Non-vacuity -/

example : KNN.Reach [0,0] 1 [⟨[0,1], ⟨1,[1,2,3,4],5⟩, none⟩, ⟨[0,2], ⟨1,[1,2,3,4],6⟩, none⟩]
    [⟨[0,1], ⟨1,[1,2,3,4],5⟩, none⟩] :=
  KNN.Reach.push (hist := [⟨[0,1], ⟨1,[1,2,3,4],5⟩, none⟩]) (s := [⟨[0,1], ⟨1,[1,2,3,4],5⟩, none⟩])
    ⟨[0,2], ⟨1,[1,2,3,4],6⟩, none⟩ [⟨[0,1], ⟨1,[1,2,3,4],5⟩, none⟩]
    (KNN.Reach.push (hist := []) (s := []) ⟨[0,1], ⟨1,[1,2,3,4],5⟩, none⟩
      [⟨[0,1], ⟨1,[1,2,3,4],5⟩, none⟩] KNN.Reach.init (by decide))
    (by decide)

/-! ## T1 by translation: the orders are the source's -/

/-- `AddrMaybeId.CloserThan` in types/addr-maybe-id.go (its statement tree, interpreted with the atom table of
Props/SourceTrees2 over the `multiless.Computation` it threads) IS the model's `closerThan`, for all candidates
and whatever the initial value of the local. -/
theorem C18.closerThan_is_the_source (target : Id) (l r : Cand) (ml0 : ML) :
    SExp.evalWith (ctStep target l r) (ctCond l r) ctRet Gen.stmCloserThan ml0 = some (closerThan target l r) :=
  SourceTrees.closerThan target l r ml0

/-- `closerThanTarget.Compare` in containers (with `CloserThan` read from its own source) IS `candCompare`. -/
theorem C18.candCompare_is_the_source (target : Id) (l r : Cand) :
    DExp.evalWith (cttCond target l r) cmpRet Gen.treeCloserThanTargetCompare = some (candCompare target l r) :=
  SourceTrees.closerThanTargetCompare target l r

/-- `lessComparer[K].Compare` in k-nearest-nodes IS `lessCompare`, for any `less`; `candCompare` is
`lessCompare` of `closerThan`, and `KNN.insertSorted` inserts before the first element that compares greater
under `lessCompare (KNN.lessDet target)`. -/
theorem C18.lessComparer_is_the_source {α : Type} (less : α → α → Bool) (i j : α) (target : Id) (l r : Cand)
    (x e : KElem) (xs : List KElem) :
    DExp.evalWith (lcCond less i j) cmpRet Gen.treeLessComparerCompare = some (lessCompare less i j) ∧
    candCompare target l r = lessCompare (closerThan target) l r ∧
    KNN.insertSorted target (x :: xs) e =
      (if x.sameKey e then e :: xs
       else if lessCompare (KNN.lessDet target) e x == .lt then e :: (x :: xs).filter (fun y => !y.sameKey e)
       else x :: KNN.insertSorted target xs e) :=
  ⟨SourceTrees.lessComparerCompare less i j, candCompare_eq_lessCompare target l r,
   KNN.insertSorted_cons_lessCompare target x xs e⟩

end Dht
