/-
C20 — outbound traffic never exceeds the configured send budget.

Units (see Model/Rate.lean): time in ns; the rate is `p/q` tokens per second; `U = q·10⁹` units
make one token and `p` units accrue per ns; `C = burst·U` is the bucket size. Instants at which
granted tokens are covered are exact, in scaled time (`p` ticks per ns), so `p·t` is the scaled
form of the instant `t` ns. All statements are inequalities between integers; dividing by `U`
gives the usual reading, e.g. `U·n ≤ C + p·(t − t0)` is `n ≤ burst + rate·(t − t0)`.

Histories: `BHist.run` over `adv dt | allow | reserve | giveBack` (one bucket, its clock, the log
of grants); `GSt.run` over `tick dt | call c | wake i` (the gate `writeToNode` in front of that
bucket: calls with any flags and socket fate, waiters waking at any later time). The clock of a
history never steps back; `golang.org/x/time/rate` is ASSUMED to compute `Bucket` (differential
test) and to be driven with non-decreasing instants.

Scope of the theorems: finite positive rate (`0 < p`); `rate.Inf` has no budget to exceed and
`limit == 0` is covered by `zero_rate_bound`.
-/
import DhtVerif.Model.Rate
import DhtVerif.Lemmas.C20
namespace Dht

/-! ## The bucket -/

/-- `grants − givebacks + tokens(t) ≤ burst + rate·(t − t0)` along every history (grants counted
when taken, tokens possibly negative while reservations are outstanding). -/
theorem C20.bucket_bound (p q burst t0 : Nat) (hp : 0 < p) (h : List BEv) :
    let s := (BHist.init p q burst t0).run h
    (((q * nsPerSec) * s.grants.length : Nat) : Int) + s.b.tokensAt s.now + ((p * t0 : Nat) : Int)
      ≤ ((burst * (q * nsPerSec) : Nat) : Int) + ((p * s.now : Nat) : Int) + (((q * nsPerSec) * s.returned : Nat) : Int) := by
  intro s
  have w : s.WF p q burst t0 := BHist.WF.run hp h (BHist.WF.init p q burst t0)
  have i : s.Budget t0 := BHist.budget_run hp h
  have ht := Bucket.tokensAt_le s.b s.now w.last_le
  unfold BHist.Budget at i
  simp only [Bucket.unit, Bucket.cap, w.hp, w.hq, w.hburst] at i ht
  omega

/-- The stored token count never exceeds the bucket size by more than the one token a give-back
adds, and what `advance` makes available never exceeds the bucket size. -/
theorem C20.tokens_never_exceed_burst (p q burst t0 : Nat) (hp : 0 < p) (h : List BEv) (t : Nat) :
    let s := (BHist.init p q burst t0).run h
    s.b.tokensAt t ≤ ((burst * (q * nsPerSec) : Nat) : Int) ∧
    s.b.tokens ≤ ((burst * (q * nsPerSec) : Nat) : Int) + ((q * nsPerSec : Nat) : Int) := by
  intro s
  have w : s.WF p q burst t0 := BHist.WF.run hp h (BHist.WF.init p q burst t0)
  have c : s.Capped := BHist.capped_run hp h
  unfold BHist.Capped at c
  simp only [Bucket.unit, Bucket.cap, w.hq, w.hburst] at c
  refine ⟨?_, c⟩
  unfold Bucket.tokensAt
  simp only [Bucket.unit, Bucket.cap, w.hq, w.hburst]
  omega

/-- Prefix windows: the tokens usable by now (reservations count from the instant they are
covered), net of those given back, number at most `burst + rate·(now − t0)`. Every prefix of a
history is a history, so this bounds every window `[t0, t]`. -/
theorem C20.prefix_bound (p q burst t0 : Nat) (hp : 0 < p) (h : List BEv) :
    let s := (BHist.init p q burst t0).run h
    (q * nsPerSec) * s.effective (p * s.now) + p * t0
      ≤ burst * (q * nsPerSec) + p * s.now + (q * nsPerSec) * s.returned := by
  intro s
  have w : s.WF p q burst t0 := BHist.WF.run hp h (BHist.WF.init p q burst t0)
  have i : s.Budget t0 := BHist.budget_run hp h
  have c0 : s.Covered := BHist.covered_run hp h
  have c := c0 (p * s.now) (by rw [w.hp]; exact Nat.le_refl _)
  have hl := length_eq_countP_le_add_gt (p * s.now) s.grants
  unfold BHist.Budget at i
  unfold BHist.effective
  simp only [Bucket.unit, Bucket.cap, w.hp, w.hq, w.hburst] at i c
  rw [hl, Nat.mul_add] at i
  omega

/-- ANY window, in exact scaled time: the grants covered within `[A, B]` number at most
`burst + (B − A)/p·rate` plus the tokens given back after failed socket writes. Without
give-backs this is the plain token-bucket bound for every window. -/
theorem C20.window_bound (p q burst t0 : Nat) (hp : 0 < p) (h : List BEv) (A B : Nat) (hAB : A ≤ B) :
    let s := (BHist.init p q burst t0).run h
    (q * nsPerSec) * s.inWindow A B ≤ burst * (q * nsPerSec) + (B - A) + (q * nsPerSec) * s.returned := by
  intro s
  have w : s.WF p q burst t0 := BHist.WF.run hp h (BHist.WF.init p q burst t0)
  have i0 : s.Window A := BHist.window_run hp A h
  have := PG.window hAB i0.2
  unfold BHist.inWindow
  simp only [Bucket.unit, Bucket.cap, w.hq, w.hburst] at this
  omega

/-- The same for a window `[a, b]` given in nanoseconds: at most `burst + rate·(b − a)` grants
(plus give-backs) are covered within it. -/
theorem C20.window_bound_ns (p q burst t0 : Nat) (hp : 0 < p) (h : List BEv) (a b : Nat) (hab : a ≤ b) :
    let s := (BHist.init p q burst t0).run h
    (q * nsPerSec) * s.inWindow (p * a) (p * b) ≤ burst * (q * nsPerSec) + p * (b - a) + (q * nsPerSec) * s.returned := by
  intro s
  have := C20.window_bound p q burst t0 hp h (p * a) (p * b) (Nat.mul_le_mul_left p hab)
  rw [Nat.mul_sub]
  exact this

/-- Why give-backs appear in `window_bound`: `AllowN(now, -1)` while a reservation is pending lets
the next reservation share the pending one's instant. Burst 1, 8 tokens/s: three reservations at
t = 0 with a give-back before the third are covered at 0, 125 ms and 125 ms. (In `writeToNode` the
first send's socket write failed; the datagrams of the other two leave together.) -/
example : ((BHist.init 8 1 1 0).run [.reserve, .reserve, .giveBack, .reserve]).grants.map (· / 8)
    = [125000000, 125000000, 0] := by decide +kernel

/-- `limit == 0`: rate.go counts the `burst` field down and up; grants net of give-backs never
exceed the initial burst. -/
theorem C20.zero_rate_bound (q burst t0 : Nat) (h : List BEv) :
    let s := (BHist.init 0 q burst t0).run h
    s.grants.length + s.b.burst = burst + s.returned := by
  intro s
  suffices H : ∀ (h : List BEv) (s0 : BHist), s0.b.inf = false → s0.b.p = 0 →
      (s0.run h).grants.length + (s0.run h).b.burst + s0.returned = s0.grants.length + s0.b.burst + (s0.run h).returned by
    have := H h (BHist.init 0 q burst t0) rfl rfl
    simp only [BHist.init, Bucket.new, List.length_nil] at this
    show ((BHist.init 0 q burst t0).run h).grants.length + ((BHist.init 0 q burst t0).run h).b.burst = burst + ((BHist.init 0 q burst t0).run h).returned
    simp only [BHist.init, Bucket.new]
    omega
  intro h
  induction h with
  | nil => intro s0 _ _; rfl
  | cons e h ih =>
    intro s0 hinf hp0
    have key : (s0.step e).b.inf = false ∧ (s0.step e).b.p = 0 ∧
        (s0.step e).grants.length + (s0.step e).b.burst + s0.returned = s0.grants.length + s0.b.burst + (s0.step e).returned := by
      cases e with
      | adv dt => exact ⟨hinf, hp0, rfl⟩
      | allow =>
        by_cases hb : 1 ≤ s0.b.burst
        · simp [BHist.step, Bucket.allow, hinf, hp0, hb]; omega
        · simp [BHist.step, Bucket.allow, hinf, hp0, hb]
      | reserve =>
        by_cases hb : 1 ≤ s0.b.burst
        · simp [BHist.step, Bucket.reserve, hinf, hp0, hb]; omega
        · simp [BHist.step, Bucket.reserve, hinf, hp0, hb]
      | giveBack => simp [BHist.step, Bucket.giveBack, hinf, hp0]; omega
    have := ih (s0.step e) key.1 key.2.1
    rw [BHist.run_cons]
    omega

/-! ## The gate -/

/-- Every rated datagram is preceded by its own grant. Along every history of the gate the grants
the bucket made are, one for one, those consumed by the rated datagrams written, those held by
senders still waiting, and those of sends whose socket write failed; each rated datagram left
no earlier than the instant its token was covered; the bucket's own history is a bucket history
(so all bounds above apply to it). Unrated sends take nothing (`unrated_sends_leave_bucket_alone`). -/
theorem C20.rated_write_needs_grant (p q burst t0 : Nat) (hp : 0 < p) (h : List GEv) :
    let s := (GSt.init p q burst t0).run h
    s.h.grants.Perm (s.ratedOut.map (·.act) ++ s.waiting.map (·.act) ++ s.failed) ∧
    (∀ d ∈ s.ratedOut, d.act ≤ p * d.time ∧ d.time ≤ s.h.now) ∧
    (∀ w ∈ s.waiting, w.act ≤ p * w.notBefore) ∧
    s.h.returned ≤ s.failed.length ∧
    ∃ bh : List BEv, s.h = (BHist.init p q burst t0).run bh := by
  intro s
  have i : s.Inv p q burst t0 := GSt.Inv.run hp h (GSt.Inv.init p q burst t0)
  exact ⟨i.acct.perm, i.acct.out_ok, i.acct.wait_ok, i.acct.ret_le, i.sim⟩

/-- Hence, for every history of the gate (floods, queries, waiters, socket failures, in any order
and at any times), the rated datagrams written by now number at most `burst + rate·(now − t0)`:
the bound for every prefix window `[t0, t]`, which is what the harness checks on the real server. -/
theorem C20.rated_datagrams_prefix_bound (p q burst t0 : Nat) (hp : 0 < p) (h : List GEv) :
    let s := (GSt.init p q burst t0).run h
    (q * nsPerSec) * s.ratedOut.length + p * t0 ≤ burst * (q * nsPerSec) + p * s.h.now := by
  intro s
  have i : s.Inv p q burst t0 := GSt.Inv.run hp h (GSt.Inv.init p q burst t0)
  obtain ⟨bh, hbh⟩ := i.sim
  have pb := C20.prefix_bound p q burst t0 hp bh
  simp only at pb
  rw [← hbh] at pb
  -- effective grants ≥ rated datagrams + failed sends ≥ rated datagrams + give-backs
  have hc := List.Perm.countP_eq (fun g => decide (g ≤ p * s.h.now)) i.acct.perm
  have hA : (s.ratedOut.map (·.act)).countP (fun g => decide (g ≤ p * s.h.now)) = s.ratedOut.length := by
    rw [countP_le_of_all, List.length_map]
    intro a ha
    obtain ⟨d, hd, rfl⟩ := List.mem_map.mp ha
    have := i.acct.out_ok d hd
    have : p * d.time ≤ p * s.h.now := Nat.mul_le_mul_left _ this.2
    omega
  have hF : s.failed.countP (fun g => decide (g ≤ p * s.h.now)) = s.failed.length :=
    countP_le_of_all _ _ i.acct.failed_ok
  have hr := i.acct.ret_le
  unfold BHist.effective at pb
  rw [hc, List.countP_append, List.countP_append, hA, hF] at pb
  have h1 : (q * nsPerSec) * s.h.returned ≤ (q * nsPerSec) * s.failed.length := Nat.mul_le_mul_left _ hr
  simp only [Nat.mul_add] at pb
  omega

/-- An unrated send never touches the limiter. -/
theorem C20.unrated_sends_leave_bucket_alone (closed blocked wait : Bool) (m : Option Nat) (b : Bucket) (now : Nat) :
    (sendGate closed blocked false wait m b now).2 = b := by
  cases closed <;> cases blocked <;> simp [sendGate]

/-- A closed server or a blocklisted destination: nothing is written, nothing is taken. -/
theorem C20.closed_or_blocked_sends_nothing (closed blocked rate wait : Bool) (m : Option Nat) (b : Bucket) (now : Nat)
    (h : closed = true ∨ blocked = true) :
    sendGate closed blocked rate wait m b now = (if closed then .errClosed else .errBlocked, b) := by
  cases closed <;> cases blocked <;> simp_all [sendGate]

/-- No budget, no send (not waiting): with less than one token in the bucket a rated send is
refused with "rate limit exceeded" and the bucket is untouched; in a gate history the state does
not change at all — nothing is written, nothing is granted. -/
theorem C20.no_budget_no_send (b : Bucket) (now : Nat) (m : Option Nat) (hinf : b.inf = false) (hp : 0 < b.p)
    (hl : b.last ≤ now) (hempty : b.tokensAt now < (b.unit : Int)) :
    sendGate false false true false m b now = (.errRateLimited, b) := by
  rw [sendGate_allow b now m hinf hp hl, if_neg (by omega)]

theorem C20.no_budget_no_send_history (s : GSt) (wok : Bool) (hinf : s.h.b.inf = false) (hp : 0 < s.h.b.p)
    (hl : s.h.b.last ≤ s.h.now) (hempty : s.h.b.tokensAt s.h.now < (s.h.b.unit : Int)) :
    s.step (.call ⟨false, false, true, false, wok⟩) = s := by
  simp only [GSt.step, C20.no_budget_no_send s.h.b s.h.now none hinf hp hl hempty]

/-- No budget, waiting (`Wait`): the token is taken on credit and the send is told to wait until
`t`, which is the first nanosecond at which the missing amount has accrued — neither earlier nor
later. In a gate history such a sender can only `wake` when the clock has reached `t`
(`GSt.step`), and `rated_write_needs_grant` shows its datagram leaves no earlier than the exact
instant its token is covered. -/
theorem C20.no_budget_wait_until (b : Bucket) (now : Nat) (hinf : b.inf = false) (hp : 0 < b.p)
    (hburst : 1 ≤ b.burst) (hempty : b.tokensAt now < (b.unit : Int)) :
    ∃ t b', sendGate false false true true none b now = (.waitsUntil t, b') ∧ now < t ∧
      t = now + ceilDiv (b.deficit now) b.p ∧
      ((b.unit : Int) - b.tokensAt now ≤ ((b.p * (t - now) : Nat) : Int)) ∧
      (∀ t', now ≤ t' → (b.unit : Int) - b.tokensAt now ≤ ((b.p * (t' - now) : Nat) : Int) → t ≤ t') ∧
      b'.tokens = b.tokensAt now - (b.unit : Int) := by
  have hd : 0 < b.deficit now := by unfold Bucket.deficit; omega
  have hdef : ((b.deficit now : Nat) : Int) = (b.unit : Int) - b.tokensAt now := by unfold Bucket.deficit; omega
  have hc := le_mul_ceilDiv (b.deficit now) b.p hp
  have hpos : 0 < ceilDiv (b.deficit now) b.p := by
    rcases Nat.eq_zero_or_pos (ceilDiv (b.deficit now) b.p) with h0 | h0
    · rw [h0] at hc; omega
    · exact h0
  refine ⟨now + ceilDiv (b.deficit now) b.p, { b with tokens := b.tokensAt now - (b.unit : Int), last := now },
    ?_, by omega, rfl, ?_, ?_, rfl⟩
  · rw [sendGate_wait b now hinf hp, if_pos hburst, if_neg (by omega)]
  · have : now + ceilDiv (b.deficit now) b.p - now = ceilDiv (b.deficit now) b.p := by omega
    rw [this]; omega
  · intro t' hle hcov
    have : b.deficit now ≤ b.p * (t' - now) := by omega
    have := ceilDiv_least _ _ _ hp this
    omega

/-- With burst 0 nothing rated is ever sent, waiting or not. -/
theorem C20.zero_burst_sends_nothing (b : Bucket) (now : Nat) (wait : Bool) (hinf : b.inf = false) (hp : 0 < b.p)
    (hl : b.last ≤ now) (hburst : b.burst = 0) :
    (sendGate false false true wait none b now).1 = .errRateLimited ∨
    (sendGate false false true wait none b now).1 = .errWait := by
  cases wait
  · left; rw [sendGate_allow b now none hinf hp hl, if_neg (by omega)]
  · right; rw [sendGate_wait b now hinf hp, if_neg (by omega)]

/-! ## Which sends are rated -/

/-- Responses and errors are always rated; errors never wait; responses wait iff `WaitToReply`. -/
theorem C20.replies_errors_always_rated (waitToReply : Bool) :
    (replyPolicy waitToReply).rate = true ∧ (replyPolicy waitToReply).wait = waitToReply ∧
    errorPolicy.rate = true ∧ errorPolicy.wait = false := ⟨rfl, rfl, rfl, rfl⟩

/-- The query policy, exhaustively: a send is exempt from rating exactly when the caller opted
out (`NotAny`, or `NotFirst` for the first successful send); the first send waits unless
`NoWaitFirst`, retries wait only with `WaitOnRetries`. -/
theorem C20.policy_table (first : Bool) (f : QRL) :
    ((queryPolicy first f).rate = false ↔ (f.notAny = true ∨ (first = true ∧ f.notFirst = true))) ∧
    ((queryPolicy first f).wait = true ↔
      ((first = true ∧ f.noWaitFirst = false) ∨ (first = false ∧ f.waitOnRetries = true))) := by
  obtain ⟨a, b, c, d⟩ := f
  cases first <;> cases a <;> cases b <;> cases c <;> cases d <;> decide

/-- The default flags (what the server's own lookups, pings and announces use): every send rated,
the first waits, retries do not. -/
theorem C20.default_policy :
    queryPolicy true ⟨false, false, false, false⟩ = ⟨true, true⟩ ∧
    queryPolicy false ⟨false, false, false, false⟩ = ⟨false, true⟩ := by decide

/-! ## Ties to the source (T1), re-decided on the regenerated facts on every run -/

/-- The extractor found every source shape it looks for. -/
theorem C20.src_facts_complete : Gen.missing = [] := by decide +kernel

/-- `writeToNode` is the only place in the module that calls a method named `WriteTo`. -/
theorem C20.src_single_write_site : Flow.onlyWriteSite = true := by decide +kernel

/-- In `writeToNode`, on every path that reaches `s.socket.WriteTo`: if `rate` then
`SendLimiter.Wait` (when `wait`) returned without error, or `SendLimiter.Allow` returned true,
before the write; if `!rate` the limiter is not touched. -/
theorem C20.src_limiter_dominates_write : Flow.allPaths Flow.limiterDominates = true := by decide +kernel

/-- A refused `Allow` or a failed `Wait` returns before the socket write. -/
theorem C20.src_refusal_returns : Flow.allPaths Flow.refusalReturns = true := by decide +kernel

/-- A rated send whose socket write fails calls `SendLimiter.AllowN` (the give-back); a path has at
most one socket write and takes at most one token. -/
theorem C20.src_give_back_on_error : Flow.allPaths Flow.giveBackOnError = true := by decide +kernel

/-- `writeToNode` is called by `reply` with `(s.config.WaitToReply, true)`, by `sendError` with
`(false, true)`, by `transactionQuerySender` with the two policy literals, and by nobody else. -/
theorem C20.src_callers : Flow.callersKnown = true := by decide +kernel

/-- The two function literals in `transactionQuerySender` compute `queryPolicy`, for all 32
combinations of flags and first/retry. -/
theorem C20.src_query_policy : Flow.policyMatchesSource = true := by decide +kernel

/-- The process-wide `DefaultSendLimiter` has a finite positive rate and room for at least one
token, i.e. lies in the regime of the theorems above. -/
theorem C20.src_default_limiter : 0 < Gen.defaultSendRate ∧ 1 ≤ Gen.defaultSendBurst := by decide +kernel

/-! ## Kept counterexample: instants out of order

The theorems are about histories whose clock never steps back. `rate.Limiter` accepts an older
instant by moving its `last` back, and then credits the interval up to the next caller's instant
a second time. 1 token/s, burst 1: grants at 0 s and 1 s are within budget (2 ≤ 1 + 1·1); a caller
arriving with the stale instant 0 s is refused, but the caller after it, again at 1 s, is granted a
third token: 3 > 1 + 1·1. In /repo the instant is read (`time.Now()` inside `Allow`/`Wait`) before
the limiter's lock is taken, by one goroutine per reply and per query, and by every server that
shares the limiter, so instants do reach it out of order; the harness exhibits the excess on the
real server (violation "rated datagrams exceed burst + rate*t"). Serialising clock read and
limiter call (one mutex) restores the hypothesis. -/
example :
    let b0 := Bucket.new 1 1 1 0
    let r1 := b0.allow 0
    let r2 := r1.2.allow 1000000000
    let r3 := r2.2.allow 0
    let r4 := r3.2.allow 1000000000
    (r1.1, r2.1, r3.1, r4.1) = (true, true, false, true) := by decide +kernel

/-! ## Non-vacuity -/

/-- All three modes reach the socket write in the source. -/
example : Flow.somePath (fun p => p.contains "F:rate" && Flow.has p Flow.sockWrite) = true ∧
    Flow.somePath (fun p => p.contains "T:rate" && p.contains "T:wait" && Flow.has p Flow.sockWrite) = true ∧
    Flow.somePath (fun p => p.contains "T:rate" && p.contains "F:wait" && Flow.has p Flow.sockWrite) = true ∧
    Flow.somePath (fun p => Flow.has p Flow.limGive) = true := by
  decide +kernel

/-- 5/s, burst 3: three sends pass at once, the fourth is refused, one passes again 200 ms later. -/
example : (((BHist.init 5 1 3 0).run [.allow, .allow, .allow, .allow, .adv 200000000, .allow, .allow]).grants.length) = 4 := by
  decide +kernel

/-- The bound is tight: burst + rate·t grants are reachable (50/s, burst 1, 1 s → 51). -/
example : (((BHist.init 50 1 1 0).run ((List.replicate 50 [BEv.allow, .adv 20000000]).flatten ++ [.allow])).grants.length) = 51 := by
  decide +kernel

/-- A gate history with a refused reply, a waiting query, an unrated send and a failed write. -/
example :
    let s := (GSt.init 50 1 1 0).run [.call ⟨false, false, true, false, true⟩, .call ⟨false, false, true, false, true⟩,
      .call ⟨false, false, true, true, true⟩, .call ⟨false, false, false, false, true⟩, .tick 20000000, .wake 0,
      .tick 20000000, .call ⟨false, false, true, false, false⟩, .call ⟨false, false, true, false, true⟩]
    (s.ratedOut.map (·.time), s.out.length, s.failed.length, s.h.returned, s.waiting.length) =
      ([40000000, 20000000, 0], 4, 1, 1, 0) := by
  decide +kernel

/-- `no_budget_wait_until` on a concrete bucket: 3/s, drained at 0, asked at 100 ms: wait until
⌈333 333 333.3⌉ ns. -/
example : (sendGate false false true true none ((Bucket.new 3 1 1 0).allow 0).2 100000000).1 = .waitsUntil 333333334 := by
  decide +kernel

/-- T1: the only place a limiter reservation is made is `limiterWait`, with the instant read under
`sendLimiterMu`; the only place one is abandoned is its `cancel` closure, which re-reads the clock under
the same lock (`CancelAt(time.Now())`, never the reservation's own stale instant: handing the token back
at a stale instant moves the limiter's clock backwards and the interval in between is credited twice -
the out-of-order-instant counterexample of this file), and only when no token has been handed back
since the reservation was made (repair F14: x/time/rate derives what a cancellation restores from the
limiter's last event, which `AllowN(now, -1)` moves back to now; `C20.giveback_then_cancel_breaks_bound`
in Props/C20Cancel is the kept counterexample). -/
def idxL (l : List String) (x : String) : Nat := l.findIdx (· == x)

theorem C20.src_reservation_instants :
    Gen.limiterReserveSites = ["ratelimit_serial.go:limiterWait|now"] ∧
    Gen.limiterCancelSites = ["ratelimit_serial.go:limiterWait|time.Now()"] ∧
    idxL Gen.evLimiterWait "sendLimiterMu.Lock" < idxL Gen.evLimiterWait "l.ReserveN" ∧
    Gen.evLimiterWait.getD (idxL Gen.evLimiterWait "l.ReserveN" - 1) "" = "time.Now" ∧
    Gen.evLimiterWait.getD (idxL Gen.evLimiterWait "l.ReserveN" + 1) "" = "sendLimiterMu.Unlock" ∧
    Gen.evLimiterWait.getD (idxL Gen.evLimiterWait "r.CancelAt" - 1) "" = "time.Now" ∧
    Gen.evLimiterWait.getD (idxL Gen.evLimiterWait "r.CancelAt" - 2) "" = "then{" ∧
    Gen.evLimiterWait.getD (idxL Gen.evLimiterWait "r.CancelAt" - 3) "" = "if:giveBacks == sendLimiterGiveBacks" ∧
    Gen.evLimiterWait.getD (idxL Gen.evLimiterWait "r.CancelAt" - 4) "" = "sendLimiterMu.Lock" ∧
    Gen.evLimiterWait.getD (idxL Gen.evLimiterWait "r.CancelAt" + 1) "" = "}" ∧
    Gen.evLimiterWait.getD (idxL Gen.evLimiterWait "r.CancelAt" + 2) "" = "sendLimiterMu.Unlock" ∧
    Gen.limiterGiveBackCounts = ["ratelimit_serial.go:limiterGiveBack"] := by
  decide +kernel

end Dht
