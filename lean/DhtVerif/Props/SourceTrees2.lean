/-
T1 by translation, second batch (see Props/SourceTrees.lean for the method): the order of the
traversal containers, the BEP 44 item check and targets, the BEP 42 local-network exemption,
the traversal node filter and `IsQuestionable`, each as the regenerated decision expression
interpreted with an atom table, equal to the model function for all arguments.
-/
import DhtVerif.Model.SourceTrees
import DhtVerif.Model.SourceTrees2
import DhtVerif.Model.Bep44
import DhtVerif.Model.Server
import DhtVerif.Model.Traversal
import DhtVerif.Props.SourceTrees
namespace Dht
open Gen (DExp SExp)

/-! ### types.AddrMaybeId.CloserThan (statement tree; state = the `multiless.Computation` `ml`) -/

def ctStep (target : Id) (l r : Cand) : String → ML → Option ML
  | "ml := multiless.New().Bool(!l.Id.Ok, !r.Id.Ok)" => fun _ => some (ML.new.bool (!l.id.isSome) (!r.id.isSome))
  | "ml = ml.Cmp(l.Id.Value.Distance(target).Cmp(r.Id.Value.Distance(target)))" => fun ml =>
    match l.id, r.id with
    | some li, some ri => some (ml.cmp (Id.cmp (Id.distance li target) (Id.distance ri target)))
    | _, _ => none
  | "ml = ml.Cmp(l.Addr.Addr().Compare(r.Addr.Addr()))" => fun ml => some (ml.cmp (l.addr.cmpAddr r.addr))
  | "ml = multiless.EagerOrdered(ml, l.Addr.Port(), r.Addr.Port())" => fun ml =>
    some (ml.eagerOrdered l.addr.port r.addr.port)
  | _ => fun _ => none

def ctCond (l r : Cand) : String → ML → Option Bool
  | "l.Id.Ok && r.Id.Ok" => fun _ => some (l.id.isSome && r.id.isSome)
  | "!ml.Ok()" => fun ml => some (!ml.ok)
  | _ => fun _ => none

def ctRet : String → ML → Option Bool
  | "ml.Less()" => fun ml => some ml.less
  | _ => fun _ => none

/-- The model's address order is `netip.Addr.Compare` followed by the port comparison. -/
theorem Addr.cmp_eq_cmpAddr (l r : Addr) :
    l.cmp r = (match l.cmpAddr r with
      | .lt => .lt
      | .gt => .gt
      | .eq => compare l.port r.port) := by
  simp only [Addr.cmp, Addr.cmpAddr]
  split
  · rfl
  · split
    · rfl
    · rfl

theorem Nat.decide_lt_eq_compare (a b : Nat) : decide (a < b) = (compare a b == Ordering.lt) := by
  by_cases h : a < b
  · simp [h, Nat.compare_eq_lt.mpr h]
  · have : compare a b ≠ .lt := fun hc => h (Nat.compare_eq_lt.mp hc)
    simp [h, this]

/-- The last two links of the chain (address, port) on an undecided computation. -/
theorem ML.addr_port_less (l r : Addr) :
    ((ML.new.cmp (l.cmpAddr r)).eagerOrdered l.port r.port).less = (l.cmp r == .lt) := by
  rw [Addr.cmp_eq_cmpAddr]
  cases h : l.cmpAddr r <;> simp [ML.new, ML.cmp, ML.eagerSameLess, ML.eagerOrdered]
  · by_cases hp : l.port = r.port
    · simp [hp]
    · simp [hp, Nat.decide_lt_eq_compare]

theorem ML.new_bool_same (a : Bool) : ML.new.bool a a = ML.new := by cases a <;> rfl
theorem ML.new_bool_ft : ML.new.bool false true = ⟨true, true⟩ := rfl
theorem ML.new_bool_tf : ML.new.bool true false = ⟨true, false⟩ := rfl
theorem ML.new_cmp_lt : ML.new.cmp .lt = ⟨true, true⟩ := rfl
theorem ML.new_cmp_gt : ML.new.cmp .gt = ⟨true, false⟩ := rfl
theorem ML.new_cmp_eq : ML.new.cmp .eq = ML.new := rfl
theorem ML.new_ok : ML.new.ok = false := rfl

/-- `AddrMaybeId.CloserThan` in types/addr-maybe-id.go computes exactly the model's `closerThan`,
whatever the initial value of the local `ml`. -/
theorem SourceTrees.closerThan (target : Id) (l r : Cand) (ml0 : ML) :
    SExp.evalWith (ctStep target l r) (ctCond l r) ctRet Gen.stmCloserThan ml0 = some (closerThan target l r) := by
  have hap := ML.addr_port_less l.addr r.addr
  simp only [Gen.stmCloserThan, SExp.evalWith, ctStep, ctCond, ctRet, Dht.closerThan]
  cases l.id with
  | none =>
    cases r.id with
    | none => simp [ML.new_bool_same, ML.new_ok, hap]
    | some ri => simp [ML.new_bool_tf]
  | some li =>
    cases r.id with
    | none => simp [ML.new_bool_ft]
    | some ri =>
      simp only [Option.isSome, Bool.not_true, ML.new_bool_same, Bool.and_self]
      cases Id.cmp (Id.distance li target) (Id.distance ri target) <;>
        simp [ML.new_cmp_lt, ML.new_cmp_gt, ML.new_cmp_eq, ML.new_ok, hap]

/-- Negative check: the distance comparison with its operands exchanged. Unknown statement: no value
whenever both IDs are known. -/
def stmCloserThanMutSwap : SExp := SExp.seq "ml := multiless.New().Bool(!l.Id.Ok, !r.Id.Ok)" (SExp.ite "l.Id.Ok && r.Id.Ok" (SExp.seq "ml = ml.Cmp(r.Id.Value.Distance(target).Cmp(l.Id.Value.Distance(target)))" (SExp.ite "!ml.Ok()" (SExp.seq "ml = ml.Cmp(l.Addr.Addr().Compare(r.Addr.Addr()))" (SExp.seq "ml = multiless.EagerOrdered(ml, l.Addr.Port(), r.Addr.Port())" (SExp.ret "ml.Less()"))) (SExp.ret "ml.Less()"))) (SExp.ite "!ml.Ok()" (SExp.seq "ml = ml.Cmp(l.Addr.Addr().Compare(r.Addr.Addr()))" (SExp.seq "ml = multiless.EagerOrdered(ml, l.Addr.Port(), r.Addr.Port())" (SExp.ret "ml.Less()"))) (SExp.ret "ml.Less()")))

theorem SourceTrees.closerThan_mutSwap_none (target : Id) (l r : Cand) (ml0 : ML)
    (hl : l.id.isSome = true) (hr : r.id.isSome = true) :
    SExp.evalWith (ctStep target l r) (ctCond l r) ctRet stmCloserThanMutSwap ml0 = none := by
  simp [stmCloserThanMutSwap, SExp.evalWith, ctStep, ctCond, hl, hr]

example : ¬ ∀ (target : Id) (l r : Cand) (ml0 : ML),
    SExp.evalWith (ctStep target l r) (ctCond l r) ctRet stmCloserThanMutSwap ml0 = some (closerThan target l r) := by
  intro h
  have h' := h [0] ⟨some [1], ⟨1, [1, 2, 3, 4], 1⟩⟩ ⟨some [2], ⟨1, [1, 2, 3, 4], 1⟩⟩ ML.new
  rw [SourceTrees.closerThan_mutSwap_none _ _ _ _ rfl rfl] at h'
  exact absurd h' (by simp)

/-- Negative check with known atoms only: the port comparison dropped (both copies). The tree evaluates,
but two candidates without ID at one IP and ports 1 < 2 are no longer ordered. -/
def stmCloserThanMutNoPort : SExp := SExp.seq "ml := multiless.New().Bool(!l.Id.Ok, !r.Id.Ok)" (SExp.ite "l.Id.Ok && r.Id.Ok" (SExp.seq "ml = ml.Cmp(l.Id.Value.Distance(target).Cmp(r.Id.Value.Distance(target)))" (SExp.ite "!ml.Ok()" (SExp.seq "ml = ml.Cmp(l.Addr.Addr().Compare(r.Addr.Addr()))" (SExp.ret "ml.Less()")) (SExp.ret "ml.Less()"))) (SExp.ite "!ml.Ok()" (SExp.seq "ml = ml.Cmp(l.Addr.Addr().Compare(r.Addr.Addr()))" (SExp.ret "ml.Less()")) (SExp.ret "ml.Less()")))

example :
    SExp.evalWith (ctStep [0] ⟨none, ⟨1, [1, 2, 3, 4], 1⟩⟩ ⟨none, ⟨1, [1, 2, 3, 4], 2⟩⟩)
      (ctCond ⟨none, ⟨1, [1, 2, 3, 4], 1⟩⟩ ⟨none, ⟨1, [1, 2, 3, 4], 2⟩⟩) ctRet stmCloserThanMutNoPort ML.new = some false ∧
    closerThan [0] ⟨none, ⟨1, [1, 2, 3, 4], 1⟩⟩ ⟨none, ⟨1, [1, 2, 3, 4], 2⟩⟩ = true := by
  constructor
  · decide +kernel
  · decide +kernel

/-- Non-vacuity: the theorem's equation on concrete candidates (IDs 1 and 2 seen from target 0; an unknown ID sorts last). -/
example :
    SExp.evalWith (ctStep [0] ⟨some [1], ⟨1, [9, 9, 9, 9], 1⟩⟩ ⟨some [2], ⟨1, [1, 2, 3, 4], 1⟩⟩)
      (ctCond ⟨some [1], ⟨1, [9, 9, 9, 9], 1⟩⟩ ⟨some [2], ⟨1, [1, 2, 3, 4], 1⟩⟩) ctRet Gen.stmCloserThan ML.new = some true ∧
    SExp.evalWith (ctStep [0] ⟨none, ⟨1, [1, 2, 3, 4], 1⟩⟩ ⟨some [2], ⟨1, [1, 2, 3, 4], 1⟩⟩)
      (ctCond ⟨none, ⟨1, [1, 2, 3, 4], 1⟩⟩ ⟨some [2], ⟨1, [1, 2, 3, 4], 1⟩⟩) ctRet Gen.stmCloserThan ML.new = some false := by
  constructor <;> decide +kernel

/-! ### containers.closerThanTarget.Compare and k_nearest_nodes.lessComparer[K].Compare -/

/-- The meaning of a `CloserThan` call is the evaluation of the source of `CloserThan` itself. -/
def cttCond (target : Id) (l r : Cand) : String → Option Bool
  | "l.CloserThan(r, me.target)" =>
    SExp.evalWith (ctStep target l r) (ctCond l r) ctRet Gen.stmCloserThan ML.new
  | "r.CloserThan(l, me.target)" =>
    SExp.evalWith (ctStep target r l) (ctCond r l) ctRet Gen.stmCloserThan ML.new
  | _ => none

/-- Go's three-way `int` results. -/
def cmpRet : String → Option Ordering
  | "-1" => some .lt
  | "0" => some .eq
  | "1" => some .gt
  | _ => none

/-- `closerThanTarget.Compare` in containers/addr-maybe-ids-by-distance.go (with `CloserThan` read from its
own source) is the model's `candCompare`, the comparator of the `SSet` operations. -/
theorem SourceTrees.closerThanTargetCompare (target : Id) (l r : Cand) :
    DExp.evalWith (cttCond target l r) cmpRet Gen.treeCloserThanTargetCompare = some (candCompare target l r) := by
  simp only [Gen.treeCloserThanTargetCompare, DExp.evalWith, cttCond, SourceTrees.closerThan, candCompare]
  cases Dht.closerThan target l r <;> cases Dht.closerThan target r l <;> simp [cmpRet]

/-- Negative check: the results `-1` and `1` exchanged (known atoms). The tree evaluates to the opposite order. -/
def treeCloserThanTargetCompareMut : DExp := DExp.ite "l.CloserThan(r, me.target)" (DExp.ret "1") (DExp.ite "r.CloserThan(l, me.target)" (DExp.ret "-1") (DExp.ret "0"))

theorem SourceTrees.closerThanTargetCompare_mut_wrong (target : Id) (l r : Cand) (h : Dht.closerThan target l r = true) :
    DExp.evalWith (cttCond target l r) cmpRet treeCloserThanTargetCompareMut = some .gt ∧ candCompare target l r = .lt := by
  simp [treeCloserThanTargetCompareMut, DExp.evalWith, cttCond, SourceTrees.closerThan, candCompare, h, cmpRet]

example : ¬ ∀ (target : Id) (l r : Cand),
    DExp.evalWith (cttCond target l r) cmpRet treeCloserThanTargetCompareMut = some (candCompare target l r) := by
  intro h
  have h' := h [0] ⟨some [1], ⟨1, [1, 2, 3, 4], 1⟩⟩ ⟨some [2], ⟨1, [1, 2, 3, 4], 1⟩⟩
  have w := SourceTrees.closerThanTargetCompare_mut_wrong [0] ⟨some [1], ⟨1, [1, 2, 3, 4], 1⟩⟩
    ⟨some [2], ⟨1, [1, 2, 3, 4], 1⟩⟩ (by decide +kernel)
  rw [w.1, w.2] at h'
  exact absurd h' (by simp)

/-- Negative check: the second test negated. Unknown atom: no value whenever the first test fails. -/
example (target : Id) (l r : Cand) (h : closerThan target l r = false) :
    DExp.evalWith (cttCond target l r) cmpRet
      (DExp.ite "l.CloserThan(r, me.target)" (DExp.ret "-1") (DExp.ite "!r.CloserThan(l, me.target)" (DExp.ret "1") (DExp.ret "0"))) = none := by
  simp [DExp.evalWith, cttCond, SourceTrees.closerThan, h]

def lcCond {α : Type} (less : α → α → Bool) (i j : α) : String → Option Bool
  | "me.less(i, j)" => some (less i j)
  | "me.less(j, i)" => some (less j i)
  | _ => none

/-- `lessComparer[K].Compare` in k-nearest-nodes/k-nearest-nodes.go.go is `lessCompare`, for any `less`. -/
theorem SourceTrees.lessComparerCompare {α : Type} (less : α → α → Bool) (i j : α) :
    DExp.evalWith (lcCond less i j) cmpRet Gen.treeLessComparerCompare = some (lessCompare less i j) := by
  simp only [Gen.treeLessComparerCompare, DExp.evalWith, lcCond, lessCompare]
  cases less i j <;> cases less j i <;> simp [cmpRet]

/-- `lessCompare` and the model: `candCompare` is `lessCompare` of `closerThan` (both Go comparators have
one shape) … -/
theorem candCompare_eq_lessCompare (target : Id) (l r : Cand) :
    candCompare target l r = lessCompare (closerThan target) l r := rfl

theorem lessCompare_lt {α : Type} (less : α → α → Bool) (i j : α) :
    (lessCompare less i j == .lt) = less i j := by
  simp only [lessCompare]
  cases less i j <;> cases less j i <;> simp

/-- … and the model's deterministic `KNN.insertSorted` places `e` before the first `x` with
`Compare(e, x) < 0` under the strict order `KNN.lessDet` (distance, then address). -/
theorem KNN.insertSorted_cons_lessCompare (target : Id) (x : KElem) (xs : List KElem) (e : KElem) :
    KNN.insertSorted target (x :: xs) e =
      if x.sameKey e then e :: xs
      else if lessCompare (KNN.lessDet target) e x == .lt then e :: (x :: xs).filter (fun y => !y.sameKey e)
      else x :: KNN.insertSorted target xs e := by
  rw [lessCompare_lt]; rfl

/-- Negative check: `else if me.less(i, j)` (operands not exchanged). Unknown atom is not even needed: all
atoms known, and the tree never answers `1`. -/
def treeLessComparerCompareMut : DExp := DExp.ite "me.less(i, j)" (DExp.ret "-1") (DExp.ite "me.less(i, j)" (DExp.ret "1") (DExp.ret "0"))

example :
    DExp.evalWith (lcCond (fun a b : Nat => decide (a < b)) 2 1) cmpRet treeLessComparerCompareMut = some .eq ∧
    lessCompare (fun a b : Nat => decide (a < b)) 2 1 = .gt := by
  constructor <;> decide

/-- Negative check: the first result changed to `-2`: unknown result expression. -/
example {α : Type} (less : α → α → Bool) (i j : α) (h : less i j = true) :
    DExp.evalWith (lcCond less i j) cmpRet
      (DExp.ite "me.less(i, j)" (DExp.ret "-2") (DExp.ite "me.less(j, i)" (DExp.ret "1") (DExp.ret "0"))) = none := by
  simp [DExp.evalWith, lcCond, h, cmpRet]

/-! ### bep44: Item.IsMutable, Verify, Check, Item.Target, Put.IsMutable, MakeMutableTarget, Put.Target -/

/-- no conditions: for trees that are a single `return` -/
def noCond : String → Option Bool := fun _ => none

/-- `Item.IsMutable`: the model's `k : Option Key` is `none` exactly for the all-zero `K` (`keyOfWire`). -/
def imRet (i : B44.Item) : String → Option Bool
  | "s.K != Empty32ByteArray" => some i.k.isSome
  | _ => none

theorem SourceTrees.itemIsMutable (i : B44.Item) :
    DExp.evalWith noCond (imRet i) Gen.treeItemIsMutable = some i.isMutable := by
  simp [Gen.treeItemIsMutable, DExp.evalWith, imRet, B44.Item.isMutable]

/-- `Verify(k, salt, seq, bv, sig)` of bep44/key.go: `ed25519.Verify` is the parameter `P.verify`. -/
def vfRet (P : B44.Params) (k salt : B44.Bytes) (seq : Int) (bv sig : B44.Bytes) : String → Option Bool
  | "ed25519.Verify(k, bufferToSign(salt, bv, seq), sig)" => some (P.verify k (B44.bufferToSign salt seq bv) sig)
  | _ => none

def ckLetsExpected : List String := ["bv, err := bencode.Marshal(i.V)"]

/-- `Check`. The model's item carries `bv`, the successful result of `bencode.Marshal(i.V)` (`err != nil` is
false). `IsMutable` and `Verify` are read from their own sources; `i.K[:]` has a model value only for a
mutable item. -/
def ckCond (P : B44.Params) (i : B44.Item) : String → Option Bool
  | "err != nil" => some false
  | "len(bv) > 1000" => some (decide (i.bv.length > 1000))
  | "!i.IsMutable()" => (DExp.evalWith noCond (imRet i) Gen.treeItemIsMutable).map (!·)
  | "len(i.Salt) > 64" => some (decide (i.salt.length > 64))
  | "!Verify(i.K[:], i.Salt, i.Seq, bv, i.Sig[:])" =>
    (i.k.bind (fun k => DExp.evalWith noCond (vfRet P k i.salt i.seq i.bv i.sig) Gen.treeBep44Verify)).map (!·)
  | _ => none

def ckRet : String → Option (Option Nat)
  | "nil" => some none
  | "ErrValueFieldTooBig" => some (some Gen.bep44ErrValueFieldTooBig)
  | "ErrSaltFieldTooBig" => some (some Gen.bep44ErrSaltFieldTooBig)
  | "ErrInvalidSignature" => some (some Gen.bep44ErrInvalidSignature)
  | _ => none

/-- `Check` in bep44/item.go computes exactly the model's `B44.check`. -/
theorem SourceTrees.bep44Check (P : B44.Params) (i : B44.Item) :
    Gen.treeBep44CheckLets = ckLetsExpected ∧
    DExp.evalWith (ckCond P i) ckRet Gen.treeBep44Check = some (B44.check P i) := by
  refine ⟨by decide, ?_⟩
  have hV : Gen.bep44MaxV = 1000 := by decide
  have hS : Gen.bep44MaxSalt = 64 := by decide
  simp only [Gen.treeBep44Check, Gen.treeItemIsMutable, Gen.treeBep44Verify, DExp.evalWith, ckCond, imRet, vfRet,
    B44.check, hV, hS]
  by_cases h1 : i.bv.length > 1000
  · simp [h1, ckRet]
  · cases hk : i.k with
    | none => simp [h1, ckRet]
    | some k =>
      by_cases h2 : i.salt.length > 64
      · simp [h1, h2, ckRet]
      · cases h3 : P.verify k (B44.bufferToSign i.salt i.seq i.bv) i.sig <;> simp [h1, h2, h3, ckRet]

/-- Negative check: the value limit changed (1000 → 1001). Unknown atom: no value for any item. -/
def treeBep44CheckMutLimit : DExp := DExp.ite "err != nil" (DExp.ret "err") (DExp.ite "len(bv) > 1001" (DExp.ret "ErrValueFieldTooBig") (DExp.ite "!i.IsMutable()" (DExp.ret "nil") (DExp.ite "len(i.Salt) > 64" (DExp.ret "ErrSaltFieldTooBig") (DExp.ite "!Verify(i.K[:], i.Salt, i.Seq, bv, i.Sig[:])" (DExp.ret "ErrInvalidSignature") (DExp.ret "nil")))))

example (P : B44.Params) (i : B44.Item) : DExp.evalWith (ckCond P i) ckRet treeBep44CheckMutLimit = none := by
  simp [treeBep44CheckMutLimit, DExp.evalWith, ckCond]

/-- Negative check with known atoms only: the salt test after the signature test. The tree evaluates, but an
item with an over-long salt and a bad signature is answered 206 instead of the model's (and the source's) 207. -/
def treeBep44CheckMutOrder : DExp := DExp.ite "err != nil" (DExp.ret "err") (DExp.ite "len(bv) > 1000" (DExp.ret "ErrValueFieldTooBig") (DExp.ite "!i.IsMutable()" (DExp.ret "nil") (DExp.ite "!Verify(i.K[:], i.Salt, i.Seq, bv, i.Sig[:])" (DExp.ret "ErrInvalidSignature") (DExp.ite "len(i.Salt) > 64" (DExp.ret "ErrSaltFieldTooBig") (DExp.ret "nil")))))

theorem SourceTrees.bep44Check_mutOrder_wrong (P : B44.Params) (i : B44.Item) (k : B44.Key) (hk : i.k = some k)
    (hv : ¬ i.bv.length > 1000) (hs : i.salt.length > 64)
    (hsig : P.verify k (B44.bufferToSign i.salt i.seq i.bv) i.sig = false) :
    DExp.evalWith (ckCond P i) ckRet treeBep44CheckMutOrder = some (some 206) ∧ B44.check P i = some 207 := by
  have hV : Gen.bep44MaxV = 1000 := by decide
  have hS : Gen.bep44MaxSalt = 64 := by decide
  simp [treeBep44CheckMutOrder, Gen.treeItemIsMutable, Gen.treeBep44Verify, DExp.evalWith, ckCond, imRet, vfRet,
    B44.check, hV, hS, hk, hv, hs, hsig, ckRet, Gen.bep44ErrInvalidSignature, Gen.bep44ErrSaltFieldTooBig]

/-- the hypotheses can be met (65 bytes of salt, a verifier that rejects everything) -/
example : ¬ ∀ (P : B44.Params) (i : B44.Item),
    DExp.evalWith (ckCond P i) ckRet treeBep44CheckMutOrder = some (B44.check P i) := by
  intro h
  have h' := h ⟨fun _ => [], fun _ _ _ => false, true⟩ ⟨[], some [1], List.replicate 65 0, [], 0, 0⟩
  have w := SourceTrees.bep44Check_mutOrder_wrong ⟨fun _ => [], fun _ _ _ => false, true⟩
    ⟨[], some [1], List.replicate 65 0, [], 0, 0⟩ [1] rfl (by decide) (by decide) rfl
  rw [w.1, w.2] at h'
  exact absurd h' (by simp)

/-- `Item.Target`: SHA-1 is the parameter `P.H`; `i.K[:]` has a model value only for a mutable item. -/
def itCond (i : B44.Item) : String → Option Bool
  | "i.IsMutable()" => DExp.evalWith noCond (imRet i) Gen.treeItemIsMutable
  | _ => none

def itRet (P : B44.Params) (i : B44.Item) : String → Option B44.Target
  | "sha1.Sum(append(i.K[:], i.Salt...))" => i.k.map (fun k => P.H (k ++ i.salt))
  | "sha1.Sum(bencode.MustMarshal(i.V))" => some (P.H i.bv)
  | _ => none

/-- `Item.Target` in bep44/item.go computes exactly the model's `B44.target`. -/
theorem SourceTrees.itemTarget (P : B44.Params) (i : B44.Item) :
    DExp.evalWith (itCond i) (itRet P i) Gen.treeItemTarget = some (B44.target P i) := by
  simp only [Gen.treeItemTarget, Gen.treeItemIsMutable, DExp.evalWith, itCond, imRet, B44.target]
  cases h : i.k <;> simp [itRet, h]

/-- Negative check: salt before key in the hashed bytes. Unknown result: no value for a mutable item. -/
example (P : B44.Params) (i : B44.Item) (h : i.k.isSome = true) :
    DExp.evalWith (itCond i) (itRet P i)
      (DExp.ite "i.IsMutable()" (DExp.ret "sha1.Sum(append(i.Salt, i.K[:]...))") (DExp.ret "sha1.Sum(bencode.MustMarshal(i.V))")) = none := by
  simp [Gen.treeItemIsMutable, DExp.evalWith, itCond, imRet, h, itRet]

/-- Negative check with known atoms: the branches exchanged. An immutable item gets no value (there is no
key to hash), a mutable one the hash of its value instead of key and salt. -/
example (P : B44.Params) (i : B44.Item) (k : B44.Key) (h : i.k = some k) :
    DExp.evalWith (itCond i) (itRet P i)
      (DExp.ite "i.IsMutable()" (DExp.ret "sha1.Sum(bencode.MustMarshal(i.V))") (DExp.ret "sha1.Sum(append(i.K[:], i.Salt...))"))
      = some (P.H i.bv) ∧ B44.target P i = P.H (k ++ i.salt) := by
  simp [Gen.treeItemIsMutable, DExp.evalWith, itCond, imRet, h, itRet, B44.target]

/-- `Put.IsMutable` (`K` is a pointer, `nil` for an immutable put): the model of a `Put` is the item
`ToItem` makes of it, `k = none` for `K == nil`. -/
def pmRet (i : B44.Item) : String → Option Bool
  | "s.K != nil" => some i.k.isSome
  | _ => none

/-- `MakeMutableTarget(pubKey, salt)` of bep44/target.go. -/
def mmtRet (P : B44.Params) (pubKey salt : B44.Bytes) : String → Option B44.Target
  | "sha1.Sum(append(pubKey[:], salt...))" => some (P.H (pubKey ++ salt))
  | _ => none

def ptCond (i : B44.Item) : String → Option Bool
  | "i.IsMutable()" => DExp.evalWith noCond (pmRet i) Gen.treePutIsMutable
  | _ => none

/-- `*i.K` has a value only when `K != nil`; `MakeMutableTarget` is read from its own source. -/
def ptRet (P : B44.Params) (i : B44.Item) : String → Option B44.Target
  | "MakeMutableTarget(*i.K, i.Salt)" =>
    i.k.bind (fun k => DExp.evalWith noCond (mmtRet P k i.salt) Gen.treeMakeMutableTarget)
  | "sha1.Sum(bencode.MustMarshal(i.V))" => some (P.H i.bv)
  | _ => none

/-- `Put.Target` in bep44/put.go (through `Put.IsMutable` and `MakeMutableTarget`) computes the model's
`B44.target` of the put's item: a put and the item it becomes are filed under one target. -/
theorem SourceTrees.putTarget (P : B44.Params) (i : B44.Item) :
    DExp.evalWith (ptCond i) (ptRet P i) Gen.treePutTarget = some (B44.target P i) := by
  simp only [Gen.treePutTarget, Gen.treePutIsMutable, DExp.evalWith, ptCond, pmRet, B44.target]
  cases h : i.k <;> simp [ptRet, mmtRet, DExp.evalWith, Gen.treeMakeMutableTarget, h]

/-- Negative check: `MakeMutableTarget` hashing the salt only: unknown result inside the callee, so the
caller's mutable branch has no value either. -/
example (P : B44.Params) (i : B44.Item) (k : B44.Key) (_h : i.k = some k) :
    DExp.evalWith noCond (mmtRet P k i.salt) (DExp.ret "sha1.Sum(salt)") = none := by
  simp [DExp.evalWith, mmtRet]

/-- Negative check: `Put.Target` testing `!i.IsMutable()`: unknown atom, no value for any put. -/
example (P : B44.Params) (i : B44.Item) :
    DExp.evalWith (ptCond i) (ptRet P i)
      (DExp.ite "!i.IsMutable()" (DExp.ret "MakeMutableTarget(*i.K, i.Salt)") (DExp.ret "sha1.Sum(bencode.MustMarshal(i.V))")) = none := by
  simp [DExp.evalWith, ptCond]

/-- Apart from those the theorems of this file state (`Check`: the marshalling; `validNodeAddr`: `ua`, `ip4`; the
networks of `init`), the extractor skipped no statement in any of the functions read as decision expressions here:
their trees are their whole bodies. (`CloserThan`'s statement tree keeps its statements.) -/
theorem SourceTrees.batch2_no_skipped_statements :
    Gen.treeCloserThanTargetCompareLets = [] ∧ Gen.treeLessComparerCompareLets = [] ∧
    Gen.treeBep44VerifyLets = [] ∧ Gen.treeItemIsMutableLets = [] ∧ Gen.treePutIsMutableLets = [] ∧
    Gen.treeItemTargetLets = [] ∧ Gen.treePutTargetLets = [] ∧ Gen.treeMakeMutableTargetLets = [] ∧
    Gen.treeIsLocalNetworkLets = [] ∧ Gen.treeTraversalNodeFilterLets = [] ∧ Gen.treeIsQuestionableLets = [] := by
  decide

/-! ### security.go isLocalNetwork (BEP 42 exemption) -/

/-- the networks `init` parses into `classA`, `classB`, `classC` -/
def ilnInitExpected : List String :=
  ["classA = mustParseCIDRIPNet(\"10.0.0.0/8\")", "classB = mustParseCIDRIPNet(\"172.16.0.0/12\")",
   "classC = mustParseCIDRIPNet(\"192.168.0.0/16\")"]

/-- `(*net.IPNet).Contains(ip)` for an IPv4 network (number and mask as 4 bytes): `ip.To4()` must succeed and
agree with the network number under the mask. -/
def netContains4 (net mask ip : List UInt8) : Bool :=
  match to4 ip with
  | some v4 => inPrefix v4 net mask
  | none => false

/-- `classA/B/C` as in `ilnInitExpected`; `net.IP.IsLinkLocalUnicast` (169.254/16, fe80::/10) and
`net.IP.IsLoopback` (127/8, ::1) as in the Go standard library. -/
def ilnCond (ip : List UInt8) : String → Option Bool
  | "classA.Contains(ip)" => some (netContains4 [10, 0, 0, 0] [255, 0, 0, 0] ip)
  | "classB.Contains(ip)" => some (netContains4 [172, 16, 0, 0] [255, 240, 0, 0] ip)
  | "classC.Contains(ip)" => some (netContains4 [192, 168, 0, 0] [255, 255, 0, 0] ip)
  | "ip.IsLinkLocalUnicast()" => some (
    match to4 ip with
    | some v4 => v4.getD 0 0 == 169 && v4.getD 1 0 == 254
    | none => ip.length == 16 && (ip.getD 0 0 == 0xfe && ip.getD 1 0 &&& 0xc0 == 0x80))
  | "ip.IsLoopback()" => some (
    match to4 ip with
    | some v4 => v4.getD 0 0 == 127
    | none => ip == [0, 0, 0, 0, 0, 0, 0, 0, 0, 0, 0, 0, 0, 0, 0, 1])
  | _ => none

def boolRet : String → Option Bool
  | "true" => some true
  | "false" => some false
  | _ => none

private theorem st2_to4_length (ip v4 : List UInt8) (h : to4 ip = some v4) : v4.length = 4 := by
  unfold to4 at h
  split at h
  · simp_all
  · split at h
    · simp at h; subst h; simp_all
    · simp at h

private theorem st2_and255 (a : UInt8) : a &&& 255 = a := by
  have : (255 : UInt8) = -1 := by decide
  rw [this]; simp

private theorem st2_inPrefix_ll (a b c d : UInt8) :
    inPrefix [a, b, c, d] [169, 254, 0, 0] [255, 255, 0, 0] = (a == 169 && b == 254) := by
  simp [inPrefix, st2_and255]

private theorem st2_inPrefix_lo (a b c d : UInt8) :
    inPrefix [a, b, c, d] [127, 0, 0, 0] [255, 0, 0, 0] = (a == 127) := by
  simp [inPrefix, st2_and255]

/-- `isLocalNetwork` in security.go (with the networks of `init`) computes exactly the model's `isLocalNetwork`. -/
theorem SourceTrees.isLocalNetwork (ip : List UInt8) :
    Gen.treeSecurityInitLets = ilnInitExpected ∧
    DExp.evalWith (ilnCond ip) boolRet Gen.treeIsLocalNetwork = some (Dht.isLocalNetwork ip) := by
  refine ⟨by decide, ?_⟩
  simp only [Gen.treeIsLocalNetwork, DExp.evalWith, ilnCond, netContains4, Dht.isLocalNetwork]
  cases h : to4 ip with
  | none =>
    have h2 : ip.length ≠ 16 → (ip == [0, 0, 0, 0, 0, 0, 0, 0, 0, 0, 0, 0, 0, 0, 0, 1]) = false := by
      intro hl
      cases hh : (ip == [0, 0, 0, 0, 0, 0, 0, 0, 0, 0, 0, 0, 0, 0, 0, 1])
      · rfl
      · exact absurd (by rw [eq_of_beq hh]; rfl) hl
    generalize (ip.getD 0 0 == 0xfe && ip.getD 1 0 &&& 0xc0 == 0x80) = A
    by_cases hl : ip.length = 16
    · cases A <;> cases (ip == [0, 0, 0, 0, 0, 0, 0, 0, 0, 0, 0, 0, 0, 0, 0, 1]) <;> simp [hl, boolRet]
    · have hb : (ip.length == 16) = false := by simpa using hl
      simp [hl, hb, h2 hl, boolRet]
  | some v4 =>
    have hl := st2_to4_length ip v4 h
    match v4, hl with
    | [a, b, c, d], _ =>
      simp only [st2_inPrefix_ll, st2_inPrefix_lo, List.getD_cons_zero, List.getD_cons_succ]
      cases inPrefix [a, b, c, d] [10, 0, 0, 0] [255, 0, 0, 0] <;>
        cases inPrefix [a, b, c, d] [172, 16, 0, 0] [255, 240, 0, 0] <;>
        cases inPrefix [a, b, c, d] [192, 168, 0, 0] [255, 255, 0, 0] <;>
        cases (a == 169 && b == 254) <;> cases (a == 127) <;> simp [boolRet]

/-- Non-vacuity: the equation on concrete addresses of every kind the function distinguishes. -/
example :
    DExp.evalWith (ilnCond [10, 1, 2, 3]) boolRet Gen.treeIsLocalNetwork = some true ∧
    DExp.evalWith (ilnCond [172, 31, 2, 3]) boolRet Gen.treeIsLocalNetwork = some true ∧
    DExp.evalWith (ilnCond [172, 32, 2, 3]) boolRet Gen.treeIsLocalNetwork = some false ∧
    DExp.evalWith (ilnCond [0, 0, 0, 0, 0, 0, 0, 0, 0, 0, 0xff, 0xff, 192, 168, 2, 3]) boolRet Gen.treeIsLocalNetwork = some true ∧
    DExp.evalWith (ilnCond [0xfe, 0x80, 0, 0, 0, 0, 0, 0, 0, 0, 0, 0, 0, 0, 0, 9]) boolRet Gen.treeIsLocalNetwork = some true ∧
    DExp.evalWith (ilnCond [0, 0, 0, 0, 0, 0, 0, 0, 0, 0, 0, 0, 0, 0, 0, 1]) boolRet Gen.treeIsLocalNetwork = some true ∧
    DExp.evalWith (ilnCond [8, 8, 8, 8]) boolRet Gen.treeIsLocalNetwork = some false := by decide +kernel

/-- Negative check with known atoms only: the 172.16/12 test dropped. 172.16.0.1 is local for the source and
the model, not for the changed tree. -/
def treeIsLocalNetworkMutNoB : DExp := DExp.ite "classA.Contains(ip)" (DExp.ret "true") (DExp.ite "classC.Contains(ip)" (DExp.ret "true") (DExp.ite "ip.IsLinkLocalUnicast()" (DExp.ret "true") (DExp.ite "ip.IsLoopback()" (DExp.ret "true") (DExp.ret "false"))))

example :
    DExp.evalWith (ilnCond [172, 16, 0, 1]) boolRet treeIsLocalNetworkMutNoB = some false ∧
    isLocalNetwork [172, 16, 0, 1] = true := by
  constructor <;> decide +kernel

example : ¬ ∀ ip : List UInt8,
    DExp.evalWith (ilnCond ip) boolRet treeIsLocalNetworkMutNoB = some (isLocalNetwork ip) := by
  intro h
  exact absurd (h [172, 16, 0, 1]) (by decide +kernel)

/-- Negative check: the loopback test negated. Unknown atom: no value for any address that is not local for
one of the earlier reasons. -/
def treeIsLocalNetworkMutLoop : DExp := DExp.ite "classA.Contains(ip)" (DExp.ret "true") (DExp.ite "classB.Contains(ip)" (DExp.ret "true") (DExp.ite "classC.Contains(ip)" (DExp.ret "true") (DExp.ite "ip.IsLinkLocalUnicast()" (DExp.ret "true") (DExp.ite "!ip.IsLoopback()" (DExp.ret "true") (DExp.ret "false")))))

example : DExp.evalWith (ilnCond [8, 8, 8, 8]) boolRet treeIsLocalNetworkMutLoop = none ∧
    DExp.evalWith (ilnCond [0, 0, 0, 0, 0, 0, 0, 0, 0, 0, 0, 0, 0, 0, 0, 1]) boolRet treeIsLocalNetworkMutLoop = none := by
  constructor <;> decide +kernel

/-- Negative check: a changed network in `init` (172.16/12 → 172.16/16) is seen by the first conjunct. -/
example : ["classA = mustParseCIDRIPNet(\"10.0.0.0/8\")", "classB = mustParseCIDRIPNet(\"172.16.0.0/16\")",
   "classC = mustParseCIDRIPNet(\"192.168.0.0/16\")"] ≠ ilnInitExpected := by decide

/-! ### server.go validNodeAddr and Server.TraversalNodeFilter -/

def vnaLetsExpected : List String := ["ua := addr.(*net.UDPAddr)", "ip4 := ua.IP.To4()"]

/-- `ua` is the UDP address (IP bytes, port), `ip4` its `To4()`. -/
def vnaCond (ip : List UInt8) (port : Nat) : String → Option Bool
  | "ua.Port == 0" => some (port == 0)
  | "ip4 != nil && ip4[0] == 0" => some (
    match to4 ip with
    | some v4 => v4.getD 0 0 == 0
    | none => false)
  | _ => none

/-- `validNodeAddr` in server.go is `Dht.validNodeAddr`. -/
theorem SourceTrees.validNodeAddr (ip : List UInt8) (port : Nat) :
    Gen.treeValidNodeAddrLets = vnaLetsExpected ∧
    DExp.evalWith (vnaCond ip port) boolRet Gen.treeValidNodeAddr = some (Dht.validNodeAddr ip port) := by
  refine ⟨by decide, ?_⟩
  simp only [Gen.treeValidNodeAddr, DExp.evalWith, vnaCond, Dht.validNodeAddr]
  cases to4 ip with
  | none => cases (port == 0) <;> simp [boolRet]
  | some v4 =>
    simp only []
    generalize (v4.getD 0 0 == 0) = z
    cases (port == 0) <;> cases z <;> simp [boolRet]

/-- Negative check: the port test dropped (known atoms): port 0 is accepted. -/
example : DExp.evalWith (vnaCond [1, 2, 3, 4] 0) boolRet
      (DExp.ite "ip4 != nil && ip4[0] == 0" (DExp.ret "false") (DExp.ret "true")) = some true ∧
    validNodeAddr [1, 2, 3, 4] 0 = false := by
  constructor <;> decide +kernel

/-- Negative check: `||` for `&&` in the second test: unknown atom, no value for any non-zero port. -/
example (ip : List UInt8) (port : Nat) (h : (port == 0) = false) :
    DExp.evalWith (vnaCond ip port) boolRet
      (DExp.ite "ua.Port == 0" (DExp.ret "false") (DExp.ite "ip4 != nil || ip4[0] == 0" (DExp.ret "false") (DExp.ret "true"))) = none := by
  simp [DExp.evalWith, vnaCond, h]

/-- `node.Addr.UDP()` / `node.Addr.IP()` are the candidate's IP bytes and port; `validNodeAddr` is read from its
own source; `node.Id.Value` has a value only when `node.Id.Ok`; `NodeIdSecure` is the model's `nodeIdSecure`
(where Go would index out of range: not secure, as in `Node.isSecure`). -/
def tnfCond (c : SrvCfg) (n : Cand) : String → Option Bool
  | "!validNodeAddr(node.Addr.UDP())" =>
    (DExp.evalWith (vnaCond n.addr.ip n.addr.port) boolRet Gen.treeValidNodeAddr).map (!·)
  | "s.ipBlocked(node.Addr.IP())" => some (c.blocked n.addr.ip)
  | "!node.Id.Ok" => some (!n.id.isSome)
  | _ => none

def tnfRet (c : SrvCfg) (n : Cand) : String → Option Bool
  | "true" => some true
  | "false" => some false
  | "s.config.NoSecurity || NodeIdSecure(node.Id.Value.AsByteArray(), node.Addr.IP())" =>
    n.id.map (fun id => c.tbl.noSecurity || (nodeIdSecure id n.addr.ip).getD false)
  | _ => none

/-- `Server.TraversalNodeFilter` in server.go is `Dht.traversalNodeFilter`. -/
theorem SourceTrees.traversalNodeFilter (c : SrvCfg) (n : Cand) :
    DExp.evalWith (tnfCond c n) (tnfRet c n) Gen.treeTraversalNodeFilter = some (Dht.traversalNodeFilter c n) := by
  simp only [Gen.treeTraversalNodeFilter, DExp.evalWith, tnfCond, (SourceTrees.validNodeAddr _ _).2,
    Dht.traversalNodeFilter]
  cases Dht.validNodeAddr n.addr.ip n.addr.port <;> cases c.blocked n.addr.ip <;> cases h : n.id <;>
    simp [tnfRet, h]

/-- What the filter means for the model's table policy: a candidate with a known ID passes iff its address is
valid, not blocked, and the node it names passes the security test of `isBad` … -/
theorem traversalNodeFilter_some (c : SrvCfg) (id : Id) (a : Addr) :
    traversalNodeFilter c ⟨some id, a⟩ =
      (validNodeAddr a.ip a.port && !c.blocked a.ip &&
        (c.tbl.noSecurity || Node.isSecure { id := id, addr := ⟨a.ip, a.port⟩ })) := by
  simp only [traversalNodeFilter, Node.isSecure]
  cases validNodeAddr a.ip a.port <;> cases c.blocked a.ip <;> simp

/-- … so a candidate that passes, is not the server itself and has a non-zero ID is not a bad node when it
enters the table (the four tests of `nodeErr`; a new entry has not failed a ping). -/
theorem traversalNodeFilter_notBad (c : SrvCfg) (id : Id) (a : Addr)
    (h : traversalNodeFilter c ⟨some id, a⟩ = true) (hroot : (id == c.tbl.root) = false) (hz : id.isZero = false) :
    isBad c.tbl { id := id, addr := ⟨a.ip, a.port⟩ } = false := by
  rw [traversalNodeFilter_some] at h
  simp only [Bool.and_eq_true] at h
  simp [isBad, hroot, hz, h.2]

/-- … and a candidate without ID passes iff its address is valid and not blocked. -/
theorem traversalNodeFilter_none (c : SrvCfg) (a : Addr) :
    traversalNodeFilter c ⟨none, a⟩ = (validNodeAddr a.ip a.port && !c.blocked a.ip) := by
  simp only [traversalNodeFilter]
  cases validNodeAddr a.ip a.port <;> cases c.blocked a.ip <;> simp

/-- The filter honours the blocklist: a candidate at a blocked IP never passes. -/
theorem traversalNodeFilter_blocked (c : SrvCfg) (n : Cand) (h : c.blocked n.addr.ip = true) :
    traversalNodeFilter c n = false := by
  simp only [traversalNodeFilter, h]
  cases validNodeAddr n.addr.ip n.addr.port <;> simp

/-- The filter enforces BEP 42 unless `NoSecurity`: a candidate with a known ID that passes has an ID that
`nodeIdSecure` accepts for its address. -/
theorem traversalNodeFilter_secure (c : SrvCfg) (id : Id) (a : Addr) (hs : c.tbl.noSecurity = false)
    (h : traversalNodeFilter c ⟨some id, a⟩ = true) : nodeIdSecure id a.ip = some true := by
  rw [traversalNodeFilter_some] at h
  simp only [Bool.and_eq_true, hs, Bool.false_or, Node.isSecure] at h
  cases hn : nodeIdSecure id a.ip with
  | none => simp [hn] at h
  | some b => simpa [hn] using h.2

/-- Negative check with known atoms only: the blocklist test dropped. A blocked, otherwise acceptable
candidate passes the changed tree. -/
def treeTraversalNodeFilterMutNoBlock : DExp := DExp.ite "!validNodeAddr(node.Addr.UDP())" (DExp.ret "false") (DExp.ite "!node.Id.Ok" (DExp.ret "true") (DExp.ret "s.config.NoSecurity || NodeIdSecure(node.Id.Value.AsByteArray(), node.Addr.IP())"))

theorem SourceTrees.traversalNodeFilter_mutNoBlock_wrong (c : SrvCfg) (a : Addr)
    (hv : Dht.validNodeAddr a.ip a.port = true) (hb : c.blocked a.ip = true) :
    DExp.evalWith (tnfCond c ⟨none, a⟩) (tnfRet c ⟨none, a⟩) treeTraversalNodeFilterMutNoBlock = some true ∧
    Dht.traversalNodeFilter c ⟨none, a⟩ = false := by
  simp [treeTraversalNodeFilterMutNoBlock, DExp.evalWith, tnfCond, (SourceTrees.validNodeAddr _ _).2, hv, hb,
    tnfRet, Dht.traversalNodeFilter]

example : ¬ ∀ (c : SrvCfg) (n : Cand),
    DExp.evalWith (tnfCond c n) (tnfRet c n) treeTraversalNodeFilterMutNoBlock = some (traversalNodeFilter c n) := by
  intro h
  have h' := h { tbl := { root := [1] }, blocked := fun _ => true } ⟨none, ⟨1, [1, 2, 3, 4], 5⟩⟩
  have w := SourceTrees.traversalNodeFilter_mutNoBlock_wrong { tbl := { root := [1] }, blocked := fun _ => true }
    ⟨1, [1, 2, 3, 4], 5⟩ (by decide +kernel) rfl
  rw [w.1, w.2] at h'
  exact absurd h' (by simp)

/-- Negative check: `&&` for `||` in the security test. Unknown result: no value for a valid, unblocked
candidate with a known ID. -/
example (c : SrvCfg) (id : Id) (a : Addr) (hv : validNodeAddr a.ip a.port = true) (hb : c.blocked a.ip = false) :
    DExp.evalWith (tnfCond c ⟨some id, a⟩) (tnfRet c ⟨some id, a⟩)
      (DExp.ite "!validNodeAddr(node.Addr.UDP())" (DExp.ret "false") (DExp.ite "s.ipBlocked(node.Addr.IP())" (DExp.ret "false") (DExp.ite "!node.Id.Ok" (DExp.ret "true") (DExp.ret "s.config.NoSecurity && NodeIdSecure(node.Id.Value.AsByteArray(), node.Addr.IP())")))) = none := by
  simp [DExp.evalWith, tnfCond, (SourceTrees.validNodeAddr _ _).2, hv, hb, tnfRet]

/-! ### node.go Server.IsQuestionable -/

/-- `nodeIsBad(n)` is `s.nodeErr(n) != nil`; `IsGood` and `nodeErr` are read from their own sources (the
atom tables of Props/SourceTrees). -/
def iqRet (c : TableCfg) (now : Nat) (n : Node) : String → Option Bool
  | "!s.IsGood(n) && !s.nodeIsBad(n)" =>
    match DExp.evalWith (isGoodCond c n) (isGoodRet c now n) Gen.treeIsGood,
          DExp.evalWith (nodeErrCond c n) nodeErrRet Gen.treeNodeErr with
    | some g, some b => some (!g && !b)
    | _, _ => none
  | _ => none

/-- `Server.IsQuestionable` in node.go is the model's `isQuestionable`. -/
theorem SourceTrees.isQuestionable (c : TableCfg) (now : Nat) (n : Node) :
    DExp.evalWith noCond (iqRet c now n) Gen.treeIsQuestionable = some (Dht.isQuestionable c now n) := by
  simp only [Gen.treeIsQuestionable, DExp.evalWith, iqRet, SourceTrees.isGood, SourceTrees.nodeErr,
    Dht.isQuestionable]

/-- Negative check: `||` for `&&`: unknown result, no value for any node. -/
example (c : TableCfg) (now : Nat) (n : Node) :
    DExp.evalWith noCond (iqRet c now n) (DExp.ret "!s.IsGood(n) || !s.nodeIsBad(n)") = none := by
  simp [DExp.evalWith, iqRet]

/-- Negative check: the `nodeIsBad` conjunct dropped: unknown result. -/
example (c : TableCfg) (now : Nat) (n : Node) :
    DExp.evalWith noCond (iqRet c now n) (DExp.ret "!s.IsGood(n)") = none := by
  simp [DExp.evalWith, iqRet]

/-- Non-vacuity: a fresh node that never responded is questionable, one that just responded is not. -/
example :
    DExp.evalWith noCond (iqRet { root := [1] } 5 { id := [2], addr := ⟨[1, 2, 3, 4], 1⟩ }) Gen.treeIsQuestionable = some true ∧
    DExp.evalWith noCond (iqRet { root := [1] } 5 { id := [2], addr := ⟨[1, 2, 3, 4], 1⟩, lastResp := some 5 })
      Gen.treeIsQuestionable = some false := by
  rw [SourceTrees.isQuestionable, SourceTrees.isQuestionable]
  constructor <;> decide +kernel

end Dht
