/-
T1 by translation (part of the former Props/SourceTrees.lean, split per source function so that an edit of one
function only touches the property that owns it): the regenerated decision expression of the function, interpreted
with an atom table (source text |-> meaning on model values, unknown text |-> none), equals the model function
for all arguments; with negative checks on hand-mutated trees.
-/
import DhtVerif.Model.SourceTrees
import DhtVerif.Model.SourceTrees2
import DhtVerif.Model.Traversal
namespace Dht
open Gen (DExp SExp)

/-! ### types.AddrMaybeId.CloserThan (statement tree; state = the `multiless.Computation` `ml`) -/

def ctStep (target : Id) (l r : Cand) : String → ML → Option ML
  | "$1 := multiless.New().Bool(!l.Id.Ok, !r.Id.Ok)" => fun _ => some (ML.new.bool (!l.id.isSome) (!r.id.isSome))
  | "$1 = $1.Cmp(l.Id.Value.Distance(target).Cmp(r.Id.Value.Distance(target)))" => fun ml =>
    match l.id, r.id with
    | some li, some ri => some (ml.cmp (Id.cmp (Id.distance li target) (Id.distance ri target)))
    | _, _ => none
  | "$1 = $1.Cmp(l.Addr.Addr().Compare(r.Addr.Addr()))" => fun ml => some (ml.cmp (l.addr.cmpAddr r.addr))
  | "$1 = multiless.EagerOrdered($1, l.Addr.Port(), r.Addr.Port())" => fun ml =>
    some (ml.eagerOrdered l.addr.port r.addr.port)
  | _ => fun _ => none

def ctCond (l r : Cand) : String → ML → Option Bool
  | "l.Id.Ok && r.Id.Ok" => fun _ => some (l.id.isSome && r.id.isSome)
  | "!$1.Ok()" => fun ml => some (!ml.ok)
  | _ => fun _ => none

def ctRet : String → ML → Option Bool
  | "$1.Less()" => fun ml => some ml.less
  | _ => fun _ => none

/-- The model's address order is `netip.Addr.Compare` followed by the port comparison. -/
theorem Addr.cmp_eq_cmpAddr (l r : Addr) :
    l.cmp r = (match l.cmpAddr r with
      | .lt => .lt
      | .gt => .gt
      | .eq => compare l.port r.port) := by
  simp only [Addr.cmp, Addr.cmpAddr]
  split
  · rfl
  · split
    · rfl
    · rfl

theorem Nat.decide_lt_eq_compare (a b : Nat) : decide (a < b) = (compare a b == Ordering.lt) := by
  by_cases h : a < b
  · simp [h, Nat.compare_eq_lt.mpr h]
  · have : compare a b ≠ .lt := fun hc => h (Nat.compare_eq_lt.mp hc)
    simp [h, this]

/-- The last two links of the chain (address, port) on an undecided computation. -/
theorem ML.addr_port_less (l r : Addr) :
    ((ML.new.cmp (l.cmpAddr r)).eagerOrdered l.port r.port).less = (l.cmp r == .lt) := by
  rw [Addr.cmp_eq_cmpAddr]
  cases h : l.cmpAddr r <;> simp [ML.new, ML.cmp, ML.eagerSameLess, ML.eagerOrdered]
  · by_cases hp : l.port = r.port
    · simp [hp]
    · simp [hp, Nat.decide_lt_eq_compare]

theorem ML.new_bool_same (a : Bool) : ML.new.bool a a = ML.new := by cases a <;> rfl
theorem ML.new_bool_ft : ML.new.bool false true = ⟨true, true⟩ := rfl
theorem ML.new_bool_tf : ML.new.bool true false = ⟨true, false⟩ := rfl
theorem ML.new_cmp_lt : ML.new.cmp .lt = ⟨true, true⟩ := rfl
theorem ML.new_cmp_gt : ML.new.cmp .gt = ⟨true, false⟩ := rfl
theorem ML.new_cmp_eq : ML.new.cmp .eq = ML.new := rfl
theorem ML.new_ok : ML.new.ok = false := rfl

/-- `AddrMaybeId.CloserThan` in types/addr-maybe-id.go computes exactly the model's `closerThan`,
whatever the initial value of the local `ml`. -/
theorem SourceTrees.closerThan (target : Id) (l r : Cand) (ml0 : ML) :
    SExp.evalWith (ctStep target l r) (ctCond l r) ctRet Gen.stmCloserThan ml0 = some (closerThan target l r) := by
  have hap := ML.addr_port_less l.addr r.addr
  simp only [Gen.stmCloserThan, SExp.evalWith, ctStep, ctCond, ctRet, Dht.closerThan]
  cases l.id with
  | none =>
    cases r.id with
    | none => simp [ML.new_bool_same, ML.new_ok, hap]
    | some ri => simp [ML.new_bool_tf]
  | some li =>
    cases r.id with
    | none => simp [ML.new_bool_ft]
    | some ri =>
      simp only [Option.isSome, Bool.not_true, ML.new_bool_same, Bool.and_self]
      cases Id.cmp (Id.distance li target) (Id.distance ri target) <;>
        simp [ML.new_cmp_lt, ML.new_cmp_gt, ML.new_cmp_eq, ML.new_ok, hap]

/-- Negative check: the distance comparison with its operands exchanged. Unknown statement: no value
whenever both IDs are known. -/
def stmCloserThanMutSwap : SExp := SExp.seq "$1 := multiless.New().Bool(!l.Id.Ok, !r.Id.Ok)" (SExp.ite "l.Id.Ok && r.Id.Ok" (SExp.seq "$1 = $1.Cmp(r.Id.Value.Distance(target).Cmp(l.Id.Value.Distance(target)))" (SExp.ite "!$1.Ok()" (SExp.seq "$1 = $1.Cmp(l.Addr.Addr().Compare(r.Addr.Addr()))" (SExp.seq "$1 = multiless.EagerOrdered($1, l.Addr.Port(), r.Addr.Port())" (SExp.ret "$1.Less()"))) (SExp.ret "$1.Less()"))) (SExp.ite "!$1.Ok()" (SExp.seq "$1 = $1.Cmp(l.Addr.Addr().Compare(r.Addr.Addr()))" (SExp.seq "$1 = multiless.EagerOrdered($1, l.Addr.Port(), r.Addr.Port())" (SExp.ret "$1.Less()"))) (SExp.ret "$1.Less()")))

theorem SourceTrees.closerThan_mutSwap_none (target : Id) (l r : Cand) (ml0 : ML)
    (hl : l.id.isSome = true) (hr : r.id.isSome = true) :
    SExp.evalWith (ctStep target l r) (ctCond l r) ctRet stmCloserThanMutSwap ml0 = none := by
  simp [stmCloserThanMutSwap, SExp.evalWith, ctStep, ctCond, hl, hr]

example : ¬ ∀ (target : Id) (l r : Cand) (ml0 : ML),
    SExp.evalWith (ctStep target l r) (ctCond l r) ctRet stmCloserThanMutSwap ml0 = some (closerThan target l r) := by
  intro h
  have h' := h [0] ⟨some [1], ⟨1, [1, 2, 3, 4], 1⟩⟩ ⟨some [2], ⟨1, [1, 2, 3, 4], 1⟩⟩ ML.new
  rw [SourceTrees.closerThan_mutSwap_none _ _ _ _ rfl rfl] at h'
  exact absurd h' (by simp)

/-- Negative check with known atoms only: the port comparison dropped (both copies). The tree evaluates,
but two candidates without ID at one IP and ports 1 < 2 are no longer ordered. -/
def stmCloserThanMutNoPort : SExp := SExp.seq "$1 := multiless.New().Bool(!l.Id.Ok, !r.Id.Ok)" (SExp.ite "l.Id.Ok && r.Id.Ok" (SExp.seq "$1 = $1.Cmp(l.Id.Value.Distance(target).Cmp(r.Id.Value.Distance(target)))" (SExp.ite "!$1.Ok()" (SExp.seq "$1 = $1.Cmp(l.Addr.Addr().Compare(r.Addr.Addr()))" (SExp.ret "$1.Less()")) (SExp.ret "$1.Less()"))) (SExp.ite "!$1.Ok()" (SExp.seq "$1 = $1.Cmp(l.Addr.Addr().Compare(r.Addr.Addr()))" (SExp.ret "$1.Less()")) (SExp.ret "$1.Less()")))

example :
    SExp.evalWith (ctStep [0] ⟨none, ⟨1, [1, 2, 3, 4], 1⟩⟩ ⟨none, ⟨1, [1, 2, 3, 4], 2⟩⟩)
      (ctCond ⟨none, ⟨1, [1, 2, 3, 4], 1⟩⟩ ⟨none, ⟨1, [1, 2, 3, 4], 2⟩⟩) ctRet stmCloserThanMutNoPort ML.new = some false ∧
    closerThan [0] ⟨none, ⟨1, [1, 2, 3, 4], 1⟩⟩ ⟨none, ⟨1, [1, 2, 3, 4], 2⟩⟩ = true := by
  constructor
  · decide +kernel
  · decide +kernel

/-- Non-vacuity: the theorem's equation on concrete candidates (IDs 1 and 2 seen from target 0; an unknown ID sorts last). -/
example :
    SExp.evalWith (ctStep [0] ⟨some [1], ⟨1, [9, 9, 9, 9], 1⟩⟩ ⟨some [2], ⟨1, [1, 2, 3, 4], 1⟩⟩)
      (ctCond ⟨some [1], ⟨1, [9, 9, 9, 9], 1⟩⟩ ⟨some [2], ⟨1, [1, 2, 3, 4], 1⟩⟩) ctRet Gen.stmCloserThan ML.new = some true ∧
    SExp.evalWith (ctStep [0] ⟨none, ⟨1, [1, 2, 3, 4], 1⟩⟩ ⟨some [2], ⟨1, [1, 2, 3, 4], 1⟩⟩)
      (ctCond ⟨none, ⟨1, [1, 2, 3, 4], 1⟩⟩ ⟨some [2], ⟨1, [1, 2, 3, 4], 1⟩⟩) ctRet Gen.stmCloserThan ML.new = some false := by
  constructor <;> decide +kernel

/-! ### containers.closerThanTarget.Compare and k_nearest_nodes.lessComparer[K].Compare -/

/-- The meaning of a `CloserThan` call is the evaluation of the source of `CloserThan` itself. -/
def cttCond (target : Id) (l r : Cand) : String → Option Bool
  | "l.CloserThan(r, me.target)" =>
    SExp.evalWith (ctStep target l r) (ctCond l r) ctRet Gen.stmCloserThan ML.new
  | "r.CloserThan(l, me.target)" =>
    SExp.evalWith (ctStep target r l) (ctCond r l) ctRet Gen.stmCloserThan ML.new
  | _ => none

/-- Go's three-way `int` results. -/
def cmpRet : String → Option Ordering
  | "-1" => some .lt
  | "0" => some .eq
  | "1" => some .gt
  | _ => none

/-- `closerThanTarget.Compare` in containers/addr-maybe-ids-by-distance.go (with `CloserThan` read from its
own source) is the model's `candCompare`, the comparator of the `SSet` operations. -/
theorem SourceTrees.closerThanTargetCompare (target : Id) (l r : Cand) :
    DExp.evalWith (cttCond target l r) cmpRet Gen.treeCloserThanTargetCompare = some (candCompare target l r) := by
  simp only [Gen.treeCloserThanTargetCompare, DExp.evalWith, cttCond, SourceTrees.closerThan, candCompare]
  cases Dht.closerThan target l r <;> cases Dht.closerThan target r l <;> simp [cmpRet]

/-- Negative check: the results `-1` and `1` exchanged (known atoms). The tree evaluates to the opposite order. -/
def treeCloserThanTargetCompareMut : DExp := DExp.ite "l.CloserThan(r, me.target)" (DExp.ret "1") (DExp.ite "r.CloserThan(l, me.target)" (DExp.ret "-1") (DExp.ret "0"))

theorem SourceTrees.closerThanTargetCompare_mut_wrong (target : Id) (l r : Cand) (h : Dht.closerThan target l r = true) :
    DExp.evalWith (cttCond target l r) cmpRet treeCloserThanTargetCompareMut = some .gt ∧ candCompare target l r = .lt := by
  simp [treeCloserThanTargetCompareMut, DExp.evalWith, cttCond, SourceTrees.closerThan, candCompare, h, cmpRet]

example : ¬ ∀ (target : Id) (l r : Cand),
    DExp.evalWith (cttCond target l r) cmpRet treeCloserThanTargetCompareMut = some (candCompare target l r) := by
  intro h
  have h' := h [0] ⟨some [1], ⟨1, [1, 2, 3, 4], 1⟩⟩ ⟨some [2], ⟨1, [1, 2, 3, 4], 1⟩⟩
  have w := SourceTrees.closerThanTargetCompare_mut_wrong [0] ⟨some [1], ⟨1, [1, 2, 3, 4], 1⟩⟩
    ⟨some [2], ⟨1, [1, 2, 3, 4], 1⟩⟩ (by decide +kernel)
  rw [w.1, w.2] at h'
  exact absurd h' (by simp)

/-- Negative check: the second test negated. Unknown atom: no value whenever the first test fails. -/
example (target : Id) (l r : Cand) (h : closerThan target l r = false) :
    DExp.evalWith (cttCond target l r) cmpRet
      (DExp.ite "l.CloserThan(r, me.target)" (DExp.ret "-1") (DExp.ite "!r.CloserThan(l, me.target)" (DExp.ret "1") (DExp.ret "0"))) = none := by
  simp [DExp.evalWith, cttCond, SourceTrees.closerThan, h]

def lcCond {α : Type} (less : α → α → Bool) (i j : α) : String → Option Bool
  | "me.less(i, j)" => some (less i j)
  | "me.less(j, i)" => some (less j i)
  | _ => none

/-- `lessComparer[K].Compare` in k-nearest-nodes/k-nearest-nodes.go.go is `lessCompare`, for any `less`. -/
theorem SourceTrees.lessComparerCompare {α : Type} (less : α → α → Bool) (i j : α) :
    DExp.evalWith (lcCond less i j) cmpRet Gen.treeLessComparerCompare = some (lessCompare less i j) := by
  simp only [Gen.treeLessComparerCompare, DExp.evalWith, lcCond, lessCompare]
  cases less i j <;> cases less j i <;> simp [cmpRet]

/-- `lessCompare` and the model: `candCompare` is `lessCompare` of `closerThan` (both Go comparators have
one shape) … -/
theorem candCompare_eq_lessCompare (target : Id) (l r : Cand) :
    candCompare target l r = lessCompare (closerThan target) l r := rfl

theorem lessCompare_lt {α : Type} (less : α → α → Bool) (i j : α) :
    (lessCompare less i j == .lt) = less i j := by
  simp only [lessCompare]
  cases less i j <;> cases less j i <;> simp

/-- … and the model's deterministic `KNN.insertSorted` places `e` before the first `x` with
`Compare(e, x) < 0` under the strict order `KNN.lessDet` (distance, then address). -/
theorem KNN.insertSorted_cons_lessCompare (target : Id) (x : KElem) (xs : List KElem) (e : KElem) :
    KNN.insertSorted target (x :: xs) e =
      if x.sameKey e then e :: xs
      else if lessCompare (KNN.lessDet target) e x == .lt then e :: (x :: xs).filter (fun y => !y.sameKey e)
      else x :: KNN.insertSorted target xs e := by
  rw [lessCompare_lt]; rfl

/-- Negative check: `else if me.less(i, j)` (operands not exchanged). Unknown atom is not even needed: all
atoms known, and the tree never answers `1`. -/
def treeLessComparerCompareMut : DExp := DExp.ite "me.less(i, j)" (DExp.ret "-1") (DExp.ite "me.less(i, j)" (DExp.ret "1") (DExp.ret "0"))

example :
    DExp.evalWith (lcCond (fun a b : Nat => decide (a < b)) 2 1) cmpRet treeLessComparerCompareMut = some .eq ∧
    lessCompare (fun a b : Nat => decide (a < b)) 2 1 = .gt := by
  constructor <;> decide

/-- Negative check: the first result changed to `-2`: unknown result expression. -/
example {α : Type} (less : α → α → Bool) (i j : α) (h : less i j = true) :
    DExp.evalWith (lcCond less i j) cmpRet
      (DExp.ite "me.less(i, j)" (DExp.ret "-2") (DExp.ite "me.less(j, i)" (DExp.ret "1") (DExp.ret "0"))) = none := by
  simp [DExp.evalWith, lcCond, h, cmpRet]


/-- The extractor skipped no statement in the two comparators (their trees are their whole bodies). -/
theorem SourceTrees.closer_no_skipped_statements :
    Gen.treeCloserThanTargetCompareLets = [] ∧ Gen.treeLessComparerCompareLets = [] := by
  decide

end Dht
