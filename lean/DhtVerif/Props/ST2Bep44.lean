/-
T1 by translation (part of the former Props/SourceTrees.lean, split per source function so that an edit of one
function only touches the property that owns it): the regenerated decision expression of the function, interpreted
with an atom table (source text |-> meaning on model values, unknown text |-> none), equals the model function
for all arguments; with negative checks on hand-mutated trees.
-/
import DhtVerif.Model.SourceTrees
import DhtVerif.Props.STCommon
import DhtVerif.Model.SourceTrees2
import DhtVerif.Model.Bep44
namespace Dht
open Gen (DExp SExp)

/-! ### bep44: Item.IsMutable, Verify, Check, Item.Target, Put.IsMutable, MakeMutableTarget, Put.Target -/

/-- `Item.IsMutable`: the model's `k : Option Key` is `none` exactly for the all-zero `K` (`keyOfWire`). -/
def imRet (i : B44.Item) : String → Option Bool
  | "s.K != Empty32ByteArray" => some i.k.isSome
  | _ => none

theorem SourceTrees.itemIsMutable (i : B44.Item) :
    DExp.evalWith noCond (imRet i) Gen.treeItemIsMutable = some i.isMutable := by
  simp [Gen.treeItemIsMutable, DExp.evalWith, imRet, B44.Item.isMutable]

/-- `Verify(k, salt, seq, bv, sig)` of bep44/key.go: `ed25519.Verify` is the parameter `P.verify`. -/
def vfRet (P : B44.Params) (k salt : B44.Bytes) (seq : Int) (bv sig : B44.Bytes) : String → Option Bool
  | "ed25519.Verify(k, bufferToSign(salt, bv, seq), sig)" => some (P.verify k (B44.bufferToSign salt seq bv) sig)
  | _ => none

def ckLetsExpected : List String := ["$1, $2 := bencode.Marshal(i.V)"]

/-- `Check`. The model's item carries `bv`, the successful result of `bencode.Marshal(i.V)` (`err != nil` is
false). `IsMutable` and `Verify` are read from their own sources; `i.K[:]` has a model value only for a
mutable item. -/
def ckCond (P : B44.Params) (i : B44.Item) : String → Option Bool
  | "$2 != nil" => some false
  | "len($1) > 1000" => some (decide (i.bv.length > 1000))
  | "!i.IsMutable()" => (DExp.evalWith noCond (imRet i) Gen.treeItemIsMutable).map (!·)
  | "len(i.Salt) > 64" => some (decide (i.salt.length > 64))
  | "!Verify(i.K[:], i.Salt, i.Seq, $1, i.Sig[:])" =>
    (i.k.bind (fun k => DExp.evalWith noCond (vfRet P k i.salt i.seq i.bv i.sig) Gen.treeBep44Verify)).map (!·)
  | _ => none

def ckRet : String → Option (Option Nat)
  | "nil" => some none
  | "ErrValueFieldTooBig" => some (some Gen.bep44ErrValueFieldTooBig)
  | "ErrSaltFieldTooBig" => some (some Gen.bep44ErrSaltFieldTooBig)
  | "ErrInvalidSignature" => some (some Gen.bep44ErrInvalidSignature)
  | _ => none

/-- `Check` in bep44/item.go computes exactly the model's `B44.check`. -/
theorem SourceTrees.bep44Check (P : B44.Params) (i : B44.Item) :
    Gen.treeBep44CheckLets = ckLetsExpected ∧
    DExp.evalWith (ckCond P i) ckRet Gen.treeBep44Check = some (B44.check P i) := by
  refine ⟨by decide, ?_⟩
  have hV : Gen.bep44MaxV = 1000 := by decide
  have hS : Gen.bep44MaxSalt = 64 := by decide
  simp only [Gen.treeBep44Check, Gen.treeItemIsMutable, Gen.treeBep44Verify, DExp.evalWith, ckCond, imRet, vfRet,
    B44.check, hV, hS]
  by_cases h1 : i.bv.length > 1000
  · simp [h1, ckRet]
  · cases hk : i.k with
    | none => simp [h1, ckRet]
    | some k =>
      by_cases h2 : i.salt.length > 64
      · simp [h1, h2, ckRet]
      · cases h3 : P.verify k (B44.bufferToSign i.salt i.seq i.bv) i.sig <;> simp [h1, h2, h3, ckRet]

/-- Negative check: the value limit changed (1000 → 1001). Unknown atom: no value for any item. -/
def treeBep44CheckMutLimit : DExp := DExp.ite "$2 != nil" (DExp.ret "$2") (DExp.ite "len($1) > 1001" (DExp.ret "ErrValueFieldTooBig") (DExp.ite "!i.IsMutable()" (DExp.ret "nil") (DExp.ite "len(i.Salt) > 64" (DExp.ret "ErrSaltFieldTooBig") (DExp.ite "!Verify(i.K[:], i.Salt, i.Seq, $1, i.Sig[:])" (DExp.ret "ErrInvalidSignature") (DExp.ret "nil")))))

example (P : B44.Params) (i : B44.Item) : DExp.evalWith (ckCond P i) ckRet treeBep44CheckMutLimit = none := by
  simp [treeBep44CheckMutLimit, DExp.evalWith, ckCond]

/-- Negative check with known atoms only: the salt test after the signature test. The tree evaluates, but an
item with an over-long salt and a bad signature is answered 206 instead of the model's (and the source's) 207. -/
def treeBep44CheckMutOrder : DExp := DExp.ite "$2 != nil" (DExp.ret "$2") (DExp.ite "len($1) > 1000" (DExp.ret "ErrValueFieldTooBig") (DExp.ite "!i.IsMutable()" (DExp.ret "nil") (DExp.ite "!Verify(i.K[:], i.Salt, i.Seq, $1, i.Sig[:])" (DExp.ret "ErrInvalidSignature") (DExp.ite "len(i.Salt) > 64" (DExp.ret "ErrSaltFieldTooBig") (DExp.ret "nil")))))

theorem SourceTrees.bep44Check_mutOrder_wrong (P : B44.Params) (i : B44.Item) (k : B44.Key) (hk : i.k = some k)
    (hv : ¬ i.bv.length > 1000) (hs : i.salt.length > 64)
    (hsig : P.verify k (B44.bufferToSign i.salt i.seq i.bv) i.sig = false) :
    DExp.evalWith (ckCond P i) ckRet treeBep44CheckMutOrder = some (some 206) ∧ B44.check P i = some 207 := by
  have hV : Gen.bep44MaxV = 1000 := by decide
  have hS : Gen.bep44MaxSalt = 64 := by decide
  simp [treeBep44CheckMutOrder, Gen.treeItemIsMutable, Gen.treeBep44Verify, DExp.evalWith, ckCond, imRet, vfRet,
    B44.check, hV, hS, hk, hv, hs, hsig, ckRet, Gen.bep44ErrInvalidSignature, Gen.bep44ErrSaltFieldTooBig]

/-- the hypotheses can be met (65 bytes of salt, a verifier that rejects everything) -/
example : ¬ ∀ (P : B44.Params) (i : B44.Item),
    DExp.evalWith (ckCond P i) ckRet treeBep44CheckMutOrder = some (B44.check P i) := by
  intro h
  have h' := h ⟨fun _ => [], fun _ _ _ => false, true⟩ ⟨[], some [1], List.replicate 65 0, [], 0, 0⟩
  have w := SourceTrees.bep44Check_mutOrder_wrong ⟨fun _ => [], fun _ _ _ => false, true⟩
    ⟨[], some [1], List.replicate 65 0, [], 0, 0⟩ [1] rfl (by decide) (by decide) rfl
  rw [w.1, w.2] at h'
  exact absurd h' (by simp)

/-- `Item.Target`: SHA-1 is the parameter `P.H`; `i.K[:]` has a model value only for a mutable item. -/
def itCond (i : B44.Item) : String → Option Bool
  | "i.IsMutable()" => DExp.evalWith noCond (imRet i) Gen.treeItemIsMutable
  | _ => none

def itRet (P : B44.Params) (i : B44.Item) : String → Option B44.Target
  | "sha1.Sum(append(i.K[:], i.Salt...))" => i.k.map (fun k => P.H (k ++ i.salt))
  | "sha1.Sum(bencode.MustMarshal(i.V))" => some (P.H i.bv)
  | _ => none

/-- `Item.Target` in bep44/item.go computes exactly the model's `B44.target`. -/
theorem SourceTrees.itemTarget (P : B44.Params) (i : B44.Item) :
    DExp.evalWith (itCond i) (itRet P i) Gen.treeItemTarget = some (B44.target P i) := by
  simp only [Gen.treeItemTarget, Gen.treeItemIsMutable, DExp.evalWith, itCond, imRet, B44.target]
  cases h : i.k <;> simp [itRet, h]

/-- Negative check: salt before key in the hashed bytes. Unknown result: no value for a mutable item. -/
example (P : B44.Params) (i : B44.Item) (h : i.k.isSome = true) :
    DExp.evalWith (itCond i) (itRet P i)
      (DExp.ite "i.IsMutable()" (DExp.ret "sha1.Sum(append(i.Salt, i.K[:]...))") (DExp.ret "sha1.Sum(bencode.MustMarshal(i.V))")) = none := by
  simp [Gen.treeItemIsMutable, DExp.evalWith, itCond, imRet, h, itRet]

/-- Negative check with known atoms: the branches exchanged. An immutable item gets no value (there is no
key to hash), a mutable one the hash of its value instead of key and salt. -/
example (P : B44.Params) (i : B44.Item) (k : B44.Key) (h : i.k = some k) :
    DExp.evalWith (itCond i) (itRet P i)
      (DExp.ite "i.IsMutable()" (DExp.ret "sha1.Sum(bencode.MustMarshal(i.V))") (DExp.ret "sha1.Sum(append(i.K[:], i.Salt...))"))
      = some (P.H i.bv) ∧ B44.target P i = P.H (k ++ i.salt) := by
  simp [Gen.treeItemIsMutable, DExp.evalWith, itCond, imRet, h, itRet, B44.target]

/-- `Put.IsMutable` (`K` is a pointer, `nil` for an immutable put): the model of a `Put` is the item
`ToItem` makes of it, `k = none` for `K == nil`. -/
def pmRet (i : B44.Item) : String → Option Bool
  | "s.K != nil" => some i.k.isSome
  | _ => none

/-- `MakeMutableTarget(pubKey, salt)` of bep44/target.go. -/
def mmtRet (P : B44.Params) (pubKey salt : B44.Bytes) : String → Option B44.Target
  | "sha1.Sum(append(pubKey[:], salt...))" => some (P.H (pubKey ++ salt))
  | _ => none

def ptCond (i : B44.Item) : String → Option Bool
  | "i.IsMutable()" => DExp.evalWith noCond (pmRet i) Gen.treePutIsMutable
  | _ => none

/-- `*i.K` has a value only when `K != nil`; `MakeMutableTarget` is read from its own source. -/
def ptRet (P : B44.Params) (i : B44.Item) : String → Option B44.Target
  | "MakeMutableTarget(*i.K, i.Salt)" =>
    i.k.bind (fun k => DExp.evalWith noCond (mmtRet P k i.salt) Gen.treeMakeMutableTarget)
  | "sha1.Sum(bencode.MustMarshal(i.V))" => some (P.H i.bv)
  | _ => none

/-- `Put.Target` in bep44/put.go (through `Put.IsMutable` and `MakeMutableTarget`) computes the model's
`B44.target` of the put's item: a put and the item it becomes are filed under one target. -/
theorem SourceTrees.putTarget (P : B44.Params) (i : B44.Item) :
    DExp.evalWith (ptCond i) (ptRet P i) Gen.treePutTarget = some (B44.target P i) := by
  simp only [Gen.treePutTarget, Gen.treePutIsMutable, DExp.evalWith, ptCond, pmRet, B44.target]
  cases h : i.k <;> simp [ptRet, mmtRet, DExp.evalWith, Gen.treeMakeMutableTarget, h]

/-- Negative check: `MakeMutableTarget` hashing the salt only: unknown result inside the callee, so the
caller's mutable branch has no value either. -/
example (P : B44.Params) (i : B44.Item) (k : B44.Key) (_h : i.k = some k) :
    DExp.evalWith noCond (mmtRet P k i.salt) (DExp.ret "sha1.Sum(salt)") = none := by
  simp [DExp.evalWith, mmtRet]

/-- Negative check: `Put.Target` testing `!i.IsMutable()`: unknown atom, no value for any put. -/
example (P : B44.Params) (i : B44.Item) :
    DExp.evalWith (ptCond i) (ptRet P i)
      (DExp.ite "!i.IsMutable()" (DExp.ret "MakeMutableTarget(*i.K, i.Salt)") (DExp.ret "sha1.Sum(bencode.MustMarshal(i.V))")) = none := by
  simp [DExp.evalWith, ptCond]


/-- The extractor skipped no statement in the bep44 functions read here (their trees are their whole bodies). -/
theorem SourceTrees.bep44_no_skipped_statements :
    Gen.treeBep44VerifyLets = [] ∧ Gen.treeItemIsMutableLets = [] ∧ Gen.treePutIsMutableLets = [] ∧
    Gen.treeItemTargetLets = [] ∧ Gen.treePutTargetLets = [] ∧ Gen.treeMakeMutableTargetLets = [] := by
  decide

end Dht
