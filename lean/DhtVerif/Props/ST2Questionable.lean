/-
T1 by translation (part of the former Props/SourceTrees.lean, split per source function so that an edit of one
function only touches the property that owns it): the regenerated decision expression of the function, interpreted
with an atom table (source text |-> meaning on model values, unknown text |-> none), equals the model function
for all arguments; with negative checks on hand-mutated trees.
-/
import DhtVerif.Model.SourceTrees
import DhtVerif.Props.STCommon
import DhtVerif.Model.SourceTrees2
import DhtVerif.Model.Server
import DhtVerif.Props.STNodes
namespace Dht
open Gen (DExp SExp)

/-! ### node.go Server.IsQuestionable -/

/-- `nodeIsBad(n)` is `s.nodeErr(n) != nil`; `IsGood` and `nodeErr` are read from their own sources (the
atom tables of Props/SourceTrees). -/
def iqRet (c : TableCfg) (now : Nat) (n : Node) : String → Option Bool
  | "!s.IsGood(n) && !s.nodeIsBad(n)" =>
    match DExp.evalWith (isGoodCond c n) (isGoodRet c now n) Gen.treeIsGood,
          DExp.evalWith (nodeErrCond c n) nodeErrRet Gen.treeNodeErr with
    | some g, some b => some (!g && !b)
    | _, _ => none
  | _ => none

/-- `Server.IsQuestionable` in node.go is the model's `isQuestionable`. -/
theorem SourceTrees.isQuestionable (c : TableCfg) (now : Nat) (n : Node) :
    DExp.evalWith noCond (iqRet c now n) Gen.treeIsQuestionable = some (Dht.isQuestionable c now n) := by
  simp only [Gen.treeIsQuestionable, DExp.evalWith, iqRet, SourceTrees.isGood, SourceTrees.nodeErr,
    Dht.isQuestionable]

/-- Negative check: `||` for `&&`: unknown result, no value for any node. -/
example (c : TableCfg) (now : Nat) (n : Node) :
    DExp.evalWith noCond (iqRet c now n) (DExp.ret "!s.IsGood(n) || !s.nodeIsBad(n)") = none := by
  simp [DExp.evalWith, iqRet]

/-- Negative check: the `nodeIsBad` conjunct dropped: unknown result. -/
example (c : TableCfg) (now : Nat) (n : Node) :
    DExp.evalWith noCond (iqRet c now n) (DExp.ret "!s.IsGood(n)") = none := by
  simp [DExp.evalWith, iqRet]

/-- Non-vacuity: a fresh node that never responded is questionable, one that just responded is not. -/
example :
    DExp.evalWith noCond (iqRet { root := [1] } 5 { id := [2], addr := ⟨[1, 2, 3, 4], 1⟩ }) Gen.treeIsQuestionable = some true ∧
    DExp.evalWith noCond (iqRet { root := [1] } 5 { id := [2], addr := ⟨[1, 2, 3, 4], 1⟩, lastResp := some 5 })
      Gen.treeIsQuestionable = some false := by
  rw [SourceTrees.isQuestionable, SourceTrees.isQuestionable]
  constructor <;> decide +kernel


theorem SourceTrees.isQuestionable_no_skipped_statements : Gen.treeIsQuestionableLets = [] := by decide

end Dht
