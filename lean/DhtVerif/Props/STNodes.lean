/-
T1 by translation (part of the former Props/SourceTrees.lean, split per source function so that an edit of one
function only touches the property that owns it): the regenerated decision expression of the function, interpreted
with an atom table (source text |-> meaning on model values, unknown text |-> none), equals the model function
for all arguments; with negative checks on hand-mutated trees.
-/
import DhtVerif.Model.SourceTrees
import DhtVerif.Model.Server
namespace Dht
open Gen (DExp)

/-! ### Server.nodeErr (bad nodes) and Server.IsGood -/

def nodeErrCond (c : TableCfg) (n : Node) : String → Option Bool
  | "n.Id == s.id" => some (n.id == c.root)
  | "n.Id.IsZero()" => some n.id.isZero
  | "!(s.config.NoSecurity || n.IsSecure())" => some (!(c.noSecurity || n.isSecure))
  | "n.failedLastQuestionablePing" => some n.failed
  | _ => none

/-- any `errors.New(…)` result means "bad"; `nil` means not bad -/
def nodeErrRet : String → Option Bool
  | "nil" => some false
  | "errors.New(\"is self\")" => some true
  | "errors.New(\"has zero id\")" => some true
  | "errors.New(\"not secure\")" => some true
  | "errors.New(\"didn't respond to last questionable node ping\")" => some true
  | _ => none

theorem SourceTrees.nodeErr (c : TableCfg) (n : Node) :
    DExp.evalWith (nodeErrCond c n) nodeErrRet Gen.treeNodeErr = some (isBad c n) := by
  simp only [Gen.treeNodeErr, DExp.evalWith, nodeErrCond, isBad]
  cases h1 : (n.id == c.root) <;> cases h2 : n.id.isZero <;> cases h3 : (c.noSecurity || n.isSecure) <;>
    cases h4 : n.failed <;> simp_all [nodeErrRet]

/-- Negative check: the zero-ID test negated. Unknown atom: no value whenever evaluation reaches it. -/
def treeNodeErrMutZero : DExp := DExp.ite "n.Id == s.id" (DExp.ret "errors.New(\"is self\")") (DExp.ite "!n.Id.IsZero()" (DExp.ret "errors.New(\"has zero id\")") (DExp.ite "!(s.config.NoSecurity || n.IsSecure())" (DExp.ret "errors.New(\"not secure\")") (DExp.ite "n.failedLastQuestionablePing" (DExp.ret "errors.New(\"didn't respond to last questionable node ping\")") (DExp.ret "nil"))))

theorem SourceTrees.nodeErr_mutZero_none (c : TableCfg) (n : Node) (h : (n.id == c.root) = false) :
    DExp.evalWith (nodeErrCond c n) nodeErrRet treeNodeErrMutZero = none := by
  simp [treeNodeErrMutZero, DExp.evalWith, nodeErrCond, h]

example : ¬ ∀ (c : TableCfg) (n : Node),
    DExp.evalWith (nodeErrCond c n) nodeErrRet treeNodeErrMutZero = some (isBad c n) := by
  intro h
  have h' := h { root := [1] } { id := [2], addr := ⟨[1, 2, 3, 4], 1⟩ }
  rw [SourceTrees.nodeErr_mutZero_none _ _ (by decide)] at h'
  exact absurd h' (by simp)

/-- Negative check: the security test dropped. All atoms known; the value differs from `isBad` for an insecure
node under `NoSecurity = false`. -/
def treeNodeErrMutNoSec : DExp := DExp.ite "n.Id == s.id" (DExp.ret "errors.New(\"is self\")") (DExp.ite "n.Id.IsZero()" (DExp.ret "errors.New(\"has zero id\")") (DExp.ite "n.failedLastQuestionablePing" (DExp.ret "errors.New(\"didn't respond to last questionable node ping\")") (DExp.ret "nil")))

theorem SourceTrees.nodeErr_mutNoSec_wrong (c : TableCfg) (n : Node) (h1 : (n.id == c.root) = false)
    (h2 : n.id.isZero = false) (h3 : (c.noSecurity || n.isSecure) = false) (h4 : n.failed = false) :
    DExp.evalWith (nodeErrCond c n) nodeErrRet treeNodeErrMutNoSec = some false ∧ isBad c n = true := by
  simp [treeNodeErrMutNoSec, DExp.evalWith, nodeErrCond, nodeErrRet, isBad, h1, h2, h3, h4]

example : ¬ ∀ (c : TableCfg) (n : Node),
    DExp.evalWith (nodeErrCond c n) nodeErrRet treeNodeErrMutNoSec = some (isBad c n) := by
  intro h
  have h' := h { root := [1], noSecurity := false } { id := [2], addr := ⟨[1, 2, 3, 4], 1⟩ }
  have w := SourceTrees.nodeErr_mutNoSec_wrong { root := [1], noSecurity := false }
    { id := [2], addr := ⟨[1, 2, 3, 4], 1⟩ } (by decide) (by decide) (by decide +kernel) (by decide)
  rw [w.1, w.2] at h'
  exact absurd h' (by simp)

def isGoodCond (c : TableCfg) (n : Node) : String → Option Bool
  | "s.nodeIsBad(n)" => some (isBad c n)
  | _ => none

def isGoodExprText : String :=
  "time.Since(n.lastGotResponse) < 15 * time.Minute || !n.lastGotResponse.IsZero() && time.Since(n.lastGotQuery) < 15 * time.Minute"

def isGoodRet (c : TableCfg) (now : Nat) (n : Node) (s : String) : Option Bool :=
  if s == "false" then some false
  else if s == isGoodExprText then some (recent c now n.lastResp || (n.lastResp.isSome && recent c now n.lastQuery))
  else none

theorem isGoodRet_false (c : TableCfg) (now : Nat) (n : Node) : isGoodRet c now n "false" = some false := by
  simp [isGoodRet]

theorem isGoodRet_expr (c : TableCfg) (now : Nat) (n : Node) :
    isGoodRet c now n isGoodExprText = some (recent c now n.lastResp || (n.lastResp.isSome && recent c now n.lastQuery)) := by
  have h : (isGoodExprText == "false") = false := by decide +kernel
  simp [isGoodRet, h]

theorem treeIsGood_shape : Gen.treeIsGood = DExp.ite "s.nodeIsBad(n)" (DExp.ret "false") (DExp.ret isGoodExprText) := by
  decide +kernel

theorem SourceTrees.isGood (c : TableCfg) (now : Nat) (n : Node) :
    DExp.evalWith (isGoodCond c n) (isGoodRet c now n) Gen.treeIsGood = some (isGood c now n) := by
  rw [treeIsGood_shape]
  simp only [DExp.evalWith, isGoodCond, Dht.isGood]
  cases h : isBad c n <;> simp [isGoodRet_false, isGoodRet_expr]

/-- Negative check: the window constant changed (15 → 10 minutes) in the result expression. -/
def isGoodExprTextMut : String :=
  "time.Since(n.lastGotResponse) < 10 * time.Minute || !n.lastGotResponse.IsZero() && time.Since(n.lastGotQuery) < 10 * time.Minute"

def treeIsGoodMut : DExp := DExp.ite "s.nodeIsBad(n)" (DExp.ret "false") (DExp.ret isGoodExprTextMut)

theorem isGoodRet_mut (c : TableCfg) (now : Nat) (n : Node) : isGoodRet c now n isGoodExprTextMut = none := by
  have h1 : (isGoodExprTextMut == "false") = false := by decide +kernel
  have h2 : (isGoodExprTextMut == isGoodExprText) = false := by decide +kernel
  simp [isGoodRet, h1, h2]

theorem SourceTrees.isGood_mut_none (c : TableCfg) (now : Nat) (n : Node) (h : isBad c n = false) :
    DExp.evalWith (isGoodCond c n) (isGoodRet c now n) treeIsGoodMut = none := by
  simp [treeIsGoodMut, DExp.evalWith, isGoodCond, h, isGoodRet_mut]

example : ¬ ∀ (c : TableCfg) (now : Nat) (n : Node),
    DExp.evalWith (isGoodCond c n) (isGoodRet c now n) treeIsGoodMut = some (isGood c now n) := by
  intro h
  have h' := h { root := [1] } 0 { id := [2], addr := ⟨[1, 2, 3, 4], 1⟩ }
  rw [SourceTrees.isGood_mut_none _ _ _ (by decide)] at h'
  exact absurd h' (by simp)

/-- Negative check: the two branches exchanged (known atoms): a node that is not bad and has just responded is
good, the changed tree says it is not. -/
example (c : TableCfg) (now : Nat) (n : Node) (h : isBad c n = false) (hr : recent c now n.lastResp = true) :
    DExp.evalWith (isGoodCond c n) (isGoodRet c now n)
      (DExp.ite "s.nodeIsBad(n)" (DExp.ret isGoodExprText) (DExp.ret "false")) = some false ∧
    isGood c now n = true := by
  simp [DExp.evalWith, isGoodCond, h, isGoodRet_false, isGood, hr]

/-- the hypotheses of the previous example can be met -/
example : isBad { root := [1] } { id := [2], addr := ⟨[1, 2, 3, 4], 1⟩, lastResp := some 5 } = false ∧
    recent { root := [1] } 5 (some 5) = true := by decide

end Dht
