/- Return tables shared by the per-function source-tree proofs. -/
import DhtVerif.Model.SourceTrees
namespace Dht

/-- no condition atom is known (bodies that are a single `return`) -/
def noCond : String → Option Bool := fun _ => none

/-- the literals `true` / `false` as returned expressions -/
def boolRet : String → Option Bool
  | "true" => some true
  | "false" => some false
  | _ => none

end Dht
