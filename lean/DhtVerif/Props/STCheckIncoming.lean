/-
T1 by translation (part of the former Props/SourceTrees.lean, split per source function so that an edit of one
function only touches the property that owns it): the regenerated decision expression of the function, interpreted
with an atom table (source text |-> meaning on model values, unknown text |-> none), equals the model function
for all arguments; with negative checks on hand-mutated trees.
-/
import DhtVerif.Model.SourceTrees
import DhtVerif.Model.Bep44
namespace Dht
open Gen (DExp)

/-! ### bep44.CheckIncoming -/

def ciCond (stored incoming : B44.Item) : String → Option Bool
  | "stored.Seq == incoming.Seq" => some (decide (stored.seq = incoming.seq))
  | "bytes.Equal(bencode.MustMarshal(stored.V), bencode.MustMarshal(incoming.V))" => some (decide (stored.bv = incoming.bv))
  | "stored.Seq >= incoming.Seq" => some (decide (stored.seq ≥ incoming.seq))
  | "incoming.Cas == 0" => some (decide (incoming.cas = 0))
  | "stored.Seq != incoming.Cas" => some (decide (stored.seq ≠ incoming.cas))
  | _ => none

def ciRet : String → Option (Option Nat)
  | "nil" => some none
  | "ErrSequenceNumberLessThanCurrent" => some (some Gen.bep44ErrSequenceNumberLessThanCurrent)
  | "ErrCasHashMismatched" => some (some Gen.bep44ErrCasHashMismatched)
  | _ => none

/-- `CheckIncoming` in bep44/item.go computes exactly the model's `checkIncoming` (the rule of the property). -/
theorem SourceTrees.checkIncoming (stored incoming : B44.Item) :
    DExp.evalWith (ciCond stored incoming) ciRet Gen.treeCheckIncoming = some (B44.checkIncoming stored incoming) := by
  simp only [Gen.treeCheckIncoming, DExp.evalWith, ciCond, ciRet, B44.checkIncoming, B44.checkIncomingWith,
    B44.casRuleComparesStoredSeq, B44.checkIncomingSpec]
  generalize stored.seq = ss, incoming.seq = is, incoming.cas = ic
  grind

/-- Negative check: `Gen.treeCheckIncoming` with `>=` changed to `>` (both occurrences). -/
def treeCheckIncomingMutGt : DExp := DExp.ite "stored.Seq == incoming.Seq" (DExp.ite "bytes.Equal(bencode.MustMarshal(stored.V), bencode.MustMarshal(incoming.V))" (DExp.ret "nil") (DExp.ite "stored.Seq > incoming.Seq" (DExp.ret "ErrSequenceNumberLessThanCurrent") (DExp.ite "incoming.Cas == 0" (DExp.ret "nil") (DExp.ite "stored.Seq != incoming.Cas" (DExp.ret "ErrCasHashMismatched") (DExp.ret "nil"))))) (DExp.ite "stored.Seq > incoming.Seq" (DExp.ret "ErrSequenceNumberLessThanCurrent") (DExp.ite "incoming.Cas == 0" (DExp.ret "nil") (DExp.ite "stored.Seq != incoming.Cas" (DExp.ret "ErrCasHashMismatched") (DExp.ret "nil"))))

/-- The changed comparison has no meaning in the atom table: whenever evaluation reaches it, the result is `none`. -/
theorem SourceTrees.checkIncoming_mutGt_none (stored incoming : B44.Item)
    (h : ¬ (stored.seq = incoming.seq ∧ stored.bv = incoming.bv)) :
    DExp.evalWith (ciCond stored incoming) ciRet treeCheckIncomingMutGt = none := by
  simp only [treeCheckIncomingMutGt, DExp.evalWith, ciCond]
  by_cases h1 : stored.seq = incoming.seq <;> by_cases h2 : stored.bv = incoming.bv <;> simp_all

/-- So the equation of `SourceTrees.checkIncoming` fails for the changed tree. -/
example : ¬ ∀ stored incoming : B44.Item,
    DExp.evalWith (ciCond stored incoming) ciRet treeCheckIncomingMutGt = some (B44.checkIncoming stored incoming) := by
  intro h
  have h' := h ⟨[], none, [], [], 0, 0⟩ ⟨[], none, [], [], 0, 1⟩
  rw [SourceTrees.checkIncoming_mutGt_none _ _ (by decide)] at h'
  exact absurd h' (by simp)

/-- Negative check with known atoms only: the results of the CAS test exchanged (that is `!=` read as `==`), in both
copies. The tree evaluates, but to a different answer (stored seq 1, incoming seq 2 with cas 1: the source accepts,
the changed tree rejects). -/
def treeCheckIncomingMutCas : DExp := DExp.ite "stored.Seq == incoming.Seq" (DExp.ite "bytes.Equal(bencode.MustMarshal(stored.V), bencode.MustMarshal(incoming.V))" (DExp.ret "nil") (DExp.ite "stored.Seq >= incoming.Seq" (DExp.ret "ErrSequenceNumberLessThanCurrent") (DExp.ite "incoming.Cas == 0" (DExp.ret "nil") (DExp.ite "stored.Seq != incoming.Cas" (DExp.ret "nil") (DExp.ret "ErrCasHashMismatched"))))) (DExp.ite "stored.Seq >= incoming.Seq" (DExp.ret "ErrSequenceNumberLessThanCurrent") (DExp.ite "incoming.Cas == 0" (DExp.ret "nil") (DExp.ite "stored.Seq != incoming.Cas" (DExp.ret "nil") (DExp.ret "ErrCasHashMismatched"))))

example :
    DExp.evalWith (ciCond ⟨[], none, [], [], 0, 1⟩ ⟨[], none, [], [], 1, 2⟩) ciRet treeCheckIncomingMutCas
      = some (some Gen.bep44ErrCasHashMismatched) ∧
    B44.checkIncoming ⟨[], none, [], [], 0, 1⟩ ⟨[], none, [], [], 1, 2⟩ = none := by
  constructor
  · simp [treeCheckIncomingMutCas, DExp.evalWith, ciCond, ciRet]
  · decide

end Dht
