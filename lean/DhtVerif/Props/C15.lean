/-
C15 — KRPC wire codec round-trips and never panics.

Property theorems only (helper lemmas live in DhtVerif/Lemmas/C15*.lean). All statements are
about the executable models in DhtVerif/Model/Bencode.lean and DhtVerif/Model/Krpc.lean, for all
values / messages / byte strings, with no bound on sizes or nesting. The models are tied to
/repo on every run by the regenerated schema and sizes (`Gen.schema*`, `Gen.size*`, pinned
below) and by differential execution against the Go codec (harness/c15.go).
-/
import DhtVerif.Model.Krpc
import DhtVerif.Lemmas.C15Bencode
import DhtVerif.Lemmas.C15BencodeSound
import DhtVerif.Lemmas.C15Compact
import DhtVerif.Lemmas.C15Krpc
namespace Dht
open Benc Krpc

/-! ## T1: the model's field lists and element sizes are those of the source -/

/-- `krpc.Msg`: fields, Go types, bencode keys, `omitempty` as mirrored by `Krpc.Msg`. -/
theorem C15.schema_msg_pinned : Gen.schemaMsg = Krpc.modelSchemaMsg := by decide
theorem C15.schema_msgArgs_pinned : Gen.schemaMsgArgs = Krpc.modelSchemaMsgArgs := by decide
theorem C15.schema_return_pinned : Gen.schemaReturn = Krpc.modelSchemaReturn := by decide
theorem C15.schema_bep51_pinned : Gen.schemaBep51Return = Krpc.modelSchemaBep51Return := by decide
theorem C15.schema_bep44_pinned : Gen.schemaBep44Return = Krpc.modelSchemaBep44Return := by decide

/-- The five `ElemSize` methods return the sizes the property names: an address is IP + 2-byte
port, a node is a 20-byte ID + address, an infohash is 20 bytes. -/
theorem C15.compact_sizes_pinned :
    Gen.sizeNodeAddr4 = 4 + 2 ∧ Gen.sizeNodeAddr6 = 16 + 2 ∧ Gen.sizeNodeInfo4 = 20 + 4 + 2 ∧
    Gen.sizeNodeInfo6 = 20 + 16 + 2 ∧ Gen.sizeInfohash = 20 := by decide

/-- The keys `toBV` emits are in the strictly increasing byte order in which
`makeEncodeFields` sorts them (and hence distinct). -/
theorem C15.emitted_keys_sorted (m : Msg) (a : MsgArgs) (r : Return) :
    keysSorted ((msgEntries m).map Prod.fst) = true ∧ keysSorted ((argsEntries a).map Prod.fst) = true ∧
    keysSorted ((returnEntries r).map Prod.fst) = true := by
  simp only [msgEntries, argsEntries, returnEntries, List.map_cons, List.map_nil]
  decide

/-! ## The strict parser inverts the canonical encoder -/

/-- Parsing the encoding of a well-formed value followed by anything returns the value and
exactly the rest, for every fuel that covers the encoding. -/
theorem C15.dec_enc_fuel (v : BV) (h : Benc.wf v = true) (rest : List UInt8) (f : Nat)
    (hf : (enc v).length ≤ f) : dec f (enc v ++ rest) = some (v, rest) :=
  Benc.dec_enc_fuel v h rest f hf

/-- `dec_enc` with the fuel the driver uses (the input length). -/
theorem C15.dec_enc (v : BV) (h : Benc.wf v = true) (rest : List UInt8) :
    decode (enc v ++ rest) = some (v, rest) := by
  unfold decode
  exact Benc.dec_enc_fuel v h rest _ (by simp)

/-- A datagram that is exactly one encoded value parses to that value. -/
theorem C15.decodeAll_enc (v : BV) (h : Benc.wf v = true) : decodeAll (enc v) = some v := by
  have := C15.dec_enc v h []
  simp only [List.append_nil] at this
  simp [decodeAll, this]

/-- Distinct well-formed values have distinct encodings. -/
theorem C15.enc_injective (v w : BV) (hv : Benc.wf v = true) (hw : Benc.wf w = true)
    (h : enc v = enc w) : v = w := by
  have h1 := C15.decodeAll_enc v hv
  have h2 := C15.decodeAll_enc w hw
  rw [h] at h1
  rw [h1] at h2
  exact Option.some.inj h2

/-- Conversely the strict parser accepts ONLY canonical encodings: whatever it returns is a
well-formed value whose encoding, followed by the returned rest, is the input. -/
theorem C15.dec_only_canonical (f : Nat) (bs : List UInt8) (v : BV) (rest : List UInt8)
    (h : dec f bs = some (v, rest)) : bs = enc v ++ rest ∧ Benc.wf v = true :=
  Benc.dec_sound f bs v rest h

/-- Hence the parser is exactly the inverse of the encoder on well-formed values. -/
theorem C15.decode_iff (bs : List UInt8) (v : BV) (rest : List UInt8) :
    decode bs = some (v, rest) ↔ (Benc.wf v = true ∧ bs = enc v ++ rest) := by
  constructor
  · intro h
    have := Benc.dec_sound _ bs v rest h
    exact ⟨this.2, this.1⟩
  · rintro ⟨hw, rfl⟩
    exact C15.dec_enc v hw rest

/-! ## Round trip of messages -/

/-- What `bencode.Marshal` writes for a well-formed message is canonical bencode. -/
theorem C15.encoding_is_canonical (m : Msg) (h : m.wf = true) : Benc.wf (toBV m) = true :=
  toBV_wf m h

/-- Encoding a well-formed message never hits the width assertion of `marshalBinarySlice`. -/
theorem C15.encode_never_panics (m : Msg) (h : m.wf = true) : m.encPanics = false :=
  wf_not_encPanics m h

/-- Typed round trip: decoding the encoding of any well-formed message (every field of
`Msg`, `MsgArgs`, `Return`, `Bep51Return`, `Bep44Return`, `Error` present or absent) gives the
same message up to `canon`, which only erases what the wire cannot carry: an empty compact
`nodes`/`nodes6` list comes back nil, a v4-mapped address in `nodes` comes back as 4 bytes, a
4-byte address in `nodes6` as 16 bytes. Every other field, including nil versus empty for
`want`, `values`, `salt`, `samples`, `token`, and every pointer's presence, is preserved exactly. -/
theorem C15.roundtrip (m : Msg) (h : m.wf = true) : fromBV (toBV m) = .ok m.canon :=
  fromBV_toBV m h

/-- The same on bytes: the datagram decodes, with no trailing bytes, to the canonical message. -/
theorem C15.roundtrip_bytes (m : Msg) (h : m.wf = true) :
    decodeMsg (encodeMsg m) = .ok (m.canon, 0) := by
  have hd := C15.dec_enc (toBV m) (toBV_wf m h) []
  simp only [List.append_nil] at hd
  simp only [decodeMsg, encodeMsg, hd, fromBV_toBV m h]
  rfl

/-- `canon` is idempotent, and it keeps a message well-formed. -/
theorem C15.canon_idem (m : Msg) : m.canon.canon = m.canon := Msg.canon_idem m

theorem C15.canon_wf (m : Msg) (h : m.wf = true) : m.canon.wf = true := Msg.canon_wf m h

/-- `canon` changes the encoding only by dropping empty compact lists: when neither `nodes` nor
`nodes6` is an empty non-nil list, the canonical message encodes to the same bytes. (A non-nil
empty `nodes` is written as `5:nodes0:` and decodes to nil, which is written without the key:
the first re-encoding is shorter, every later one is identical, see `reencode_fixpoint`.) -/
theorem C15.canon_same_encoding (m : Msg)
    (h : ∀ r, m.r = some r → r.nodes ≠ some [] ∧ r.nodes6 ≠ some []) : toBV m.canon = toBV m :=
  toBV_canon m h

/-! ## Decode → re-encode is a fixpoint -/

/-- Whatever the typed decoder returns is a well-formed message that `canon` leaves alone. -/
theorem C15.decoded_is_wf (b : BV) (m : Msg) (h : fromBV b = .ok m) : m.wf = true ∧ m.canon = m :=
  fromBV_ok b m h

/-- For every value that decodes, re-encoding succeeds (no width panic, canonical bencode) and
is a fixpoint: decoding the re-encoded value gives the very same message, hence the same bytes
again. -/
theorem C15.reencode_fixpoint (b : BV) (m : Msg) (h : fromBV b = .ok m) :
    m.encPanics = false ∧ Benc.wf (toBV m) = true ∧ fromBV (toBV m) = .ok m := by
  obtain ⟨hw, hc⟩ := fromBV_ok b m h
  refine ⟨wf_not_encPanics m hw, toBV_wf m hw, ?_⟩
  have := fromBV_toBV m hw
  rwa [hc] at this

/-- The same on bytes, for every datagram the model decodes (trailing bytes allowed, as the
server allows them): the re-encoded datagram decodes to the same message with nothing left
over, so encoding again reproduces the re-encoded bytes. -/
theorem C15.reencode_fixpoint_bytes (bs : List UInt8) (m : Msg) (n : Nat)
    (h : decodeMsg bs = .ok (m, n)) :
    decodeMsg (encodeMsg m) = .ok (m, 0) := by
  unfold decodeMsg at h
  split at h
  · rename_i b rest _
    simp only [bind_eq_ok'] at h
    obtain ⟨m', hm', hx⟩ := h
    simp only [DecodeResult.ok.injEq, Prod.mk.injEq] at hx
    obtain ⟨rfl, _⟩ := hx
    obtain ⟨hw, hc⟩ := fromBV_ok b m' hm'
    have := C15.roundtrip_bytes m' hw
    rwa [hc] at this
  · split at h <;> cases h

/-! ## Compact lists -/

/-- Compact node, address and infohash lists (6, 18, 26, 38, 20 bytes per entry) decode exactly
the strings whose length is a multiple of the entry size; what is decoded re-encodes to the
identical bytes, every entry has the entry size; any other length is an error. -/
theorem C15.compact_len (size : Nat) (hs : size ∈ Krpc.compactSizes) (b : List UInt8) :
    ((decCompact size b).isSome = true ↔ b.length % size = 0) ∧
    (∀ l, decCompact size b = some l → encCompact l = b ∧ ∀ c ∈ l, c.length = size) := by
  have hpos : 0 < size := by
    simp only [Krpc.compactSizes, List.mem_cons, List.not_mem_nil, or_false] at hs
    rcases hs with rfl | rfl | rfl | rfl | rfl <;> decide
  exact ⟨decCompact_isSome_iff size hpos b, decCompact_sound size b⟩

theorem C15.compact_sizes_are : Krpc.compactSizes = [6, 18, 26, 38, 20] := by decide

/-- Conversely, entries of the right width always decode back to themselves. -/
theorem C15.compact_enc_dec (size : Nat) (hs : size ∈ Krpc.compactSizes) (l : List (List UInt8))
    (hl : ∀ c ∈ l, c.length = size) : decCompact size (encCompact l) = some l := by
  have hpos : 0 < size := by
    simp only [Krpc.compactSizes, List.mem_cons, List.not_mem_nil, or_false] at hs
    rcases hs with rfl | rfl | rfl | rfl | rfl <;> decide
  exact decCompact_flatten size hpos l hl

/-! ## No decoder panics -/

/-- `NodeAddr.UnmarshalBinary` never panics: fewer than 2 bytes is an error. -/
theorem C15.nodeAddr_unmarshal_total (b : List UInt8) :
    NodeAddr.unmarshalBinary b = (if b.length < 2 then .error else .ok (NodeAddr.ofBytes b)) := rfl

/-- With a length test in front of `b[20:]`, `NodeInfo.UnmarshalBinary` never panics: short
input is an error (this is what the property demands; F10). -/
theorem C15.nodeInfo_unmarshal_total_if_guarded (b : List UInt8) :
    NodeInfo.unmarshalBinary true b ≠ .crash := by
  unfold NodeInfo.unmarshalBinary
  by_cases h : b.length < 20
  · simp [h]
  · simp only [h, if_false]
    unfold NodeAddr.unmarshalBinary
    by_cases h2 : (b.drop 20).length < 2
    · simp only [h2, if_true]; intro hc; cases hc
    · simp only [h2, if_false]; intro hc; cases hc

/-- Kept counterexample: the function as transcribed from a tree WITHOUT the length test
panics on every input shorter than 20 bytes, and only there. The harness' direct oracle
reports the concrete input when the working tree behaves like this. -/
theorem C15.nodeInfo_unguarded_crashes_iff (b : List UInt8) :
    NodeInfo.unmarshalBinary false b = .crash ↔ b.length < 20 := by
  unfold NodeInfo.unmarshalBinary
  by_cases h : b.length < 20
  · simp [h]
  · simp only [h, if_false, iff_false]
    unfold NodeAddr.unmarshalBinary
    by_cases h2 : (b.drop 20).length < 2
    · simp only [h2, if_true]; intro hc; cases hc
    · simp only [h2, if_false]; intro hc; cases hc

/-- Inside a message the compact node decoders hand `NodeInfo.UnmarshalBinary` only whole
entries (26 or 38 bytes), on which it succeeds with or without the length test: no datagram
can reach the unguarded slice through `nodes`/`nodes6` or the nodes file. -/
theorem C15.nodeInfo_entry_total (guarded : Bool) (c : List UInt8) (h : 22 ≤ c.length) :
    NodeInfo.unmarshalBinary guarded c = .ok (NodeInfo.ofBytes c) := by
  unfold NodeInfo.unmarshalBinary NodeAddr.unmarshalBinary
  have h1 : ¬ c.length < 20 := by omega
  have h2 : ¬ (c.drop 20).length < 2 := by rw [List.length_drop]; omega
  simp only [h1, h2, if_false]
  rfl

/-- The typed decoder is total: every value gets one of the three outcomes, and `ok` results
are well-formed (no partiality or crash outcome exists in `fromBV`; the third-party reflection
decoder's own panic-freedom on arbitrary bytes is observed by the harness, not proved). -/
theorem C15.fromBV_total (b : BV) :
    (∃ m, fromBV b = .ok m ∧ m.wf = true) ∨ fromBV b = .err ∨ fromBV b = .unmodelled := by
  cases h : fromBV b with
  | ok m => exact Or.inl ⟨m, rfl, (fromBV_ok b m h).1⟩
  | err => exact Or.inr (Or.inl rfl)
  | unmodelled => exact Or.inr (Or.inr rfl)

/-! ## Non-vacuity -/

/-- A well-formed bencode value with a nested dictionary and list. -/
example : Benc.wf (.dict [([97], .int (-3)), ([98], .list [.bytes [], .dict []])]) = true := by decide

/-- Unsorted or duplicate keys are not well-formed. -/
example : Benc.wf (.dict [([98], .int 1), ([97], .int 2)]) = false := by decide
example : Benc.wf (.dict [([97], .int 1), ([97], .int 2)]) = false := by decide

/-- The encoder and the strict parser on a concrete value: `d1:ai-3e1:bl0:deee`. -/
example : enc (.dict [([97], .int (-3)), ([98], .list [.bytes [], .dict []])]) =
    [100, 49, 58, 97, 105, 45, 51, 101, 49, 58, 98, 108, 48, 58, 100, 101, 101, 101] := by
  decide +kernel

/-- The strict parser rejects `i-0e`, `i03e`, `ie`, a length prefix with a leading zero,
unsorted keys, and accepts the same keys in order. -/
example : (decode [105, 45, 48, 101]).isNone = true := by decide +kernel
example : (decode [105, 48, 51, 101]).isNone = true := by decide +kernel
example : (decode [105, 101]).isNone = true := by decide +kernel
example : (decode [48, 49, 58, 97]).isNone = true := by decide +kernel
example : (decode [100, 49, 58, 98, 48, 58, 49, 58, 97, 48, 58, 101]).isNone = true := by decide +kernel
example : (decode [100, 49, 58, 97, 48, 58, 49, 58, 98, 48, 58, 101]).isSome = true := by decide +kernel

/-- A ping query: `d1:ad2:id20:abcdefghij0123456789e1:q4:ping1:t2:aa1:y1:qe`. -/
def C15.exPing : Msg :=
  { q := [112, 105, 110, 103], t := [97, 97], y := [113], r := none, e := none, ip := none,
    readOnly := false, clientId := [],
    a := some { id := [97,98,99,100,101,102,103,104,105,106,48,49,50,51,52,53,54,55,56,57],
                infoHash := zeros 20, target := zeros 20, token := [], port := none, impliedPort := false,
                want := none, noSeed := 0, scrape := 0, v := none, seq := none, cas := 0, k := zeros 32,
                salt := none, sig := zeros 64 } }

example : C15.exPing.wf = true := by decide

example : encodeMsg C15.exPing =
    [100, 49, 58, 97, 100, 50, 58, 105, 100, 50, 48, 58, 97, 98, 99, 100, 101, 102, 103, 104, 105, 106, 48, 49,
     50, 51, 52, 53, 54, 55, 56, 57, 101, 49, 58, 113, 52, 58, 112, 105, 110, 103, 49, 58, 116, 50, 58, 97, 97,
     49, 58, 121, 49, 58, 113, 101] := by decide +kernel

/-- A response carrying every list kind: an empty `nodes` (erased by `canon`), a 4-byte contact
in `nodes6` (widened by `canon`), `values` of odd widths, empty `samples`, a BEP 44 value. -/
def C15.exReturn : Msg :=
  { q := [], a := none, t := [1], y := [114], e := some ⟨201, [120]⟩, ip := some ⟨[1, 2, 3, 4], 6881⟩,
    readOnly := true, clientId := [76, 84],
    r := some { id := zeros 20, nodes := some [], nodes6 := some [⟨zeros 20, ⟨[9, 9, 9, 9], 1⟩⟩],
                token := some [], values := some [⟨[], 0⟩, ⟨[1, 2, 3], 65535⟩], bfsd := some (zeros 256),
                bfpe := none, interval := some (-1), num := none, samples := some [],
                v := some (.dict [([97], .int 1)]), k := zeros 32, sig := zeros 64, seq := some 7 } }

example : C15.exReturn.wf = true := by decide +kernel

/-- `canon` is not the identity there, and the round trip gives exactly `canon`. -/
example : (C15.exReturn.canon.r.map (·.nodes.isNone)) = some true := by decide
example : (C15.exReturn.canon.r.bind (·.nodes6)).map (·.map (·.addr.ip.length)) = some [16] := by decide

/-- Messages outside the quantifier exist and are recognised: a v6 contact in `nodes`. -/
example : ({ C15.exReturn with r := C15.exReturn.r.map (fun r => { r with nodes := some [⟨zeros 20, ⟨zeros 16, 1⟩⟩] }) } : Msg).encPanics = true := by
  decide

/-- Decoder outcomes other than `ok` exist: a 19-byte `id` is an error, a list where the
argument dictionary should be is not judged. -/
example : (match fromBV (.dict [(kA, .dict [(kId, .bytes (zeros 19))])]) with | .err => true | _ => false) = true := by
  decide
example : (match fromBV (.dict [(kA, .list [])]) with | .unmodelled => true | _ => false) = true := by decide

/-- IDs longer than 20 bytes are cut, short arrays are zero padded, `ro` is any non-zero integer. -/
example : (match fromBV (.dict [(kA, .dict [(kId, .bytes (zeros 25)), (kK, .bytes [7])]), (kRo, .int 5)]) with
    | .ok m => m.readOnly && (m.a.map (fun a => a.id.length == 20 && a.k == 7 :: zeros 31)).getD false
    | _ => false) = true := by decide

/-- Compact lists: 6 bytes are one IPv4 address, 7 bytes are an error. -/
example : decCompact Gen.sizeNodeAddr4 [1, 2, 3, 4, 0, 80] = some [[1, 2, 3, 4, 0, 80]] := by decide +kernel
example : decCompact Gen.sizeNodeAddr4 [1, 2, 3, 4, 0, 80, 9] = none := by decide +kernel

/-- The unguarded `NodeInfo.UnmarshalBinary` on the empty input. -/
example : (match NodeInfo.unmarshalBinary false [] with | .crash => true | _ => false) = true := rfl

end Dht
