/-
C12 (store side) — the BEP 44 store never accepts or serves a forged or oversized item.

Property theorems only (helper lemmas: DhtVerif/Lemmas/B44.lean, DhtVerif/Lemmas/C12.lean), about
the executable model DhtVerif/Model/Bep44.lean. ed25519 verification `P.verify` and SHA-1 `P.H`
are PARAMETERS: the theorems hold for every `verify` and every `H` (so in particular for the
real ones); no cryptographic assumption is needed on the store side, because "valid" is stated
as "`verify` accepts the item's own (salt, seq, v) buffer under its own key" and "the right
place" as "`H` of key ‖ salt / of the encoded value". All theorems hold for both CAS rules.
The client side of C12 (exts/getput) is proved in Props/C12Client.lean and restated at the end.
-/
import DhtVerif.Lemmas.C12
import DhtVerif.Props.C12Client
import DhtVerif.Props.ST2Bep44
namespace Dht
open B44

/-- The limits and codes the model uses are BEP 44's in the source tree. -/
theorem C12.limits_and_codes_from_source :
    Gen.bep44MaxV = 1000 ∧ Gen.bep44MaxSalt = 64 ∧ Gen.bep44ErrValueFieldTooBig = 205 ∧
    Gen.bep44ErrInvalidSignature = 206 ∧ Gen.bep44ErrSaltFieldTooBig = 207 ∧ Gen.missing = [] := by decide

/-- INVARIANT over all histories of puts (any item: any key, salt, seq, value, signature),
gets (any target) and clock advances, from any store that satisfies it (e.g. the empty one):
every stored mutable item verifies for its own (salt, seq, v) under its own key, has a salt of
at most 64 bytes and an encoded value of at most 1000 bytes, and sits under `H(k ‖ salt)`;
every stored immutable item is at most 1000 bytes and sits under `H(bencode v)`. -/
theorem C12.stored_items_valid (P : Params) (exp : Nat) (s : St) (evs : List Ev)
    (h : StoreInv P s.store) : StoreInv P (s.run P exp evs).store :=
  StoreInv.run P exp s evs h

/-- The invariant holds initially. -/
theorem C12.empty_store_valid (P : Params) : StoreInv P Store.empty := StoreInv.empty P

/-- `StoreInv` spelled out, so that the statement can be read without the definitions. -/
theorem C12.stored_items_valid_unfolded (P : Params) (exp now : Nat) (evs : List Ev) (t : Target) (e : Entry)
    (he : ((⟨Store.empty, now⟩ : St).run P exp evs).store t = some e) :
    e.item.bv.length ≤ 1000 ∧
    (∀ k, e.item.k = some k →
        e.item.salt.length ≤ 64 ∧
        P.verify k (bufferToSign e.item.salt e.item.seq e.item.bv) e.item.sig = true ∧
        t = P.H (k ++ e.item.salt)) ∧
    (e.item.k = none → t = P.H e.item.bv) := by
  obtain ⟨⟨hv, hm⟩, ⟨ht1, ht2⟩⟩ := C12.stored_items_valid P exp ⟨Store.empty, now⟩ evs (StoreInv.empty P) t e he
  exact ⟨hv, fun k hk => ⟨(hm k hk).1, (hm k hk).2, ht1 k hk⟩, ht2⟩

/-- Whatever a get hands out — through `Wrapper.Get` or in an inbound `get` reply, with or
without `seq` — is the item stored under the asked target (and it is younger than the expiry). -/
theorem C12.served_is_stored (exp now : Nat) (s : Store) (t : Target) (a : Option Int) :
    (∀ i, (Wrapper.get exp now s t).2 = some i → ∃ e, s t = some e ∧ e.item = i) ∧
    (∀ i, (handleGet exp now s t a).2 = .full i → ∃ e, s t = some e ∧ e.item = i) := by
  constructor
  · intro i hi
    cases hs : s t with
    | none => rw [Wrapper.get_none _ _ _ _ hs] at hi; cases hi
    | some e =>
      rcases Wrapper.get_some exp now s t e hs with ⟨_, hg⟩ | ⟨_, hg⟩
      · rw [hg] at hi; cases hi; exact ⟨e, rfl, rfl⟩
      · rw [hg] at hi; cases hi
  · intro i hi
    cases hs : s t with
    | none =>
      have : handleGet exp now s t a = (s, .notFound) := by
        unfold handleGet; rw [Wrapper.get_none _ _ _ _ hs]
      rw [this] at hi; cases hi
    | some e =>
      rcases Wrapper.get_some exp now s t e hs with ⟨_, hg⟩ | ⟨_, hg⟩
      · unfold handleGet at hi; rw [hg] at hi
        cases a with
        | none => simp only [] at hi; cases hi; exact ⟨e, rfl, rfl⟩
        | some q =>
          simp only [] at hi
          split at hi
          · cases hi
          · cases hi; exact ⟨e, rfl, rfl⟩
      · have : handleGet exp now s t a = (s.del t, .notFound) := by unfold handleGet; rw [hg]
        rw [this] at hi; cases hi

/-- Hence, in every state reached by any history from the empty store, a get reply for target
`t` carries a mutable item only if it verifies, is within the limits and `t = H(k ‖ salt)`, and
an immutable item only if `t = H(bencode v)`. -/
theorem C12.served_items_valid (P : Params) (exp now : Nat) (evs : List Ev) (t : Target) (a : Option Int) (i : Item)
    (hi : (handleGet exp ((⟨Store.empty, now⟩ : St).run P exp evs).now
            ((⟨Store.empty, now⟩ : St).run P exp evs).store t a).2 = .full i) :
    i.bv.length ≤ 1000 ∧
    (∀ k, i.k = some k →
        i.salt.length ≤ 64 ∧ P.verify k (bufferToSign i.salt i.seq i.bv) i.sig = true ∧ t = P.H (k ++ i.salt)) ∧
    (i.k = none → t = P.H i.bv) := by
  obtain ⟨e, he, hei⟩ := (C12.served_is_stored exp _ _ t a).2 i hi
  have := C12.stored_items_valid_unfolded P exp now evs t e he
  rw [hei] at this; exact this

/-- A put that fails `Check` is answered with the BEP 44 code for the first failing test, in
the order of the Go code (value size, salt size, signature), and leaves the store unchanged;
every rejected put — whatever the reason, 205/206/207 or the sequence rules of C13 — leaves
the store unchanged; and 205/206/207 are given for no other reason. -/
theorem C12.rejected_put_code_and_pure (P : Params) (now : Nat) (s : Store) (i : Item) :
    (i.bv.length > 1000 → Wrapper.put P now s i = (s, some 205)) ∧
    (∀ k, i.bv.length ≤ 1000 → i.k = some k → i.salt.length > 64 → Wrapper.put P now s i = (s, some 207)) ∧
    (∀ k, i.bv.length ≤ 1000 → i.k = some k → i.salt.length ≤ 64 →
        P.verify k (bufferToSign i.salt i.seq i.bv) i.sig = false → Wrapper.put P now s i = (s, some 206)) ∧
    ((Wrapper.put P now s i).2 ≠ none → (Wrapper.put P now s i).1 = s) ∧
    (ItemValid P i → (Wrapper.put P now s i).2 ≠ some 205 ∧ (Wrapper.put P now s i).2 ≠ some 206 ∧
        (Wrapper.put P now s i).2 ≠ some 207) := by
  have hv : Gen.bep44MaxV = 1000 := by decide
  have hsl : Gen.bep44MaxSalt = 64 := by decide
  have e5 : Gen.bep44ErrValueFieldTooBig = 205 := by decide
  have e6 : Gen.bep44ErrInvalidSignature = 206 := by decide
  have e7 : Gen.bep44ErrSaltFieldTooBig = 207 := by decide
  have e1 : Gen.bep44ErrCasHashMismatched = 301 := by decide
  have e2 : Gen.bep44ErrSequenceNumberLessThanCurrent = 302 := by decide
  refine ⟨?_, ?_, ?_, Wrapper.put_rejected_pure P now s i, ?_⟩
  · intro h
    have : check P i = some 205 := by unfold check; rw [hv, e5]; simp [h]
    unfold Wrapper.put; rw [this]
  · intro k h1 hk h2
    have : check P i = some 207 := by
      unfold check; rw [hv, hsl, e7, hk]
      have : ¬ i.bv.length > 1000 := by omega
      simp [this, h2]
    unfold Wrapper.put; rw [this]
  · intro k h1 hk h2 h3
    have : check P i = some 206 := by
      unfold check; rw [hv, hsl, e6, hk]
      have n1 : ¬ i.bv.length > 1000 := by omega
      have n2 : ¬ i.salt.length > 64 := by omega
      simp [n1, n2, h3]
    unfold Wrapper.put; rw [this]
  · intro hval
    have hc : check P i = none := by
      obtain ⟨hlen, hm⟩ := hval
      unfold check; rw [hv, hsl]
      have n1 : ¬ i.bv.length > 1000 := by omega
      simp only [n1, if_false]
      cases hk : i.k with
      | none => rfl
      | some k =>
        obtain ⟨hs, hver⟩ := hm k hk
        have n2 : ¬ i.salt.length > 64 := by omega
        simp [n2, hver]
    rcases Wrapper.put_cases P now s i with ⟨e, he, _⟩ | ⟨st, e, _, _, hci, h'⟩ | ⟨_, _, h'⟩
    · rw [hc] at he; cases he
    · rw [h']
      have : e = 301 ∨ e = 302 := by
        have := checkIncomingWith_code _ _ _ _ hci
        rw [e1, e2] at this; exact this
      rcases this with h | h <;> simp [h]
    · rw [h']; simp

/-- The inbound `put` is `Wrapper.put` on the message's fields (an all-zero `k` meaning
"immutable"); without `seq` it is answered 203 and the store is not touched. -/
theorem C12.inbound_put_is_wrapper_put (P : Params) (now : Nat) (s : Store) (bv k salt sig : Bytes) (cas : Int) :
    (∀ q, handlePut P now s bv k salt sig cas (some q) = Wrapper.put P now s ⟨bv, keyOfWire k, salt, sig, cas, q⟩) ∧
    handlePut P now s bv k salt sig cas none = (s, some 203) := by
  constructor
  · intro q; rfl
  · have : Gen.errorCodeProtocolError = 203 := by decide
    unfold handlePut; rw [this]

/-! ## Non-vacuity -/

/-- With an idealised signature scheme ("verifies iff made for exactly this key and message")
a genuine item is stored and served, the same item with a signature made for another seq is
refused with 206 and a 65-byte salt with 207. -/
example :
    let P : Params := ⟨fun b => b, fun k m sg => sg == k ++ m, false⟩
    let good : Item := ⟨[105, 49, 101], some [7], [1], [7] ++ bufferToSign [1] 4 [105, 49, 101], 0, 4⟩
    let forged : Item := { good with seq := 5 }
    let salty : Item := { good with salt := List.replicate 65 0 }
    (Wrapper.put P 0 Store.empty good).2 = none ∧
    ((Wrapper.put P 0 Store.empty good).1 ([7] ++ [1])).map (·.item.seq) = some 4 ∧
    (Wrapper.put P 0 Store.empty forged).2 = some 206 ∧
    (Wrapper.put P 0 Store.empty salty).2 = some 207 := by decide

/-! ## Client side (exts/getput/getput.go) — proved in Props/C12Client.lean about Model/Getput.lean,
restated here in full so that the audit of this file covers them. `evs` ranges over ALL finite
sequences of query outcomes (`some reply` with any fields, `none` = no `r`), in arrival order. -/

/-- Whatever `Get` hands its caller is the value of a reply that hashes to the target, or that
carries a `seq`, whose key ‖ salt hashes to the target and whose signature verifies for exactly
(salt, seq, v) under that key. -/
theorem C12.client_accepts_only_valid (H : Bytes → Target) (verify : Key → Bytes → Bytes → Bool)
    (target : Target) (salt : Bytes) (evs : List Getput.Event) (hseq : Getput.Int64Seqs evs)
    (res : Getput.GetResult) (h : Getput.clientGet H verify target salt evs = some res) :
    ∃ r, some r ∈ evs ∧ res.v = r.v ∧ res.sig = r.sig ∧
      ((res.isMutable = false ∧ H r.bv = target) ∨
       (res.isMutable = true ∧ r.seq = some res.seq ∧ H (r.k ++ salt) = target ∧
          verify r.k (bufferToSign salt res.seq r.bv) r.sig = true)) :=
  C12Client.client_accepts_only_valid H verify target salt evs hseq res h

/-- The mutable value returned carries the largest sequence number among all accepted replies
of the sequence; it is one of them, later arrivals are strictly smaller (ties: the later one). -/
theorem C12.client_returns_max_seq (H : Bytes → Target) (verify : Key → Bytes → Bytes → Bool)
    (target : Target) (salt : Bytes) (evs : List Getput.Event) (hseq : Getput.Int64Seqs evs)
    (res : Getput.GetResult) (h : Getput.clientGet H verify target salt evs = some res)
    (hm : res.isMutable = true) :
    (∀ x ∈ Getput.results H verify target salt evs, x.isMutable = true ∧ x.seq ≤ res.seq) ∧
    ∃ pre post, Getput.results H verify target salt evs = pre ++ res :: post ∧
      (∀ x ∈ pre, x.seq ≤ res.seq) ∧ (∀ x ∈ post, x.seq < res.seq) :=
  C12Client.client_returns_max_seq H verify target salt evs hseq res h hm

/-- For every arrival order: a permutation of the outcomes changes neither whether a value is
found, nor its kind, nor its sequence number. -/
theorem C12.client_result_order_independent (H : Bytes → Target) (verify : Key → Bytes → Bytes → Bool)
    (target : Target) (salt : Bytes) (evs evs' : List Getput.Event) (hp : evs'.Perm evs)
    (hseq : Getput.Int64Seqs evs) :
    (Getput.clientGet H verify target salt evs').map (fun r => (r.isMutable, r.seq)) =
    (Getput.clientGet H verify target salt evs).map (fun r => (r.isMutable, r.seq)) :=
  C12Client.client_result_order_independent H verify target salt evs evs' hp hseq

/-- "Value not found" exactly when no reply of the sequence is accepted. -/
theorem C12.client_not_found_iff (H : Bytes → Target) (verify : Key → Bytes → Bytes → Bool)
    (target : Target) (salt : Bytes) (evs : List Getput.Event) :
    Getput.clientGet H verify target salt evs = none ↔
      ∀ r, some r ∈ evs → Getput.accept H verify target salt r = none :=
  C12Client.client_not_found_iff H verify target salt evs

/-- Removing an outcome that is not accepted, anywhere in the sequence, changes neither what
`Get` returns nor the number `Put` derives. -/
theorem C12.client_ignores_invalid (H : Bytes → Target) (verify : Key → Bytes → Bytes → Bool)
    (target : Target) (salt : Bytes) (pre post : List Getput.Event) (e : Getput.Event)
    (he : Getput.acceptEv H verify target salt e = none) :
    Getput.clientGet H verify target salt (pre ++ e :: post) = Getput.clientGet H verify target salt (pre ++ post) ∧
    Getput.putSeq H verify target salt (pre ++ e :: post) = Getput.putSeq H verify target salt (pre ++ post) :=
  C12Client.client_ignores_invalid H verify target salt pre post e he

/-- `Put` hands `seqToPut` the largest accepted mutable sequence number, or 0. -/
theorem C12.put_autoseq_is_max (H : Bytes → Target) (verify : Key → Bytes → Bytes → Bool)
    (target : Target) (salt : Bytes) (evs : List Getput.Event) :
    0 ≤ Getput.putSeq H verify target salt evs ∧
    (∀ x ∈ Getput.results H verify target salt evs, x.isMutable = true →
        x.seq ≤ Getput.putSeq H verify target salt evs) ∧
    (Getput.putSeq H verify target salt evs = 0 ∨
      ∃ r, some r ∈ evs ∧ r.seq = some (Getput.putSeq H verify target salt evs) ∧ H (r.k ++ salt) = target ∧
        verify r.k (bufferToSign salt (Getput.putSeq H verify target salt evs) r.bv) r.sig = true) :=
  C12Client.put_autoseq_is_max H verify target salt evs

/-- The outcome of `Get` under any arrival order satisfies the order-free check the driver
applies when the arrival order was not observed. -/
theorem C12.client_any_order_allowed (rs rs' : List Getput.GetResult) (hp : rs'.Perm rs)
    (hr : Getput.SeqsInRange rs) : Getput.getAllowed rs (Getput.getFold rs') = true :=
  C12Client.client_any_order_allowed rs rs' hp hr

/-- The token `Put` sends a node is the one of that node's own reply (a responder without token
is, with the filter as written in the code, kept with the empty token). -/
theorem C12.put_token_is_nodes_own (effective : Bool) (e : Getput.Event) (tok : Bytes)
    (h : Getput.closestEntryWith effective e = some tok) :
    ∃ r, e = some r ∧ (r.token = some tok ∨ (r.token = none ∧ tok = [] ∧ effective = false)) :=
  C12Client.put_token_is_nodes_own effective e tok h

/-! ## T1 by translation: the check and the targets are the source's -/

/-- `Check` in bep44/item.go (with `Item.IsMutable` and `Verify` read from their own sources) IS the model's
`check`, for all items and parameters. -/
theorem C12.check_is_the_source (P : Params) (i : Item) :
    Gen.treeBep44CheckLets = ckLetsExpected ∧
    DExp.evalWith (ckCond P i) ckRet Gen.treeBep44Check = some (check P i) :=
  SourceTrees.bep44Check P i

/-- `Item.Target` (bep44/item.go) and `Put.Target` (bep44/put.go, through `Put.IsMutable` and
`MakeMutableTarget`) both ARE the model's `target`; `Item.IsMutable` is `Item.isMutable`. -/
theorem C12.targets_are_the_source (P : Params) (i : Item) :
    DExp.evalWith (itCond i) (itRet P i) Gen.treeItemTarget = some (target P i) ∧
    DExp.evalWith (ptCond i) (ptRet P i) Gen.treePutTarget = some (target P i) ∧
    DExp.evalWith noCond (imRet i) Gen.treeItemIsMutable = some i.isMutable :=
  ⟨SourceTrees.itemTarget P i, SourceTrees.putTarget P i, SourceTrees.itemIsMutable i⟩

end Dht
