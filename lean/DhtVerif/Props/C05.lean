/-
C05 — the routing table is always a well-formed Kademlia table.

All theorems are over `DhtVerif/Model/Table.lean`, for every history of
table events (inbound queries / matched responses from arbitrary (address, ID)
pairs, API adds, ping time-outs, elapsed time) and every resolution of the
map-iteration nondeterminism.
-/
import DhtVerif.Model.Table
import DhtVerif.Lemmas.C05
namespace Dht

/-- Events carry 20-byte IDs (the wire codec and `[20]byte` guarantee it). -/
def TblEv.wf : TblEv → Prop
  | .recvQuery _ id _ _ => ∀ i, id = some i → i.length = 20
  | .recvResponse _ id _ _ => ∀ i, id = some i → i.length = 20
  | .apiAdd _ id _ => id.length = 20
  | .pingFailed _ id => id.length = 20
  | .advance _ => True

/-- The same event with another resolution of the eviction choice. -/
def TblEv.withChoice (ch : Option Node) : TblEv → TblEv
  | .recvQuery s i r _ => .recvQuery s i r ch
  | .recvResponse s i r _ => .recvResponse s i r ch
  | .apiAdd a i _ => .apiAdd a i ch
  | e => e

/-- Well-formedness of a table for root `c.root` and bucket size `c.k`:
every entry has a bucket index below 160 (so it is not the root ID), is not the
zero ID, no bucket exceeds `k`, and no two entries share ID and address. -/
structure Table.Inv (c : TableCfg) (t : Table) : Prop where
  bucketed : ∀ n ∈ t, ∃ i, n.bucket c = some i ∧ i < 160
  notRoot  : ∀ n ∈ t, n.id ≠ c.root
  notZero  : ∀ n ∈ t, n.id.isZero = false
  bounded  : ∀ i, (bucketNodes c t i).length ≤ c.k
  distinct : t.Pairwise (fun a b => ¬ (a.id = b.id ∧ a.addr.key = b.addr.key))

theorem C05.inv_init (c : TableCfg) : Table.Inv c [] := by
  refine ⟨?_, ?_, ?_, ?_, ?_⟩ <;> simp [bucketNodes]

theorem TblEv.wf.idOf {ev : TblEv} (h : ev.wf) : ∀ i, ev.idOf = some i → i.length = 20 := by
  cases ev with
  | recvQuery src id ro ch => exact h
  | recvResponse src id ro ch => exact h
  | apiAdd addr id ch => intro i hi; cases hi; exact h
  | pingFailed addr id => intro i hi; cases hi; exact h
  | advance d => intro i hi; cases hi

/-- Appending a fresh, non-bad, 20-byte-ID entry whose bucket has room keeps the table well-formed. -/
theorem Table.Inv.snoc {c : TableCfg} {t : Table} {n : Node} {i : Nat} (hroot : c.root.length = 20)
    (hinv : Table.Inv c t) (hlen : n.id.length = 20) (hbad : isBad c n = false)
    (hb : n.bucket c = some i) (hroom : (bucketNodes c t i).length < c.k)
    (hnew : ∀ a ∈ t, ¬ (a.id = n.id ∧ a.addr.key = n.addr.key)) : Table.Inv c (t ++ [n]) := by
  have hnb := isBad_false hbad
  refine ⟨?_, ?_, ?_, ?_, pairwise_snoc hinv.distinct hnew⟩
  · intro m hm
    rcases List.mem_append.mp hm with hm | hm
    · exact hinv.bucketed m hm
    · rw [List.mem_singleton] at hm; subst hm
      exact ⟨i, hb, bucketIndex_lt c.root m.id i hroot hlen hb⟩
  · intro m hm
    rcases List.mem_append.mp hm with hm | hm
    · exact hinv.notRoot m hm
    · rw [List.mem_singleton] at hm; subst hm; exact hnb.1
  · intro m hm
    rcases List.mem_append.mp hm with hm | hm
    · exact hinv.notZero m hm
    · rw [List.mem_singleton] at hm; subst hm; exact hnb.2.1
  · intro j
    rw [bucketNodes_snoc_length c t n i j hb]
    by_cases hj : j = i
    · subst hj; simp; omega
    · simp [hj]; exact hinv.bounded j

/-- Removing entries keeps the table well-formed. -/
theorem Table.Inv.filter {c : TableCfg} {t : Table} (hinv : Table.Inv c t) (p : Node → Bool) :
    Table.Inv c (t.filter p) := by
  refine ⟨fun m hm => hinv.bucketed m (List.mem_filter.mp hm).1,
    fun m hm => hinv.notRoot m (List.mem_filter.mp hm).1,
    fun m hm => hinv.notZero m (List.mem_filter.mp hm).1, ?_,
    hinv.distinct.sublist List.filter_sublist⟩
  intro j
  rw [bucketNodes_filter]
  exact Nat.le_trans (List.length_filter_le _ _) (hinv.bounded j)

/-- Updating fields other than ID and address keeps the table well-formed. -/
theorem Table.Inv.map {c : TableCfg} {t : Table} (hinv : Table.Inv c t) {f : Node → Node} (hf : KeyPres f) :
    Table.Inv c (t.map f) := by
  refine ⟨?_, ?_, ?_, ?_, pairwise_map_keyPres hf hinv.distinct⟩
  · intro m hm
    obtain ⟨m0, h0, rfl, _, _⟩ := mem_map_keyPres hf hm
    rw [hf.bucket]; exact hinv.bucketed m0 h0
  · intro m hm
    obtain ⟨m0, h0, _, hid, _⟩ := mem_map_keyPres hf hm
    rw [hid]; exact hinv.notRoot m0 h0
  · intro m hm
    obtain ⟨m0, h0, _, hid, _⟩ := mem_map_keyPres hf hm
    rw [hid]; exact hinv.notZero m0 h0
  · intro j
    rw [bucketNodes_map hf, List.length_map]; exact hinv.bounded j

/-- `updateNode` preserves well-formedness, whatever the eviction choice. -/
theorem Table.Inv.updateNode {c : TableCfg} (hroot : c.root.length = 20) {now : Nat} {t t' : Table} {addr : NAddr}
    {id : Option Id} {tryAdd : Bool} {upd : Node → Node} {ch : Option Node} {out : AddOutcome}
    (hinv : Table.Inv c t) (hupd : KeyPres upd) (hid : ∀ i, id = some i → i.length = 20)
    (h : Dht.updateNode c now t addr id tryAdd upd ch = some (t', out)) : Table.Inv c t' := by
  rcases updateNode_cases h with ⟨rfl, _⟩ | ⟨id', _, _, rfl, _⟩ |
    ⟨id', i, hid', _, hg, hne, hbad, hb, hroom, rfl, _⟩ |
    ⟨id', i, d, hid', _, hg, hne, hbad, hb, _, hroom, rfl, _⟩
  · exact hinv
  · exact hinv.map (hupd.ite _)
  · have hk := hupd { id := id', addr := addr }
    refine hinv.snoc hroot (by rw [hk.1]; exact hid id' hid') hbad hb hroom ?_
    rw [hk.1, hk.2]; exact getNode_none hg hne
  · have hk := hupd { id := id', addr := addr }
    refine (hinv.filter _).snoc hroot (by rw [hk.1]; exact hid id' hid') hbad hb hroom ?_
    rw [hk.1, hk.2]
    intro a ha; exact getNode_none hg hne a (List.mem_filter.mp ha).1

/-- One event preserves well-formedness, whatever the eviction choice. -/
theorem C05.inv_step (c : TableCfg) (hroot : c.root.length = 20) (s s' : TblState) (ev : TblEv) (out : AddOutcome)
    (hinv : Table.Inv c s.table) (hev : ev.wf) (h : s.step c ev = some (s', out)) :
    Table.Inv c s'.table := by
  rcases step_cases h with ⟨ht, _⟩ | ⟨addr, tryAdd, upd, ch, hupd, hu, _⟩
  · rw [ht]; exact hinv
  · exact hinv.updateNode hroot hupd hev.idOf hu

/-- Well-formedness is preserved along any history from any well-formed state. -/
theorem C05.inv_run (c : TableCfg) (hroot : c.root.length = 20) (evs : List TblEv) (s0 s : TblState)
    (hinv : Table.Inv c s0.table) (hev : ∀ e ∈ evs, e.wf) (h : TblState.run c s0 evs = some s) :
    Table.Inv c s.table := by
  induction evs generalizing s0 with
  | nil => simp [TblState.run] at h; subst h; exact hinv
  | cons e es ih =>
    unfold TblState.run at h
    split at h
    · cases h
    · rename_i s1 o hs
      exact ih s1 (C05.inv_step c hroot s0 s1 e o hinv (hev e List.mem_cons_self) hs)
        (fun e' he' => hev e' (List.mem_cons_of_mem _ he')) h

/-- Every reachable table is well-formed. -/
theorem C05.inv_reachable (c : TableCfg) (hroot : c.root.length = 20) (evs : List TblEv) (s : TblState)
    (hev : ∀ e ∈ evs, e.wf) (h : TblState.run c {} evs = some s) : Table.Inv c s.table := by
  exact C05.inv_run c hroot evs {} s (C05.inv_init c) hev h

/-- The bucket an entry sits in is the length of the bit prefix its ID shares with the node's own ID. -/
theorem C05.bucket_is_shared_prefix (c : TableCfg) (hroot : c.root.length = 20) (t : Table)
    (hinv : Table.Inv c t) (n : Node) (hn : n ∈ t) (hlen : n.id.length = 20) :
    ∃ i, n.bucket c = some i ∧ i < 160 ∧
      (∀ j, j < i → n.id.getBit j = c.root.getBit j) ∧ n.id.getBit i ≠ c.root.getBit i := by
  exact bucketIndex_spec c.root n.id hroot hlen (hinv.notRoot n hn)

/-- `Server.updateNode` does not panic on a well-formed table when the
map iteration meets *any* droppable entry first (or there is none). -/
theorem C05.no_panic_any_droppable (c : TableCfg) (now : Nat) (t : Table) (hinv : Table.Inv c t)
    (addr : NAddr) (id : Id) (tryAdd : Bool) (upd : Node → Node) (ch : Option Node)
    (hch : droppable c now t (upd { id := id, addr := addr }) = [] ∨
      ∃ d ∈ droppable c now t (upd { id := id, addr := addr }), ch = some d) :
    (updateNode c now t addr (some id) tryAdd upd ch).isSome = true := by
  apply updateNode_isSome hinv.bounded
  right; intro id' hid'; cases hid'; exact hch

/-- The choice that always works: the first droppable entry. -/
def firstDroppable (c : TableCfg) (s : TblState) (addr : NAddr) (id : Option Id) (upd : Node → Node) : Option Node :=
  match id with
  | none => none
  | some id' => (droppable c s.now s.table (upd { id := id', addr := addr })).head?

theorem updateNode_firstDroppable {c : TableCfg} {s : TblState} (hinv : Table.Inv c s.table) (addr : NAddr)
    (id : Option Id) (tryAdd : Bool) (upd : Node → Node) :
    (updateNode c s.now s.table addr id tryAdd upd (firstDroppable c s addr id upd)).isSome = true := by
  apply updateNode_isSome hinv.bounded
  right; intro id' hid'; subst hid'
  cases hd : droppable c s.now s.table (upd { id := id', addr := addr }) with
  | nil => left; rfl
  | cons d ds => right; exact ⟨d, List.mem_cons_self, by simp [firstDroppable, hd]⟩

/-- None of the `panic`s of table.go / `Server.addNode` is reachable: from a
well-formed table every event has a resolution under which the step is defined,
and with *any* droppable entry as the choice it is defined
(`C05.no_panic_any_droppable`). -/
theorem C05.no_panic (c : TableCfg) (hroot : c.root.length = 20) (s : TblState) (ev : TblEv)
    (hinv : Table.Inv c s.table) (hev : ev.wf) :
    ∃ ch, (s.step c (ev.withChoice ch)).isSome = true := by
  have _ := hroot
  have _ := hev
  cases ev with
  | recvQuery src id ro ch0 =>
    refine ⟨firstDroppable c s src id (onQuery s.now), ?_⟩
    simp only [TblEv.withChoice, TblState.step, Option.isSome_map]
    exact updateNode_firstDroppable hinv src id (!ro) _
  | recvResponse src id ro ch0 =>
    refine ⟨firstDroppable c s src id (onResponse s.now), ?_⟩
    simp only [TblEv.withChoice, TblState.step, Option.isSome_map]
    exact updateNode_firstDroppable hinv src id (!ro) _
  | apiAdd addr id ch0 =>
    refine ⟨firstDroppable c s addr (some id) (fun n => n), ?_⟩
    simp only [TblEv.withChoice, TblState.step, Option.isSome_map]
    exact updateNode_firstDroppable hinv addr (some id) true _
  | pingFailed addr id =>
    refine ⟨none, ?_⟩
    simp only [TblEv.withChoice, TblState.step, Option.isSome_map]
    exact updateNode_isSome hinv.bounded (Or.inl rfl)
  | advance d => exact ⟨none, rfl⟩

/-- The counts the API reports agree with the entries: the node count is the sum
of the bucket sizes, good nodes are non-bad nodes are nodes. -/
theorem C05.counts_agree (c : TableCfg) (now : Nat) (t : Table) (hinv : Table.Inv c t) :
    numNodes t = ((List.range 160).map (fun i => (bucketNodes c t i).length)).sum ∧
    numGoodNodes c now t ≤ (notBadNodes c t).length ∧ (notBadNodes c t).length ≤ numNodes t ∧
    (∀ n, n ∈ notBadNodes c t ↔ n ∈ t ∧ isBad c n = false) := by
  refine ⟨length_eq_sum_buckets c 160 t hinv.bucketed, ?_, List.length_filter_le _ _, ?_⟩
  · unfold numGoodNodes notBadNodes
    rw [← List.countP_eq_length_filter, ← List.countP_eq_length_filter]
    apply List.countP_mono_left
    intro n _ hg
    simp [isGood] at hg
    simp [hg.1]
  · intro n; simp [notBadNodes]

/-- Hence the table never holds more than 160·K entries. -/
theorem C05.size_bound (c : TableCfg) (t : Table) (hinv : Table.Inv c t) : numNodes t ≤ 160 * c.k := by
  rw [(C05.counts_agree c 0 t hinv).1]
  exact sum_le_mul 160 c.k _ hinv.bounded

/-! ## Non-vacuity: a history that fills a bucket (k = 2) and performs a replacement -/

namespace Demo

def root : Id := List.replicate 20 0
/-- IDs `00…0x`; for `x ∈ {4,…,7}` they share bucket 157 of `root`. -/
def idx (x : UInt8) : Id := List.replicate 19 0 ++ [x]
def cfg : TableCfg := { root := root, k := 2, window := 1000 }
def a (p : Nat) : NAddr := { ip := [1, 2, 3, 4], port := p }
def n4 : Node := { id := idx 4, addr := a 1, lastQuery := some 0 }
def n5 : Node := { id := idx 5, addr := a 2, lastQuery := some 0 }
def n6 : Node := { id := idx 6, addr := a 3, lastResp := some 5 }
/-- bucket 157 is full, neither entry has ever responded -/
def full : TblState := { now := 5, table := [n4, n5] }
def after : TblState := { now := 5, table := [n5, n6] }
/-- a matched response from a third ID of bucket 157; the map iteration meets `n4` first -/
def evResp : TblEv := .recvResponse (a 3) (some (idx 6)) false (some n4)
/-- a query from a fourth ID of bucket 157: not good, so nothing may be evicted for it -/
def evQuery7 : TblEv := .recvQuery (a 4) (some (idx 7)) false none
def hist : List TblEv := [
  .recvQuery (a 1) (some (idx 4)) false none,
  .recvQuery (a 2) (some (idx 5)) false none,
  .advance 5,
  evQuery7,
  evResp]

theorem hist_wf : ∀ e ∈ hist, e.wf := by simp [hist, evResp, evQuery7, TblEv.wf, idx]

end Demo

open Demo in
example : bucketIndex root (idx 4) = some 157 ∧ bucketIndex root (idx 5) = some 157 ∧
    bucketIndex root (idx 6) = some 157 ∧ bucketIndex root (idx 7) = some 157 := by decide

/-- The first three events fill bucket 157. -/
example : (TblState.run Demo.cfg {} (Demo.hist.take 3)).map (·.table) = some Demo.full.table := by decide

/-- Full bucket, newcomer not good, no bad entry: table unchanged. -/
example : Demo.full.step Demo.cfg Demo.evQuery7 = some (Demo.full, .unchanged "no room in bucket") := by rfl

/-- Full bucket, newcomer good, never-responded entries present: one is replaced. -/
example : Demo.full.step Demo.cfg Demo.evResp = some (Demo.after, .replaced Demo.n4) := by rfl

/-- With no choice given where one is needed the model step is undefined, … -/
example : Demo.full.step Demo.cfg (Demo.evResp.withChoice none) = none := by rfl

/-- … and either droppable entry is an admissible choice (`C05.no_panic_any_droppable`). -/
example : Demo.full.step Demo.cfg (Demo.evResp.withChoice (some Demo.n5)) =
    some ({ now := 5, table := [Demo.n4, Demo.n6] }, .replaced Demo.n5) := by rfl

/-- The whole history runs, ends in `[n5, n6]`, and the end table is well-formed
with bucket 157 full: the hypotheses of `C05.inv_reachable` / `C05.no_panic` /
`C05.size_bound` are satisfiable by a non-trivial instance. -/
example : ∃ s, TblState.run Demo.cfg {} Demo.hist = some s ∧ s.table = [Demo.n5, Demo.n6] ∧
    Table.Inv Demo.cfg s.table ∧ (bucketNodes Demo.cfg s.table 157).length = Demo.cfg.k ∧
    numNodes s.table = 2 := by
  have h : (TblState.run Demo.cfg {} Demo.hist).map (·.table) = some [Demo.n5, Demo.n6] := by decide
  cases hr : TblState.run Demo.cfg {} Demo.hist with
  | none => simp [hr] at h
  | some s =>
    simp [hr] at h
    refine ⟨s, rfl, h, C05.inv_reachable Demo.cfg rfl Demo.hist s Demo.hist_wf hr, ?_, ?_⟩
    · rw [h]; decide
    · rw [h]; rfl

example : ∃ i, Demo.n6.bucket Demo.cfg = some i ∧ i < 160 ∧
    (∀ j, j < i → Demo.n6.id.getBit j = Demo.cfg.root.getBit j) ∧
    Demo.n6.id.getBit i ≠ Demo.cfg.root.getBit i := by
  have h : (TblState.run Demo.cfg {} Demo.hist).map (·.table) = some [Demo.n5, Demo.n6] := by decide
  cases hr : TblState.run Demo.cfg {} Demo.hist with
  | none => simp [hr] at h
  | some s =>
    simp [hr] at h
    have hinv := C05.inv_reachable Demo.cfg rfl Demo.hist s Demo.hist_wf hr
    rw [h] at hinv
    exact C05.bucket_is_shared_prefix Demo.cfg rfl _ hinv Demo.n6 (by simp) rfl

end Dht
