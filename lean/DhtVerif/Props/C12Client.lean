/-
C12 (client side) — "a get traversal hands its caller only values that hash to the requested
immutable target or verify under the requested mutable target's key and salt, and among those
the one with the highest sequence number, whatever the remote nodes reply."

Property theorems only (helper lemmas: DhtVerif/Lemmas/C12Client.lean), about the executable
model DhtVerif/Model/Getput.lean of /repo/exts/getput/getput.go. SHA-1 `H` and ed25519 `verify`
are PARAMETERS: every theorem holds for every `H` and every `verify`. The quantifier "for all
get replies from simulated remote nodes … in any order" is the universal quantification over
`evs : List Event` — every finite sequence of query outcomes (reply with any subset of fields
and any contents, or no reply), in every arrival order.

`Int64Seqs evs` is the typing fact that a reply's `seq` is a Go `int64` (never below
`math.MinInt64`, the value `Get` starts its maximum from).
-/
import DhtVerif.Lemmas.C12Client
namespace Dht.C12Client
open Dht.B44 (Bytes Target Key bufferToSign)
open Dht.Getput

/-- "The value handed to the caller comes from reply `r`, and `r` is valid for the target":
it hashes to the target (immutable), or it carries a `seq`, its key and the requested salt hash
to the target and its signature verifies for exactly (salt, seq, v) under that key (mutable). -/
def ValidFrom (H : Bytes → Target) (verify : Key → Bytes → Bytes → Bool) (target : Target) (salt : Bytes)
    (r : GetReply) (res : GetResult) : Prop :=
  res.v = r.v ∧ res.sig = r.sig ∧
  ((res.isMutable = false ∧ H r.bv = target) ∨
   (res.isMutable = true ∧ r.seq = some res.seq ∧ H (r.k ++ salt) = target ∧
      verify r.k (bufferToSign salt res.seq r.bv) r.sig = true))

/-- For ALL reply sequences in any order: whatever `Get` hands its caller is the value of one of
the replies received, and that reply is valid for the requested target (and salt). -/
theorem client_accepts_only_valid (H : Bytes → Target) (verify : Key → Bytes → Bytes → Bool)
    (target : Target) (salt : Bytes) (evs : List Event) (hseq : Int64Seqs evs) (res : GetResult)
    (h : clientGet H verify target salt evs = some res) :
    ∃ r, some r ∈ evs ∧ ValidFrom H verify target salt r res := by
  have hmem := getFold_mem _ (results_inRange H verify target salt evs hseq) res h
  obtain ⟨r, hr, hacc⟩ := (mem_results H verify target salt evs res).mp hmem
  obtain ⟨hv, hs, hcase⟩ := accept_some H verify target salt r res hacc
  refine ⟨r, hr, hv, hs, ?_⟩
  rcases hcase with ⟨hm, _, hh⟩ | ⟨hm, hq, _, hk, hver⟩
  · exact Or.inl ⟨hm, hh⟩
  · exact Or.inr ⟨hm, hq, hk, hver⟩

/-- With the idealisation "a signature verifies only for the (key, message) it was produced
for" (`Signed k m sg` = the holder of `k` produced `sg` for `m`), a mutable value handed to the
caller was signed, as (salt, seq, v), by the holder of a key that hashes with the salt to the
requested target. The idealisation is a HYPOTHESIS. -/
theorem client_value_signed_by_target_key (H : Bytes → Target) (verify : Key → Bytes → Bytes → Bool)
    (Signed : Key → Bytes → Bytes → Prop) (hideal : ∀ k m sg, verify k m sg = true → Signed k m sg)
    (target : Target) (salt : Bytes) (evs : List Event) (hseq : Int64Seqs evs) (res : GetResult)
    (h : clientGet H verify target salt evs = some res) (hm : res.isMutable = true) :
    ∃ k, H (k ++ salt) = target ∧ Signed k (bufferToSign salt res.seq (res.v.getD [])) res.sig := by
  obtain ⟨r, _, hv, hs, hcase⟩ := client_accepts_only_valid H verify target salt evs hseq res h
  rcases hcase with ⟨hf, _⟩ | ⟨_, _, hk, hver⟩
  · rw [hm] at hf; cases hf
  · refine ⟨r.k, hk, ?_⟩
    have := hideal _ _ _ hver
    rw [hv, hs]; exact this

/-- "Value not found" is reported exactly when no reply of the sequence is valid. -/
theorem client_not_found_iff (H : Bytes → Target) (verify : Key → Bytes → Bytes → Bool)
    (target : Target) (salt : Bytes) (evs : List Event) :
    clientGet H verify target salt evs = none ↔ ∀ r, some r ∈ evs → accept H verify target salt r = none := by
  unfold clientGet
  rw [getFold_none_iff]
  constructor
  · intro h r hr
    cases hacc : accept H verify target salt r with
    | none => rfl
    | some res =>
      have : res ∈ results H verify target salt evs := (mem_results H verify target salt evs res).mpr ⟨r, hr, hacc⟩
      rw [h] at this; cases this
  · intro h
    cases hrs : results H verify target salt evs with
    | nil => rfl
    | cons x rest =>
      exfalso
      have hx : x ∈ results H verify target salt evs := by rw [hrs]; exact List.mem_cons_self
      obtain ⟨r, hr, hacc⟩ := (mem_results H verify target salt evs x).mp hx
      rw [h r hr] at hacc; cases hacc

/-- For ALL reply sequences: when `Get` returns a mutable value, every accepted reply of the
sequence was a mutable one with a sequence number not above the returned one; the returned one
IS one of them, every accepted reply that arrived after it has a strictly smaller sequence
number and every one before it a smaller or equal one (ties: the later arrival wins). -/
theorem client_returns_max_seq (H : Bytes → Target) (verify : Key → Bytes → Bytes → Bool)
    (target : Target) (salt : Bytes) (evs : List Event) (hseq : Int64Seqs evs) (res : GetResult)
    (h : clientGet H verify target salt evs = some res) (hm : res.isMutable = true) :
    (∀ x ∈ results H verify target salt evs, x.isMutable = true ∧ x.seq ≤ res.seq) ∧
    ∃ pre post, results H verify target salt evs = pre ++ res :: post ∧
      (∀ x ∈ pre, x.seq ≤ res.seq) ∧ (∀ x ∈ post, x.seq < res.seq) := by
  have hr := results_inRange H verify target salt evs hseq
  unfold clientGet at h
  rcases getFold_cases _ hr with ⟨_, hn⟩ | ⟨pre, v, post, _, _, hv, hs⟩ | ⟨_, hall, r, pre, post, hs, he, h1, h2⟩
  · rw [hn] at h; cases h
  · rw [hs] at h; cases h; rw [hm] at hv; cases hv
  · rw [hs] at h; cases h
    refine ⟨?_, pre, post, he, h1, h2⟩
    intro x hx
    refine ⟨hall x hx, ?_⟩
    rw [he] at hx
    rcases List.mem_append.mp hx with hx | hx
    · exact h1 x hx
    · rcases List.mem_cons.mp hx with rfl | hx
      · exact Int.le_refl _
      · exact Int.le_of_lt (h2 x hx)

/-- An accepted immutable reply wins over everything: if any reply of the sequence hashes to
the target, `Get` returns an immutable value (the first such reply to arrive). -/
theorem client_immutable_first (H : Bytes → Target) (verify : Key → Bytes → Bytes → Bool)
    (target : Target) (salt : Bytes) (evs : List Event) (r : GetReply) (hr : some r ∈ evs)
    (hh : H r.bv = target) :
    ∃ res, clientGet H verify target salt evs = some res ∧ res.isMutable = false := by
  have hacc : accept H verify target salt r = some ⟨0, r.v, r.sig, false⟩ := by unfold accept; rw [if_pos hh]
  have hmem := (mem_results H verify target salt evs _).mpr ⟨r, hr, hacc⟩
  unfold clientGet
  rcases split_firstImmutable (results H verify target salt evs) with hall | ⟨pre, v, post, he, hp, hv⟩
  · have := hall _ hmem; cases this
  · exact ⟨v, by rw [he]; exact getFold_immutable pre post v hp hv, hv⟩

/-- For EVERY arrival order: permuting the sequence of query outcomes changes neither whether a
value is found, nor its kind, nor its sequence number. -/
theorem client_result_order_independent (H : Bytes → Target) (verify : Key → Bytes → Bytes → Bool)
    (target : Target) (salt : Bytes) (evs evs' : List Event) (hp : evs'.Perm evs) (hseq : Int64Seqs evs) :
    (clientGet H verify target salt evs').map (fun r => (r.isMutable, r.seq)) =
    (clientGet H verify target salt evs).map (fun r => (r.isMutable, r.seq)) := by
  have hseq' : Int64Seqs evs' := fun r q hr hq => hseq r q (hp.mem_iff.mp hr) hq
  have hperm : (results H verify target salt evs').Perm (results H verify target salt evs) :=
    List.Perm.filterMap _ hp
  have hr := results_inRange H verify target salt evs hseq
  have hr' := results_inRange H verify target salt evs' hseq'
  -- an immutable accepted result carries seq 0
  have himm : ∀ l : List Event, ∀ x ∈ results H verify target salt l, x.isMutable = false → x.seq = 0 := by
    intro l x hx hf
    obtain ⟨r, _, hacc⟩ := (mem_results H verify target salt l x).mp hx
    obtain ⟨_, _, hc⟩ := accept_some H verify target salt r x hacc
    rcases hc with ⟨_, h0, _⟩ | ⟨ht, _⟩
    · exact h0
    · rw [hf] at ht; cases ht
  unfold clientGet
  rcases getFold_cases _ hr with ⟨hnil, hn⟩ | ⟨pre, v, post, he, _, hv, hs⟩ | ⟨hne, hall, r, pre, post, hs, he, h1, h2⟩
  · have : results H verify target salt evs' = [] := by
      have := hperm.length_eq; rw [hnil] at this; exact List.eq_nil_of_length_eq_zero this
    rw [hn, this, getFold_nil]
  · have hvmem : v ∈ results H verify target salt evs' := hperm.mem_iff.mpr (by rw [he]; simp)
    rcases getFold_cases _ hr' with ⟨hnil', _⟩ | ⟨pre', v', post', he', _, hv', hs'⟩ | ⟨_, hall', _⟩
    · rw [hnil'] at hvmem; cases hvmem
    · have hv'mem : v' ∈ results H verify target salt evs' := by rw [he']; simp
      have hvm : v ∈ results H verify target salt evs := by rw [he]; simp
      rw [hs, hs']
      simp only [Option.map_some, hv, hv', himm evs' v' hv'mem hv', himm evs v hvm hv]
    · have := hall' v hvmem; rw [hv] at this; cases this
  · rcases getFold_cases _ hr' with ⟨hnil', _⟩ | ⟨pre', v', post', he', _, hv', _⟩ | ⟨_, hall', r', pre', post', hs', he', h1', h2'⟩
    · exfalso; apply hne
      have := hperm.length_eq; rw [hnil'] at this; exact List.eq_nil_of_length_eq_zero this.symm
    · have : v' ∈ results H verify target salt evs := hperm.mem_iff.mp (by rw [he']; simp)
      have := hall v' this; rw [hv'] at this; cases this
    · have hrm : r ∈ results H verify target salt evs := by rw [he]; simp
      have hr'm : r' ∈ results H verify target salt evs' := by rw [he']; simp
      have max : ∀ x ∈ results H verify target salt evs, x.seq ≤ r.seq := by
        intro x hx; rw [he] at hx
        rcases List.mem_append.mp hx with hx | hx
        · exact h1 x hx
        · rcases List.mem_cons.mp hx with rfl | hx
          · exact Int.le_refl _
          · exact Int.le_of_lt (h2 x hx)
      have max' : ∀ x ∈ results H verify target salt evs', x.seq ≤ r'.seq := by
        intro x hx; rw [he'] at hx
        rcases List.mem_append.mp hx with hx | hx
        · exact h1' x hx
        · rcases List.mem_cons.mp hx with rfl | hx
          · exact Int.le_refl _
          · exact Int.le_of_lt (h2' x hx)
      have a := max r' (hperm.mem_iff.mp hr'm)
      have b := max' r (hperm.mem_iff.mpr hrm)
      have hs1 : r'.seq = r.seq := by omega
      rw [hs, hs']
      simp only [Option.map_some, hall r hrm, hall' r' hr'm, hs1]

/-- Whatever arrival order the scheduler chose, the outcome of `Get` satisfies the decidable
order-free statement `getAllowed` on the multiset of accepted replies (the driver's check when
the arrival order could not be observed). -/
theorem client_any_order_allowed (rs rs' : List GetResult) (hp : rs'.Perm rs) (hr : SeqsInRange rs) :
    getAllowed rs (getFold rs') = true := by
  have hr' : SeqsInRange rs' := fun x hx hm => hr x (hp.mem_iff.mp hx) hm
  rcases getFold_cases rs' hr' with ⟨hnil, hn⟩ | ⟨pre, v, post, he, _, hv, hs⟩ | ⟨_, hall, r, pre, post, hs, he, h1, h2⟩
  · have : rs = [] := by
      have := hp.length_eq; rw [hnil] at this; exact List.eq_nil_of_length_eq_zero this.symm
    rw [hn, this]; rfl
  · have hvm : v ∈ rs := hp.mem_iff.mp (by rw [he]; simp)
    rw [hs]; simp [getAllowed, hvm, hv]
  · have hrm : r ∈ rs := hp.mem_iff.mp (by rw [he]; simp)
    rw [hs]
    have hmut : r.isMutable = true := hall r (by rw [he]; simp)
    simp only [getAllowed, List.contains_iff_mem.mpr hrm, hmut, if_true, Bool.true_and, List.all_eq_true,
      Bool.and_eq_true, decide_eq_true_eq]
    intro x hx
    have hx' : x ∈ rs' := hp.mem_iff.mpr hx
    refine ⟨hall x hx', ?_⟩
    rw [he] at hx'
    rcases List.mem_append.mp hx' with hx' | hx'
    · exact h1 x hx'
    · rcases List.mem_cons.mp hx' with rfl | hx'
      · exact Int.le_refl _
      · exact Int.le_of_lt (h2 x hx')

/-- Replies that are not accepted (forged value, wrong key, wrong salt, bad or missing
signature, missing `seq` / `k` / `v`, error replies, silence) have no influence: removing such
an outcome anywhere in the sequence changes neither what `Get` returns nor the sequence number
`Put` derives; hence removing all of them does not either. -/
theorem client_ignores_invalid (H : Bytes → Target) (verify : Key → Bytes → Bytes → Bool)
    (target : Target) (salt : Bytes) (pre post : List Event) (e : Event)
    (he : acceptEv H verify target salt e = none) :
    clientGet H verify target salt (pre ++ e :: post) = clientGet H verify target salt (pre ++ post) ∧
    putSeq H verify target salt (pre ++ e :: post) = putSeq H verify target salt (pre ++ post) := by
  have : results H verify target salt (pre ++ e :: post) = results H verify target salt (pre ++ post) := by
    rw [results_append, results_append]
    congr 1
    unfold results
    rw [List.filterMap_cons, he]
  unfold clientGet putSeq
  rw [this]; exact ⟨rfl, rfl⟩

theorem client_ignores_all_invalid (H : Bytes → Target) (verify : Key → Bytes → Bytes → Bool)
    (target : Target) (salt : Bytes) (evs : List Event) :
    clientGet H verify target salt (evs.filter (fun e => (acceptEv H verify target salt e).isSome)) =
      clientGet H verify target salt evs ∧
    putSeq H verify target salt (evs.filter (fun e => (acceptEv H verify target salt e).isSome)) =
      putSeq H verify target salt evs := by
  have : results H verify target salt (evs.filter (fun e => (acceptEv H verify target salt e).isSome)) =
      results H verify target salt evs := by
    unfold results
    induction evs with
    | nil => rfl
    | cons e rest ih =>
      cases hacc : acceptEv H verify target salt e with
      | none => simp [hacc, ih]
      | some x => simp [hacc, ih]
  unfold clientGet putSeq
  rw [this]; exact ⟨rfl, rfl⟩

/-- `Put`: the number handed to the `seqToPut` callback is the largest sequence number among
the accepted MUTABLE replies and 0 — for all reply sequences; in particular it is at least
every accepted mutable sequence number, and it is 0 or one of them. -/
theorem put_autoseq_is_max (H : Bytes → Target) (verify : Key → Bytes → Bytes → Bool)
    (target : Target) (salt : Bytes) (evs : List Event) :
    0 ≤ putSeq H verify target salt evs ∧
    (∀ x ∈ results H verify target salt evs, x.isMutable = true → x.seq ≤ putSeq H verify target salt evs) ∧
    (putSeq H verify target salt evs = 0 ∨
      ∃ r, some r ∈ evs ∧ r.seq = some (putSeq H verify target salt evs) ∧ H (r.k ++ salt) = target ∧
        verify r.k (bufferToSign salt (putSeq H verify target salt evs) r.bv) r.sig = true) := by
  unfold putSeq
  rw [putAutoSeq_eq]
  refine ⟨pickSeq_ge _ 0, pickSeq_max _ 0, ?_⟩
  rcases pickSeq_mem (results H verify target salt evs) 0 with h | ⟨x, hx, hm, hs⟩
  · exact Or.inl h
  · right
    obtain ⟨r, hr, hacc⟩ := (mem_results H verify target salt evs x).mp hx
    obtain ⟨_, _, hc⟩ := accept_some H verify target salt r x hacc
    rcases hc with ⟨hf, _⟩ | ⟨_, hq, _, hk, hver⟩
    · rw [hm] at hf; cases hf
    · rw [← hs]; exact ⟨r, hr, hq, hk, hver⟩

/-- … for every arrival order. -/
theorem put_autoseq_order_independent (H : Bytes → Target) (verify : Key → Bytes → Bytes → Bool)
    (target : Target) (salt : Bytes) (evs evs' : List Event) (hp : evs'.Perm evs) :
    putSeq H verify target salt evs' = putSeq H verify target salt evs := by
  have hperm : (results H verify target salt evs').Perm (results H verify target salt evs) :=
    List.Perm.filterMap _ hp
  unfold putSeq
  rw [putAutoSeq_eq, putAutoSeq_eq]
  have key : ∀ a b : List GetResult, a.Perm b → a.foldl pickSeq 0 ≤ b.foldl pickSeq 0 := by
    intro a b hab
    rcases pickSeq_mem a 0 with h | ⟨x, hx, hm, hs⟩
    · rw [h]; exact pickSeq_ge b 0
    · rw [← hs]; exact pickSeq_max b 0 x (hab.mem_iff.mp hx) hm
  exact Int.le_antisymm (key _ _ hperm) (key _ _ hperm.symm)

/-- `Put` reads the token it sends to a node back from the closest set, where the closure of the
get traversal left it: it is the token of that node's OWN reply. With the filter as written in
the code (`tokenFilterEffective = false`) a responder without token is kept too, with the empty
token; with the repaired filter it is not offered at all. -/
theorem put_token_is_nodes_own (effective : Bool) (e : Event) (tok : Bytes)
    (h : closestEntryWith effective e = some tok) :
    ∃ r, e = some r ∧ (r.token = some tok ∨ (r.token = none ∧ tok = [] ∧ effective = false)) := by
  cases e with
  | none => simp [closestEntryWith] at h
  | some r =>
    refine ⟨r, rfl, ?_⟩
    cases ht : r.token with
    | some t => simp [closestEntryWith, ht] at h; left; rw [h]
    | none =>
      cases effective with
      | true => simp [closestEntryWith, ht] at h
      | false => simp [closestEntryWith, ht] at h; right; exact ⟨rfl, h, rfl⟩

/-! ## Non-vacuity

Idealised signatures ("verifies iff it is key ‖ message"), `H` = identity; target = key ‖ salt
of the key `[7]` with salt `[1]`. -/

section NonVacuity

private def Hid : Bytes → Target := fun b => b
private def vfy : Key → Bytes → Bytes → Bool := fun k m sg => sg == k ++ m
private def tgt : Target := [7, 1]
private def slt : Bytes := [1]
private def signed (k : Key) (seq : Int) (v : Bytes) : GetReply :=
  ⟨some v, k, k ++ bufferToSign slt seq v, some seq, some [116]⟩

/-- genuine seq 4, genuine seq 6, a forgery claiming seq 9 (signature made for seq 6), the key's
item without `seq`, another key's genuine item, an error reply, genuine seq 6 with another
value: the caller gets seq 6, and — the tie — the value that arrived later. -/
example :
    clientGet Hid vfy tgt slt
      [some (signed [7] 4 [105, 49, 101]),
       some (signed [7] 6 [105, 50, 101]),
       some { signed [7] 6 [105, 50, 101] with seq := some 9 },
       some { signed [7] 8 [105, 51, 101] with seq := none },
       some (signed [8] 99 [105, 52, 101]),
       none,
       some (signed [7] 6 [105, 53, 101])]
    = some ⟨6, some [105, 53, 101], [7] ++ bufferToSign slt 6 [105, 53, 101], true⟩ := by decide

/-- Only invalid replies: "value not found". -/
example :
    clientGet Hid vfy tgt slt
      [some { signed [7] 6 [105, 50, 101] with seq := some 9 }, none,
       some { signed [7] 6 [105, 50, 101] with v := some [105, 57, 101] },
       some { signed [7] 6 [105, 50, 101] with sig := [0] }] = none := by decide

/-- Immutable target `H v = v`: the value that hashes to it is returned at once, a different
value is not. -/
example :
    clientGet Hid vfy [105, 49, 101] []
      [some ⟨some [105, 50, 101], [], [], none, none⟩, some ⟨some [105, 49, 101], [], [], none, none⟩,
       some ⟨some [105, 49, 101], [], [9], none, none⟩]
    = some ⟨0, some [105, 49, 101], [], false⟩ := by decide

/-- A sequence number of `math.MinInt64` itself is still returned. -/
example :
    (clientGet Hid vfy tgt slt [some (signed [7] minInt64 [105, 49, 101])]).map (·.seq) = some minInt64 := by decide

/-- `Put` starts from 0: negative sequence numbers do not lower it, the forgery does not raise it. -/
example :
    putSeq Hid vfy tgt slt
      [some (signed [7] (-3) [105, 49, 101]), some (signed [7] 6 [105, 50, 101]),
       some { signed [7] 6 [105, 50, 101] with seq := some 9 }, some (signed [7] 2 [105, 49, 101])] = 6 ∧
    putSeq Hid vfy tgt slt [some (signed [7] (-3) [105, 49, 101])] = 0 := by decide

end NonVacuity

end Dht.C12Client
