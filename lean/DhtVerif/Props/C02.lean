/-
C02 — a finished lookup holds the K closest nodes that answered.
-/
import DhtVerif.Model.Traversal
import DhtVerif.Props.C18
import DhtVerif.Lemmas.C02
namespace Dht

/-- The responders offered to the closest set so far: for every `addClosest`
event that was applied, the responder (with the queried address and the data it
supplied), provided it passed both filters. In history order. -/
def offered (c : TravCfg) : Trav → List TravEv → List KElem
  | _, [] => []
  | s, e :: es =>
    match s.step c e with
    | none => []
    | some s' =>
      let here : List KElem := match e with
        | .addClosest a =>
          match phaseOf s.inflight a with
          | some (.returned r) =>
            match r.responder with
            | some id => if c.nodeFilter ⟨some id, a⟩ && c.dataFilter r.data then [⟨id, a, r.data⟩] else []
            | none => []
          | _ => []
        | _ => []
      here ++ offered c s' es

theorem offered_cons (c : TravCfg) (s : Trav) (e : TravEv) (es : List TravEv) :
    offered c s (e :: es) =
      match s.step c e with
      | none => []
      | some s' => offeredAt c s e ++ offered c s' es := by
  cases e <;> rfl

/-- Generalisation over the start state: the closest set is a K-nearest container
reached by pushing exactly the offered responders. -/
theorem C02.reach_gen (c : TravCfg) (evs : List TravEv) (s0 s : Trav) (hist : List KElem)
    (hr : KNN.Reach c.target c.k hist s0.closest) (h : Trav.exec c s0 evs = some s) :
    KNN.Reach c.target c.k (hist ++ offered c s0 evs) s.closest := by
  induction evs generalizing s0 hist with
  | nil =>
    simp only [Trav.exec, Option.some.injEq] at h
    subst h
    simpa [offered] using hr
  | cons e es ih =>
    obtain ⟨s1, h1, h2⟩ := (Trav.exec_cons c s0 e es s).mp h
    have := ih s1 (hist ++ offeredAt c s0 e) (Trav.step_reach e hr h1) h2
    rw [offered_cons, h1]
    simpa [List.append_assoc] using this

theorem C02.reach (c : TravCfg) (evs : List TravEv) (s : Trav)
    (h : Trav.exec c {} evs = some s) :
    KNN.Reach c.target c.k (offered c {} evs) s.closest := by
  have := C02.reach_gen c evs {} s [] KNN.Reach.init h
  simpa using this

/-- Everything offered passed both filters. -/
theorem offered_ok (c : TravCfg) (evs : List TravEv) (s0 : Trav) :
    ∀ m ∈ offered c s0 evs, c.nodeFilter ⟨some m.id, m.addr⟩ = true ∧ c.dataFilter m.data = true := by
  induction evs generalizing s0 with
  | nil => intro m hm; simp [offered] at hm
  | cons e es ih =>
    intro m hm
    rw [offered_cons] at hm
    cases h1 : s0.step c e with
    | none => simp [h1] at hm
    | some s1 =>
      simp only [h1, List.mem_append] at hm
      rcases hm with hm | hm
      · exact offeredAt_ok c s0 e m hm
      · exact ih s1 m hm

/-- At most K contacts, in distance order, no key twice. -/
theorem C02.closest_le_K (c : TravCfg) (evs : List TravEv) (s : Trav)
    (h : Trav.exec c {} evs = some s) :
    s.closest.length ≤ c.k ∧ KNN.sortedBy c.target s.closest = true ∧ KNN.nodupKeys s.closest = true := by
  have hinv := C18.knn_invariant _ _ _ _ (C02.reach c evs s h)
  refine ⟨?_, (KNN.sortedBy_iff _ _).mpr hinv.sorted, (KNN.nodupKeys_iff _).mpr hinv.nodupS⟩
  rw [hinv.len]; exact Nat.min_le_left _ _

/-- Every member answered a query of this lookup and passed the node and data filters. -/
theorem C02.members_responded_and_pass_filters (c : TravCfg) (evs : List TravEv) (s : Trav)
    (h : Trav.exec c {} evs = some s) :
    ∀ m ∈ s.closest, m ∈ offered c {} evs ∧ c.nodeFilter ⟨some m.id, m.addr⟩ = true ∧ c.dataFilter m.data = true := by
  intro m hm
  have hinv := C18.knn_invariant _ _ _ _ (C02.reach c evs s h)
  have hmo : m ∈ offered c {} evs := KNN.mem_latest_imp _ m (hinv.sub m hm)
  exact ⟨hmo, offered_ok c evs {} m hmo⟩

/-- The closest set is exactly the K nearest of the responders that passed the
filters (each with its latest data): its size is `min K (#distinct responders)`
and no responder outside it is strictly closer to the target than a member. -/
theorem C02.closest_is_k_nearest_of_responders (c : TravCfg) (evs : List TravEv) (s : Trav)
    (h : Trav.exec c {} evs = some s) :
    s.closest.length = min c.k (KNN.latest (offered c {} evs)).length ∧
    (∀ m ∈ s.closest, m ∈ KNN.latest (offered c {} evs)) ∧
    (∀ p ∈ KNN.latest (offered c {} evs), p ∉ s.closest → ∀ m ∈ s.closest, m.dist c.target ≤ p.dist c.target) := by
  have := C18.knn_retains_k_nearest _ _ _ _ (C02.reach c evs s h)
  exact ⟨this.1, this.2.2.1, this.2.2.2⟩

/-! ## Non-vacuity: the concrete lookup `TravEx` of Lemmas/C04 -/

/-- Three responders are offered (distances 3, 5, 1), K = 2: the closest set ends up as the two
nearest, in distance order; the responder at distance 5 was pushed out. -/
example : (Trav.exec TravEx.cfg {} TravEx.evs).map (·.closest) =
    some [⟨TravEx.nid 1, TravEx.addr 4, some [2]⟩, ⟨TravEx.nid 3, TravEx.addr 1, some [1]⟩] := by
  decide +kernel

example : offered TravEx.cfg {} TravEx.evs =
    [⟨TravEx.nid 3, TravEx.addr 1, some [1]⟩, ⟨TravEx.nid 5, TravEx.addr 2, none⟩,
     ⟨TravEx.nid 1, TravEx.addr 4, some [2]⟩] := by
  decide +kernel

/-- T1: the closest set is a persistent structure that is read, pushed into and stored back in ONE critical
section of the operation's lock: `addClosest` is called from the query goroutine between `op.mu.Lock()`
and the deferred unlock, its `Push` is immediately followed by the store, and it neither releases nor
re-takes the lock in between. (Built outside the lock, two replies folded in concurrently lose one
responder: the model's `queryReturn` step is atomic for this reason.) -/
def idxC (l : List String) (x : String) : Nat := l.findIdx (· == x)

theorem C02.closest_set_updated_under_lock :
    Gen.evStartQuery.getD (idxC Gen.evStartQuery "op.addClosest" - 5) "" = "op.mu.Lock" ∧
    Gen.evStartQuery.getD (idxC Gen.evStartQuery "op.addClosest" - 4) "" = "defer" ∧
    Gen.evStartQuery.getD (idxC Gen.evStartQuery "op.addClosest" - 3) "" = "op.mu.Unlock" ∧
    Gen.evStartQuery.getD (idxC Gen.evStartQuery "op.addClosest" + 1) "" = "}" ∧
    Gen.evAddClosest.getD (idxC Gen.evAddClosest "op.closest.Push" + 1) "" = "set:op.closest" ∧
    Gen.evAddClosest.contains "op.mu.Lock" = false ∧ Gen.evAddClosest.contains "op.mu.Unlock" = false := by
  decide +kernel

end Dht
