/-
C03 — lookups terminate, and only when nothing closer is left to ask.
-/
import DhtVerif.Model.Traversal
import DhtVerif.Props.C18
import DhtVerif.Lemmas.C03
namespace Dht

def idxAt (l : List String) (x : String) : Nat := l.findIdx (· == x)

/-- T1: the run loop takes the wake-up channel and only then unlocks and sleeps
(`cond.Signaled()` immediately followed by `mu.Unlock()` and the `select`); so
does the stop waiter; every query completion decrements and broadcasts under
the lock; `addNodeLocked` broadcasts after inserting. -/
theorem C03.source_order :
    Gen.evRun.getD (idxAt Gen.evRun "op.cond.Signaled" + 1) "" = "op.mu.Unlock" ∧
    Gen.evRun.getD (idxAt Gen.evRun "op.cond.Signaled" + 2) "" = "select{" ∧
    idxAt Gen.evRun "op.startQuery" < idxAt Gen.evRun "op.cond.Signaled" ∧
    idxAt Gen.evRun "op.stalled.Signal" < Gen.evRun.length ∧
    Gen.evStop.getD (idxAt Gen.evStop "op.cond.Signaled" + 1) "" = "op.mu.Unlock" ∧
    Gen.evStop.getD (idxAt Gen.evStop "op.cond.Signaled" + 2) "" = "recv:cond" ∧
    idxAt Gen.evStop "if:op.outstanding == 0" < idxAt Gen.evStop "op.cond.Signaled" ∧
    Gen.evStartQuery.getD (idxAt Gen.evStartQuery "op.outstanding--" + 1) "" = "op.cond.Broadcast" ∧
    idxAt Gen.evStartQuery "op.mu.Lock" < idxAt Gen.evStartQuery "op.outstanding--" ∧
    idxAt Gen.evAddNodeLocked "op.unqueried.Add" < idxAt Gen.evAddNodeLocked "op.cond.Broadcast" ∧
    idxAt Gen.evAddNodeLocked "op.cond.Broadcast" < Gen.evAddNodeLocked.length := by
  decide +kernel

/-- A query is "mid-completion" between its `addClosest` and its deferred finish:
the only window in which the closest set may have changed without a broadcast. -/
def midCompletion (s : Trav) : Bool :=
  s.inflight.any (fun e => match e.2 with
    | .closestDone _ => true | .nodesDone _ => true | .nodes6Done => true | _ => false)

/-- What the run loop would compute if it evaluated now. -/
def currentOffer (c : TravCfg) (s : Trav) : Bool := (!s.haveQuery c || c.alpha == 0) && s.outstanding == 0

/-- No lost wake-up: whenever the run loop sleeps on a generation that is still
current, and no query is mid-completion, its view is current: the stalled offer
it holds is the one it would compute now, and it has not left a startable query
unstarted. -/
theorem C03.no_lost_wakeup (c : TravCfg) (hsig : c.sigBeforeUnlock = true) (evs : List TravEv) (s : Trav)
    (h : Trav.exec c {} evs = some s) (g : Nat) (offer : Bool)
    (hrun : s.run = .sleeping g offer) (hgen : s.gen = g) (hstop : s.stopping = false)
    (hmid : midCompletion s = false) :
    offer = currentOffer c s ∧ (s.outstanding < c.alpha → s.haveQuery c = false) := by
  sorry

/-- Hence no hang: when nothing is in flight and the run loop cannot be woken,
the stalled signal is on offer. -/
theorem C03.quiescent_offers_stalled (c : TravCfg) (hsig : c.sigBeforeUnlock = true) (halpha : c.alpha > 0)
    (evs : List TravEv) (s : Trav)
    (h : Trav.exec c {} evs = some s) (g : Nat) (offer : Bool)
    (hrun : s.run = .sleeping g offer) (hgen : s.gen = g) (hstop : s.stopping = false)
    (hidle : s.inflight = []) : offer = true := by
  sorry

/-- The run loop is never stuck awake: in every reachable state in which it is
not sleeping or exited, `runEval` is enabled. And a sleeping loop whose generation
is stale can be woken. -/
theorem C03.run_loop_progress (c : TravCfg) (evs : List TravEv) (s : Trav)
    (h : Trav.exec c {} evs = some s) :
    (s.run = .awake → (s.step c .runEval).isSome = true) ∧
    (∀ g o, s.run = .sleeping g o → s.gen > g → (s.step c (.runWake .broadcast)).isSome = true) := by
  sorry

/-- Counterexample kept proved: if the channel were taken after the unlock, a
wake-up can be lost — a reachable state with nothing in flight, the run loop asleep
on the current generation, a startable candidate in the frontier and no stalled offer. -/
theorem C03.lost_wakeup_if_signaled_after_unlock :
    ∃ (c : TravCfg) (evs : List TravEv) (s : Trav) (g : Nat),
      c.sigBeforeUnlock = false ∧ c.alpha > 0 ∧ Trav.exec c {} evs = some s ∧
      s.run = .sleeping g false ∧ s.gen = g ∧ s.inflight = [] ∧ s.stopping = false ∧ s.haveQuery c = true := by
  sorry

/-- Termination: every query consumes a distinct address out of those ever
reported (seeds, late AddNodes, reply node lists), so the number of queries in
any execution is bounded by the number of distinct reported addresses. -/
def reported : List TravEv → List Addr
  | [] => []
  | .addNodes ns :: es => ns.map (·.addr.strKey) ++ reported es
  | .queryReturn _ r :: es => (r.nodes ++ r.nodes6).map (·.addr.strKey) ++ reported es
  | _ :: es => reported es

theorem C03.queries_bounded (c : TravCfg) (evs : List TravEv) (s : Trav)
    (h : Trav.exec c {} evs = some s) :
    (s.started.map Addr.strKey).Nodup ∧ (∀ a ∈ s.started, a.strKey ∈ reported evs) ∧
    s.started.length ≤ (reported evs).eraseDups.length := by
  sorry

/-- At the moment stalled is on offer (view current), no query is in flight and
every candidate left in the frontier is, with the result set full, either of
unknown ID or strictly farther from the target than the farthest member; with
the result set not full the frontier is empty. -/
theorem C03.stalled_means_exhausted (c : TravCfg) (hsig : c.sigBeforeUnlock = true) (halpha : c.alpha > 0)
    (ht : c.target.length = 20)
    (evs : List TravEv) (s : Trav) (h : Trav.exec c {} evs = some s)
    (hids : ∀ n ∈ s.unq, n.ok) (g : Nat)
    (hrun : s.run = .sleeping g true) (hgen : s.gen = g) (hstop : s.stopping = false)
    (hmid : midCompletion s = false) :
    s.outstanding = 0 ∧
    (KNN.full c.k s.closest = false → s.unq = []) ∧
    (KNN.full c.k s.closest = true → ∀ far, KNN.farthest s.closest = some far → ∀ n ∈ s.unq,
      n.id = none ∨ ∃ i, n.id = some i ∧ Id.cmp (Id.distance i c.target) (Id.distance far.id c.target) = .gt) := by
  sorry

/-- Stopping completes once the in-flight queries have returned: the waiter's
view of `outstanding` is current whenever it sleeps on the current generation,
and with nothing outstanding its next step signals stopped. -/
theorem C03.stop_completes (c : TravCfg) (evs : List TravEv) (s : Trav)
    (h : Trav.exec c {} evs = some s) :
    (∀ g, s.stopper = .sleeping g → s.gen = g → s.outstanding ≠ 0) ∧
    (s.stopper = .awake → s.outstanding = 0 → ∃ s', s.step c .stopperStep = some s' ∧ s'.isStopped = true) ∧
    (s.stopper ≠ .none ↔ s.stopping = true) := by
  sorry

end Dht
