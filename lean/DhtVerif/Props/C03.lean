/-
C03 — lookups terminate, and only when nothing closer is left to ask.
-/
import DhtVerif.Model.Traversal
import DhtVerif.Props.C18
import DhtVerif.Lemmas.C03
import DhtVerif.Lemmas.C03Inv
import DhtVerif.Lemmas.C03Wake
import DhtVerif.Lemmas.C03Rep
import DhtVerif.Props.STHaveQuery
namespace Dht

def idxAt (l : List String) (x : String) : Nat := l.findIdx (· == x)

/-- T1: the run loop takes the wake-up channel and only then unlocks and sleeps
(`cond.Signaled()` immediately followed by `mu.Unlock()` and the `select`); so
does the stop waiter; every query completion decrements and broadcasts under
the lock; `addNodeLocked` broadcasts after inserting. -/
theorem C03.source_order :
    Gen.evRun.getD (idxAt Gen.evRun "op.cond.Signaled" + 1) "" = "op.mu.Unlock" ∧
    Gen.evRun.getD (idxAt Gen.evRun "op.cond.Signaled" + 2) "" = "select{" ∧
    idxAt Gen.evRun "op.startQuery" < idxAt Gen.evRun "op.cond.Signaled" ∧
    idxAt Gen.evRun "op.stalled.Signal" < Gen.evRun.length ∧
    Gen.evStop.getD (idxAt Gen.evStop "op.cond.Signaled" + 1) "" = "op.mu.Unlock" ∧
    Gen.evStop.getD (idxAt Gen.evStop "op.cond.Signaled" + 2) "" = "recv:cond" ∧
    idxAt Gen.evStop "if:op.outstanding == 0" < idxAt Gen.evStop "op.cond.Signaled" ∧
    Gen.evStartQuery.getD (idxAt Gen.evStartQuery "op.outstanding--" + 1) "" = "op.cond.Broadcast" ∧
    idxAt Gen.evStartQuery "op.mu.Lock" < idxAt Gen.evStartQuery "op.outstanding--" ∧
    idxAt Gen.evAddNodeLocked "op.unqueried.Add" < idxAt Gen.evAddNodeLocked "op.cond.Broadcast" ∧
    idxAt Gen.evAddNodeLocked "op.cond.Broadcast" < Gen.evAddNodeLocked.length := by
  decide +kernel

/-- A query is "mid-completion" between its `addClosest` and its deferred finish:
the only window in which the closest set may have changed without a broadcast. -/
def midCompletion (s : Trav) : Bool :=
  s.inflight.any (fun e => match e.2 with
    | .closestDone _ => true | .nodesDone _ => true | .nodes6Done => true | _ => false)

/-- What the run loop would compute if it evaluated now. -/
def currentOffer (c : TravCfg) (s : Trav) : Bool := (!s.haveQuery c || c.alpha == 0) && s.outstanding == 0

theorem midCompletion_eq (s : Trav) : midCompletion s = s.mid := by
  unfold midCompletion Trav.mid
  congr 1

theorem currentOffer_eq (c : TravCfg) (s : Trav) : currentOffer c s = s.curOffer c := rfl

/-- No lost wake-up: whenever the run loop sleeps on a generation that is still
current, and no query is mid-completion, its view is current: the stalled offer
it holds is the one it would compute now, and it has not left a startable query
unstarted. -/
theorem C03.no_lost_wakeup (c : TravCfg) (hsig : c.sigBeforeUnlock = true) (evs : List TravEv) (s : Trav)
    (h : Trav.exec c {} evs = some s) (g : Nat) (offer : Bool)
    (hrun : s.run = .sleeping g offer) (hgen : s.gen = g) (hstop : s.stopping = false)
    (hmid : midCompletion s = false) :
    offer = currentOffer c s ∧ (s.outstanding < c.alpha → s.haveQuery c = false) := by
  rw [currentOffer_eq]
  exact (Trav.Wake.exec hsig h).cur g offer hrun hgen hstop (by rw [← midCompletion_eq]; exact hmid)

/-- Hence no hang: when nothing is in flight and the run loop cannot be woken,
the stalled signal is on offer. -/
theorem C03.quiescent_offers_stalled (c : TravCfg) (hsig : c.sigBeforeUnlock = true) (halpha : c.alpha > 0)
    (evs : List TravEv) (s : Trav)
    (h : Trav.exec c {} evs = some s) (g : Nat) (offer : Bool)
    (hrun : s.run = .sleeping g offer) (hgen : s.gen = g) (hstop : s.stopping = false)
    (hidle : s.inflight = []) : offer = true := by
  have hc := Trav.Core.exec h
  have hout : s.outstanding = 0 := by rw [hc.outEq, hidle]; rfl
  have hmid : midCompletion s = false := by unfold midCompletion; rw [hidle]; rfl
  obtain ⟨ho, hq⟩ := C03.no_lost_wakeup c hsig evs s h g offer hrun hgen hstop hmid
  rw [ho]
  unfold currentOffer
  rw [hq (by omega), hout]
  rfl

set_option linter.unusedVariables false in
/-- The run loop is never stuck awake: in every reachable state in which it is
not sleeping or exited, `runEval` is enabled. And a sleeping loop whose generation
is stale can be woken. -/
theorem C03.run_loop_progress (c : TravCfg) (evs : List TravEv) (s : Trav)
    (h : Trav.exec c {} evs = some s) :
    (s.run = .awake → (s.step c .runEval).isSome = true) ∧
    (∀ g o, s.run = .sleeping g o → s.gen > g → (s.step c (.runWake .broadcast)).isSome = true) := by
  constructor
  · intro hr
    simp [Trav.step, hr]
  · intro g o hr hg
    simp [Trav.step, Trav.runWake, hr, hg]

namespace C03.Witness
def tgt : Id := List.replicate 20 0
def a1 : Addr := ⟨1, [1,2,3,4], 1⟩
def a2 : Addr := ⟨1, [1,2,3,5], 2⟩
def n1 : Cand := ⟨some (List.replicate 20 1), a1⟩
def n2 : Cand := ⟨some (List.replicate 20 2), a2⟩
/-- The hypothetical code that takes the wake-up channel after the unlock. -/
def cfgBad : TravCfg := { target := tgt, alpha := 1, sigBeforeUnlock := false }
/-- n1 is queried; the loop evaluates (one query in flight: no stalled offer) and unlocks; the
query completes, reporting n2, and broadcasts; only then does the loop take the channel. -/
def evsBad : List TravEv :=
  [.addNodes [n1], .runEval,
   .queryReturn a1 { responder := some (List.replicate 20 1), nodes := [n2] },
   .addClosest a1, .addReplyNodes a1, .addReplyNodes6 a1, .finish a1, .captureGen]
def sBad : Trav :=
  { unq := [n2], queried := [a1], closest := [⟨List.replicate 20 1, a1, none⟩], outstanding := 0,
    inflight := [], gen := 3, run := .sleeping 3 false, stopping := false, stopper := .none,
    stalledSeen := 0, started := [a1] }
end C03.Witness

/-- Counterexample kept proved: if the channel were taken after the unlock, a
wake-up can be lost — a reachable state with nothing in flight, the run loop asleep
on the current generation, a startable candidate in the frontier and no stalled offer. -/
theorem C03.lost_wakeup_if_signaled_after_unlock :
    ∃ (c : TravCfg) (evs : List TravEv) (s : Trav) (g : Nat),
      c.sigBeforeUnlock = false ∧ c.alpha > 0 ∧ Trav.exec c {} evs = some s ∧
      s.run = .sleeping g false ∧ s.gen = g ∧ s.inflight = [] ∧ s.stopping = false ∧ s.haveQuery c = true := by
  refine ⟨C03.Witness.cfgBad, C03.Witness.evsBad, C03.Witness.sBad, 3, rfl, by decide, ?_, rfl, rfl, rfl, rfl, ?_⟩
  · rfl
  · decide +kernel

/-- Termination: every query consumes a distinct address out of those ever
reported (seeds, late AddNodes, reply node lists), so the number of queries in
any execution is bounded by the number of distinct reported addresses. -/
def reported : List TravEv → List Addr
  | [] => []
  | .addNodes ns :: es => ns.map (·.addr.strKey) ++ reported es
  | .queryReturn _ r :: es => (r.nodes ++ r.nodes6).map (·.addr.strKey) ++ reported es
  | _ :: es => reported es

theorem reported_eq (evs : List TravEv) : reported evs = evs.flatMap repOf := by
  induction evs with
  | nil => rfl
  | cons e es ih => cases e <;> simp [reported, repOf, ih]

theorem C03.queries_bounded (c : TravCfg) (evs : List TravEv) (s : Trav)
    (h : Trav.exec c {} evs = some s) :
    (s.started.map Addr.strKey).Nodup ∧ (∀ a ∈ s.started, a.strKey ∈ reported evs) ∧
    s.started.length ≤ (reported evs).eraseDups.length := by
  have hc := Trav.Core.exec h
  have hr := Trav.Rep.exec evs [] {} s Trav.Rep.init h
  rw [List.nil_append, ← reported_eq] at hr
  have hnd : (s.started.map Addr.strKey).Nodup := by rw [hc.queriedEq]; exact hc.nodup
  have hsub : ∀ k ∈ s.started.map Addr.strKey, k ∈ reported evs := by
    rw [hc.queriedEq]; exact hr.queried
  refine ⟨hnd, fun a ha => hsub _ (List.mem_map_of_mem ha), ?_⟩
  have := nodup_length_le_of_subset (s.started.map Addr.strKey) (reported evs).eraseDups hnd
    (fun x hx => List.mem_eraseDups.mpr (hsub x hx))
  simpa using this

set_option linter.unusedVariables false in
/-- At the moment stalled is on offer (view current), no query is in flight and
every candidate left in the frontier is, with the result set full, either of
unknown ID or strictly farther from the target than the farthest member; with
the result set not full the frontier is empty. -/
theorem C03.stalled_means_exhausted (c : TravCfg) (hsig : c.sigBeforeUnlock = true) (halpha : c.alpha > 0)
    (ht : c.target.length = 20)
    (evs : List TravEv) (s : Trav) (h : Trav.exec c {} evs = some s)
    (hids : ∀ n ∈ s.unq, n.ok) (g : Nat)
    (hrun : s.run = .sleeping g true) (hgen : s.gen = g) (hstop : s.stopping = false)
    (hmid : midCompletion s = false) :
    s.outstanding = 0 ∧
    (KNN.full c.k s.closest = false → s.unq = []) ∧
    (KNN.full c.k s.closest = true → ∀ far, KNN.farthest s.closest = some far → ∀ n ∈ s.unq,
      n.id = none ∨ ∃ i, n.id = some i ∧ Id.cmp (Id.distance i c.target) (Id.distance far.id c.target) = .gt) := by
  have hc := Trav.Core.exec h
  obtain ⟨hoff, hq⟩ := C03.no_lost_wakeup c hsig evs s h g true hrun hgen hstop hmid
  have hoff' : ((!s.haveQuery c || c.alpha == 0) && s.outstanding == 0) = true := hoff.symm
  simp only [Bool.and_eq_true, Bool.or_eq_true, Bool.not_eq_true', beq_iff_eq] at hoff'
  obtain ⟨h1, hout⟩ := hoff'
  have hhq : s.haveQuery c = false := by
    rcases h1 with h1 | h1
    · exact h1
    · omega
  refine ⟨hout, ?_⟩
  have hsorted := hc.sorted
  unfold Trav.haveQuery at hhq
  cases hu : s.unq with
  | nil => simp
  | cons cu rest =>
    rw [hu] at hhq hsorted
    simp only at hhq
    have hhead := (List.pairwise_cons.mp hsorted).1
    constructor
    · intro hfull
      rw [hfull] at hhq
      simp at hhq
    · intro hfull far hfar n hn
      rw [hfull, hfar] at hhq
      simp only [Bool.not_true, Bool.false_eq_true, if_false] at hhq
      cases hid : cu.id with
      | none =>
        left
        rcases List.mem_cons.mp hn with rfl | hn'
        · exact hid
        · have := hhead n hn'
          cases hnid : n.id with
          | none => rfl
          | some j => rw [closerThan_none_some c.target _ _ j hid hnid] at this; cases this
      | some i =>
        rw [hid] at hhq
        simp only [bne_eq_false_iff_eq] at hhq
        have hlt : Id.cmp (Id.distance far.id c.target) (Id.distance i c.target) = .lt :=
          (Id.cmp_gt_iff _ _).mp hhq
        rcases List.mem_cons.mp hn with rfl | hn'
        · right; exact ⟨i, hid, hhq⟩
        · cases hnid : n.id with
          | none => left; rfl
          | some j =>
            right
            refine ⟨j, rfl, (Id.cmp_gt_iff _ _).mpr ?_⟩
            have := (closerThan_some_some c.target cu n i j hid hnid).mp (hhead n hn')
            rcases this with h2 | ⟨h2, _⟩
            · exact Id.cmp_lt_trans _ _ _ hlt h2
            · rw [← h2]; exact hlt

/-- Stopping completes once the in-flight queries have returned: the waiter's
view of `outstanding` is current whenever it sleeps on the current generation,
and with nothing outstanding its next step signals stopped. -/
theorem C03.stop_completes (c : TravCfg) (evs : List TravEv) (s : Trav)
    (h : Trav.exec c {} evs = some s) :
    (∀ g, s.stopper = .sleeping g → s.gen = g → s.outstanding ≠ 0) ∧
    (s.stopper = .awake → s.outstanding = 0 → ∃ s', s.step c .stopperStep = some s' ∧ s'.isStopped = true) ∧
    (s.stopper ≠ .none ↔ s.stopping = true) := by
  have hc := Trav.Core.exec h
  refine ⟨hc.stopOut, ?_, hc.stopIff⟩
  intro hst hout
  refine ⟨{ s with stopper := .done }, ?_, rfl⟩
  simp [Trav.step, hst, hout]

/-! ## Further facts (the structural invariant behind the theorems above) -/

/-- `outstanding` counts exactly the query goroutines in flight, their addresses are
pairwise different, and the frontier is always ordered by `closerThan` (for any
candidate IDs, well-formed or not). -/
theorem C03.structure (c : TravCfg) (evs : List TravEv) (s : Trav) (h : Trav.exec c {} evs = some s) :
    s.outstanding = s.inflight.length ∧ (s.inflight.map (·.1)).Nodup ∧
    s.started.map Addr.strKey = s.queried ∧
    s.unq.Pairwise (fun a b => closerThan c.target a b = true) ∧
    (∀ g o, s.run = .sleeping g o → g ≤ s.gen) := by
  have hc := Trav.Core.exec h
  exact ⟨hc.outEq, hc.inflight_nodup, hc.queriedEq, hc.sorted, hc.runGen⟩

/-- With the source's order (channel taken before the unlock) the intermediate
`evaluated` phase does not occur. -/
theorem C03.never_evaluated (c : TravCfg) (hsig : c.sigBeforeUnlock = true) (evs : List TravEv) (s : Trav)
    (h : Trav.exec c {} evs = some s) (o : Bool) : s.run ≠ .evaluated o :=
  (Trav.Wake.exec hsig h).noEval o

/-! ## Non-vacuity -/

namespace C03.Witness
/-- The source's order, `alpha = 1`. -/
def cfgOk : TravCfg := { target := tgt, alpha := 1 }
def q1 : List TravEv :=
  [.queryReturn a1 { responder := some (List.replicate 20 1), nodes := [n2] },
   .addClosest a1, .addReplyNodes a1, .addReplyNodes6 a1, .finish a1]
def q2 : List TravEv :=
  [.queryReturn a2 { responder := some (List.replicate 20 2), nodes := [n1] },
   .addClosest a2, .addReplyNodes a2, .addReplyNodes6 a2, .finish a2]

/-- A complete lookup: n1 is queried and reports n2, n2 is queried and reports n1 again
(not queried twice); then the loop sleeps on the current generation offering stalled. -/
def evsOk : List TravEv :=
  [.addNodes [n1], .runEval] ++ q1 ++ [.runWake .broadcast, .runEval] ++ q2 ++ [.runWake .broadcast, .runEval]
def sOk : Trav := (Trav.exec cfgOk {} evsOk).getD {}

example : Trav.exec cfgOk {} evsOk = some sOk := rfl
example : sOk.run = .sleeping 4 true ∧ sOk.gen = 4 ∧ sOk.stopping = false ∧ sOk.inflight = [] ∧
    midCompletion sOk = false ∧ sOk.started = [a1, a2] ∧ sOk.closest.length = 2 := by decide +kernel
example : (reported evsOk).eraseDups.length = 2 := by decide +kernel

/-- The hypotheses of `no_lost_wakeup` with a query in flight: asleep on the current
generation, no stalled offer. -/
def sMid : Trav := (Trav.exec cfgOk {} [.addNodes [n1, n2], .runEval]).getD {}
example : Trav.exec cfgOk {} [.addNodes [n1, n2], .runEval] = some sMid := rfl
example : sMid.run = .sleeping 2 false ∧ sMid.gen = 2 ∧ sMid.stopping = false ∧ midCompletion sMid = false ∧
    sMid.outstanding = 1 ∧ sMid.unq = [n2] ∧ sMid.haveQuery cfgOk = true := by decide +kernel

/-- `stalled_means_exhausted` with a full result set (`k = 1`) and a frontier that is not
empty: n2 stays unqueried because it is farther than the farthest (only) member n1. -/
def cfgK1 : TravCfg := { target := tgt, alpha := 1, k := 1 }
def evsK1 : List TravEv := [.addNodes [n1], .runEval] ++ q1 ++ [.runWake .broadcast, .runEval]
def sK1 : Trav := (Trav.exec cfgK1 {} evsK1).getD {}
example : Trav.exec cfgK1 {} evsK1 = some sK1 := rfl
example : sK1.run = .sleeping 3 true ∧ sK1.gen = 3 ∧ sK1.stopping = false ∧ midCompletion sK1 = false ∧
    sK1.unq = [n2] ∧ KNN.full cfgK1.k sK1.closest = true ∧ (∀ n ∈ sK1.unq, n.ok) := by
  refine ⟨by decide +kernel, by decide +kernel, by decide +kernel, by decide +kernel, by decide +kernel,
    by decide +kernel, ?_⟩
  intro n hn i hi
  have : n = n2 := by simpa using (show n ∈ [n2] from hn)
  subst this
  cases hi
  rfl

/-- `stop_completes`: the waiter asleep on the current generation with a query outstanding,
and the run to `Stopped()`. -/
def evsStop : List TravEv := [.addNodes [n1], .runEval, .stop, .stopperStep]
def sStop : Trav := (Trav.exec cfgOk {} evsStop).getD {}
example : Trav.exec cfgOk {} evsStop = some sStop := rfl
example : sStop.stopper = .sleeping 1 ∧ sStop.gen = 1 ∧ sStop.outstanding = 1 := by decide +kernel
example : (Trav.exec cfgOk {} (evsStop ++ q1 ++ [.stopperStep, .stopperStep])).map Trav.isStopped = some true := by
  decide +kernel

/-- The lost wake-up state of `cfgBad` is not reachable by the same history under `cfgOk`
(`captureGen` is not enabled). -/
example : Trav.exec cfgOk {} evsBad = none := rfl
end C03.Witness

end Dht

namespace Dht

/-- Kept counterexample (known finding, DESIGN.md 12.5): the stalled offer a sleeping run loop
holds can be *stale*. The offer is computed under the lock, but it is handed over in the same
`select` as the wake-up channel; if contacts are added to an idle lookup, the offer stays
receivable until the run loop goroutine is scheduled again. Reachable state: the loop sleeps
offering stalled, the generation has moved on, a startable candidate is in the frontier, and
`stalledReceived` is enabled. This is why `stalled_means_exhausted` needs the view to be current
(`s.gen = g`). -/
theorem C03.stale_offer_possible :
    ∃ (c : TravCfg) (evs : List TravEv), c.sigBeforeUnlock = true ∧ c.alpha > 0 ∧
      (match Trav.exec c {} evs with
       | some s =>
         (match s.run with
          | .sleeping g true =>
            decide (s.gen > g) && s.haveQuery c && (s.step c (.runWake .stalledReceived)).isSome
          | _ => false)
       | none => false) = true :=
  ⟨{ target := List.replicate 20 0 },
   [.runEval, .addNodes [⟨some (List.replicate 20 1), ⟨1, [10, 0, 0, 1], 1000⟩⟩]],
   by decide +kernel⟩

/-- T1 by translation: `Operation.haveQuery` in traversal/operation.go is the model's `Trav.haveQuery`. -/
theorem C03.haveQuery_is_the_source (c : TravCfg) (s : Trav) :
    Gen.treeHaveQueryLets = hqLetsExpected ∧
    DExp.evalWith (hqCond c s) (hqRet c s) Gen.treeHaveQuery = some (s.haveQuery c) :=
  SourceTrees.haveQuery c s

end Dht
