/-
C04 — lookup query discipline: bounded fan-out, once per address, filter first.
Theorems over `DhtVerif/Model/Traversal.lean`, for every history of events
(every order in which queries return, late AddNodes, Stop) from the initial state.
-/
import DhtVerif.Model.Traversal
import DhtVerif.Lemmas.C04
namespace Dht

/-- Never more than Alpha queries in flight; the counter equals the number of query goroutines. -/
theorem C04.inflight_le_alpha (c : TravCfg) (evs : List TravEv) (s : Trav)
    (h : Trav.exec c {} evs = some s) :
    s.outstanding ≤ c.alpha ∧ s.inflight.length = s.outstanding := by
  have hi := Trav.exec_inv evs (Trav.Inv.init c) h
  exact ⟨hi.out_le, hi.len⟩

/-- No address (as the `queried` map keys it) is the subject of two queries,
however many times and under however many IDs it was reported. -/
theorem C04.queried_once (c : TravCfg) (evs : List TravEv) (s : Trav)
    (h : Trav.exec c {} evs = some s) : (s.started.map Addr.strKey).Nodup := by
  have hi := Trav.exec_inv evs (Trav.Inv.init c) h
  exact hi.q_eq ▸ hi.q_nodup

/-- Every address queried was reported by a candidate that passed the node
filter; an address the filter rejects under every ID is never queried. -/
theorem C04.never_query_filtered (c : TravCfg) (evs : List TravEv) (s : Trav)
    (h : Trav.exec c {} evs = some s) :
    ∀ a ∈ s.started, ∃ n : Cand, n.addr = a ∧ c.nodeFilter n = true := by
  exact (Trav.exec_inv evs (Trav.Inv.init c) h).started_ok

/-- Every address queried is recorded as queried, and only such addresses are. -/
theorem C04.started_eq_queried (c : TravCfg) (evs : List TravEv) (s : Trav)
    (h : Trav.exec c {} evs = some s) : s.queried = s.started.map Addr.strKey := by
  exact (Trav.exec_inv evs (Trav.Inv.init c) h).q_eq

def idxIn (l : List String) (x : String) : Nat := l.findIdx (· == x)

/-- T1: in `startQuery` the candidate is marked queried before the goroutine is
launched; the goroutine installs a watcher that cancels the query's context
when the operation is stopping, before `DoQuery` is called; the run loop
starts queries only under `op.outstanding < op.input.Alpha`. -/
theorem C04.source_structure :
    idxIn Gen.evStartQuery "op.markQueried" < idxIn Gen.evStartQuery "go" ∧
    idxIn Gen.evStartQuery "recv:op.stopping.Done()" < idxIn Gen.evStartQuery "op.input.DoQuery" ∧
    Gen.evStartQuery.getD (idxIn Gen.evStartQuery "recv:op.stopping.Done()" + 1) "" = "cancel" ∧
    idxIn Gen.evStartQuery "op.input.DoQuery" < Gen.evStartQuery.length ∧
    Gen.traversalStartSites.length = 4 := by
  decide +kernel

/-- Consequence of `never_query_filtered`: an address the filter rejects under every ID is never queried. -/
theorem C04.rejected_never_queried (c : TravCfg) (evs : List TravEv) (s : Trav)
    (h : Trav.exec c {} evs = some s) (a : Addr)
    (hrej : ∀ n : Cand, n.addr = a → c.nodeFilter n = false) : a ∉ s.started := by
  intro ha
  obtain ⟨n, hn, hf⟩ := C04.never_query_filtered c evs s h a ha
  rw [hrej n hn] at hf
  cases hf

/-- The fuel given to `startLoop` in `runEval` suffices: when the modelled loop ends, the Go loop
condition `op.outstanding < Alpha && op.haveQuery()` is false (the model never stops early). -/
theorem C04.startLoop_fuel_suffices (c : TravCfg) (s : Trav) :
    ¬ ((Trav.startLoop c (s.unq.length + 1) s).outstanding < c.alpha ∧
       (Trav.startLoop c (s.unq.length + 1) s).haveQuery c = true) := by
  have := Trav.startLoop_done c (s.unq.length + 1) s (by omega)
  intro ⟨h1, h2⟩
  simp [h1, h2] at this

/-! ## Non-vacuity: a concrete lookup (`TravEx` in Lemmas/C04) -/

/-- The history is executable, and queries exactly 10.0.0.1, 10.0.0.2, 10.0.0.4 — the last one once,
although it was listed under two IDs; 10.0.0.3 is never needed (the closest set is full of nearer
nodes); the two port-1 nodes are filtered. -/
example : (Trav.exec TravEx.cfg {} TravEx.evs).map (·.started) =
    some [TravEx.addr 1, TravEx.addr 2, TravEx.addr 4] := by decide +kernel

/-- After the first `runEval`, Alpha = 2 queries are in flight and the third seed waits. -/
example : (Trav.exec TravEx.cfg {} (TravEx.evs.take 2)).map (fun s => (s.outstanding, s.inflight.length, s.unq.length)) =
    some (2, 2, 1) := by decide +kernel

/-- Mid-history (after the first reply's nodes were added, before its `finish`): both IDs of 10.0.0.4 sit
in the frontier, the filtered and the already-queried node do not. -/
example : (Trav.exec TravEx.cfg {} (TravEx.evs.take 5)).map (fun s => s.unq.map (·.id)) =
    some [some (TravEx.nid 1), some (TravEx.nid 4), some (TravEx.nid 7)] := by decide +kernel

example : (Trav.exec TravEx.cfg {} TravEx.evs).map (fun s => (s.outstanding, s.inflight.length, s.queried)) =
    some (0, 0, [TravEx.addr 1, TravEx.addr 2, TravEx.addr 4]) := by decide +kernel

end Dht
