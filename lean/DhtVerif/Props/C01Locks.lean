/-
C01 (deadlock part) — a lock-recursion / lock-order certificate for the Go source.

`sync.RWMutex`: a goroutine that takes `RLock` while it already holds `RLock` deadlocks as soon as a
writer queues up in between; `Lock` while holding `Lock`/`RLock` deadlocks always; two mutexes taken
in opposite orders by two goroutines deadlock under the right interleaving. The theorems below say
that the source, as regenerated into `Gen.lockFuncs` / `Gen.lockBinds` by /verif/extract/locks.go on
every run, contains none of these patterns:

* `C01.lock_facts_well_formed`    the extractor met no shape it does not model; ids, callees, bindings are consistent.
* `C01.no_lock_recursion`         no function acquires a mutex it holds; no function calls, while it holds `m`,
                                  a function that may (through any chain of same-goroutine calls, function
                                  values and interface methods included) acquire `m`; and no callee hands a
                                  locked mutex back to a caller whose own bookkeeping does not say "held".
* `C01.lock_order_acyclic`        there is a rank on the mutexes that strictly increases from every held
                                  mutex to every mutex acquired meanwhile; `C01.lock_order_no_cycle`: no cycle.
* `C01.callbacks_under_lock`      the user-supplied callbacks / interface implementations that are invoked
                                  while a mutex is held, with the mutexes — the remaining obligation on the
                                  USER of the package (they must not call back into the Server).
* `C01.lock_checker_finds_seeded_recursion`   negative control: the same checks on a hand-written fact list
                                  that reproduces a seeded defect (`TraversalNodeFilter` taking `s.mu.RLock()`)
                                  report exactly that recursion, with its call path, and the resulting
                                  cycle in the lock order.

Scope: all non-test files of the module except cmd/, internal/ and verif_hooks.go (`Gen.lockFiles`):
package dht, traversal, bep44, peer-store, transactions, krpc, int160, types, containers,
k-nearest-nodes, exts/getput. Mutexes: every field / variable of type sync.Mutex / sync.RWMutex
there (`Gen.lockMutexes`), among them Server.mu, traversal.Operation.mu, sendLimiterMu.

OVER-approximations (can only add alarms)
* a mutex is its class ("Server.mu" = field `mu` of any Server): two Servers or two Operations are not
  told apart; Lock and RLock are not told apart;
* per function, the state of each mutex is a may-set over all paths (branches joined, loops iterated to
  a fixpoint, a `defer` under a condition may or may not run); conditions are not interpreted;
* a call through a function-typed field / parameter / variable may reach every function value that
  is bound to a field / parameter / variable of that NAME anywhere in the module (fields are keyed by
  field name only), plus every function value whose flow is not tracked (returned from a function,
  stored in a slice / map / channel, passed to code outside the module: slot `dyn:*`);
* an interface method call may reach that method of every type of the module that implements the
  interface; a method call on a receiver whose type go/types could not determine (values obtained
  from other modules) may reach every method of that name in the module (`Gen.lockByName`);
* a function value passed to code outside the module (sort comparators, `sync.Once.Do`,
  `slices.SortedFunc`, iterators) is assumed to be called there and then, under the caller's locks;
* `AcqAny` (lock order) ignores unlock-before-relock inside callees.

UNDER-approximations (what the certificate does NOT cover; see `Gen.lockExternalHeld`,
`Gen.lockUnboundSlots`, `C01.callbacks_under_lock`)
* code outside the module: functions and methods of other modules are assumed not to call back into
  the module except through function values handed to them at that call (see above). This covers
  calls through interfaces DECLARED outside the module (net.PacketConn = `ServerConfig.Conn`,
  log.Logger, iplist.Ranger = the IP block list, rate.Limiter, io.Writer, error): an implementation of
  such an interface that calls a locking method of Server while Server.mu is held would deadlock
  and is not seen;
* callbacks supplied by the user (`ServerConfig.OnQuery`, `OnAnnouncePeer`, `StartingNodes`,
  `QueryResendDelay`, `bep44.Store`, `peer_store.Interface` implementations other than the module's own):
  `C01.callbacks_under_lock` lists those that run under a mutex; what they do is the user's business;
* only mutexes: channel operations, `sync.WaitGroup.Wait`, `chansync` events and conditions
  (`op.cond`, `b.changed`, `closed`, `stalled`) are not locks here — waiting on one of them while holding
  a mutex (none found by inspection: `refreshBucket`, `pingQuestionableNodesInBucket`, `Operation.run`
  and `Stop` all unlock before they wait) is outside this certificate; C02/C03/C14 cover the waits;
* a panic between `Lock` and a non-deferred `Unlock` leaves the mutex locked; not modelled;
* reflection, `unsafe`, cgo, `TryLock`, embedded mutexes, `goto` into loops: none in the source, and the
  extractor reports them in `Gen.lockUnsupported` (required to be empty) rather than guessing.
The extractor itself (go/ast + go/types walk, extract/locks.go) is trusted to transcribe the syntax:
which mutex a `x.mu.Lock()` denotes, which function a call denotes, statement order. The tables
`Gen.lockMayAcq` / `lockAnyAcq` / `lockHeldOnEntry` / `lockRank` are NOT trusted: the kernel checks that
they are post-fixpoints / a valid rank, and `Lemmas/C01Locks.lean` proves that this suffices.

When `C01.lock_checks_pass` fails after a source change, the offending call path is printed by the
extractor ("locks: RECURSION f holds m and calls g -> … -> h") and by
`#eval Dht.Locks.namedViolationPaths` / `#eval Dht.Locks.namedEdges`.
-/
import DhtVerif.Model.Locks
import DhtVerif.Lemmas.C01Locks
namespace Dht
open Locks

set_option maxRecDepth 100000

/-! ## Kernel-evaluated checks on the regenerated facts -/

theorem C01.lock_facts_well_formed :
    Gen.lockUnsupported = [] ∧
    wellFormed prog Gen.lockNumNodes Gen.lockNumFuncs Gen.lockBinds = true ∧
    Gen.lockFuncNames.length = Gen.lockNumNodes ∧
    Gen.lockRank.length = Gen.lockMutexes.length := by
  decide +kernel

theorem C01.lock_tables_closed :
    closed true prog mayAcqT = true ∧ closed false prog anyAcqT = true ∧
    leavesClosed prog leavesT = true ∧ closedH prog heldT = true := by
  decide +kernel

theorem C01.lock_checks_pass :
    recOk prog mayAcqT = true ∧ leaveOk prog leavesT = true ∧ orderOk prog anyAcqT rank = true := by
  decide +kernel

theorem C01.lock_ids : IdsOk prog ∧ prog.length = Gen.lockNumNodes :=
  idsOk_of_wellFormed C01.lock_facts_well_formed.2.1

/-! ## The properties, in terms of call paths -/

/-- NO LOCK RECURSION.
(1) No function locks a mutex that it has itself locked and not yet unlocked.
(2) Whenever a function calls `c.callee` in its own goroutine at a point where it holds `m`
    (`hasH`: on some path to that call it has locked `m` and not unlocked it), there is no chain of
    same-goroutine calls from the callee — through function values and interface methods as bound in
    `Gen.lockBinds` — that locks `m` before some function of the chain has unlocked it.
(3) A callee that may return with `m` locked (it unlocked and re-locked the caller's mutex) is only
    called where the caller's own record of `m` is exactly "held" (bits = 2) — so the record stays right.
Together, by induction over an execution: no goroutine ever acquires a mutex (class) it already holds. -/
theorem C01.no_lock_recursion :
    (∀ (f : Nat) (fn : Fn) (a : Acq), prog[f]? = some fn → a ∈ fn.acqs → hasH (bitsOf a.st a.m) = false) ∧
    (∀ (f : Nat) (fn : Fn) (c : Call) (m : Nat), prog[f]? = some fn → c ∈ fn.calls → c.sync = true →
      hasH (bitsOf c.st m) = true → ¬ MayAcq prog c.callee m) ∧
    (∀ (f : Nat) (fn g : Fn) (c : Call) (m : Nat), prog[f]? = some fn → c ∈ fn.calls → c.sync = true →
      prog[c.callee]? = some g → hasH (bitsOf g.exit m) = true → bitsOf c.st m = 2) := by
  have hid := C01.lock_ids.1
  obtain ⟨hc1, _, hl, _⟩ := C01.lock_tables_closed
  obtain ⟨hr, hlo, _⟩ := C01.lock_checks_pass
  refine ⟨?_, ?_, ?_⟩
  · intro f fn a hf ha
    exact recOk_acq hr hf ha
  · intro f fn c m hf hc hs hh
    exact recOk_call hr hc1 hid hf hc hs hh
  · intro f fn g c m hf hc hs hg hh
    exact leaveOk_call hl hlo hid hf hc hs hg hh

/-- ACYCLIC LOCK ORDER: a rank on the mutexes that strictly increases from every mutex that is held
to every mutex acquired meanwhile (by the holder itself or by anything it calls in its goroutine). -/
theorem C01.lock_order_acyclic :
    ∃ rank : Nat → Nat, ∀ m1 m2 : Nat, Before prog m1 m2 → rank m1 < rank m2 :=
  ⟨rank, fun _ _ hb =>
    orderOk_sound C01.lock_checks_pass.2.2 C01.lock_tables_closed.2.1 C01.lock_ids.1 hb⟩

theorem C01.lock_order_no_cycle (m : Nat) : ¬ Relation.TransGen (Before prog) m m := by
  obtain ⟨r, hr⟩ := C01.lock_order_acyclic
  intro h
  exact Nat.lt_irrefl _ (no_cycle_of_rank hr m m h)

/-- Whatever mutex may be held by the callers when function `g` is entered is in the table `heldT`. -/
theorem C01.held_on_entry_table (g m : Nat) (h : HeldOnEntry prog g m) : m ∈ heldT g :=
  closedH_sound C01.lock_tables_closed.2.2.2 C01.lock_ids.1 h

/-- CALLBACKS UNDER LOCK (audit list, by name). The slots nothing of the module is bound to
(`Gen.lockUnboundSlots`: configuration callbacks) and the interface methods whose implementation may be
supplied by the user, that can be entered while a mutex is held, with the mutexes that may be held then.
By `C01.held_on_entry_table` the list is complete for the analysed call graph. Read it as the contract
on the user of the package: `ServerConfig.OnQuery` runs under `Server.mu` (it is called from
`handleQuery`, inside `processPacket`'s critical section), a `bep44.Store` under `Server.mu` and the
wrapper's mutex, a `peer_store.Interface`'s `GetPeers` under `Server.mu`: none of them may call a method of
the Server that locks. (`tokenServer.timeNow` is only set by tests and by verif_hooks.go.) -/
theorem C01.callbacks_under_lock :
    heldWhenCalled (Gen.lockUnboundSlots ++
      ["iface:bep44.Store.Put", "iface:bep44.Store.Get", "iface:bep44.Store.Del",
       "iface:peer_store.Interface.GetPeers", "iface:peer_store.Interface.AddPeer"]) =
    [("field:OnQuery", ["Server.mu"]),
     ("field:timeNow", ["Server.mu"]),
     ("iface:bep44.Store.Put", ["Server.mu", "bep44.Wrapper.mu"]),
     ("iface:bep44.Store.Get", ["Server.mu", "bep44.Wrapper.mu"]),
     ("iface:bep44.Store.Del", ["Server.mu", "bep44.Wrapper.mu"]),
     ("iface:peer_store.Interface.GetPeers", ["Server.mu"])] := by
  decide +kernel

/-! ## Non-vacuity: the facts do contain the interesting call sites -/

/-- id of a function / mutex by name -/
def C01.fid (n : String) : Nat := Gen.lockFuncNames.idxOf n
def C01.mid (n : String) : Nat := Gen.lockMutexes.idxOf n

/-- `f` calls `g` in its own goroutine at a point where it holds `m` -/
def C01.callsHolding (f g m : String) : Bool :=
  match prog[C01.fid f]? with
  | none => false
  | some fn => fn.calls.any (fun c => Nat.beq c.callee (C01.fid g) && c.sync && hasH (bitsOf c.st (C01.mid m)))

/-- `f` locks `m` itself -/
def C01.locks (f m : String) : Bool :=
  match prog[C01.fid f]? with
  | none => false
  | some fn => fn.acqs.any (fun a => Nat.beq a.m (C01.mid m))

/-- The call sites the seeded defect turns into a deadlock are in the facts: `refreshBucket` calls
`op.AddNodes` and `traversal.Start` holding `Server.mu`; `AddNodes` locks `op.mu` and calls
`addNodeLocked` (an explicit call path `refreshBucket → AddNodes` reaches the acquisition of `op.mu`),
which calls the node filter, to which `Server.TraversalNodeFilter` is bound; the receive
loop locks `Server.mu` in `processPacket` and calls `handleQuery` (→ `OnQuery`, the store) holding it. -/
example :
    C01.callsHolding "Server.refreshBucket" "traversal.Operation.AddNodes" "Server.mu" = true ∧
    C01.callsHolding "Server.refreshBucket" "traversal.Start" "Server.mu" = true ∧
    C01.locks "traversal.Operation.AddNodes" "traversal.Operation.mu" = true ∧
    C01.callsHolding "traversal.Operation.AddNodes" "traversal.Operation.addNodeLocked" "traversal.Operation.mu" = true ∧
    pathOk prog (C01.mid "traversal.Operation.mu") [C01.fid "Server.refreshBucket", C01.fid "traversal.Operation.AddNodes"] = true ∧
    (prog[C01.fid "field:NodeFilter"]?.map (fun fn => fn.calls.any (fun c => Nat.beq c.callee (C01.fid "Server.TraversalNodeFilter")))) = some true ∧
    C01.locks "Server.processPacket" "Server.mu" = true ∧
    C01.callsHolding "Server.processPacket" "Server.handleQuery" "Server.mu" = true ∧
    C01.callsHolding "Server.TableMaintainer" "Server.pingQuestionableNodesInBucket" "Server.mu" = true ∧
    C01.locks "limiterWait" "sendLimiterMu" = true := by
  decide +kernel

/-- In particular (instance of `no_lock_recursion` (2)): nothing `op.AddNodes` can reach locks `Server.mu`. -/
theorem C01.addNodes_does_not_lock_server :
    ¬ MayAcq prog (C01.fid "traversal.Operation.AddNodes") (C01.mid "Server.mu") := by
  have h : C01.callsHolding "Server.refreshBucket" "traversal.Operation.AddNodes" "Server.mu" = true := by
    decide +kernel
  unfold C01.callsHolding at h
  cases hf : prog[C01.fid "Server.refreshBucket"]? with
  | none => rw [hf] at h; simp at h
  | some fn =>
    rw [hf] at h
    simp only [List.any_eq_true, Bool.and_eq_true, Nat.beq_eq] at h
    obtain ⟨c, hc, ⟨hg, hs⟩, hh⟩ := h
    rw [← hg]
    exact C01.no_lock_recursion.2.1 _ fn c _ hf hc hs hh

/-- The lock order is not empty: `Server.mu` is held while `traversal.Operation.mu` is acquired
(`refreshBucket` → `op.AddNodes`), so `Operation.mu` must never be held while `Server.mu` is acquired. -/
theorem C01.server_mu_before_operation_mu :
    Before prog (C01.mid "Server.mu") (C01.mid "traversal.Operation.mu") := by
  have h1 : C01.callsHolding "Server.refreshBucket" "traversal.Operation.AddNodes" "Server.mu" = true := by
    decide +kernel
  have h2 : C01.locks "traversal.Operation.AddNodes" "traversal.Operation.mu" = true := by decide +kernel
  have hne : C01.mid "Server.mu" ≠ C01.mid "traversal.Operation.mu" := by decide +kernel
  unfold C01.callsHolding at h1
  unfold C01.locks at h2
  cases hf : prog[C01.fid "Server.refreshBucket"]? with
  | none => rw [hf] at h1; simp at h1
  | some fn =>
    cases hg : prog[C01.fid "traversal.Operation.AddNodes"]? with
    | none => rw [hg] at h2; simp at h2
    | some gn =>
      rw [hf] at h1
      rw [hg] at h2
      simp only [List.any_eq_true, Bool.and_eq_true, Nat.beq_eq] at h1 h2
      obtain ⟨c, hc, ⟨hcg, hs⟩, hh⟩ := h1
      obtain ⟨a, ha, hm⟩ := h2
      refine Before.call hf hc hs hh ?_ hne
      rw [hcg, ← hm]
      exact AcqAny.direct hg ha

/-! ## Negative control: the seeded defect

Hand-written facts in the shape the extractor produces for

    func (s *Server) refreshBucket(...) { s.mu.RLock(); …; op.AddNodes(…); …; s.mu.RUnlock() … }
    func (op *Operation) AddNodes(...)  { op.mu.Lock(); defer op.mu.Unlock(); … op.addNodeLocked(n) … }
    func (op *Operation) addNodeLocked(n) { … op.input.NodeFilter(n) … }
    traversal.OperationInput{ NodeFilter: s.TraversalNodeFilter, … }
    func (s *Server) TraversalNodeFilter(…) { s.mu.RLock(); blocked := s.ipBlocked(…); s.mu.RUnlock(); … }   ← seeded
    func (s *Server) processPacket(...) { …; s.mu.Lock(); defer s.mu.Unlock(); … }                          (the writer)

mutex 0 = Server.mu, 1 = traversal.Operation.mu. -/

def C01.seeded : Prog := ofFacts [
  /- 0 Server.refreshBucket -/       (0, [(0, 1, []), (0, 1, [(0, 4)])], [(1, 0, [(0, 2)]), (5, 0, [(0, 2)])], [(0, 4)]),
  /- 1 Operation.AddNodes -/         (1, [(1, 0, [])], [(2, 0, [(1, 2)])], [(1, 4)]),
  /- 2 Operation.addNodeLocked -/    (2, [], [(3, 0, [])], []),
  /- 3 field:NodeFilter -/           (3, [], [(4, 0, [])], []),
  /- 4 Server.TraversalNodeFilter -/ (4, [(0, 1, [])], [(5, 0, [(0, 2)])], [(0, 4)]),
  /- 5 Server.ipBlocked -/           (5, [], [], []),
  /- 6 Server.processPacket -/       (6, [(0, 0, [])], [], [(0, 5)])]

/-- The checker finds the recursion in the seeded facts: its table is a post-fixpoint, the check fails,
the only violation is "`refreshBucket` holds Server.mu and calls `AddNodes`, which may acquire Server.mu",
and the path it reports is AddNodes → addNodeLocked → NodeFilter → TraversalNodeFilter. Semantically:
there IS a call site holding `Server.mu` whose callee may acquire it, and the lock order has a cycle, so
no rank exists. -/
theorem C01.lock_checker_finds_seeded_recursion :
    closed true C01.seeded (solve true C01.seeded 2).at = true ∧
    recOk C01.seeded (solve true C01.seeded 2).at = false ∧
    recViolations C01.seeded (solve true C01.seeded 2).at = [(0, 1, 0)] ∧
    witness C01.seeded (solve true C01.seeded 2).at 8 1 0 = [1, 2, 3, 4] ∧
    (∃ (fn : Fn) (c : Call), C01.seeded[0]? = some fn ∧ c ∈ fn.calls ∧ c.sync = true ∧
      hasH (bitsOf c.st 0) = true ∧ MayAcq C01.seeded c.callee 0) ∧
    (Before C01.seeded 0 1 ∧ Before C01.seeded 1 0) ∧
    ¬ ∃ rank : Nat → Nat, ∀ m1 m2 : Nat, Before C01.seeded m1 m2 → rank m1 < rank m2 := by
  have hpath : MayAcq C01.seeded 1 0 := pathOk_sound (path := [2, 3, 4]) (by decide +kernel)
  have hfn : C01.seeded[0]? = some
      { id := 0, acqs := [⟨0, 1, []⟩, ⟨0, 1, [(0, 4)]⟩], calls := [⟨1, 0, [(0, 2)]⟩, ⟨5, 0, [(0, 2)]⟩], exit := [(0, 4)] } := by
    rfl
  have hgn : C01.seeded[1]? = some
      { id := 1, acqs := [⟨1, 0, []⟩], calls := [⟨2, 0, [(1, 2)]⟩], exit := [(1, 4)] } := by
    rfl
  have hb01 : Before C01.seeded 0 1 :=
    Before.call (c := ⟨1, 0, [(0, 2)]⟩) hfn (by simp) (by decide) (by decide)
      (AcqAny.direct (a := ⟨1, 0, []⟩) hgn (by simp)) (by decide)
  have hb10 : Before C01.seeded 1 0 :=
    Before.call (c := ⟨2, 0, [(1, 2)]⟩) hgn (by simp) (by decide) (by decide)
      (MayAcq.any (pathOk_sound (path := [3, 4]) (by decide +kernel))) (by decide)
  refine ⟨by decide +kernel, by decide +kernel, by decide +kernel, by decide +kernel, ?_, ⟨hb01, hb10⟩, ?_⟩
  · exact ⟨_, ⟨1, 0, [(0, 2)]⟩, hfn, by simp, by decide, by decide, hpath⟩
  · rintro ⟨r, hr⟩
    have h1 := hr 0 1 hb01
    have h2 := hr 1 0 hb10
    omega

/-- The same facts without the seeded `RLock` pass. -/
def C01.unseeded : Prog := ofFacts [
  (0, [(0, 1, []), (0, 1, [(0, 4)])], [(1, 0, [(0, 2)]), (5, 0, [(0, 2)])], [(0, 4)]),
  (1, [(1, 0, [])], [(2, 0, [(1, 2)])], [(1, 4)]),
  (2, [], [(3, 0, [])], []),
  (3, [], [(4, 0, [])], []),
  (4, [], [(5, 0, [])], []),
  (5, [], [], []),
  (6, [(0, 0, [])], [], [(0, 5)])]

example : closed true C01.unseeded (solve true C01.unseeded 2).at = true ∧
    recOk C01.unseeded (solve true C01.unseeded 2).at = true ∧
    closed false C01.unseeded (solve false C01.unseeded 2).at = true ∧
    orderOk C01.unseeded (solve false C01.unseeded 2).at (fun m => m) = true := by
  decide +kernel

end Dht
