/-
C09 — replies propagate only good contacts, nearest buckets first, right family
(node-selection level: `table.closestNodes` under `closestGoodNodeInfos`).
-/
import DhtVerif.Model.Table
import DhtVerif.Props.C05
import DhtVerif.Lemmas.C09
import DhtVerif.Props.STGates
import DhtVerif.Props.STNodes
namespace Dht

/-- The reply size is the K of the source. -/
theorem C09.return_k : Gen.returnK = 8 ∧ Gen.tableK = 8 := by decide

/-- At most K contacts, all distinct. -/
theorem C09.returned_le_K_distinct (c : TableCfg) (now : Nat) (t : Table) (fam : Node → Bool) (k : Nat)
    (target : Id) (ret : List Node) (h : closestAllowed c now t fam k target ret = true) :
    ret.length ≤ k ∧ ret.Nodup := by
  have := C09L.walk_sound c now t fam k _ 0 ret h (Nat.zero_le _)
  exact ⟨by omega, this.2.1⟩

/-- Every returned contact is a table entry that is currently good — hence has
answered one of this node's queries and is not the node itself — and is of
the requested address family. -/
theorem C09.returned_good_and_responded (c : TableCfg) (now : Nat) (t : Table) (fam : Node → Bool) (k : Nat)
    (target : Id) (ret : List Node) (h : closestAllowed c now t fam k target ret = true) :
    ∀ n ∈ ret, n ∈ t ∧ isGood c now n = true ∧ n.lastResp.isSome = true ∧ n.id ≠ c.root ∧ fam n = true := by
  intro n hn
  obtain ⟨j, _, hm⟩ := (C09L.walk_sound c now t fam k _ 0 ret h (Nat.zero_le _)).2.2 n hn
  obtain ⟨ht, _, hg, hf⟩ := C09L.mem_eligible.mp hm
  exact ⟨ht, hg, (C09L.isGood_facts hg).1, (C09L.isGood_facts hg).2, hf⟩

/-- Bucket priority: if a contact from bucket `j` is returned, every eligible
contact of each nearer bucket `i` (`j < i ≤ start`) is returned too. -/
theorem C09.bucket_priority (c : TableCfg) (now : Nat) (t : Table) (fam : Node → Bool) (k : Nat)
    (target : Id) (ret : List Node) (h : closestAllowed c now t fam k target ret = true)
    (n : Node) (hn : n ∈ ret) (j : Nat) (hj : n.bucket c = some j)
    (i : Nat) (hji : j < i) (hi : i ≤ startBucket c target) :
    ∀ m ∈ eligible c now t fam i, m ∈ ret := by
  exact C09L.walk_priority c now t fam k _ 0 ret h n hn j hj i hji hi

/-- Fewer than K are returned only when the buckets from the target's downwards are exhausted. -/
theorem C09.short_only_if_exhausted (c : TableCfg) (now : Nat) (t : Table) (fam : Node → Bool) (k : Nat)
    (target : Id) (ret : List Node) (h : closestAllowed c now t fam k target ret = true)
    (hshort : ret.length < k) :
    ∀ i, i ≤ startBucket c target → ∀ m ∈ eligible c now t fam i, m ∈ ret := by
  exact C09L.walk_short c now t fam k _ 0 ret h (by omega)

/-- The walk starts at the target's own bucket (the last bucket for the node's own ID). -/
theorem C09.start_bucket (c : TableCfg) (target : Id) :
    (target = c.root → startBucket c target = 159) ∧
    (∀ i, bucketIndex c.root target = some i → startBucket c target = i) := by
  constructor
  · intro h; subst h; simp [startBucket, bucketIndex]
  · intro i h; simp [startBucket, h]

/-- The relation is inhabited: walking each bucket in table order is allowed
(when the table is duplicate-free). -/
theorem C09.det_allowed (c : TableCfg) (now : Nat) (t : Table) (fam : Node → Bool) (k : Nat) (target : Id)
    (hnd : t.Nodup) : closestAllowed c now t fam k target (closestDet c now t fam k target) = true := by
  obtain ⟨r, hr, hw⟩ := C09L.walkDet_spec c now t fam k hnd (startBucket c target) [] (Nat.zero_le _)
  unfold closestAllowed closestDet
  rw [hr]; simpa using hw

/-! ### Stronger forms -/

/-- Every returned contact sits in a bucket that the walk visits (at or below the start bucket). -/
theorem C09.returned_bucket_le_start (c : TableCfg) (now : Nat) (t : Table) (fam : Node → Bool) (k : Nat)
    (target : Id) (ret : List Node) (h : closestAllowed c now t fam k target ret = true) :
    ∀ n ∈ ret, ∃ j, j ≤ startBucket c target ∧ n.bucket c = some j ∧ n ∈ eligible c now t fam j := by
  intro n hn
  obtain ⟨j, hj, hm⟩ := (C09L.walk_sound c now t fam k _ 0 ret h (Nat.zero_le _)).2.2 n hn
  exact ⟨j, hj, C09L.eligible_bucket hm, hm⟩

/-! ### Non-vacuity -/

namespace C09.Ex
def idOf (x : UInt8) : Id := List.replicate 19 0 ++ [x]
def cfg : TableCfg := { root := List.replicate 20 0 }
def nd (x : UInt8) (p : Nat) : Node := { id := idOf x, addr := { ip := [10, 0, 0, x], port := p }, lastResp := some 0 }
/-- buckets: `1` ↦ 159, `2`,`3` ↦ 158, `4` ↦ 157 (`5` never responded: not good). -/
def tbl : Table := [nd 1 1, nd 2 2, nd 3 3, nd 4 4, { nd 5 5 with lastResp := none }]
def all : Node → Bool := fun _ => true
end C09.Ex

open C09.Ex in
/-- The target's bucket is 158; with `k = 2` the whole of bucket 158 (either order) is a legal answer … -/
example : startBucket cfg (idOf 2) = 158 ∧
    closestAllowed cfg 0 tbl all 2 (idOf 2) [nd 3 3, nd 2 2] = true ∧
    closestAllowed cfg 0 tbl all 2 (idOf 2) [nd 2 2, nd 3 3] = true := by decide +kernel

open C09.Ex in
/-- … a selection that skips an entry of the nearer bucket 158 in favour of bucket 157 is rejected,
as are duplicates, a non-good entry, and an over-long answer. -/
example :
    closestAllowed cfg 0 tbl all 2 (idOf 2) [nd 2 2, nd 4 4] = false ∧
    closestAllowed cfg 0 tbl all 2 (idOf 2) [nd 2 2, nd 2 2] = false ∧
    closestAllowed cfg 0 tbl all 3 (idOf 2) [nd 2 2, nd 3 3, { nd 5 5 with lastResp := none }] = false ∧
    closestAllowed cfg 0 tbl all 2 (idOf 2) [nd 2 2, nd 3 3, nd 4 4] = false := by decide +kernel

open C09.Ex in
/-- `k = 3`: bucket 158 whole, then one from bucket 157; and a short answer when the buckets
below the start are exhausted (bucket 159 is never visited from start 158). -/
example :
    closestAllowed cfg 0 tbl all 3 (idOf 2) [nd 3 3, nd 2 2, nd 4 4] = true ∧
    closestAllowed cfg 0 tbl all 8 (idOf 2) [nd 3 3, nd 2 2, nd 4 4] = true ∧
    closestAllowed cfg 0 tbl all 8 (idOf 2) [nd 3 3, nd 2 2, nd 4 4, nd 1 1] = false ∧
    closestDet cfg 0 tbl all 3 (idOf 2) = [nd 2 2, nd 3 3, nd 4 4] ∧
    tbl.Nodup := by decide +kernel

/-- T1 by translation: `shouldReturnNodes` / `shouldReturnNodes6` in server.go are the model's BEP 32 gates,
and `Server.IsGood` / `Server.nodeErr` are the model's `isGood` / `isBad`, for all arguments. -/
theorem C09.gates_and_goodness_are_the_source (want : List (List UInt8)) (srcIp : List UInt8) (c : TableCfg) (now : Nat) (n : Node) :
    DExp.evalWith (srnCond want srcIp) (srnRet want srcIp) Gen.treeShouldReturnNodes = some (shouldReturnNodes want srcIp) ∧
    DExp.evalWith (srnCond want srcIp) (srnRet want srcIp) Gen.treeShouldReturnNodes6 = some (shouldReturnNodes6 want srcIp) ∧
    DExp.evalWith (isGoodCond c n) (isGoodRet c now n) Gen.treeIsGood = some (isGood c now n) ∧
    DExp.evalWith (nodeErrCond c n) nodeErrRet Gen.treeNodeErr = some (isBad c n) :=
  ⟨(SourceTrees.shouldReturnNodes want srcIp).1, (SourceTrees.shouldReturnNodes want srcIp).2,
   SourceTrees.isGood c now n, SourceTrees.nodeErr c n⟩

end Dht
