/-
T1 by translation (part of the former Props/SourceTrees.lean, split per source function so that an edit of one
function only touches the property that owns it): the regenerated decision expression of the function, interpreted
with an atom table (source text |-> meaning on model values, unknown text |-> none), equals the model function
for all arguments; with negative checks on hand-mutated trees.
-/
import DhtVerif.Model.SourceTrees
import DhtVerif.Props.STCommon
import DhtVerif.Model.SourceTrees2
import DhtVerif.Model.Server
import DhtVerif.Props.STNodes
namespace Dht
open Gen (DExp SExp)

/-! ### server.go validNodeAddr and Server.TraversalNodeFilter -/

def vnaLetsExpected : List String := ["$1 := addr.(*net.UDPAddr)", "$2 := $1.IP.To4()"]

/-- `ua` is the UDP address (IP bytes, port), `ip4` its `To4()`. -/
def vnaCond (ip : List UInt8) (port : Nat) : String → Option Bool
  | "$1.Port == 0" => some (port == 0)
  | "$2 != nil && $2[0] == 0" => some (
    match to4 ip with
    | some v4 => v4.getD 0 0 == 0
    | none => false)
  | _ => none

/-- `validNodeAddr` in server.go is `Dht.validNodeAddr`. -/
theorem SourceTrees.validNodeAddr (ip : List UInt8) (port : Nat) :
    Gen.treeValidNodeAddrLets = vnaLetsExpected ∧
    DExp.evalWith (vnaCond ip port) boolRet Gen.treeValidNodeAddr = some (Dht.validNodeAddr ip port) := by
  refine ⟨by decide, ?_⟩
  simp only [Gen.treeValidNodeAddr, DExp.evalWith, vnaCond, Dht.validNodeAddr]
  cases to4 ip with
  | none => cases (port == 0) <;> simp [boolRet]
  | some v4 =>
    simp only []
    generalize (v4.getD 0 0 == 0) = z
    cases (port == 0) <;> cases z <;> simp [boolRet]

/-- Negative check: the port test dropped (known atoms): port 0 is accepted. -/
example : DExp.evalWith (vnaCond [1, 2, 3, 4] 0) boolRet
      (DExp.ite "$2 != nil && $2[0] == 0" (DExp.ret "false") (DExp.ret "true")) = some true ∧
    validNodeAddr [1, 2, 3, 4] 0 = false := by
  constructor <;> decide +kernel

/-- Negative check: `||` for `&&` in the second test: unknown atom, no value for any non-zero port. -/
example (ip : List UInt8) (port : Nat) (h : (port == 0) = false) :
    DExp.evalWith (vnaCond ip port) boolRet
      (DExp.ite "$1.Port == 0" (DExp.ret "false") (DExp.ite "$2 != nil || $2[0] == 0" (DExp.ret "false") (DExp.ret "true"))) = none := by
  simp [DExp.evalWith, vnaCond, h]

/-- `node.Addr.UDP()` / `node.Addr.IP()` are the candidate's IP bytes and port; `validNodeAddr` is read from its
own source; `node.Id.Value` has a value only when `node.Id.Ok`; `NodeIdSecure` is the model's `nodeIdSecure`
(where Go would index out of range: not secure, as in `Node.isSecure`). -/
def tnfCond (c : SrvCfg) (n : Cand) : String → Option Bool
  | "!validNodeAddr(node.Addr.UDP())" =>
    (DExp.evalWith (vnaCond n.addr.ip n.addr.port) boolRet Gen.treeValidNodeAddr).map (!·)
  | "s.ipBlocked(node.Addr.IP())" => some (c.blocked n.addr.ip)
  | "!node.Id.Ok" => some (!n.id.isSome)
  | _ => none

def tnfRet (c : SrvCfg) (n : Cand) : String → Option Bool
  | "true" => some true
  | "false" => some false
  | "s.config.NoSecurity || NodeIdSecure(node.Id.Value.AsByteArray(), node.Addr.IP())" =>
    n.id.map (fun id => c.tbl.noSecurity || (nodeIdSecure id n.addr.ip).getD false)
  | _ => none

/-- `Server.TraversalNodeFilter` in server.go is `Dht.traversalNodeFilter`. -/
theorem SourceTrees.traversalNodeFilter (c : SrvCfg) (n : Cand) :
    DExp.evalWith (tnfCond c n) (tnfRet c n) Gen.treeTraversalNodeFilter = some (Dht.traversalNodeFilter c n) := by
  simp only [Gen.treeTraversalNodeFilter, DExp.evalWith, tnfCond, (SourceTrees.validNodeAddr _ _).2,
    Dht.traversalNodeFilter]
  cases Dht.validNodeAddr n.addr.ip n.addr.port <;> cases c.blocked n.addr.ip <;> cases h : n.id <;>
    simp [tnfRet, h]

/-- What the filter means for the model's table policy: a candidate with a known ID passes iff its address is
valid, not blocked, and the node it names passes the security test of `isBad` … -/
theorem traversalNodeFilter_some (c : SrvCfg) (id : Id) (a : Addr) :
    traversalNodeFilter c ⟨some id, a⟩ =
      (validNodeAddr a.ip a.port && !c.blocked a.ip &&
        (c.tbl.noSecurity || Node.isSecure { id := id, addr := ⟨a.ip, a.port⟩ })) := by
  simp only [traversalNodeFilter, Node.isSecure]
  cases validNodeAddr a.ip a.port <;> cases c.blocked a.ip <;> simp

/-- … so a candidate that passes, is not the server itself and has a non-zero ID is not a bad node when it
enters the table (the four tests of `nodeErr`; a new entry has not failed a ping). -/
theorem traversalNodeFilter_notBad (c : SrvCfg) (id : Id) (a : Addr)
    (h : traversalNodeFilter c ⟨some id, a⟩ = true) (hroot : (id == c.tbl.root) = false) (hz : id.isZero = false) :
    isBad c.tbl { id := id, addr := ⟨a.ip, a.port⟩ } = false := by
  rw [traversalNodeFilter_some] at h
  simp only [Bool.and_eq_true] at h
  simp [isBad, hroot, hz, h.2]

/-- … and a candidate without ID passes iff its address is valid and not blocked. -/
theorem traversalNodeFilter_none (c : SrvCfg) (a : Addr) :
    traversalNodeFilter c ⟨none, a⟩ = (validNodeAddr a.ip a.port && !c.blocked a.ip) := by
  simp only [traversalNodeFilter]
  cases validNodeAddr a.ip a.port <;> cases c.blocked a.ip <;> simp

/-- The filter honours the blocklist: a candidate at a blocked IP never passes. -/
theorem traversalNodeFilter_blocked (c : SrvCfg) (n : Cand) (h : c.blocked n.addr.ip = true) :
    traversalNodeFilter c n = false := by
  simp only [traversalNodeFilter, h]
  cases validNodeAddr n.addr.ip n.addr.port <;> simp

/-- The filter enforces BEP 42 unless `NoSecurity`: a candidate with a known ID that passes has an ID that
`nodeIdSecure` accepts for its address. -/
theorem traversalNodeFilter_secure (c : SrvCfg) (id : Id) (a : Addr) (hs : c.tbl.noSecurity = false)
    (h : traversalNodeFilter c ⟨some id, a⟩ = true) : nodeIdSecure id a.ip = some true := by
  rw [traversalNodeFilter_some] at h
  simp only [Bool.and_eq_true, hs, Bool.false_or, Node.isSecure] at h
  cases hn : nodeIdSecure id a.ip with
  | none => simp [hn] at h
  | some b => simpa [hn] using h.2

/-- Negative check with known atoms only: the blocklist test dropped. A blocked, otherwise acceptable
candidate passes the changed tree. -/
def treeTraversalNodeFilterMutNoBlock : DExp := DExp.ite "!validNodeAddr(node.Addr.UDP())" (DExp.ret "false") (DExp.ite "!node.Id.Ok" (DExp.ret "true") (DExp.ret "s.config.NoSecurity || NodeIdSecure(node.Id.Value.AsByteArray(), node.Addr.IP())"))

theorem SourceTrees.traversalNodeFilter_mutNoBlock_wrong (c : SrvCfg) (a : Addr)
    (hv : Dht.validNodeAddr a.ip a.port = true) (hb : c.blocked a.ip = true) :
    DExp.evalWith (tnfCond c ⟨none, a⟩) (tnfRet c ⟨none, a⟩) treeTraversalNodeFilterMutNoBlock = some true ∧
    Dht.traversalNodeFilter c ⟨none, a⟩ = false := by
  simp [treeTraversalNodeFilterMutNoBlock, DExp.evalWith, tnfCond, (SourceTrees.validNodeAddr _ _).2, hv, hb,
    tnfRet, Dht.traversalNodeFilter]

example : ¬ ∀ (c : SrvCfg) (n : Cand),
    DExp.evalWith (tnfCond c n) (tnfRet c n) treeTraversalNodeFilterMutNoBlock = some (traversalNodeFilter c n) := by
  intro h
  have h' := h { tbl := { root := [1] }, blocked := fun _ => true } ⟨none, ⟨1, [1, 2, 3, 4], 5⟩⟩
  have w := SourceTrees.traversalNodeFilter_mutNoBlock_wrong { tbl := { root := [1] }, blocked := fun _ => true }
    ⟨1, [1, 2, 3, 4], 5⟩ (by decide +kernel) rfl
  rw [w.1, w.2] at h'
  exact absurd h' (by simp)

/-- Negative check: `&&` for `||` in the security test. Unknown result: no value for a valid, unblocked
candidate with a known ID. -/
example (c : SrvCfg) (id : Id) (a : Addr) (hv : validNodeAddr a.ip a.port = true) (hb : c.blocked a.ip = false) :
    DExp.evalWith (tnfCond c ⟨some id, a⟩) (tnfRet c ⟨some id, a⟩)
      (DExp.ite "!validNodeAddr(node.Addr.UDP())" (DExp.ret "false") (DExp.ite "s.ipBlocked(node.Addr.IP())" (DExp.ret "false") (DExp.ite "!node.Id.Ok" (DExp.ret "true") (DExp.ret "s.config.NoSecurity && NodeIdSecure(node.Id.Value.AsByteArray(), node.Addr.IP())")))) = none := by
  simp [DExp.evalWith, tnfCond, (SourceTrees.validNodeAddr _ _).2, hv, hb, tnfRet]


theorem SourceTrees.traversalNodeFilter_no_skipped_statements : Gen.treeTraversalNodeFilterLets = [] := by decide

end Dht
