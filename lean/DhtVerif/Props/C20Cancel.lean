/-
C20, continued — the send budget when reservations are abandoned (`Reservation.CancelAt`).

Model: `Model/RateCancel.lean` (`CBucket` = `Bucket` + `lastEvent`, `Resv`, `CBucket.cancelAt`,
histories `CHist.run` over `adv dt | allow | reserve | use i | cancel i | cancelStale i t | giveBack`).
Units as in `Props/C20.lean`: `U = q·10⁹` units per token, `p` units accrue per ns, `p·t` is the
scaled form of the instant `t` ns; `U·n ≤ burst·U + p·(t − t0)` reads `n ≤ burst + rate·(t − t0)`.

A reservation is *used* (`use i`: its datagram is written, at or after its slot) or *cancelled*
(`cancel i`: `CancelAt(now)`); a cancelled reservation is not a datagram. `allow` grants become
datagrams at once. The clock of a history never steps back and `cancel` presents the limiter with
the current instant (`CEv.timely`); `cancelStale` is the seeded defect.

Two findings about rate.go that shape the statements (both kept below as `decide`d facts):

* `restoreTokens = 1 − limit·(lastEvent − timeToAct)` exceeds one token whenever `lastEvent` lies
  BEFORE the reservation's `timeToAct`. `AllowN(now, -1)` (the give-back of `writeToNode`) sets
  `lastEvent = now`, below every pending reservation; cancelling one of those then credits up to two
  tokens and the budget IS exceeded (`C20.giveback_then_cancel_breaks_bound`). Without give-backs
  the same over-credit can occur after an earlier under-credit (`C20.cancel_can_restore_more`);
  no excess over the budget was found there (random search), but it is not proved.
* Hence the budget theorems carry the hypothesis `CHist.wasteOk`: at every moment the cancellations
  so far have together credited at most the tokens they had reserved (each one gives up one token
  of budget and hands back `credited`; the running total of the differences, `wasteStep`, never
  falls below zero). It is implied by `CHist.runOk` (`C20.waste_ok_of_run_ok`): every cancellation
  that reaches the bucket credits at most its own token, i.e. `lastEvent ≥ timeToAct` at that moment
  (`C20.credit_ok_iff`); a cancellation right after its own reservation always does
  (`C20.immediate_cancel_ok`). What is NOT proved: that `wasteOk` holds for every history without
  give-backs.
-/
import DhtVerif.Model.RateCancel
import DhtVerif.Lemmas.C20Cancel
namespace Dht

/-! ## One cancellation -/

/-- `restoreTokens ≤ 1` exactly when `lastEvent` is not before the reservation's `timeToAct`. -/
theorem C20.restore_le_unit_iff (c : CBucket) (r : Resv) :
    c.restore r ≤ (c.b.unit : Int) ↔ r.act ≤ c.lastEvent := by
  unfold CBucket.restore; omega

/-- A cancellation never credits more than the one token it reserved — PROVIDED `lastEvent` is not
before the reservation's `timeToAct` (false without that: `cancel_can_restore_more`). Either the
limiter is left as it was, or it is advanced to `t` and gains at most one token, capped at the
bucket size. -/
theorem C20.cancel_restores_at_most_reserved (c : CBucket) (r : Resv) (t : Nat) (hle : r.act ≤ c.lastEvent) :
    c.cancelAt r t = c ∨
      ((c.cancelAt r t).b.tokens ≤ c.b.tokensAt t + (c.b.unit : Int) ∧
       (c.cancelAt r t).b.tokens ≤ (c.b.cap : Int) ∧
       c.b.tokensAt t ≤ (c.cancelAt r t).b.tokens ∧
       (c.cancelAt r t).b.last = t ∧
       (c.cancelAt r t).lastEvent ≤ c.lastEvent) := by
  have hr := (C20.restore_le_unit_iff c r).mpr hle
  unfold CBucket.cancelAt
  by_cases h1 : (!c.finite) = true
  · left; rw [if_pos h1]
  · rw [if_neg h1]
    by_cases h2 : r.slot < t
    · left; rw [if_pos h2]
    · rw [if_neg h2]
      by_cases h3 : c.restore r ≤ 0
      · left; rw [if_pos h3]
      · rw [if_neg h3]
        right
        have hcap : c.b.tokensAt t ≤ (c.b.cap : Int) := by unfold Bucket.tokensAt; omega
        refine ⟨?_, ?_, ?_, rfl, ?_⟩
        · show min (c.b.cap : Int) (c.b.tokensAt t + c.restore r) ≤ c.b.tokensAt t + (c.b.unit : Int)
          omega
        · show min (c.b.cap : Int) (c.b.tokensAt t + c.restore r) ≤ (c.b.cap : Int)
          omega
        · show c.b.tokensAt t ≤ min (c.b.cap : Int) (c.b.tokensAt t + c.restore r)
          omega
        · show (if r.act = c.lastEvent ∧ c.b.p * t + c.b.unit ≤ r.act then r.act - c.b.unit else c.lastEvent) ≤ c.lastEvent
          split <;> omega

/-- A cancellation presented with an instant after the reservation's slot, or whose token has been
passed on to later reservations (`lastEvent − timeToAct ≥` one token's duration), does nothing. -/
theorem C20.cancel_noop (c : CBucket) (r : Resv) (t : Nat)
    (h : r.slot < t ∨ r.act + c.b.unit ≤ c.lastEvent) : c.cancelAt r t = c := by
  unfold CBucket.cancelAt
  by_cases h1 : (!c.finite) = true
  · rw [if_pos h1]
  · rw [if_neg h1]
    by_cases h2 : r.slot < t
    · rw [if_pos h2]
    · rw [if_neg h2, if_pos]
      unfold CBucket.restore
      omega

/-- The hypothesis of the budget theorem, spelled out for one event. -/
theorem C20.credit_ok_iff (s : CHist) (i : Nat) (r : Resv) (hr : s.pending[i]? = some r) :
    s.creditOk (.cancel i) = true ↔ (r.slot < s.now ∨ r.act ≤ s.c.lastEvent) := by
  simp only [CHist.creditOk, hr, Bool.or_eq_true, decide_eq_true_eq, C20.restore_le_unit_iff]

/-- Kept counterexample: the unconditional form of `cancel_restores_at_most_reserved` is false even
without give-backs and with every instant current. 1 token/s, burst 2; at 0.5 s the bucket holds 1.5
tokens; three reservations at that instant get the slots 0.5 s, 1.0 s and (after the first is
cancelled, crediting ½) 1.5 s; cancelling the third rolls `lastEvent` back to 0.5 s, and cancelling
the second then credits 1.5 tokens. (In total 3 tokens for 3 cancellations: the bucket is back at
1.5, and the history meets `wasteOk` though not `runOk`.) -/
theorem C20.cancel_can_restore_more :
    let h : List CEv := [.allow, .adv 500000000, .reserve, .reserve, .cancel 0, .reserve, .cancel 1]
    let s := (CHist.init 1 1 2 0).run h
    h.all CEv.timely = true ∧
    s.pending = [⟨1000000000, 1000000000⟩] ∧ s.c.lastEvent = 500000000 ∧
    s.c.restore ⟨1000000000, 1000000000⟩ = 1500000000 ∧ s.creditOk (.cancel 0) = false ∧
    (s.step (.cancel 0)).c.b.tokens = 1500000000 ∧
    (CHist.init 1 1 2 0).runOk (h ++ [.cancel 0]) = false ∧
    (CHist.init 1 1 2 0).wasteOk 0 (h ++ [.cancel 0]) = true := by
  decide +kernel

/-- Per-event sufficient condition for the hypothesis of the budget theorems. -/
theorem C20.waste_ok_of_run_ok (s : CHist) (h : List CEv) (hok : s.runOk h = true) : s.wasteOk 0 h = true :=
  CHist.wasteOk_of_runOk h s 0 (Int.le_refl _) hok

/-- A reservation cancelled before anything else touches the limiter (the deadline test of
`limiterWait`) is the last event: it credits exactly its own token. -/
theorem C20.immediate_cancel_ok (s : CHist) (hinf : s.c.b.inf = false) (hp : 0 < s.c.b.p) (hb : 1 ≤ s.c.b.burst) :
    let s' := s.step .reserve
    s'.pending = s.pending ++ [⟨s.now + ceilDiv (s.c.b.deficit s.now) s.c.b.p, s.c.b.actScaled s.now⟩] ∧
    s'.c.lastEvent = s.c.b.actScaled s.now ∧
    s'.creditOk (.cancel s.pending.length) = true ∧
    s'.wasteStep (.cancel s.pending.length) = 0 := by
  have hfin := CBucket.finite_of s.c hinf hp
  have hstep : s.step .reserve = { s with
      c := ⟨{ s.c.b with tokens := s.c.b.tokensAt s.now - (s.c.b.unit : Int), last := s.now }, s.c.b.actScaled s.now⟩,
      pending := s.pending ++ [⟨s.now + ceilDiv (s.c.b.deficit s.now) s.c.b.p, s.c.b.actScaled s.now⟩] } := by
    simp only [CHist.step, CBucket.reserve, Bucket.reserve_ok _ _ hinf hp hb, hfin, if_true]
  intro s'
  have hs' : s' = _ := hstep
  have hget : s'.pending[s.pending.length]? =
      some ⟨s.now + ceilDiv (s.c.b.deficit s.now) s.c.b.p, s.c.b.actScaled s.now⟩ := by
    rw [hs']; simp
  have hfin' : s'.c.finite = true := by rw [hs']; exact hfin
  have hrest : s'.c.restore ⟨s.now + ceilDiv (s.c.b.deficit s.now) s.c.b.p, s.c.b.actScaled s.now⟩
      = (s.c.b.unit : Int) := by
    rw [hs']; simp only [CBucket.restore, Bucket.unit]; omega
  have hnow : s'.now = s.now := by rw [hs']
  have hunit : s'.c.b.unit = s.c.b.unit := by rw [hs']; rfl
  refine ⟨by rw [hs'], by rw [hs'], ?_, ?_⟩
  · simp only [CHist.creditOk, hget, hrest, hunit, Bool.or_eq_true, decide_eq_true_eq]
    right; exact Int.le_refl _
  · simp only [CHist.wasteStep, hget, CHist.credited, hfin', hrest, hunit, hnow]
    by_cases hu : 0 < s.c.b.unit
    · simp [hu]
    · have : s.c.b.unit = 0 := by omega
      simp [this]

/-! ## Histories -/

/-- Prefix windows with cancellations. For every history of `allow` / `reserve` then `use` /
`reserve` then `cancel` / `giveBack` events with non-decreasing instants, in which cancellations
present the current instant and have together never credited more than they reserved: the live grants (datagrams written
and reservations still held; cancelled reservations are not among them) whose token is covered by
now, net of the tokens given back, number at most `burst + rate·(now − t0)`. Same shape as
`C20.prefix_bound`; every prefix of a history is a history. -/
theorem C20.prefix_bound_with_cancel (p q burst t0 : Nat) (hp : 0 < p) (h : List CEv)
    (ht : h.all CEv.timely = true) (hok : (CHist.init p q burst t0).wasteOk 0 h = true) :
    let s := (CHist.init p q burst t0).run h
    (q * nsPerSec) * s.effective (p * s.now) + p * t0
      ≤ burst * (q * nsPerSec) + p * s.now + (q * nsPerSec) * s.returned := by
  intro s
  obtain ⟨w, W, i⟩ := CHist.inv_run hp h (CHist.WF.init p q burst t0) (CHist.Inv.init p q burst t0) ht hok
  exact i.prefix_bound w

/-- Every datagram written under a grant left no earlier than the instant its token was covered,
and no later than now; so the datagrams are among the effective live grants. -/
theorem C20.datagrams_are_effective (p q burst t0 : Nat) (hp : 0 < p) (h : List CEv)
    (ht : h.all CEv.timely = true) (hok : (CHist.init p q burst t0).wasteOk 0 h = true) :
    let s := (CHist.init p q burst t0).run h
    (∀ d ∈ s.out, d.act ≤ p * d.time ∧ d.time ≤ s.now) ∧
    (∀ r ∈ s.pending, r.act ≤ p * r.slot) ∧
    s.sent ≤ s.effective (p * s.now) := by
  intro s
  obtain ⟨w, W, i⟩ := CHist.inv_run hp h (CHist.WF.init p q burst t0) (CHist.Inv.init p q burst t0) ht hok
  have io := i.out_ok
  have ip := i.pend_ok
  rw [w.hp] at io ip
  exact ⟨io, ip, i.sent_le_effective w⟩

/-- Hence the grants that became datagrams by now — cancelled reservations do not — number at most
`burst + rate·(now − t0)`, plus the tokens given back. -/
theorem C20.datagrams_bound_with_cancel (p q burst t0 : Nat) (hp : 0 < p) (h : List CEv)
    (ht : h.all CEv.timely = true) (hok : (CHist.init p q burst t0).wasteOk 0 h = true) :
    let s := (CHist.init p q burst t0).run h
    (q * nsPerSec) * s.sent + p * t0 ≤ burst * (q * nsPerSec) + p * s.now + (q * nsPerSec) * s.returned := by
  intro s
  obtain ⟨w, W, i⟩ := CHist.inv_run hp h (CHist.WF.init p q burst t0) (CHist.Inv.init p q burst t0) ht hok
  have h1 := i.prefix_bound w
  have h3 : (q * nsPerSec) * ((CHist.init p q burst t0).run h).sent ≤ _ := Nat.mul_le_mul_left (q * nsPerSec) (i.sent_le_effective w)
  exact Nat.le_trans (Nat.add_le_add_right h3 _) h1

/-! ## Kept counterexamples -/

/-- The seeded defect: cancelling with the STALE instant of the reservation, `CancelAt(t_reserve)`
instead of `CancelAt(time.Now())`, after another event has advanced the limiter. 1 token/s,
burst 1. A is sent at 0; B reserves at 0 for the slot 1 s; C at 0.6 s reserves (slot 2 s) and, its
deadline lying before the slot, cancels at 0.6 s; B gives up at 0.65 s but cancels with the instant
0: `advance(0)` moves `last` back to 0 and the 0.6 s already credited are credited again; D at
0.72 s is granted at once. Two datagrams by 0.72 s against a budget of 1.72. Every cancellation in
this history credits exactly its own token (`runOk`, `wasteOk`), so timeliness alone is what fails; with
`CancelAt(0.65 s)` D is refused. -/
theorem C20.stale_cancel_breaks_bound :
    let stale : List CEv := [.allow, .reserve, .adv 600000000, .reserve, .cancel 1, .adv 50000000,
      .cancelStale 0 0, .adv 70000000, .allow]
    let timely : List CEv := [.allow, .reserve, .adv 600000000, .reserve, .cancel 1, .adv 50000000,
      .cancel 0, .adv 70000000, .allow]
    let s := (CHist.init 1 1 1 0).run stale
    let s' := (CHist.init 1 1 1 0).run timely
    (s.now = 720000000 ∧ s.sent = 2 ∧ s.returned = 0 ∧ s.pending = [] ∧ s.cancelled = 2 ∧
      withinBudget 1 1 1 s.sent s.now = false ∧
      ¬ (1 * nsPerSec) * s.sent + 1 * 0 ≤ 1 * (1 * nsPerSec) + 1 * s.now + (1 * nsPerSec) * s.returned) ∧
    (CHist.init 1 1 1 0).runOk stale = true ∧ (CHist.init 1 1 1 0).wasteOk 0 stale = true ∧
    stale.all CEv.timely = false ∧
    (s'.now = 720000000 ∧ s'.sent = 1 ∧ s'.cancelled = 2 ∧ withinBudget 1 1 1 s'.sent s'.now = true ∧
      (CHist.init 1 1 1 0).wasteOk 0 timely = true ∧ timely.all CEv.timely = true) := by
  decide +kernel

/-- rate.go itself: a give-back (`AllowN(now, -1)`, after a failed socket write) while a reservation
is pending sets `lastEvent = now`, before that reservation's `timeToAct`; cancelling the reservation
then credits `1 + limit·(timeToAct − now)` tokens. 1 token/s, burst 3, everything at instant 0:
three sends, a reservation (slot 1 s), a give-back, the cancellation (credits 2 tokens), two more
sends: 5 grants became datagrams, one was given back, the budget is 3. All instants are current;
only `wasteOk` fails. -/
theorem C20.giveback_then_cancel_breaks_bound :
    let h : List CEv := [.allow, .allow, .allow, .reserve, .giveBack, .cancel 0, .allow, .allow]
    let s := (CHist.init 1 1 3 0).run h
    h.all CEv.timely = true ∧ (CHist.init 1 1 3 0).wasteOk 0 h = false ∧
    s.now = 0 ∧ s.sent = 5 ∧ s.returned = 1 ∧ s.cancelled = 1 ∧ s.pending = [] ∧
    ¬ (1 * nsPerSec) * s.sent + 1 * 0 ≤ 3 * (1 * nsPerSec) + 1 * s.now + (1 * nsPerSec) * s.returned := by
  decide +kernel

/-! ## Non-vacuity -/

/-- A history with both kinds of cancellation that meets the hypotheses of the theorems: 2/s,
burst 2. Two sends, three reservations (slots 0.5 s, 1 s, 1.5 s); the last is cancelled at 0.1 s
(one token back, `lastEvent` rolls back to 1 s), the first is cancelled at 0.2 s (its token has been
passed on: nothing is credited), the second is used at its slot; a send at 1 s is refused, one at
1.5 s passes. -/
example :
    let h : List CEv := [.allow, .allow, .reserve, .reserve, .reserve, .adv 100000000, .cancel 2,
      .adv 100000000, .cancel 0, .adv 800000000, .use 0, .allow, .adv 500000000, .allow]
    let s := (CHist.init 2 1 2 0).run h
    h.all CEv.timely = true ∧ (CHist.init 2 1 2 0).wasteOk 0 h = true ∧ (CHist.init 2 1 2 0).runOk h = true ∧
    s.cancelled = 2 ∧ s.sent = 4 ∧ s.pending = [] ∧ s.now = 1500000000 ∧
    s.out.map (·.time) = [1500000000, 1000000000, 0, 0] ∧ s.effective (2 * s.now) = 4 := by
  decide +kernel

/-- `cancel_restores_at_most_reserved`, second alternative, on a concrete limiter: 1/s, burst 1, one
send and one reservation at 0, cancelled at 0.25 s: the quarter token accrued plus the token back. -/
example :
    let c := ((CBucket.new 1 1 1 0).allow 0).2
    let r := c.reserve 0 none
    r.1 = some ⟨1000000000, 1000000000⟩ ∧ r.2.lastEvent = 1000000000 ∧
    (r.2.cancelAt ⟨1000000000, 1000000000⟩ 250000000).b.tokens = 250000000 ∧
    (r.2.cancelAt ⟨1000000000, 1000000000⟩ 250000000).lastEvent = 1000000000 := by
  decide +kernel

/-- The bound is still tight with cancellations: 1/s, burst 1; a reservation cancelled in time
leaves room for exactly the send it would have been. -/
example :
    let s := (CHist.init 1 1 1 0).run [.allow, .reserve, .adv 400000000, .cancel 0, .adv 600000000, .allow, .allow]
    s.sent = 2 ∧ s.cancelled = 1 ∧ (1 * nsPerSec) * s.sent + 1 * 0 = 1 * (1 * nsPerSec) + 1 * s.now := by
  decide +kernel

end Dht
