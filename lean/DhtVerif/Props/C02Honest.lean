/-
C02 (last sentence) — "If every contacted node answers with the true K closest
nodes of a finite network, the result is exactly the K closest nodes of that
network."

The definitions used by the statements are in Lemmas/C02HonestDefs.lean:

* `NetNode := Id × Addr`, `NetWF net` — a finite network: 20-byte IDs, pairwise
  different IDs, pairwise different printed addresses (`Addr.strKey`), valid addresses;
* `netDist t n` — XOR distance of node `n` to the target as a number;
  `kClosest t k net` — the nodes of `net` that have fewer than `k` nodes of `net`
  strictly closer to `t` (for a well-formed network: exactly `min k |net|` nodes, the
  first `k` of the network sorted by distance — theorems `C02.kClosest_*` below);
* `HonestReply c net a r` — the answer `r` of the node at address `a`: `a` is the address of
  a network node, `r.responder` is that node's ID, `r.data` passes the data filter, all listed
  candidates are well-formed, and `r.nodes ++ r.nodes6` contains every one of the K closest
  nodes of the network with its true ID (any order, any split);
  `ExactReply` — the literal reading: `r.nodes ++ r.nodes6` lists *exactly* the K closest;
* `HonestHist c net evs` — every `queryReturn a r` of the history has `HonestReply c net a r`
  (so every contacted node answers, and is a network node), every `addNodes` event (seeds,
  late `AddNodes`) names well-formed candidates (any 20-byte ID or none, any address);
  `ExactHist` — the literal reading: seeds name network nodes (true ID or no ID), replies are exact;
* `closestNodes s` — the (ID, address) pairs of `s.closest`, in its order.

A lookup is *finished* when the run loop sleeps on the current generation offering the
stalled signal, nothing is mid-completion and it is not stopping (the situation of
`C03.stalled_means_exhausted`). "The run has started" is stated as: some `queryReturn` event
occurs in the history (the core form takes the weaker `s.started ≠ []`: somebody was contacted).
-/
import DhtVerif.Model.Traversal
import DhtVerif.Props.C02
import DhtVerif.Lemmas.C02Honest
import DhtVerif.Lemmas.C02HonestWake
import DhtVerif.Lemmas.C02HonestCheck
import DhtVerif.Lemmas.C02HonestOrder
import DhtVerif.Lemmas.C02HonestStarted
namespace Dht

/-- A query is "mid-completion" between its `addClosest` and its deferred finish
(the same definition as `midCompletion` of Props/C03, which cannot be imported here). -/
def C02.midCompletion (s : Trav) : Bool :=
  s.inflight.any (fun e => match e.2 with
    | .closestDone _ => true | .nodesDone _ => true | .nodes6Done => true | _ => false)

theorem C02.midCompletion_eq (s : Trav) : C02.midCompletion s = s.midH := by
  unfold C02.midCompletion Trav.midH
  congr 1

/-! ## The K closest nodes of a network -/

/-- A well-formed network has exactly `min k |net|` K-closest nodes. -/
theorem C02.kClosest_length (net : List NetNode) (hwf : NetWF net) (t : Id) (ht : t.length = 20)
    (k : Nat) : (kClosest t k net).length = min k net.length :=
  Dht.kClosest_length hwf t ht k

/-- They are network nodes, none twice, and every other network node is strictly farther
from the target than each of them. -/
theorem C02.kClosest_nearest (net : List NetNode) (hwf : NetWF net) (t : Id) (k : Nat) :
    (∀ n ∈ kClosest t k net, n ∈ net) ∧ (kClosest t k net).Nodup ∧
    (∀ n ∈ kClosest t k net, ∀ m ∈ net, m ∉ kClosest t k net → netDist t n < netDist t m) := by
  refine ⟨kClosest_sub t k net, kClosest_nodup t k net hwf.nodup, ?_⟩
  intro n hn m hm hmk
  apply Classical.byContradiction
  intro hlt
  have h1 := ((mem_kClosest t k net n).mp hn).2
  have h2 : ¬ (closerNodes t net m).length < k := fun h => hmk ((mem_kClosest t k net m).mpr ⟨hm, h⟩)
  have hnd : (closerNodes t net m).Nodup := hwf.nodup.sublist List.filter_sublist
  have := KNN.list_length_le_of_nodup_of_subset _ (closerNodes t net n) hnd (by
    intro x hx
    obtain ⟨hx1, hx2⟩ := (mem_closerNodes t net m x).mp hx
    exact (mem_closerNodes t net n x).mpr ⟨hx1, by omega⟩)
  omega

/-- They are the first `k` nodes of the network sorted by distance. -/
theorem C02.kClosest_eq_take_sorted (net : List NetNode) (hwf : NetWF net) (t : Id)
    (ht : t.length = 20) (k : Nat) (n : NetNode) :
    n ∈ kClosest t k net ↔ n ∈ (sortByDist t net).take k :=
  mem_kClosest_iff_take hwf t ht k n

/-! ## The property -/

/-- Core form, independent of how quiescence is observed: in any reachable state of an
honestly answered lookup in which no query is in flight, no query can be started and somebody
was contacted, the closest set holds exactly the K closest nodes of the network. -/
theorem C02.honest_network_exact_quiescent (c : TravCfg) (net : List NetNode)
    (ht : c.target.length = 20) (hwf : NetWF net)
    (hnf : ∀ n ∈ net, c.nodeFilter n.cand = true)
    (evs : List TravEv) (s : Trav) (hh : HonestHist c net evs)
    (h : Trav.exec c {} evs = some s)
    (hidle : s.inflight = []) (hq : s.haveQuery c = false) (hstarted : s.started ≠ []) :
    (∀ n, n ∈ kClosest c.target c.k net ↔ n ∈ closestNodes s) ∧
    s.closest.length = min c.k net.length ∧
    closestNodes s = (sortByDist c.target net).take c.k := by
  have hsub := honest_kClosest_sub hwf ht hnf evs s hh h hidle hq hstarted
  have hsub' : ∀ n ∈ kClosest c.target c.k net, n ∈ closestNodes s := by
    intro n hn
    obtain ⟨m, hm, hmn⟩ := hsub n hn
    exact List.mem_map.mpr ⟨m, hm, hmn⟩
  -- the members are pairwise different network nodes, at most `k`
  have hI : Trav.HInv c net (offered c {} evs) s := by
    have := Trav.HInv.exec ht hnf evs {} s [] (Trav.HInv.init c net) hh h
    simpa using this
  have hK := C18.knn_invariant _ _ _ _ (C02.reach c evs s h)
  have hclnet : ∀ x ∈ closestNodes s, x ∈ net := by
    intro x hx
    obtain ⟨m, hm, rfl⟩ := List.mem_map.mp hx
    exact hI.hist_net m (KNN.mem_latest_imp _ m (hK.sub m hm))
  have hnd : (closestNodes s).Nodup := closestPairs_nodup s.closest hK.nodupS
  have hlen_map : (closestNodes s).length = s.closest.length := List.length_map _
  have hle_k : s.closest.length ≤ c.k := (C02.closest_le_K c evs s h).1
  have hle_net : (closestNodes s).length ≤ net.length :=
    KNN.list_length_le_of_nodup_of_subset _ _ hnd hclnet
  have hkc_nd := kClosest_nodup c.target c.k net hwf.nodup
  have hkc_len := Dht.kClosest_length hwf c.target ht c.k
  have hkc_le := KNN.list_length_le_of_nodup_of_subset _ _ hkc_nd hsub'
  have hback := KNN.list_subset_of_nodup_of_length_le _ _ hkc_nd hsub' (by omega)
  have hiff : ∀ n, n ∈ kClosest c.target c.k net ↔ n ∈ closestNodes s :=
    fun n => ⟨hsub' n, hback n⟩
  refine ⟨hiff, by omega, ?_⟩
  -- same elements, both in strictly increasing distance order
  have hsorted_nd := nodup_sortByDist c.target net hwf.nodup
  apply strictly_sorted_ext (netDist c.target)
  · exact strict_of_sorted_nodup hwf c.target ht _ hclnet hnd
      (sortedD_closestNodes c.target s.closest hK.sorted)
  · exact strict_of_sorted_nodup hwf c.target ht _
      (fun x hx => (mem_sortByDist c.target net x).mp (List.mem_of_mem_take hx))
      (hsorted_nd.sublist (List.take_sublist _ _))
      ((pairwise_sortByDist c.target net).sublist (List.take_sublist _ _))
  · intro x
    rw [← hiff x]
    exact mem_kClosest_iff_take hwf c.target ht c.k x

/-- **C02, last sentence.** A finite well-formed network, a 20-byte target, filters that accept the
network; a history in which every contacted node answers honestly (its true ID, and node lists
containing the true K closest nodes of the network). When the lookup is finished — the run loop
sleeps on the current generation offering stalled, nothing mid-completion, not stopping — and at
least one query returned, its result is exactly the K closest nodes of the network: the same nodes,
`min K |net|` of them, listed in distance order. -/
theorem C02.honest_network_exact (c : TravCfg) (net : List NetNode)
    (hsig : c.sigBeforeUnlock = true) (halpha : c.alpha > 0)
    (ht : c.target.length = 20) (hwf : NetWF net)
    (hnf : ∀ n ∈ net, c.nodeFilter n.cand = true)
    (evs : List TravEv) (s : Trav) (hh : HonestHist c net evs)
    (h : Trav.exec c {} evs = some s)
    (g : Nat) (hrun : s.run = .sleeping g true) (hgen : s.gen = g) (hstop : s.stopping = false)
    (hmid : C02.midCompletion s = false) (hret : ∃ a r, TravEv.queryReturn a r ∈ evs) :
    (∀ n, n ∈ kClosest c.target c.k net ↔ n ∈ closestNodes s) ∧
    s.closest.length = min c.k net.length ∧
    closestNodes s = (sortByDist c.target net).take c.k := by
  obtain ⟨hidle, hq⟩ := Trav.asleep_offering_quiescent hsig halpha h g hrun hgen hstop
    (by rw [← C02.midCompletion_eq]; exact hmid)
  obtain ⟨a, r, hr⟩ := hret
  exact C02.honest_network_exact_quiescent c net ht hwf hnf evs s hh h hidle hq
    (Trav.started_of_returned evs (Trav.Inv.init c) h a r hr)

/-- The literal reading as a special case: seeds name network nodes (with their true ID or
without ID) and every reply lists exactly the K closest nodes of the network. -/
theorem C02.honest_network_exact_literal (c : TravCfg) (net : List NetNode)
    (hsig : c.sigBeforeUnlock = true) (halpha : c.alpha > 0)
    (ht : c.target.length = 20) (hwf : NetWF net)
    (hnf : ∀ n ∈ net, c.nodeFilter n.cand = true)
    (evs : List TravEv) (s : Trav) (hh : ExactHist c net evs)
    (h : Trav.exec c {} evs = some s)
    (g : Nat) (hrun : s.run = .sleeping g true) (hgen : s.gen = g) (hstop : s.stopping = false)
    (hmid : C02.midCompletion s = false) (hret : ∃ a r, TravEv.queryReturn a r ∈ evs) :
    (∀ n, n ∈ kClosest c.target c.k net ↔ n ∈ closestNodes s) ∧
    s.closest.length = min c.k net.length ∧
    closestNodes s = (sortByDist c.target net).take c.k :=
  C02.honest_network_exact c net hsig halpha ht hwf hnf evs s (ExactHist.honest hwf hh) h g hrun hgen
    hstop hmid hret

/-- The finished state used above is the quiescent one (the content of `C03.no_lost_wakeup`,
re-proved in Lemmas/C02HonestWake.lean): nothing in flight, no query startable. -/
theorem C02.finished_is_quiescent (c : TravCfg) (hsig : c.sigBeforeUnlock = true) (halpha : c.alpha > 0)
    (evs : List TravEv) (s : Trav) (h : Trav.exec c {} evs = some s)
    (g : Nat) (hrun : s.run = .sleeping g true) (hgen : s.gen = g) (hstop : s.stopping = false)
    (hmid : C02.midCompletion s = false) : s.inflight = [] ∧ s.haveQuery c = false :=
  Trav.asleep_offering_quiescent hsig halpha h g hrun hgen hstop
    (by rw [← C02.midCompletion_eq]; exact hmid)

/-- A query that returned had been started (so the hypothesis `s.started ≠ []` of the core form is
implied by "at least one query returned"). -/
theorem C02.started_of_returned (c : TravCfg) (evs : List TravEv) (s : Trav)
    (h : Trav.exec c {} evs = some s) (a : Addr) (r : QResult)
    (hr : TravEv.queryReturn a r ∈ evs) : s.started ≠ [] :=
  Trav.started_of_returned evs (Trav.Inv.init c) h a r hr

/-! ## Non-vacuity

Target 0^160, K = 2, Alpha = 2. Four nodes at distances 1, 2, 4, 7. The lookup is seeded with
the farthest node only (without its ID). It answers with the two closest nodes, one in `nodes`,
one in `nodes6`; both are queried and answer with the same two nodes (the other way round). The
node at distance 4 is never contacted. -/

namespace C02.HonestEx

def nid (b : UInt8) : Id := List.replicate 19 0 ++ [b]
def addr (b : UInt8) : Addr := ⟨1, [10, 0, 0, b], 6881⟩

def nA : NetNode := (nid 1, addr 1)
def nB : NetNode := (nid 2, addr 2)
def nC : NetNode := (nid 4, addr 3)
def nD : NetNode := (nid 7, addr 4)

def net : List NetNode := [nD, nB, nC, nA]

def cfg : TravCfg := { target := List.replicate 20 0, k := 2, alpha := 2 }

def reply (n : NetNode) (tok : UInt8) (l l6 : List Cand) : QResult :=
  { responder := some n.1, data := some [tok], nodes := l, nodes6 := l6 }

def roundTrip (n : NetNode) (r : QResult) : List TravEv :=
  [.queryReturn n.2 r, .addClosest n.2, .addReplyNodes n.2, .addReplyNodes6 n.2, .finish n.2]

def evs : List TravEv :=
  [.addNodes [⟨none, nD.2⟩], .runEval] ++
  roundTrip nD (reply nD 9 [nA.cand] [nB.cand]) ++
  [.runWake .broadcast, .runEval] ++
  roundTrip nB (reply nB 8 [nB.cand, nA.cand] []) ++
  roundTrip nA (reply nA 7 [] [nA.cand, nB.cand]) ++
  [.runWake .broadcast, .runEval]

def sFin : Trav := (Trav.exec cfg {} evs).getD {}

theorem wf : NetWF net := ⟨by decide +kernel, by decide +kernel, by decide +kernel, by decide +kernel⟩

example : kClosest cfg.target cfg.k net = [nB, nA] := by decide +kernel

theorem honest : HonestHist cfg net evs := honestHistB_sound cfg net evs (by decide +kernel)

theorem run : Trav.exec cfg {} evs = some sFin := rfl

/-- The hypotheses of `C02.honest_network_exact` hold at the final state… -/
example : sFin.run = .sleeping 6 true ∧ sFin.gen = 6 ∧ sFin.stopping = false ∧
    C02.midCompletion sFin = false ∧ sFin.started = [addr 4, addr 1, addr 2] := by decide +kernel

/-- …and so does its conclusion: the closest set is the two nearest nodes, nearest first
(the seed at distance 7 answered and was pushed out; the node at distance 4 was never asked). -/
example : sFin.closest = [⟨nid 1, addr 1, some [7]⟩, ⟨nid 2, addr 2, some [8]⟩] := by decide +kernel

example : (∀ n, n ∈ kClosest cfg.target cfg.k net ↔ n ∈ closestNodes sFin) ∧
    sFin.closest.length = min cfg.k net.length ∧
    closestNodes sFin = (sortByDist cfg.target net).take cfg.k :=
  C02.honest_network_exact cfg net rfl (by decide) rfl wf (fun _ _ => rfl) evs sFin honest run 6
    (by decide +kernel) (by decide +kernel) (by decide +kernel) (by decide +kernel)
    ⟨nD.2, reply nD 9 [nA.cand] [nB.cand], by simp [evs, roundTrip]⟩

/-- The history is also an instance of the literal reading: the seed names a network node (without
ID) and each of the three replies lists exactly the two closest nodes. -/
theorem exact : ExactHist cfg net evs := exactHistB_sound cfg net evs (by decide +kernel)

example : closestNodes sFin = (sortByDist cfg.target net).take cfg.k :=
  (C02.honest_network_exact_literal cfg net rfl (by decide) rfl wf (fun _ _ => rfl) evs sFin exact run 6
    (by decide +kernel) (by decide +kernel) (by decide +kernel) (by decide +kernel)
    ⟨nD.2, reply nD 9 [nA.cand] [nB.cand], by simp [evs, roundTrip]⟩).2.2

/-- A history that is honest in the general sense only: the seed carries a wrong (but well-formed)
ID and a reply lists the node at distance 4 as well; the result is the same. -/
def evs' : List TravEv :=
  [.addNodes [⟨some (nid 0), nD.2⟩], .runEval] ++
  roundTrip nD (reply nD 9 [nA.cand, nC.cand] [nB.cand]) ++
  [.runWake .broadcast, .runEval] ++
  roundTrip nB (reply nB 8 [nB.cand, nA.cand] []) ++
  roundTrip nA (reply nA 7 [] [nA.cand, nB.cand]) ++
  [.runWake .broadcast, .runEval]

example : honestHistB cfg net evs' = true ∧ exactHistB cfg net evs' = false := by decide +kernel

example : (Trav.exec cfg {} evs').map (fun s => (closestNodes s, s.unq)) =
    some ([nA, nB], [nC.cand]) := by decide +kernel

/-- "At least one query returned" is needed: a lookup that is given no contacts finishes at once
with an empty result (the empty history is honest). -/
def sNone : Trav := (Trav.exec cfg {} [.runEval]).getD {}
example : Trav.exec cfg {} [.runEval] = some sNone := rfl
example : sNone.run = .sleeping 0 true ∧ sNone.gen = 0 ∧ sNone.stopping = false ∧
    C02.midCompletion sNone = false ∧ sNone.started = [] ∧ closestNodes sNone = [] := by decide +kernel

end C02.HonestEx

end Dht
