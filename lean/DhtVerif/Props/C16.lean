/-
C16 — announce hands each node back its own token, and always finishes.
-/
import DhtVerif.Model.Announce
import DhtVerif.Props.C02
import DhtVerif.Lemmas.C16
namespace Dht

/-- announce_peer goes only to members of the final closest set, each carrying
exactly the token stored with that member. -/
theorem C16.announce_targets_subset_closest (closest : List KElem) :
    ∀ o ∈ announceClosest closest, ∃ e ∈ closest, e.addr = o.dst ∧ e.data = some o.token := by
  intro o ho
  exact (mem_announceClosest closest o).mp ho

/-- … and every member of the closest set of an announce traversal carries a token, so all of them are announced to. -/
theorem C16.every_member_announced (target : Id) (nf : Cand → Bool) (evs : List TravEv) (s : Trav)
    (h : Trav.exec (announceCfg target nf) {} evs = some s) :
    (announceClosest s.closest).length = s.closest.length := by
  apply announceClosest_length_of_all_some
  intro e he
  exact (C02.members_responded_and_pass_filters _ evs s h e he).2.2

/-- The token sent to a node is the token that same node returned in this
traversal: each announce stems from a response of this traversal that came from
the announce's destination address and carried exactly that token. -/
theorem C16.token_is_own (target : Id) (nf : Cand → Bool) (evs : List TravEv) (s : Trav)
    (h : Trav.exec (announceCfg target nf) {} evs = some s) :
    ∀ o ∈ announceClosest s.closest, ∃ m ∈ offered (announceCfg target nf) {} evs,
      m.addr = o.dst ∧ m.data = some o.token ∧ nf ⟨some m.id, m.addr⟩ = true := by
  intro o ho
  obtain ⟨e, he, ha, hd⟩ := (mem_announceClosest s.closest o).mp ho
  have hm := C02.members_responded_and_pass_filters _ evs s h e he
  exact ⟨e, hm.1, ha, hd, hm.2.1⟩

/-- At most K announces, to pairwise different members. -/
theorem C16.at_most_k (target : Id) (nf : Cand → Bool) (evs : List TravEv) (s : Trav)
    (h : Trav.exec (announceCfg target nf) {} evs = some s) :
    (announceClosest s.closest).length ≤ (announceCfg target nf).k ∧ (announceCfg target nf).k = 8 := by
  refine ⟨?_, rfl⟩
  exact Nat.le_trans (announceClosest_length_le _) (C02.closest_le_K _ evs s h).1

/-- The acceptance predicate used for trace validation implies the property:
every announce goes to a responder that supplied exactly that token, no two
announces to one address, at most K of them. -/
theorem C16.allowed_sound (target : Id) (k : Nat) (nf : Cand → Bool) (resps : List GpResp) (outs : List AnnounceOut)
    (h : announceAllowed target k nf resps outs = true) :
    (∀ o ∈ outs, ∃ r ∈ resps, r.addr = o.dst ∧ r.token = some o.token ∧ nf ⟨some r.id, r.addr⟩ = true) ∧
    outs.length ≤ k := by
  have h' : (outs.all (fun o => (announceElig nf resps).any (fun e => o.dst == e.addr && some o.token == e.data)) &&
      (outs.map (·.dst.strKey)).eraseDups.length == outs.length &&
      outs.length == min k (announceElig nf resps).length) = true := by
    unfold announceAllowed at h
    simp only [Bool.and_eq_true] at h ⊢
    exact h.1
  simp only [Bool.and_eq_true, List.all_eq_true, List.any_eq_true, beq_iff_eq] at h'
  obtain ⟨⟨h1, _⟩, h3⟩ := h'
  refine ⟨?_, by omega⟩
  intro o ho
  obtain ⟨e, he, ha, hd⟩ := h1 o ho
  obtain ⟨r, hr, rfl, _, hnf⟩ := mem_announceElig nf resps e he
  exact ⟨r, hr, ha.symm, hd.symm, hnf⟩

/-- Strengthening of `allowed_sound`: no two accepted announces go to one address. -/
theorem C16.allowed_distinct (target : Id) (k : Nat) (nf : Cand → Bool) (resps : List GpResp) (outs : List AnnounceOut)
    (h : announceAllowed target k nf resps outs = true) :
    (outs.map (·.dst.strKey)).Nodup := by
  have h' : ((outs.map (·.dst.strKey)).eraseDups.length == outs.length) = true := by
    unfold announceAllowed at h
    simp only [Bool.and_eq_true] at h ⊢
    exact h.1.1.2
  rw [beq_iff_eq] at h'
  apply nodup_of_length_eraseDups
  rw [h', List.length_map]

/-- Strengthening of `at_most_k` ("pairwise different members"): the announces
correspond one for one, in order, to the members of the closest set, which has
no key twice. -/
theorem C16.announces_are_members (target : Id) (nf : Cand → Bool) (evs : List TravEv) (s : Trav)
    (h : Trav.exec (announceCfg target nf) {} evs = some s) :
    (announceClosest s.closest).map (·.dst) = s.closest.map (·.addr) ∧
    KNN.nodupKeys s.closest = true := by
  refine ⟨?_, (C02.closest_le_K _ evs s h).2.2⟩
  apply announceClosest_dsts_of_all_some
  intro e he
  exact (C02.members_responded_and_pass_filters _ evs s h e he).2.2

/-! ## Non-vacuity -/

namespace C16Ex
open TravEx

/-- Three responders at distances 3, 5, 1; the one at distance 5 supplied no token. -/
def resps : List GpResp :=
  [⟨addr 1, nid 3, some [1]⟩, ⟨addr 2, nid 5, none⟩, ⟨addr 4, nid 1, some [2]⟩]

/-- Four responders with tokens at distances 3, 5, 1, 7. -/
def resps4 : List GpResp :=
  [⟨addr 1, nid 3, some [1]⟩, ⟨addr 2, nid 5, some [9]⟩, ⟨addr 4, nid 1, some [2]⟩, ⟨addr 3, nid 7, some [7]⟩]

def tgt : Id := List.replicate 20 0
def nfAll : Cand → Bool := fun _ => true

end C16Ex

open C16Ex TravEx in
/-- Accepted: K = 2, the two nearest token holders are announced to, each with its own token. -/
example : announceAllowed tgt 2 nfAll resps [⟨addr 4, [2]⟩, ⟨addr 1, [1]⟩] = true := by
  decide +kernel

open C16Ex TravEx in
/-- Accepted with a real selection: of four token holders the two nearest (distances 1 and 3). -/
example : announceAllowed tgt 2 nfAll resps4 [⟨addr 4, [2]⟩, ⟨addr 1, [1]⟩] = true := by
  decide +kernel

open C16Ex TravEx in
/-- Rejected: the tokens of the two nodes are swapped. -/
example : announceAllowed tgt 2 nfAll resps [⟨addr 4, [1]⟩, ⟨addr 1, [2]⟩] = false := by
  decide +kernel

open C16Ex TravEx in
/-- Rejected: announce to the responder that supplied no token. -/
example : announceAllowed tgt 2 nfAll resps [⟨addr 4, [2]⟩, ⟨addr 2, []⟩] = false := by
  decide +kernel

open C16Ex TravEx in
/-- Rejected: not the K nearest (distance 5 chosen over distance 3). -/
example : announceAllowed tgt 2 nfAll resps4 [⟨addr 4, [2]⟩, ⟨addr 2, [9]⟩] = false := by
  decide +kernel

open C16Ex TravEx in
/-- Rejected: the same node twice. -/
example : announceAllowed tgt 2 nfAll resps [⟨addr 4, [2]⟩, ⟨addr 4, [2]⟩] = false := by
  decide +kernel

open C16Ex TravEx in
/-- Rejected: fewer announces than eligible responders allow. -/
example : announceAllowed tgt 2 nfAll resps [⟨addr 4, [2]⟩] = false := by
  decide +kernel

open TravEx in
/-- The hypotheses of the traversal theorems are met by a concrete announce
traversal (the lookup `TravEx.evs` under the announce configuration): the
responder without a token is not offered, the other two are announced to with
their own tokens. -/
example : (Trav.exec (announceCfg cfg.target cfg.nodeFilter) {} evs).map (fun s => announceClosest s.closest) =
    some [⟨addr 4, [2]⟩, ⟨addr 1, [1]⟩] := by
  decide +kernel

open TravEx in
example : offered (announceCfg cfg.target cfg.nodeFilter) {} evs =
    [⟨nid 3, addr 1, some [1]⟩, ⟨nid 1, addr 4, some [2]⟩] := by
  decide +kernel

/-- T1: the announce goroutine waits for stalled, stops the traversal, waits for
stopped, announces (if asked), marks the announce finished and closes the
channel — in that order; the traversal is started with the token data filter
and the server's node filter; a failed start stops the traversal. -/
def idxA (l : List String) (x : String) : Nat := l.findIdx (· == x)

theorem C16.source_order :
    idxA Gen.evAnnounceTraversal "recv:a.traversal.Stalled()" < idxA Gen.evAnnounceTraversal "recv:a.traversal.Stopped()" ∧
    idxA Gen.evAnnounceTraversal "recv:a.traversal.Stopped()" < idxA Gen.evAnnounceTraversal "a.announceClosest" ∧
    idxA Gen.evAnnounceTraversal "a.announceClosest" < idxA Gen.evAnnounceTraversal "a.peerAnnounced.Set" ∧
    idxA Gen.evAnnounceTraversal "a.peerAnnounced.Set" < idxA Gen.evAnnounceTraversal "close" ∧
    idxA Gen.evAnnounceTraversal "close" < Gen.evAnnounceTraversal.length := by
  decide +kernel

/-- T1: "always finishes" rests on the traversal never missing a wake-up. The stop waiter tests
`outstanding`, fetches the condition channel and only then unlocks and sleeps on it; the run loop does
the same; and every query completion decrements and broadcasts under the lock. (With the channel
fetched after the unlock the model loses the wake-up: `C03.lost_wakeup_if_signaled_after_unlock`.) -/
theorem C16.traversal_wakeups_source_order :
    idxA Gen.evStop "if:op.outstanding == 0" < idxA Gen.evStop "op.cond.Signaled" ∧
    Gen.evStop.getD (idxA Gen.evStop "op.cond.Signaled" + 1) "" = "op.mu.Unlock" ∧
    Gen.evStop.getD (idxA Gen.evStop "op.cond.Signaled" + 2) "" = "recv:cond" ∧
    Gen.evRun.getD (idxA Gen.evRun "op.cond.Signaled" + 1) "" = "op.mu.Unlock" ∧
    Gen.evRun.getD (idxA Gen.evRun "op.cond.Signaled" + 2) "" = "select{" ∧
    idxA Gen.evStartQuery "op.mu.Lock" < idxA Gen.evStartQuery "op.outstanding--" ∧
    Gen.evStartQuery.getD (idxA Gen.evStartQuery "op.outstanding--" + 1) "" = "op.cond.Broadcast" := by
  decide +kernel

/-- T1 (re-export of `C02.closest_set_updated_under_lock`): "announce_peer goes to the members of the final
closest set" presupposes that no responder is lost when two replies are folded in concurrently. -/
theorem C16.closest_set_updated_under_lock :
    Gen.evStartQuery.getD (idxC Gen.evStartQuery "op.addClosest" - 5) "" = "op.mu.Lock" ∧
    Gen.evStartQuery.getD (idxC Gen.evStartQuery "op.addClosest" - 4) "" = "defer" ∧
    Gen.evStartQuery.getD (idxC Gen.evStartQuery "op.addClosest" - 3) "" = "op.mu.Unlock" ∧
    Gen.evStartQuery.getD (idxC Gen.evStartQuery "op.addClosest" + 1) "" = "}" ∧
    Gen.evAddClosest.getD (idxC Gen.evAddClosest "op.closest.Push" + 1) "" = "set:op.closest" ∧
    Gen.evAddClosest.contains "op.mu.Lock" = false ∧ Gen.evAddClosest.contains "op.mu.Unlock" = false :=
  C02.closest_set_updated_under_lock

end Dht
