/-
C16 — announce hands each node back its own token, and always finishes.
-/
import DhtVerif.Model.Announce
import DhtVerif.Props.C02
import DhtVerif.Lemmas.C16
namespace Dht

/-- announce_peer goes only to members of the final closest set, each carrying
exactly the token stored with that member. -/
theorem C16.announce_targets_subset_closest (closest : List KElem) :
    ∀ o ∈ announceClosest closest, ∃ e ∈ closest, e.addr = o.dst ∧ e.data = some o.token := by
  sorry

/-- … and every member of the closest set of an announce traversal carries a token, so all of them are announced to. -/
theorem C16.every_member_announced (target : Id) (nf : Cand → Bool) (evs : List TravEv) (s : Trav)
    (h : Trav.exec (announceCfg target nf) {} evs = some s) :
    (announceClosest s.closest).length = s.closest.length := by
  sorry

/-- The token sent to a node is the token that same node returned in this
traversal: each announce stems from a response of this traversal that came from
the announce's destination address and carried exactly that token. -/
theorem C16.token_is_own (target : Id) (nf : Cand → Bool) (evs : List TravEv) (s : Trav)
    (h : Trav.exec (announceCfg target nf) {} evs = some s) :
    ∀ o ∈ announceClosest s.closest, ∃ m ∈ offered (announceCfg target nf) {} evs,
      m.addr = o.dst ∧ m.data = some o.token ∧ nf ⟨some m.id, m.addr⟩ = true := by
  sorry

/-- At most K announces, to pairwise different members. -/
theorem C16.at_most_k (target : Id) (nf : Cand → Bool) (evs : List TravEv) (s : Trav)
    (h : Trav.exec (announceCfg target nf) {} evs = some s) :
    (announceClosest s.closest).length ≤ (announceCfg target nf).k ∧ (announceCfg target nf).k = 8 := by
  sorry

/-- The acceptance predicate used for trace validation implies the property:
every announce goes to a responder that supplied exactly that token, no two
announces to one address, at most K of them. -/
theorem C16.allowed_sound (target : Id) (k : Nat) (nf : Cand → Bool) (resps : List GpResp) (outs : List AnnounceOut)
    (h : announceAllowed target k nf resps outs = true) :
    (∀ o ∈ outs, ∃ r ∈ resps, r.addr = o.dst ∧ r.token = some o.token ∧ nf ⟨some r.id, r.addr⟩ = true) ∧
    outs.length ≤ k := by
  sorry

/-- T1: the announce goroutine waits for stalled, stops the traversal, waits for
stopped, announces (if asked), marks the announce finished and closes the
channel — in that order; the traversal is started with the token data filter
and the server's node filter; a failed start stops the traversal. -/
def idxA (l : List String) (x : String) : Nat := l.findIdx (· == x)

theorem C16.source_order :
    idxA Gen.evAnnounceTraversal "recv:a.traversal.Stalled()" < idxA Gen.evAnnounceTraversal "recv:a.traversal.Stopped()" ∧
    idxA Gen.evAnnounceTraversal "recv:a.traversal.Stopped()" < idxA Gen.evAnnounceTraversal "a.announceClosest" ∧
    idxA Gen.evAnnounceTraversal "a.announceClosest" < idxA Gen.evAnnounceTraversal "a.peerAnnounced.Set" ∧
    idxA Gen.evAnnounceTraversal "a.peerAnnounced.Set" < idxA Gen.evAnnounceTraversal "close" ∧
    idxA Gen.evAnnounceTraversal "close" < Gen.evAnnounceTraversal.length := by
  decide +kernel

end Dht
