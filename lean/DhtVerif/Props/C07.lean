/-
C07 — a query completes only with the reply that matches it.
-/
import DhtVerif.Model.Txn
import DhtVerif.Lemmas.C07
namespace Dht

/-- Varint transaction IDs are injective: different counters give different IDs. -/
theorem C07.uvarint_injective (m n : Nat) (h : uvarint m = uvarint n) : m = n := by
  sorry

/-- In every reachable dispatcher state all pending keys are distinct and
carry IDs issued earlier (`< next`), so `Dispatcher.Add` never panics:
no history of events makes `run` return `none`. -/
theorem C07.never_panics (evs : List TxnEv) : (Txns.run {} evs).isSome = true := by
  sorry

/-- Queries outstanding at the same time never share a transaction ID. -/
theorem C07.outstanding_ids_distinct (evs : List TxnEv) (s : Txns) (h : Txns.run {} evs = some s) :
    s.pending.Pairwise (fun a b => a.1.t ≠ b.1.t) := by
  sorry

/-- A datagram is delivered to a query only if it came from exactly the
address that query was registered for and echoes its transaction ID. -/
theorem C07.completes_only_on_match (s : Txns) (src t : List UInt8) (q : Nat)
    (h : (s.inbound src t).2 = some q) : (⟨t, src⟩, q) ∈ s.pending := by
  sorry

/-- A datagram whose (source, t) matches no pending transaction changes nothing and reaches no query. -/
theorem C07.others_do_not_affect (s : Txns) (src t : List UInt8) (h : s.have ⟨t, src⟩ = false) :
    s.inbound src t = (s, none) := by
  sorry

/-- Delivery removes the transaction: the same datagram replayed reaches no query
(each reply completes at most one query, once). -/
theorem C07.reply_completes_at_most_once (s : Txns) (src t : List UInt8) :
    ((s.inbound src t).1.inbound src t).2 = none := by
  sorry

/-- Delivery to one query leaves every other pending transaction in place. -/
theorem C07.other_pending_untouched (s : Txns) (src t : List UInt8) (e : TxnKey × Nat)
    (he : e ∈ s.pending) (hne : e.1 ≠ ⟨t, src⟩) : e ∈ (s.inbound src t).1.pending := by
  sorry

/-! Non-vacuity -/
example : ((Txns.run {} [.register 7 [1], .register 8 [1]]).map (fun s => (s.inbound [1] [1]).2)) = some (some 8) := by
  decide +kernel

end Dht
