/-
C07 — a query completes only with the reply that matches it.
-/
import DhtVerif.Model.Txn
import DhtVerif.Lemmas.C07
namespace Dht

/-- Varint transaction IDs are injective: different counters give different IDs. -/
theorem C07.uvarint_injective (m n : Nat) (h : uvarint m = uvarint n) : m = n := by
  exact uvarint_inj m n h

/-- In every reachable dispatcher state all pending keys are distinct and
carry IDs issued earlier (`< next`), so `Dispatcher.Add` never panics:
no history of events makes `run` return `none`. -/
theorem C07.never_panics (evs : List TxnEv) : (Txns.run {} evs).isSome = true := by
  obtain ⟨s', hs', _⟩ := Txns.run_inv evs {} Txns.inv_empty
  rw [hs']; rfl

/-- Queries outstanding at the same time never share a transaction ID. -/
theorem C07.outstanding_ids_distinct (evs : List TxnEv) (s : Txns) (h : Txns.run {} evs = some s) :
    s.pending.Pairwise (fun a b => a.1.t ≠ b.1.t) := by
  obtain ⟨s', hs', hinv⟩ := Txns.run_inv evs {} Txns.inv_empty
  rw [hs'] at h
  cases h
  exact hinv.2

/-- A datagram is delivered to a query only if it came from exactly the
address that query was registered for and echoes its transaction ID. -/
theorem C07.completes_only_on_match (s : Txns) (src t : List UInt8) (q : Nat)
    (h : (s.inbound src t).2 = some q) : (⟨t, src⟩, q) ∈ s.pending := by
  unfold Txns.inbound at h
  simp only at h
  split at h
  · cases h
  · rename_i q' hq'
    cases h
    exact Txns.mem_of_lookup s _ _ hq'

/-- A datagram whose (source, t) matches no pending transaction changes nothing and reaches no query. -/
theorem C07.others_do_not_affect (s : Txns) (src t : List UInt8) (h : s.have ⟨t, src⟩ = false) :
    s.inbound src t = (s, none) := by
  unfold Txns.inbound
  simp only [Txns.lookup_eq_none_of_have s _ h]

/-- Delivery removes the transaction: the same datagram replayed reaches no query
(each reply completes at most one query, once). -/
theorem C07.reply_completes_at_most_once (s : Txns) (src t : List UInt8) :
    ((s.inbound src t).1.inbound src t).2 = none := by
  cases hl : s.lookup ⟨t, src⟩ with
  | none =>
    have h1 : s.inbound src t = (s, none) := by simp only [Txns.inbound, hl]
    rw [h1]
    simp only [Txns.inbound, hl]
  | some q =>
    have h1 : s.inbound src t =
        ({ s with pending := s.pending.filter (fun e => !(e.1 == (⟨t, src⟩ : TxnKey))) }, some q) := by
      simp only [Txns.inbound, hl]
    rw [h1]
    simp only [Txns.inbound, Txns.lookup_filter_self s ⟨t, src⟩]

/-- Delivery to one query leaves every other pending transaction in place. -/
theorem C07.other_pending_untouched (s : Txns) (src t : List UInt8) (e : TxnKey × Nat)
    (he : e ∈ s.pending) (hne : e.1 ≠ ⟨t, src⟩) : e ∈ (s.inbound src t).1.pending := by
  unfold Txns.inbound
  simp only
  split
  · exact he
  · simp only [List.mem_filter]
    exact ⟨he, by simpa using hne⟩

/-! Non-vacuity -/
example : ((Txns.run {} [.register 7 [1], .register 8 [1]]).map (fun s => (s.inbound [1] [1]).2)) = some (some 8) := by
  decide +kernel

/-- Multi-byte IDs: `uvarint 300 = [0xAC, 0x02]` (Go's `binary.PutUvarint`). -/
example : uvarint 300 = [0xAC, 0x02] := by
  simp [uvarint]

/-- A history with an unmatched datagram, a matched one and a deregister runs without panic
and leaves exactly the second query pending. -/
example : ((Txns.run {} [.register 7 [1], .register 8 [1], .inbound [2] [0], .inbound [1] [0],
    .deregister ⟨[5], [1]⟩]).map (fun s => s.pending)) = some [(⟨[1], [1]⟩, 8)] := by
  decide +kernel

/-- Same ID from the wrong address is not delivered. -/
example : ((Txns.run {} [.register 7 [1]]).map (fun s => (s.inbound [2] [0]).2)) = some none := by
  decide +kernel

end Dht
