/-
C07 / C14 — where transaction IDs come from (T1 by translation).

`Server.nextTransactionID` and `varintIdIssuer.Issue` are regenerated from the source as statement trees on every
run (`Gen.stmNextTransactionID`, `Gen.stmIssue`). Interpreted with an atom table (source text |-> meaning on the model
state, unknown text |-> none) the issuer's body returns `uvarint next` and leaves `next + 1`, which is what
`Txns.register` of the model does; with `uvarint` injective, no two of the first 2^64 - 1 queries of a process share
a transaction ID, however many are outstanding. (A two-byte counter, a counter rolled back, or an issuer that is not
consulted changes one of the two trees.)
-/
import DhtVerif.Model.SourceTrees2
import DhtVerif.Model.Txn
import DhtVerif.Lemmas.C07
import DhtVerif.Gen.Facts
namespace Dht
open Gen (SExp)

/-- What `Issue` reads and writes: the counter, the scratch buffer, its lock, and the locals `$1`, `$2`. -/
structure IssuerSt where
  next   : Nat
  buf    : List UInt8 := []
  n      : Nat := 0
  id     : List UInt8 := []
  locked : Bool := false

/-- `binary.MaxVarintLen64`: the size of `varintIdIssuer.buf`; `PutUvarint` panics on a shorter buffer. -/
def maxVarintLen64 : Nat := 10

def isStep : String → IssuerSt → Option IssuerSt
  | "me.mu.Lock()" => fun s => if s.locked then none else some { s with locked := true }
  | "$1 := binary.PutUvarint(me.buf[:], me.next)" => fun s =>
    if s.locked && decide ((uvarint s.next).length ≤ maxVarintLen64) then
      some { s with buf := uvarint s.next, n := (uvarint s.next).length }
    else none
  | "me.next++" => fun s => if s.locked then some { s with next := (s.next + 1) % 2 ^ 64 } else none
  | "$2 := string(me.buf[:$1])" => fun s => some { s with id := s.buf.take s.n }
  | "me.mu.Unlock()" => fun s => if s.locked then some { s with locked := false } else none
  | _ => fun _ => none

def isCond : String → IssuerSt → Option Bool := fun _ _ => none

/-- The result: the ID handed out and the counter left behind (only once the lock has been released). -/
def isRet : String → IssuerSt → Option (List UInt8 × Nat)
  | "$2" => fun s => if s.locked then none else some (s.id, s.next)
  | _ => fun _ => none

theorem uvarint_length_le (k : Nat) : ∀ n, n < 128 ^ (k + 1) → (uvarint n).length ≤ k + 1 := by
  induction k with
  | zero =>
    intro n h
    rw [uvarint.eq_1]
    have : n < 128 := by simpa using h
    simp [this]
  | succ k ih =>
    intro n h
    rw [uvarint.eq_1]
    by_cases hn : n < 128
    · simp [hn]
    · simp only [hn, ↓reduceDIte, List.length_cons]
      have : n / 128 < 128 ^ (k + 1) := by
        rw [Nat.div_lt_iff_lt_mul (by decide)]
        rw [Nat.pow_succ] at h
        exact h
      have := ih (n / 128) this
      omega

theorem uvarint_fits (n : Nat) (h : n < 2 ^ 64) : (uvarint n).length ≤ maxVarintLen64 := by
  have : n < 128 ^ (9 + 1) := by
    have : (2 : Nat) ^ 64 ≤ 128 ^ 10 := by decide
    omega
  exact uvarint_length_le 9 n this

/-- `varintIdIssuer.Issue`, as regenerated from the source, hands out `uvarint next` and leaves `next + 1`. -/
theorem C07.issuer_is_the_source (next : Nat) (h : next + 1 < 2 ^ 64) :
    SExp.evalWith isStep isCond isRet Gen.stmIssue { next := next } = some (uvarint next, next + 1) := by
  have hfit : (uvarint next).length ≤ maxVarintLen64 := uvarint_fits next (by omega)
  have hmod : (next + 1) % 2 ^ 64 = next + 1 := Nat.mod_eq_of_lt h
  simp [Gen.stmIssue, SExp.evalWith, isStep, isRet, hfit, hmod]

/-- `Server.nextTransactionID` is nothing but a call of the process-wide issuer. -/
theorem C07.nextTransactionID_is_the_issuer :
    Gen.stmNextTransactionID = SExp.ret "transactions.DefaultIdIssuer.Issue()" := by
  decide

/-- The model's `register` issues exactly what the source's issuer issues. -/
theorem C07.register_uses_the_issuer (s : Txns) (q : Nat) (dst : List UInt8) (r : Txns × TxnKey)
    (h : s.next + 1 < 2 ^ 64) (hr : s.register q dst = some r) :
    SExp.evalWith isStep isCond isRet Gen.stmIssue { next := s.next } = some (r.2.t, r.1.next) := by
  rw [C07.issuer_is_the_source s.next h]
  simp only [Txns.register] at hr
  by_cases hh : s.have ⟨uvarint s.next, dst⟩ = true
  · simp [hh] at hr
  · simp only [hh] at hr
    cases hr
    rfl

/-- No two of the first 2^64 - 1 IDs handed out are equal. -/
theorem C07.issued_ids_never_repeat (i j : Nat) (hij : i ≠ j) (hi : i + 1 < 2 ^ 64) (hj : j + 1 < 2 ^ 64)
    (a b : List UInt8 × Nat)
    (ha : SExp.evalWith isStep isCond isRet Gen.stmIssue { next := i } = some a)
    (hb : SExp.evalWith isStep isCond isRet Gen.stmIssue { next := j } = some b) : a.1 ≠ b.1 := by
  rw [C07.issuer_is_the_source i hi] at ha
  rw [C07.issuer_is_the_source j hj] at hb
  cases ha; cases hb
  intro heq
  exact hij (uvarint_inj i j heq)

/-! Negative controls: hand-mutated trees no longer evaluate to the model's issue. -/

/-- a two-byte counter instead of the varint -/
def stmIssueMutFixed : SExp := SExp.seq "me.mu.Lock()" (SExp.seq "binary.BigEndian.PutUint16(me.buf[:], uint16(me.next))" (SExp.seq "me.next++" (SExp.seq "$2 := string(me.buf[:2])" (SExp.seq "me.mu.Unlock()" (SExp.ret "$2")))))

/-- the increment dropped -/
def stmIssueMutNoInc : SExp := SExp.seq "me.mu.Lock()" (SExp.seq "$1 := binary.PutUvarint(me.buf[:], me.next)" (SExp.seq "$2 := string(me.buf[:$1])" (SExp.seq "me.mu.Unlock()" (SExp.ret "$2"))))

theorem C07.issuer_mutFixed_none (next : Nat) :
    SExp.evalWith isStep isCond isRet stmIssueMutFixed { next := next } = none := by
  simp [stmIssueMutFixed, SExp.evalWith, isStep]

theorem C07.issuer_mutNoInc_differs :
    SExp.evalWith isStep isCond isRet stmIssueMutNoInc { next := 5 } ≠ some (uvarint 5, 6) := by
  have hfit : (uvarint 5).length ≤ maxVarintLen64 := uvarint_fits 5 (by decide)
  simp [stmIssueMutNoInc, SExp.evalWith, isStep, isRet, hfit]

/-- Non-vacuity: counter 300 gives the two-byte varint ac 02 and leaves 301. -/
example : SExp.evalWith isStep isCond isRet Gen.stmIssue { next := 300 } = some ([0xac, 0x02], 301) := by
  rw [C07.issuer_is_the_source 300 (by decide)]
  simp [uvarint]

end Dht
