/-
C14 — "leaves no pending transaction behind" presupposes that a new query never collides with one still pending:
`Dispatcher.Add` panics on a key that is present, inside `Server.Query`, with the server lock held. The key is
(transaction ID, remote address); the IDs come from the issuer whose regenerated body Props/C07Issuer.lean interprets.
-/
import DhtVerif.Props.C07Issuer
namespace Dht
open Gen (SExp)

/-- However many queries are outstanding and however long ago they were issued, registering the next one does not
panic and leaves every pending key distinct (long uptime included: the counter is 64 bits wide, see
`C07.issuer_is_the_source`; the theorem is about histories of any length). -/
theorem C14.register_never_collides (evs : List TxnEv) (s : Txns) (q : Nat) (dst : List UInt8)
    (h : Txns.run {} evs = some s) : ∃ r, s.register q dst = some r ∧
      r.1.pending.Pairwise (fun a b => a.1.t ≠ b.1.t) := by
  obtain ⟨s', hs', hinv⟩ := Txns.run_inv evs {} Txns.inv_empty
  rw [hs'] at h
  cases h
  obtain ⟨r, hr, hinv'⟩ := Txns.register_inv s q dst hinv
  exact ⟨r, hr, hinv'.2⟩

/-- The ID a query is registered under is the one the source's issuer hands out at that counter value. -/
theorem C14.registered_id_is_the_issuers (s : Txns) (q : Nat) (dst : List UInt8) (r : Txns × TxnKey)
    (h : s.next + 1 < 2 ^ 64) (hr : s.register q dst = some r) :
    SExp.evalWith isStep isCond isRet Gen.stmIssue { next := s.next } = some (r.2.t, r.1.next) :=
  C07.register_uses_the_issuer s q dst r h hr

/-- Non-vacuity: 3 queries to one address, the first still pending, register a fourth. -/
example : (Txns.register ⟨3, [(⟨[0], [1]⟩, 7)]⟩ 9 [1]).isSome = true := by
  decide +kernel

end Dht
