/-
T1 by translation (part of the former Props/SourceTrees.lean, split per source function so that an edit of one
function only touches the property that owns it): the regenerated decision expression of the function, interpreted
with an atom table (source text |-> meaning on model values, unknown text |-> none), equals the model function
for all arguments; with negative checks on hand-mutated trees.
-/
import DhtVerif.Model.SourceTrees
import DhtVerif.Model.Traversal
namespace Dht
open Gen (DExp)

/-! ### Operation.haveQuery -/

def hqLetsExpected : List String :=
  ["$1 := op.closestUnqueried()", "$2 := $1.Id.Value.Distance(op.targetInt160)",
   "$3 := op.closest.Farthest().ID.Int160().Distance(op.targetInt160)"]

def hqCond (c : TravCfg) (s : Trav) : String → Option Bool
  | "op.unqueried.Len() == 0" => some s.unq.isEmpty
  | "!op.closest.Full()" => some (!KNN.full c.k s.closest)
  | "!$1.Id.Ok" => some ((s.unq.head?.bind (·.id)).isNone)
  | _ => none

def hqRet (c : TravCfg) (s : Trav) : String → Option Bool
  | "false" => some false
  | "true" => some true
  | "$2.Cmp($3) <= 0" =>
    match s.unq.head?.bind (·.id), KNN.farthest s.closest with
    | some i, some far => some (Id.cmp (Id.distance i c.target) (Id.distance far.id c.target) != .gt)
    | _, _ => some false
  | _ => none

theorem SourceTrees.haveQuery (c : TravCfg) (s : Trav) :
    Gen.treeHaveQueryLets = hqLetsExpected ∧
    DExp.evalWith (hqCond c s) (hqRet c s) Gen.treeHaveQuery = some (s.haveQuery c) := by
  refine ⟨by decide, ?_⟩
  simp only [Gen.treeHaveQuery, DExp.evalWith, hqCond, hqRet, Trav.haveQuery]
  cases hu : s.unq with
  | nil => simp
  | cons cu rest =>
    cases hf : KNN.full c.k s.closest <;> cases hid : cu.id <;> cases hfar : KNN.farthest s.closest <;> simp_all


/-- Negative check: `<= 0` changed to `< 0` in the final comparison. Unknown atom: no value whenever the
closest set is full and the closest unqueried candidate has an ID. -/
def treeHaveQueryMutLt : DExp := DExp.ite "op.unqueried.Len() == 0" (DExp.ret "false") (DExp.ite "!op.closest.Full()" (DExp.ret "true") (DExp.ite "!$1.Id.Ok" (DExp.ret "false") (DExp.ret "$2.Cmp($3) < 0")))

theorem SourceTrees.haveQuery_mutLt_none (c : TravCfg) (s : Trav) (cu : Cand) (rest : List Cand) (i : Id)
    (hu : s.unq = cu :: rest) (hf : KNN.full c.k s.closest = true) (hi : cu.id = some i) :
    DExp.evalWith (hqCond c s) (hqRet c s) treeHaveQueryMutLt = none := by
  simp [treeHaveQueryMutLt, DExp.evalWith, hqCond, hqRet, hu, hf, hi]

example : ¬ ∀ (c : TravCfg) (s : Trav),
    DExp.evalWith (hqCond c s) (hqRet c s) treeHaveQueryMutLt = some (s.haveQuery c) := by
  intro h
  have h' := h { target := [0], k := 0 } { unq := [⟨some [1], ⟨1, [1, 2, 3, 4], 1⟩⟩] }
  rw [SourceTrees.haveQuery_mutLt_none _ _ ⟨some [1], ⟨1, [1, 2, 3, 4], 1⟩⟩ [] [1] rfl (by decide) rfl] at h'
  exact absurd h' (by simp)

/-- Negative check: the `Full` test without its negation. Unknown atom: no value for any non-empty frontier. -/
def treeHaveQueryMutFull : DExp := DExp.ite "op.unqueried.Len() == 0" (DExp.ret "false") (DExp.ite "op.closest.Full()" (DExp.ret "true") (DExp.ite "!$1.Id.Ok" (DExp.ret "false") (DExp.ret "$2.Cmp($3) <= 0")))

example (c : TravCfg) (s : Trav) (cu : Cand) (rest : List Cand) (hu : s.unq = cu :: rest) :
    DExp.evalWith (hqCond c s) (hqRet c s) treeHaveQueryMutFull = none := by
  simp [treeHaveQueryMutFull, DExp.evalWith, hqCond, hu]

/-- Negative check: a changed `let` (the distance of `cu` taken to something else) is seen by the first conjunct. -/
example : ["$1 := op.closestUnqueried()", "$2 := $1.Id.Value.Distance(op.rootInt160)",
   "$3 := op.closest.Farthest().ID.Int160().Distance(op.targetInt160)"] ≠ hqLetsExpected := by decide

end Dht
