/-
C08 — replies go to the asker, echo its transaction ID, and use the right KRPC form.
Theorems over `DhtVerif/Model/Server.lean`, for every configuration, server
state, source address, message and environment answer.
-/
import DhtVerif.Model.Server
import DhtVerif.Lemmas.C08
namespace Dht

/-- At most one datagram is produced per inbound datagram. -/
theorem C08.one_out_per_query (c : SrvCfg) (mk : TokenFn) (s s' : Srv) (src : NAddr) (size : Nat) (d : Decoded)
    (env : Env) (outs : List Out) (effs : List Effect)
    (h : serveDatagram c mk s src size d env = some (s', outs, effs)) : outs.length ≤ 1 := by
  rcases serveDatagram_eq_some h with ⟨_, ho, _⟩ | ⟨m, _, _, _, hm⟩
  · rw [ho]; exact Nat.zero_le _
  · exact (processMsg_shape hm).length_le_one

/-- Every datagram produced goes to the source of the query and echoes its transaction ID. -/
theorem C08.out_dst_and_t (c : SrvCfg) (mk : TokenFn) (s s' : Srv) (src : NAddr) (m : QMsg)
    (env : Env) (outs : List Out) (effs : List Effect)
    (h : processMsg c mk s src m env = some (s', outs, effs)) :
    ∀ o ∈ outs, o.dst = src ∧ o.t = m.t := by
  exact (processMsg_shape h).dst_t

/-- A response carries the node's own ID and the requester's address in `ip`. -/
theorem C08.reply_has_own_id_and_ip (c : SrvCfg) (mk : TokenFn) (s s' : Srv) (src : NAddr) (m : QMsg)
    (env : Env) (outs : List Out) (effs : List Effect)
    (h : processMsg c mk s src m env = some (s', outs, effs)) :
    ∀ o ∈ outs, ∀ r, o.kind = .reply r → o.id = some c.tbl.root ∧ o.ip = some src := by
  exact (processMsg_shape h).reply_id_ip

def knownMethods : List (List UInt8) :=
  [str "ping", str "get_peers", str "find_node", str "announce_peer", str "put", str "get"]

/-- An unknown method gets exactly one error 204 (node not passive, hook does not veto). -/
theorem C08.unknown_method_204 (c : SrvCfg) (mk : TokenFn) (s s' : Srv) (src : NAddr) (m : QMsg)
    (env : Env) (outs : List Out) (effs : List Effect)
    (hy : m.y = str "q") (hq : m.q ∉ knownMethods) (hpass : c.passive = false)
    (hhook : c.hasHook = false ∨ env.hookPropagate = true) (hcl : s.closed = false)
    (h : processMsg c mk s src m env = some (s', outs, effs)) :
    outs = [mkError src m.t Gen.errorCodeMethodUnknown] ∧ Gen.errorCodeMethodUnknown = 204 := by
  obtain ⟨tbl', _, ho, _⟩ := processMsg_active hy hpass hhook hcl h
  simp only [knownMethods, List.mem_cons, List.not_mem_nil, or_false, not_or] at hq
  obtain ⟨h1, h2, h3, h4, h5, h6⟩ := hq
  rw [dispatch_unknown _ _ _ _ _ _ h1 h2 h3 h4 h5 h6] at ho
  exact ⟨ho, rfl⟩

/-- A method that needs arguments but has none gets exactly one error 203. -/
theorem C08.missing_args_203 (c : SrvCfg) (mk : TokenFn) (s s' : Srv) (src : NAddr) (m : QMsg)
    (env : Env) (outs : List Out) (effs : List Effect)
    (hy : m.y = str "q") (hq : m.q ∈ knownMethods) (hq' : m.q ≠ str "ping") (ha : m.a = none)
    (hpass : c.passive = false) (hhook : c.hasHook = false ∨ env.hookPropagate = true) (hcl : s.closed = false)
    (h : processMsg c mk s src m env = some (s', outs, effs)) :
    outs = [mkError src m.t Gen.errorCodeProtocolError] ∧ Gen.errorCodeProtocolError = 203 := by
  obtain ⟨tbl', _, ho, _⟩ := processMsg_active hy hpass hhook hcl h
  refine ⟨?_, rfl⟩
  rw [ho]
  simp only [knownMethods, List.mem_cons, List.not_mem_nil, or_false] at hq
  rcases hq with h1 | h2 | h3 | h4 | h5 | h6
  · exact absurd h1 hq'
  · rw [dispatch_get_peers _ _ _ _ _ _ h2, ha]
  · rw [dispatch_find_node _ _ _ _ _ _ h3, ha]
  · rw [dispatch_announce_peer _ _ _ _ _ _ h4, ha]
  · rw [dispatch_put _ _ _ _ _ _ h5, ha]
  · rw [dispatch_get _ _ _ _ _ _ h6, ha]

/-- ping, find_node, get_peers and get always get exactly one datagram, and
announce_peer / put with a valid token too. -/
theorem C08.always_answers (c : SrvCfg) (mk : TokenFn) (s s' : Srv) (src : NAddr) (m : QMsg)
    (env : Env) (outs : List Out) (effs : List Effect)
    (hy : m.y = str "q") (hpass : c.passive = false)
    (hhook : c.hasHook = false ∨ env.hookPropagate = true) (hcl : s.closed = false)
    (htok : (m.q = str "announce_peer" ∨ m.q = str "put") →
      ∀ a, m.a = some a → validToken c mk s.ts.now src.ip a.token = true)
    (h : processMsg c mk s src m env = some (s', outs, effs)) :
    outs.length = 1 := by
  obtain ⟨tbl', _, ho, _⟩ := processMsg_active hy hpass hhook hcl h
  rw [ho]
  exact dispatch_length_one _ _ _ _ _ _ htok

/-- Nothing is ever sent in reaction to a response, an error or a message of unknown type. -/
theorem C08.nothing_for_non_query (c : SrvCfg) (mk : TokenFn) (s s' : Srv) (src : NAddr) (m : QMsg)
    (env : Env) (outs : List Out) (effs : List Effect) (hy : m.y ≠ str "q")
    (h : processMsg c mk s src m env = some (s', outs, effs)) : outs = [] := by
  exact processMsg_non_query hy h

/-- Undecodable datagrams produce nothing and change nothing. -/
theorem C08.nothing_for_garbage (c : SrvCfg) (mk : TokenFn) (s : Srv) (src : NAddr) (size : Nat) (env : Env) :
    serveDatagram c mk s src size .notDict env = some (s, [], []) ∧
    serveDatagram c mk s src size .undecodable env = some (s, [], []) := by
  constructor <;> simp [serveDatagram]

/-- find_node and get select relative to `target`, get_peers relative to `info_hash`. -/
theorem C08.target_by_method (c : SrvCfg) (mk : TokenFn) (s : Srv) (src : NAddr) (m : QMsg) (a : QArgs) (env : Env)
    (ha : m.a = some a) (o : Out) (r : Ret) (ho : o ∈ (dispatch c mk s src m env).1) (hr : o.kind = .reply r)
    (tgt : Id) (ht : r.nodesTarget = some tgt) :
    (m.q = str "find_node" → tgt = a.target) ∧ (m.q = str "get" → tgt = a.target) ∧
    (m.q = str "get_peers" → tgt = a.infoHash) := by
  refine ⟨fun hq => ?_, fun hq => ?_, fun hq => ?_⟩
  · rw [dispatch_find_node _ _ _ _ _ _ hq, ha] at ho
    simp only [List.mem_singleton] at ho
    subst ho
    simp only [mkReply, OutKind.reply.injEq] at hr
    subst hr
    simpa [setReturnNodes] using ht.symm
  · rw [dispatch_get _ _ _ _ _ _ hq, ha] at ho
    dsimp only at ho
    have key : ∀ r' : Ret, r'.nodesTarget = some a.target → o ∈ [mkReply c src m.t r'] → tgt = a.target := by
      intro r' hr' ho'
      simp only [List.mem_singleton] at ho'
      subst ho'
      simp only [mkReply, OutKind.reply.injEq] at hr
      subst hr
      rw [hr'] at ht
      exact (Option.some.inj ht).symm
    have kerr : ∀ code, o ∈ [mkError src m.t code] → tgt = a.target := by
      intro code ho'
      simp only [List.mem_singleton] at ho'
      subst ho'
      simp [mkError] at hr
    cases hge : env.getErr with
    | some code => rw [hge] at ho; exact kerr _ ho
    | none =>
      rw [hge] at ho
      cases hgr : env.getRes with
      | none => rw [hgr] at ho; exact key _ rfl ho
      | some g =>
        rw [hgr] at ho
        cases g with
        | none => exact kerr _ ho
        | some g =>
          cases g with
          | mk seq b =>
            dsimp only at ho
            split at ho
            · split at ho <;> exact key _ rfl ho
            · exact key _ rfl ho
  · rw [dispatch_get_peers _ _ _ _ _ _ hq, ha] at ho
    simp only [List.mem_singleton] at ho
    subst ho
    simp only [mkReply, OutKind.reply.injEq] at hr
    subst hr
    cases hps : c.hasPeerStore
    · simp [getPeersRet, hps, setReturnNodes] at ht
      exact ht.symm
    · simp only [getPeersRet, hps, if_true] at ht
      split at ht
      · simpa [setReturnNodes] using ht.symm
      · simp at ht

/-! Non-vacuity -/
example : (processMsg { tbl := { root := List.replicate 20 1 } } (fun _ _ => []) {} ⟨[1,2,3,4], 5⟩
    { y := str "q", q := str "ping", t := [7], a := some { id := List.replicate 20 2 } } {}).map (·.2.1.length) = some 1 := by
  decide +kernel

/-- An unknown method gets error 204, find_node without arguments error 203, a response nothing. -/
example : (processMsg { tbl := { root := List.replicate 20 1 } } (fun _ _ => []) {} ⟨[1,2,3,4], 5⟩
    { y := str "q", q := str "vote", t := [7], a := some { id := List.replicate 20 2 } } {}).map (·.2.1) =
    some [mkError ⟨[1,2,3,4], 5⟩ [7] 204] := by
  decide +kernel
example : str "vote" ∉ knownMethods := by decide +kernel
example : (processMsg { tbl := { root := List.replicate 20 1 } } (fun _ _ => []) {} ⟨[1,2,3,4], 5⟩
    { y := str "q", q := str "find_node", t := [7] } {}).map (·.2.1) =
    some [mkError ⟨[1,2,3,4], 5⟩ [7] 203] := by
  decide +kernel
example : (processMsg { tbl := { root := List.replicate 20 1 } } (fun _ _ => []) {} ⟨[1,2,3,4], 5⟩
    { y := str "r", t := [7], rid := some (List.replicate 20 2) } {}).map (·.2.1) = some [] := by
  decide +kernel
/-- find_node selects relative to `target`, get_peers relative to `info_hash`. -/
example : ((dispatch { tbl := { root := List.replicate 20 1 } } (fun _ _ => []) {} ⟨[1,2,3,4], 5⟩
    { y := str "q", q := str "find_node", t := [7],
      a := some { id := List.replicate 20 2, target := List.replicate 20 4, infoHash := List.replicate 20 3 } } {}).1.map
    (fun o => match o.kind with | .reply r => r.nodesTarget | .error _ => none)) = [some (List.replicate 20 4)] := by
  decide +kernel
example : ((dispatch { tbl := { root := List.replicate 20 1 } } (fun _ _ => []) {} ⟨[1,2,3,4], 5⟩
    { y := str "q", q := str "get_peers", t := [7],
      a := some { id := List.replicate 20 2, target := List.replicate 20 4, infoHash := List.replicate 20 3 } } {}).1.map
    (fun o => match o.kind with | .reply r => r.nodesTarget | .error _ => none)) = [some (List.replicate 20 3)] := by
  decide +kernel

end Dht
