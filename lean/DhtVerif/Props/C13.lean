/-
C13 — BEP 44 versions only move forward: seq, CAS and expiry.

Property theorems only (helper lemmas: DhtVerif/Lemmas/B44.lean, DhtVerif/Lemmas/C13.lean). All
statements are about the executable model DhtVerif/Model/Bep44.lean, for all items, stores,
clocks, histories and schedules, with no bound on anything. `P : Params` carries the
cryptographic parameters (never used here beyond `check`/`target`) and `P.casSpec`, the CAS
rule in force; theorems that do not mention `P.casSpec` hold for BOTH rules (the literal
transcription of /repo's `CheckIncoming` and the rule of the property). The driver runs
`P.casSpec := casRuleComparesStoredSeq`.
-/
import DhtVerif.Lemmas.B44
import DhtVerif.Lemmas.C13
import DhtVerif.Lemmas.C13Conc
import DhtVerif.Props.STCheckIncoming
namespace Dht
open B44

/-! ## Regenerated side conditions -/

/-- The codes the model answers with are BEP 44's 301 / 302 in the source tree. -/
theorem C13.codes_from_source :
    Gen.bep44ErrCasHashMismatched = 301 ∧ Gen.bep44ErrSequenceNumberLessThanCurrent = 302 ∧
    Gen.missing = [] := by decide

/-! ## The stored sequence number never decreases (sequential histories) -/

/-- One event, any state (reachable or not), any target: the stored sequence number does not
go down, and the entry disappears only when it has expired at the current clock. Both rules. -/
theorem C13.seq_monotone_step (P : Params) (exp : Nat) (s : St) (ev : Ev) (t : Target) :
    SeqStep exp s.now s.store (s.step P exp ev).store t :=
  St.step_seqStep P exp s ev t

/-- Every sequential history of puts (any items, any targets, valid or not), gets (any target,
with or without `seq`) and clock advances: as long as the target stays stored (after every
prefix), its sequence number at the end is at least the one at the start. Both rules. -/
theorem C13.seq_monotone (P : Params) (exp : Nat) (t : Target) (evs : List Ev) (s : St)
    (hpresent : ∀ pre, pre <+: evs → ((s.run P exp pre).store t).isSome)
    (a b : Entry) (ha : s.store t = some a) (hb : (s.run P exp evs).store t = some b) :
    a.item.seq ≤ b.item.seq := by
  induction evs generalizing s a with
  | nil => simp [St.run] at hb; rw [ha] at hb; cases hb; exact Int.le_refl _
  | cons ev rest ih =>
    have h1 := hpresent [ev] (by simp)
    rw [St.run_cons] at hb
    have hs : (s.run P exp [ev]) = s.step P exp ev := rfl
    rw [hs] at h1
    obtain ⟨c, hc⟩ := Option.isSome_iff_exists.mp h1
    have hstep := St.step_seqStep P exp s ev t a ha
    rw [hc] at hstep
    refine Int.le_trans hstep (ih (s.step P exp ev) ?_ c hc hb)
    intro pre hpre
    have := hpresent (ev :: pre) (by simpa using hpre)
    rwa [St.run_cons] at this

/-- Only a `get` on the target itself can remove it: over a history without such a get the
target stays stored and its sequence number only grows. Both rules. -/
theorem C13.seq_monotone_without_get (P : Params) (exp : Nat) (t : Target) (evs : List Ev) (s : St)
    (hnoget : ∀ a, Ev.get t a ∉ evs) (a : Entry) (ha : s.store t = some a) :
    ∃ b, (s.run P exp evs).store t = some b ∧ a.item.seq ≤ b.item.seq :=
  run_without_get P exp t evs s hnoget a ha

/-! ## Reject codes -/

/-- A put (that passes `Check`) with a lower sequence number than the stored one, or the same
number and a different value, is answered 302 and the store is unchanged. Both rules. -/
theorem C13.reject_codes (P : Params) (now : Nat) (s : Store) (i : Item) (st : Entry)
    (hc : check P i = none) (hs : s (target P i) = some st)
    (hlow : i.seq < st.item.seq ∨ (i.seq = st.item.seq ∧ i.bv ≠ st.item.bv)) :
    Wrapper.put P now s i = (s, some Gen.bep44ErrSequenceNumberLessThanCurrent) := by
  unfold Wrapper.put
  rw [hc]; simp only []; rw [hs]; simp only []
  rw [checkIncomingWith_lower _ _ _ hlow]

/-- The CAS rule of the property, for the model with `casSpec = true`: against a stored item
with a lower sequence number, a put carrying a CAS value (non-zero: the wire cannot tell 0 from
absent) different from the stored sequence number is answered 301 and the store is unchanged;
a put whose CAS equals the stored sequence number, or that carries none, is accepted. -/
theorem C13.cas_rule (P : Params) (hP : P.casSpec = true) (now : Nat) (s : Store) (i : Item) (st : Entry)
    (hc : check P i = none) (hs : s (target P i) = some st) (hhi : st.item.seq < i.seq) :
    (i.cas ≠ 0 ∧ i.cas ≠ st.item.seq → Wrapper.put P now s i = (s, some Gen.bep44ErrCasHashMismatched)) ∧
    (i.cas = 0 ∨ i.cas = st.item.seq → Wrapper.put P now s i = (s.set (target P i) ⟨i, now⟩, none)) := by
  have h1 : ¬ (st.item.seq = i.seq ∧ st.item.bv = i.bv) := by rintro ⟨a, _⟩; omega
  have h2 : ¬ (st.item.seq ≥ i.seq) := by omega
  constructor
  · rintro ⟨h0, hne⟩
    have : checkIncomingWith P.casSpec st.item i = some Gen.bep44ErrCasHashMismatched := by
      rw [hP]; simp [checkIncomingWith, checkIncomingSpec, h1, h2, h0]; omega
    unfold Wrapper.put; rw [hc]; simp only []; rw [hs]; simp only []; rw [this]
  · intro h
    have : checkIncomingWith P.casSpec st.item i = none := by
      rw [hP]; simp only [checkIncomingWith, checkIncomingSpec, if_true, h1, h2, if_false]
      rcases h with h | h
      · simp [h]
      · by_cases h0 : i.cas = 0 <;> simp [h0, h]
    unfold Wrapper.put; rw [hc]; simp only []; rw [hs]; simp only []; rw [this]

/-- Both conditions violated, or any CAS mismatch outside the refresh case (same seq, same
value — nothing would move): the put is rejected with 301 or 302. `casSpec = true`. -/
theorem C13.cas_mismatch_rejected (P : Params) (hP : P.casSpec = true) (now : Nat) (s : Store) (i : Item) (st : Entry)
    (hc : check P i = none) (hs : s (target P i) = some st)
    (hcas : i.cas ≠ 0 ∧ i.cas ≠ st.item.seq) (hnr : ¬ (i.seq = st.item.seq ∧ i.bv = st.item.bv)) :
    Wrapper.put P now s i = (s, some Gen.bep44ErrCasHashMismatched) ∨
    Wrapper.put P now s i = (s, some Gen.bep44ErrSequenceNumberLessThanCurrent) := by
  by_cases hhi : st.item.seq < i.seq
  · exact Or.inl ((C13.cas_rule P hP now s i st hc hs hhi).1 hcas)
  · right
    apply C13.reject_codes P now s i st hc hs
    by_cases he : i.seq = st.item.seq
    · right; refine ⟨he, fun hb => hnr ⟨he, hb⟩⟩
    · left; omega

/-- The rule the CODE implements satisfies the CAS rule once `casRuleComparesStoredSeq` is
`true` (vacuous while it is `false`; see `cas_rule_literal_violates`). -/
theorem C13.cas_rule_code (h : casRuleComparesStoredSeq = true) (st i : Item) (hhi : st.seq < i.seq) :
    (i.cas ≠ 0 ∧ i.cas ≠ st.seq → checkIncoming st i = some Gen.bep44ErrCasHashMismatched) ∧
    (i.cas = 0 ∨ i.cas = st.seq → checkIncoming st i = none) := by
  have h1 : ¬ (st.seq = i.seq ∧ st.bv = i.bv) := by rintro ⟨a, _⟩; omega
  have h2 : ¬ (st.seq ≥ i.seq) := by omega
  unfold checkIncoming; rw [h]
  constructor
  · rintro ⟨h0, hne⟩
    simp [checkIncomingWith, checkIncomingSpec, h1, h2, h0]; omega
  · intro hh
    simp only [checkIncomingWith, checkIncomingSpec, if_true, h1, h2, if_false]
    rcases hh with hh | hh
    · simp [hh]
    · by_cases h0 : i.cas = 0 <;> simp [h0, hh]

/-- KEPT COUNTEREXAMPLE (DESIGN.md F6): the literal transcription of /repo's `CheckIncoming`
violates the CAS rule both ways — stored seq 5 (cas 0), put seq 6 cas 3 is accepted although
3 ≠ 5; stored seq 5 (cas 4), put seq 6 cas 5 is answered 301 although 5 is the stored
sequence number; and a put WITHOUT cas is answered 301 when the stored item carried one. -/
theorem C13.cas_rule_literal_violates :
    checkIncomingLit ⟨[1], none, [], [], 0, 5⟩ ⟨[2], none, [], [], 3, 6⟩ = none ∧
    checkIncomingLit ⟨[1], none, [], [], 4, 5⟩ ⟨[2], none, [], [], 5, 6⟩ = some Gen.bep44ErrCasHashMismatched ∧
    checkIncomingLit ⟨[1], none, [], [], 4, 5⟩ ⟨[2], none, [], [], 0, 6⟩ = some Gen.bep44ErrCasHashMismatched ∧
    checkIncomingSpec ⟨[1], none, [], [], 0, 5⟩ ⟨[2], none, [], [], 3, 6⟩ = some Gen.bep44ErrCasHashMismatched ∧
    checkIncomingSpec ⟨[1], none, [], [], 4, 5⟩ ⟨[2], none, [], [], 5, 6⟩ = none ∧
    checkIncomingSpec ⟨[1], none, [], [], 4, 5⟩ ⟨[2], none, [], [], 0, 6⟩ = none := by decide

/-! ## An accepted put is what later gets return; `seq` in a get; expiry -/

/-- After an accepted put the item sits under its target, stamped with the clock of the put,
and a get before the expiry returns exactly it (store untouched). Both rules. -/
theorem C13.accepted_is_served (P : Params) (exp now now' : Nat) (s : Store) (i : Item)
    (h : (Wrapper.put P now s i).2 = none) (hf : now' < now + exp) :
    (Wrapper.put P now s i).1 (target P i) = some ⟨i, now⟩ ∧
    Wrapper.get exp now' (Wrapper.put P now s i).1 (target P i) = ((Wrapper.put P now s i).1, some i) ∧
    handleGet exp now' (Wrapper.put P now s i).1 (target P i) none = ((Wrapper.put P now s i).1, .full i) := by
  rcases Wrapper.put_cases P now s i with ⟨e, _, h'⟩ | ⟨st, e, _, _, _, h'⟩ | ⟨_, _, h'⟩
  · rw [h'] at h; cases h
  · rw [h'] at h; cases h
  · rw [h']
    have hs : (s.set (target P i) ⟨i, now⟩) (target P i) = some ⟨i, now⟩ := Store.set_same ..
    have hg : Wrapper.get exp now' (s.set (target P i) ⟨i, now⟩) (target P i) = (s.set (target P i) ⟨i, now⟩, some i) := by
      rcases Wrapper.get_some exp now' _ _ _ hs with ⟨_, hg⟩ | ⟨hx, _⟩
      · exact hg
      · simp at hx; omega
    refine ⟨hs, hg, ?_⟩
    unfold handleGet; rw [hg]

/-- …and it stays what gets return across any later history that contains no put to the same
target, as long as the clock has not reached the expiry. Both rules. -/
theorem C13.accepted_is_served_later (P : Params) (exp : Nat) (s : St) (i : Item) (created : Nat) (evs : List Ev)
    (hs : s.store (target P i) = some ⟨i, created⟩)
    (hnoput : ∀ j, Ev.put j ∈ evs → target P j ≠ target P i)
    (hf : (s.run P exp evs).now < created + exp) :
    (s.run P exp evs).store (target P i) = some ⟨i, created⟩ ∧
    Wrapper.get exp (s.run P exp evs).now (s.run P exp evs).store (target P i) = ((s.run P exp evs).store, some i) :=
  run_keeps_entry P exp s i created evs hs hnoput hf

/-- A get that names a sequence number is sent the value iff the stored one is newer;
otherwise it is told the stored sequence number only. -/
theorem C13.get_with_seq (exp now : Nat) (s : Store) (t : Target) (e : Entry) (a : Int)
    (hs : s t = some e) (hf : now < e.created + exp) :
    handleGet exp now s t (some a) = (s, if e.item.seq > a then .full e.item else .seqOnly e.item.seq) ∧
    ((∃ i, (handleGet exp now s t (some a)).2 = .full i) ↔ e.item.seq > a) := by
  have hg : Wrapper.get exp now s t = (s, some e.item) := by
    rcases Wrapper.get_some exp now s t e hs with ⟨_, hg⟩ | ⟨hx, _⟩
    · exact hg
    · omega
  have h1 : handleGet exp now s t (some a) = (s, if e.item.seq > a then .full e.item else .seqOnly e.item.seq) := by
    unfold handleGet; rw [hg]; simp only []
    by_cases h : e.item.seq ≤ a
    · have : ¬ e.item.seq > a := by omega
      simp [h, this]
    · have : e.item.seq > a := by omega
      simp [h, this]
  refine ⟨h1, ?_⟩
  rw [h1]
  by_cases h : e.item.seq > a <;> simp [h]

/-- Items older than the configured expiry are no longer served: the get answers "not found"
and removes the entry (through both the wrapper and the inbound `get`). -/
theorem C13.expired_not_served (exp now : Nat) (s : Store) (t : Target) (e : Entry) (a : Option Int)
    (hs : s t = some e) (hx : e.created + exp ≤ now) :
    Wrapper.get exp now s t = (s.del t, none) ∧ handleGet exp now s t a = (s.del t, .notFound) := by
  have hg : Wrapper.get exp now s t = (s.del t, none) := by
    rcases Wrapper.get_some exp now s t e hs with ⟨hf, _⟩ | ⟨_, hg⟩
    · omega
    · exact hg
  refine ⟨hg, ?_⟩
  unfold handleGet; rw [hg]

/-- Conversely, whatever a get serves (value or sequence number) is a stored entry younger
than the expiry. -/
theorem C13.served_is_fresh (exp now : Nat) (s : Store) (t : Target) (a : Option Int) :
    (∀ i, (handleGet exp now s t a).2 = .full i → ∃ e, s t = some e ∧ e.item = i ∧ now < e.created + exp) ∧
    (∀ q, (handleGet exp now s t a).2 = .seqOnly q → ∃ e, s t = some e ∧ e.item.seq = q ∧ now < e.created + exp) :=
  handleGet_served_fresh exp now s t a

/-! ## Every interleaving of concurrent puts and gets on one store

`Sys.step P exp lock y tid now` is one call of the underlying store (Get, Put or Del) by thread
`tid` at clock `now`; a schedule is any list of such steps (`Sys.run` = `none` when a step is
not enabled). `lock = true` is "Wrapper.Put and Wrapper.Get hold one mutex from before their
first store call until they return"; the code's value is `putHoldsLock`, regenerated from
/repo/bep44/store.go. `ConcStep` (DhtVerif/Lemmas/C13Conc.lean): per target the stored
sequence number does not go down in a step, and an entry disappears only through the `Del`
of a get that found it expired. -/

/-- With the lock held: for EVERY number of threads, every operation list (puts of any items,
valid or not, gets of any targets), every initial store and every schedule (any interleaving,
any clock readings), at every point `y1` reached
 * the store equals the sequential execution (`replay` = `Wrapper.put` / `Wrapper.get` one
   after the other) of the operations that have taken effect, in the order `y1.log`; each of
   them is the operation of a distinct thread, and every finished thread is among them unless
   it ended before its first store call (its `Check` failed, which changes nothing);
 * every further enabled step is monotone per target (`ConcStep`).
Both CAS rules. -/
theorem C13.seq_monotone_concurrent (P : Params) (exp : Nat) (s0 : Store) (ops : List Op)
    (sched : List (Nat × Nat)) (y1 : Sys)
    (hrun : Sys.run P exp true (Sys.init P s0 ops) sched = some y1) :
    y1.store = replay P exp s0 y1.log ∧
    (∀ c, c ∈ y1.log → ops[c.tid]? = some c.op) ∧
    (y1.log.map (·.tid)).Nodup ∧
    (∀ j r, y1.threads j = .done r → (∃ c, c ∈ y1.log ∧ c.tid = j) ∨ (Sys.init P s0 ops).threads j = .done r) ∧
    (∀ tid now y2, y1.step P exp true tid now = some y2 → ConcStep exp y1 y2) := by
  have h := LockInv.run P exp s0 ops sched _ y1 (LockInv.init P exp s0 ops) hrun
  exact ⟨h.store_eq, h.log_ops, h.log_nodup, h.done_logged, fun tid now y2 hs => h.concStep P exp s0 ops y1 y2 tid now hs⟩

/-- The same, for the code: it applies as soon as the regenerated fact says the lock is held. -/
theorem C13.seq_monotone_concurrent_code (hlock : putHoldsLock = true) (P : Params) (exp : Nat) (s0 : Store)
    (ops : List Op) (sched : List (Nat × Nat)) (y1 : Sys)
    (hrun : Sys.run P exp putHoldsLock (Sys.init P s0 ops) sched = some y1) :
    y1.store = replay P exp s0 y1.log ∧
    (∀ tid now y2, y1.step P exp putHoldsLock tid now = some y2 → ConcStep exp y1 y2) := by
  rw [hlock] at hrun ⊢
  have h := C13.seq_monotone_concurrent P exp s0 ops sched y1 hrun
  exact ⟨h.1, h.2.2.2.2⟩

/-- Witness parameters for the kept counterexamples: `H` is the identity, every signature
verifies. -/
def C13.wP (casSpec : Bool) : Params := ⟨fun b => b, fun _ _ _ => true, casSpec⟩
def C13.wItem (seq : Int) (v : UInt8) : Item := ⟨[v], some [7], [], [], 0, seq⟩
/-- The target `[7]` holds sequence number 0, stored at clock 0. -/
def C13.wStore : Store := Store.empty.set [7] ⟨C13.wItem 0 0, 0⟩

/-- KEPT COUNTEREXAMPLE (DESIGN.md F7), `lock = false`: two concurrent puts (seq 2 and seq 1)
to a target holding seq 0, schedule Get₀ Get₁ Put₀ Put₁ at store-call granularity: both are
answered ok, the store goes 0 → 2 → 1 — the lower sequence number overwrites the higher one.
Under either CAS rule. -/
theorem C13.lost_update_without_lock (casSpec : Bool) :
    ∃ y1 y2,
      Sys.run (C13.wP casSpec) 1000 false (Sys.init (C13.wP casSpec) C13.wStore [.put (C13.wItem 2 2), .put (C13.wItem 1 1)])
        [(0, 1), (1, 1), (0, 1)] = some y1 ∧
      y1.step (C13.wP casSpec) 1000 false 1 1 = some y2 ∧
      (y1.store [7]).map (·.item.seq) = some 2 ∧ (y2.store [7]).map (·.item.seq) = some 1 ∧
      y2.threads 0 = .done .ok ∧ y2.threads 1 = .done .ok ∧ ¬ ConcStep 1000 y1 y2 := by
  have key : (Sys.run (C13.wP casSpec) 1000 false (Sys.init (C13.wP casSpec) C13.wStore [.put (C13.wItem 2 2), .put (C13.wItem 1 1)])
        [(0, 1), (1, 1), (0, 1)]).bind (fun y1 => (y1.step (C13.wP casSpec) 1000 false 1 1).map (fun y2 =>
          ((y1.store [7]).map (·.item.seq), (y2.store [7]).map (·.item.seq), y2.threads 0, y2.threads 1))) =
      some (some 2, some 1, .done .ok, .done .ok) := by
    cases casSpec <;> decide
  cases h1 : Sys.run (C13.wP casSpec) 1000 false (Sys.init (C13.wP casSpec) C13.wStore [.put (C13.wItem 2 2), .put (C13.wItem 1 1)])
        [(0, 1), (1, 1), (0, 1)] with
  | none => rw [h1] at key; cases key
  | some y1 =>
    rw [h1] at key
    simp only [Option.bind_some] at key
    cases h2 : y1.step (C13.wP casSpec) 1000 false 1 1 with
    | none => rw [h2] at key; cases key
    | some y2 =>
      rw [h2] at key
      simp only [Option.map_some, Option.some.injEq, Prod.mk.injEq] at key
      obtain ⟨k1, k2, k3, k4⟩ := key
      refine ⟨y1, y2, rfl, h2, k1, k2, k3, k4, ?_⟩
      intro hc
      cases ha : y1.store [7] with
      | none => rw [ha] at k1; cases k1
      | some a =>
        cases hb : y2.store [7] with
        | none => rw [hb] at k2; cases k2
        | some b =>
          have := hc [7] a ha
          rw [hb] at this
          rw [ha] at k1; rw [hb] at k2
          simp only [Option.map_some, Option.some.injEq] at k1 k2
          simp only [] at this
          omega

/-- KEPT COUNTEREXAMPLE (DESIGN.md F7), `lock = false`: the target holds an item stored at
clock 0 with expiry 10. At clock 10 a get reads it (expired), a concurrent put of seq 1 is
accepted and stored (created at 10, fresh until 20), then the get's `Del` removes the FRESH
item: the put was answered ok, yet nothing is stored. Under either CAS rule. -/
theorem C13.fresh_item_deleted_without_lock (casSpec : Bool) :
    ∃ y,
      Sys.run (C13.wP casSpec) 10 false (Sys.init (C13.wP casSpec) C13.wStore [.get [7], .put (C13.wItem 1 1)])
        [(0, 10), (1, 10), (1, 10), (0, 10)] = some y ∧
      y.store [7] = none ∧ y.threads 1 = .done .ok ∧ y.threads 0 = .done .notFound := by
  have key : (Sys.run (C13.wP casSpec) 10 false (Sys.init (C13.wP casSpec) C13.wStore [.get [7], .put (C13.wItem 1 1)])
        [(0, 10), (1, 10), (1, 10), (0, 10)]).map (fun y => (y.store [7], y.threads 1, y.threads 0)) =
      some (none, .done .ok, .done .notFound) := by
    cases casSpec <;> decide
  cases h1 : Sys.run (C13.wP casSpec) 10 false (Sys.init (C13.wP casSpec) C13.wStore [.get [7], .put (C13.wItem 1 1)])
        [(0, 10), (1, 10), (1, 10), (0, 10)] with
  | none => rw [h1] at key; cases key
  | some y =>
    rw [h1] at key
    simp only [Option.map_some, Option.some.injEq, Prod.mk.injEq] at key
    exact ⟨y, rfl, key.1, key.2.1, key.2.2⟩

/-- With the lock the two witness schedules above are not even enabled: the second thread's
first store call has to wait. -/
theorem C13.witness_schedules_blocked_by_lock (casSpec : Bool) :
    Sys.run (C13.wP casSpec) 1000 true (Sys.init (C13.wP casSpec) C13.wStore [.put (C13.wItem 2 2), .put (C13.wItem 1 1)])
        [(0, 1), (1, 1)] = none ∧
    Sys.run (C13.wP casSpec) 10 true (Sys.init (C13.wP casSpec) C13.wStore [.get [7], .put (C13.wItem 1 1)])
        [(0, 10), (1, 10)] = none := by
  have h : ∀ o : Option Sys, o.isSome = false → o = none := by intro o; cases o <;> simp
  constructor <;> apply h <;> cases casSpec <;> decide

/-! ## Non-vacuity -/

example : ∃ y, Sys.run (C13.wP true) 1000 true (Sys.init (C13.wP true) C13.wStore [.put (C13.wItem 2 2), .put (C13.wItem 1 1)])
    [(0, 1), (0, 1), (1, 1)] = some y ∧ (y.store [7]).map (·.item.seq) = some 2 ∧
    y.threads 1 = .done (.err Gen.bep44ErrSequenceNumberLessThanCurrent) := by
  have key : (Sys.run (C13.wP true) 1000 true (Sys.init (C13.wP true) C13.wStore [.put (C13.wItem 2 2), .put (C13.wItem 1 1)])
    [(0, 1), (0, 1), (1, 1)]).map (fun y => ((y.store [7]).map (·.item.seq), y.threads 1)) =
      some (some 2, .done (.err Gen.bep44ErrSequenceNumberLessThanCurrent)) := by decide
  cases h1 : Sys.run (C13.wP true) 1000 true (Sys.init (C13.wP true) C13.wStore [.put (C13.wItem 2 2), .put (C13.wItem 1 1)])
    [(0, 1), (0, 1), (1, 1)] with
  | none => rw [h1] at key; cases key
  | some y =>
    rw [h1] at key
    simp only [Option.map_some, Option.some.injEq, Prod.mk.injEq] at key
    exact ⟨y, rfl, key.1, key.2⟩

/-- A history on which the sequential theorems bite: accepted 0 → 3, then 2 is refused (302),
the refresh of 3 is accepted, 5 with cas 3 is accepted under the property's rule. -/
example :
    let P := C13.wP true
    let s1 := (Wrapper.put P 0 Store.empty (C13.wItem 3 1)).1
    (Wrapper.put P 1 s1 (C13.wItem 2 2)).2 = some 302 ∧ (Wrapper.put P 1 s1 (C13.wItem 3 1)).2 = none ∧
    (Wrapper.put P 1 s1 ⟨[9], some [7], [], [], 3, 5⟩).2 = none ∧
    (Wrapper.put P 1 s1 ⟨[9], some [7], [], [], 4, 5⟩).2 = some 301 := by decide

/-- T1 by translation: the decision expression extracted from `CheckIncoming` in bep44/item.go,
interpreted with the atom table of Props/SourceTrees, IS the model's `checkIncoming`, for all items. -/
theorem C13.checkIncoming_is_the_source (stored incoming : B44.Item) :
    DExp.evalWith (ciCond stored incoming) ciRet Gen.treeCheckIncoming = some (B44.checkIncoming stored incoming) :=
  SourceTrees.checkIncoming stored incoming

end Dht
