/-
C13 (companion module, audited with Props/C13.lean) — the version rule survives a FAILING store.

`ServerConfig.Store` is a public extension point: `Get` and `Put` of the `bep44.Store` behind
`bep44.Wrapper` can fail with ordinary Go errors. Props/C13.lean is about Model/Bep44.lean, whose
store never fails; this module is about Model/Bep44Fault.lean: the same store contents, the same
`Check` / `CheckIncoming`, plus a fault oracle `f : Fault` per `Wrapper.Put` (`f.getFails`: the
`Store.Get` of this put returns an error other than `ErrItemNotFound`; `f.putFails`: its
`Store.Put` returns an error). `wrapperPutF` follows /repo/bep44/store.go `Wrapper.Put` branch by
branch, `handlePutF` adds the tail of `case "put"` of /repo/server.go `handleQuery` (which datagrams
are sent). All theorems hold for every fault pattern, every item (valid or not), every store and
every clock reading; those that do not mention `P.casSpec` hold under BOTH CAS rules.

Also C08 ("exactly one datagram per query") for the put handler over a failing store:
`C13.faulty_put_one_answer`.

Property theorems only (helper lemmas: DhtVerif/Lemmas/C13Fault.lean).
-/
import DhtVerif.Lemmas.C13Fault
import DhtVerif.Props.C13
namespace Dht
open B44

/-! ## Regenerated side condition, and agreement with the never-failing model -/

/-- The code the handler answers an ordinary store error with is `krpc.ErrorMethodUnknown`'s 204
in the source tree. -/
theorem C13.store_error_code_from_source :
    Gen.errorCodeMethodUnknown = 204 ∧ answersOf .storeErr = [.error 204] := by decide

/-- With no fault, `wrapperPutF` / `handlePutF` ARE `Wrapper.put` / `handlePut` of Model/Bep44
(the model of Props/C13 and Props/C12): same store, same error code, one answer. -/
theorem C13.no_fault_is_wrapper_put (P : Params) (now : Nat) (s : Store) (i : Item)
    (bv k salt sig : Bytes) (cas : Int) (seq : Option Int) :
    wrapperPutF P Fault.none now s i = (PutOutcome.ofErr (Wrapper.put P now s i).2, (Wrapper.put P now s i).1) ∧
    handlePutF P Fault.none now s bv k salt sig cas seq =
      (answersOf (PutOutcome.ofErr (handlePut P now s bv k salt sig cas seq).2), (handlePut P now s bv k salt sig cas seq).1) := by
  have h1 : ∀ i, wrapperPutF P Fault.none now s i =
      (PutOutcome.ofErr (Wrapper.put P now s i).2, (Wrapper.put P now s i).1) := by
    intro i
    rcases wrapperPutF_cases P Fault.none now s i with ⟨e, hc, h⟩ | ⟨_, hg, _⟩ | ⟨st, e, hc, _, hs, hi, h⟩ |
        ⟨_, _, _, hp, _⟩ | ⟨hc, _, had, _, h⟩
    · rw [h]; simp [Wrapper.put, hc, PutOutcome.ofErr]
    · cases hg
    · rw [h]; simp [Wrapper.put, hc, hs, hi, PutOutcome.ofErr]
    · cases hp
    · rw [h]
      rcases had with hn | ⟨st, hs, hi⟩
      · simp [Wrapper.put, hc, hn, PutOutcome.ofErr]
      · simp [Wrapper.put, hc, hs, hi, PutOutcome.ofErr]
  refine ⟨h1 i, ?_⟩
  cases seq with
  | none => rfl
  | some q =>
    simp only [handlePutF, handlePutFWith, handlePut]
    have := h1 ⟨bv, keyOfWire k, salt, sig, cas, q⟩
    unfold wrapperPutF at this
    rw [this]

/-! ## A failing call writes nothing -/

/-- An operation whose `Get` or `Put` fails leaves the store exactly as it was, and is not
answered ok. (If the flagged call is never reached — `Check` or `CheckIncoming` rejected the item
first — the put is refused with that `krpc.Error`; nothing is written either.) -/
theorem C13.fault_writes_nothing (P : Params) (f : Fault) (now : Nat) (s : Store) (i : Item)
    (hf : f.getFails = true ∨ f.putFails = true) :
    (wrapperPutF P f now s i).2 = s ∧ (wrapperPutF P f now s i).1 ≠ .ok := by
  rcases wrapperPutF_store P f now s i with ⟨h1, h2⟩ | ⟨hg, hp, _, _⟩
  · exact ⟨h2, h1⟩
  · rcases hf with h | h
    · rw [hg] at h; cases h
    · rw [hp] at h; cases h

/-- Exactly when the ordinary store error comes back: the item passed `Check` and either the
`Get` failed, or the `Get` succeeded, `CheckIncoming` let the put through (or nothing was stored)
and the `Put` failed. In particular a failing `Get` is answered BEFORE `CheckIncoming` is
consulted. -/
theorem C13.store_error_iff (P : Params) (f : Fault) (now : Nat) (s : Store) (i : Item) :
    (wrapperPutF P f now s i).1 = .storeErr ↔
      check P i = none ∧ (f.getFails = true ∨ (f.putFails = true ∧
        (s (target P i) = none ∨ ∃ st, s (target P i) = some st ∧ checkIncomingWith P.casSpec st.item i = none))) := by
  rcases wrapperPutF_cases P f now s i with ⟨e, hc, h⟩ | ⟨hc, hg, h⟩ | ⟨st, e, hc, hg, hs, hi, h⟩ |
      ⟨hc, hg, had, hp, h⟩ | ⟨hc, hg, had, hp, h⟩
  · rw [h]; simp [hc]
  · rw [h]; simp [hc, hg]
  · rw [h]; simp [hc, hg, hs, hi]
  · rw [h]; simp only [true_iff]; exact ⟨hc, Or.inr ⟨hp, had⟩⟩
  · rw [h]; simp [hg, hp]

/-- Whatever the faults: the store moves only when the put is answered ok, and then it moves
exactly as the never-failing `Wrapper.put` moves it (which accepts that put too) — so every
single-step theorem of Props/C13 about accepted puts carries over. -/
theorem C13.faulty_put_refines (P : Params) (f : Fault) (now : Nat) (s : Store) (i : Item) :
    ((wrapperPutF P f now s i).1 ≠ .ok ∧ (wrapperPutF P f now s i).2 = s) ∨
    (f.getFails = false ∧ f.putFails = false ∧ (wrapperPutF P f now s i).1 = .ok ∧
      Wrapper.put P now s i = ((wrapperPutF P f now s i).2, none)) :=
  wrapperPutF_store P f now s i

/-! ## The kept item never moves backwards -/

/-- One put, any store (reachable or not), any fault pattern, any target `t` holding `a`: after
the put `t` still holds an entry `b`, `b`'s sequence number is not lower, an equal sequence number
means the same value, and — under the rule of the property — if the kept item moved (other
sequence number or other value) through a put carrying a CAS value (non-zero: `cas,omitempty`),
that value is the sequence number that was stored, the put was answered ok and `b` is its item.
Moreover the entry is `SeqStep`-related as in `C13.seq_monotone_step`. -/
theorem C13.faulty_put_step (P : Params) (exp : Nat) (f : Fault) (now : Nat) (s : Store) (i : Item) (t : Target) (a : Entry)
    (ha : s t = some a) :
    (∃ b, (wrapperPutF P f now s i).2 t = some b ∧ a.item.seq ≤ b.item.seq ∧
      (a.item.seq = b.item.seq → a.item.bv = b.item.bv) ∧
      (P.casSpec = true → (b.item.seq ≠ a.item.seq ∨ b.item.bv ≠ a.item.bv) → i.cas ≠ 0 →
        i.cas = a.item.seq ∧ b.item = i ∧ (wrapperPutF P f now s i).1 = .ok)) ∧
    SeqStep exp now s (wrapperPutF P f now s i).2 t := by
  obtain ⟨b, hb, hle, heq⟩ := wrapperPutF_forward P f now s i t a ha
  refine ⟨⟨b, hb, hle, heq, fun hP hch h0 => ?_⟩, ?_⟩
  · obtain ⟨h1, _, h3, h4⟩ := wrapperPutF_cas P hP f now s i t a b ha hb hch h0
    exact ⟨h1, h3, h4⟩
  · rcases wrapperPutF_store P f now s i with ⟨_, h2⟩ | ⟨_, _, _, h⟩
    · rw [h2]; exact SeqStep.refl _ _ _ _
    · have := Wrapper.put_seqStep P exp now s i t
      rw [h] at this; exact this

/-- EVERY history of puts (any items, any targets, valid or not, any clock readings) against a
store with ARBITRARY fault flags per put, from any store `s`, for every target `t` stored in `s`:
 * between any two points of the history (`pre`, `pre ++ mid`) the target stays stored, its
   sequence number does not decrease, and if the number is the same the value is the same;
 * at every single put `e` of the history (after the prefix `pre`), under the rule of the property
   (`P.casSpec = true`): if the kept item moved and `e` carried a CAS value, then that value is the
   sequence number stored just before `e`, and what is kept afterwards is `e`'s item.
The first part holds under both CAS rules. -/
theorem C13.faulty_store_monotone (P : Params) (s : Store) (evs : List PutEv) (t : Target) (a : Entry)
    (ha : s t = some a) :
    (∀ pre mid post, evs = pre ++ mid ++ post →
      ∃ c d, runF P s pre t = some c ∧ runF P s (pre ++ mid) t = some d ∧
        a.item.seq ≤ c.item.seq ∧ c.item.seq ≤ d.item.seq ∧ (c.item.seq = d.item.seq → c.item.bv = d.item.bv)) ∧
    (∀ pre e post, evs = pre ++ e :: post →
      ∃ c d, runF P s pre t = some c ∧ runF P s (pre ++ [e]) t = some d ∧
        (P.casSpec = true → (d.item.seq ≠ c.item.seq ∨ d.item.bv ≠ c.item.bv) → e.item.cas ≠ 0 →
          e.item.cas = c.item.seq ∧ d.item = e.item)) := by
  constructor
  · intro pre mid post _
    obtain ⟨c, hc, hle, _⟩ := runF_forward P pre s t a ha
    obtain ⟨d, hd, hle', heq'⟩ := runF_forward P mid (runF P s pre) t c hc
    exact ⟨c, d, hc, by rw [runF_append]; exact hd, hle, hle', heq'⟩
  · intro pre e post _
    obtain ⟨c, hc, _, _⟩ := runF_forward P pre s t a ha
    obtain ⟨d, hd, _, _⟩ := wrapperPutF_forward P e.f e.now (runF P s pre) e.item t c hc
    refine ⟨c, d, hc, by rw [runF_snoc]; exact hd, fun hP hch h0 => ?_⟩
    obtain ⟨h1, _, h3, _⟩ := wrapperPutF_cas P hP e.f e.now (runF P s pre) e.item t c d hc hd hch h0
    exact ⟨h1, h3⟩

/-- The reject codes of `C13.reject_codes` / `C13.cas_rule` are unaffected by a failing `Put`
(the `Put` is never reached): a put (passing `Check`, `Get` not failing) with a lower sequence
number, or the same number and another value, is answered 302; under the rule of the property a
CAS value other than the stored sequence number is answered 301. Store unchanged. -/
theorem C13.faulty_reject_codes (P : Params) (f : Fault) (hg : f.getFails = false) (now : Nat) (s : Store) (i : Item)
    (st : Entry) (hc : check P i = none) (hs : s (target P i) = some st) :
    ((i.seq < st.item.seq ∨ (i.seq = st.item.seq ∧ i.bv ≠ st.item.bv)) →
      wrapperPutF P f now s i = (.krpcErr Gen.bep44ErrSequenceNumberLessThanCurrent, s)) ∧
    (P.casSpec = true → st.item.seq < i.seq → i.cas ≠ 0 ∧ i.cas ≠ st.item.seq →
      wrapperPutF P f now s i = (.krpcErr Gen.bep44ErrCasHashMismatched, s)) := by
  have key : ∀ e, checkIncomingWith P.casSpec st.item i = some e → wrapperPutF P f now s i = (.krpcErr e, s) := by
    intro e he
    simp [wrapperPutF, wrapperPutFWith, hc, hg, hs, he]
  constructor
  · intro hlow
    exact key _ (checkIncomingWith_lower _ _ _ hlow)
  · intro hP hhi hcas
    have h1 := (C13.cas_rule P hP now s i st hc hs hhi).1 hcas
    apply key
    unfold Wrapper.put at h1
    rw [hc] at h1; simp only [] at h1; rw [hs] at h1; simp only [] at h1
    cases hi : checkIncomingWith P.casSpec st.item i with
    | none => rw [hi] at h1; simp at h1
    | some e => rw [hi] at h1; simp at h1; rw [h1]

/-! ## Exactly one answer (C08 for the put handler over a failing store) -/

/-- The put handler (after the token test) sends exactly ONE datagram for every fault pattern,
every item and every store — a response or an error, never two, never none: a response iff
`Wrapper.Put` returned nil, the `krpc.Error` itself when the store returned one, error 204 for
any other error; a missing `seq` is answered 203. -/
theorem C13.faulty_put_one_answer (P : Params) (f : Fault) (now : Nat) (s : Store) (bv k salt sig : Bytes)
    (cas : Int) (seq : Option Int) :
    (handlePutF P f now s bv k salt sig cas seq).1.length = 1 ∧
    ((handlePutF P f now s bv k salt sig cas seq).1 = [.response] ∨
      ∃ c, (handlePutF P f now s bv k salt sig cas seq).1 = [.error c]) ∧
    (∀ q, seq = some q →
      (handlePutF P f now s bv k salt sig cas seq).1 =
        match (wrapperPutF P f now s ⟨bv, keyOfWire k, salt, sig, cas, q⟩).1 with
        | .ok => [.response]
        | .krpcErr c => [.error c]
        | .storeErr => [.error Gen.errorCodeMethodUnknown]) ∧
    (seq = none → handlePutF P f now s bv k salt sig cas seq = ([.error Gen.errorCodeProtocolError], s)) ∧
    ((handlePutF P f now s bv k salt sig cas seq).1 ≠ [.response] → (handlePutF P f now s bv k salt sig cas seq).2 = s) := by
  cases seq with
  | none =>
    exact ⟨rfl, Or.inr ⟨_, rfl⟩, fun q hq => (by cases hq), fun _ => rfl, fun _ => rfl⟩
  | some q =>
    have hst := wrapperPutF_store P f now s ⟨bv, keyOfWire k, salt, sig, cas, q⟩
    have hdef : handlePutF P f now s bv k salt sig cas (some q) =
        (answersOf (wrapperPutF P f now s ⟨bv, keyOfWire k, salt, sig, cas, q⟩).1,
          (wrapperPutF P f now s ⟨bv, keyOfWire k, salt, sig, cas, q⟩).2) := rfl
    have h3 : ∀ q', some q = some q' →
        (handlePutF P f now s bv k salt sig cas (some q)).1 =
          match (wrapperPutF P f now s ⟨bv, keyOfWire k, salt, sig, cas, q'⟩).1 with
          | .ok => [.response]
          | .krpcErr c => [.error c]
          | .storeErr => [.error Gen.errorCodeMethodUnknown] := by
      intro q' hq'
      cases hq'
      rw [hdef]
      cases (wrapperPutF P f now s ⟨bv, keyOfWire k, salt, sig, cas, q⟩).1 <;> rfl
    refine ⟨?_, ?_, h3, fun h => (by cases h), ?_⟩ <;> clear h3 <;> rw [hdef] <;>
      generalize wrapperPutF P f now s ⟨bv, keyOfWire k, salt, sig, cas, q⟩ = r at hst ⊢ <;>
      obtain ⟨o, s'⟩ := r
    · cases o <;> rfl
    · cases o
      · exact Or.inl rfl
      · exact Or.inr ⟨_, rfl⟩
      · exact Or.inr ⟨_, rfl⟩
    · intro hne
      rcases hst with ⟨_, h2⟩ | ⟨_, _, h3, _⟩
      · exact h2
      · simp only [] at h3
        exact absurd (by rw [h3]; rfl) hne

/-! ## Kept counterexample: the variant that swallows a failing `Get` -/

/-- The target `[7]` holds sequence number 5 (value `[5]`), stored at clock 0. -/
def C13.wStore5 : Store := Store.empty.set [7] ⟨C13.wItem 5 5, 0⟩

/-- KEPT COUNTEREXAMPLE (the seeded defect): `Wrapper.Put` treating EVERY error of `Get` like
`ErrItemNotFound` (`wrapperPutFWith true`). The target holds seq 5; a put of seq 3 whose `Get`
fails is stamped and stored without `CheckIncoming`: it is answered ok (one response datagram)
and the store goes 5 → 3, so the statement of `C13.faulty_store_monotone` is FALSE for the
variant. The code (`wrapperPutF`) answers the same put with the store error (204 on the wire) and
keeps seq 5; without the fault both refuse it with 302. Under either CAS rule. -/
theorem C13.swallowed_get_error_breaks_monotonicity (casSpec : Bool) :
    (wrapperPutFWith true (C13.wP casSpec) ⟨true, false⟩ 1 C13.wStore5 (C13.wItem 3 3)).1 = .ok ∧
    (C13.wStore5 [7]).map (·.item.seq) = some 5 ∧
    ((wrapperPutFWith true (C13.wP casSpec) ⟨true, false⟩ 1 C13.wStore5 (C13.wItem 3 3)).2 [7]).map (·.item.seq) = some 3 ∧
    (handlePutFWith true (C13.wP casSpec) ⟨true, false⟩ 1 C13.wStore5 [3] [7] [] [] 0 (some 3)).1 = [.response] ∧
    (wrapperPutF (C13.wP casSpec) ⟨true, false⟩ 1 C13.wStore5 (C13.wItem 3 3)).1 = .storeErr ∧
    ((wrapperPutF (C13.wP casSpec) ⟨true, false⟩ 1 C13.wStore5 (C13.wItem 3 3)).2 [7]).map (·.item.seq) = some 5 ∧
    (handlePutF (C13.wP casSpec) ⟨true, false⟩ 1 C13.wStore5 [3] [7] [] [] 0 (some 3)).1 = [.error 204] ∧
    (wrapperPutFWith true (C13.wP casSpec) Fault.none 1 C13.wStore5 (C13.wItem 3 3)).1 = .krpcErr 302 ∧
    ¬ (∀ (s : Store) (evs : List PutEv) (t : Target) (a : Entry), s t = some a →
        ∃ b, runFWith true (C13.wP casSpec) s evs t = some b ∧ a.item.seq ≤ b.item.seq) := by
  refine ⟨?_, ?_, ?_, ?_, ?_, ?_, ?_, ?_, ?_⟩
  · cases casSpec <;> decide
  · decide
  · cases casSpec <;> decide
  · cases casSpec <;> decide
  · cases casSpec <;> decide
  · cases casSpec <;> decide
  · cases casSpec <;> decide
  · cases casSpec <;> decide
  · intro h
    obtain ⟨b, hb, hle⟩ := h C13.wStore5 [⟨⟨true, false⟩, 1, C13.wItem 3 3⟩] [7] ⟨C13.wItem 5 5, 0⟩ (by decide)
    have h3 : (runFWith true (C13.wP casSpec) C13.wStore5 [⟨⟨true, false⟩, 1, C13.wItem 3 3⟩] [7]).map (·.item.seq) = some 3 := by
      cases casSpec <;> decide
    rw [hb] at h3
    simp only [Option.map_some, Option.some.injEq] at h3
    have h5 : (C13.wItem 5 5).seq = 5 := rfl
    simp only [] at hle
    omega

/-! ## Non-vacuity -/

/-- A history on which the theorems bite, with all three fault patterns, from the empty store:
seq 3 accepted; seq 5 with a failing Put → store error, still 3; seq 5 again → accepted; seq 4
with a failing Get → store error (NOT 302: the Get fails before CheckIncoming), still 5; seq 4
without fault → 302; seq 7 cas 4 → 301 under the rule of the property; seq 7 cas 5 with a failing
Put → store error, still 5; seq 7 cas 5 → accepted. -/
example :
    let P := C13.wP true
    let it (seq cas : Int) (v : UInt8) : Item := ⟨[v], some [7], [], [], cas, seq⟩
    let h : List PutEv := [⟨⟨false, false⟩, 0, it 3 0 1⟩, ⟨⟨false, true⟩, 1, it 5 0 2⟩, ⟨⟨false, false⟩, 2, it 5 0 2⟩,
      ⟨⟨true, false⟩, 3, it 4 0 3⟩, ⟨⟨false, false⟩, 4, it 4 0 3⟩, ⟨⟨false, false⟩, 5, it 7 4 4⟩,
      ⟨⟨false, true⟩, 6, it 7 5 4⟩, ⟨⟨false, false⟩, 7, it 7 5 4⟩]
    (List.range 9).map (fun n => ((runF P Store.empty (h.take n)) [7]).map (·.item.seq)) =
      [none, some 3, some 3, some 5, some 5, some 5, some 5, some 5, some 7] ∧
    (List.range 8).map (fun n => match h[n]? with
      | some e => some (wrapperPutF P e.f e.now (runF P Store.empty (h.take n)) e.item).1
      | none => none) =
      [some .ok, some .storeErr, some .ok, some .storeErr, some (.krpcErr 302), some (.krpcErr 301),
       some .storeErr, some .ok] := by decide

/-- The hypotheses of `C13.faulty_store_monotone` are met by a non-trivial history (a stored
target, puts that fail, puts that move the item, a CAS put that replaces it). -/
example : ∃ (evs : List PutEv) (a b : Entry),
    C13.wStore5 [7] = some a ∧ runF (C13.wP true) C13.wStore5 evs [7] = some b ∧ a.item.seq < b.item.seq ∧
    b.item.cas = a.item.seq ∧ (∃ e ∈ evs, e.f.getFails = true) ∧ (∃ e ∈ evs, e.f.putFails = true) :=
  ⟨[⟨⟨true, false⟩, 1, C13.wItem 3 3⟩, ⟨⟨false, true⟩, 2, ⟨[9], some [7], [], [], 5, 6⟩⟩,
    ⟨⟨false, false⟩, 3, ⟨[9], some [7], [], [], 5, 6⟩⟩],
   ⟨C13.wItem 5 5, 0⟩, ⟨⟨[9], some [7], [], [], 5, 6⟩, 3⟩, by decide, by decide, by decide, by decide,
   ⟨_, List.mem_cons_self .., rfl⟩, ⟨_, List.mem_cons_of_mem _ (List.mem_cons_self ..), rfl⟩⟩

/-- Every answer of the handler occurs: response, a `krpc.Error` of the store (302), 204 for an
ordinary error (failing Get, failing Put), 203 for a missing `seq` — one datagram each. -/
example :
    (handlePutF (C13.wP true) Fault.none 1 C13.wStore5 [6] [7] [] [] 0 (some 6)).1 = [.response] ∧
    (handlePutF (C13.wP true) Fault.none 1 C13.wStore5 [3] [7] [] [] 0 (some 3)).1 = [.error 302] ∧
    (handlePutF (C13.wP true) ⟨true, false⟩ 1 C13.wStore5 [6] [7] [] [] 0 (some 6)).1 = [.error 204] ∧
    (handlePutF (C13.wP true) ⟨false, true⟩ 1 C13.wStore5 [6] [7] [] [] 0 (some 6)).1 = [.error 204] ∧
    (handlePutF (C13.wP true) ⟨true, true⟩ 1 C13.wStore5 [6] [7] [] [] 0 none).1 = [.error 203] := by decide

end Dht
