/-
T1 by translation (part of the former Props/SourceTrees.lean, split per source function so that an edit of one
function only touches the property that owns it): the regenerated decision expression of the function, interpreted
with an atom table (source text |-> meaning on model values, unknown text |-> none), equals the model function
for all arguments; with negative checks on hand-mutated trees.
-/
import DhtVerif.Model.SourceTrees
import DhtVerif.Model.Server
namespace Dht
open Gen (DExp)

/-! ### shouldReturnNodes / shouldReturnNodes6 (BEP 32 gating) -/

def srnCond (want : List (List UInt8)) (_srcIp : List UInt8) : String → Option Bool
  | "len(queryWants) != 0" => some (want.length != 0)
  | _ => none

def srnRet (want : List (List UInt8)) (srcIp : List UInt8) : String → Option Bool
  | "wantsContain(queryWants, krpc.WantNodes)" => some (wantsContain want "n4")
  | "wantsContain(queryWants, krpc.WantNodes6)" => some (wantsContain want "n6")
  | "querySource.To4() != nil" => some (to4 srcIp).isSome
  | "querySource.To4() == nil" => some (to4 srcIp).isNone
  | _ => none

theorem SourceTrees.shouldReturnNodes (want : List (List UInt8)) (srcIp : List UInt8) :
    DExp.evalWith (srnCond want srcIp) (srnRet want srcIp) Gen.treeShouldReturnNodes = some (shouldReturnNodes want srcIp) ∧
    DExp.evalWith (srnCond want srcIp) (srnRet want srcIp) Gen.treeShouldReturnNodes6 = some (shouldReturnNodes6 want srcIp) := by
  simp only [Gen.treeShouldReturnNodes, Gen.treeShouldReturnNodes6, DExp.evalWith, srnCond, srnRet,
    Dht.shouldReturnNodes, Dht.shouldReturnNodes6]
  constructor <;> split <;> simp_all

/-- Negative check: the length test negated (`!=` → `==`): unknown atom, no value for any argument. -/
def treeShouldReturnNodesMutLen : DExp := DExp.ite "len(queryWants) == 0" (DExp.ret "wantsContain(queryWants, krpc.WantNodes)") (DExp.ret "querySource.To4() != nil")

example (want : List (List UInt8)) (srcIp : List UInt8) :
    DExp.evalWith (srnCond want srcIp) (srnRet want srcIp) treeShouldReturnNodesMutLen = none := by
  simp [treeShouldReturnNodesMutLen, DExp.evalWith, srnCond]

/-- Negative check: `shouldReturnNodes` with the fallback of `shouldReturnNodes6` (`To4() == nil`): every atom is
known, the tree evaluates, but not to the model's function (no `want`, IPv4 source). -/
def treeShouldReturnNodesMutTo4 : DExp := DExp.ite "len(queryWants) != 0" (DExp.ret "wantsContain(queryWants, krpc.WantNodes)") (DExp.ret "querySource.To4() == nil")

example :
    DExp.evalWith (srnCond [] [1, 2, 3, 4]) (srnRet [] [1, 2, 3, 4]) treeShouldReturnNodesMutTo4 = some false ∧
    shouldReturnNodes [] [1, 2, 3, 4] = true := by
  constructor
  · simp [treeShouldReturnNodesMutTo4, DExp.evalWith, srnCond, srnRet, to4]
  · decide

example : ¬ ∀ (want : List (List UInt8)) (srcIp : List UInt8),
    DExp.evalWith (srnCond want srcIp) (srnRet want srcIp) treeShouldReturnNodesMutTo4 = some (shouldReturnNodes want srcIp) := by
  intro h
  have h' := h [] [1, 2, 3, 4]
  simp [treeShouldReturnNodesMutTo4, DExp.evalWith, srnCond, srnRet, to4, shouldReturnNodes] at h'

end Dht
