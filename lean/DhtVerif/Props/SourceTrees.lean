/-
T1 by translation: the model's decision functions ARE the decision expressions read off
the Go source. For each function an atom table maps the source's condition / result
expressions to the model's terms; the theorem says that evaluating the regenerated tree
equals the model function, for all arguments. A changed operator, operand, constant or
order of tests in the source changes the tree and the proof no longer goes through.
-/
import DhtVerif.Model.SourceTrees
import DhtVerif.Model.Bep44
import DhtVerif.Model.Server
import DhtVerif.Model.Traversal
namespace Dht
open Gen (DExp)

/-! ### bep44.CheckIncoming -/

def ciCond (stored incoming : B44.Item) : String → Option Bool
  | "stored.Seq == incoming.Seq" => some (decide (stored.seq = incoming.seq))
  | "bytes.Equal(bencode.MustMarshal(stored.V), bencode.MustMarshal(incoming.V))" => some (decide (stored.bv = incoming.bv))
  | "stored.Seq >= incoming.Seq" => some (decide (stored.seq ≥ incoming.seq))
  | "incoming.Cas == 0" => some (decide (incoming.cas = 0))
  | "stored.Seq != incoming.Cas" => some (decide (stored.seq ≠ incoming.cas))
  | _ => none

def ciRet : String → Option (Option Nat)
  | "nil" => some none
  | "ErrSequenceNumberLessThanCurrent" => some (some Gen.bep44ErrSequenceNumberLessThanCurrent)
  | "ErrCasHashMismatched" => some (some Gen.bep44ErrCasHashMismatched)
  | _ => none

/-- `CheckIncoming` in bep44/item.go computes exactly the model's `checkIncoming` (the rule of the property). -/
theorem SourceTrees.checkIncoming (stored incoming : B44.Item) :
    DExp.evalWith (ciCond stored incoming) ciRet Gen.treeCheckIncoming = some (B44.checkIncoming stored incoming) := by
  simp only [Gen.treeCheckIncoming, DExp.evalWith, ciCond, ciRet, B44.checkIncoming, B44.checkIncomingWith,
    B44.casRuleComparesStoredSeq, B44.checkIncomingSpec]
  generalize stored.seq = ss, incoming.seq = is, incoming.cas = ic
  grind

/-- Negative check: `Gen.treeCheckIncoming` with `>=` changed to `>` (both occurrences). -/
def treeCheckIncomingMutGt : DExp := DExp.ite "stored.Seq == incoming.Seq" (DExp.ite "bytes.Equal(bencode.MustMarshal(stored.V), bencode.MustMarshal(incoming.V))" (DExp.ret "nil") (DExp.ite "stored.Seq > incoming.Seq" (DExp.ret "ErrSequenceNumberLessThanCurrent") (DExp.ite "incoming.Cas == 0" (DExp.ret "nil") (DExp.ite "stored.Seq != incoming.Cas" (DExp.ret "ErrCasHashMismatched") (DExp.ret "nil"))))) (DExp.ite "stored.Seq > incoming.Seq" (DExp.ret "ErrSequenceNumberLessThanCurrent") (DExp.ite "incoming.Cas == 0" (DExp.ret "nil") (DExp.ite "stored.Seq != incoming.Cas" (DExp.ret "ErrCasHashMismatched") (DExp.ret "nil"))))

/-- The changed comparison has no meaning in the atom table: whenever evaluation reaches it, the result is `none`. -/
theorem SourceTrees.checkIncoming_mutGt_none (stored incoming : B44.Item)
    (h : ¬ (stored.seq = incoming.seq ∧ stored.bv = incoming.bv)) :
    DExp.evalWith (ciCond stored incoming) ciRet treeCheckIncomingMutGt = none := by
  simp only [treeCheckIncomingMutGt, DExp.evalWith, ciCond]
  by_cases h1 : stored.seq = incoming.seq <;> by_cases h2 : stored.bv = incoming.bv <;> simp_all

/-- So the equation of `SourceTrees.checkIncoming` fails for the changed tree. -/
example : ¬ ∀ stored incoming : B44.Item,
    DExp.evalWith (ciCond stored incoming) ciRet treeCheckIncomingMutGt = some (B44.checkIncoming stored incoming) := by
  intro h
  have h' := h ⟨[], none, [], [], 0, 0⟩ ⟨[], none, [], [], 0, 1⟩
  rw [SourceTrees.checkIncoming_mutGt_none _ _ (by decide)] at h'
  exact absurd h' (by simp)

/-- Negative check with known atoms only: the results of the CAS test exchanged (that is `!=` read as `==`), in both
copies. The tree evaluates, but to a different answer (stored seq 1, incoming seq 2 with cas 1: the source accepts,
the changed tree rejects). -/
def treeCheckIncomingMutCas : DExp := DExp.ite "stored.Seq == incoming.Seq" (DExp.ite "bytes.Equal(bencode.MustMarshal(stored.V), bencode.MustMarshal(incoming.V))" (DExp.ret "nil") (DExp.ite "stored.Seq >= incoming.Seq" (DExp.ret "ErrSequenceNumberLessThanCurrent") (DExp.ite "incoming.Cas == 0" (DExp.ret "nil") (DExp.ite "stored.Seq != incoming.Cas" (DExp.ret "nil") (DExp.ret "ErrCasHashMismatched"))))) (DExp.ite "stored.Seq >= incoming.Seq" (DExp.ret "ErrSequenceNumberLessThanCurrent") (DExp.ite "incoming.Cas == 0" (DExp.ret "nil") (DExp.ite "stored.Seq != incoming.Cas" (DExp.ret "nil") (DExp.ret "ErrCasHashMismatched"))))

example :
    DExp.evalWith (ciCond ⟨[], none, [], [], 0, 1⟩ ⟨[], none, [], [], 1, 2⟩) ciRet treeCheckIncomingMutCas
      = some (some Gen.bep44ErrCasHashMismatched) ∧
    B44.checkIncoming ⟨[], none, [], [], 0, 1⟩ ⟨[], none, [], [], 1, 2⟩ = none := by
  constructor
  · simp [treeCheckIncomingMutCas, DExp.evalWith, ciCond, ciRet]
  · decide

/-! ### shouldReturnNodes / shouldReturnNodes6 (BEP 32 gating) -/

def srnCond (want : List (List UInt8)) (_srcIp : List UInt8) : String → Option Bool
  | "len(queryWants) != 0" => some (want.length != 0)
  | _ => none

def srnRet (want : List (List UInt8)) (srcIp : List UInt8) : String → Option Bool
  | "wantsContain(queryWants, krpc.WantNodes)" => some (wantsContain want "n4")
  | "wantsContain(queryWants, krpc.WantNodes6)" => some (wantsContain want "n6")
  | "querySource.To4() != nil" => some (to4 srcIp).isSome
  | "querySource.To4() == nil" => some (to4 srcIp).isNone
  | _ => none

theorem SourceTrees.shouldReturnNodes (want : List (List UInt8)) (srcIp : List UInt8) :
    DExp.evalWith (srnCond want srcIp) (srnRet want srcIp) Gen.treeShouldReturnNodes = some (shouldReturnNodes want srcIp) ∧
    DExp.evalWith (srnCond want srcIp) (srnRet want srcIp) Gen.treeShouldReturnNodes6 = some (shouldReturnNodes6 want srcIp) := by
  simp only [Gen.treeShouldReturnNodes, Gen.treeShouldReturnNodes6, DExp.evalWith, srnCond, srnRet,
    Dht.shouldReturnNodes, Dht.shouldReturnNodes6]
  constructor <;> split <;> simp_all

/-- Negative check: the length test negated (`!=` → `==`): unknown atom, no value for any argument. -/
def treeShouldReturnNodesMutLen : DExp := DExp.ite "len(queryWants) == 0" (DExp.ret "wantsContain(queryWants, krpc.WantNodes)") (DExp.ret "querySource.To4() != nil")

example (want : List (List UInt8)) (srcIp : List UInt8) :
    DExp.evalWith (srnCond want srcIp) (srnRet want srcIp) treeShouldReturnNodesMutLen = none := by
  simp [treeShouldReturnNodesMutLen, DExp.evalWith, srnCond]

/-- Negative check: `shouldReturnNodes` with the fallback of `shouldReturnNodes6` (`To4() == nil`): every atom is
known, the tree evaluates, but not to the model's function (no `want`, IPv4 source). -/
def treeShouldReturnNodesMutTo4 : DExp := DExp.ite "len(queryWants) != 0" (DExp.ret "wantsContain(queryWants, krpc.WantNodes)") (DExp.ret "querySource.To4() == nil")

example :
    DExp.evalWith (srnCond [] [1, 2, 3, 4]) (srnRet [] [1, 2, 3, 4]) treeShouldReturnNodesMutTo4 = some false ∧
    shouldReturnNodes [] [1, 2, 3, 4] = true := by
  constructor
  · simp [treeShouldReturnNodesMutTo4, DExp.evalWith, srnCond, srnRet, to4]
  · decide

example : ¬ ∀ (want : List (List UInt8)) (srcIp : List UInt8),
    DExp.evalWith (srnCond want srcIp) (srnRet want srcIp) treeShouldReturnNodesMutTo4 = some (shouldReturnNodes want srcIp) := by
  intro h
  have h' := h [] [1, 2, 3, 4]
  simp [treeShouldReturnNodesMutTo4, DExp.evalWith, srnCond, srnRet, to4, shouldReturnNodes] at h'

/-! ### Server.nodeErr (bad nodes) and Server.IsGood -/

def nodeErrCond (c : TableCfg) (n : Node) : String → Option Bool
  | "n.Id == s.id" => some (n.id == c.root)
  | "n.Id.IsZero()" => some n.id.isZero
  | "!(s.config.NoSecurity || n.IsSecure())" => some (!(c.noSecurity || n.isSecure))
  | "n.failedLastQuestionablePing" => some n.failed
  | _ => none

/-- any `errors.New(…)` result means "bad"; `nil` means not bad -/
def nodeErrRet : String → Option Bool
  | "nil" => some false
  | "errors.New(\"is self\")" => some true
  | "errors.New(\"has zero id\")" => some true
  | "errors.New(\"not secure\")" => some true
  | "errors.New(\"didn't respond to last questionable node ping\")" => some true
  | _ => none

theorem SourceTrees.nodeErr (c : TableCfg) (n : Node) :
    DExp.evalWith (nodeErrCond c n) nodeErrRet Gen.treeNodeErr = some (isBad c n) := by
  simp only [Gen.treeNodeErr, DExp.evalWith, nodeErrCond, isBad]
  cases h1 : (n.id == c.root) <;> cases h2 : n.id.isZero <;> cases h3 : (c.noSecurity || n.isSecure) <;>
    cases h4 : n.failed <;> simp_all [nodeErrRet]

/-- Negative check: the zero-ID test negated. Unknown atom: no value whenever evaluation reaches it. -/
def treeNodeErrMutZero : DExp := DExp.ite "n.Id == s.id" (DExp.ret "errors.New(\"is self\")") (DExp.ite "!n.Id.IsZero()" (DExp.ret "errors.New(\"has zero id\")") (DExp.ite "!(s.config.NoSecurity || n.IsSecure())" (DExp.ret "errors.New(\"not secure\")") (DExp.ite "n.failedLastQuestionablePing" (DExp.ret "errors.New(\"didn't respond to last questionable node ping\")") (DExp.ret "nil"))))

theorem SourceTrees.nodeErr_mutZero_none (c : TableCfg) (n : Node) (h : (n.id == c.root) = false) :
    DExp.evalWith (nodeErrCond c n) nodeErrRet treeNodeErrMutZero = none := by
  simp [treeNodeErrMutZero, DExp.evalWith, nodeErrCond, h]

example : ¬ ∀ (c : TableCfg) (n : Node),
    DExp.evalWith (nodeErrCond c n) nodeErrRet treeNodeErrMutZero = some (isBad c n) := by
  intro h
  have h' := h { root := [1] } { id := [2], addr := ⟨[1, 2, 3, 4], 1⟩ }
  rw [SourceTrees.nodeErr_mutZero_none _ _ (by decide)] at h'
  exact absurd h' (by simp)

/-- Negative check: the security test dropped. All atoms known; the value differs from `isBad` for an insecure
node under `NoSecurity = false`. -/
def treeNodeErrMutNoSec : DExp := DExp.ite "n.Id == s.id" (DExp.ret "errors.New(\"is self\")") (DExp.ite "n.Id.IsZero()" (DExp.ret "errors.New(\"has zero id\")") (DExp.ite "n.failedLastQuestionablePing" (DExp.ret "errors.New(\"didn't respond to last questionable node ping\")") (DExp.ret "nil")))

theorem SourceTrees.nodeErr_mutNoSec_wrong (c : TableCfg) (n : Node) (h1 : (n.id == c.root) = false)
    (h2 : n.id.isZero = false) (h3 : (c.noSecurity || n.isSecure) = false) (h4 : n.failed = false) :
    DExp.evalWith (nodeErrCond c n) nodeErrRet treeNodeErrMutNoSec = some false ∧ isBad c n = true := by
  simp [treeNodeErrMutNoSec, DExp.evalWith, nodeErrCond, nodeErrRet, isBad, h1, h2, h3, h4]

example : ¬ ∀ (c : TableCfg) (n : Node),
    DExp.evalWith (nodeErrCond c n) nodeErrRet treeNodeErrMutNoSec = some (isBad c n) := by
  intro h
  have h' := h { root := [1], noSecurity := false } { id := [2], addr := ⟨[1, 2, 3, 4], 1⟩ }
  have w := SourceTrees.nodeErr_mutNoSec_wrong { root := [1], noSecurity := false }
    { id := [2], addr := ⟨[1, 2, 3, 4], 1⟩ } (by decide) (by decide) (by decide +kernel) (by decide)
  rw [w.1, w.2] at h'
  exact absurd h' (by simp)

def isGoodCond (c : TableCfg) (n : Node) : String → Option Bool
  | "s.nodeIsBad(n)" => some (isBad c n)
  | _ => none

def isGoodExprText : String :=
  "time.Since(n.lastGotResponse) < 15 * time.Minute || !n.lastGotResponse.IsZero() && time.Since(n.lastGotQuery) < 15 * time.Minute"

def isGoodRet (c : TableCfg) (now : Nat) (n : Node) (s : String) : Option Bool :=
  if s == "false" then some false
  else if s == isGoodExprText then some (recent c now n.lastResp || (n.lastResp.isSome && recent c now n.lastQuery))
  else none

theorem isGoodRet_false (c : TableCfg) (now : Nat) (n : Node) : isGoodRet c now n "false" = some false := by
  simp [isGoodRet]

theorem isGoodRet_expr (c : TableCfg) (now : Nat) (n : Node) :
    isGoodRet c now n isGoodExprText = some (recent c now n.lastResp || (n.lastResp.isSome && recent c now n.lastQuery)) := by
  have h : (isGoodExprText == "false") = false := by decide +kernel
  simp [isGoodRet, h]

theorem treeIsGood_shape : Gen.treeIsGood = DExp.ite "s.nodeIsBad(n)" (DExp.ret "false") (DExp.ret isGoodExprText) := by
  decide +kernel

theorem SourceTrees.isGood (c : TableCfg) (now : Nat) (n : Node) :
    DExp.evalWith (isGoodCond c n) (isGoodRet c now n) Gen.treeIsGood = some (isGood c now n) := by
  rw [treeIsGood_shape]
  simp only [DExp.evalWith, isGoodCond, Dht.isGood]
  cases h : isBad c n <;> simp [isGoodRet_false, isGoodRet_expr]

/-- Negative check: the window constant changed (15 → 10 minutes) in the result expression. -/
def isGoodExprTextMut : String :=
  "time.Since(n.lastGotResponse) < 10 * time.Minute || !n.lastGotResponse.IsZero() && time.Since(n.lastGotQuery) < 10 * time.Minute"

def treeIsGoodMut : DExp := DExp.ite "s.nodeIsBad(n)" (DExp.ret "false") (DExp.ret isGoodExprTextMut)

theorem isGoodRet_mut (c : TableCfg) (now : Nat) (n : Node) : isGoodRet c now n isGoodExprTextMut = none := by
  have h1 : (isGoodExprTextMut == "false") = false := by decide +kernel
  have h2 : (isGoodExprTextMut == isGoodExprText) = false := by decide +kernel
  simp [isGoodRet, h1, h2]

theorem SourceTrees.isGood_mut_none (c : TableCfg) (now : Nat) (n : Node) (h : isBad c n = false) :
    DExp.evalWith (isGoodCond c n) (isGoodRet c now n) treeIsGoodMut = none := by
  simp [treeIsGoodMut, DExp.evalWith, isGoodCond, h, isGoodRet_mut]

example : ¬ ∀ (c : TableCfg) (now : Nat) (n : Node),
    DExp.evalWith (isGoodCond c n) (isGoodRet c now n) treeIsGoodMut = some (isGood c now n) := by
  intro h
  have h' := h { root := [1] } 0 { id := [2], addr := ⟨[1, 2, 3, 4], 1⟩ }
  rw [SourceTrees.isGood_mut_none _ _ _ (by decide)] at h'
  exact absurd h' (by simp)

/-- Negative check: the two branches exchanged (known atoms): a node that is not bad and has just responded is
good, the changed tree says it is not. -/
example (c : TableCfg) (now : Nat) (n : Node) (h : isBad c n = false) (hr : recent c now n.lastResp = true) :
    DExp.evalWith (isGoodCond c n) (isGoodRet c now n)
      (DExp.ite "s.nodeIsBad(n)" (DExp.ret isGoodExprText) (DExp.ret "false")) = some false ∧
    isGood c now n = true := by
  simp [DExp.evalWith, isGoodCond, h, isGoodRet_false, isGood, hr]

/-- the hypotheses of the previous example can be met -/
example : isBad { root := [1] } { id := [2], addr := ⟨[1, 2, 3, 4], 1⟩, lastResp := some 5 } = false ∧
    recent { root := [1] } 5 (some 5) = true := by decide

/-! ### Operation.haveQuery -/

def hqLetsExpected : List String :=
  ["cu := op.closestUnqueried()", "cuDist := cu.Id.Value.Distance(op.targetInt160)",
   "farDist := op.closest.Farthest().ID.Int160().Distance(op.targetInt160)"]

def hqCond (c : TravCfg) (s : Trav) : String → Option Bool
  | "op.unqueried.Len() == 0" => some s.unq.isEmpty
  | "!op.closest.Full()" => some (!KNN.full c.k s.closest)
  | "!cu.Id.Ok" => some ((s.unq.head?.bind (·.id)).isNone)
  | _ => none

def hqRet (c : TravCfg) (s : Trav) : String → Option Bool
  | "false" => some false
  | "true" => some true
  | "cuDist.Cmp(farDist) <= 0" =>
    match s.unq.head?.bind (·.id), KNN.farthest s.closest with
    | some i, some far => some (Id.cmp (Id.distance i c.target) (Id.distance far.id c.target) != .gt)
    | _, _ => some false
  | _ => none

theorem SourceTrees.haveQuery (c : TravCfg) (s : Trav) :
    Gen.treeHaveQueryLets = hqLetsExpected ∧
    DExp.evalWith (hqCond c s) (hqRet c s) Gen.treeHaveQuery = some (s.haveQuery c) := by
  refine ⟨by decide, ?_⟩
  simp only [Gen.treeHaveQuery, DExp.evalWith, hqCond, hqRet, Trav.haveQuery]
  cases hu : s.unq with
  | nil => simp
  | cons cu rest =>
    cases hf : KNN.full c.k s.closest <;> cases hid : cu.id <;> cases hfar : KNN.farthest s.closest <;> simp_all


/-- Negative check: `<= 0` changed to `< 0` in the final comparison. Unknown atom: no value whenever the
closest set is full and the closest unqueried candidate has an ID. -/
def treeHaveQueryMutLt : DExp := DExp.ite "op.unqueried.Len() == 0" (DExp.ret "false") (DExp.ite "!op.closest.Full()" (DExp.ret "true") (DExp.ite "!cu.Id.Ok" (DExp.ret "false") (DExp.ret "cuDist.Cmp(farDist) < 0")))

theorem SourceTrees.haveQuery_mutLt_none (c : TravCfg) (s : Trav) (cu : Cand) (rest : List Cand) (i : Id)
    (hu : s.unq = cu :: rest) (hf : KNN.full c.k s.closest = true) (hi : cu.id = some i) :
    DExp.evalWith (hqCond c s) (hqRet c s) treeHaveQueryMutLt = none := by
  simp [treeHaveQueryMutLt, DExp.evalWith, hqCond, hqRet, hu, hf, hi]

example : ¬ ∀ (c : TravCfg) (s : Trav),
    DExp.evalWith (hqCond c s) (hqRet c s) treeHaveQueryMutLt = some (s.haveQuery c) := by
  intro h
  have h' := h { target := [0], k := 0 } { unq := [⟨some [1], ⟨1, [1, 2, 3, 4], 1⟩⟩] }
  rw [SourceTrees.haveQuery_mutLt_none _ _ ⟨some [1], ⟨1, [1, 2, 3, 4], 1⟩⟩ [] [1] rfl (by decide) rfl] at h'
  exact absurd h' (by simp)

/-- Negative check: the `Full` test without its negation. Unknown atom: no value for any non-empty frontier. -/
def treeHaveQueryMutFull : DExp := DExp.ite "op.unqueried.Len() == 0" (DExp.ret "false") (DExp.ite "op.closest.Full()" (DExp.ret "true") (DExp.ite "!cu.Id.Ok" (DExp.ret "false") (DExp.ret "cuDist.Cmp(farDist) <= 0")))

example (c : TravCfg) (s : Trav) (cu : Cand) (rest : List Cand) (hu : s.unq = cu :: rest) :
    DExp.evalWith (hqCond c s) (hqRet c s) treeHaveQueryMutFull = none := by
  simp [treeHaveQueryMutFull, DExp.evalWith, hqCond, hu]

/-- Negative check: a changed `let` (the distance of `cu` taken to something else) is seen by the first conjunct. -/
example : ["cu := op.closestUnqueried()", "cuDist := cu.Id.Value.Distance(op.rootInt160)",
   "farDist := op.closest.Farthest().ID.Int160().Distance(op.targetInt160)"] ≠ hqLetsExpected := by decide

end Dht
