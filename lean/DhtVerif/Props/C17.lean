/-
C17 — BEP 42 node-ID security is computed exactly as specified.

Theorems about DhtVerif/Model/Security.lean for every IPv4/IPv6 address
(4 or 16 raw bytes, including v4-mapped) and every 20-byte ID.
-/
import DhtVerif.Model.Security
import DhtVerif.Lemmas.C17
namespace Dht

/-- The regenerated masks are the BEP 42 masks (side condition on the source). -/
theorem C17.masks_are_bep42 :
    Gen.v4Mask = [0x03, 0x0f, 0x3f, 0xff] ∧ Gen.v6Mask = [0x01, 0x03, 0x07, 0x0f, 0x1f, 0x3f, 0x7f, 0xff] ∧
    Gen.missing = [] := by
  decide

/-- Securing never crashes on a real address and keeps the length. -/
theorem C17.secure_total (id ip : List UInt8) (hid : id.length = 20) (hip : validIp ip = true) :
    ∃ id', secureNodeId id ip = some id' ∧ id'.length = 20 := by
  sorry

/-- Securing an ID changes only its first 21 bits: bytes 3..19 and the low
three bits of byte 2 are untouched. -/
theorem C17.secure_touches_21_bits (id ip id' : List UInt8) (hid : id.length = 20)
    (h : secureNodeId id ip = some id') :
    id'.drop 3 = id.drop 3 ∧ (id'.getD 2 0 &&& 7) = (id.getD 2 0 &&& 7) := by
  sorry

/-- Securing is idempotent. -/
theorem C17.secure_idempotent (id ip id' : List UInt8) (hid : id.length = 20)
    (h : secureNodeId id ip = some id') : secureNodeId id' ip = some id' := by
  sorry

/-- A secured ID verifies for the address it was secured for. -/
theorem C17.secure_then_valid (id ip id' : List UInt8) (hid : id.length = 20)
    (h : secureNodeId id ip = some id') : nodeIdSecure id' ip = some true := by
  sorry

/-- Verification is the BEP 42 rule: local addresses accept everything;
otherwise the ID's first 21 bits must equal the top 21 bits of CRC32-C over
the masked address seeded with the low three bits of the last ID byte. -/
theorem C17.valid_iff_spec (id ip : List UInt8) (hid : id.length = 20) (hip : validIp ip = true) :
    ∃ p, bep42Prefix ip (id.getD 19 0) = some p ∧
      nodeIdSecure id ip = some (isLocalNetwork ip || decide (prefix21 id = p)) := by
  sorry

/-- The CRC input depends only on the low three bits of the seed byte. -/
theorem C17.seed_low_three_bits (ip : List UInt8) (r : UInt8) :
    crcIP ip r = crcIP ip (r &&& 7) := by
  sorry

/-- Every ID is accepted for private, loopback and link-local addresses. -/
theorem C17.local_always_valid (id ip : List UInt8) (h : isLocalNetwork ip = true) :
    nodeIdSecure id ip = some true := by
  sorry

/-- 10/8, 172.16/12, 192.168/16, 169.254/16, 127/8 (also in v4-mapped form), fe80::/10 and ::1 are local. -/
theorem C17.local_ranges :
    (∀ b c d : UInt8, isLocalNetwork [10, b, c, d] = true) ∧
    (∀ c d : UInt8, isLocalNetwork [192, 168, c, d] = true) ∧
    (∀ c d : UInt8, isLocalNetwork [169, 254, c, d] = true) ∧
    (∀ b c d : UInt8, isLocalNetwork [127, b, c, d] = true) ∧
    (∀ b c d : UInt8, b &&& 0xf0 = 16 → isLocalNetwork [172, b, c, d] = true) ∧
    (∀ b c d : UInt8, isLocalNetwork (v4InV6Prefix ++ [10, b, c, d]) = true) ∧
    isLocalNetwork [0,0,0,0,0,0,0,0,0,0,0,0,0,0,0,1] = true := by
  sorry

/-! Non-vacuity: the first BEP 42 test vector (124.31.75.21, seed 1 -> 5fbfbf…). -/
example : (secureNodeId ([0,0,0xf8] ++ List.replicate 16 0 ++ [1]) [124,31,75,21]).map (·.take 3) =
    some [0x5f, 0xbf, 0xb8] := by decide +kernel
example : validIp [124,31,75,21] = true := by decide

end Dht
