/-
C17 — BEP 42 node-ID security is computed exactly as specified.

Theorems about DhtVerif/Model/Security.lean for every IPv4/IPv6 address
(4 or 16 raw bytes, including v4-mapped) and every 20-byte ID.
-/
import DhtVerif.Model.Security
import DhtVerif.Lemmas.C17
import DhtVerif.Props.ST2Local
import DhtVerif.Props.ST2Filter
namespace Dht
open C17

/-- The regenerated masks are the BEP 42 masks (side condition on the source). -/
theorem C17.masks_are_bep42 :
    Gen.v4Mask = [0x03, 0x0f, 0x3f, 0xff] ∧ Gen.v6Mask = [0x01, 0x03, 0x07, 0x0f, 0x1f, 0x3f, 0x7f, 0xff] ∧
    Gen.missing = [] := by
  decide

/-- Securing never crashes on a real address and keeps the length. -/
theorem C17.secure_total (id ip : List UInt8) (hid : id.length = 20) (hip : validIp ip = true) :
    ∃ id', secureNodeId id ip = some id' ∧ id'.length = 20 := by
  obtain ⟨a0, a1, a2, rest, rfl, hr⟩ := list20_shape id hid
  obtain ⟨c, hc⟩ := crcIP_total ip (rest.getD 16 0) hip
  rw [secure_shape, hc]
  exact ⟨_, rfl, by simp [hr]⟩

/-- Securing an ID changes only its first 21 bits: bytes 3..19 and the low
three bits of byte 2 are untouched. -/
theorem C17.secure_touches_21_bits (id ip id' : List UInt8) (hid : id.length = 20)
    (h : secureNodeId id ip = some id') :
    id'.drop 3 = id.drop 3 ∧ (id'.getD 2 0 &&& 7) = (id.getD 2 0 &&& 7) := by
  obtain ⟨a0, a1, a2, rest, c, rfl, hr, hc, rfl⟩ := secure_inv id ip id' hid h
  exact ⟨rfl, u8_merge_lo _ _⟩

/-- Securing is idempotent. -/
theorem C17.secure_idempotent (id ip id' : List UInt8) (hid : id.length = 20)
    (h : secureNodeId id ip = some id') : secureNodeId id' ip = some id' := by
  obtain ⟨a0, a1, a2, rest, c, rfl, hr, hc, rfl⟩ := secure_inv id ip id' hid h
  rw [secure_shape, hc, Option.map_some, u8_merge_lo]

/-- A secured ID verifies for the address it was secured for. -/
theorem C17.secure_then_valid (id ip id' : List UInt8) (hid : id.length = 20)
    (h : secureNodeId id ip = some id') : nodeIdSecure id' ip = some true := by
  obtain ⟨a0, a1, a2, rest, c, rfl, hr, hc, rfl⟩ := secure_inv id ip id' hid h
  unfold nodeIdSecure
  split
  · rfl
  · rw [getD19_shape, hc]
    have h0 : ∀ (x y z : UInt8), (x :: y :: z :: rest).getD 0 0 = x := fun _ _ _ => rfl
    have h1 : ∀ (x y z : UInt8), (x :: y :: z :: rest).getD 1 0 = y := fun _ _ _ => rfl
    have h2 : ∀ (x y z : UInt8), (x :: y :: z :: rest).getD 2 0 = z := fun _ _ _ => rfl
    simp only [h0, h1, h2, u8_merge_hi, beq_self_eq_true, Bool.and_self]

/-- Verification is the BEP 42 rule: local addresses accept everything;
otherwise the ID's first 21 bits must equal the top 21 bits of CRC32-C over
the masked address seeded with the low three bits of the last ID byte. -/
theorem C17.valid_iff_spec (id ip : List UInt8) (hid : id.length = 20) (hip : validIp ip = true) :
    ∃ p, bep42Prefix ip (id.getD 19 0) = some p ∧
      nodeIdSecure id ip = some (isLocalNetwork ip || decide (prefix21 id = p)) := by
  have _ := hid
  obtain ⟨c, hc⟩ := crcIP_total ip (id.getD 19 0) hip
  refine ⟨(byte c 24, byte c 16, byte c 8 &&& 0xf8), by simp only [bep42Prefix, hc, Option.map_some], ?_⟩
  unfold nodeIdSecure
  split
  · rename_i hl; simp [hl]
  · rename_i hl
    rw [hc]
    simp [hl, prefix21, Bool.decide_and, Bool.and_assoc, Bool.beq_eq_decide_eq]

/-- The CRC input depends only on the low three bits of the seed byte. -/
theorem C17.seed_low_three_bits (ip : List UInt8) (r : UInt8) :
    crcIP ip r = crcIP ip (r &&& 7) := by
  simp only [crcIP, u8_and7_and7]

/-- Every ID is accepted for private, loopback and link-local addresses. -/
theorem C17.local_always_valid (id ip : List UInt8) (h : isLocalNetwork ip = true) :
    nodeIdSecure id ip = some true := by
  simp [nodeIdSecure, h]

/-- 10/8, 172.16/12, 192.168/16, 169.254/16, 127/8 (also in v4-mapped form), fe80::/10 and ::1 are local. -/
theorem C17.local_ranges :
    (∀ b c d : UInt8, isLocalNetwork [10, b, c, d] = true) ∧
    (∀ c d : UInt8, isLocalNetwork [192, 168, c, d] = true) ∧
    (∀ c d : UInt8, isLocalNetwork [169, 254, c, d] = true) ∧
    (∀ b c d : UInt8, isLocalNetwork [127, b, c, d] = true) ∧
    (∀ b c d : UInt8, b &&& 0xf0 = 16 → isLocalNetwork [172, b, c, d] = true) ∧
    (∀ b c d : UInt8, isLocalNetwork (v4InV6Prefix ++ [10, b, c, d]) = true) ∧
    isLocalNetwork [0,0,0,0,0,0,0,0,0,0,0,0,0,0,0,1] = true := by
  refine ⟨?_, ?_, ?_, ?_, ?_, ?_, ?_⟩
  · intro b c d; simp [isLocalNetwork, to4, inPrefix, u8_and_255]
  · intro c d; simp [isLocalNetwork, to4, inPrefix, u8_and_255]
  · intro c d; simp [isLocalNetwork, to4, inPrefix, u8_and_255]
  · intro b c d; simp [isLocalNetwork, to4, inPrefix, u8_and_255]
  · intro b c d h; simp [isLocalNetwork, to4, inPrefix, h, u8_and_255]
  · intro b c d; simp [isLocalNetwork, to4, inPrefix, v4InV6Prefix, u8_and_255]
  · decide

/-! Non-vacuity: the first BEP 42 test vector (124.31.75.21, seed 1 -> 5fbfbf…). -/
example : (secureNodeId ([0,0,0xf8] ++ List.replicate 16 0 ++ [1]) [124,31,75,21]).map (·.take 3) =
    some [0x5f, 0xbf, 0xb8] := by decide +kernel
example : validIp [124,31,75,21] = true := by decide

/-! Further (stronger) facts. -/

/-- The secured ID carries exactly the BEP 42 prefix for the address and the
seed in the (unchanged) last ID byte. -/
theorem C17.secure_sets_bep42_prefix (id ip id' : List UInt8) (hid : id.length = 20)
    (h : secureNodeId id ip = some id') :
    bep42Prefix ip (id.getD 19 0) = some (prefix21 id') ∧ id'.getD 19 0 = id.getD 19 0 := by
  obtain ⟨a0, a1, a2, rest, c, rfl, hr, hc, rfl⟩ := secure_inv id ip id' hid h
  refine ⟨?_, rfl⟩
  rw [getD19_shape, bep42Prefix, hc, Option.map_some]
  show some (byte c 24, byte c 16, byte c 8 &&& 0xf8) =
    some (byte c 24, byte c 16, ((byte c 8 &&& 0xf8) ||| (a2 &&& 7)) &&& 0xf8)
  rw [u8_merge_hi]

/-- Securing fails exactly when the CRC input cannot be formed (address too short). -/
theorem C17.secure_none_iff (id ip : List UInt8) :
    secureNodeId id ip = none ↔ crcIP ip (id.getD 19 0) = none := by
  unfold secureNodeId
  cases crcIP ip (id.getD 19 0) <;> simp

/-- fe80::/10 (link-local unicast) is local. -/
theorem C17.local_fe80 (ip : List UInt8) (hl : ip.length = 16) (h0 : ip.getD 0 0 = 0xfe)
    (h1 : ip.getD 1 0 &&& 0xc0 = 0x80) : isLocalNetwork ip = true := by
  match ip, hl with
  | a0 :: a1 :: rest, hr =>
    have e0 : a0 = 0xfe := h0
    have e1 : a1 &&& 0xc0 = 0x80 := h1
    subst e0
    have hr' : rest.length = 14 := by simpa using hr
    simp [isLocalNetwork, to4, hr', v4InV6Prefix, e1]
example : isLocalNetwork [0xfe,0x80,0,0,0,0,0,0,0,0,0,0,0,0,0,1] = true := by decide

/-! More non-vacuity: a 16-byte (non-mapped) address, a v4-mapped address, the
172.16/12 side condition, verification of the test vector, and a malformed
address on which the Go code would crash (so `validIp` is needed). -/
example : validIp [0x20,0x01,0x0d,0xb8,0,0,0,0,0,0,0,0,0,0,0,1] = true := by decide
example : (secureNodeId (List.replicate 19 0 ++ [1]) [0x20,0x01,0x0d,0xb8,0,0,0,0,0,0,0,0,0,0,0,1]).isSome = true := by
  decide +kernel
example : secureNodeId ([0,0,0xf8] ++ List.replicate 16 0 ++ [1]) (v4InV6Prefix ++ [124,31,75,21]) =
    secureNodeId ([0,0,0xf8] ++ List.replicate 16 0 ++ [1]) [124,31,75,21] := by decide +kernel
example : nodeIdSecure ([0x5f, 0xbf, 0xbf] ++ List.replicate 16 0 ++ [1]) [124,31,75,21] = some true := by
  decide +kernel
example : nodeIdSecure ([0x5f, 0xbf, 0x3f] ++ List.replicate 16 0 ++ [1]) [124,31,75,21] = some false := by
  decide +kernel
example : isLocalNetwork [124,31,75,21] = false := by decide
example : (31 : UInt8) &&& 0xf0 = 16 := by decide
example : isLocalNetwork [172, 32, 0, 1] = false := by decide
example : crcIP [1,2,3] 0 = none := by decide
example : secureNodeId (List.replicate 20 0) [1,2,3] = none := by decide

/-! ## T1 by translation: the exemption and the traversal's enforcement are the source's -/

/-- `isLocalNetwork` in security.go (with the networks its `init` parses) IS the model's `isLocalNetwork`. -/
theorem C17.isLocalNetwork_is_the_source (ip : List UInt8) :
    Gen.treeSecurityInitLets = ilnInitExpected ∧
    DExp.evalWith (ilnCond ip) boolRet Gen.treeIsLocalNetwork = some (isLocalNetwork ip) :=
  SourceTrees.isLocalNetwork ip

/-- `Server.TraversalNodeFilter` in server.go IS `traversalNodeFilter`, and unless `NoSecurity` a candidate with
a known ID passes it only with an ID that `nodeIdSecure` accepts for its address. -/
theorem C17.traversalNodeFilter_enforces_security (c : SrvCfg) (n : Cand) :
    DExp.evalWith (tnfCond c n) (tnfRet c n) Gen.treeTraversalNodeFilter = some (traversalNodeFilter c n) ∧
    (∀ id a, c.tbl.noSecurity = false → traversalNodeFilter c ⟨some id, a⟩ = true → nodeIdSecure id a.ip = some true) :=
  ⟨SourceTrees.traversalNodeFilter c n, fun id a hs h => traversalNodeFilter_secure c id a hs h⟩

end Dht
