/-
T1 by translation (part of the former Props/SourceTrees.lean, split per source function so that an edit of one
function only touches the property that owns it): the regenerated decision expression of the function, interpreted
with an atom table (source text |-> meaning on model values, unknown text |-> none), equals the model function
for all arguments; with negative checks on hand-mutated trees.
-/
import DhtVerif.Model.SourceTrees
import DhtVerif.Props.STCommon
import DhtVerif.Model.SourceTrees2
import DhtVerif.Model.Server
namespace Dht
open Gen (DExp SExp)

/-! ### security.go isLocalNetwork (BEP 42 exemption) -/

/-- the networks `init` parses into `classA`, `classB`, `classC` -/
def ilnInitExpected : List String :=
  ["classA = mustParseCIDRIPNet(\"10.0.0.0/8\")", "classB = mustParseCIDRIPNet(\"172.16.0.0/12\")",
   "classC = mustParseCIDRIPNet(\"192.168.0.0/16\")"]

/-- `(*net.IPNet).Contains(ip)` for an IPv4 network (number and mask as 4 bytes): `ip.To4()` must succeed and
agree with the network number under the mask. -/
def netContains4 (net mask ip : List UInt8) : Bool :=
  match to4 ip with
  | some v4 => inPrefix v4 net mask
  | none => false

/-- `classA/B/C` as in `ilnInitExpected`; `net.IP.IsLinkLocalUnicast` (169.254/16, fe80::/10) and
`net.IP.IsLoopback` (127/8, ::1) as in the Go standard library. -/
def ilnCond (ip : List UInt8) : String → Option Bool
  | "classA.Contains(ip)" => some (netContains4 [10, 0, 0, 0] [255, 0, 0, 0] ip)
  | "classB.Contains(ip)" => some (netContains4 [172, 16, 0, 0] [255, 240, 0, 0] ip)
  | "classC.Contains(ip)" => some (netContains4 [192, 168, 0, 0] [255, 255, 0, 0] ip)
  | "ip.IsLinkLocalUnicast()" => some (
    match to4 ip with
    | some v4 => v4.getD 0 0 == 169 && v4.getD 1 0 == 254
    | none => ip.length == 16 && (ip.getD 0 0 == 0xfe && ip.getD 1 0 &&& 0xc0 == 0x80))
  | "ip.IsLoopback()" => some (
    match to4 ip with
    | some v4 => v4.getD 0 0 == 127
    | none => ip == [0, 0, 0, 0, 0, 0, 0, 0, 0, 0, 0, 0, 0, 0, 0, 1])
  | _ => none


private theorem st2_to4_length (ip v4 : List UInt8) (h : to4 ip = some v4) : v4.length = 4 := by
  unfold to4 at h
  split at h
  · simp_all
  · split at h
    · simp at h; subst h; simp_all
    · simp at h

private theorem st2_and255 (a : UInt8) : a &&& 255 = a := by
  have : (255 : UInt8) = -1 := by decide
  rw [this]; simp

private theorem st2_inPrefix_ll (a b c d : UInt8) :
    inPrefix [a, b, c, d] [169, 254, 0, 0] [255, 255, 0, 0] = (a == 169 && b == 254) := by
  simp [inPrefix, st2_and255]

private theorem st2_inPrefix_lo (a b c d : UInt8) :
    inPrefix [a, b, c, d] [127, 0, 0, 0] [255, 0, 0, 0] = (a == 127) := by
  simp [inPrefix, st2_and255]

/-- `isLocalNetwork` in security.go (with the networks of `init`) computes exactly the model's `isLocalNetwork`. -/
theorem SourceTrees.isLocalNetwork (ip : List UInt8) :
    Gen.treeSecurityInitLets = ilnInitExpected ∧
    DExp.evalWith (ilnCond ip) boolRet Gen.treeIsLocalNetwork = some (Dht.isLocalNetwork ip) := by
  refine ⟨by decide, ?_⟩
  simp only [Gen.treeIsLocalNetwork, DExp.evalWith, ilnCond, netContains4, Dht.isLocalNetwork]
  cases h : to4 ip with
  | none =>
    have h2 : ip.length ≠ 16 → (ip == [0, 0, 0, 0, 0, 0, 0, 0, 0, 0, 0, 0, 0, 0, 0, 1]) = false := by
      intro hl
      cases hh : (ip == [0, 0, 0, 0, 0, 0, 0, 0, 0, 0, 0, 0, 0, 0, 0, 1])
      · rfl
      · exact absurd (by rw [eq_of_beq hh]; rfl) hl
    generalize (ip.getD 0 0 == 0xfe && ip.getD 1 0 &&& 0xc0 == 0x80) = A
    by_cases hl : ip.length = 16
    · cases A <;> cases (ip == [0, 0, 0, 0, 0, 0, 0, 0, 0, 0, 0, 0, 0, 0, 0, 1]) <;> simp [hl, boolRet]
    · have hb : (ip.length == 16) = false := by simpa using hl
      simp [hl, hb, h2 hl, boolRet]
  | some v4 =>
    have hl := st2_to4_length ip v4 h
    match v4, hl with
    | [a, b, c, d], _ =>
      simp only [st2_inPrefix_ll, st2_inPrefix_lo, List.getD_cons_zero, List.getD_cons_succ]
      cases inPrefix [a, b, c, d] [10, 0, 0, 0] [255, 0, 0, 0] <;>
        cases inPrefix [a, b, c, d] [172, 16, 0, 0] [255, 240, 0, 0] <;>
        cases inPrefix [a, b, c, d] [192, 168, 0, 0] [255, 255, 0, 0] <;>
        cases (a == 169 && b == 254) <;> cases (a == 127) <;> simp [boolRet]

/-- Non-vacuity: the equation on concrete addresses of every kind the function distinguishes. -/
example :
    DExp.evalWith (ilnCond [10, 1, 2, 3]) boolRet Gen.treeIsLocalNetwork = some true ∧
    DExp.evalWith (ilnCond [172, 31, 2, 3]) boolRet Gen.treeIsLocalNetwork = some true ∧
    DExp.evalWith (ilnCond [172, 32, 2, 3]) boolRet Gen.treeIsLocalNetwork = some false ∧
    DExp.evalWith (ilnCond [0, 0, 0, 0, 0, 0, 0, 0, 0, 0, 0xff, 0xff, 192, 168, 2, 3]) boolRet Gen.treeIsLocalNetwork = some true ∧
    DExp.evalWith (ilnCond [0xfe, 0x80, 0, 0, 0, 0, 0, 0, 0, 0, 0, 0, 0, 0, 0, 9]) boolRet Gen.treeIsLocalNetwork = some true ∧
    DExp.evalWith (ilnCond [0, 0, 0, 0, 0, 0, 0, 0, 0, 0, 0, 0, 0, 0, 0, 1]) boolRet Gen.treeIsLocalNetwork = some true ∧
    DExp.evalWith (ilnCond [8, 8, 8, 8]) boolRet Gen.treeIsLocalNetwork = some false := by decide +kernel

/-- Negative check with known atoms only: the 172.16/12 test dropped. 172.16.0.1 is local for the source and
the model, not for the changed tree. -/
def treeIsLocalNetworkMutNoB : DExp := DExp.ite "classA.Contains(ip)" (DExp.ret "true") (DExp.ite "classC.Contains(ip)" (DExp.ret "true") (DExp.ite "ip.IsLinkLocalUnicast()" (DExp.ret "true") (DExp.ite "ip.IsLoopback()" (DExp.ret "true") (DExp.ret "false"))))

example :
    DExp.evalWith (ilnCond [172, 16, 0, 1]) boolRet treeIsLocalNetworkMutNoB = some false ∧
    isLocalNetwork [172, 16, 0, 1] = true := by
  constructor <;> decide +kernel

example : ¬ ∀ ip : List UInt8,
    DExp.evalWith (ilnCond ip) boolRet treeIsLocalNetworkMutNoB = some (isLocalNetwork ip) := by
  intro h
  exact absurd (h [172, 16, 0, 1]) (by decide +kernel)

/-- Negative check: the loopback test negated. Unknown atom: no value for any address that is not local for
one of the earlier reasons. -/
def treeIsLocalNetworkMutLoop : DExp := DExp.ite "classA.Contains(ip)" (DExp.ret "true") (DExp.ite "classB.Contains(ip)" (DExp.ret "true") (DExp.ite "classC.Contains(ip)" (DExp.ret "true") (DExp.ite "ip.IsLinkLocalUnicast()" (DExp.ret "true") (DExp.ite "!ip.IsLoopback()" (DExp.ret "true") (DExp.ret "false")))))

example : DExp.evalWith (ilnCond [8, 8, 8, 8]) boolRet treeIsLocalNetworkMutLoop = none ∧
    DExp.evalWith (ilnCond [0, 0, 0, 0, 0, 0, 0, 0, 0, 0, 0, 0, 0, 0, 0, 1]) boolRet treeIsLocalNetworkMutLoop = none := by
  constructor <;> decide +kernel

/-- Negative check: a changed network in `init` (172.16/12 → 172.16/16) is seen by the first conjunct. -/
example : ["classA = mustParseCIDRIPNet(\"10.0.0.0/8\")", "classB = mustParseCIDRIPNet(\"172.16.0.0/16\")",
   "classC = mustParseCIDRIPNet(\"192.168.0.0/16\")"] ≠ ilnInitExpected := by decide


theorem SourceTrees.isLocalNetwork_no_skipped_statements : Gen.treeIsLocalNetworkLets = [] := by decide

end Dht
