/-
C06 — only directly verified contacts enter the table; good ones are never evicted.
-/
import DhtVerif.Model.Table
import DhtVerif.Props.C05
import DhtVerif.Lemmas.C06
import DhtVerif.Props.STNodes
import DhtVerif.Props.ST2Questionable
import DhtVerif.Props.ST2Local
namespace Dht

/-- The events through which (id, addr) may enter: a query or a matched
response from that very address carrying that ID and not flagged read-only,
or the explicit add API. -/
def TblEv.introduces (id : Id) (key : List UInt8 × Nat) : TblEv → Prop
  | .recvQuery src i ro _ => i = some id ∧ src.key = key ∧ ro = false
  | .recvResponse src i ro _ => i = some id ∧ src.key = key ∧ ro = false
  | .apiAdd a i _ => i = id ∧ a.key = key
  | _ => False

/-- One step: every entry of the new table continues an old one (same ID and
address) or was introduced by this very event. -/
theorem C06.step_provenance (c : TableCfg) (s s' : TblState) (ev : TblEv) (out : AddOutcome)
    (h : s.step c ev = some (s', out)) (n : Node) (hn : n ∈ s'.table) :
    (∃ n0 ∈ s.table, n.id = n0.id ∧ n.addr = n0.addr) ∨ ev.introduces n.id n.addr.key := by
  cases ev with
  | recvQuery src id ro ch =>
    rcases updateNode_mem (keyPres_onQuery _) (step_map_some h).1 hn with h0 | ⟨id', hid, hta, _, _, h1, h2⟩
    · exact Or.inl h0
    · right; subst hid; exact ⟨by rw [h1], by rw [h2], by simpa using hta⟩
  | recvResponse src id ro ch =>
    rcases updateNode_mem (keyPres_onResponse _) (step_map_some h).1 hn with h0 | ⟨id', hid, hta, _, _, h1, h2⟩
    · exact Or.inl h0
    · right; subst hid; exact ⟨by rw [h1], by rw [h2], by simpa using hta⟩
  | apiAdd addr id ch =>
    rcases updateNode_mem keyPres_id (step_map_some h).1 hn with h0 | ⟨id', hid, _, _, _, h1, h2⟩
    · exact Or.inl h0
    · right; cases hid; exact ⟨h1.symm, by rw [h2]⟩
  | pingFailed addr id =>
    rcases updateNode_mem keyPres_onPingFailed (step_map_some h).1 hn with h0 | ⟨id', _, hta, _⟩
    · exact Or.inl h0
    · cases hta
  | advance d =>
    simp [TblState.step] at h
    obtain ⟨h1, _⟩ := h
    subst h1
    exact Or.inl ⟨n, hn, rfl, rfl⟩

/-- Provenance along a history from an arbitrary state. -/
theorem C06.run_provenance (c : TableCfg) (evs : List TblEv) (s0 s : TblState)
    (h : TblState.run c s0 evs = some s) (n : Node) (hn : n ∈ s.table) :
    (∃ n0 ∈ s0.table, n.id = n0.id ∧ n.addr = n0.addr) ∨ ∃ e ∈ evs, e.introduces n.id n.addr.key := by
  induction evs generalizing s0 with
  | nil => simp [TblState.run] at h; subst h; exact Or.inl ⟨n, hn, rfl, rfl⟩
  | cons e es ih =>
    obtain ⟨s1, o, hs, hr⟩ := run_cons h
    rcases ih s1 hr with ⟨n1, hn1, hid, haddr⟩ | ⟨e', he', hi⟩
    · rcases C06.step_provenance c s0 s1 e o hs n1 hn1 with ⟨n0, hn0, hid0, haddr0⟩ | hi
      · exact Or.inl ⟨n0, hn0, hid.trans hid0, haddr.trans haddr0⟩
      · right; refine ⟨e, List.mem_cons_self, ?_⟩
        rw [hid, haddr]; exact hi
    · exact Or.inr ⟨e', List.mem_cons_of_mem _ he', hi⟩

/-- Every entry of every reachable table was introduced by a direct event
from its own address (never by hearsay: third-party node lists are not table
events at all, see `C06.update_sites`). -/
theorem C06.entry_provenance (c : TableCfg) (evs : List TblEv) (s : TblState)
    (h : TblState.run c {} evs = some s) (n : Node) (hn : n ∈ s.table) :
    ∃ e ∈ evs, e.introduces n.id n.addr.key := by
  rcases C06.run_provenance c evs {} s h n hn with ⟨n0, hn0, _⟩ | h
  · cases hn0
  · exact h

/-- A read-only sender, a response or query without a sender ID, and a failed
ping never add an entry. -/
theorem C06.non_adding_events (c : TableCfg) (s s' : TblState) (out : AddOutcome) (src : NAddr) (ch : Option Node) :
    (∀ id, s.step c (.recvQuery src id true ch) = some (s', out) → s'.table.length = s.table.length) ∧
    (∀ id, s.step c (.recvResponse src id true ch) = some (s', out) → s'.table.length = s.table.length) ∧
    (s.step c (.recvQuery src none false ch) = some (s', out) → s'.table = s.table) ∧
    (s.step c (.recvResponse src none false ch) = some (s', out) → s'.table = s.table) ∧
    (∀ id, s.step c (.pingFailed src id) = some (s', out) → s'.table.length = s.table.length) := by
  have key : ∀ {id : Option Id} {upd : Node → Node} {ch : Option Node},
      updateNode c s.now s.table src id false upd ch = some (s'.table, out) →
      s'.table.length = s.table.length := by
    intro id upd ch hu
    rcases updateNode_cases hu with ⟨h1, _⟩ | ⟨id', _, _, h1, _⟩ | ⟨id', i, _, hta, _⟩ | ⟨id', i, d, _, hta, _⟩
    · rw [h1]
    · rw [h1, List.length_map]
    · cases hta
    · cases hta
  have keyNone : ∀ {tryAdd : Bool} {upd : Node → Node} {ch : Option Node},
      updateNode c s.now s.table src none tryAdd upd ch = some (s'.table, out) → s'.table = s.table := by
    intro tryAdd upd ch hu
    simp [updateNode] at hu
    exact hu.1.symm
  refine ⟨?_, ?_, ?_, ?_, ?_⟩
  · intro id h; exact key (step_map_some h).1
  · intro id h; exact key (step_map_some h).1
  · intro h
    have h' : (updateNode c s.now s.table src none (!false) (onQuery s.now) ch).map
        (fun r => (({ s with table := r.1 } : TblState), r.2)) = some (s', out) := h
    exact keyNone (step_map_some h').1
  · intro h
    have h' : (updateNode c s.now s.table src none (!false) (onResponse s.now) ch).map
        (fun r => (({ s with table := r.1 } : TblState), r.2)) = some (s', out) := h
    exact keyNone (step_map_some h').1
  · intro id h; exact key (step_map_some h).1

/-- One step keeps "every entry is secure". -/
theorem C06.secure_step (c : TableCfg) (hsec : c.noSecurity = false) (s s' : TblState) (ev : TblEv) (out : AddOutcome)
    (h : s.step c ev = some (s', out)) (hs : ∀ n ∈ s.table, n.isSecure = true) :
    ∀ n ∈ s'.table, n.isSecure = true := by
  intro n hn
  rcases step_cases h with ⟨ht, _⟩ | ⟨addr, tryAdd, upd, ch, hupd, hu, _⟩
  · rw [ht] at hn; exact hs n hn
  · rcases updateNode_mem hupd hu hn with ⟨n0, h0, hid, haddr⟩ | ⟨id', _, _, _, hbad, _⟩
    · have := hs n0 h0
      simpa [Node.isSecure, hid, haddr] using this
    · exact (isBad_false hbad).2.2.1 hsec

theorem C06.secure_run (c : TableCfg) (hsec : c.noSecurity = false) (evs : List TblEv) (s0 s : TblState)
    (h : TblState.run c s0 evs = some s) (hs : ∀ n ∈ s0.table, n.isSecure = true) :
    ∀ n ∈ s.table, n.isSecure = true := by
  induction evs generalizing s0 with
  | nil => simp [TblState.run] at h; subst h; exact hs
  | cons e es ih =>
    obtain ⟨s1, o, hst, hr⟩ := run_cons h
    exact ih s1 hr (C06.secure_step c hsec s0 s1 e o hst hs)

/-- With the security extension enforced, every entry's ID is valid for its IP. -/
theorem C06.insecure_never_enters (c : TableCfg) (hsec : c.noSecurity = false) (evs : List TblEv) (s : TblState)
    (h : TblState.run c {} evs = some s) : ∀ n ∈ s.table, n.isSecure = true := by
  exact C06.secure_run c hsec evs {} s h (by intro n hn; cases hn)

/-- A contact that is currently good is never removed by any event. -/
theorem C06.good_never_removed (c : TableCfg) (s s' : TblState) (ev : TblEv) (out : AddOutcome)
    (h : s.step c ev = some (s', out)) (n : Node) (hn : n ∈ s.table) (hg : isGood c s.now n = true) :
    ∃ n' ∈ s'.table, n'.id = n.id ∧ n'.addr = n.addr := by
  rcases step_cases h with ⟨ht, _⟩ | ⟨addr, tryAdd, upd, ch, hupd, hu, _⟩
  · rw [ht]; exact ⟨n, hn, rfl, rfl⟩
  · rcases updateNode_survive hupd hu hn with hsurv | ⟨id', _, _, _, hd⟩
    · exact hsurv
    · exfalso
      have hgi := isGood_imp hg
      rcases (droppable_why hd).2 with hb | ⟨_, hr⟩
      · rw [hgi.1] at hb; cases hb
      · rw [hr] at hgi; simp at hgi

/-- An entry is displaced only if it is bad, or it has never answered and the
newcomer has just answered (the event is a matched response). At most one
entry leaves per event. -/
theorem C06.displaced_only_if (c : TableCfg) (s s' : TblState) (ev : TblEv) (out : AddOutcome)
    (h : s.step c ev = some (s', out)) (n : Node) (hn : n ∈ s.table)
    (hgone : ∀ n' ∈ s'.table, ¬ (n'.id = n.id ∧ n'.addr = n.addr)) :
    out = .replaced n ∧ (isBad c n = true ∨ (n.lastResp = none ∧ ∃ src id ro ch, ev = .recvResponse src id ro ch)) := by
  have fresh : ∀ {upd : Node → Node} {addr : NAddr} {id' : Id},
      (upd { id := id', addr := addr }).lastResp = none →
      n ∈ droppable c s.now s.table (upd { id := id', addr := addr }) → isBad c n = true := by
    intro upd addr id' hl hd
    rcases (droppable_why hd).2 with hb | ⟨hgood, _⟩
    · exact hb
    · rw [not_isGood_of_lastResp_none hl] at hgood; cases hgood
  have gone : ∀ {t' : Table}, t' = s'.table → ¬ ∃ n' ∈ t', n'.id = n.id ∧ n'.addr = n.addr := by
    intro t' ht' ⟨n', hn', hk⟩
    subst ht'
    exact hgone n' hn' hk
  cases ev with
  | recvQuery src id ro ch =>
    rcases updateNode_survive (keyPres_onQuery _) (step_map_some h).1 hn with hs | ⟨id', _, _, hout, hd⟩
    · exact absurd hs (gone rfl)
    · exact ⟨hout, Or.inl (fresh rfl hd)⟩
  | recvResponse src id ro ch =>
    rcases updateNode_survive (keyPres_onResponse _) (step_map_some h).1 hn with hs | ⟨id', _, _, hout, hd⟩
    · exact absurd hs (gone rfl)
    · refine ⟨hout, ?_⟩
      rcases (droppable_why hd).2 with hb | ⟨_, hr⟩
      · exact Or.inl hb
      · exact Or.inr ⟨hr, src, id, ro, ch, rfl⟩
  | apiAdd addr id ch =>
    rcases updateNode_survive keyPres_id (step_map_some h).1 hn with hs | ⟨id', _, _, hout, hd⟩
    · exact absurd hs (gone rfl)
    · exact ⟨hout, Or.inl (fresh (upd := fun n => n) rfl hd)⟩
  | pingFailed addr id =>
    rcases updateNode_survive keyPres_onPingFailed (step_map_some h).1 hn with hs | ⟨id', _, hta, _⟩
    · exact absurd hs (gone rfl)
    · cases hta
  | advance d =>
    simp [TblState.step] at h
    obtain ⟨h1, _⟩ := h
    subst h1
    exact absurd ⟨n, hn, rfl, rfl⟩ (gone rfl)

/-- A sender eligible under the rules is admitted whenever its bucket has room. -/
theorem C06.eligible_admitted_when_room (c : TableCfg) (s : TblState) (src : NAddr) (id : Id) (ch : Option Node) (i : Nat)
    (hne : id ≠ c.root) (hbucket : bucketIndex c.root id = some i)
    (hroom : (bucketNodes c s.table i).length < c.k)
    (hok : isBad c { id := id, addr := src, lastQuery := some s.now } = false) :
    ∃ s' out, s.step c (.recvQuery src (some id) false ch) = some (s', out) ∧
      ∃ n ∈ s'.table, n.id = id ∧ n.addr.key = src.key := by
  have hok' : isBad c (onQuery s.now { id := id, addr := src }) = false := hok
  cases hg : getNode c s.table src id with
  | some x =>
    obtain ⟨hx, his, hid, hkey, _⟩ := getNode_some hg
    refine ⟨{ s with table := s.table.map (fun n => if n.is src id then onQuery s.now n else n) }, .updated,
      ?_, onQuery s.now x, ?_, hid, hkey⟩
    · simp [TblState.step, updateNode, hg]
    · exact List.mem_map.mpr ⟨x, hx, by simp [his]⟩
  | none =>
    refine ⟨{ s with table := s.table ++ [onQuery s.now { id := id, addr := src }] }, .added, ?_,
      onQuery s.now { id := id, addr := src }, by simp, rfl, rfl⟩
    have hb : (onQuery s.now { id := id, addr := src }).bucket c = some i := hbucket
    simp [TblState.step, updateNode, hg, hne, hok', hb, hroom]

/-- T1: the places in server.go that may add to the table are exactly the
inbound-query handler, the matched-response path and the add API (each with a
try-add argument), plus the failed-ping update which passes `false`. -/
theorem C06.update_sites :
    Gen.updateNodeSites = [
      "server.go:Server.processPacket|!d.ReadOnly",
      "server.go:Server.AddNode|true",
      "server.go:Server.handleQuery|!m.ReadOnly",
      "server.go:Server.questionableNodePing|false"] := by
  decide

/-! ## Non-vacuity (the history of `Props/C05.lean`: bucket 157 of a k = 2 table) -/

/-- `C06.entry_provenance` / `C06.good_never_removed` on the demo history: the end
table is `[n5, n6]`, `n6` is good and came in by its own matched response. -/
example : (TblState.run Demo.cfg {} Demo.hist).map (·.table) = some [Demo.n5, Demo.n6] ∧
    isGood Demo.cfg 5 Demo.n6 = true ∧ Demo.evResp ∈ Demo.hist ∧
    Demo.evResp.introduces Demo.n6.id Demo.n6.addr.key := by
  refine ⟨by decide, by decide, by simp [Demo.hist], ?_⟩
  exact ⟨rfl, rfl, rfl⟩

/-- The hypotheses of `C06.displaced_only_if` are met by the replacement step:
`n4` (never responded) is gone after a matched response of a third node. -/
example : Demo.full.step Demo.cfg Demo.evResp = some (Demo.after, .replaced Demo.n4) ∧
    Demo.n4 ∈ Demo.full.table ∧ Demo.n4.lastResp = none ∧ isBad Demo.cfg Demo.n4 = false ∧
    (∀ n' ∈ Demo.after.table, ¬ (n'.id = Demo.n4.id ∧ n'.addr = Demo.n4.addr)) := by
  refine ⟨by rfl, by simp [Demo.full], rfl, by decide, ?_⟩
  decide

/-- A good entry survives the same kind of event (`C06.good_never_removed`): with
`n6` (good) and `n5` in the full bucket, a response from yet another ID evicts `n5`. -/
example : isGood Demo.cfg 5 Demo.n6 = true ∧
    Demo.after.step Demo.cfg (.recvResponse (Demo.a 4) (some (Demo.idx 7)) false (some Demo.n5)) =
      some ({ now := 5, table := [Demo.n6, { id := Demo.idx 7, addr := Demo.a 4, lastResp := some 5 }] },
        .replaced Demo.n5) ∧
    Demo.after.step Demo.cfg (.recvResponse (Demo.a 4) (some (Demo.idx 7)) false (some Demo.n6)) = none := by
  refine ⟨by decide, by rfl, by rfl⟩

/-- `C06.eligible_admitted_when_room`: its hypotheses hold for the first event of the demo. -/
example : Demo.idx 4 ≠ Demo.cfg.root ∧ bucketIndex Demo.cfg.root (Demo.idx 4) = some 157 ∧
    (bucketNodes Demo.cfg ({} : TblState).table 157).length < Demo.cfg.k ∧
    isBad Demo.cfg { id := Demo.idx 4, addr := Demo.a 1, lastQuery := some ({} : TblState).now } = false := by
  decide

/-- A read-only sender is not added; one without an ID changes nothing (`C06.non_adding_events`). -/
example : ({} : TblState).step Demo.cfg (.recvQuery (Demo.a 1) (some (Demo.idx 4)) true none) =
    some ({}, .unchanged "not present and add flag false") := by rfl

namespace Demo
/-- security enforced -/
def secCfg : TableCfg := { root := root, k := 2, noSecurity := false, window := 1000 }
/-- BEP 42 test vector: 124.31.75.21, seed 1, prefix 5f bf bf -/
def secAddr : NAddr := { ip := [124, 31, 75, 21], port := 1 }
def secId : Id := [0x5f, 0xbf, 0xbf] ++ List.replicate 16 7 ++ [1]
end Demo

/-- `C06.insecure_never_enters` is not vacuous: with security enforced a BEP 42
conforming sender is admitted, a non-conforming one from the same address is not. -/
example : nodeIdSecure Demo.secId Demo.secAddr.ip = some true ∧
    nodeIdSecure (Demo.idx 4) Demo.secAddr.ip = some false := by
  constructor <;> decide +kernel

example : (({} : TblState).step Demo.secCfg (.recvQuery Demo.secAddr (some Demo.secId) false none)).map (·.2)
      = some .added ∧
    (({} : TblState).step Demo.secCfg (.recvQuery Demo.secAddr (some (Demo.idx 4)) false none)).map (·.2)
      = some (.unchanged "node is bad") := by
  constructor <;> decide +kernel

/-- T1: both liveness windows of `IsGood` are the 15 minutes of BEP 5 (the model's `window` is this regenerated constant). -/
theorem C06.good_window_is_15_minutes :
    Gen.goodWindowsNs = [15 * 60 * 1000000000, 15 * 60 * 1000000000] ∧
    ({ root := [] } : TableCfg).window = 15 * 60 * 1000000000 ∧ ({ root := [] } : TableCfg).k = 8 := by
  decide

/-- T1 by translation: `Server.nodeErr` and `Server.IsGood` are the model's `isBad` and `isGood`. -/
theorem C06.bad_and_good_are_the_source (c : TableCfg) (now : Nat) (n : Node) :
    DExp.evalWith (nodeErrCond c n) nodeErrRet Gen.treeNodeErr = some (isBad c n) ∧
    DExp.evalWith (isGoodCond c n) (isGoodRet c now n) Gen.treeIsGood = some (isGood c now n) :=
  ⟨SourceTrees.nodeErr c n, SourceTrees.isGood c now n⟩

/-- T1 by translation: `Server.IsQuestionable` in node.go (with `IsGood` and `nodeErr` read from their own
sources) is the model's `isQuestionable`. -/
theorem C06.isQuestionable_is_the_source (c : TableCfg) (now : Nat) (n : Node) :
    DExp.evalWith noCond (iqRet c now n) Gen.treeIsQuestionable = some (isQuestionable c now n) :=
  SourceTrees.isQuestionable c now n

/-- T1 by translation: under enforcement admission turns on `NodeIdSecure`, whose exemption for local networks is
`isLocalNetwork` in security.go (with the networks its `init` parses) - the model's `isLocalNetwork`, for all addresses.
(An exemption widened to ranges that merely look private admits arbitrary IDs from there.) -/
theorem C06.isLocalNetwork_is_the_source (ip : List UInt8) :
    Gen.treeSecurityInitLets = ilnInitExpected ∧
    DExp.evalWith (ilnCond ip) boolRet Gen.treeIsLocalNetwork = some (isLocalNetwork ip) :=
  SourceTrees.isLocalNetwork ip

end Dht
