/-
C20, continued — abandoned reservations under the discipline of /repo/ratelimit_serial.go.

`Props/C20Cancel.lean` proves the send budget for histories with `Reservation.CancelAt` under the
hypothesis `CHist.wasteOk` (cumulatively, cancellations never credit more than they reserved) and
shows that with give-backs (`AllowN(now, -1)`) the hypothesis, and the budget, can fail. The repo's
`limiterWait` therefore refuses to call `CancelAt` on a reservation if `limiterGiveBack` was called
(successfully or not: the counter `sendLimiterGiveBacks` is incremented before `AllowN`) since the
reservation was made; such a reservation lapses — it becomes neither a datagram nor a credit.

Definitions (`Lemmas/C20CancelRepo.lean`): `RHist` = `CHist` + `old`, the number of pending
reservations made before the most recent `giveBack` event (they are a prefix of `pending`, which is
kept in the order the reservations were made); `RHist.step`: `cancel i` is `CHist.step (.cancel i)`
when `old ≤ i` and `CHist.lapse i` otherwise, every other event is `CHist.step`;
`CHist.runRepo s h = (RHist.run ⟨s, 0⟩ h).s`.

What is proved here, and what is not:

* `C20.prefix_bound_repo_partial`, `C20.datagrams_bound_repo_partial`: the budget
  `sent ≤ burst + rate·(now − t0) + returned` for every timely history run under the discipline,
  STILL under a cumulative-waste hypothesis (`RHist.wasteOk`: the running total over the EFFECTIVE
  cancellations of `unit − credited`, plus one unit per lapsed reservation, never falls below
  zero). A lapsed reservation counts one whole unit in favour of the hypothesis.
* `C20.prefix_bound_repo_waiting`, `C20.datagrams_bound_repo_waiting`: the budget WITHOUT any waste
  hypothesis, give-backs included, for the histories in which every `cancel i` that reaches the
  limiter hits a reservation that STILL WAITS FOR ITS SLOT (`now < slot`; cancellations among these
  in ANY order) or the most recently made pending reservation (`RHist.waitOk`; cancellations of
  reservations made before a give-back, which the discipline skips, are unrestricted, and so are
  `use`, `allow`, `reserve`, `giveBack`, `adv`). This is what `limiterWait` produces except in a
  race: its `cancel` runs either right after `ReserveN` (deadline test) or when the context ends
  while the goroutine sleeps until its slot. Last-made-first histories (`..._repo_lifo`) and a
  single waiter are special cases. In this class every effective cancellation credits at most the
  token it reserved (`C20.run_ok_repo_of_waiting`): no pending reservation that may still be
  cancelled lies after `lastEvent`, and one that waits lies a whole token before every later one,
  so unless it is the most recent one nothing is credited for it at all. With the discipline this
  holds across give-backs (without it: `C20.giveback_then_cancel_breaks_bound`). What the class
  leaves out: cancelling, at the very nanosecond of its slot, a reservation that is not the most
  recent one — the only way a cancellation is credited in part, which is what later over-credits
  feed on.
* `C20.prefix_bound_repo_burst_one`, `C20.datagrams_bound_repo_burst_one`: the budget without any
  hypothesis and for ANY order of cancellation when `burst = 1` (then every reservation lies a whole
  token after the one made before it and only the most recent one can be credited).
* `C20.run_repo_eq_run`, `C20.waste_ok_repo_eq`: without give-backs the discipline changes nothing.
* NOT proved: `RHist.wasteOk` for ARBITRARY cancellations when `burst ≥ 2` (the statement
  `prefix_bound_repo` of the task). There a single cancellation can credit more than one token
  (`C20.cancel_can_restore_more`: cancelling the most recent reservation rolls `lastEvent` back by
  exactly one token's duration, which is too far when an earlier cancellation was credited only in
  part), and the claim is that earlier under-credits always pay for it. See the end of this file
  for the one kind of event that is not covered and what the missing invariant has to look like, and `C20.bounded_check_repo`,
  `C20.bounded_check_repo_gb` for kernel-checked exhaustive searches (BOUNDED checks, not the theorem).
-/
import DhtVerif.Model.RateCancel
import DhtVerif.Lemmas.C20CancelRepo
import DhtVerif.Props.C20Cancel
namespace Dht

/-! ## The discipline -/

/-- `cancel i` under the discipline, spelled out: effective when the `i`-th pending reservation was
made after the most recent `giveBack` event, otherwise the reservation lapses and the limiter is
left as it is. -/
theorem C20.repo_cancel (r : RHist) (i : Nat) :
    (r.old ≤ i → r.step (.cancel i) = ⟨r.s.step (.cancel i), r.old⟩) ∧
    (i < r.old → (r.step (.cancel i)).s.c = r.s.c ∧ (r.step (.cancel i)).s.out = r.s.out ∧
      (r.step (.cancel i)).s.returned = r.s.returned ∧
      (r.step (.cancel i)).s.pending = r.s.pending.eraseIdx i) := by
  constructor
  · intro h; simp only [RHist.step, if_pos h]
  · intro h
    have h' : ¬ r.old ≤ i := by omega
    simp only [RHist.step, if_neg h', CHist.lapse]
    split
    · exact ⟨rfl, rfl, rfl, rfl⟩
    · rename_i hn
      refine ⟨rfl, rfl, rfl, ?_⟩
      rw [List.eraseIdx_of_length_le]
      exact List.getElem?_eq_none_iff.mp hn

/-- a `giveBack` event (successful or not) makes every pending reservation uncancellable; a
reservation made afterwards can be cancelled -/
theorem C20.repo_give_back (r : RHist) :
    (r.step .giveBack).old = (r.step .giveBack).s.pending.length ∧
    (r.step .reserve).old = r.old := by
  refine ⟨?_, rfl⟩
  show r.s.pending.length = (r.s.step .giveBack).pending.length
  rw [CHist.step_giveBack_pending]

/-- Without give-backs the discipline changes nothing. -/
theorem C20.run_repo_eq_run (s : CHist) (h : List CEv) (hg : h.all (fun e => !e.isGiveBack) = true) :
    s.runRepo h = s.run h := by
  unfold CHist.runRepo
  rw [RHist.run_old_zero h s hg]

theorem C20.waste_ok_repo_eq (s : CHist) (W : Int) (h : List CEv) (hg : h.all (fun e => !e.isGiveBack) = true) :
    RHist.wasteOk ⟨s, 0⟩ W h = s.wasteOk W h :=
  RHist.wasteOk_old_zero h s W hg

/-! ## The budget under a cumulative-waste hypothesis (any order of cancellation) -/

/-- Prefix windows under the repo's discipline. As `C20.prefix_bound_with_cancel`, for histories
run under the discipline; the hypothesis is about the effective cancellations only (a skipped one
counts a whole token in its favour). PARTIAL: the hypothesis `wasteOk` is not discharged here for
arbitrary orders of cancellation. -/
theorem C20.prefix_bound_repo_partial (p q burst t0 : Nat) (hp : 0 < p) (h : List CEv)
    (ht : h.all CEv.timely = true) (hok : (RHist.init p q burst t0).wasteOk 0 h = true) :
    let s := (CHist.init p q burst t0).runRepo h
    (q * nsPerSec) * s.effective (p * s.now) + p * t0
      ≤ burst * (q * nsPerSec) + p * s.now + (q * nsPerSec) * s.returned := by
  intro s
  obtain ⟨w, W, i⟩ := RHist.inv_run hp h (r := RHist.init p q burst t0) (CHist.WF.init p q burst t0)
    (CHist.Inv.init p q burst t0) ht hok
  exact i.prefix_bound w

/-- Hence the grants that became datagrams by now number at most `burst + rate·(now − t0)`, plus
the tokens given back. PARTIAL in the same sense. -/
theorem C20.datagrams_bound_repo_partial (p q burst t0 : Nat) (hp : 0 < p) (h : List CEv)
    (ht : h.all CEv.timely = true) (hok : (RHist.init p q burst t0).wasteOk 0 h = true) :
    let s := (CHist.init p q burst t0).runRepo h
    (q * nsPerSec) * s.sent + p * t0 ≤ burst * (q * nsPerSec) + p * s.now + (q * nsPerSec) * s.returned := by
  intro s
  obtain ⟨w, W, i⟩ := RHist.inv_run hp h (r := RHist.init p q burst t0) (CHist.WF.init p q burst t0)
    (CHist.Inv.init p q burst t0) ht hok
  have h1 := i.prefix_bound w
  have h3 : (q * nsPerSec) * ((RHist.init p q burst t0).run h).s.sent ≤ _ :=
    Nat.mul_le_mul_left (q * nsPerSec) (i.sent_le_effective w)
  exact Nat.le_trans (Nat.add_le_add_right h3 _) h1

/-- Per-event sufficient condition, as `C20.waste_ok_of_run_ok`. -/
theorem C20.waste_ok_repo_of_run_ok (r : RHist) (h : List CEv) (hok : r.runOk h = true) : r.wasteOk 0 h = true :=
  RHist.wasteOk_of_runOk h r 0 (Int.le_refl _) hok

/-! ## No hypothesis on the waste: reservations abandoned while waiting (any order), or last-made-first -/

/-- In a timely history run under the discipline in which every cancellation that reaches the
limiter hits a reservation that still waits for its slot (`now < slot`) or the most recently made
pending reservation (`RHist.waitOk`), every such cancellation credits at most the token it
reserved — cancellations in any order among the waiting reservations; give-backs, uses and sends in
any order. -/
theorem C20.run_ok_repo_of_waiting (p q burst t0 : Nat) (hp : 0 < p) (h : List CEv)
    (ht : h.all CEv.timely = true) (hl : (RHist.init p q burst t0).waitOk h = true) :
    (RHist.init p q burst t0).runOk h = true ∧ (RHist.init p q burst t0).wasteOk 0 h = true := by
  have h1 := RHist.wait_run hp h (r := RHist.init p q burst t0) (CHist.WF.init p q burst t0)
    (RHist.Lifo.init p q burst t0) ht hl
  exact ⟨h1, C20.waste_ok_repo_of_run_ok _ h h1⟩

/-- Prefix windows, no hypothesis on the waste: for every timely history run under the discipline
in which reservations are abandoned while they wait for their slot (in any order) or
last-made-first, the live grants whose token is covered by now, net of the tokens given back, number
at most `burst + rate·(now − t0)`. -/
theorem C20.prefix_bound_repo_waiting (p q burst t0 : Nat) (hp : 0 < p) (h : List CEv)
    (ht : h.all CEv.timely = true) (hl : (RHist.init p q burst t0).waitOk h = true) :
    let s := (CHist.init p q burst t0).runRepo h
    (q * nsPerSec) * s.effective (p * s.now) + p * t0
      ≤ burst * (q * nsPerSec) + p * s.now + (q * nsPerSec) * s.returned :=
  C20.prefix_bound_repo_partial p q burst t0 hp h ht (C20.run_ok_repo_of_waiting p q burst t0 hp h ht hl).2

/-- … and the datagrams written by now number at most `burst + rate·(now − t0)` plus the tokens
given back. -/
theorem C20.datagrams_bound_repo_waiting (p q burst t0 : Nat) (hp : 0 < p) (h : List CEv)
    (ht : h.all CEv.timely = true) (hl : (RHist.init p q burst t0).waitOk h = true) :
    let s := (CHist.init p q burst t0).runRepo h
    (q * nsPerSec) * s.sent + p * t0 ≤ burst * (q * nsPerSec) + p * s.now + (q * nsPerSec) * s.returned :=
  C20.datagrams_bound_repo_partial p q burst t0 hp h ht (C20.run_ok_repo_of_waiting p q burst t0 hp h ht hl).2

/-- Last-made-first histories (`RHist.lifoOk`: every cancellation that reaches the limiter hits the
most recently made pending reservation, whether it is due or not) are a special case; so is a
single waiter (at most one pending reservation at a time). -/
theorem C20.waiting_of_lifo (r : RHist) (h : List CEv) (hl : r.lifoOk h = true) : r.waitOk h = true :=
  RHist.waitOk_of_lifoOk h r hl

theorem C20.prefix_bound_repo_lifo (p q burst t0 : Nat) (hp : 0 < p) (h : List CEv)
    (ht : h.all CEv.timely = true) (hl : (RHist.init p q burst t0).lifoOk h = true) :
    let s := (CHist.init p q burst t0).runRepo h
    (q * nsPerSec) * s.effective (p * s.now) + p * t0
      ≤ burst * (q * nsPerSec) + p * s.now + (q * nsPerSec) * s.returned :=
  C20.prefix_bound_repo_waiting p q burst t0 hp h ht (C20.waiting_of_lifo _ h hl)

theorem C20.datagrams_bound_repo_lifo (p q burst t0 : Nat) (hp : 0 < p) (h : List CEv)
    (ht : h.all CEv.timely = true) (hl : (RHist.init p q burst t0).lifoOk h = true) :
    let s := (CHist.init p q burst t0).runRepo h
    (q * nsPerSec) * s.sent + p * t0 ≤ burst * (q * nsPerSec) + p * s.now + (q * nsPerSec) * s.returned :=
  C20.datagrams_bound_repo_waiting p q burst t0 hp h ht (C20.waiting_of_lifo _ h hl)

/-! ## No hypothesis on the waste: a bucket of one token, any order of cancellation -/

/-- With `burst = 1` every timely history run under the discipline — reservations cancelled in ANY
order, give-backs included — has every effective cancellation credit at most the token it
reserved: a bucket that never holds more than one token puts each reservation a whole token after
the one made before it, so only the most recent one is credited at all. -/
theorem C20.run_ok_repo_of_burst_one (p q t0 : Nat) (hp : 0 < p) (h : List CEv) (ht : h.all CEv.timely = true) :
    (RHist.init p q 1 t0).runOk h = true ∧ (RHist.init p q 1 t0).wasteOk 0 h = true := by
  have h1 := RHist.one_run hp h (r := RHist.init p q 1 t0) (CHist.WF.init p q 1 t0) (RHist.One.init p q 1 t0) ht
  exact ⟨h1, C20.waste_ok_repo_of_run_ok _ h h1⟩

/-- Prefix windows for `burst = 1`: the statement asked for (`prefix_bound_repo`), any order of
cancellation, no hypothesis on the waste. -/
theorem C20.prefix_bound_repo_burst_one (p q t0 : Nat) (hp : 0 < p) (h : List CEv) (ht : h.all CEv.timely = true) :
    let s := (CHist.init p q 1 t0).runRepo h
    (q * nsPerSec) * s.effective (p * s.now) + p * t0
      ≤ 1 * (q * nsPerSec) + p * s.now + (q * nsPerSec) * s.returned :=
  C20.prefix_bound_repo_partial p q 1 t0 hp h ht (C20.run_ok_repo_of_burst_one p q t0 hp h ht).2

theorem C20.datagrams_bound_repo_burst_one (p q t0 : Nat) (hp : 0 < p) (h : List CEv) (ht : h.all CEv.timely = true) :
    let s := (CHist.init p q 1 t0).runRepo h
    (q * nsPerSec) * s.sent + p * t0 ≤ 1 * (q * nsPerSec) + p * s.now + (q * nsPerSec) * s.returned :=
  C20.datagrams_bound_repo_partial p q 1 t0 hp h ht (C20.run_ok_repo_of_burst_one p q t0 hp h ht).2

/-! ## Bounded checks (NOT the theorem) -/

/-- the events of the bounded check without give-backs -/
def C20.checkAlphabet : List CEv := [.reserve, .cancel 0, .cancel 1, .cancel 2, .adv 1]

/-- the events of the bounded check with give-backs -/
def C20.checkAlphabetGb : List CEv := [.reserve, .cancel 0, .cancel 1, .cancel 2, .adv 1, .giveBack]

set_option maxRecDepth 100000 in
/-- Kernel-evaluated exhaustive search: 4 ns per token (`p = 250000000`, `q = 1`), burst 2; after
one send and 2 ns (the bucket then holds 1.5 tokens: reservations made now are not aligned with a
whole number of tokens) every continuation of at most 6 events from `checkAlphabet`, in any order,
keeps the running waste non-negative. The shortest history in which one cancellation credits more
than a token (`reserve, reserve, cancel 0, reserve, cancel 1, cancel 0`, cf.
`C20.cancel_can_restore_more`) is among them. -/
theorem C20.bounded_check_search :
    RHist.allWasteOk C20.checkAlphabet 6 ((RHist.init 250000000 1 2 0).run [.allow, .adv 2]) 0 = true := by
  decide +kernel

set_option maxRecDepth 100000 in
/-- The same with give-backs among the events, at most 5 events. -/
theorem C20.bounded_check_search_gb :
    RHist.allWasteOk C20.checkAlphabetGb 5 ((RHist.init 250000000 1 2 0).run [.allow, .adv 2]) 0 = true := by
  decide +kernel

theorem C20.bounded_check_aux (alph : List CEv) (n : Nat) (ha : ∀ e ∈ alph, e.timely = true)
    (hs : RHist.allWasteOk alph n ((RHist.init 250000000 1 2 0).run [.allow, .adv 2]) 0 = true)
    (h : List CEv) (hl : h.length ≤ n) (hm : ∀ e ∈ h, e ∈ alph) :
    (RHist.init 250000000 1 2 0).wasteOk 0 ([.allow, .adv 2] ++ h) = true ∧
    (let s := (CHist.init 250000000 1 2 0).runRepo ([.allow, .adv 2] ++ h)
     (1 * nsPerSec) * s.sent + 250000000 * 0 ≤ 2 * (1 * nsPerSec) + 250000000 * s.now + (1 * nsPerSec) * s.returned) := by
  have hw : (RHist.init 250000000 1 2 0).wasteOk 0 ([.allow, .adv 2] ++ h) = true := by
    show (RHist.init 250000000 1 2 0).wasteOk 0 (.allow :: .adv 2 :: h) = true
    rw [RHist.wasteOk_cons_zero _ _ _ _ (Int.le_refl _) rfl, RHist.wasteOk_cons_zero _ _ _ _ (Int.le_refl _) rfl]
    exact RHist.allWasteOk_sound _ n _ 0 (Int.le_refl _) hs h hl hm
  refine ⟨hw, ?_⟩
  have ht : ([CEv.allow, CEv.adv 2] ++ h).all CEv.timely = true := by
    simp only [List.all_append, List.all_cons, List.all_nil, Bool.and_true, Bool.and_eq_true, List.all_eq_true]
    exact ⟨⟨rfl, rfl⟩, fun e he => ha e (hm e he)⟩
  exact C20.datagrams_bound_repo_partial 250000000 1 2 0 (by decide) _ ht hw

/-- BOUNDED CHECK, not the theorem: for rate 1 token / 4 ns, burst 2, every history
`allow, adv 2 ns` followed by at most 6 events from `checkAlphabet` (any order of cancellation, up
to three reservations pending at once) meets the waste hypothesis, hence the budget. -/
theorem C20.bounded_check_repo (h : List CEv) (hl : h.length ≤ 6) (hm : ∀ e ∈ h, e ∈ C20.checkAlphabet) :
    (RHist.init 250000000 1 2 0).wasteOk 0 ([.allow, .adv 2] ++ h) = true ∧
    (let s := (CHist.init 250000000 1 2 0).runRepo ([.allow, .adv 2] ++ h)
     (1 * nsPerSec) * s.sent + 250000000 * 0 ≤ 2 * (1 * nsPerSec) + 250000000 * s.now + (1 * nsPerSec) * s.returned) :=
  C20.bounded_check_aux _ 6 (by decide) C20.bounded_check_search h hl hm

/-- BOUNDED CHECK, not the theorem: the same with give-backs, at most 5 events. -/
theorem C20.bounded_check_repo_gb (h : List CEv) (hl : h.length ≤ 5) (hm : ∀ e ∈ h, e ∈ C20.checkAlphabetGb) :
    (RHist.init 250000000 1 2 0).wasteOk 0 ([.allow, .adv 2] ++ h) = true ∧
    (let s := (CHist.init 250000000 1 2 0).runRepo ([.allow, .adv 2] ++ h)
     (1 * nsPerSec) * s.sent + 250000000 * 0 ≤ 2 * (1 * nsPerSec) + 250000000 * s.now + (1 * nsPerSec) * s.returned) :=
  C20.bounded_check_aux _ 5 (by decide) C20.bounded_check_search_gb h hl hm

/-! ## Kept examples -/

/-- The discipline at work on `C20.giveback_then_cancel_breaks_bound` (1 token/s, burst 3, all at
instant 0): three sends, a reservation, a give-back, the cancellation — now skipped, so the token
the reservation holds is lost —, two more `Allow`s, both refused. 3 grants became datagrams against
a budget of 3 + 1 given back; without the discipline 5 did. The history is last-made-first, so
`prefix_bound_repo_lifo` (hence `prefix_bound_repo_waiting`) applies. -/
example :
    let h : List CEv := [.allow, .allow, .allow, .reserve, .giveBack, .cancel 0, .allow, .allow]
    let s := (CHist.init 1 1 3 0).runRepo h
    let s' := (CHist.init 1 1 3 0).run h
    h.all CEv.timely = true ∧ (RHist.init 1 1 3 0).lifoOk h = true ∧ (RHist.init 1 1 3 0).wasteOk 0 h = true ∧
    (CHist.init 1 1 3 0).wasteOk 0 h = false ∧
    s.sent = 3 ∧ s.returned = 1 ∧ s.cancelled = 1 ∧ s.pending = [] ∧ s'.sent = 5 ∧
    (1 * nsPerSec) * s.sent + 1 * 0 ≤ 3 * (1 * nsPerSec) + 1 * s.now + (1 * nsPerSec) * s.returned ∧
    ¬ (1 * nsPerSec) * s'.sent + 1 * 0 ≤ 3 * (1 * nsPerSec) + 1 * s'.now + (1 * nsPerSec) * s'.returned := by
  decide +kernel

/-- Non-vacuity of the `lifo` theorems: 2 tokens/s, burst 2. Two sends, one of them fails on the
socket (give-back); three reservations (slots 0 s, 0.5 s, 1 s); at 0.1 s the last two are cancelled,
youngest first (the first of these rolls `lastEvent` back), the oldest is used; a fourth reservation
(slot 0.5 s), then another failed write elsewhere (give-back): the fourth reservation, cancelled at
once, lapses. At 0.6 s one `Allow` passes and the next is refused. Every effective cancellation
credits exactly its token. Without the discipline the last cancellation would credit 1.8 tokens and
the history would fail `CHist.wasteOk`. -/
example :
    let h : List CEv := [.allow, .allow, .giveBack, .reserve, .reserve, .reserve, .adv 100000000, .cancel 2, .cancel 1,
      .use 0, .reserve, .giveBack, .cancel 0, .adv 500000000, .allow, .allow]
    let r := (RHist.init 2 1 2 0).run h
    h.all CEv.timely = true ∧ (RHist.init 2 1 2 0).lifoOk h = true ∧
    (RHist.init 2 1 2 0).runOk h = true ∧ (RHist.init 2 1 2 0).wasteOk 0 h = true ∧
    (CHist.init 2 1 2 0).wasteOk 0 h = false ∧
    r.s = (CHist.init 2 1 2 0).runRepo h ∧
    r.s.sent = 4 ∧ r.s.returned = 2 ∧ r.s.cancelled = 3 ∧ r.s.pending = [] ∧ r.old = 0 ∧ r.s.now = 600000000 ∧
    r.s.out.map (·.time) = [600000000, 100000000, 0, 0] ∧ r.s.effective (2 * r.s.now) = 4 ∧
    r.s.c.b.tokens = 200000000 := by
  decide +kernel

/-- A single waiter (at most one pending reservation) is last-made-first: 1 token/s, burst 1. A
send; a waiter reserves (slot 1 s) and gives up at 0.3 s; the next reserves (slot 1 s) but a write
fails elsewhere at 0.5 s (give-back) and its cancellation is skipped; a third waits for its slot
and sends. -/
example :
    let h : List CEv := [.allow, .reserve, .adv 300000000, .cancel 0, .reserve, .adv 200000000, .giveBack, .cancel 0,
      .reserve, .adv 1000000000, .use 0]
    let r := (RHist.init 1 1 1 0).run h
    h.all CEv.timely = true ∧ (RHist.init 1 1 1 0).lifoOk h = true ∧ (RHist.init 1 1 1 0).wasteOk 0 h = true ∧
    r.s.sent = 2 ∧ r.s.returned = 1 ∧ r.s.cancelled = 2 ∧ r.s.pending = [] ∧ r.s.now = 1500000000 := by
  decide +kernel

/-- Non-vacuity of the `waiting` theorems outside the last-made-first class: 2 tokens/s, burst 2.
Two sends; three waiters reserve (slots 0.5 s, 1 s, 1.5 s); at 0.1 s the OLDEST gives up first (it
still waits; its token has been passed on: nothing is credited), then the youngest and the middle
one (a token each; `lastEvent` rolls back twice); a failed write gives a token back; two more
waiters reserve (slots 0.5 s and, at 0.2 s, 1 s) and the older of them gives up while waiting
(nothing credited); the other one sends at its slot; an `Allow` at 1 s is refused. -/
example :
    let h : List CEv := [.allow, .allow, .reserve, .reserve, .reserve, .adv 100000000, .cancel 0, .cancel 1, .cancel 0,
      .giveBack, .reserve, .adv 100000000, .reserve, .cancel 0, .adv 800000000, .use 0, .allow]
    let r := (RHist.init 2 1 2 0).run h
    h.all CEv.timely = true ∧ (RHist.init 2 1 2 0).waitOk h = true ∧ (RHist.init 2 1 2 0).lifoOk h = false ∧
    (RHist.init 2 1 2 0).runOk h = true ∧ (RHist.init 2 1 2 0).wasteOk 0 h = true ∧
    r.s.sent = 3 ∧ r.s.returned = 1 ∧ r.s.cancelled = 4 ∧ r.s.pending = [] ∧ r.s.now = 1000000000 ∧
    r.s.out.map (·.time) = [1000000000, 0, 0] ∧ r.s.effective (2 * r.s.now) = 3 := by
  decide +kernel

/-- Non-vacuity of the `burst_one` theorems: 1 token/s, burst 1, a history that is not
last-made-first. A send; three reservations (slots 1 s, 2 s, 3 s); at 0.2 s the oldest is cancelled
(its token has been passed on: nothing is credited), then the youngest and the middle one (one
token each, `lastEvent` rolls back twice); a failed write gives a token back; a fourth reservation
(slot 1 s) is overtaken by another give-back and its cancellation is skipped; at 1 s one `Allow`
passes, the next is refused. -/
example :
    let h : List CEv := [.allow, .reserve, .reserve, .reserve, .adv 200000000, .cancel 0, .cancel 1, .cancel 0,
      .giveBack, .reserve, .giveBack, .cancel 0, .adv 800000000, .allow, .allow]
    let r := (RHist.init 1 1 1 0).run h
    h.all CEv.timely = true ∧ (RHist.init 1 1 1 0).lifoOk h = false ∧
    (RHist.init 1 1 1 0).runOk h = true ∧ (RHist.init 1 1 1 0).wasteOk 0 h = true ∧
    r.s.sent = 2 ∧ r.s.returned = 2 ∧ r.s.cancelled = 4 ∧ r.s.pending = [] ∧ r.s.now = 1000000000 ∧
    r.s.out.map (·.time) = [1000000000, 0] ∧ r.s.c.b.tokens = 0 := by
  decide +kernel

/-- Non-vacuity of the `partial` theorems outside the `lifo` class, and the reason the general
statement is hard: `C20.cancel_can_restore_more` run under the discipline (no give-backs, so it is
the same run). 1 token/s, burst 2. The reservations are cancelled oldest first, then youngest,
then the middle one; the three cancellations credit ½, 1 and 1½ tokens: the last one is NOT
`creditOk` (so `runOk` fails; the history is not in the `waiting` class: the first cancellation hits
a reservation at the nanosecond of its slot that is not the most recent one, and is credited in
part), yet the running waste (½, ½, 0) never falls below zero. -/
example :
    let h : List CEv := [.allow, .adv 500000000, .reserve, .reserve, .cancel 0, .reserve, .cancel 1, .cancel 0]
    let s := (CHist.init 1 1 2 0).runRepo h
    h.all CEv.timely = true ∧ (RHist.init 1 1 2 0).wasteOk 0 h = true ∧
    (RHist.init 1 1 2 0).runOk h = false ∧ (RHist.init 1 1 2 0).waitOk h = false ∧
    s = (CHist.init 1 1 2 0).run h ∧ s.sent = 1 ∧ s.cancelled = 3 ∧ s.c.b.tokens = 1500000000 ∧
    (1 * nsPerSec) * s.sent + 1 * 0 ≤ 2 * (1 * nsPerSec) + 1 * s.now + (1 * nsPerSec) * s.returned := by
  decide +kernel

/-- `checkAlphabet` histories exist that are not last-made-first and over-credit: the bounded check
covers the phenomenon (4 ns per token; the same shape as the example above). -/
example :
    let h : List CEv := [.reserve, .reserve, .cancel 0, .reserve, .cancel 1, .cancel 0]
    h.length ≤ 6 ∧ (∀ e ∈ h, e ∈ C20.checkAlphabet) ∧
    (RHist.init 250000000 1 2 0).runOk ([.allow, .adv 2] ++ h) = false ∧
    (RHist.init 250000000 1 2 0).wasteOk 0 ([.allow, .adv 2] ++ h) = true := by
  decide +kernel

/-!
## What is missing

Exactly one kind of event separates `prefix_bound_repo_waiting` from the statement for ALL timely
histories (`burst ≥ 2`): a cancellation that reaches the limiter, at the very nanosecond of its slot
(`now = slot`; later it is a no-op, earlier it is in the class), of a reservation that is not the
most recent one. Such a reservation need not lie a whole token before the later ones (several
reservations made at an instant at which the bucket holds tokens all get `timeToAct = now`), so
`restoreTokens` can be a fraction of a token; the bucket's zero instant `F = p·last − tokens` then
falls below pending reservations, `reserve; cancel` rolls `lastEvent` down to `F`, and cancelling
those reservations credits more than a token each (`C20.cancel_can_restore_more`). The claim that
remains open is that the earlier under-credits always pay for this (`RHist.wasteOk`).

What the search for an invariant established (scaled time, `U` = one token, `n = p·now`,
`L = lastEvent`, `P` = the acts of the pending reservations that may still be cancelled):

* The budget needs only the conservation law `tokens + U·|live| ≤ cap + p·(last − t0) + U·returned`
  (`B ≥ 0`, where `B` = waste + what overflowed the cap); `CHist.Inv` is maintained by every event
  as long as it holds after each cancellation. A cancellation of `b` changes `B` by `L − b`. So the
  theorem is: `b − L ≤ B` whenever `b ∈ P` is cancelled in time.
* A potential `Ψ(state)` with `0 ≤ Ψ ≤ W` that survives every event must charge every `b ∈ P` above
  `F`; because each over-credit lowers `F` by more than a token the charges compound (`x, 2x, 4x, …`
  down a filled stack of reservations) and, through `reserve; cancel` cycles, add up to the full
  height `b − n` of the reservation. Conversely the cheapest way to produce a reservation `b` that
  is not aligned with the stack costs `b − n`. Every simple candidate (`Σ (b − min(L, max(F, n)))⁺`;
  weak majorisation of the sorted acts by the levels `F, F − U, …`; `Σ` of heights over the unaligned
  reservations; overlaps `(a_j − (a_{j+1} − U))⁺` in reservation order) is `≤ W` on all reachable
  states examined but is not inductive, or is inductive only with a structural invariant on the
  reachable sets `P` that we could not close (unaligned reservations sit at the bottom of the stack).
* Evidence that the statement is true (outside Lean): the minimal running waste over ALL histories,
  computed by relaxation over the abstract states `(F − n, L − n, P)` (time in steps of `1/U` token,
  `p = 1`), is 0 — never negative — for `(U, burst)` in (4,3), (5,3), (3,4), (6,2), (7,3), (4,5),
  (10,2), (4,6), (5,6), (3,8), (6,4) with at most 6 cancellable pending reservations and debt up to
  7–12 tokens, and with give-backs under the discipline for (4,3), (5,4), (3,5); 400 000 random
  histories with `p ∈ {1,2,3}`. Inside Lean: `C20.bounded_check_repo`, `C20.bounded_check_repo_gb`.
* A proof has to cope with the following, all observed on reachable states: a cancellation may credit
  more than two tokens (`b − L > U`); two and more pending reservations may lie above `L` at once;
  `W = Σ (b − n)` over the pending reservations not aligned with the stack is attained (so the
  invariant is tight in the heights, not only in the overlaps); and from UNREACHABLE states that
  satisfy every simple structural invariant we tried (e.g. an unaligned reservation on top of a
  filled stack of three) the waste does become negative, so the invariant must capture which
  sets `P` are reachable at which cost.
-/

end Dht
