/-
C01 — no inbound datagram can crash, wedge or silence the node (server model).

The model makes every Go `panic` on the inbound path an explicit `none`
outcome (table code) and every unguarded dereference a case of the handler;
the theorems say that no reachable state and no datagram reaches one, that
the state stays well-formed, and that a fresh unblocked address is still
answered afterwards.
-/
import DhtVerif.Model.Server
import DhtVerif.Props.C05
import DhtVerif.Lemmas.C01
namespace Dht

/-- IDs inside a decoded message are 20 bytes (guaranteed by `krpc.ID`). -/
def QMsg.wf (m : QMsg) : Prop :=
  (∀ a, m.a = some a → a.id.length = 20) ∧ (∀ i, m.rid = some i → i.length = 20)

def Decoded.wf : Decoded → Prop
  | .msg m => m.wf
  | _ => True

/-- Reachable-state invariant of the server model: the routing table is well-formed. -/
def Srv.Inv (c : SrvCfg) (s : Srv) : Prop := Table.Inv c.tbl s.ts.table

theorem tblEvOf_wf (src : NAddr) (m : QMsg) (ch : Option Node) (hm : m.wf) : (tblEvOf src m ch).wf := by
  unfold tblEvOf
  split
  · intro i hi
    simp only [Option.map_eq_some_iff] at hi
    obtain ⟨a, ha, rfl⟩ := hi
    exact hm.1 a ha
  · intro i hi
    unfold respId at hi
    split at hi
    · exact hm.2 i hi
    · simp at hi

theorem tblEvOf_withChoice (src : NAddr) (m : QMsg) (ch ch' : Option Node) :
    (tblEvOf src m ch).withChoice ch' = tblEvOf src m ch' := by
  unfold tblEvOf
  split <;> rfl

theorem C01.inv_init (c : SrvCfg) : Srv.Inv c {} := by
  exact C05.inv_init c.tbl

/-- No datagram crashes the node: from every well-formed state, for every
source, size, decode result and environment answer there is a resolution of the
map-iteration choice under which the step is defined … -/
theorem C01.never_crashes (c : SrvCfg) (hroot : c.tbl.root.length = 20) (mk : TokenFn) (s : Srv) (src : NAddr)
    (size : Nat) (d : Decoded) (env : Env) (hinv : Srv.Inv c s) (hd : d.wf) :
    ∃ ch, (serveDatagram c mk s src size d { env with choice := ch }).isSome = true := by
  cases d with
  | notDict => exact ⟨none, serveDatagram_isSome _ _ _ _ _ _ _ (fun m hm => by cases hm)⟩
  | undecodable => exact ⟨none, serveDatagram_isSome _ _ _ _ _ _ _ (fun m hm => by cases hm)⟩
  | msg m =>
    obtain ⟨ch, hch⟩ := C05.no_panic c.tbl hroot s.ts (tblEvOf src m env.choice) hinv (tblEvOf_wf src m _ hd)
    rw [tblEvOf_withChoice] at hch
    refine ⟨ch, serveDatagram_isSome _ _ _ _ _ _ _ ?_⟩
    intro m' hm'
    cases hm'
    exact processMsg_isSome c mk s src m { env with choice := ch } hch

/-- … and whenever a step is defined, the state it leads to is well-formed
again, so the argument repeats for every finite sequence of datagrams. -/
theorem C01.inv_step (c : SrvCfg) (hroot : c.tbl.root.length = 20) (mk : TokenFn) (s s' : Srv) (src : NAddr)
    (size : Nat) (d : Decoded) (env : Env) (outs : List Out) (effs : List Effect)
    (hinv : Srv.Inv c s) (hd : d.wf)
    (h : serveDatagram c mk s src size d env = some (s', outs, effs)) : Srv.Inv c s' := by
  rcases serveDatagram_some c mk s s' src size d env outs effs h with h1 | ⟨m, rfl, hp⟩
  · obtain ⟨rfl, _, _⟩ := h1; exact hinv
  · rcases processMsg_step c mk s s' src m env outs effs hp with h2 | ⟨out, h2⟩
    · unfold Srv.Inv; rw [h2]; exact hinv
    · exact C05.inv_step c.tbl hroot s.ts s'.ts _ out hinv (tblEvOf_wf src m _ hd) h2

/-- No datagram closes the server or touches its pending transactions other than by delivering to one. -/
theorem C01.stays_open (c : SrvCfg) (mk : TokenFn) (s s' : Srv) (src : NAddr)
    (size : Nat) (d : Decoded) (env : Env) (outs : List Out) (effs : List Effect)
    (h : serveDatagram c mk s src size d env = some (s', outs, effs)) : s'.closed = s.closed := by
  rcases serveDatagram_some c mk s s' src size d env outs effs h with h1 | ⟨m, rfl, hp⟩
  · obtain ⟨rfl, _, _⟩ := h1; rfl
  · exact processMsg_closed c mk s s' src m env outs effs hp

/-- The node is never silenced: in every well-formed open state, a well-formed
ping from any unblocked address with a non-zero port is answered with exactly
one response to that address (node not passive, hook not vetoing). -/
theorem C01.still_serves (c : SrvCfg) (hroot : c.tbl.root.length = 20) (mk : TokenFn) (s : Srv) (src : NAddr)
    (t : List UInt8) (id : Id) (hid : id.length = 20) (size : Nat) (env : Env)
    (hinv : Srv.Inv c s) (hopen : s.closed = false) (hsize : size < 65536) (hport : (src.port == 0) = false)
    (hblk : c.blocked src.ip = false) (hpass : c.passive = false) (hhook : c.hasHook = false ∨ env.hookPropagate = true) :
    ∃ ch, written c mk s src size (.msg { y := str "q", q := str "ping", t := t, a := some { id := id } })
        { env with choice := ch } = some [mkReply c src t {}] := by
  generalize hm : ({ y := str "q", q := str "ping", t := t, a := some { id := id } } : QMsg) = m
  have hy : m.y = str "q" := by subst hm; rfl
  have hq : m.q = str "ping" := by subst hm; rfl
  have ht : m.t = t := by subst hm; rfl
  have hwf : m.wf := by
    subst hm
    refine ⟨?_, ?_⟩
    · intro a ha
      simp only [Option.some.injEq] at ha
      subst ha; exact hid
    · intro i hi; simp at hi
  obtain ⟨ch, hch⟩ := C05.no_panic c.tbl hroot s.ts (tblEvOf src m env.choice) hinv (tblEvOf_wf src m _ hwf)
  rw [tblEvOf_withChoice, tblEvOf_q src m _ hy, step_recvQuery] at hch
  refine ⟨ch, ?_⟩
  cases hup : updateNode c.tbl s.ts.now s.ts.table src (m.a.map (·.id)) (!m.ro) (onQuery s.ts.now) ch with
  | none => rw [hup] at hch; simp at hch
  | some r =>
    obtain ⟨tbl', out⟩ := r
    have hhq := handleQuery_ping c mk s src m { env with choice := ch } tbl' out hq hpass hhook hup
    have hsz : ¬ size ≥ 65536 := by omega
    simp only [written, serveDatagram, hsz, hport, hopen, hblk, processMsg, hy, hhq, if_false, Bool.false_eq_true,
      beq_self_eq_true, if_true, Option.map_some, List.filterMap_cons, List.filterMap_nil, writeGate, withTable_closed,
      mkReply, ht]

/-- Hence every state reached by a finite sequence of datagrams (for which the
steps are defined) is well-formed and as open as the start state. -/
theorem C01.inv_run (c : SrvCfg) (hroot : c.tbl.root.length = 20) (mk : TokenFn)
    (evs : List (NAddr × Nat × Decoded × Env)) (s0 s : Srv) (hinv : Srv.Inv c s0)
    (hwf : ∀ ev ∈ evs, ev.2.2.1.wf)
    (hrun : evs.foldlM (fun (st : Srv) (ev : NAddr × Nat × Decoded × Env) =>
      (serveDatagram c mk st ev.1 ev.2.1 ev.2.2.1 ev.2.2.2).map (·.1)) s0 = some s) :
    Srv.Inv c s ∧ s.closed = s0.closed := by
  induction evs generalizing s0 with
  | nil =>
    simp only [List.foldlM_nil, pure, Option.some.injEq] at hrun
    subst hrun; exact ⟨hinv, rfl⟩
  | cons ev l ih =>
    rw [List.foldlM_cons] at hrun
    simp only [bind, Option.bind_eq_some_iff, Option.map_eq_some_iff] at hrun
    obtain ⟨s1, ⟨⟨s1', outs, effs⟩, hstep, rfl⟩, hrest⟩ := hrun
    have h1 := C01.inv_step c hroot mk s0 s1' ev.1 ev.2.1 ev.2.2.1 ev.2.2.2 outs effs hinv (hwf ev (by simp)) hstep
    have h2 := C01.stays_open c mk s0 s1' ev.1 ev.2.1 ev.2.2.1 ev.2.2.2 outs effs hstep
    obtain ⟨h3, h4⟩ := ih s1' h1 (fun ev' h => hwf ev' (List.mem_cons_of_mem _ h)) hrest
    exact ⟨h3, h4.trans h2⟩

/-- A closed server, and a blocked source, get nothing written and change nothing. -/
theorem C01.closed_or_blocked_silent (c : SrvCfg) (mk : TokenFn) (s : Srv) (src : NAddr)
    (size : Nat) (d : Decoded) (env : Env) (h : s.closed = true ∨ c.blocked src.ip = true) :
    written c mk s src size d env = some [] := by
  unfold written serveDatagram
  split
  · rfl
  split
  · rfl
  rcases h with h | h <;> simp [h]

/-! ### Non-vacuity -/

namespace C01Ex
def cfg : SrvCfg := { tbl := { root := Id.zero 20 } }
def tok : TokenFn := fun ip n => ip ++ [n.toUInt8]
def src : NAddr := ⟨[10, 0, 0, 1], 6881⟩
def ping : QMsg := { y := str "q", q := str "ping", t := [1], a := some { id := List.replicate 20 1 } }
end C01Ex

open C01Ex in
/-- The hypotheses of `still_serves` are met by the fresh server and a concrete
ping, which is answered and enters the routing table. -/
example : Srv.Inv cfg {} ∧ cfg.tbl.root.length = 20 ∧ (Decoded.msg ping).wf ∧
    written cfg tok {} src 100 (.msg ping) {} = some [mkReply cfg src [1] {}] ∧
    (serveDatagram cfg tok {} src 100 (.msg ping) {}).map (fun r => (r.1.ts.table, r.1.closed)) =
      some ([{ id := List.replicate 20 1, addr := src, lastQuery := some 0 }], false) := by
  refine ⟨C01.inv_init cfg, by decide, ⟨?_, ?_⟩, by decide +kernel, by decide +kernel⟩
  · intro a ha; cases ha; decide
  · intro i hi; cases hi

open C01Ex in
/-- Oversized datagrams, port 0 and undecodable input are dropped without effect;
a malformed query (no args dict) is answered with an error, not a crash. -/
example : written cfg tok {} src 65536 (.msg ping) {} = some [] ∧
    written cfg tok {} ⟨[10, 0, 0, 1], 0⟩ 100 (.msg ping) {} = some [] ∧
    written cfg tok {} src 100 .undecodable {} = some [] ∧
    written cfg tok {} src 100 (.msg { y := str "q", q := str "get_peers", t := [9] }) {} =
      some [mkError src [9] Gen.errorCodeProtocolError] := by
  refine ⟨?_, ?_, ?_, ?_⟩ <;> decide +kernel

/-- T1: `processPacket` takes the server lock with a deferred unlock before
dispatching (so every return path, including a recovered error, releases it),
checks `closed`, and dispatches queries to `handleQuery`. -/
theorem C01.lock_discipline :
    idxOf' Gen.evProcessPacket "s.mu.Lock" + 2 = idxOf' Gen.evProcessPacket "s.mu.Unlock" ∧
    Gen.evProcessPacket.getD (idxOf' Gen.evProcessPacket "s.mu.Lock" + 1) "" = "defer" ∧
    idxOf' Gen.evProcessPacket "s.mu.Lock" < idxOf' Gen.evProcessPacket "s.handleQuery" ∧
    idxOf' Gen.evProcessPacket "s.handleQuery" < Gen.evProcessPacket.length ∧
    idxOf' Gen.evProcessPacket "bencode.Unmarshal" < idxOf' Gen.evProcessPacket "s.mu.Lock" := by
  decide +kernel

end Dht
