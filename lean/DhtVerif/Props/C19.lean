/-
C19 — blocklisted addresses and passive mode are honoured on every path (server model).
-/
import DhtVerif.Model.Server
import DhtVerif.Lemmas.C19
import DhtVerif.Props.ST2Filter
namespace Dht

/-- A datagram from a blocked source has no effect at all: no output, no
effect on stores or pending queries, state unchanged. -/
theorem C19.blocked_src_no_effect (c : SrvCfg) (mk : TokenFn) (s : Srv) (src : NAddr) (size : Nat) (d : Decoded)
    (env : Env) (hb : c.blocked src.ip = true) :
    serveDatagram c mk s src size d env = some (s, [], []) := by
  simp [serveDatagram, hb]

/-- Nothing is ever written to a blocked destination. -/
theorem C19.never_write_blocked_dst (c : SrvCfg) (mk : TokenFn) (s : Srv) (src : NAddr) (size : Nat) (d : Decoded)
    (env : Env) (ws : List Out) (h : written c mk s src size d env = some ws) :
    ∀ o ∈ ws, c.blocked o.dst.ip = false := by
  unfold written at h
  cases hs : serveDatagram c mk s src size d env with
  | none => rw [hs] at h; cases h
  | some r =>
    rw [hs] at h
    simp only [Option.map_some, Option.some.injEq] at h
    subst h
    intro o ho
    obtain ⟨o', _, hg⟩ := List.mem_filterMap.mp ho
    obtain ⟨he, _, hb⟩ := writeGate_eq_some hg
    rw [he]; exact hb

/-- The write gate lets nothing through for a blocked destination or a closed server, whatever the datagram. -/
theorem C19.write_gate (c : SrvCfg) (s : Srv) (o : Out) :
    (c.blocked o.dst.ip = true → writeGate c s o = none) ∧ (s.closed = true → writeGate c s o = none) := by
  constructor
  · intro hb; simp [writeGate, hb]
  · intro hc; simp [writeGate, hc]

/-- In passive mode the node sends no response or error to any query. -/
theorem C19.passive_never_answers (c : SrvCfg) (mk : TokenFn) (s s' : Srv) (src : NAddr) (size : Nat) (d : Decoded)
    (env : Env) (outs : List Out) (effs : List Effect) (hp : c.passive = true)
    (h : serveDatagram c mk s src size d env = some (s', outs, effs)) : outs = [] := by
  rcases serveDatagram_eq_some h with ⟨_, ho, _⟩ | ⟨m, _, _, _, hm⟩
  · exact ho
  · exact processMsg_passive hp hm

/-- … and every query it sends is marked read-only. -/
theorem C19.passive_queries_ro (c : SrvCfg) (hp : c.passive = true) : queryReadOnly c = true := by
  exact hp

/-- T1: every socket write in the module sits in `writeToNode`, after the closed
and blocklist tests; `serve` tests the source before `processPacket`; the
passive test precedes the method switch; `makeQueryBytes` sets `ReadOnly` under `Passive`. -/
def idxOf (l : List String) (x : String) : Nat := l.findIdx (· == x)

theorem C19.source_structure :
    Gen.writeToSites = ["server.go:Server.writeToNode"] ∧
    idxOf Gen.evWriteToNode "s.closed.IsSet" < idxOf Gen.evWriteToNode "s.socket.WriteTo" ∧
    idxOf Gen.evWriteToNode "list.Lookup" < idxOf Gen.evWriteToNode "s.socket.WriteTo" ∧
    idxOf Gen.evWriteToNode "s.socket.WriteTo" < Gen.evWriteToNode.length ∧
    idxOf Gen.evServe "s.ipBlocked" < idxOf Gen.evServe "s.processPacket" ∧
    idxOf Gen.evServe "s.processPacket" < Gen.evServe.length ∧
    idxOf Gen.evHandleQuery "if:s.config.Passive" < idxOf Gen.evHandleQuery "switch{" ∧
    idxOf Gen.evHandleQuery "switch{" < Gen.evHandleQuery.length ∧
    Gen.evMakeQueryBytes.contains "if:s.config.Passive" = true ∧
    Gen.evMakeQueryBytes.contains "set:m.ReadOnly" = true := by
  decide +kernel

/-! Non-vacuity -/

/-- A ping from a blocked source: nothing comes out; the same ping from another source is answered. -/
example : (serveDatagram { tbl := { root := List.replicate 20 1 }, blocked := fun ip => ip == [1,2,3,4] } (fun _ _ => []) {}
    ⟨[1,2,3,4], 5⟩ 50 (.msg { y := str "q", q := str "ping", t := [7], a := some { id := List.replicate 20 2 } }) {}).map
      (fun r => (r.2.1.length, r.2.2.length, r.1.ts.table.length)) = some (0, 0, 0) := by
  decide +kernel
example : (written { tbl := { root := List.replicate 20 1 }, blocked := fun ip => ip == [1,2,3,4] } (fun _ _ => []) {}
    ⟨[1,2,3,5], 5⟩ 50 (.msg { y := str "q", q := str "ping", t := [7], a := some { id := List.replicate 20 2 } }) {}).map
      List.length = some 1 := by
  decide +kernel
/-- The gate removes a datagram for a blocked destination. -/
example : writeGate { tbl := { root := List.replicate 20 1 }, blocked := fun ip => ip == [1,2,3,4] } {}
    (mkError ⟨[1,2,3,4], 5⟩ [7] 204) = none := by
  decide +kernel
/-- A passive node records the sender but does not answer; a non-passive one answers. -/
example : (serveDatagram { tbl := { root := List.replicate 20 1 }, passive := true } (fun _ _ => []) {}
    ⟨[1,2,3,4], 5⟩ 50 (.msg { y := str "q", q := str "ping", t := [7], a := some { id := List.replicate 20 2 } }) {}).map
      (fun r => (r.2.1.length, r.1.ts.table.length)) = some (0, 1) := by
  decide +kernel
example : (serveDatagram { tbl := { root := List.replicate 20 1 }, passive := false } (fun _ _ => []) {}
    ⟨[1,2,3,4], 5⟩ 50 (.msg { y := str "q", q := str "ping", t := [7], a := some { id := List.replicate 20 2 } }) {}).map
      (fun r => (r.2.1.length, r.1.ts.table.length)) = some (1, 1) := by
  decide +kernel

/-! ## T1 by translation: the traversal's node filter -/

/-- `Server.TraversalNodeFilter` in server.go (with `validNodeAddr` read from its own source) IS
`traversalNodeFilter`, which rejects every candidate at a blocked IP: the traversals never query one. -/
theorem C19.traversalNodeFilter_is_the_source (c : SrvCfg) (n : Cand) :
    DExp.evalWith (tnfCond c n) (tnfRet c n) Gen.treeTraversalNodeFilter = some (traversalNodeFilter c n) ∧
    (c.blocked n.addr.ip = true → traversalNodeFilter c n = false) :=
  ⟨SourceTrees.traversalNodeFilter c n, traversalNodeFilter_blocked c n⟩

/-- `validNodeAddr` in server.go IS `validNodeAddr`. -/
theorem C19.validNodeAddr_is_the_source (ip : List UInt8) (port : Nat) :
    Gen.treeValidNodeAddrLets = vnaLetsExpected ∧
    DExp.evalWith (vnaCond ip port) boolRet Gen.treeValidNodeAddr = some (validNodeAddr ip port) :=
  SourceTrees.validNodeAddr ip port

end Dht
