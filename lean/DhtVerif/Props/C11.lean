/-
C11 — announced peers come back from get_peers, and only those, per BEP 5/32 (server model).
-/
import DhtVerif.Model.Server
import DhtVerif.Lemmas.C11
namespace Dht

/-- The endpoint an accepted announce stores: the source IP with the announced
port, or the UDP source port when `implied_port` is set. -/
def announcedPort (src : NAddr) (a : QArgs) : Int :=
  if a.impliedPort then (src.port : Int) else a.port.getD 0

def isAnnounce (m : QMsg) : Prop := m.y = str "q" ∧ m.q = str "announce_peer"

/-- An accepted announce (valid token; node not passive, hook not vetoing)
stores exactly (infohash, source IP, announced port) and is answered. -/
theorem C11.accepted_announce_stores (c : SrvCfg) (mk : TokenFn) (s s' : Srv) (src : NAddr) (m : QMsg) (a : QArgs)
    (env : Env) (outs : List Out) (effs : List Effect)
    (hm : isAnnounce m) (ha : m.a = some a) (hps : c.hasPeerStore = true) (hpass : c.passive = false)
    (hhook : c.hasHook = false ∨ env.hookPropagate = true) (hcl : s.closed = false)
    (htok : validToken c mk s.ts.now src.ip a.token = true)
    (h : processMsg c mk s src m env = some (s', outs, effs)) :
    ⟨a.infoHash, src.ip, announcedPort src a⟩ ∈ s'.peers ∧ outs.length = 1 := by
  obtain ⟨hy, hq⟩ := hm
  rcases processMsg_some c mk s s' src m env outs effs h with h1 | h1 | h1
  · rw [hcl] at h1; exact absurd h1.1 (by simp)
  · obtain ⟨_, _, hhq⟩ := h1
    obtain ⟨tbl', out, _, h2 | h2⟩ := handleQuery_some c mk s s' src m env outs effs hhq
    · obtain ⟨h3 | h3, _⟩ := h2
      · rcases hhook with hh | hh <;> simp [hh] at h3
      · rw [hpass] at h3; exact absurd h3 (by simp)
    · obtain ⟨_, _, ho, he, rfl⟩ := h2
      have hd := dispatch_announce c mk (s.withTable tbl') src m env a hq ha htok
      rw [hd] at ho he
      simp only [hps, if_true] at he
      subst ho
      refine ⟨?_, rfl⟩
      rw [he]
      exact mem_applyEffects_snoc _ _ _
  · exact absurd hy h1.2.1

/-- After it, `get_peers` for that infohash offers that endpoint to the
family filter, until a later announce from the same IP bytes replaces it:
any later announce for the same infohash from *other* IP bytes, and any
other message, leaves the entry in place. -/
theorem C11.entry_persists (c : SrvCfg) (mk : TokenFn) (s s' : Srv) (src : NAddr) (m : QMsg)
    (env : Env) (outs : List Out) (effs : List Effect) (e : PeerEntry) (he : e ∈ s.peers)
    (hother : ∀ a, m.a = some a → ¬ (isAnnounce m ∧ a.infoHash = e.ih ∧ src.ip = e.ip))
    (h : processMsg c mk s src m env = some (s', outs, effs)) : e ∈ s'.peers := by
  obtain ⟨hp, hadd⟩ := processMsg_peers c mk s s' src m env outs effs h
  rw [hp]
  apply mem_applyEffects_of_mem _ _ _ he
  rintro e' he' ⟨h1, h2⟩
  obtain ⟨hy, hq, a, ha, _, _, rfl⟩ := hadd e' he'
  exact hother a ha ⟨⟨hy, hq⟩, h1, h2⟩

/-- Generalisation of `never_unannounced` to an arbitrary start state: every
entry of the final state was in the start state or stems from an accepted
announce in the history. -/
theorem C11.run_peers (c : SrvCfg) (mk : TokenFn)
    (hist : List (NAddr × QMsg × Env)) (s0 s : Srv)
    (hrun : hist.foldlM (fun (st : Srv) (ev : NAddr × QMsg × Env) =>
      (processMsg c mk st ev.1 ev.2.1 ev.2.2).map (·.1)) s0 = some s)
    (e : PeerEntry) (he : e ∈ s.peers) :
    e ∈ s0.peers ∨
    ∃ ev ∈ hist, ∃ a, ev.2.1.a = some a ∧ isAnnounce ev.2.1 ∧ e = ⟨a.infoHash, ev.1.ip, announcedPort ev.1 a⟩ := by
  induction hist generalizing s0 with
  | nil =>
    simp only [List.foldlM_nil, pure, Option.some.injEq] at hrun
    subst hrun; exact Or.inl he
  | cons ev l ih =>
    rw [List.foldlM_cons] at hrun
    simp only [bind, Option.bind_eq_some_iff, Option.map_eq_some_iff] at hrun
    obtain ⟨s1, ⟨⟨s1', outs, effs⟩, hstep, rfl⟩, hrest⟩ := hrun
    rcases ih s1' hrest with h1 | ⟨ev', hev', hx⟩
    · obtain ⟨hp, hadd⟩ := processMsg_peers c mk s0 s1' ev.1 ev.2.1 ev.2.2 outs effs hstep
      rw [hp] at h1
      rcases mem_applyEffects _ _ _ h1 with h2 | h2
      · exact Or.inl h2
      · obtain ⟨hy, hq, a, ha, _, _, hee⟩ := hadd e h2
        exact Or.inr ⟨ev, by simp, a, ha, ⟨hy, hq⟩, hee⟩
    · exact Or.inr ⟨ev', List.mem_cons_of_mem _ hev', hx⟩

/-- The store never holds an endpoint that was not announced: every entry of
every reachable state stems from an accepted announce in the history with that
infohash, source IP and announced port. -/
theorem C11.never_unannounced (c : SrvCfg) (mk : TokenFn)
    (hist : List (NAddr × QMsg × Env)) (s : Srv)
    (hrun : hist.foldlM (fun (st : Srv) (ev : NAddr × QMsg × Env) =>
      (processMsg c mk st ev.1 ev.2.1 ev.2.2).map (·.1)) ({} : Srv) = some s)
    (e : PeerEntry) (he : e ∈ s.peers) :
    ∃ ev ∈ hist, ∃ a, ev.2.1.a = some a ∧ isAnnounce ev.2.1 ∧ e = ⟨a.infoHash, ev.1.ip, announcedPort ev.1 a⟩ := by
  rcases C11.run_peers c mk hist {} s hrun e he with h1 | h1
  · simp at h1
  · exact h1

/-- What `get_peers` returns in `values` are stored endpoints for that
infohash (possibly with the IP converted between the 4- and 16-byte forms),
6-byte entries only to requesters wanting IPv4 and 18-byte entries only to
those wanting IPv6; and with a peer store every get_peers reply carries a token. -/
theorem C11.values_honour_bep32 (c : SrvCfg) (mk : TokenFn) (s : Srv) (src : NAddr) (m : QMsg) (a : QArgs) (env : Env)
    (hq : m.q = str "get_peers") (ha : m.a = some a) (hps : c.hasPeerStore = true)
    (o : Out) (r : Ret) (ho : o ∈ (dispatch c mk s src m env).1) (hr : o.kind = .reply r) :
    r.token.isSome = true ∧
    ∀ v ∈ r.values,
      (∃ e ∈ s.peers, e.ih = a.infoHash ∧ e.port = v.2 ∧ (v.1 = e.ip ∨ to4 e.ip = some v.1 ∨ to16 e.ip = some v.1)) ∧
      ((v.1.length = 4 ∧ shouldReturnNodes a.want src.ip = true) ∨
       (v.1.length = 16 ∧ shouldReturnNodes6 a.want src.ip = true)) := by
  obtain ⟨r', hd, hv, ht⟩ := dispatch_get_peers c mk s src m env a hq ha hps
  rw [hd] at ho
  simp only [List.mem_singleton] at ho
  subst ho
  simp only [mkReply, OutKind.reply.injEq] at hr
  subst hr
  refine ⟨by simp [ht], ?_⟩
  intro v hvm
  rw [hv] at hvm
  obtain ⟨ip, hmem, hform, hfam⟩ := mem_filterPeers _ _ _ v hvm
  obtain ⟨e, hes, hih, hip, hport⟩ := mem_peersFor s a.infoHash ip v.2 hmem
  subst hip
  exact ⟨⟨e, hes, hih, hport, hform⟩, hfam⟩

/-- An explicit want list overrides the address family of the query. -/
theorem C11.want_overrides_family (want : List (List UInt8)) (ip : List UInt8) (h : want ≠ []) :
    shouldReturnNodes want ip = wantsContain want "n4" ∧ shouldReturnNodes6 want ip = wantsContain want "n6" := by
  have hl : (want.length != 0) = true := by
    cases want with
    | nil => exact absurd rfl h
    | cons x xs => simp
  simp [shouldReturnNodes, shouldReturnNodes6, hl]

/-! ### Non-vacuity: a concrete announce followed by get_peers on the model -/

namespace C11Ex
def cfg : SrvCfg := { tbl := { root := Id.zero 20 }, hasPeerStore := true }
def tok : TokenFn := fun ip n => ip ++ [n.toUInt8]
def srcA : NAddr := ⟨[10, 0, 0, 1], 6881⟩
def srcB : NAddr := ⟨[10, 0, 0, 2], 6882⟩
def srcC : NAddr := ⟨[0x20, 1, 0xd, 0xb8, 0, 0, 0, 0, 0, 0, 0, 0, 0, 0, 0, 1], 6883⟩
def ih : Id := List.replicate 20 7
def annArgs : QArgs :=
  { id := List.replicate 20 1, infoHash := ih, token := tok (ip16Of srcA.ip) 0, port := some 51413 }
def ann : QMsg := { y := str "q", q := str "announce_peer", t := [1], a := some annArgs }
def gp (id : UInt8) (want : List (List UInt8)) : QMsg :=
  { y := str "q", q := str "get_peers", t := [2], a := some { id := List.replicate 20 id, infoHash := ih, want := want } }
/-- The `values` of the replies to `m` from `src` after the announce. -/
def valuesAfterAnnounce (src : NAddr) (m : QMsg) : Option (List (List (List UInt8 × Int))) :=
  (processMsg cfg tok {} srcA ann {}).bind (fun r => (processMsg cfg tok r.1 src m {}).map (fun r2 =>
    r2.2.1.filterMap (fun o => match o.kind with | .reply r => some r.values | _ => none)))
def hist : List (NAddr × QMsg × Env) := [(srcA, ann, {}), (srcB, gp 2 [], {})]
end C11Ex

open C11Ex in
/-- The hypotheses of `accepted_announce_stores` are met by a concrete announce
(valid token), and the entry is stored. -/
example : isAnnounce ann ∧ ann.a = some annArgs ∧ validToken cfg tok ({} : Srv).ts.now srcA.ip annArgs.token = true ∧
    (processMsg cfg tok {} srcA ann {}).map (fun r => (r.1.peers, r.2.1.length, r.2.2)) =
      some ([⟨ih, [10, 0, 0, 1], 51413⟩], 1, [.addPeer ⟨ih, [10, 0, 0, 1], 51413⟩]) := by
  refine ⟨⟨rfl, rfl⟩, rfl, ?_, ?_⟩ <;> decide +kernel

open C11Ex in
/-- A wrong token stores nothing and is not answered. -/
example : (processMsg cfg tok {} srcA { ann with a := some { annArgs with token := [1, 2, 3] } } {}).map
    (fun r => (r.1.peers, r.2.1, r.2.2)) = some ([], [], []) := by decide +kernel

open C11Ex in
/-- get_peers from an IPv4 address returns the announced endpoint as a 6-byte entry … -/
example : valuesAfterAnnounce srcB (gp 2 []) = some [[([10, 0, 0, 1], 51413)]] := by decide +kernel

open C11Ex in
/-- … an IPv6 requester asking for `n4` gets the same 6-byte entry, and an IPv4
requester asking for `n6` the 18-byte (v4-mapped) form … -/
example : valuesAfterAnnounce srcC (gp 3 [str "n4"]) = some [[([10, 0, 0, 1], 51413)]] ∧
    valuesAfterAnnounce srcB (gp 3 [str "n6"]) =
      some [[([0, 0, 0, 0, 0, 0, 0, 0, 0, 0, 255, 255, 10, 0, 0, 1], 51413)]] := by decide +kernel

open C11Ex in
/-- … and another infohash gets no values. -/
example : valuesAfterAnnounce srcB { gp 2 [] with a := some { id := List.replicate 20 2, infoHash := List.replicate 20 8 } }
    = some [[]] := by decide +kernel

open C11Ex in
/-- The history of `never_unannounced` is runnable and ends with a non-empty store. -/
example : (hist.foldlM (fun (st : Srv) (ev : NAddr × QMsg × Env) =>
      (processMsg cfg tok st ev.1 ev.2.1 ev.2.2).map (·.1)) ({} : Srv)).map (·.peers) =
    some [⟨ih, [10, 0, 0, 1], 51413⟩] := by decide +kernel

end Dht
