/-
C10 — writes need a fresh token issued to the same IP (token-server level).

`H` (SHA-1) is idealised as injective, as an explicit hypothesis of the
theorems that need it. Times are UnixNano instants.
-/
import DhtVerif.Model.Token
import DhtVerif.Model.Server
import DhtVerif.Lemmas.C10
import DhtVerif.Lemmas.C10Handler
namespace Dht

def minute : Nat := 60 * 1000000000

/-- Source side conditions: with the constants in /repo the honoured window is at
least 10 minutes and the rejection bound at most 15 minutes. -/
theorem C10.window_constants :
    Gen.tokenMaxDelta * Gen.tokenIntervalNs ≥ 10 * minute ∧
    (Gen.tokenMaxDelta + 1) * Gen.tokenIntervalNs ≤ 15 * minute ∧ Gen.tokenIntervalNs > 0 := by
  decide

/-- A token is honoured at every instant from issue up to `maxDelta` whole
intervals later. -/
theorem C10.honoured_at_least (H : List UInt8 → List UInt8) (s : TokenServer) (ip : List UInt8)
    (issued used : Nat) (hI : s.interval > 0) (h1 : issued ≤ used)
    (h2 : used ≤ issued + s.maxDelta * s.interval) :
    s.valid H (s.create H ip issued) ip used = true := by
  rw [valid_eq_true_iff]
  have hle : issued / s.interval ≤ used / s.interval := Nat.div_le_div_right h1
  have hub : used / s.interval ≤ issued / s.interval + s.maxDelta := by
    have := Nat.div_le_div_right (c := s.interval) h2
    rwa [Nat.add_mul_div_right _ _ hI] at this
  refine ⟨used / s.interval - issued / s.interval, Nat.sub_le_iff_le_add'.mpr hub, ?_⟩
  unfold TokenServer.create
  rw [sub_mul_div_interval, Nat.sub_sub_self hle]

/-- … hence for at least 10 minutes with the server's constants. -/
theorem C10.honoured_10_minutes (H : List UInt8 → List UInt8) (secret ip : List UInt8)
    (issued used : Nat) (h1 : issued ≤ used) (h2 : used ≤ issued + 10 * minute) :
    (TokenServer.ofGen secret).valid H ((TokenServer.ofGen secret).create H ip issued) ip used = true := by
  have hc := C10.window_constants
  apply C10.honoured_at_least H (TokenServer.ofGen secret) ip issued used hc.2.2 h1
  show used ≤ issued + Gen.tokenMaxDelta * Gen.tokenIntervalNs
  omega

/-- A token is rejected from `maxDelta + 1` whole intervals after issue on. -/
theorem C10.expires (H : List UInt8 → List UInt8) (hH : Function.Injective H) (s : TokenServer)
    (ip : List UInt8) (issued used : Nat) (hI : s.interval > 0)
    (hu : used / s.interval < 2 ^ 64)
    (h : used ≥ issued + (s.maxDelta + 1) * s.interval) :
    s.valid H (s.create H ip issued) ip used = false := by
  rw [valid_eq_false_iff]
  intro d hd heq
  have hlb : issued / s.interval + (s.maxDelta + 1) ≤ used / s.interval := by
    have := Nat.div_le_div_right (c := s.interval) h
    rwa [Nat.add_mul_div_right _ _ hI] at this
  unfold TokenServer.create at heq
  have h3 := (preimage_inj rfl (hH heq)).2.1
  rw [sub_mul_div_interval] at h3
  have := be64_inj (by omega) (by omega) h3
  omega

/-- … hence never later than 15 minutes after issue with the server's constants. -/
theorem C10.expires_15_minutes (H : List UInt8 → List UInt8) (hH : Function.Injective H)
    (secret ip : List UInt8) (issued used : Nat) (hu : used < 2 ^ 63)
    (h : used ≥ issued + 15 * minute) :
    (TokenServer.ofGen secret).valid H ((TokenServer.ofGen secret).create H ip issued) ip used = false := by
  have hc := C10.window_constants
  apply C10.expires H hH (TokenServer.ofGen secret) ip issued used hc.2.2
  · show used / Gen.tokenIntervalNs < 2 ^ 64
    exact Nat.lt_of_le_of_lt (Nat.div_le_self _ _) (by omega)
  · show used ≥ issued + (Gen.tokenMaxDelta + 1) * Gen.tokenIntervalNs
    omega

/-- A token issued to one IP is rejected for every other IP (16-byte forms). -/
theorem C10.other_ip_rejected (H : List UInt8 → List UInt8) (hH : Function.Injective H) (s : TokenServer)
    (ip ip' : List UInt8) (issued used : Nat) (hl : ip.length = 16) (hl' : ip'.length = 16)
    (hne : ip ≠ ip') :
    s.valid H (s.create H ip issued) ip' used = false := by
  rw [valid_eq_false_iff]
  intro d _ heq
  unfold TokenServer.create at heq
  exact hne (preimage_inj (hl.trans hl'.symm) (hH heq)).1

/-- Validity means exactly: the token is the one this server creates for this
IP in the current interval or one of the `maxDelta` previous ones. Any other
string (altered, truncated, extended, issued under another secret) is rejected. -/
theorem C10.valid_iff (H : List UInt8 → List UInt8) (s : TokenServer) (tok ip : List UInt8) (now : Nat) :
    s.valid H tok ip now = true ↔ ∃ d, d ≤ s.maxDelta ∧ tok = s.create H ip (now - d * s.interval) := by
  exact valid_eq_true_iff H s tok ip now

/-- The token does not depend on the source port (only the 16-byte IP enters),
and an IPv4 address and its v4-mapped form share tokens. -/
theorem C10.v4_mapped_same (ip4 : List UInt8) (h : ip4.length = 4) :
    to16 ([0,0,0,0,0,0,0,0,0,0,0xff,0xff] ++ ip4) = to16 ip4 := by
  simp [to16, h]

/-- A server with a different secret does not accept the token. -/
theorem C10.other_secret_rejected (H : List UInt8 → List UInt8) (hH : Function.Injective H)
    (s s' : TokenServer) (ip : List UInt8) (issued used : Nat)
    (hp : s.interval = s'.interval ∧ s.maxDelta = s'.maxDelta) (hne : s.secret ≠ s'.secret)
    (hl : s.secret.length = s'.secret.length) :
    s'.valid H (s.create H ip issued) ip used = false := by
  have _ := hp
  have _ := hl
  rw [valid_eq_false_iff]
  intro d _ heq
  unfold TokenServer.create at heq
  exact hne (preimage_inj rfl (hH heq)).2.2

/-- Sharp form (added): with injective `H`, a token created at `issued` is valid at a later
`used` exactly when at most `maxDelta` interval boundaries have been crossed. -/
theorem C10.valid_created_iff (H : List UInt8 → List UInt8) (hH : Function.Injective H) (s : TokenServer)
    (ip : List UInt8) (issued used : Nat) (hu : used / s.interval < 2 ^ 64) (h1 : issued ≤ used) :
    s.valid H (s.create H ip issued) ip used = true ↔
      used / s.interval - issued / s.interval ≤ s.maxDelta := by
  have hle : issued / s.interval ≤ used / s.interval := Nat.div_le_div_right h1
  rw [valid_eq_true_iff]
  constructor
  · rintro ⟨d, hd, heq⟩
    unfold TokenServer.create at heq
    have h3 := (preimage_inj rfl (hH heq)).2.1
    rw [sub_mul_div_interval] at h3
    have := be64_inj (by omega) (by omega) h3
    omega
  · intro hd
    refine ⟨used / s.interval - issued / s.interval, hd, ?_⟩
    unfold TokenServer.create
    rw [sub_mul_div_interval, Nat.sub_sub_self hle]

/-! Non-vacuity: a concrete injective `H` (identity) and instants meeting the hypotheses. -/
example : (TokenServer.ofGen [1,2,3]).valid id ((TokenServer.ofGen [1,2,3]).create id [1,2,3,4] 1000000000000) [1,2,3,4]
    (1000000000000 + 10 * minute) = true := by decide
example : (TokenServer.ofGen [1,2,3]).valid id ((TokenServer.ofGen [1,2,3]).create id [1,2,3,4] 1000000000000) [1,2,3,4]
    (1000000000000 + 15 * minute) = false := by decide
example : (TokenServer.ofGen [1,2,3]).valid id
    ((TokenServer.ofGen [1,2,3]).create id [0,0,0,0,0,0,0,0,0,0,0xff,0xff,1,2,3,4] 1000000000000)
    [0,0,0,0,0,0,0,0,0,0,0xff,0xff,1,2,3,5] 1000000000000 = false := by decide
example : (TokenServer.ofGen [1,2,4]).valid id ((TokenServer.ofGen [1,2,3]).create id [1,2,3,4] 1000000000000)
    [1,2,3,4] 1000000000000 = false := by decide
example : to16 [0,0,0,0,0,0,0,0,0,0,0xff,0xff,1,2,3,4] = to16 [1,2,3,4] := by decide
example : Function.Injective (id : List UInt8 → List UInt8) := fun _ _ h => h

end Dht

/-! ## Handler level (server model): the write handlers consult the token first -/

namespace Dht

/-- announce_peer and put with a token that is not valid for the source IP
now produce no datagram, no store update, no callback, and change nothing but
the sender's routing-table entry. -/
theorem C10.invalid_token_silent_and_pure (c : SrvCfg) (mk : TokenFn) (s s' : Srv) (src : NAddr) (m : QMsg) (a : QArgs)
    (env : Env) (outs : List Out) (effs : List Effect)
    (hy : m.y = str "q") (hq : m.q = str "announce_peer" ∨ m.q = str "put") (ha : m.a = some a)
    (hbad : validToken c mk s.ts.now src.ip a.token = false)
    (h : processMsg c mk s src m env = some (s', outs, effs)) :
    outs = [] ∧ effs = [] ∧ s'.peers = s.peers ∧ s'.txns = s.txns ∧ s'.closed = s.closed := by
  by_cases hcl : s.closed = true
  · rw [processMsg_closed hcl] at h
    simp only [Option.some.injEq, Prod.mk.injEq] at h
    obtain ⟨h1, h2, h3⟩ := h
    subst h1 h2 h3
    exact ⟨rfl, rfl, rfl, rfl, rfl⟩
  · rw [processMsg_query (by simpa using hcl) hy] at h
    obtain ⟨tbl', h | h⟩ := handleQuery_eq_some h
    · obtain ⟨_, h1, h2, h3⟩ := h
      subst h1 h2 h3
      exact ⟨rfl, rfl, rfl, rfl, rfl⟩
    · obtain ⟨_, h1, h2, h3⟩ := h
      have key := dispatch_invalid_token c mk { s with ts := { s.ts with table := tbl' } } src m a env hq ha hbad
      rw [key] at h1 h2 h3
      subst h1 h2 h3
      exact ⟨rfl, rfl, rfl, rfl, rfl⟩

/-- With a valid token they take effect: the announce is stored / the callback
fires, the put reaches the store, and a reply is sent. -/
theorem C10.valid_token_takes_effect (c : SrvCfg) (mk : TokenFn) (s s' : Srv) (src : NAddr) (m : QMsg) (a : QArgs)
    (env : Env) (outs : List Out) (effs : List Effect)
    (hy : m.y = str "q") (ha : m.a = some a) (hpass : c.passive = false)
    (hhook : c.hasHook = false ∨ env.hookPropagate = true) (hcl : s.closed = false)
    (hok : validToken c mk s.ts.now src.ip a.token = true)
    (h : processMsg c mk s src m env = some (s', outs, effs)) :
    (m.q = str "announce_peer" → outs.length = 1 ∧
      (c.hasPeerStore = true → ∃ e, Effect.addPeer e ∈ effs) ∧ (c.hasCallback = true → ∃ p ok, Effect.announceCb a.infoHash src.ip p ok ∈ effs)) ∧
    (m.q = str "put" → a.seq.isSome = true → env.putErr = none → Effect.storePut ∈ effs ∧ outs.length = 1) := by
  obtain ⟨tbl', _, ho, he⟩ := processMsg_active hy hpass hhook hcl h
  constructor
  · intro hq
    have key := dispatch_announce_valid c mk { s with ts := { s.ts with table := tbl' } } src m a env hq ha hok
    rw [key] at ho he
    subst ho he
    refine ⟨rfl, fun hps => ?_, fun hcb => ?_⟩
    · exact ⟨⟨a.infoHash, src.ip, (announcePort src a).1⟩, by simp [announceEffs, hps]⟩
    · exact ⟨(announcePort src a).1, (announcePort src a).2, by simp [announceEffs, hcb]⟩
  · intro hq hseq hput
    have key := dispatch_put_valid c mk { s with ts := { s.ts with table := tbl' } } src m a env hq ha hseq hput hok
    rw [key] at ho he
    subst ho he
    exact ⟨by simp, rfl⟩

/-- The handler-level validity test is the token server's: it accepts exactly
the tokens `createToken` made for this IP in the current or one of the
`tokMaxDelta` previous intervals. -/
theorem C10.handler_uses_token_server (c : SrvCfg) (H : List UInt8 → List UInt8) (secret ip tok : List UInt8) (now : Nat) :
    let mk : TokenFn := fun ip16 idx => H (ip16 ++ be64 idx ++ secret)
    let ts : TokenServer := ⟨secret, c.tokInterval, c.tokMaxDelta⟩
    validToken c mk now ip tok = ts.valid H tok (ip16Of ip) now ∧
    createToken c mk now ip = ts.create H (ip16Of ip) now := by
  exact ⟨rfl, rfl⟩

/-- T1: both write handlers call `validToken` before anything else in their case. -/
theorem C10.token_checked_first :
    (Gen.evHandleQuery.filter (· == "s.validToken")).length = 2 := by
  decide +kernel

/-! Non-vacuity (handler level): token function `ip16 ++ be64 idx`, clock 0. -/

/-- announce_peer with the token `createToken` issues: one reply, the peer is stored. -/
example : (processMsg { tbl := { root := List.replicate 20 1 }, hasPeerStore := true } (fun ip i => ip ++ be64 i) {} ⟨[1,2,3,4], 5⟩
    { y := str "q", q := str "announce_peer", t := [7],
      a := some { id := List.replicate 20 2, infoHash := List.replicate 20 3, port := some 6881,
                  token := createToken { tbl := { root := [] } } (fun ip i => ip ++ be64 i) 0 [1,2,3,4] } } {}).map
    (fun r => (r.2.1.length, r.2.2, r.1.peers)) =
    some (1, [.addPeer ⟨List.replicate 20 3, [1,2,3,4], 6881⟩], [⟨List.replicate 20 3, [1,2,3,4], 6881⟩]) := by
  decide +kernel
/-- The same with a token issued to another IP: silence, nothing stored. -/
example : (processMsg { tbl := { root := List.replicate 20 1 }, hasPeerStore := true } (fun ip i => ip ++ be64 i) {} ⟨[1,2,3,4], 5⟩
    { y := str "q", q := str "announce_peer", t := [7],
      a := some { id := List.replicate 20 2, infoHash := List.replicate 20 3, port := some 6881,
                  token := createToken { tbl := { root := [] } } (fun ip i => ip ++ be64 i) 0 [1,2,3,5] } } {}).map
    (fun r => (r.2.1.length, r.2.2, r.1.peers)) = some (0, [], []) := by
  decide +kernel
/-- put with a valid token and `seq` reaches the store. -/
example : (processMsg { tbl := { root := List.replicate 20 1 } } (fun ip i => ip ++ be64 i) {} ⟨[1,2,3,4], 5⟩
    { y := str "q", q := str "put", t := [7],
      a := some { id := List.replicate 20 2, seq := some 1,
                  token := createToken { tbl := { root := [] } } (fun ip i => ip ++ be64 i) 0 [1,2,3,4] } } {}).map
    (fun r => (r.2.1.length, r.2.2)) = some (1, [.storePut]) := by
  decide +kernel

end Dht
