/-
`bep44.Wrapper.Put` over a `bep44.Store` whose calls can FAIL, and the `put` case of
`Server.handleQuery` on top of it.

`ServerConfig.Store` is a public extension point (`bep44.Store` is an interface): besides
`ErrItemNotFound`, `Get` and `Put` of a user-supplied store can return any ordinary Go error
(disk full, closed database ...). Model/Bep44.lean models `bep44.Memory`, which never fails; this
file adds the failing store. Nothing in Model/Bep44.lean is changed: the store contents are the
same `Store` (`Target → Option Entry`), `check`, `target`, `checkIncomingWith` are reused.

* `Fault` is the fault oracle for ONE `Wrapper.Put`: `getFails` — the underlying `Store.Get` of
  this operation returns an error that is not `ErrItemNotFound` (and no item); `putFails` — the
  underlying `Store.Put` of this operation returns an error and has stored nothing. A flag whose
  call is never reached (the `Check` fails, the `Get` fails, `CheckIncoming` rejects) has no effect.
  A failing call writes nothing: that is the contract of the harness's fault store
  (harness/b44common.go `parkStore.Get/Put` return the error BEFORE touching the inner
  store) and what "the call failed" means for a store with atomic calls.
* /repo/bep44/store.go `Wrapper.Put`, line by line:
      if err := Check(i); err != nil { return err }                    -- krpc.Error
      is, err := w.s.Get(i.Target())
      if errors.Is(err, ErrItemNotFound) { stamp; return w.s.Put(i) }
      if err != nil { return err }                                     -- BEFORE CheckIncoming
      if err := CheckIncoming(is, i); err != nil { return err }        -- krpc.Error
      stamp; return w.s.Put(i)
  `swallowGetErr` is the VARIANT that treats every failing `Get` like "not found" (`if err != nil
  { stamp; return w.s.Put(i) }`) — kept only for the counterexample; the code is `false`.
* /repo/server.go `case "put"` (after the token test and the `seq` test): a `krpc.Error` from the
  store is sent as it is, any other error is answered `krpc.ErrorMethodUnknown` (code 204), nil is
  answered with a response. The model returns the LIST of datagrams the handler sends.
-/
import DhtVerif.Model.Bep44
namespace Dht.B44

/-- The fault oracle of one `Wrapper.Put`. -/
structure Fault where
  getFails : Bool := false
  putFails : Bool := false
deriving DecidableEq, Repr

def Fault.none : Fault := {}

/-- What `Wrapper.Put` returns: nil, a `krpc.Error` (from `Check` / `CheckIncoming`), or the
ordinary error of the underlying store. -/
inductive PutOutcome where
  | ok
  | krpcErr (code : Nat)
  | storeErr
deriving DecidableEq, Repr

/-- The outcome of the never-failing `Wrapper.put` of Model/Bep44 (`none` = nil error, `some c` =
`krpc.Error{Code: c}`) in the vocabulary of this file. -/
def PutOutcome.ofErr : Option Nat → PutOutcome
  | none => .ok
  | some c => .krpcErr c

/-- The underlying `Store.Put(i)` of this operation (after `i.created = time.Now()`): a failing
call stores nothing. -/
def storePutF (P : Params) (f : Fault) (now : Nat) (s : Store) (i : Item) : PutOutcome × Store :=
  if f.putFails then (.storeErr, s) else (.ok, s.set (target P i) ⟨i, now⟩)

/-- store.go `Wrapper.Put` over a store that can fail. `swallowGetErr = false` is the code. -/
def wrapperPutFWith (swallowGetErr : Bool) (P : Params) (f : Fault) (now : Nat) (s : Store) (i : Item) :
    PutOutcome × Store :=
  match check P i with
  | some e => (.krpcErr e, s)
  | none =>
    if f.getFails then
      -- `Get` returned (nil, err), err is not ErrItemNotFound
      if swallowGetErr then storePutF P f now s i else (.storeErr, s)
    else
      match s (target P i) with
      | none => storePutF P f now s i
      | some st =>
        match checkIncomingWith P.casSpec st.item i with
        | some e => (.krpcErr e, s)
        | none => storePutF P f now s i

/-- store.go `Wrapper.Put` as it is in /repo. -/
def wrapperPutF (P : Params) (f : Fault) (now : Nat) (s : Store) (i : Item) : PutOutcome × Store :=
  wrapperPutFWith false P f now s i

/-- A datagram the put handler sends back. -/
inductive PutAnswer where
  | response               -- `s.reply(source, m.T, krpc.Return{ID: s.ID()})`
  | error (code : Nat)     -- `s.sendError(source, m.T, krpc.Error{Code: code, ..})`
deriving DecidableEq, Repr

/-- server.go `case "put"`, the tail after `s.store.Put(i)`: what is sent for each outcome.
An error that is not a `krpc.Error` is answered `krpc.ErrorMethodUnknown`. -/
def answersOf : PutOutcome → List PutAnswer
  | .ok => [.response]
  | .krpcErr c => [.error c]
  | .storeErr => [.error Gen.errorCodeMethodUnknown]

/-- server.go `case "put"` after the token test: the datagrams sent, and the store afterwards.
A missing `seq` is answered 203 before the store is touched (as in `handlePut`). -/
def handlePutFWith (swallowGetErr : Bool) (P : Params) (f : Fault) (now : Nat) (s : Store) (bv : Bytes) (k : Bytes)
    (salt sig : Bytes) (cas : Int) (seq : Option Int) : List PutAnswer × Store :=
  match seq with
  | none => ([.error Gen.errorCodeProtocolError], s)
  | some q =>
    let r := wrapperPutFWith swallowGetErr P f now s ⟨bv, keyOfWire k, salt, sig, cas, q⟩
    (answersOf r.1, r.2)

def handlePutF (P : Params) (f : Fault) (now : Nat) (s : Store) (bv : Bytes) (k : Bytes)
    (salt sig : Bytes) (cas : Int) (seq : Option Int) : List PutAnswer × Store :=
  handlePutFWith false P f now s bv k salt sig cas seq

/-! ## Histories of puts against a failing store -/

/-- One put of a history: the fault pattern of its store calls, the clock reading that stamps
it (arbitrary: the readings of a history need not even be monotone), the item. -/
structure PutEv where
  f    : Fault
  now  : Nat
  item : Item
deriving DecidableEq, Repr

def stepF (P : Params) (s : Store) (e : PutEv) : Store := (wrapperPutF P e.f e.now s e.item).2

/-- The store after a history of puts. -/
def runF (P : Params) (s : Store) (evs : List PutEv) : Store := evs.foldl (stepF P) s

def stepFWith (swallowGetErr : Bool) (P : Params) (s : Store) (e : PutEv) : Store :=
  (wrapperPutFWith swallowGetErr P e.f e.now s e.item).2

def runFWith (swallowGetErr : Bool) (P : Params) (s : Store) (evs : List PutEv) : Store :=
  evs.foldl (stepFWith swallowGetErr P) s

end Dht.B44
