/-
Model of /repo/containers/addr-maybe-ids-by-distance.go (persistent sorted set
ordered by `CloserThan`) and /repo/k-nearest-nodes/k-nearest-nodes.go.go.

`immutable.SortedMap` is assumed to be a sorted map for the comparator it is
given (trusted base); both containers are modelled as sorted lists.
-/
import DhtVerif.Model.Order
namespace Dht

/-! ### Sorted set of candidates (`sortedSet`) -/

/-- `Add`: `SortedMap.Set` under `closerThanTarget.Compare`; an element that
compares equal replaces the one present. -/
def SSet.add (target : Id) : List Cand → Cand → List Cand
  | [], c => [c]
  | x :: xs, c =>
    match candCompare target c x with
    | .lt => c :: x :: xs
    | .eq => c :: xs
    | .gt => x :: SSet.add target xs c

/-- `Delete`. -/
def SSet.delete (target : Id) : List Cand → Cand → List Cand
  | [], _ => []
  | x :: xs, c =>
    match candCompare target c x with
    | .eq => xs
    | _ => x :: SSet.delete target xs c

/-- `Next` (the Go code panics on an empty set: `none`). -/
def SSet.next : List Cand → Option Cand := List.head?

/-! ### K nearest (`k_nearest_nodes.Type`) -/

/-- `Elem`: key = ID and address, data = the token the node supplied (or none). -/
structure KElem where
  id   : Id
  addr : Addr
  data : Option (List UInt8)
deriving DecidableEq, Repr, Inhabited

def KElem.sameKey (a b : KElem) : Bool := a.id == b.id && a.addr.strKey == b.addr.strKey

def KElem.dist (target : Id) (e : KElem) : Nat := (Id.distance e.id target).toNat

/-- Upsert by key: what `SortedMap.Set` does to membership, ignoring order. -/
def KNN.upsert (xs : List KElem) (e : KElem) : List KElem :=
  if xs.any (·.sameKey e) then xs.map (fun x => if x.sameKey e then e else x) else xs ++ [e]

/-- Is the list ordered by non-decreasing distance to the target? -/
def KNN.sortedBy (target : Id) : List KElem → Bool
  | [] => true
  | [_] => true
  | a :: b :: rest => decide (a.dist target ≤ b.dist target) && KNN.sortedBy target (b :: rest)

/-- Do two lists hold the same elements, each once (as sets of pairwise
different keys)? -/
def KNN.subsetOf (xs ys : List KElem) : Bool := xs.all (fun x => ys.contains x)

def KNN.nodupKeys : List KElem → Bool
  | [] => true
  | x :: xs => !(xs.any (·.sameKey x)) && KNN.nodupKeys xs

/--
The relation `Push` must satisfy. The Go comparator breaks distance ties with
a hash under a per-container random seed, so which of several equally distant
elements survives a trim is not determined; everything else is:

* the result is ordered by distance and has no two elements with one key;
* it is drawn from the old contents with `e` upserted;
* its size is `min k (size of that)`;
* every element dropped is at least as far as every element kept.
-/
def KNN.pushAllowed (target : Id) (k : Nat) (old : List KElem) (e : KElem) (new : List KElem) : Bool :=
  let cand := KNN.upsert old e
  KNN.sortedBy target new && KNN.nodupKeys new && KNN.subsetOf new cand &&
  new.length == min k cand.length &&
  cand.all (fun c => new.contains c || new.all (fun m => decide (m.dist target ≤ c.dist target)))

/-- A deterministic instance (ties broken by the address order): insert in
distance order, keep the first `k`. Used by the traversal model. -/
def KNN.insertSorted (target : Id) : List KElem → KElem → List KElem
  | [], e => [e]
  | x :: xs, e =>
    if x.sameKey e then e :: xs
    else if e.dist target < x.dist target ||
        (e.dist target == x.dist target && e.addr.cmp x.addr == .lt) then
      e :: (x :: xs).filter (fun y => !y.sameKey e)
    else x :: KNN.insertSorted target xs e

def KNN.push (target : Id) (k : Nat) (xs : List KElem) (e : KElem) : List KElem :=
  (KNN.insertSorted target xs e).take k

/-- `Farthest` (panics when empty: `none`). -/
def KNN.farthest (xs : List KElem) : Option KElem := xs.getLast?

/-- `Full`. -/
def KNN.full (k : Nat) (xs : List KElem) : Bool := decide (xs.length ≥ k)

end Dht
