/-
Model of /repo/int160/int160.go, table.go (bucketIndex), misc.go (randomIdInBucket).

An ID is the byte array `bits [20]uint8`, modelled as `List UInt8`; the length-20
condition is carried as a hypothesis of the theorems (the driver rejects
other lengths). Every function below transcribes the Go function of the same
name; `bitLen` is the numeric bit length that `big.Int.BitLen` computes.
-/
namespace Dht

abbrev Id := List UInt8

namespace Id

/-- `(*T).Xor`: byte-wise xor. -/
def xor (a b : Id) : Id := List.zipWith (· ^^^ ·) a b

/-- `T.Cmp`: first differing byte decides. -/
def cmp : Id → Id → Ordering
  | [], [] => .eq
  | [], _ :: _ => .lt
  | _ :: _, [] => .gt
  | x :: xs, y :: ys =>
    if x < y then .lt else if x > y then .gt else cmp xs ys

/-- Big-endian numeric value (what `big.Int.SetBytes` computes). -/
def toNat : Id → Nat
  | [] => 0
  | x :: xs => x.toNat * 256 ^ xs.length + toNat xs

/-- `(*T).IsZero`. -/
def isZero (a : Id) : Bool := a.all (· == 0)

/-- Numeric bit length: `big.Int.BitLen` of the big-endian value. -/
def bitLen (a : Id) : Nat :=
  let n := toNat a
  if n = 0 then 0 else n.log2 + 1

/-- `(*T).GetBit`: `bits[index/8]>>(7-index%8)&1 == 1`. -/
def getBit (a : Id) (i : Nat) : Bool :=
  ((a.getD (i / 8) 0) >>> (7 - (i % 8)).toUInt8) &&& 1 == 1

/-- `(*T).SetBit`. -/
def setBit (a : Id) (i : Nat) (v : Bool) : Id :=
  let orVal : UInt8 := if v then (1 : UInt8) <<< (7 - (i % 8)).toUInt8 else 0
  let mask : UInt8 := ~~~ ((1 : UInt8) <<< (7 - (i % 8)).toUInt8)
  a.set (i / 8) (((a.getD (i / 8) 0) &&& mask) ||| orVal)

/-- `Distance(a, b)`. -/
def distance (a b : Id) : Id := xor a b

def zero (n : Nat) : Id := List.replicate n 0
def max (n : Nat) : Id := List.replicate n 255

end Id

/-- `table.bucketIndex` (the Go code panics when `id = root`; that case is the
explicit `none`). -/
def bucketIndex (root id : Id) : Option Nat :=
  if id = root then none else some (160 - (Id.xor root id).bitLen)

/-- `randomIdInBucket` with the random draw made explicit (`rnd`). -/
def randomIdInBucket (rnd root : Id) (bucket : Nat) : Id :=
  let id := (List.range bucket).foldl (fun id i => id.setBit i (root.getBit i)) rnd
  id.setBit bucket (!root.getBit bucket)

end Dht
