/-
Model of /repo/bep44 (item.go, key.go, target.go, store.go, memory.go, put.go) and of the
`put` / `get` cases of `Server.handleQuery` and of `Server.Put` in /repo/server.go.

* A value `V` is treated through its bencoding `bv` (what `bencode.Marshal(i.V)` yields).
* `k : Option Key` — `none` is the immutable item. Go uses the all-zero `[32]byte` for
  "immutable" (`Item.IsMutable`); `keyOfWire` is that mapping.
* ed25519 verification and SHA-1 are PARAMETERS (`Params.verify`, `Params.H`).
* The store is abstract: `Target → Option Entry` (what `bep44.Memory` holds: the item and the
  instant `created` that `Wrapper.Put` stamps on it). A store whose calls fail with an error
  other than `ErrItemNotFound` is not modelled (`bep44.Memory` never fails).
* The clock is explicit (`now : Nat`, nanoseconds); `time.Now()` carries a monotonic reading,
  `Local()`, `Add` and `After` keep and use it.
* Concurrency: `Sys`, `Sys.step` — a micro-step machine at the granularity of the underlying
  store's Get/Put/Del calls, with the parameter `lock` = "Wrapper.Put/Get hold one mutex from
  before their first store call until after their last".
-/
import DhtVerif.Gen.Facts
namespace Dht.B44

abbrev Bytes := List UInt8
abbrev Target := Bytes
abbrev Key := Bytes

/-- `bep44.Item` (without `created`, which lives in the store entry). -/
structure Item where
  bv   : Bytes          -- bencode.Marshal(V)
  k    : Option Key     -- none = immutable
  salt : Bytes
  sig  : Bytes
  cas  : Int
  seq  : Int
deriving DecidableEq, Repr

/-- The cryptographic parameters and which CAS rule `CheckIncoming` applies. -/
structure Params where
  H       : Bytes → Target
  verify  : Key → Bytes → Bytes → Bool      -- ed25519.Verify(key, message, sig)
  casSpec : Bool                            -- true: compare incoming cas with the stored SEQ

/-- Which rule the code under test implements. `false` = the literal transcription of
/repo/bep44/item.go `CheckIncoming` (compares `stored.Cas` with `incoming.Cas`); flip to `true`
when the comparison is repaired to use the stored sequence number. Independent of `Gen`. -/
def casRuleComparesStoredSeq : Bool := true

/-- Go: `Item.IsMutable` is `K != Empty32ByteArray`. -/
def keyOfWire (k : Bytes) : Option Key := if k.all (· == 0) then none else some k

def Item.isMutable (i : Item) : Bool := i.k.isSome

/-! ## bufferToSign, Check, Target -/

def ascii (s : String) : Bytes := s.toList.map (fun c => c.toNat.toUInt8)

def natDec (n : Nat) : Bytes := (Nat.toDigits 10 n).map (fun c => c.toNat.toUInt8)

/-- `fmt.Sprintf("%d", seq)`. -/
def intDec (z : Int) : Bytes := if z < 0 then ascii "-" ++ natDec z.natAbs else natDec z.natAbs

/-- `bencode.MustMarshal(salt)` for a byte string. -/
def bencStr (b : Bytes) : Bytes := natDec b.length ++ ascii ":" ++ b

/-- item.go `bufferToSign(salt, bv, seq)`. -/
def bufferToSign (salt : Bytes) (seq : Int) (bv : Bytes) : Bytes :=
  (if salt.length != 0 then ascii "4:salt" ++ bencStr salt else []) ++
  (ascii "3:seqi" ++ intDec seq ++ ascii "e1:v") ++ bv

/-- item.go `Check`: `none` = nil error, `some c` = `krpc.Error{Code: c}`. Order of the tests
as in Go: value size, (immutable: done), salt size, signature. -/
def check (P : Params) (i : Item) : Option Nat :=
  if i.bv.length > Gen.bep44MaxV then some Gen.bep44ErrValueFieldTooBig
  else match i.k with
    | none => none
    | some k =>
      if i.salt.length > Gen.bep44MaxSalt then some Gen.bep44ErrSaltFieldTooBig
      else if !P.verify k (bufferToSign i.salt i.seq i.bv) i.sig then some Gen.bep44ErrInvalidSignature
      else none

/-- item.go `Item.Target`. -/
def target (P : Params) (i : Item) : Target :=
  match i.k with
  | some k => P.H (k ++ i.salt)
  | none => P.H i.bv

/-! ## CheckIncoming: the rule in the code, and the rule the property states -/

/-- item.go `CheckIncoming`, transcribed literally (it compares `stored.Cas`). -/
def checkIncomingLit (stored incoming : Item) : Option Nat :=
  if stored.seq = incoming.seq ∧ stored.bv = incoming.bv then none
  else if stored.seq ≥ incoming.seq then some Gen.bep44ErrSequenceNumberLessThanCurrent
  else if stored.cas = 0 then none
  else if stored.cas ≠ incoming.cas then some Gen.bep44ErrCasHashMismatched
  else none

/-- The rule of the property (and of BEP 44): a CAS value carried by the put (non-zero: the
wire format `cas,omitempty` cannot tell absent from 0) must equal the stored sequence number. -/
def checkIncomingSpec (stored incoming : Item) : Option Nat :=
  if stored.seq = incoming.seq ∧ stored.bv = incoming.bv then none
  else if stored.seq ≥ incoming.seq then some Gen.bep44ErrSequenceNumberLessThanCurrent
  else if incoming.cas = 0 then none
  else if stored.seq ≠ incoming.cas then some Gen.bep44ErrCasHashMismatched
  else none

def checkIncomingWith (spec : Bool) (stored incoming : Item) : Option Nat :=
  if spec then checkIncomingSpec stored incoming else checkIncomingLit stored incoming

/-- The rule the code implements (selected by `casRuleComparesStoredSeq`). -/
def checkIncoming (stored incoming : Item) : Option Nat :=
  checkIncomingWith casRuleComparesStoredSeq stored incoming

/-! ## Store and Wrapper -/

/-- What `Memory.m` holds per target. -/
structure Entry where
  item    : Item
  created : Nat
deriving DecidableEq, Repr

abbrev Store := Target → Option Entry

def Store.empty : Store := fun _ => none
def Store.set (s : Store) (t : Target) (e : Entry) : Store := fun t' => if t' = t then some e else s t'
def Store.del (s : Store) (t : Target) : Store := fun t' => if t' = t then none else s t'

/-- store.go `Wrapper.Put` over `Memory` (which files the item under `i.Target()`). -/
def Wrapper.put (P : Params) (now : Nat) (s : Store) (i : Item) : Store × Option Nat :=
  match check P i with
  | some e => (s, some e)
  | none =>
    match s (target P i) with
    | none => (s.set (target P i) ⟨i, now⟩, none)
    | some st =>
      match checkIncomingWith P.casSpec st.item i with
      | some e => (s, some e)
      | none => (s.set (target P i) ⟨i, now⟩, none)

/-- `i.created.Add(w.exp).After(time.Now())`. -/
def Entry.fresh (exp now : Nat) (e : Entry) : Bool := decide (e.created + exp > now)

/-- store.go `Wrapper.Get`: `none` = `ErrItemNotFound`. -/
def Wrapper.get (exp now : Nat) (s : Store) (t : Target) : Store × Option Item :=
  match s t with
  | none => (s, none)
  | some e => if e.fresh exp now then (s, some e.item) else (s.del t, none)

/-! ## server.go: inbound `put` / `get` (after the token test, which is C10's), `Server.Put` -/

/-- `case "put"`: a missing `seq` is answered 203 before the store is touched. -/
def handlePut (P : Params) (now : Nat) (s : Store) (bv : Bytes) (k : Bytes) (salt sig : Bytes) (cas : Int)
    (seq : Option Int) : Store × Option Nat :=
  match seq with
  | none => (s, some Gen.errorCodeProtocolError)
  | some q => Wrapper.put P now s ⟨bv, keyOfWire k, salt, sig, cas, q⟩

inductive GetReply where
  | notFound                       -- token (and nodes) only
  | seqOnly (seq : Int)            -- `seq` but no `v`: the asker already has this version
  | full (i : Item)                -- seq, v, k, sig
deriving DecidableEq, Repr

/-- `case "get"`. -/
def handleGet (exp now : Nat) (s : Store) (t : Target) (askSeq : Option Int) : Store × GetReply :=
  match Wrapper.get exp now s t with
  | (s', none) => (s', .notFound)
  | (s', some i) =>
    match askSeq with
    | some a => if i.seq ≤ a then (s', .seqOnly i.seq) else (s', .full i)
    | none => (s', .full i)

/-! ## Sequential histories -/

inductive Ev where
  | put (i : Item)
  | get (t : Target) (askSeq : Option Int)
  | advance (d : Nat)

structure St where
  store : Store
  now   : Nat

def St.step (P : Params) (exp : Nat) (s : St) : Ev → St
  | .put i => ⟨(Wrapper.put P s.now s.store i).1, s.now⟩
  | .get t a => ⟨(handleGet exp s.now s.store t a).1, s.now⟩
  | .advance d => ⟨s.store, s.now + d⟩

def St.run (P : Params) (exp : Nat) (s : St) (evs : List Ev) : St := evs.foldl (St.step P exp) s

/-! ## Micro-step model of concurrent Wrapper.Put / Wrapper.Get on one store -/

inductive Op where
  | put (i : Item)
  | get (t : Target)
deriving DecidableEq, Repr

inductive Res where
  | ok | err (code : Nat) | notFound | item (i : Item)
deriving DecidableEq, Repr

/-- Where a thread stands between store calls. -/
inductive TState where
  | init (op : Op)                      -- next store call: `Get`
  | putReady (i : Item)                 -- `Get` done, `CheckIncoming` passed; next: `Put`
  | delReady (t : Target) (nowGet : Nat)  -- `Get` returned an expired item at `nowGet`; next: `Del`
  | done (r : Res)
deriving DecidableEq, Repr

/-- Thread start: `Check` runs before any store call; a failing `Check` ends the thread. -/
def TState.start (P : Params) : Op → TState
  | .put i => match check P i with
    | some e => .done (.err e)
    | none => .init (.put i)
  | .get t => .init (.get t)

/-- A committed operation: what was done and the clock reading that decided it. -/
structure Commit where
  tid : Nat
  op  : Op
  now : Nat
deriving DecidableEq, Repr

structure Sys where
  store   : Store
  threads : Nat → TState
  lock    : Option Nat := none
  log     : List Commit := []    -- history variable: operations in the order they took effect

def setThread (f : Nat → TState) (i : Nat) (x : TState) : Nat → TState := fun j => if j = i then x else f j

/-- The store call a thread performs next. -/
inductive Call where
  | get | put | del
deriving DecidableEq, Repr

def TState.next : TState → Option Call
  | .init _ => some .get
  | .putReady _ => some .put
  | .delReady _ _ => some .del
  | .done _ => none

/-- One store call of thread `tid` at clock `now`. `none`: the step is not enabled (thread
finished, or — with `lock` — another thread is inside Put/Get). With `lock`, a thread takes
the mutex with its first store call and gives it back when it finishes. -/
def Sys.step (P : Params) (exp : Nat) (lock : Bool) (y : Sys) (tid now : Nat) : Option Sys :=
  match y.threads tid with
  | .done _ => none
  | .init (.put i) =>
    if lock && y.lock.isSome then none else
    match y.store (target P i) with
    | none => some { y with threads := setThread y.threads tid (.putReady i), lock := if lock then some tid else none }
    | some st =>
      match checkIncomingWith P.casSpec st.item i with
      | some e => some { y with threads := setThread y.threads tid (.done (.err e)),
                                log := y.log ++ [⟨tid, .put i, now⟩] }
      | none => some { y with threads := setThread y.threads tid (.putReady i), lock := if lock then some tid else none }
  | .init (.get t) =>
    if lock && y.lock.isSome then none else
    match y.store t with
    | none => some { y with threads := setThread y.threads tid (.done .notFound), log := y.log ++ [⟨tid, .get t, now⟩] }
    | some e =>
      if e.fresh exp now then
        some { y with threads := setThread y.threads tid (.done (.item e.item)), log := y.log ++ [⟨tid, .get t, now⟩] }
      else some { y with threads := setThread y.threads tid (.delReady t now), lock := if lock then some tid else none }
  | .putReady i =>
    some { y with store := y.store.set (target P i) ⟨i, now⟩, threads := setThread y.threads tid (.done .ok),
                  lock := none, log := y.log ++ [⟨tid, .put i, now⟩] }
  | .delReady t g =>
    some { y with store := y.store.del t, threads := setThread y.threads tid (.done .notFound),
                  lock := none, log := y.log ++ [⟨tid, .get t, g⟩] }

/-- Run a schedule (thread, clock) …; `none` if some step is not enabled. -/
def Sys.run (P : Params) (exp : Nat) (lock : Bool) : Sys → List (Nat × Nat) → Option Sys
  | y, [] => some y
  | y, (tid, now) :: rest =>
    match y.step P exp lock tid now with
    | none => none
    | some y' => Sys.run P exp lock y' rest

/-- The sequential meaning of a committed operation. -/
def applyCommit (P : Params) (exp : Nat) (s : Store) (c : Commit) : Store :=
  match c.op with
  | .put i => (Wrapper.put P c.now s i).1
  | .get t => (Wrapper.get exp c.now s t).1

def replay (P : Params) (exp : Nat) (s : Store) (log : List Commit) : Store := log.foldl (applyCommit P exp) s

/-- Initial system: the given operations, each past its `Check`. -/
def Sys.init (P : Params) (s : Store) (ops : List Op) : Sys :=
  { store := s, threads := fun j => match ops[j]? with
      | some op => TState.start P op
      | none => .done .ok }

end Dht.B44

namespace Dht.B44

/-- Does the code hold one wrapper mutex across the store calls of both `Wrapper.Put` and
`Wrapper.Get`? Regenerated from /repo/bep44/store.go (T1). -/
def putHoldsLock : Bool := Gen.wrapperPutLocked && Gen.wrapperGetLocked && Gen.wrapperSameLock

end Dht.B44
