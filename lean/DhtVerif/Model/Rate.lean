/-
Send budget (C20): the token bucket behind `ServerConfig.SendLimiter`, the decision
function of `Server.writeToNode`, and the per-message rating policies.

Exact arithmetic, no floats. Time is in nanoseconds (`Nat`). The rate is the rational
`p/q` tokens per second. Token amounts are counted in *units* of `1/(q·10⁹)` token, so that
one token is `unit = q·10⁹` units and exactly `p` units accrue per nanosecond. Instants at
which a reserved token becomes available are kept exactly, in *scaled time* (`p` scaled
ticks per nanosecond): a debt of `d` units is paid off after exactly `d` scaled ticks.

`golang.org/x/time/rate` (float64 inside) is ASSUMED to compute this function; the harness
compares it with this model on timelines for which the float computation is exact.

Transcribed from rate.go (v0.0.0-20220609170525): `advance`, `reserveN` for n = 1
(`Allow`, `Reserve`/`Wait`) and n = -1 (`AllowN(now, -1)`, used by `writeToNode` to give a
token back after a failed socket write), including its three regimes (`Inf`, limit 0,
finite positive limit) and its tolerance of a clock that steps back (`last` moves back).
-/
import DhtVerif.Gen.Facts
namespace Dht

def nsPerSec : Nat := 1000000000

/-- `⌈a / b⌉` -/
def ceilDiv (a b : Nat) : Nat := (a + (b - 1)) / b

structure Bucket where
  /-- `limit == rate.Inf` -/
  inf : Bool := false
  /-- rate = p/q tokens per second -/
  p : Nat
  q : Nat
  /-- bucket size; rate.go decrements this field itself in the `limit == 0` regime -/
  burst : Nat
  /-- stored tokens, in units; negative after a reservation, above `cap` only between a
  give-back and the next `advance` -/
  tokens : Int
  /-- instant (ns) of the last update of `tokens` -/
  last : Nat
  deriving DecidableEq, Repr

namespace Bucket

/-- units per token -/
def unit (b : Bucket) : Nat := b.q * nsPerSec
/-- bucket size in units -/
def cap (b : Bucket) : Nat := b.burst * b.unit

/-- `rate.NewLimiter(p/q, burst)`, first used no earlier than `t0`. rate.go starts with
`tokens = 0, last = time.Time{}`; the first `advance` then sees ~292 years elapsed and fills
the bucket (assumed: `rate · 292 y ≥ burst`), which is the state written here. -/
def new (p q burst t0 : Nat) : Bucket :=
  { p := p, q := q, burst := burst, tokens := ((burst * (q * nsPerSec) : Nat) : Int), last := t0 }

def newInf : Bucket := { inf := true, p := 0, q := 1, burst := 0, tokens := 0, last := 0 }

/-- rate.go `advance`: `if now.Before(last) { last = now }`. -/
def lastAt (b : Bucket) (now : Nat) : Nat := min b.last now

/-- rate.go `advance`: tokens available at `now`, capped at the bucket size. -/
def tokensAt (b : Bucket) (now : Nat) : Int :=
  min (b.cap : Int) (b.tokens + ((b.p * (now - b.lastAt now) : Nat) : Int))

/-- `AllowN(now, 1)`: take one token if a whole one is there. On refusal rate.go stores only
the (possibly stepped-back) `last`. -/
def allow (b : Bucket) (now : Nat) : Bool × Bucket :=
  if b.inf then (true, b)
  else if b.p = 0 then
    if 1 ≤ b.burst then (true, { b with burst := b.burst - 1 }) else (false, b)
  else
    let tok := b.tokensAt now - (b.unit : Int)
    if 1 ≤ b.burst ∧ 0 ≤ tok then (true, { b with tokens := tok, last := now })
    else (false, { b with last := b.lastAt now })

/-- Debt (units) left after taking one token at `now`; 0 when a whole token is there. -/
def deficit (b : Bucket) (now : Nat) : Nat := ((b.unit : Int) - b.tokensAt now).toNat

/-- Exact instant, in scaled time, at which a token taken at `now` is covered. -/
def actScaled (b : Bucket) (now : Nat) : Nat := b.p * now + b.deficit now

/-- `waitDuration <= maxFutureReserve` -/
def withinWait : Option Nat → Nat → Bool
  | none, _ => true
  | some m, w => decide (w ≤ m)

/-- `reserveN(now, 1, maxWait)` (`ReserveN` has no bound on the wait; `WaitN` bounds it by the
context deadline): always takes the token, possibly into debt, and says when to act.
`none` = not OK (burst 0, or the wait would exceed `maxWait`); state then as for `allow`. -/
def reserve (b : Bucket) (now : Nat) (maxWait : Option Nat) : Option Nat × Bucket :=
  if b.inf then (some now, b)
  else if b.p = 0 then
    if 1 ≤ b.burst then (some now, { b with burst := b.burst - 1 }) else (none, b)
  else
    let wait := ceilDiv (b.deficit now) b.p
    if 1 ≤ b.burst ∧ withinWait maxWait wait = true then
      (some (now + wait), { b with tokens := b.tokensAt now - (b.unit : Int), last := now })
    else (none, { b with last := b.lastAt now })

/-- `Wait(ctx)`: `WaitN` refuses up front when `1 > burst` (finite limit), else reserves. -/
def waitReserve (b : Bucket) (now : Nat) (maxWait : Option Nat) : Option Nat × Bucket :=
  if !b.inf && decide (b.burst < 1) then (none, b) else b.reserve now maxWait

/-- `AllowN(now, -1)`: put one token back. rate.go's `ok` test (`waitDuration ≤ 0`) makes this
a no-op while the bucket is more than one token in debt. The result may exceed `cap` until
the next `advance` caps it. In the `limit == 0` regime the `burst` field itself grows. -/
def giveBack (b : Bucket) (now : Nat) : Bool × Bucket :=
  if b.inf then (true, b)
  else if b.p = 0 then (true, { b with burst := b.burst + 1 })
  else
    let tok := b.tokensAt now + (b.unit : Int)
    if 0 ≤ tok then (true, { b with tokens := tok, last := now })
    else (false, { b with last := b.lastAt now })

end Bucket

/-! ## Histories of one bucket -/

inductive BEv where
  | adv (dt : Nat)
  | allow
  | reserve
  | giveBack
  deriving DecidableEq, Repr

/-- A bucket with a clock and the log of what it granted. -/
structure BHist where
  b : Bucket
  now : Nat
  /-- exact scaled instants at which each granted token is covered, newest first -/
  grants : List Nat := []
  /-- tokens successfully given back -/
  returned : Nat := 0
  deriving DecidableEq, Repr

namespace BHist

def init (p q burst t0 : Nat) : BHist := { b := Bucket.new p q burst t0, now := t0 }

def step (s : BHist) : BEv → BHist
  | .adv dt => { s with now := s.now + dt }
  | .allow =>
    let r := s.b.allow s.now
    if r.1 then { s with b := r.2, grants := s.b.actScaled s.now :: s.grants } else { s with b := r.2 }
  | .reserve =>
    let r := s.b.reserve s.now none
    if r.1.isSome then { s with b := r.2, grants := s.b.actScaled s.now :: s.grants }
    else { s with b := r.2 }
  | .giveBack =>
    let r := s.b.giveBack s.now
    if r.1 then { s with b := r.2, returned := s.returned + 1 } else { s with b := r.2 }

def run (s : BHist) (h : List BEv) : BHist := h.foldl step s

/-- grants whose token is covered by scaled instant `x` -/
def effective (s : BHist) (x : Nat) : Nat := s.grants.countP (fun g => decide (g ≤ x))

/-- grants covered within the closed scaled window `[a, b]` -/
def inWindow (s : BHist) (a b : Nat) : Nat := s.grants.countP (fun g => decide (a ≤ g) && decide (g ≤ b))

end BHist

/-! ## `Server.writeToNode` -/

inductive Outcome where
  | wrote
  | errClosed
  | errBlocked
  | errRateLimited
  /-- `Wait` refused: burst 0, or the wait would pass the context deadline -/
  | errWait
  /-- the datagram is written no earlier than instant `t` (ns), unless the context ends first -/
  | waitsUntil (t : Nat)
  deriving DecidableEq, Repr

/-- Decision of `writeToNode(ctx, b, node, wait, rate)` up to the socket write: closed test,
blocklist test, then, if `rate`, `SendLimiter.Wait` (when `wait`) or `SendLimiter.Allow`. -/
def sendGate (closed blocked rate wait : Bool) (maxWait : Option Nat) (b : Bucket) (now : Nat) :
    Outcome × Bucket :=
  if closed then (.errClosed, b)
  else if blocked then (.errBlocked, b)
  else if !rate then (.wrote, b)
  else if wait then
    match b.waitReserve now maxWait with
    | (some t, b') => (if t ≤ now then .wrote else .waitsUntil t, b')
    | (none, b') => (.errWait, b')
  else
    match b.allow now with
    | (true, b') => (.wrote, b')
    | (false, b') => (.errRateLimited, b')

/-- After `socket.WriteTo` returned an error: `if rate { SendLimiter.AllowN(time.Now(), -1) }`. -/
def afterWriteError (rate : Bool) (b : Bucket) (now : Nat) : Option Bool × Bucket :=
  if rate then let r := b.giveBack now; (some r.1, r.2) else (none, b)

/-! ## Which sends are rated, and which wait -/

/-- `QueryRateLimiting` -/
structure QRL where
  notFirst : Bool
  notAny : Bool
  waitOnRetries : Bool
  noWaitFirst : Bool
  deriving DecidableEq, Repr

/-- `(wait, rate)` as passed to `writeToNode`. -/
structure SendPolicy where
  wait : Bool
  rate : Bool
  deriving DecidableEq, Repr

/-- `transactionQuerySender`: the two function literals evaluated before each send;
`first` is `*writes == 0`. -/
def queryPolicy (first : Bool) (f : QRL) : SendPolicy :=
  { wait := if first then !f.noWaitFirst else f.waitOnRetries,
    rate := if f.notAny then false else if first then !f.notFirst else true }

/-- `reply`: `writeToNode(…, s.config.WaitToReply, true)` -/
def replyPolicy (waitToReply : Bool) : SendPolicy := { wait := waitToReply, rate := true }

/-- `sendError`: `writeToNode(…, false, true)` -/
def errorPolicy : SendPolicy := { wait := false, rate := true }

/-- How `Server.Query`'s sender ends. -/
inductive QEnd where
  /-- a reply arrived -/
  | ok
  /-- all tries sent, no reply -/
  | timeout
  /-- `writeToNode` refused -/
  | err (o : Outcome)
  /-- the socket write failed -/
  | errWrite
  deriving DecidableEq, Repr

/-- `transactionQuerySender` ∘ `transactionSender`: up to `tries` sends `delay` apart, each with the
policy for the current value of `*writes`; stops at the first error, or at the first
successful send when the peer answers (`responsive`). `failAt` = 1-based index of the send
whose socket write fails (0 = none). A send that has to wait is performed when its token is
there. Returns `(writes, how it ended, bucket)`. -/
def querySend (f : QRL) (closed blocked : Bool) (maxWait : Option Nat) (delay : Nat) (responsive : Bool)
    (failAt : Nat) : Nat → Nat → Nat → Bucket → Nat → Nat × QEnd × Bucket
  | 0, _, writes, b, _ => (writes, .timeout, b)
  | tries + 1, idx, writes, b, now =>
    let pol := queryPolicy (writes == 0) f
    let g := sendGate closed blocked pol.rate pol.wait maxWait b now
    let sentAt : Option Nat := match g.1 with
      | .wrote => some now
      | .waitsUntil t => some t
      | _ => none
    match sentAt with
    | none => (writes, .err g.1, g.2)
    | some tm =>
      if idx + 1 == failAt then (writes, .errWrite, (afterWriteError pol.rate g.2 tm).2)
      else if responsive then (writes + 1, .ok, g.2)
      else querySend f closed blocked maxWait delay responsive failAt tries (idx + 1) (writes + 1) g.2 (tm + delay)

/-- `n` datagrams by `dt` ns after the limiter's creation are within `burst + rate·dt`. -/
def withinBudget (p q burst n dt : Nat) : Bool := decide (n * (q * nsPerSec) ≤ burst * (q * nsPerSec) + p * dt)

/-! ## Histories of the gate: calls, waiters waking up, datagrams -/

structure GCall where
  closed : Bool
  blocked : Bool
  rate : Bool
  wait : Bool
  /-- whether `socket.WriteTo` will succeed -/
  wok : Bool
  deriving DecidableEq, Repr

inductive GEv where
  | tick (dt : Nat)
  | call (c : GCall)
  /-- the `i`-th waiter's timer has fired and it performs its socket write -/
  | wake (i : Nat)
  deriving DecidableEq, Repr

structure Dgram where
  time : Nat
  rated : Bool
  /-- scaled instant of the grant this datagram consumed (0 and meaningless when unrated) -/
  act : Nat
  deriving DecidableEq, Repr

structure Waiter where
  notBefore : Nat
  act : Nat
  wok : Bool
  deriving DecidableEq, Repr

structure GSt where
  h : BHist
  waiting : List Waiter := []
  /-- datagrams that reached the socket successfully, newest first -/
  out : List Dgram := []
  /-- grants whose socket write failed -/
  failed : List Nat := []
  deriving DecidableEq, Repr

namespace GSt

def init (p q burst t0 : Nat) : GSt := { h := BHist.init p q burst t0 }

/-- the socket write of a rated send holding the grant `act` -/
def ratedWrite (s : GSt) (h : BHist) (act : Nat) (wok : Bool) : GSt :=
  if wok then { s with h := h, out := ⟨h.now, true, act⟩ :: s.out }
  else { s with h := h.step .giveBack, failed := act :: s.failed }

/-- the bucket history after `sendGate` granted a token -/
def granted (h : BHist) (b' : Bucket) : BHist :=
  { h with b := b', grants := h.b.actScaled h.now :: h.grants }

def step (s : GSt) : GEv → GSt
  | .tick dt => { s with h := s.h.step (.adv dt) }
  | .call c =>
    match sendGate c.closed c.blocked c.rate c.wait none s.h.b s.h.now with
    | (.wrote, b') =>
      if c.rate then ratedWrite s (granted s.h b') (s.h.b.actScaled s.h.now) c.wok
      else if c.wok then { s with out := ⟨s.h.now, false, 0⟩ :: s.out } else s
    | (.waitsUntil t, b') =>
      { s with h := granted s.h b', waiting := s.waiting ++ [⟨t, s.h.b.actScaled s.h.now, c.wok⟩] }
    | (_, b') => { s with h := { s.h with b := b' } }
  | .wake i =>
    match s.waiting[i]? with
    | some w =>
      if w.notBefore ≤ s.h.now then ratedWrite { s with waiting := s.waiting.eraseIdx i } s.h w.act w.wok
      else s
    | none => s

def run (s : GSt) (h : List GEv) : GSt := h.foldl step s

/-- the rated datagrams written so far -/
def ratedOut (s : GSt) : List Dgram := s.out.filter (·.rated)

end GSt

/-! ## Source ties (T1): decidable predicates over the regenerated facts -/

namespace Flow
open Gen (FTok DExp)

def opens : FTok → Bool
  | .thn | .els | .func | .loop => true
  | _ => false

/-- The tokens of the block whose opener was just consumed, and the tokens after its closer. -/
def splitBlock : List FTok → Nat → List FTok → Option (List FTok × List FTok)
  | [], _, _ => none
  | .close :: rest, 0, acc => some (acc.reverse, rest)
  | .close :: rest, d + 1, acc => splitBlock rest d (.close :: acc)
  | t :: rest, d, acc => if opens t then splitBlock rest (d + 1) (t :: acc) else splitBlock rest d (t :: acc)

def evNames : List FTok → List String
  | [] => []
  | .ev s :: rest => s :: evNames rest
  | _ :: rest => evNames rest

/-- All syntactic paths through a function body made of calls, `if`/`else`, `return` and
function literals (run inline; their `return` leaves only the literal). A path lists the calls
in order, with `T:c` / `F:c` for each branch taken. Conditions named in `stable` (parameters that
are never assigned) keep their first value along a path. `none`: unsupported shape (loop,
unbalanced braces) or out of fuel. -/
def paths (stable : List String) : Nat → List (String × Bool) → List FTok → Option (List (List String))
  | 0, _, _ => none
  | _ + 1, _, [] => some [[]]
  | _ + 1, _, .ret :: _ => some [["return"]]
  | f + 1, env, .ev s :: rest => (paths stable f env rest).map (·.map (s :: ·))
  | f + 1, env, .iff c :: rest =>
    let cond := evNames (rest.takeWhile (· != .thn))
    match rest.dropWhile (· != .thn) with
    | .thn :: after =>
      match splitBlock after 0 [] with
      | some (tb, after2) =>
        let eb3 : Option (List FTok × List FTok) := match after2 with
          | .els :: r => splitBlock r 0 []
          | _ => some ([], after2)
        match eb3 with
        | some (eb, after3) =>
          let env' (v : Bool) := if stable.contains c then (c, v) :: env else env
          let pt := (paths stable f (env' true) (tb ++ after3)).map (·.map (fun p => cond ++ ("T:" ++ c) :: p))
          let pe := (paths stable f (env' false) (eb ++ after3)).map (·.map (fun p => cond ++ ("F:" ++ c) :: p))
          match env.lookup c with
          | some true => pt
          | some false => pe
          | none => match pt, pe with
            | some a, some b => some (a ++ b)
            | _, _ => none
        | none => none
      | none => none
    | _ => none
  | f + 1, env, .func :: rest =>
    match splitBlock rest 0 [] with
    | some (body, after) =>
      match paths stable f env body, paths stable f env after with
      | some pb, some pa => some (pb.flatMap (fun b => pa.map (fun a => b.filter (· != "return") ++ a)))
      | _, _ => none
    | none => none
  | _ + 1, _, _ => none

/-- events before / after the first occurrence of one of `xs` -/
def before (p : List String) (xs : List String) : List String := p.takeWhile (fun e => !xs.contains e)
def after (p : List String) (xs : List String) : List String := (p.dropWhile (fun e => !xs.contains e)).drop 1
def has (p : List String) (xs : List String) : Bool := p.any xs.contains

/-! Call names as they appear in `writeToNode`. The second name of each pair is the one a
`writeToNode` that serialises its limiter calls through package-level helpers would show (see the
kept counterexample in Props/C20.lean); either spelling satisfies the ties. -/
def sockWrite := ["s.socket.WriteTo"]
def limWait := ["s.config.SendLimiter.Wait", "limiterWait"]
def limAllow := ["s.config.SendLimiter.Allow", "limiterAllow"]
def limGive := ["s.config.SendLimiter.AllowN", "limiterGiveBack"]
/-- the condition under which `writeToNode` reports "rate limit exceeded" -/
def allowRefused := ["!s.config.SendLimiter.Allow()", "!limiterAllow(s.config.SendLimiter)"]
def allowRefusedT := allowRefused.map ("T:" ++ ·)
def allowRefusedF := allowRefused.map ("F:" ++ ·)

/-- Paths of `writeToNode` with `rate` and `wait` treated as the unassigned parameters they are. -/
def gatePaths : Option (List (List String)) := paths ["rate", "wait"] 400 [] Gen.flowWriteToNode

/-- On a path that reaches the socket write: unrated ⇒ the limiter is not touched at all; rated
and waiting ⇒ `Wait` was called and did not fail; rated and not waiting ⇒ `Allow` was called
and returned true. -/
def limiterDominates (p : List String) : Bool :=
  !has p sockWrite ||
    let pre := before p sockWrite
    (pre.contains "F:rate" && !has p limWait && !has p limAllow && !has p limGive) ||
    (pre.contains "T:rate" && pre.contains "T:wait" && has pre limWait && !has pre limAllow &&
      (after pre limWait).contains "F:err != nil") ||
    (pre.contains "T:rate" && pre.contains "F:wait" && has pre limAllow && !has pre limWait &&
      has pre allowRefusedF)

/-- A refused limiter call ends the function before the socket write. -/
def refusalReturns (p : List String) : Bool :=
  (!has p allowRefusedT || !has p sockWrite) &&
  (!(after p limWait).contains "T:err != nil" || !has (after p limWait) sockWrite ||
    has (before (after p limWait) ["T:err != nil"]) sockWrite)

/-- A rated send whose socket write fails gives its token back; at most one socket write and at
most one take per path. -/
def giveBackOnError (p : List String) : Bool :=
  (!(p.contains "T:rate" && has p sockWrite && (after p sockWrite).contains "T:err != nil") ||
    has (after p sockWrite) limGive) &&
  !has (after p sockWrite) sockWrite &&
  !has (after p limWait) limWait && !has (after p limAllow) limAllow &&
  (!has p limGive || has (before p limGive) sockWrite)

def allPaths (f : List String → Bool) : Bool :=
  match gatePaths with
  | some ps => ps.all f
  | none => false

def somePath (f : List String → Bool) : Bool :=
  match gatePaths with
  | some ps => ps.any f
  | none => false

/-- Every call of a method named `WriteTo` in the module is the one in `writeToNode`. -/
def onlyWriteSite : Bool :=
  !Gen.writeToSites.isEmpty && Gen.writeToSites.all (· == "server.go:Server.writeToNode")

def callReply := "server.go:Server.reply|s.config.WaitToReply|true"
def callError := "server.go:Server.sendError|false|true"
def callQuery := "server.go:Server.transactionQuerySender|(func() bool literal)()|(func() bool literal)()"

/-- `writeToNode` is called from `reply` (wait = `WaitToReply`, rate = `true`), `sendError`
(`false`, `true`) and `transactionQuerySender` (the two policy literals), and from nowhere else. -/
def callersKnown : Bool :=
  Gen.writeToNodeCalls.all (fun c => c == callReply || c == callError || c == callQuery) &&
  Gen.writeToNodeCalls.contains callReply && Gen.writeToNodeCalls.contains callError &&
  Gen.writeToNodeCalls.contains callQuery

/-- Value of a Go boolean expression over the query's flags. -/
def atom (first : Bool) (f : QRL) : String → Option Bool
  | "*writes == 0" => some first
  | "true" => some true
  | "false" => some false
  | "rateLimiting.NotFirst" => some f.notFirst
  | "!rateLimiting.NotFirst" => some (!f.notFirst)
  | "rateLimiting.NotAny" => some f.notAny
  | "!rateLimiting.NotAny" => some (!f.notAny)
  | "rateLimiting.WaitOnRetries" => some f.waitOnRetries
  | "!rateLimiting.WaitOnRetries" => some (!f.waitOnRetries)
  | "rateLimiting.NoWaitFirst" => some f.noWaitFirst
  | "!rateLimiting.NoWaitFirst" => some (!f.noWaitFirst)
  | _ => none

def evalD (first : Bool) (f : QRL) : DExp → Option Bool
  | .ite c t e => match atom first f c with
    | some true => evalD first f t
    | some false => evalD first f e
    | none => none
  | .ret e => atom first f e
  | .fall => none
  | .other => none

def allFlags : List (Bool × QRL) :=
  [true, false].flatMap fun first => [true, false].flatMap fun a => [true, false].flatMap fun b =>
    [true, false].flatMap fun c => [true, false].map fun d => (first, ⟨a, b, c, d⟩)

/-- The two function literals in `transactionQuerySender` compute `queryPolicy`. -/
def policyMatchesSource : Bool :=
  allFlags.all fun (first, f) =>
    evalD first f Gen.queryWaitExpr == some (queryPolicy first f).wait &&
    evalD first f Gen.queryRateExpr == some (queryPolicy first f).rate

end Flow

end Dht
