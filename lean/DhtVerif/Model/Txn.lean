/-
Model of /repo/transactions (Dispatcher, Key, varint ID issuer) and of the part
of server.go that uses them: `Query` registers (remote address string, t)
before its first send and removes it after it returns; `processPacket` looks a
non-query datagram up by (source address string, t), pops it and hands the
message to that query only.
-/
namespace Dht

/-- `binary.PutUvarint`. -/
def uvarint (n : Nat) : List UInt8 :=
  if h : n < 128 then [n.toUInt8] else (n % 128 + 128).toUInt8 :: uvarint (n / 128)
termination_by n
decreasing_by omega

/-- `transactions.Key`. -/
structure TxnKey where
  t    : List UInt8
  addr : List UInt8     -- `addr.String()` bytes
deriving DecidableEq, Repr

/-- Dispatcher contents: key ↦ the query waiting on it. -/
structure Txns where
  next    : Nat := 0                       -- `varintIdIssuer.next`
  pending : List (TxnKey × Nat) := []      -- `Dispatcher.txns`
deriving Repr

def Txns.have (s : Txns) (k : TxnKey) : Bool := s.pending.any (·.1 == k)

def Txns.lookup (s : Txns) (k : TxnKey) : Option Nat := (s.pending.find? (·.1 == k)).map (·.2)

/-- `Server.Query` prologue: issue an ID, `Dispatcher.Add`. `none` = the `panic(key)` in `Add`. -/
def Txns.register (s : Txns) (q : Nat) (dst : List UInt8) : Option (Txns × TxnKey) :=
  let k : TxnKey := ⟨uvarint s.next, dst⟩
  if s.have k then none else some ({ next := s.next + 1, pending := s.pending ++ [(k, q)] }, k)

/-- `processPacket` for a message with `y ≠ "q"`: `Have`, then `Pop`, then deliver to that transaction. -/
def Txns.inbound (s : Txns) (src t : List UInt8) : Txns × Option Nat :=
  let k : TxnKey := ⟨t, src⟩
  match s.lookup k with
  | none => (s, none)
  | some q => ({ s with pending := s.pending.filter (fun e => !(e.1 == k)) }, some q)

/-- `Server.deleteTransaction` at the end of `Query`. -/
def Txns.deregister (s : Txns) (k : TxnKey) : Txns :=
  { s with pending := s.pending.filter (fun e => !(e.1 == k)) }

inductive TxnEv where
  | register (q : Nat) (dst : List UInt8)
  | inbound (src t : List UInt8)
  | deregister (k : TxnKey)

/-- One step; the output is the query that received the datagram, if any. `none` = panic. -/
def Txns.step (s : Txns) : TxnEv → Option (Txns × Option Nat)
  | .register q dst => (s.register q dst).map (fun r => (r.1, none))
  | .inbound src t => some (s.inbound src t)
  | .deregister k => some (s.deregister k, none)

/-- Run a history from the empty dispatcher; `none` = some step panicked. -/
def Txns.run : Txns → List TxnEv → Option Txns
  | s, [] => some s
  | s, e :: es => match s.step e with
    | none => none
    | some (s', _) => Txns.run s' es

end Dht
