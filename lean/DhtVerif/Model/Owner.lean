/-
Traversal ownership: a small abstract interpretation over the control-flow graphs that
/verif/extract (owners.go) regenerates from the source of every function that starts a
traversal (`Gen.ownerCfg`).

Abstract state on entry to a node: has the operation been started, has it been stopped (or its
stop deferred, or handed to a goroutine that stops it), and what is known about the variable
`err` (the analysis is path-sensitive for the guards `err != nil` / `err == nil`, nothing else).

* `PathTo` is the semantics: the abstract states reachable along concrete paths of the graph.
* `fix` computes, per node, a set of abstract states; `closed` checks that the result is a
  post-fixpoint; `closed_sound` (Lemmas/C14Owner.lean) proves that a post-fixpoint contains the
  state of every path. So "no return node holds a started, unstopped state" in the computed
  table means: EVERY path from the start to a return passes a stop.
-/
import DhtVerif.Gen.Facts
namespace Dht.Own

inductive ErrK where
  | isNil | nonNil | unknown
deriving DecidableEq, Repr

structure Abs where
  started : Bool
  stopped : Bool
  err : ErrK
deriving DecidableEq, Repr

structure Node where
  id : Nat
  kind : String
  a : String
  b : String
  succ : List Nat
deriving Repr

structure Cfg where
  name : String
  opVar : String
  returnsOp : Bool
  nodes : List Node
deriving Repr

/-- What the analysis of a graph assumes about the other graphs it refers to. -/
structure Ctx where
  /-- the function literal / call that is `go`ne, `defer`red or invoked in place stops the operation on all its paths -/
  subStops : String → Bool
  /-- exit states of a function that hands the operation to its caller -/
  summary : String → List Abs

def guard (cond : String) (pos : Bool) (s : Abs) : List Abs :=
  let isNe := cond == "err != nil"
  let isEq := cond == "err == nil"
  if isNe || isEq then
    -- the branch on which `err` is non-nil
    if pos == isNe then (if s.err == .isNil then [] else [{ s with err := .nonNil }])
    else (if s.err == .nonNil then [] else [{ s with err := .isNil }])
  else [s]

/-- Effect of one node on the abstract state (a list: `callop` may have several outcomes, a
guard may exclude the state). -/
def transfer (ctx : Ctx) (opVar : String) (n : Node) (s : Abs) : List Abs :=
  if n.kind == "start" then [{ s with started := true, stopped := false }]
  else if n.kind == "callop" then (ctx.summary n.b).map (fun e => { started := true, stopped := e.stopped, err := e.err })
  else if n.kind == "call" then (if n.a == opVar ++ ".Stop" then [{ s with stopped := true }] else [s])
  else if n.kind == "asg" then (if n.a == "err" then [{ s with err := .unknown }] else [s])
  else if n.kind == "if+" then guard n.a true s
  else if n.kind == "if-" then guard n.a false s
  else if n.kind == "go" || n.kind == "defer" || n.kind == "inline" then
    (if ctx.subStops n.a then [{ s with stopped := true }] else [s])
  else [s]

def Cfg.node? (c : Cfg) (i : Nat) : Option Node := c.nodes.find? (fun n => n.id == i)

/-- Abstract states reachable on entry to a node along some path of the graph from node 0. -/
inductive PathTo (ctx : Ctx) (c : Cfg) (init : Abs) : Nat → Abs → Prop where
  | entry : PathTo ctx c init 0 init
  | step {i j : Nat} {s s' : Abs} {n : Node} : PathTo ctx c init i s → n ∈ c.nodes → n.id = i →
      s' ∈ transfer ctx c.opVar n s → j ∈ n.succ → PathTo ctx c init j s'

abbrev Table := List (List Abs)

def Table.at (m : Table) (i : Nat) : List Abs := m.getD i []

def insertNew (l : List Abs) (xs : List Abs) : List Abs :=
  xs.foldl (fun acc x => if acc.contains x then acc else acc ++ [x]) l

def addAt : Table → Nat → List Abs → Table
  | [], _, _ => []
  | l :: rest, 0, xs => insertNew l xs :: rest
  | l :: rest, i + 1, xs => l :: addAt rest i xs

def round (ctx : Ctx) (c : Cfg) (m : Table) : Table :=
  c.nodes.foldl (fun m n =>
    let outs := (m.at n.id).flatMap (transfer ctx c.opVar n)
    n.succ.foldl (fun m j => addAt m j outs) m) m

def Table.size (m : Table) : Nat := (m.map List.length).sum

def fix (ctx : Ctx) (c : Cfg) : Nat → Table → Table
  | 0, m => m
  | k + 1, m =>
    let m' := round ctx c m
    if m'.size == m.size then m else fix ctx c k m'

def initTable (c : Cfg) (init : Abs) : Table :=
  (List.range (c.nodes.length)).map (fun i => if i == 0 then [init] else [])

/-- 12 abstract states per node: that many rounds per node always suffice; `closed` checks the
result anyway. -/
def solve (ctx : Ctx) (c : Cfg) (init : Abs) : Table :=
  fix ctx c (12 * c.nodes.length + 1) (initTable c init)

/-- `m` is a post-fixpoint: it contains the initial state and is closed under every edge. -/
def closed (ctx : Ctx) (c : Cfg) (init : Abs) (m : Table) : Bool :=
  (m.at 0).contains init &&
  c.nodes.all (fun n => (m.at n.id).all (fun s => (transfer ctx c.opVar n s).all (fun s' =>
    n.succ.all (fun j => (m.at j).contains s'))))

def Node.isExit (n : Node) : Bool := n.kind == "ret" || n.kind == "exit"

/-- A return is fine if the operation was never started on this path, has been stopped, or is
returned to the caller (who is judged in turn). -/
def exitOk (n : Node) (s : Abs) : Bool := !s.started || s.stopped || n.a == "op"

/-- Starting a second operation while the first is unstopped loses the first. -/
def nodeOk (n : Node) (s : Abs) : Bool :=
  if n.isExit then exitOk n s else if n.kind == "start" then !s.started || s.stopped else true

/-- (node, state) pairs of the table that violate `nodeOk`. -/
def violationsIn (c : Cfg) (m : Table) : List (Nat × Abs) :=
  c.nodes.flatMap (fun n => ((m.at n.id).filter (fun s => !nodeOk n s)).map (fun s => (n.id, s)))

def exitStates (c : Cfg) (m : Table) : List Abs :=
  insertNew [] (c.nodes.flatMap (fun n => if n.isExit then m.at n.id else []))

/-- Exit states as seen by the caller: a `return …, nil` makes the caller's `err` nil, a returned
expression other than `err` makes it unknown. -/
def summaryStates (c : Cfg) (m : Table) : List Abs :=
  insertNew [] (c.nodes.flatMap (fun n =>
    if n.isExit then (m.at n.id).map (fun s =>
      if n.b == "nil" then { s with err := .isNil } else if n.b == "other" then { s with err := .unknown } else s)
    else []))

/-! ## The regenerated graphs -/

def cfgOf (name : String) : Cfg :=
  match Gen.ownerFns.find? (fun f => f.1 == name) with
  | none => { name := name, opVar := "", returnsOp := false, nodes := [] }
  | some (_, v, r) =>
    { name := name, opVar := v, returnsOp := r,
      nodes := (Gen.ownerCfg.filter (fun t => t.1 == name)).map
        (fun t => { id := t.2.1, kind := t.2.2.1, a := t.2.2.2.1, b := t.2.2.2.2.1, succ := t.2.2.2.2.2 }) }

/-- Node ids are 0, 1, 2, … in order and every successor exists (shape check of the extractor's output). -/
def Cfg.wellFormed (c : Cfg) : Bool :=
  c.nodes.map (·.id) == List.range c.nodes.length &&
  c.nodes.all (fun n => n.succ.all (fun j => j < c.nodes.length)) &&
  !c.nodes.isEmpty

def subInit : Abs := { started := true, stopped := false, err := .unknown }
def topInit : Abs := { started := false, stopped := false, err := .unknown }

/-- Assumptions at recursion depth 0: nothing stops, a callee hands over an unstopped operation. -/
def ctx0 : Ctx := { subStops := fun _ => false, summary := fun _ => [subInit] }

/-- Context for analysing a graph, itself computed by analysing the graphs it refers to
(`depth` levels of nesting: literals inside literals, hand-off callees). -/
def ctxAt : Nat → Ctx
  | 0 => ctx0
  | d + 1 =>
    let inner := ctxAt d
    { subStops := fun g =>
        let c := cfgOf g
        let ex := exitStates c (solve inner c subInit)
        c.wellFormed && closed inner c subInit (solve inner c subInit) && !ex.isEmpty && ex.all (·.stopped)
      summary := fun h =>
        let c := cfgOf h
        if c.wellFormed && c.returnsOp && closed inner c topInit (solve inner c topInit) then
          (summaryStates c (solve inner c topInit)).filter (·.started)
        else [subInit] }

def depth : Nat := 3
def ctx : Ctx := ctxAt depth

def table (fn : String) : Table := solve ctx (cfgOf fn) topInit

/-- Return paths of `fn` on which the operation is left running: (function, return node, abstract state). -/
def unstopped (fn : String) : List (String × Nat × Abs) :=
  (violationsIn (cfgOf fn) (table fn)).map (fun v => (fn, v.1, v.2))

def certified (fn : String) : Bool :=
  (cfgOf fn).wellFormed && closed ctx (cfgOf fn) topInit (table fn)

def allUnstopped : List (String × Nat × Abs) := Gen.ownerJudged.flatMap unstopped

/-- Follow an explicit node list from node 0; the abstract states it can end in on entry to the
last node (`[]` if the list is not a path of the graph). -/
def runPath (cx : Ctx) (c : Cfg) : List Nat → List Abs → List Abs
  | [], ss => ss
  | [_], ss => ss
  | i :: j :: rest, ss =>
    match c.node? i with
    | none => []
    | some n =>
      if n.succ.contains j then runPath cx c (j :: rest) (insertNew [] (ss.flatMap (transfer cx c.opVar n)))
      else []

/-- `path` is a path of `fn`'s graph from the entry to a return, and the operation it started is
still running there. -/
def isUnstoppedPath (fn : String) (path : List Nat) : Bool :=
  let c := cfgOf fn
  path.head? == some 0 &&
  match path.getLast? with
  | none => false
  | some l => match c.node? l with
    | none => false
    | some n => n.isExit && (runPath ctx c path [topInit]).any (fun s => !exitOk n s)

end Dht.Own
