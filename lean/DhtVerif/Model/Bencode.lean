/-
Bencode values, the canonical encoder and the STRICT untyped parser.

`enc` is what `bencode.Marshal` writes for a Go value of the untyped shapes
(`int64`/`*big.Int`, `string`, `[]interface{}`, `map[string]interface{}` with
keys emitted in sorted order). `dec` is what `Decoder.parseValueInterface`
(github.com/anacrolix/torrent/bencode, decode.go) accepts: integers are "0" or
an optional '-' followed by [1-9][0-9]* (`checkBufferedInt` + `strconv.ParseInt`
/ `big.Int.SetString`), string length prefixes have no leading zero, dictionary
keys are byte strings in strictly increasing bytewise order
(`parseDictInterface`: `key <= lastKey` is a syntax error), lists and
dictionaries are closed by 'e'. Not modelled: the decoder's 128 MiB limit on a
single string (no datagram reaches it).

Core Lean only.
-/
namespace Dht

/-- A bencode value. Dictionaries are association lists in wire order. -/
inductive BV where
  | int : Int → BV
  | bytes : List UInt8 → BV
  | list : List BV → BV
  | dict : List (List UInt8 × BV) → BV

namespace Benc

/-! ## Characters -/

def cI : UInt8 := 105      -- 'i'
def cL : UInt8 := 108      -- 'l'
def cD : UInt8 := 100      -- 'd'
def cE : UInt8 := 101      -- 'e'
def cColon : UInt8 := 58   -- ':'
def cMinus : UInt8 := 45   -- '-'
def cZero : UInt8 := 48    -- '0'

def isDigit (c : UInt8) : Bool := 48 ≤ c.toNat && c.toNat ≤ 57

/-- The ASCII digit of `n % 10`. -/
def digit (n : Nat) : UInt8 := (48 + n % 10).toUInt8

/-- Decimal printer (`strconv.AppendInt` on a non-negative value). -/
def natDigits (n : Nat) : List UInt8 :=
  if n < 10 then [digit n] else natDigits (n / 10) ++ [digit n]
termination_by n
decreasing_by omega

/-- `strconv.AppendInt` / `big.Int.String`. -/
def intDigits : Int → List UInt8
  | .ofNat n => natDigits n
  | .negSucc n => cMinus :: natDigits (n + 1)

/-- Value of a digit string, most significant first. -/
def digitsToNat (ds : List UInt8) : Nat :=
  ds.foldl (fun a d => a * 10 + (d.toNat - 48)) 0

/-- Longest prefix of ASCII digits, and the remainder. -/
def spanDigits : List UInt8 → List UInt8 × List UInt8
  | [] => ([], [])
  | c :: r => if isDigit c then ((c :: (spanDigits r).1), (spanDigits r).2) else ([], c :: r)

/-- A non-negative decimal without a superfluous leading zero: "0" or [1-9][0-9]*
(the digits themselves come from `spanDigits`). -/
def canonDigits : List UInt8 → Bool
  | [] => false
  | [_] => true
  | c :: _ :: _ => c != cZero

/-- The digits after a '-': non-empty and not starting with '0' ("-0" is rejected). -/
def negDigitsOk : List UInt8 → Bool
  | [] => false
  | c :: _ => c != cZero

/-- Strict bytewise lexicographic `<` (Go's `<` on strings). -/
def bytesLt : List UInt8 → List UInt8 → Bool
  | _, [] => false
  | [], _ :: _ => true
  | a :: as, b :: bs => if a.toNat < b.toNat then true else if a = b then bytesLt as bs else false

/-- `prev < k` when there is a previous key. -/
def keyAfter (prev : Option (List UInt8)) (k : List UInt8) : Bool :=
  match prev with
  | none => true
  | some p => bytesLt p k

/-! ## Encoder -/

def encBytes (b : List UInt8) : List UInt8 := natDigits b.length ++ cColon :: b

mutual
  /-- Canonical encoding. -/
  def enc : BV → List UInt8
    | .int i => cI :: (intDigits i ++ [cE])
    | .bytes b => encBytes b
    | .list l => cL :: encList l
    | .dict d => cD :: encDict d
  /-- Elements followed by the closing 'e'. -/
  def encList : List BV → List UInt8
    | [] => [cE]
    | v :: vs => enc v ++ encList vs
  /-- Key/value pairs in the order held, followed by the closing 'e'. -/
  def encDict : List (List UInt8 × BV) → List UInt8
    | [] => [cE]
    | (k, v) :: kvs => encBytes k ++ (enc v ++ encDict kvs)
end

/-! ## Well-formed values: dictionary keys strictly increasing, recursively -/

/-- Every later key is greater than every earlier one (pairwise form; no
transitivity argument is needed anywhere). -/
def keysSorted : List (List UInt8) → Bool
  | [] => true
  | k :: ks => ks.all (bytesLt k) && keysSorted ks

mutual
  def wf : BV → Bool
    | .int _ => true
    | .bytes _ => true
    | .list l => wfList l
    | .dict d => keysSorted (d.map Prod.fst) && wfVals d
  def wfList : List BV → Bool
    | [] => true
    | v :: vs => wf v && wfList vs
  def wfVals : List (List UInt8 × BV) → Bool
    | [] => true
    | (_, v) :: kvs => wf v && wfVals kvs
end

/-! ## Strict parser -/

/-- After the 'i': optional '-', canonical digits, 'e'. -/
def decInt (s : List UInt8) : Option (BV × List UInt8) :=
  match s with
  | [] => none
  | c :: r =>
    if c = cMinus then
      let p := spanDigits r
      if negDigitsOk p.1 then
        match p.2 with
        | e :: rest => if e = cE then some (.int (-(digitsToNat p.1 : Int)), rest) else none
        | [] => none
      else none
    else
      let p := spanDigits (c :: r)
      if canonDigits p.1 then
        match p.2 with
        | e :: rest => if e = cE then some (.int (digitsToNat p.1 : Int), rest) else none
        | [] => none
      else none

/-- A byte string whose first byte (a digit) is still in the input. -/
def decBytes (s : List UInt8) : Option (List UInt8 × List UInt8) :=
  let p := spanDigits s
  if canonDigits p.1 then
    match p.2 with
    | c :: rest =>
      if c = cColon then
        let n := digitsToNat p.1
        let b := rest.take n
        -- all `n` bytes are there (without walking the whole remainder)
        if b.length = n then some (b, rest.drop n) else none
      else none
    | [] => none
  else none

mutual
  /-- One value and the unread remainder. `fuel` bounds the nesting/element
  recursion; the input length is always enough (`dec_enc`). -/
  def dec : Nat → List UInt8 → Option (BV × List UInt8)
    | 0, _ => none
    | _ + 1, [] => none
    | f + 1, c :: r =>
      if c = cI then decInt r
      else if c = cL then
        match decList f r with
        | some (l, rest) => some (.list l, rest)
        | none => none
      else if c = cD then
        match decDict f none r with
        | some (d, rest) => some (.dict d, rest)
        | none => none
      else if isDigit c then
        match decBytes (c :: r) with
        | some (b, rest) => some (.bytes b, rest)
        | none => none
      else none
  def decList : Nat → List UInt8 → Option (List BV × List UInt8)
    | 0, _ => none
    | _ + 1, [] => none
    | f + 1, c :: r =>
      if c = cE then some ([], r)
      else
        match dec f (c :: r) with
        | none => none
        | some (v, rest) =>
          match decList f rest with
          | none => none
          | some (vs, rest') => some (v :: vs, rest')
  def decDict : Nat → Option (List UInt8) → List UInt8 → Option (List (List UInt8 × BV) × List UInt8)
    | 0, _, _ => none
    | _ + 1, _, [] => none
    | f + 1, prev, c :: r =>
      if c = cE then some ([], r)
      else if isDigit c then
        match decBytes (c :: r) with
        | none => none
        | some (k, rest) =>
          if keyAfter prev k then
            match dec f rest with
            | none => none
            | some (v, rest') =>
              match decDict f (some k) rest' with
              | none => none
              | some (kvs, rest'') => some ((k, v) :: kvs, rest'')
          else none
      else none
end

/-! ## Lenient recogniser

An over-approximation of what ANY path of the Go decoder (typed `parseValue`, untyped
`parseValueInterface`, raw `readOneValue`) can consume as one value: `i`, anything, `e`; digits,
`:`, that many bytes; `l`/`d`, values, `e` (keys are not distinguished from values, integers and
length prefixes are not checked for canonical form). Input without such a prefix makes every
decoder return an error; the model uses this only to answer `err` instead of `unmodelled`. -/

/-- The input after the first 'e'. -/
def dropThroughE : List UInt8 → Option (List UInt8)
  | [] => none
  | c :: r => if c = cE then some r else dropThroughE r

mutual
  def lenientVal : Nat → List UInt8 → Option (List UInt8)
    | 0, _ => none
    | _ + 1, [] => none
    | f + 1, c :: r =>
      if c = cI then dropThroughE r
      else if c = cL || c = cD then lenientSeq f r
      else if isDigit c then
        let p := spanDigits (c :: r)
        match p.2 with
        | x :: rest =>
          if x = cColon && (rest.take (digitsToNat p.1)).length = digitsToNat p.1 then
            some (rest.drop (digitsToNat p.1))
          else none
        | [] => none
      else none
  def lenientSeq : Nat → List UInt8 → Option (List UInt8)
    | 0, _ => none
    | _ + 1, [] => none
    | f + 1, c :: r =>
      if c = cE then some r
      else
        match lenientVal f (c :: r) with
        | none => none
        | some rest => lenientSeq f rest
end

/-- No decoder can consume a value from this input. -/
def hopeless (bs : List UInt8) : Bool := (lenientVal bs.length bs).isNone

/-- Parse one value from a datagram; fuel = its length. -/
def decode (bs : List UInt8) : Option (BV × List UInt8) := dec bs.length bs

/-- Parse a datagram that must consist of exactly one value. -/
def decodeAll (bs : List UInt8) : Option BV :=
  match decode bs with
  | some (v, []) => some v
  | _ => none

end Benc
end Dht
