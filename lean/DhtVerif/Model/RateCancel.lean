/-
Send budget (C20), continued: reservations that are abandoned.

`limiterWait` (/repo/ratelimit_serial.go) does `r := l.ReserveN(now, 1)` and, when the caller's
context ends while it sleeps until the reserved slot (or its deadline lies before the slot), calls
`r.CancelAt(time.Now())`. This file adds what `Model/Rate.lean` leaves out: the limiter's
`lastEvent` field, the `Reservation` value and `Reservation.CancelAt`, and histories in which a
reservation is either used (its datagram is written at or after its slot) or cancelled.

Arithmetic as in `Model/Rate.lean`: time in ns, rate `p/q` tokens per second, token amounts in
units (`unit = q·10⁹` units per token, `p` units accrue per ns). `lastEvent` and a reservation's
`timeToAct` are kept EXACTLY, in scaled time (`p` ticks per ns), like `Bucket.actScaled`; the
nanosecond slot a reservation reports (`timeToAct` rounded up to a whole ns) is kept beside it and
is what `CancelAt` compares with its argument (`r.timeToAct.Before(now)`). rate.go (float64
tokens, ns instants) is ASSUMED to compute this on timelines on which its arithmetic is exact
(every wait a whole number of ns); there both instants coincide.

Transcribed from rate.go (v0.0.0-20220609170525) `reserveN` (the `lastEvent` update) and
`CancelAt`:

    if r.lim.limit == Inf || r.tokens == 0 || r.timeToAct.Before(now) { return }
    restoreTokens := float64(r.tokens) - r.limit.tokensFromDuration(r.lim.lastEvent.Sub(r.timeToAct))
    if restoreTokens <= 0 { return }
    now, _, tokens := r.lim.advance(now)
    tokens += restoreTokens
    if burst := float64(r.lim.burst); tokens > burst { tokens = burst }
    r.lim.last = now
    r.lim.tokens = tokens
    if r.timeToAct == r.lim.lastEvent {
        prevEvent := r.timeToAct.Add(r.limit.durationFromTokens(float64(-r.tokens)))
        if !prevEvent.Before(now) { r.lim.lastEvent = prevEvent }
    }

In the `limit == 0` regime rate.go's `CancelAt` writes only the fields `tokens` and `last`, which
that regime never reads (nothing in /repo calls `SetLimit`); it is modelled as a no-op there.
-/
import DhtVerif.Model.Rate
namespace Dht

/-- `rate.Limiter` with its `lastEvent` field: the latest `timeToAct` handed out, exact, in scaled
time. rate.go starts with the zero `time.Time`. -/
structure CBucket where
  b : Bucket
  lastEvent : Nat := 0
  deriving DecidableEq, Repr

/-- `rate.Reservation` with `ok = true`, `tokens = 1`. -/
structure Resv where
  /-- `timeToAct` as reported to the caller (ns) -/
  slot : Nat
  /-- `timeToAct`, exact, in scaled time: `Bucket.actScaled` at the reservation -/
  act : Nat
  deriving DecidableEq, Repr

namespace CBucket

def new (p q burst t0 : Nat) : CBucket := { b := Bucket.new p q burst t0 }

/-- finite positive limit: the only regime in which `reserveN` touches `lastEvent` -/
def finite (c : CBucket) : Bool := !c.b.inf && decide (c.b.p ≠ 0)

/-- `AllowN(now, 1)`; on success `lastEvent = now`. -/
def allow (c : CBucket) (now : Nat) : Bool × CBucket :=
  let r := c.b.allow now
  (r.1, { b := r.2, lastEvent := if r.1 && c.finite then c.b.p * now else c.lastEvent })

/-- `reserveN(now, 1, maxWait)`; on success `lastEvent = timeToAct`. -/
def reserve (c : CBucket) (now : Nat) (maxWait : Option Nat) : Option Resv × CBucket :=
  let r := c.b.reserve now maxWait
  match r.1 with
  | some slot =>
    (some { slot := slot, act := c.b.actScaled now },
     { b := r.2, lastEvent := if c.finite then c.b.actScaled now else c.lastEvent })
  | none => (none, { b := r.2, lastEvent := c.lastEvent })

/-- `AllowN(now, -1)`; on success `timeToAct = now`, hence `lastEvent = now`. -/
def giveBack (c : CBucket) (now : Nat) : Bool × CBucket :=
  let r := c.b.giveBack now
  (r.1, { b := r.2, lastEvent := if r.1 && c.finite then c.b.p * now else c.lastEvent })

/-- `restoreTokens`, in units: the reserved token less what was reserved after it,
`limit × (lastEvent − timeToAct)`. More than one token when `lastEvent` lies before `timeToAct`. -/
def restore (c : CBucket) (r : Resv) : Int :=
  (c.b.unit : Int) - ((c.lastEvent : Int) - (r.act : Int))

/-- `r.CancelAt(t)`. -/
def cancelAt (c : CBucket) (r : Resv) (t : Nat) : CBucket :=
  if !c.finite then c
  else if r.slot < t then c
  else if c.restore r ≤ 0 then c
  else
    { b := { c.b with tokens := min (c.b.cap : Int) (c.b.tokensAt t + c.restore r), last := t },
      lastEvent :=
        if r.act = c.lastEvent ∧ c.b.p * t + c.b.unit ≤ r.act then r.act - c.b.unit
        else c.lastEvent }

end CBucket

/-! ## Histories with reservations that are used or cancelled -/

inductive CEv where
  | adv (dt : Nat)
  /-- `Allow`; a granted token becomes a datagram at once -/
  | allow
  /-- `ReserveN(now, 1)`; the reservation is held until `use` or `cancel` -/
  | reserve
  /-- the holder of the `i`-th pending reservation writes its datagram (only at or after its slot) -/
  | use (i : Nat)
  /-- the holder of the `i`-th pending reservation gives up: `CancelAt(now)` -/
  | cancel (i : Nat)
  /-- the same with an instant `t` that is not the current one: `CancelAt(t)` -/
  | cancelStale (i : Nat) (t : Nat)
  | giveBack
  deriving DecidableEq, Repr

/-- events that present the limiter with the current instant -/
def CEv.timely : CEv → Bool
  | .cancelStale _ _ => false
  | _ => true

def CEv.isGiveBack : CEv → Bool
  | .giveBack => true
  | _ => false

/-- A datagram written under a grant: when, and the exact scaled instant its token is covered. -/
structure CDg where
  time : Nat
  act : Nat
  deriving DecidableEq, Repr

structure CHist where
  c : CBucket
  now : Nat
  /-- reservations neither used nor cancelled, oldest first -/
  pending : List Resv := []
  /-- datagrams written, newest first -/
  out : List CDg := []
  /-- reservations cancelled -/
  cancelled : Nat := 0
  /-- tokens successfully given back -/
  returned : Nat := 0
  deriving DecidableEq, Repr

namespace CHist

def init (p q burst t0 : Nat) : CHist := { c := CBucket.new p q burst t0, now := t0 }

def step (s : CHist) : CEv → CHist
  | .adv dt => { s with now := s.now + dt }
  | .allow =>
    let r := s.c.allow s.now
    if r.1 then { s with c := r.2, out := ⟨s.now, s.c.b.actScaled s.now⟩ :: s.out } else { s with c := r.2 }
  | .reserve =>
    match s.c.reserve s.now none with
    | (some r, c') => { s with c := c', pending := s.pending ++ [r] }
    | (none, c') => { s with c := c' }
  | .use i =>
    match s.pending[i]? with
    | some r =>
      if r.slot ≤ s.now then { s with pending := s.pending.eraseIdx i, out := ⟨s.now, r.act⟩ :: s.out }
      else s
    | none => s
  | .cancel i =>
    match s.pending[i]? with
    | some r =>
      { s with c := s.c.cancelAt r s.now, pending := s.pending.eraseIdx i, cancelled := s.cancelled + 1 }
    | none => s
  | .cancelStale i t =>
    match s.pending[i]? with
    | some r =>
      { s with c := s.c.cancelAt r t, pending := s.pending.eraseIdx i, cancelled := s.cancelled + 1 }
    | none => s
  | .giveBack =>
    let r := s.c.giveBack s.now
    if r.1 then { s with c := r.2, returned := s.returned + 1 } else { s with c := r.2 }

def run (s : CHist) (h : List CEv) : CHist := h.foldl step s

/-- datagrams written so far -/
def sent (s : CHist) : Nat := s.out.length

/-- grants that are, or may still become, datagrams: those written and those still held -/
def live (s : CHist) : List Nat := s.out.map (·.act) ++ s.pending.map (·.act)

/-- live grants whose token is covered by scaled instant `x` -/
def effective (s : CHist) (x : Nat) : Nat := s.live.countP (fun g => decide (g ≤ x))

/-- What `CancelAt(now)` of the pending reservation `r` adds to the bucket, in units (before the
cap): `restoreTokens` when the call gets that far, else nothing. -/
def credited (s : CHist) (r : Resv) : Int :=
  if s.c.finite && decide (s.now ≤ r.slot) && decide (0 < s.c.restore r) then s.c.restore r else 0

/-- What an event wastes, in units: a cancellation gives up one token's worth of budget and hands
back `credited`; negative when it hands back more than the token it reserved. -/
def wasteStep (s : CHist) : CEv → Int
  | .cancel i =>
    match s.pending[i]? with
    | some r => (s.c.b.unit : Int) - s.credited r
    | none => 0
  | _ => 0

/-- The hypothesis of the budget theorems: starting from waste `W`, the running total of
`wasteStep` never falls below zero, i.e. at every moment the cancellations so far have together
handed back at most the tokens they had reserved. -/
def wasteOk (s : CHist) (W : Int) : List CEv → Bool
  | [] => true
  | e :: h => decide (0 ≤ W + s.wasteStep e) && wasteOk (s.step e) (W + s.wasteStep e) h

/-- A sufficient condition about a single event: a cancellation that reaches the bucket credits no
more than the one token it reserved (`restoreTokens ≤ 1`), which is the case exactly when
`lastEvent` is not before the reservation's `timeToAct`. -/
def creditOk (s : CHist) : CEv → Bool
  | .cancel i =>
    match s.pending[i]? with
    | some r => decide (r.slot < s.now) || decide (s.c.restore r ≤ (s.c.b.unit : Int))
    | none => true
  | _ => true

/-- `creditOk` at every event of the history -/
def runOk (s : CHist) : List CEv → Bool
  | [] => true
  | e :: h => s.creditOk e && runOk (s.step e) h

end CHist

end Dht
