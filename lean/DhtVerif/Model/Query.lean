/-
Model of one outbound query: `Server.Query` (server.go), `Server.transactionQuerySender`
(server.go) and `transactionSender` (transaction.go), as an explicit small-step transition
system of the goroutines involved:

* the WAITER (the goroutine that called `Query`): registers the transaction and starts the
  sender, blocks in `select { reply | ctx.Done | sendErr }`, calls `cancelSend()`, joins the
  sender with `<-sendErr`, deletes the transaction and returns;
* the SENDER goroutine: at most `maxSends` calls of `send()` (the first immediately, the
  others after one resend delay each), then one more resend delay and `TransactionTimeout`;
  it leaves on `sendCtx.Done()` or on the first send error; whatever it returns is put in the
  one-slot channel `sendErr`, which is then closed;
* the `handleResponse` goroutine started by `processPacket` when a matching reply is popped
  (`replyChan <- m`, one-slot channel);
* the environment: reply datagrams queued at the socket and handled by the serve loop, the
  caller's context being cancelled, `Server.Close`, resend timers firing, and the outcome of
  each socket write.

Every event is one atomic step (`step : QState → Ev → Option QState`, `none` = not enabled).
Go's `select` with several ready cases is a nondeterministic choice: several events are enabled.
The closed check of `writeToNode` and the `WriteTo` that follows it are two separate steps
(`sendBegin`, then `sendOk`/`sendFail`): they are not atomic in the source.
-/
import DhtVerif.Gen.Facts
namespace Dht.Qry

/-- What the sender goroutine returns (always non-nil in the source). -/
inductive SendErr where
  | write     -- `socket.WriteTo` returned an error or a short count
  | refused   -- blocklist / `SendLimiter` refused: error without calling `WriteTo`
  | closed    -- `writeToNode`: "server is closed", `WriteTo` not called
  | ctx       -- `sendCtx.Done()`
  | timeout   -- `TransactionTimeout`
deriving DecidableEq, Repr

inductive SPhase where
  | notStarted
  | waitingDelay  -- top of `for sends < maxSends`: `select { time.After(delay) | ctx.Done }`
  | writing       -- inside `send()`: closed check passed, `WriteTo` not yet returned
  | finalDelay    -- `select { sendCtx.Done | time.After(resendDelay) }` after the last send
  | pushed        -- error placed in `sendErr`; `close(sendErr)` not yet executed
  | exited
deriving DecidableEq, Repr

inductive WPhase where
  | start       -- before `addTransaction` / `go sender`
  | selecting   -- blocked in the three-way `select`
  | selected    -- a case fired, `cancelSend()` not yet called
  | cancelled   -- `cancelSend()` done, blocked in `<-sendErr`
  | joined      -- `<-sendErr` returned
  | returned    -- `deleteTransaction` done, `Query` returned
deriving DecidableEq, Repr

inductive Outcome where
  | reply
  | ctxErr
  | sendErr (e : SendErr)
  | emptyResult   -- `sendErr` closed and empty in the select: neither reply nor error (shown unreachable)
deriving DecidableEq, Repr

structure QState where
  maxSends : Nat
  -- environment and server
  closed : Bool := false          -- `s.closed`
  ctxCancelled : Bool := false    -- caller's `ctx`
  inbox : Nat := 0                -- matching reply datagrams queued at the socket
  pending : Bool := false         -- (addr, t) ∈ `s.transactions`
  replyInFlight : Bool := false   -- `go t.handleResponse(m)` started, `replyChan <- m` not yet done
  replyChan : Bool := false       -- one-slot buffer
  -- sender goroutine
  sph : SPhase := .notStarted
  sends : Nat := 0                -- `sends` in `transactionSender`
  writes : Nat := 0               -- calls of `socket.WriteTo` for this query
  timerFired : Bool := false      -- the pending `time.After` has fired
  elapsed : Nat := 0              -- resend delays fully waited
  sendCtxCancelled : Bool := false
  chanErr : Option SendErr := none  -- `sendErr` buffer
  chanClosed : Bool := false
  -- waiter
  wph : WPhase := .start
  outcome : Option Outcome := none
deriving DecidableEq, Repr

inductive Ev where
  -- environment
  | replyInjected | serveReply | ctxCancel | serverClosed
  -- time
  | delayElapses
  -- waiter
  | register | selReply | selCtx | selSendErr | cancelSend | join | deregister
  -- sender
  | sendBegin | sendClosedErr | sendOk | sendFail | sendRefused | senderCtxDone | senderTimeout | senderClose
  -- handleResponse goroutine
  | replyDeliver
deriving DecidableEq, Repr

/-- Steps of the query's own goroutines and of its timers (things that happen without anybody's
help). The others are environment events, which may or may not happen. -/
def Ev.progress : Ev → Bool
  | .replyInjected | .serveReply | .ctxCancel | .serverClosed => false
  | _ => true

/-- `Query`: `if input.NumTries == 0 { input.NumTries = defaultMaxQuerySends }`. -/
def effectiveTries (numTries : Nat) : Nat :=
  if numTries = 0 then Gen.defaultMaxQuerySends else numTries

/-- State at the entry of `Query`. The server may already be closed and the context cancelled. -/
def init (numTries : Nat) (closed ctxCancelled : Bool) : QState :=
  { maxSends := effectiveTries numTries, closed := closed, ctxCancelled := ctxCancelled }

def pushErr (s : QState) (e : SendErr) : QState := { s with sph := .pushed, chanErr := some e }

def step (s : QState) : Ev → Option QState
  | .replyInjected => some { s with inbox := s.inbox + 1 }
  -- serve loop: `serve` returns when closed; `processPacket`: `Have`, `Pop`, `go handleResponse`
  | .serveReply =>
    if s.inbox = 0 then none
    else if s.pending = true ∧ s.closed = false then
      some { s with inbox := s.inbox - 1, pending := false, replyInFlight := true }
    else some { s with inbox := s.inbox - 1 }
  | .ctxCancel => if s.ctxCancelled = true then none else some { s with ctxCancelled := true }
  | .serverClosed => if s.closed = true then none else some { s with closed := true }
  | .delayElapses =>
    if s.timerFired = false ∧ (s.sph = .waitingDelay ∨ s.sph = .finalDelay) then
      some { s with timerFired := true, elapsed := s.elapsed + 1 }
    else none
  -- `addTransaction`, `go func() { … transactionQuerySender … }`; first `delay` is zero
  | .register =>
    if s.wph = .start then
      if s.maxSends = 0 then
        some { s with wph := .selecting, pending := true, sph := .finalDelay, timerFired := false }
      else
        some { s with wph := .selecting, pending := true, sph := .waitingDelay, timerFired := true }
    else none
  | .selReply =>
    if s.wph = .selecting ∧ s.replyChan = true then
      some { s with wph := .selected, replyChan := false, outcome := some .reply }
    else none
  | .selCtx =>
    if s.wph = .selecting ∧ s.ctxCancelled = true then
      some { s with wph := .selected, outcome := some .ctxErr }
    else none
  | .selSendErr =>
    if s.wph = .selecting then
      match s.chanErr with
      | some e => some { s with wph := .selected, chanErr := none, outcome := some (.sendErr e) }
      | none => if s.chanClosed = true then some { s with wph := .selected, outcome := some .emptyResult } else none
    else none
  | .cancelSend =>
    if s.wph = .selected then some { s with wph := .cancelled, sendCtxCancelled := true } else none
  | .join =>
    if s.wph = .cancelled then
      match s.chanErr with
      | some _ => some { s with wph := .joined, chanErr := none }
      | none => if s.chanClosed = true then some { s with wph := .joined } else none
    else none
  | .deregister =>
    if s.wph = .joined then some { s with wph := .returned, pending := false } else none
  -- `writeToNode`: closed check under `s.mu.RLock`
  | .sendBegin =>
    if s.sph = .waitingDelay ∧ s.timerFired = true ∧ s.closed = false then some { s with sph := .writing } else none
  | .sendClosedErr =>
    if s.sph = .waitingDelay ∧ s.timerFired = true ∧ s.closed = true then
      some (pushErr { s with sends := s.sends + 1 } .closed)
    else none
  | .sendOk =>
    if s.sph = .writing then
      if s.sends + 1 < s.maxSends then
        some { s with sends := s.sends + 1, writes := s.writes + 1, timerFired := false, sph := .waitingDelay }
      else
        some { s with sends := s.sends + 1, writes := s.writes + 1, timerFired := false, sph := .finalDelay }
    else none
  | .sendFail =>
    if s.sph = .writing then some (pushErr { s with sends := s.sends + 1, writes := s.writes + 1 } .write) else none
  | .sendRefused =>
    if s.sph = .writing then some (pushErr { s with sends := s.sends + 1 } .refused) else none
  | .senderCtxDone =>
    if (s.sph = .waitingDelay ∨ s.sph = .finalDelay) ∧ (s.ctxCancelled = true ∨ s.sendCtxCancelled = true) then
      some (pushErr s .ctx)
    else none
  | .senderTimeout =>
    if s.sph = .finalDelay ∧ s.timerFired = true then some (pushErr s .timeout) else none
  | .senderClose =>
    if s.sph = .pushed then some { s with sph := .exited, chanClosed := true } else none
  | .replyDeliver =>
    if s.replyInFlight = true then some { s with replyInFlight := false, replyChan := true } else none

/-- Run a list of events; `none` if one of them is not enabled. -/
def run : QState → List Ev → Option QState
  | s, [] => some s
  | s, e :: es => match step s e with
    | none => none
    | some s' => run s' es

/-- States reachable from the entry of `Query` under any schedule and any environment. -/
inductive Reachable : QState → Prop where
  | init (n : Nat) (c x : Bool) : Reachable (init n c x)
  | step {s s' : QState} (e : Ev) : Reachable s → step s e = some s' → Reachable s'

/-- Everything the query started has ended: `Query` returned, the sender goroutine exited, the
`handleResponse` goroutine (if any) exited. -/
def QState.terminal (s : QState) : Prop :=
  s.wph = .returned ∧ s.sph = .exited ∧ s.replyInFlight = false

instance (s : QState) : Decidable s.terminal := by unfold QState.terminal; exact inferInstance

def allEvs : List Ev :=
  [.replyInjected, .serveReply, .ctxCancel, .serverClosed, .delayElapses, .register, .selReply, .selCtx,
   .selSendErr, .cancelSend, .join, .deregister, .sendBegin, .sendClosedErr, .sendOk, .sendFail,
   .sendRefused, .senderCtxDone, .senderTimeout, .senderClose, .replyDeliver]

/-- Termination measure: an upper bound on the number of progress steps still to come. -/
def senderWeight (s : QState) : Nat :=
  match s.sph with
  | .notStarted => 3 * s.maxSends + 3
  | .waitingDelay => 3 * (s.maxSends - s.sends) + 3 - (if s.timerFired then 1 else 0)
  | .writing => 3 * (s.maxSends - s.sends) + 1
  | .finalDelay => 3 - (if s.timerFired then 1 else 0)
  | .pushed => 1
  | .exited => 0

def waiterWeight (s : QState) : Nat :=
  match s.wph with
  | .start => 8 | .selecting => 4 | .selected => 3 | .cancelled => 2 | .joined => 1 | .returned => 0

def measure (s : QState) : Nat :=
  senderWeight s + waiterWeight s + (if s.pending then 2 else 0) + (if s.replyInFlight then 1 else 0)

/-! ## Observable traces (what the harness can see at the Conn/API boundary)

`send` = a `WriteTo` that succeeded, `sendfail` = a `WriteTo` that returned an error,
`reply` = a matching reply datagram was queued at the socket, `cancel` = the caller cancelled
`ctx`, `closecall`/`closeret` = `Server.Close` was called / has returned. Everything else is
internal and is searched for (`closure`). -/
inductive Obs where
  | send | sendfail | reply | cancel | closecall | closeret
deriving DecidableEq, Repr

/-- Internal events (not visible at the boundary). `serverClosed` is internal too but only
allowed between `closecall` and `closeret`, which `ObsSt.closing` tracks. -/
def internalEvs : List Ev :=
  [.serveReply, .delayElapses, .register, .selReply, .selCtx, .selSendErr, .cancelSend, .join, .deregister,
   .sendBegin, .sendClosedErr, .sendRefused, .senderCtxDone, .senderTimeout, .senderClose, .replyDeliver]

structure ObsSt where
  q : QState
  closing : Bool := false   -- `Close` has been called and has not been seen to take effect yet
deriving DecidableEq, Repr

def ObsSt.internalSuccs (o : ObsSt) : List ObsSt :=
  (internalEvs.filterMap (fun e => (step o.q e).map (fun q' => { o with q := q' }))) ++
  (if o.closing then (match step o.q .serverClosed with
    | some q' => [{ q := q', closing := false }]
    | none => []) else [])

def insertAll (acc : List ObsSt) (xs : List ObsSt) : List ObsSt :=
  xs.foldl (fun a x => if a.contains x then a else a ++ [x]) acc

/-- Closure of a set of states under internal steps (`fuel` rounds of breadth-first growth). -/
def closure : Nat → List ObsSt → List ObsSt
  | 0, xs => xs
  | fuel + 1, xs =>
    let next := insertAll xs (xs.flatMap ObsSt.internalSuccs)
    if next.length = xs.length then xs else closure fuel next

def obsStep (o : ObsSt) : Obs → List ObsSt
  | .send => ((step o.q .sendOk).map (fun q' => { o with q := q' })).toList
  | .sendfail => ((step o.q .sendFail).map (fun q' => { o with q := q' })).toList
  | .reply => ((step o.q .replyInjected).map (fun q' => { o with q := q' })).toList
  | .cancel => match step o.q .ctxCancel with
    | some q' => [{ o with q := q' }]
    | none => [o]
  | .closecall => [{ o with closing := true }]
  | .closeret => if o.q.closed then [{ o with closing := false }] else []

/-- Enough rounds for any closure: each round adds a state or stops, and the number of internal
steps from a state is bounded by its measure plus the queued datagrams. -/
def closureFuel (n : Nat) : Nat := 40 * (n + 4)

/-- Sets of states compatible with an observed prefix. Returns the index of the first
observable event that no compatible state can perform. -/
def accepts (xs : List ObsSt) (n : Nat) : List Obs → Nat → Except Nat (List ObsSt)
  | [], _ => .ok (closure (closureFuel n) xs)
  | e :: es, i =>
    let cl := closure (closureFuel n) xs
    let next := insertAll [] (cl.flatMap (fun o => obsStep o e))
    if next.isEmpty then .error i else accepts next n es i.succ

/-- Observable classes of `QueryResult`. -/
inductive ObsOutcome where
  | reply | ctx | timeout | writeErr | closedErr | refused | empty
deriving DecidableEq, Repr

def Outcome.obs : Outcome → ObsOutcome
  | .reply => .reply
  | .ctxErr => .ctx
  | .sendErr .ctx => .ctx
  | .sendErr .timeout => .timeout
  | .sendErr .write => .writeErr
  | .sendErr .closed => .closedErr
  | .sendErr .refused => .refused
  | .emptyResult => .empty

/-- The observed history (events, then `Query` returned with `out`, then quiescence) is one the
machine can produce: some compatible state has returned with that outcome and can reach the
terminal state by internal steps alone. -/
def acceptsRun (numTries : Nat) (closedAtStart cancelledAtStart : Bool) (evs : List Obs) (out : ObsOutcome) :
    Except String Unit :=
  let n := effectiveTries numTries
  match accepts [{ q := init numTries closedAtStart cancelledAtStart }] n evs 0 with
  | .error i => .error s!"reject:event:{i}"
  | .ok xs =>
    if xs.any (fun o => decide o.q.terminal && o.q.outcome.map Outcome.obs == some out) then .ok ()
    else .error "reject:outcome"

/-- The driver's answer. -/
def acceptsRunStr (numTries : Nat) (closedAtStart cancelledAtStart : Bool) (evs : List Obs) (out : ObsOutcome) : String :=
  match acceptsRun numTries closedAtStart cancelledAtStart evs out with
  | .ok () => "accept"
  | .error e => e

end Dht.Qry
