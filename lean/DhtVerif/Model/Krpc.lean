/-
Typed layer of the KRPC wire codec: the Go structs of /repo/krpc/msg.go mirrored field by
field, the reflection encoder `bencode.Marshal(krpc.Msg)` as `toBV`, the reflection decoder
`bencode.Unmarshal(_, *krpc.Msg)` as `fromBV`, and the compact binary codecs of
/repo/krpc/{nodeaddr,nodeinfo,compact_helpers,Compact*,compact-infohashes}.go.

How Go values map to the Lean structures (done by the harness' dumper):
* `[20]byte`/`[32]byte`/`[64]byte`/`[256]byte`: byte lists (`wf` fixes the length);
* pointer fields: `Option`;
* slices: `Option (List _)` exactly where nil and empty differ on the wire or in what the
  decoder returns (`want`, `values`, `salt`, `nodes`, `nodes6`); `*CompactInfohashes` is the
  pointer only (a non-nil pointer to a nil slice is `some []`);
* `Msg.IP NodeAddr` (a struct, omitted when IP is nil and Port is 0): `none` is exactly that
  state, every other state is `some ⟨IP bytes, Port⟩` (nil and empty IP then encode alike);
* `MsgArgs.V interface{}`: `Option BV` (nil interface = `none`);
* `Bep44Return.V bencode.Bytes`: raw bytes of one bencode value, held as the `BV` they
  strictly encode (`none` = nil/empty, which `omitempty` drops); raw bytes that are not a
  strict bencode value make `Marshal` emit a malformed datagram and are outside `Msg.wf`.

`omitempty` is `missinggo.IsEmptyValue`: nil slice/map (an empty non-nil slice is NOT empty),
all-zero array, all-fields-empty struct, zero scalar, nil pointer, nil interface.

Things the Go code does unguarded are explicit outcomes: `NodeInfo.UnmarshalBinary` slices
`b[20:]` without a length check (`BinResult.crash`), `marshalBinarySlice` panics when a
contact's address is not in the family of the list (`Msg.encPanics`).

Core Lean only.
-/
import DhtVerif.Model.Bencode
import DhtVerif.Gen.Facts
namespace Dht
namespace Krpc
open Benc

/-! ## Addresses and the compact binary codecs -/

def v4InV6Prefix : List UInt8 := [0,0,0,0,0,0,0,0,0,0,0xff,0xff]

/-- `net.IP.To4` (`none` = nil). -/
def ipTo4 (ip : List UInt8) : Option (List UInt8) :=
  if ip.length = 4 then some ip
  else if ip.length = 16 ∧ ip.take 12 = v4InV6Prefix then some (ip.drop 12)
  else none

/-- `net.IP.To16` (`none` = nil). -/
def ipTo16 (ip : List UInt8) : Option (List UInt8) :=
  if ip.length = 4 then some (v4InV6Prefix ++ ip)
  else if ip.length = 16 then some ip
  else none

/-- `binary.Write(_, BigEndian, uint16(port))`. -/
def be16 (p : Nat) : List UInt8 := [(p / 256 % 256).toUInt8, (p % 256).toUInt8]

/-- `binary.BigEndian.Uint16` of the (at most) two bytes given. -/
def be16dec (b : List UInt8) : Nat :=
  match b with
  | [x, y] => x.toNat * 256 + y.toNat
  | _ => 0

structure NodeAddr where
  ip : List UInt8
  port : Nat

structure NodeInfo where
  id : List UInt8
  addr : NodeAddr

/-- Outcome of a binary unmarshaler: value, returned error, or Go run-time panic. -/
inductive BinResult (α : Type) where
  | ok : α → BinResult α
  | error : BinResult α
  | crash : BinResult α

/-- `NodeAddr.MarshalBinary`. -/
def NodeAddr.marshalBinary (a : NodeAddr) : List UInt8 := a.ip ++ be16 a.port

/-- The value `NodeAddr.UnmarshalBinary` stores for an input of at least 2 bytes. -/
def NodeAddr.ofBytes (b : List UInt8) : NodeAddr :=
  ⟨b.take (b.length - 2), be16dec (b.drop (b.length - 2))⟩

/-- `(*NodeAddr).UnmarshalBinary`: fewer than 2 bytes is an error. -/
def NodeAddr.unmarshalBinary (b : List UInt8) : BinResult NodeAddr :=
  if b.length < 2 then .error else .ok (NodeAddr.ofBytes b)

/-- `NodeInfo.MarshalBinary`. -/
def NodeInfo.marshalBinary (n : NodeInfo) : List UInt8 := n.id ++ n.addr.marshalBinary

def zeros (n : Nat) : List UInt8 := List.replicate n 0

/-- `copy(dst[:], b)` into a zeroed array of `n` bytes. -/
def copyInto (n : Nat) (b : List UInt8) : List UInt8 := b.take n ++ zeros (n - b.length)

/-- The value `NodeInfo.UnmarshalBinary` stores for an input of at least 22 bytes. -/
def NodeInfo.ofBytes (b : List UInt8) : NodeInfo := ⟨b.take 20, NodeAddr.ofBytes (b.drop 20)⟩

/-- `(*NodeInfo).UnmarshalBinary`, literally: `copy(ni.ID[:], b)` then
`ni.Addr.UnmarshalBinary(b[20:])`. Without a length test (`guarded = false`, the tree as
extracted when `Gen.evNodeInfoUnmarshalBinary` starts with the `copy`) the slice expression
panics for fewer than 20 bytes. -/
def NodeInfo.unmarshalBinary (guarded : Bool) (b : List UInt8) : BinResult NodeInfo :=
  if b.length < 20 then (if guarded then .error else .crash)
  else match NodeAddr.unmarshalBinary (b.drop 20) with
    | .ok a => .ok ⟨b.take 20, a⟩
    | .error => .error
    | .crash => .crash

/-- Whether the source has a length test in front of the slice: the extracted statement
sequence of `NodeInfo.UnmarshalBinary` (regenerated on every run) contains an `if` whose
condition mentions `len(b)`. Evaluated by the driver only; the theorems are stated for both
values of the flag. -/
def nodeInfoGuarded : Bool :=
  Gen.evNodeInfoUnmarshalBinary.any (fun e => e.startsWith "if:" && (e.splitOn "len(b)").length > 1)

/-- `unmarshalBinarySlice`, literally: while bytes remain, fewer than one element is an
error, otherwise take one element. `size = 0` would loop forever in Go; the sizes are the
positive regenerated constants. -/
def decCompact (size : Nat) (b : List UInt8) : Option (List (List UInt8)) :=
  if size = 0 then none
  else if b.length = 0 then some []
  else if b.length < size then none
  else match decCompact size (b.drop size) with
    | some l => some (b.take size :: l)
    | none => none
termination_by b.length
decreasing_by simp; omega

/-- The element sizes of the five compact list types (`ElemSize` methods), from the source. -/
def compactSizes : List Nat :=
  [Gen.sizeNodeAddr4, Gen.sizeNodeAddr6, Gen.sizeNodeInfo4, Gen.sizeNodeInfo6, Gen.sizeInfohash]

/-- `marshalBinarySlice` on already marshalled elements. -/
def encCompact (l : List (List UInt8)) : List UInt8 := l.flatten

/-- `CompactIPv4NodeInfo.MarshalBinary` without the width assertion: `To4()` each address. -/
def encNodes4 (l : List NodeInfo) : List UInt8 :=
  encCompact (l.map (fun n => n.id ++ ((ipTo4 n.addr.ip).getD [] ++ be16 n.addr.port)))

/-- `CompactIPv6NodeInfo.MarshalBinary` without the width assertion: `To16()` each address. -/
def encNodes6 (l : List NodeInfo) : List UInt8 :=
  encCompact (l.map (fun n => n.id ++ ((ipTo16 n.addr.ip).getD [] ++ be16 n.addr.port)))

/-- `CompactIPv4NodeAddrs.MarshalBinary`: `To4()` only when it is not nil. -/
def encAddrs4 (l : List NodeAddr) : List UInt8 :=
  encCompact (l.map (fun a => (ipTo4 a.ip).getD a.ip ++ be16 a.port))

/-- `CompactIPv6NodeAddrs.MarshalBinary`. -/
def encAddrs6 (l : List NodeAddr) : List UInt8 :=
  encCompact (l.map (fun a => (ipTo16 a.ip).getD [] ++ be16 a.port))

/-! ## The message structures (field lists pinned to `Gen.schema*` in Props/C15) -/

/-- `krpc.Error`. -/
structure KError where
  code : Int
  msg : List UInt8

/-- `krpc.MsgArgs`. -/
structure MsgArgs where
  id : List UInt8                       -- ID ID `id`
  infoHash : List UInt8                 -- InfoHash ID `info_hash,omitempty`
  target : List UInt8                   -- Target ID `target,omitempty`
  token : List UInt8                    -- Token string `token,omitempty`
  port : Option Int                     -- Port *int `port,omitempty`
  impliedPort : Bool                    -- ImpliedPort bool `implied_port,omitempty`
  want : Option (List (List UInt8))     -- Want []Want `want,omitempty`
  noSeed : Int                          -- NoSeed int `noseed,omitempty`
  scrape : Int                          -- Scrape int `scrape,omitempty`
  v : Option BV                         -- V interface{} `v,omitempty`
  seq : Option Int                      -- Seq *int64 `seq,omitempty`
  cas : Int                             -- Cas int64 `cas,omitempty`
  k : List UInt8                        -- K [32]byte `k,omitempty`
  salt : Option (List UInt8)            -- Salt []byte `salt,omitempty`
  sig : List UInt8                      -- Sig [64]byte `sig,omitempty`

/-- `krpc.Return` with the embedded `Bep51Return` and `Bep44Return` flattened. -/
structure Return where
  id : List UInt8                       -- ID ID `id`
  nodes : Option (List NodeInfo)        -- Nodes CompactIPv4NodeInfo `nodes,omitempty`
  nodes6 : Option (List NodeInfo)       -- Nodes6 CompactIPv6NodeInfo `nodes6,omitempty`
  token : Option (List UInt8)           -- Token *string `token,omitempty`
  values : Option (List NodeAddr)       -- Values []NodeAddr `values,omitempty`
  bfsd : Option (List UInt8)            -- BFsd *ScrapeBloomFilter `BFsd,omitempty`
  bfpe : Option (List UInt8)            -- BFpe *ScrapeBloomFilter `BFpe,omitempty`
  interval : Option Int                 -- Bep51Return.Interval *int64 `interval,omitempty`
  num : Option Int                      -- Bep51Return.Num *int64 `num,omitempty`
  samples : Option (List (List UInt8))  -- Bep51Return.Samples *CompactInfohashes `samples,omitempty`
  v : Option BV                         -- Bep44Return.V bencode.Bytes `v,omitempty`
  k : List UInt8                        -- Bep44Return.K [32]byte `k,omitempty`
  sig : List UInt8                      -- Bep44Return.Sig [64]byte `sig,omitempty`
  seq : Option Int                      -- Bep44Return.Seq *int64 `seq,omitempty`

/-- `krpc.Msg`. -/
structure Msg where
  q : List UInt8                        -- Q string `q,omitempty`
  a : Option MsgArgs                    -- A *MsgArgs `a,omitempty`
  t : List UInt8                        -- T string `t`
  y : List UInt8                        -- Y string `y`
  r : Option Return                     -- R *Return `r,omitempty`
  e : Option KError                     -- E *Error `e,omitempty`
  ip : Option NodeAddr                  -- IP NodeAddr `ip,omitempty`
  readOnly : Bool                       -- ReadOnly bool `ro,omitempty`
  clientId : List UInt8                 -- ClientId string `v,omitempty`

/-- The schema rows (`GoField|type|key|omitempty|embedded`) the structures above mirror. -/
def modelSchemaMsg : List String := [
  "Q|string|q|1|0", "A|*MsgArgs|a|1|0", "T|string|t|0|0", "Y|string|y|0|0", "R|*Return|r|1|0",
  "E|*Error|e|1|0", "IP|NodeAddr|ip|1|0", "ReadOnly|bool|ro|1|0", "ClientId|string|v|1|0"]

def modelSchemaMsgArgs : List String := [
  "ID|ID|id|0|0", "InfoHash|ID|info_hash|1|0", "Target|ID|target|1|0", "Token|string|token|1|0",
  "Port|*int|port|1|0", "ImpliedPort|bool|implied_port|1|0", "Want|[]Want|want|1|0",
  "NoSeed|int|noseed|1|0", "Scrape|int|scrape|1|0", "V|interface{}|v|1|0", "Seq|*int64|seq|1|0",
  "Cas|int64|cas|1|0", "K|[32]byte|k|1|0", "Salt|[]byte|salt|1|0", "Sig|[64]byte|sig|1|0"]

def modelSchemaReturn : List String := [
  "ID|ID|id|0|0", "Nodes|CompactIPv4NodeInfo|nodes|1|0", "Nodes6|CompactIPv6NodeInfo|nodes6|1|0",
  "Token|*string|token|1|0", "Values|[]NodeAddr|values|1|0", "BFsd|*ScrapeBloomFilter|BFsd|1|0",
  "BFpe|*ScrapeBloomFilter|BFpe|1|0", "Bep51Return|Bep51Return||0|1", "Bep44Return|Bep44Return||0|1"]

def modelSchemaBep51Return : List String := [
  "Interval|*int64|interval|1|0", "Num|*int64|num|1|0", "Samples|*CompactInfohashes|samples|1|0"]

def modelSchemaBep44Return : List String := [
  "V|bencode.Bytes|v|1|0", "K|[32]byte|k|1|0", "Sig|[64]byte|sig|1|0", "Seq|*int64|seq|1|0"]

/-! ## Keys (ASCII) -/

def kA : List UInt8 := [97]                                              -- a
def kE : List UInt8 := [101]                                             -- e
def kIp : List UInt8 := [105, 112]                                       -- ip
def kQ : List UInt8 := [113]                                             -- q
def kR : List UInt8 := [114]                                             -- r
def kRo : List UInt8 := [114, 111]                                       -- ro
def kT : List UInt8 := [116]                                             -- t
def kV : List UInt8 := [118]                                             -- v
def kY : List UInt8 := [121]                                             -- y
def kCas : List UInt8 := [99, 97, 115]                                   -- cas
def kId : List UInt8 := [105, 100]                                       -- id
def kImpliedPort : List UInt8 := [105, 109, 112, 108, 105, 101, 100, 95, 112, 111, 114, 116] -- implied_port
def kInfoHash : List UInt8 := [105, 110, 102, 111, 95, 104, 97, 115, 104] -- info_hash
def kK : List UInt8 := [107]                                             -- k
def kNoseed : List UInt8 := [110, 111, 115, 101, 101, 100]               -- noseed
def kPort : List UInt8 := [112, 111, 114, 116]                           -- port
def kSalt : List UInt8 := [115, 97, 108, 116]                            -- salt
def kScrape : List UInt8 := [115, 99, 114, 97, 112, 101]                 -- scrape
def kSeq : List UInt8 := [115, 101, 113]                                 -- seq
def kSig : List UInt8 := [115, 105, 103]                                 -- sig
def kTarget : List UInt8 := [116, 97, 114, 103, 101, 116]                -- target
def kToken : List UInt8 := [116, 111, 107, 101, 110]                     -- token
def kWant : List UInt8 := [119, 97, 110, 116]                            -- want
def kBFpe : List UInt8 := [66, 70, 112, 101]                             -- BFpe
def kBFsd : List UInt8 := [66, 70, 115, 100]                             -- BFsd
def kInterval : List UInt8 := [105, 110, 116, 101, 114, 118, 97, 108]    -- interval
def kNodes : List UInt8 := [110, 111, 100, 101, 115]                     -- nodes
def kNodes6 : List UInt8 := [110, 111, 100, 101, 115, 54]                -- nodes6
def kNum : List UInt8 := [110, 117, 109]                                 -- num
def kSamples : List UInt8 := [115, 97, 109, 112, 108, 101, 115]          -- samples
def kValues : List UInt8 := [118, 97, 108, 117, 101, 115]                -- values

/-! ## Encoder: one entry constructor per Go field kind -/

/-- Keep the fields that are emitted, in the order given (sorted by key, as
`makeEncodeFields` sorts them). -/
def present : List (List UInt8 × Option BV) → List (List UInt8 × BV)
  | [] => []
  | (k, some v) :: r => (k, v) :: present r
  | (_, none) :: r => present r

/-- `string` with `omitempty`. -/
def eStr (s : List UInt8) : Option BV := if s = [] then none else some (.bytes s)
/-- `string` without `omitempty`, and `ID` without `omitempty` ("20:" + bytes). -/
def eReq (s : List UInt8) : Option BV := some (.bytes s)
/-- `*string`, `[]byte`, `*[256]byte` with `omitempty`: dropped only when nil. -/
def eOptStr (o : Option (List UInt8)) : Option BV := o.map .bytes
/-- `int`/`int64` with `omitempty`. -/
def eInt (i : Int) : Option BV := if i = 0 then none else some (.int i)
/-- `*int`/`*int64` with `omitempty`. -/
def eOptInt (o : Option Int) : Option BV := o.map .int
/-- `bool` with `omitempty`: `i1e` or nothing. -/
def eBool (b : Bool) : Option BV := if b then some (.int 1) else none
def allZero (a : List UInt8) : Bool := a.all (· == 0)
/-- `[n]byte` / `ID` with `omitempty`: dropped when every byte is zero. -/
def eArr (a : List UInt8) : Option BV := if allZero a then none else some (.bytes a)
/-- `[]Want` with `omitempty`. -/
def eWant (o : Option (List (List UInt8))) : Option BV := o.map (fun l => .list (l.map .bytes))
/-- `[]NodeAddr` with `omitempty`: each element through `NodeAddr.MarshalBencode`. -/
def eValues (o : Option (List NodeAddr)) : Option BV :=
  o.map (fun l => .list (l.map (fun a => .bytes a.marshalBinary)))
def eNodes4 (o : Option (List NodeInfo)) : Option BV := o.map (fun l => .bytes (encNodes4 l))
def eNodes6 (o : Option (List NodeInfo)) : Option BV := o.map (fun l => .bytes (encNodes6 l))
/-- `*CompactInfohashes` with `omitempty`. -/
def eSamples (o : Option (List (List UInt8))) : Option BV := o.map (fun l => .bytes (encCompact l))
/-- `NodeAddr` with `omitempty`. -/
def eAddr (o : Option NodeAddr) : Option BV := o.map (fun a => .bytes a.marshalBinary)
/-- `*Error` with `omitempty`: `Error.MarshalBencode` writes the list [code, msg]. -/
def eErr (o : Option KError) : Option BV := o.map (fun e => .list [.int e.code, .bytes e.msg])

def argsEntries (a : MsgArgs) : List (List UInt8 × Option BV) := [
  (kCas, eInt a.cas), (kId, eReq a.id), (kImpliedPort, eBool a.impliedPort),
  (kInfoHash, eArr a.infoHash), (kK, eArr a.k), (kNoseed, eInt a.noSeed), (kPort, eOptInt a.port),
  (kSalt, eOptStr a.salt), (kScrape, eInt a.scrape), (kSeq, eOptInt a.seq), (kSig, eArr a.sig),
  (kTarget, eArr a.target), (kToken, eStr a.token), (kV, a.v), (kWant, eWant a.want)]

def argsToBV (a : MsgArgs) : BV := .dict (present (argsEntries a))

def returnEntries (r : Return) : List (List UInt8 × Option BV) := [
  (kBFpe, eOptStr r.bfpe), (kBFsd, eOptStr r.bfsd), (kId, eReq r.id), (kInterval, eOptInt r.interval),
  (kK, eArr r.k), (kNodes, eNodes4 r.nodes), (kNodes6, eNodes6 r.nodes6), (kNum, eOptInt r.num),
  (kSamples, eSamples r.samples), (kSeq, eOptInt r.seq), (kSig, eArr r.sig), (kToken, eOptStr r.token),
  (kV, r.v), (kValues, eValues r.values)]

def returnToBV (r : Return) : BV := .dict (present (returnEntries r))

def msgEntries (m : Msg) : List (List UInt8 × Option BV) := [
  (kA, m.a.map argsToBV), (kE, eErr m.e), (kIp, eAddr m.ip), (kQ, eStr m.q), (kR, m.r.map returnToBV),
  (kRo, eBool m.readOnly), (kT, eReq m.t), (kV, eStr m.clientId), (kY, eReq m.y)]

/-- `bencode.Marshal(m)` as a value. -/
def toBV (m : Msg) : BV := .dict (present (msgEntries m))

/-- The datagram. -/
def encodeMsg (m : Msg) : List UInt8 := enc (toBV m)

/-- `marshalBinarySlice` panics ("marshalled n bytes, but expected m") when an element of
`nodes` has no `To4()` form or an element of `nodes6` no `To16()` form. -/
def famOk4 (l : List NodeInfo) : Bool := l.all (fun n => (ipTo4 n.addr.ip).isSome)
def famOk6 (l : List NodeInfo) : Bool := l.all (fun n => (ipTo16 n.addr.ip).isSome)
def Return.encPanics (r : Return) : Bool :=
  !(((r.nodes.map famOk4).getD true) && ((r.nodes6.map famOk6).getD true))
def Msg.encPanics (m : Msg) : Bool := (m.r.map Return.encPanics).getD false

/-! ## Decoder -/

/-- Outcome of decoding a well-formed bencode value into a `Msg`: `err` = the Go decoder
certainly returns an error; `unmodelled` = a shape whose Go behaviour is not transcribed
(a list or dictionary where a scalar field is expected and vice versa: singleton-list
coercion, `de` read as a zero value; non-canonical dictionaries). An integer where a string,
list or dictionary field is expected, and a string where an integer, list or dictionary field
is expected, is an `UnmarshalTypeError` on every path and modelled as `err`. -/
inductive DecodeResult (α : Type) where
  | ok : α → DecodeResult α
  | err : DecodeResult α
  | unmodelled : DecodeResult α

def DecodeResult.bind {α β : Type} (x : DecodeResult α) (f : α → DecodeResult β) : DecodeResult β :=
  match x with
  | .ok a => f a
  | .err => .err
  | .unmodelled => .unmodelled

instance : Monad DecodeResult where
  pure := .ok
  bind := DecodeResult.bind

/-- First value stored under `k`. -/
def get (k : List UInt8) : List (List UInt8 × BV) → Option BV
  | [] => none
  | (k', v) :: r => if k' = k then some v else get k r

def int64Min : Int := -9223372036854775808
def int64Max : Int := 9223372036854775807
/-- `strconv.ParseInt(s, 10, 64)` succeeds. -/
def inI64 (i : Int) : Bool := int64Min ≤ i && i ≤ int64Max

/-- `string` field. -/
def getStr : Option BV → DecodeResult (List UInt8)
  | none => .ok []
  | some (.bytes b) => .ok b
  | some (.int _) => .err
  | some _ => .unmodelled

/-- `*string` / `[]byte` field. -/
def getOptStr : Option BV → DecodeResult (Option (List UInt8))
  | none => .ok none
  | some (.bytes b) => .ok (some b)
  | some (.int _) => .err
  | some _ => .unmodelled

/-- `ID.UnmarshalBencode`: `copy(id[:], s)` must copy 20 bytes; longer strings are cut. -/
def getId : Option BV → DecodeResult (List UInt8)
  | none => .ok (zeros 20)
  | some (.bytes b) => if b.length < 20 then .err else .ok (b.take 20)
  | some (.int _) => .err
  | some _ => .unmodelled

/-- `[n]byte` field: `reflect.Copy` of any string into the zeroed array. -/
def getArr (n : Nat) : Option BV → DecodeResult (List UInt8)
  | none => .ok (zeros n)
  | some (.bytes b) => .ok (copyInto n b)
  | some (.int _) => .err
  | some _ => .unmodelled

/-- `*[n]byte` field. -/
def getOptArr (n : Nat) : Option BV → DecodeResult (Option (List UInt8))
  | none => .ok none
  | some (.bytes b) => .ok (some (copyInto n b))
  | some (.int _) => .err
  | some _ => .unmodelled

/-- `int` / `int64` field: out of range is a syntax error. -/
def getInt : Option BV → DecodeResult Int
  | none => .ok 0
  | some (.int i) => if inI64 i then .ok i else .err
  | some (.bytes _) => .err
  | some _ => .unmodelled

def getOptInt : Option BV → DecodeResult (Option Int)
  | none => .ok none
  | some (.int i) => if inI64 i then .ok (some i) else .err
  | some (.bytes _) => .err
  | some _ => .unmodelled

/-- `bool` field: `s != "0"` on the integer text, no range check. -/
def getBool : Option BV → DecodeResult Bool
  | none => .ok false
  | some (.int i) => .ok (i != 0)
  | some (.bytes _) => .err
  | some _ => .unmodelled

def allBytes : List BV → Option (List (List UInt8))
  | [] => some []
  | .bytes b :: r => (allBytes r).map (b :: ·)
  | _ :: _ => none

/-- Some element is a list or a dictionary (coercions not transcribed). -/
def anyNested : List BV → Bool
  | [] => false
  | .list _ :: _ => true
  | .dict _ :: _ => true
  | _ :: r => anyNested r

/-- `[]Want` field. -/
def getWant : Option BV → DecodeResult (Option (List (List UInt8)))
  | none => .ok none
  | some (.list l) =>
    match allBytes l with
    | some ss => .ok (some ss)
    | none => if anyNested l then .unmodelled else .err
  | some (.int _) => .err
  | some (.bytes _) => .err
  | some _ => .unmodelled

/-- `[]NodeAddr` field: each string through `NodeAddr.UnmarshalBinary`. -/
def getValues : Option BV → DecodeResult (Option (List NodeAddr))
  | none => .ok none
  | some (.list l) =>
    match allBytes l with
    | some ss => if ss.all (fun s => 2 ≤ s.length) then .ok (some (ss.map NodeAddr.ofBytes)) else .err
    | none => if anyNested l then .unmodelled else .err
  | some (.int _) => .err
  | some (.bytes _) => .err
  | some _ => .unmodelled

/-- `CompactIPv4NodeInfo` / `CompactIPv6NodeInfo` field; an empty string leaves the slice nil. -/
def getNodes (size : Nat) : Option BV → DecodeResult (Option (List NodeInfo))
  | none => .ok none
  | some (.bytes b) =>
    match decCompact size b with
    | some [] => .ok none
    | some cs => .ok (some (cs.map NodeInfo.ofBytes))
    | none => .err
  | some (.int _) => .err
  | some _ => .unmodelled

/-- `*CompactInfohashes` field. -/
def getSamples (size : Nat) : Option BV → DecodeResult (Option (List (List UInt8)))
  | none => .ok none
  | some (.bytes b) =>
    match decCompact size b with
    | some cs => .ok (some cs)
    | none => .err
  | some (.int _) => .err
  | some _ => .unmodelled

/-- `NodeAddr` field (`Msg.IP`). -/
def getAddr : Option BV → DecodeResult (Option NodeAddr)
  | none => .ok none
  | some (.bytes b) => if b.length < 2 then .err else .ok (some (NodeAddr.ofBytes b))
  | some (.int _) => .err
  | some _ => .unmodelled

/-- `Error.UnmarshalBencode`: a list [int64, string, …] or a bare string; anything else is
an error (`v[0].(int64)`, `v[1].(string)` under `recover`, or the `default` branch). -/
def getErr : Option BV → DecodeResult (Option KError)
  | none => .ok none
  | some (.bytes s) => .ok (some ⟨0, s⟩)
  | some (.list (.int c :: .bytes s :: _)) => if inI64 c then .ok (some ⟨c, s⟩) else .err
  | some _ => .err

def argsFromDict (d : List (List UInt8 × BV)) : DecodeResult MsgArgs := do
  let id ← getId (get kId d)
  let infoHash ← getId (get kInfoHash d)
  let target ← getId (get kTarget d)
  let token ← getStr (get kToken d)
  let port ← getOptInt (get kPort d)
  let impliedPort ← getBool (get kImpliedPort d)
  let want ← getWant (get kWant d)
  let noSeed ← getInt (get kNoseed d)
  let scrape ← getInt (get kScrape d)
  let seq ← getOptInt (get kSeq d)
  let cas ← getInt (get kCas d)
  let k ← getArr 32 (get kK d)
  let salt ← getOptStr (get kSalt d)
  let sig ← getArr 64 (get kSig d)
  pure { id, infoHash, target, token, port, impliedPort, want, noSeed, scrape, v := get kV d, seq, cas, k, salt, sig }

def getArgs : Option BV → DecodeResult (Option MsgArgs)
  | none => .ok none
  | some (.dict d) => (argsFromDict d).bind (fun a => .ok (some a))
  | some (.int _) => .err
  | some (.bytes _) => .err
  | some _ => .unmodelled

def returnFromDict (d : List (List UInt8 × BV)) : DecodeResult Return := do
  let id ← getId (get kId d)
  let nodes ← getNodes Gen.sizeNodeInfo4 (get kNodes d)
  let nodes6 ← getNodes Gen.sizeNodeInfo6 (get kNodes6 d)
  let token ← getOptStr (get kToken d)
  let values ← getValues (get kValues d)
  let bfsd ← getOptArr 256 (get kBFsd d)
  let bfpe ← getOptArr 256 (get kBFpe d)
  let interval ← getOptInt (get kInterval d)
  let num ← getOptInt (get kNum d)
  let samples ← getSamples Gen.sizeInfohash (get kSamples d)
  let k ← getArr 32 (get kK d)
  let sig ← getArr 64 (get kSig d)
  let seq ← getOptInt (get kSeq d)
  pure { id, nodes, nodes6, token, values, bfsd, bfpe, interval, num, samples, v := get kV d, k, sig, seq }

def getReturn : Option BV → DecodeResult (Option Return)
  | none => .ok none
  | some (.dict d) => (returnFromDict d).bind (fun r => .ok (some r))
  | some (.int _) => .err
  | some (.bytes _) => .err
  | some _ => .unmodelled

def msgFromDict (d : List (List UInt8 × BV)) : DecodeResult Msg := do
  let q ← getStr (get kQ d)
  let a ← getArgs (get kA d)
  let t ← getStr (get kT d)
  let y ← getStr (get kY d)
  let r ← getReturn (get kR d)
  let e ← getErr (get kE d)
  let ip ← getAddr (get kIp d)
  let readOnly ← getBool (get kRo d)
  let clientId ← getStr (get kV d)
  pure { q, a, t, y, r, e, ip, readOnly, clientId }

/-- `bencode.Unmarshal(_, &msg)` on the value a strictly valid datagram denotes. Unknown keys
are ignored. A top-level integer or string is a type error; a top-level list would go through
the singleton coercion (not transcribed). Values with unsorted or duplicate keys never come
out of the strict parser and are not judged. -/
def fromBV (b : BV) : DecodeResult Msg :=
  if Benc.wf b then
    match b with
    | .dict d => msgFromDict d
    | .list _ => .unmodelled
    | _ => .err
  else .unmodelled

/-- `bencode.Unmarshal(datagram, &msg)`: the strict parser, then the typed layer; the second
component is the number of unused trailing bytes (`ErrUnusedTrailingBytes`, which the server
tolerates). Input the strict parser rejects is an error when no decoder path could consume a
value from it (`hopeless`); otherwise it is merely non-canonical somewhere, which the typed Go
decoder partly tolerates, and is not judged by the model. -/
def decodeMsg (bs : List UInt8) : DecodeResult (Msg × Nat) :=
  match decode bs with
  | some (b, rest) => (fromBV b).bind (fun m => .ok (m, rest.length))
  | none => if hopeless bs then .err else .unmodelled

/-! ## Well-formed messages and what the wire cannot carry -/

def portOk (p : Nat) : Bool := p < 65536

def MsgArgs.wf (a : MsgArgs) : Bool :=
  a.id.length == 20 && a.infoHash.length == 20 && a.target.length == 20 &&
  ((a.port.map inI64).getD true) && inI64 a.noSeed && inI64 a.scrape &&
  ((a.v.map Benc.wf).getD true) && ((a.seq.map inI64).getD true) && inI64 a.cas &&
  a.k.length == 32 && a.sig.length == 64

def nodeOk4 (n : NodeInfo) : Bool := n.id.length == 20 && (ipTo4 n.addr.ip).isSome && portOk n.addr.port
def nodeOk6 (n : NodeInfo) : Bool := n.id.length == 20 && (ipTo16 n.addr.ip).isSome && portOk n.addr.port

def Return.wf (r : Return) : Bool :=
  r.id.length == 20 &&
  ((r.nodes.map (·.all nodeOk4)).getD true) && ((r.nodes6.map (·.all nodeOk6)).getD true) &&
  ((r.values.map (·.all (fun a => portOk a.port))).getD true) &&
  ((r.bfsd.map (·.length == 256)).getD true) && ((r.bfpe.map (·.length == 256)).getD true) &&
  ((r.interval.map inI64).getD true) && ((r.num.map inI64).getD true) &&
  ((r.samples.map (·.all (·.length == 20))).getD true) &&
  ((r.v.map Benc.wf).getD true) && r.k.length == 32 && r.sig.length == 64 &&
  ((r.seq.map inI64).getD true)

/-- Well-formed message: arrays of their fixed size, contacts in the family of the list that
holds them, ports in 0..65535, integers in the range of their Go type, embedded bencode
values well-formed. -/
def Msg.wf (m : Msg) : Bool :=
  ((m.a.map MsgArgs.wf).getD true) && ((m.r.map Return.wf).getD true) &&
  ((m.e.map (fun e => inI64 e.code)).getD true) && ((m.ip.map (fun a => portOk a.port)).getD true)

def canonNode4 (n : NodeInfo) : NodeInfo := ⟨n.id, ⟨(ipTo4 n.addr.ip).getD [], n.addr.port⟩⟩
def canonNode6 (n : NodeInfo) : NodeInfo := ⟨n.id, ⟨(ipTo16 n.addr.ip).getD [], n.addr.port⟩⟩

/-- An empty compact list decodes to nil; addresses come back in the list's own width. -/
def canonNodes (f : NodeInfo → NodeInfo) : Option (List NodeInfo) → Option (List NodeInfo)
  | none => none
  | some [] => none
  | some l => some (l.map f)

def Return.canon (r : Return) : Return :=
  { r with nodes := canonNodes canonNode4 r.nodes, nodes6 := canonNodes canonNode6 r.nodes6 }

/-- What decoding the encoding of `m` returns: only `nodes`/`nodes6` change (empty → nil,
v4-mapped → 4 bytes in `nodes`, 4 bytes → v4-mapped in `nodes6`). -/
def Msg.canon (m : Msg) : Msg := { m with r := m.r.map Return.canon }

end Krpc
end Dht
