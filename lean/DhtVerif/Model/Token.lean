/-
Model of /repo/tokens.go. Time is `time.Time.UnixNano()` as a `Nat` (instants
after 1970; for those Go's truncating `/` agrees with `Nat` division, and the
model requires `now ≥ maxDelta * interval` so that `t.Add(-interval)` stays
non-negative). SHA-1 is the parameter `H`.
-/
import DhtVerif.Gen.Facts
namespace Dht

/-- `binary.BigEndian.PutUint64`. -/
def be64 (n : Nat) : List UInt8 :=
  [(n / 2^56 % 256).toUInt8, (n / 2^48 % 256).toUInt8, (n / 2^40 % 256).toUInt8, (n / 2^32 % 256).toUInt8,
   (n / 2^24 % 256).toUInt8, (n / 2^16 % 256).toUInt8, (n / 2^8 % 256).toUInt8, (n % 256).toUInt8]

/-- `net.IP.To16` for 4- and 16-byte inputs (`none`: the Go code panics). -/
def to16 (ip : List UInt8) : Option (List UInt8) :=
  if ip.length = 4 then some ([0,0,0,0,0,0,0,0,0,0,0xff,0xff] ++ ip)
  else if ip.length = 16 then some ip
  else none

structure TokenServer where
  secret   : List UInt8
  interval : Nat
  maxDelta : Nat

/-- `tokenServer.createToken(addr, t)`. -/
def TokenServer.create (H : List UInt8 → List UInt8) (s : TokenServer) (ip16 : List UInt8) (t : Nat) : List UInt8 :=
  H (ip16 ++ be64 (t / s.interval) ++ s.secret)

/-- `tokenServer.ValidToken`: current interval and up to `maxDelta` earlier ones. -/
def TokenServer.valid (H : List UInt8 → List UInt8) (s : TokenServer) (tok ip16 : List UInt8) (now : Nat) : Bool :=
  (List.range (s.maxDelta + 1)).any (fun d => s.create H ip16 (now - d * s.interval) == tok)

/-- The server's token parameters, from the regenerated facts. -/
def TokenServer.ofGen (secret : List UInt8) : TokenServer :=
  ⟨secret, Gen.tokenIntervalNs, Gen.tokenMaxDelta⟩

end Dht
