/-
Model of /repo/exts/getput/getput.go — the CLIENT side of BEP 44 (C12, last sentence).

* `accept`   — the accept rule in the `DoQuery` closure of `startGetTraversal`, transcribed
               literally: what the closure sends on `vChan` for one query result.
* `getLoop` / `getFold` — the `receiveResults` loop of `Get` over the results in the order in
               which they arrive on `vChan` (the arrival order is the scheduler's and the
               network's choice: the theorems quantify over ALL sequences).
* `putAutoSeq` — the `notDone` loop of `Put`.
* `closestEntry` — what the closure hands the traversal for its closest-nodes set (`Put` later
               reads the token back from there).

SHA-1 (`H`) and ed25519 verification (`verify`) are PARAMETERS. `bufferToSign` is the one of
DhtVerif/Model/Bep44.lean (bep44.Verify = ed25519.Verify(k, bufferToSign(salt, bv, seq), sig)).

What one query contributes is an `Event`: `none` when `res.Reply.R == nil` (KRPC error reply,
time-out, cancelled, undecodable datagram), `some reply` otherwise.
-/
import DhtVerif.Model.Bep44
namespace Dht.Getput
open Dht.B44

/-- What the closure reads of `res.Reply.R` (`krpc.Return` with its `Bep44Return`).
`v`: the raw bencoding found under `v` (`bencode.Bytes`), `none` = absent (Go: nil slice);
`k`, `sig`: the `[32]byte` / `[64]byte` arrays as decoded (absent = all zero);
`seq`: `*int64`; `token`: `*string`. -/
structure GetReply where
  v     : Option Bytes
  k     : Bytes
  sig   : Bytes
  seq   : Option Int
  token : Option Bytes
deriving DecidableEq, Repr

/-- `getput.GetResult`. -/
structure GetResult where
  seq       : Int
  v         : Option Bytes
  sig       : Bytes
  isMutable : Bool
deriving DecidableEq, Repr

abbrev Event := Option GetReply

/-- `bv := rv` used as a byte slice: a nil slice hashes and signs as the empty string. -/
def GetReply.bv (r : GetReply) : Bytes := r.v.getD []

/-- The accept rule. Go:
```
if sha1.Sum(bv) == target                      { vChan <- GetResult{V: rv, Sig: r.Sig, Mutable: false} }
else if r.Seq != nil && sha1.Sum(append(r.K[:], salt...)) == target &&
        bep44.Verify(r.K[:], salt, *r.Seq, bv, r.Sig[:])
                                               { vChan <- GetResult{Seq: *r.Seq, V: rv, Sig: r.Sig, Mutable: true} }
else                                           { nothing } ``` -/
def accept (H : Bytes → Target) (verify : Key → Bytes → Bytes → Bool) (target : Target) (salt : Bytes)
    (r : GetReply) : Option GetResult :=
  if H r.bv = target then some ⟨0, r.v, r.sig, false⟩
  else match r.seq with
    | none => none
    | some q =>
      if H (r.k ++ salt) = target ∧ verify r.k (bufferToSign salt q r.bv) r.sig = true
      then some ⟨q, r.v, r.sig, true⟩
      else none

/-- What one query puts on `vChan`. -/
def acceptEv (H : Bytes → Target) (verify : Key → Bytes → Bytes → Bool) (target : Target) (salt : Bytes)
    (e : Event) : Option GetResult :=
  e.bind (accept H verify target salt)

/-- The sequence `Get` / `Put` receive on `vChan`, for the queries' outcomes in arrival order. -/
def results (H : Bytes → Target) (verify : Key → Bytes → Bytes → Bool) (target : Target) (salt : Bytes)
    (evs : List Event) : List GetResult :=
  evs.filterMap (acceptEv H verify target salt)

/-- `math.MinInt64`, the value `Get` starts `ret.Seq` with. -/
def minInt64 : Int := -9223372036854775808
def maxInt64 : Int := 9223372036854775807

/-- `ret` before the first result: the zero `GetResult` with `Seq = math.MinInt64`. -/
def initResult : GetResult := ⟨minInt64, none, List.replicate 64 0, false⟩

/-- The `receiveResults` loop: `(ret, gotValue)` when it leaves the loop. An immutable result
ends it at once (`ret = v; break`); a mutable one replaces `ret` iff `v.Seq >= ret.Seq`; the end
of the list is `op.Stalled()`. -/
def getLoop : GetResult → Bool → List GetResult → GetResult × Bool
  | ret, got, [] => (ret, got)
  | ret, _, v :: rest =>
    if !v.isMutable then (v, true)
    else if v.seq ≥ ret.seq then getLoop v true rest
    else getLoop ret true rest

/-- What `Get` hands its caller: `none` = the error "value not found". -/
def getFold (rs : List GetResult) : Option GetResult :=
  let out := getLoop initResult false rs
  if out.2 then some out.1 else none

/-- `getput.Get` on the outcomes of its queries in arrival order (no context cancellation). -/
def clientGet (H : Bytes → Target) (verify : Key → Bytes → Bytes → Bool) (target : Target) (salt : Bytes)
    (evs : List Event) : Option GetResult :=
  getFold (results H verify target salt evs)

/-- The `notDone` loop of `Put`: `var autoSeq int64` (0), `if v.Mutable && v.Seq > autoSeq`. -/
def putAutoSeq (rs : List GetResult) : Int :=
  rs.foldl (fun a v => if v.isMutable ∧ v.seq > a then v.seq else a) 0

/-- `getput.Put`: the number handed to the `seqToPut` callback. -/
def putSeq (H : Bytes → Target) (verify : Key → Bytes → Bytes → Bool) (target : Target) (salt : Bytes)
    (evs : List Event) : Int :=
  putAutoSeq (results H verify target salt evs)

/-- The scheduler decides the arrival order; this is the decidable statement of which outcomes
of `Get` are possible for a given MULTISET of results (used when the arrival order could not be
observed): "not found" iff there is none; an immutable one iff it is among them; a mutable one
iff all are mutable and it carries the largest sequence number. -/
def getAllowed (rs : List GetResult) : Option GetResult → Bool
  | none => rs.isEmpty
  | some res =>
    rs.contains res &&
      (if res.isMutable then rs.all (fun x => x.isMutable && decide (x.seq ≤ res.seq)) else true)

/-- Does the closure's filter "replies from nodes that don't have a string token" take effect?
`false` = the literal meaning of /repo/exts/getput/getput.go:
```
tqr.ClosestData, _ = tqr.ClosestData.(string)   // stores a Go string in the interface: never nil
if tqr.ClosestData == nil { tqr.ResponseFrom = nil }   // hence never taken
```
so a responder WITHOUT a token stays a candidate for the closest set, with the empty string as
its token, and `Put` later sends it a `put` without token. Flip to `true` when the test is
repaired (e.g. `tok, ok := tqr.ClosestData.(string); if !ok { tqr.ResponseFrom = nil }`). -/
def tokenFilterEffective : Bool := false

/-- What the closure leaves in the traversal result for the closest-nodes set: `some data` —
the responder is offered to the closest set with this token string; `none` — no response
(no `r`), or (repaired code) a response without token. -/
def closestEntryWith (effective : Bool) (e : Event) : Option Bytes :=
  e.bind (fun r => match r.token with
    | some t => some t
    | none => if effective then none else some [])

def closestEntry (e : Event) : Option Bytes := closestEntryWith tokenFilterEffective e

end Dht.Getput
