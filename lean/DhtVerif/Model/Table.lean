/-
Model of the routing table: /repo/table.go, bucket.go, node.go and the
server-level policy in server.go (`updateNode`, `addNode`, `nodeIsBad`,
`IsGood`, `closestNodes`, `numNodes`, `numGoodNodes`, `notBadNodes`).

The 160 buckets (Go maps keyed by node pointer) are one flat list; the bucket
an entry sits in is `bucketIndex root id`, and a bucket's contents are the
entries with that index. Map iteration order, which decides *which*
droppable entry a full-bucket insertion evicts and in which order a bucket is
walked, is modelled by an explicit choice / a relation.

Time: an explicit clock in ns. `time.Since(zero time)` saturates, so an unset
timestamp never counts as recent; timestamps are `Option Nat`.
-/
import DhtVerif.Model.Int160
import DhtVerif.Model.Security
namespace Dht

/-- A `dht.Addr` built from a UDP source address: raw IP bytes and port. -/
structure NAddr where
  ip   : List UInt8
  port : Nat
deriving DecidableEq, Repr, Inhabited

/-- What `Addr.String()` distinguishes: a v4-mapped 16-byte IP prints like the
4-byte one, everything else by its bytes. -/
def NAddr.key (a : NAddr) : List UInt8 × Nat :=
  (match to4 a.ip with | some v4 => v4 | none => a.ip, a.port)

structure Node where
  id        : Id
  addr      : NAddr
  lastQuery : Option Nat := none     -- `lastGotQuery`
  lastResp  : Option Nat := none     -- `lastGotResponse`
  failed    : Bool := false          -- `failedLastQuestionablePing`
deriving DecidableEq, Repr, Inhabited

structure TableCfg where
  root       : Id
  k          : Nat := Gen.tableK
  noSecurity : Bool := true
  window     : Nat := Gen.goodWindowsNs.headD 0
deriving Repr

abbrev Table := List Node

/-- `node.hasAddrAndID`. -/
def Node.is (n : Node) (addr : NAddr) (id : Id) : Bool := n.id == id && n.addr.key == addr.key

/-- `node.IsSecure`; an address that makes `crcIP` index out of range cannot
reach here (sources are UDP addresses), it is treated as not secure. -/
def Node.isSecure (n : Node) : Bool := (nodeIdSecure n.id n.addr.ip).getD false

/-- `Server.nodeIsBad`. -/
def isBad (c : TableCfg) (n : Node) : Bool :=
  n.id == c.root || n.id.isZero || !(c.noSecurity || n.isSecure) || n.failed

def recent (c : TableCfg) (now : Nat) : Option Nat → Bool
  | none => false
  | some t => decide (now - t < c.window)

/-- `Server.IsGood` (BEP 5): not bad, and responded within the window, or
ever responded and queried us within the window. -/
def isGood (c : TableCfg) (now : Nat) (n : Node) : Bool :=
  !isBad c n && (recent c now n.lastResp || (n.lastResp.isSome && recent c now n.lastQuery))

/-- `Server.IsQuestionable`. -/
def isQuestionable (c : TableCfg) (now : Nat) (n : Node) : Bool := !isGood c now n && !isBad c n

/-- The bucket an entry belongs to (`none` for the root ID, where Go panics). -/
def Node.bucket (c : TableCfg) (n : Node) : Option Nat := bucketIndex c.root n.id

def bucketNodes (c : TableCfg) (t : Table) (i : Nat) : List Node := t.filter (fun n => n.bucket c == some i)

/-- `table.getNode`. -/
def getNode (c : TableCfg) (t : Table) (addr : NAddr) (id : Id) : Option Node :=
  if id == c.root then none else t.find? (·.is addr id)

/-- Entries of the newcomer's bucket that `Server.addNode` may evict: bad
ones, and never-responded ones when the newcomer is good. -/
def droppable (c : TableCfg) (now : Nat) (t : Table) (n : Node) : List Node :=
  match n.bucket c with
  | none => []
  | some i => (bucketNodes c t i).filter (fun bn => isBad c bn || (isGood c now n && bn.lastResp.isNone))

inductive AddOutcome where
  | unchanged (why : String)
  | updated                   -- entry was present, fields updated in place
  | added                     -- room in the bucket
  | replaced (dropped : Node) -- full bucket, one droppable entry evicted
deriving Repr, DecidableEq

/--
`Server.updateNode` + `Server.addNode` + `table.addNode`. `choice` resolves the
map-iteration nondeterminism: which droppable entry is met first in a full
bucket. Returns the new table and what happened; `none` = one of the `panic`s
in table.go / `Server.addNode` would fire.
-/
def updateNode (c : TableCfg) (now : Nat) (t : Table) (addr : NAddr) (id : Option Id) (tryAdd : Bool)
    (upd : Node → Node) (choice : Option Node) : Option (Table × AddOutcome) :=
  match id with
  | none => some (t, .unchanged "id is nil")
  | some id =>
    match getNode c t addr id with
    | some _ => some (t.map (fun n => if n.is addr id then upd n else n), .updated)
    | none =>
      if !tryAdd then some (t, .unchanged "not present and add flag false")
      else if id == c.root then some (t, .unchanged "own id")
      else
        let n := upd { id := id, addr := addr }
        if isBad c n then some (t, .unchanged "node is bad")
        else match n.bucket c with
        | none => none
        | some i =>
          if (bucketNodes c t i).length < c.k then some (t ++ [n], .added)
          else
            let ds := droppable c now t n
            if ds.isEmpty then some (t, .unchanged "no room in bucket")
            else match choice with
              | none => none
              | some d =>
                if ds.contains d then
                  let t' := t.filter (fun x => !(x == d))
                  -- `table.addNode` re-checks presence and room; both hold here
                  if (bucketNodes c t' i).length < c.k then some (t' ++ [n], .replaced d) else none
                else none

/-! ### The events that touch the table -/

def onQuery (now : Nat) (n : Node) : Node := { n with lastQuery := some now }
def onResponse (now : Nat) (n : Node) : Node := { n with lastResp := some now, failed := false }
def onPingFailed (n : Node) : Node := { n with failed := true }

inductive TblEv where
  /-- inbound query from `src` carrying sender ID `id` (none: no args dict), `ro` flag -/
  | recvQuery (src : NAddr) (id : Option Id) (ro : Bool) (choice : Option Node)
  /-- response matched to a pending transaction -/
  | recvResponse (src : NAddr) (id : Option Id) (ro : Bool) (choice : Option Node)
  /-- `Server.AddNode` with a non-zero ID -/
  | apiAdd (addr : NAddr) (id : Id) (choice : Option Node)
  /-- questionable-node ping timed out -/
  | pingFailed (addr : NAddr) (id : Id)
  /-- time passes -/
  | advance (d : Nat)
deriving Repr

structure TblState where
  now   : Nat := 0
  table : Table := []
deriving Repr

def TblState.step (c : TableCfg) (s : TblState) : TblEv → Option (TblState × AddOutcome)
  | .recvQuery src id ro ch =>
    (updateNode c s.now s.table src id (!ro) (onQuery s.now) ch).map (fun r => ({ s with table := r.1 }, r.2))
  | .recvResponse src id ro ch =>
    (updateNode c s.now s.table src id (!ro) (onResponse s.now) ch).map (fun r => ({ s with table := r.1 }, r.2))
  | .apiAdd addr id ch =>
    (updateNode c s.now s.table addr (some id) true (fun n => n) ch).map (fun r => ({ s with table := r.1 }, r.2))
  | .pingFailed addr id =>
    (updateNode c s.now s.table addr (some id) false onPingFailed none).map (fun r => ({ s with table := r.1 }, r.2))
  | .advance d => some ({ s with now := s.now + d }, .unchanged "time")

/-- Run a history; `none` if some step would panic (or was given an impossible choice). -/
def TblState.run (c : TableCfg) : TblState → List TblEv → Option TblState
  | s, [] => some s
  | s, e :: es => match s.step c e with
    | none => none
    | some (s', _) => TblState.run c s' es

/-! ### What the API reports -/

def numNodes (t : Table) : Nat := t.length
def numGoodNodes (c : TableCfg) (now : Nat) (t : Table) : Nat := (t.filter (isGood c now)).length
def notBadNodes (c : TableCfg) (t : Table) : List Node := t.filter (fun n => !isBad c n)

/-! ### Node selection for replies: `table.closestNodes` via `closestGoodNodeInfos` -/

/-- Start bucket of the walk: the target's bucket, or the last bucket for the own ID. -/
def startBucket (c : TableCfg) (target : Id) : Nat :=
  match bucketIndex c.root target with
  | some i => i
  | none => 159

/-- Entries of bucket `i` that may be returned: good and of the wanted family. -/
def eligible (c : TableCfg) (now : Nat) (t : Table) (fam : Node → Bool) (i : Nat) : List Node :=
  (bucketNodes c t i).filter (fun n => isGood c now n && fam n)

/--
Is `ret` a possible result of `closestNodes k target filter`? Walk buckets
from `start` downwards; whole buckets (in any internal order) while fewer than
`k` have been collected; cut to `k`. Decidable transcription, by recursion on
the bucket index: `got` = number collected so far, `rest` = the not yet
explained suffix of `ret`.
-/
def walkAllowed (c : TableCfg) (now : Nat) (t : Table) (fam : Node → Bool) (k : Nat) :
    Nat → Nat → List Node → Bool
  | 0, got, rest =>
    -- bucket 0 is the last one visited
    if got ≥ k then rest.isEmpty else
    let el := eligible c now t fam 0
    let need := min (k - got) el.length
    rest.length == need && rest.all el.contains && rest.Nodup
  | i + 1, got, rest =>
    if got ≥ k then rest.isEmpty else
    let el := eligible c now t fam (i + 1)
    if got + el.length ≥ k then
      -- this bucket fills the quota: any `k - got` of its eligible entries
      rest.length == k - got && rest.all el.contains && rest.Nodup
    else
      -- whole bucket, then continue below
      let here := rest.take el.length
      here.length == el.length && here.all el.contains && here.Nodup &&
      walkAllowed c now t fam k i (got + el.length) (rest.drop el.length)

def closestAllowed (c : TableCfg) (now : Nat) (t : Table) (fam : Node → Bool) (k : Nat) (target : Id)
    (ret : List Node) : Bool :=
  walkAllowed c now t fam k (startBucket c target) 0 ret

/-- A deterministic instance: take entries in table order. -/
def walkDet (c : TableCfg) (now : Nat) (t : Table) (fam : Node → Bool) (k : Nat) : Nat → List Node → List Node
  | 0, acc => if acc.length ≥ k then acc.take k else (acc ++ eligible c now t fam 0).take k
  | i + 1, acc =>
    if acc.length ≥ k then acc.take k else walkDet c now t fam k i (acc ++ eligible c now t fam (i + 1))

def closestDet (c : TableCfg) (now : Nat) (t : Table) (fam : Node → Bool) (k : Nat) (target : Id) : List Node :=
  walkDet c now t fam k (startBucket c target) []

end Dht
