/-
Model of /repo/traversal/operation.go.

Every event is one critical section of the Go code (everything between a
`Lock` and its `Unlock` of `op.mu`) or one blocking point:

* `addNodes`      – `AddNodes` / `AddNode` called from outside or by a query goroutine
* `runEval`       – one pass of the `run` loop body: start queries while fewer than
                    Alpha are in flight and `haveQuery`, compute the stalled offer,
                    take the wake-up channel (`cond.Signaled()`), unlock
* `runWake`       – the `select` of the run loop returns (broadcast seen, stop seen,
                    or the stalled offer was received)
* `queryReturn`   – `DoQuery` returns for an in-flight address
* `addClosest`    – the responder is offered to the closest set
* `addReplyNodes` – `AddNodes(res.Nodes)` / `AddNodes(res.Nodes6)`
* `finish`        – the deferred `outstanding--; cond.Broadcast()`
* `stop`, `stopperStep` – `Stop()` and its waiter goroutine

`chansync.BroadcastCond` is a generation counter: `Broadcast` increments it,
`Signaled()` captures it, a sleeper on generation `g` can be woken iff the
current generation exceeds `g`. The order in which `runEval` performs its
steps is the order of the source (regenerated fact `Gen.evRun`, see Props/C03).

The model describes the code *with* the repair of DESIGN.md F3: a candidate
whose address has already been queried (it was reported under several IDs) is
discarded when it is taken from the frontier instead of being queried again.
-/
import DhtVerif.Model.Containers
import DhtVerif.Gen.Facts
namespace Dht

/-- What a query returned (`traversal.QueryResult`). -/
structure QResult where
  responder : Option Id := none             -- `ResponseFrom` (its address is the queried one)
  data      : Option (List UInt8) := none   -- `ClosestData` when it is a string
  nodes     : List Cand := []               -- `Nodes`
  nodes6    : List Cand := []               -- `Nodes6`
deriving Repr, DecidableEq, Inhabited

inductive QPhase where
  | inDoQuery                 -- parked in `DoQuery`
  | returned (r : QResult)    -- `DoQuery` returned, nothing applied yet
  | closestDone (r : QResult) -- `addClosest` done (or skipped)
  | nodesDone (r : QResult)   -- `AddNodes(res.Nodes)` done
  | nodes6Done                -- `AddNodes(res.Nodes6)` done; only the deferred finish is left
deriving Repr, DecidableEq

inductive RunPhase where
  | awake                               -- holds the lock at the top of the loop
  | evaluated (offer : Bool)            -- only when the wake-up channel is taken *after* the unlock
  | sleeping (g : Nat) (offer : Bool)   -- in `select`, channel of generation `g`, offering stalled or not
  | exited
deriving Repr, DecidableEq

inductive StopperPhase where
  | none
  | awake
  | sleeping (g : Nat)
  | done
deriving Repr, DecidableEq

structure TravCfg where
  target     : Id
  k          : Nat := Gen.traversalDefaultK
  alpha      : Nat := Gen.traversalDefaultAlpha
  nodeFilter : Cand → Bool := fun _ => true
  dataFilter : Option (List UInt8) → Bool := fun _ => true
  /-- Does `run` take the wake-up channel (`cond.Signaled()`) before it releases the lock?
  (regenerated from the source, see Props/C03; `false` only exists to state the counterexample) -/
  sigBeforeUnlock : Bool := true

structure Trav where
  unq         : List Cand := []                 -- `unqueried`, ordered by `closerThan`
  queried     : List Addr := []                 -- keys of the `queried` map (`Addr.strKey`)
  closest     : List KElem := []
  outstanding : Nat := 0
  inflight    : List (Addr × QPhase) := []      -- query goroutines
  gen         : Nat := 0                        -- `cond` generation
  run         : RunPhase := .awake
  stopping    : Bool := false
  stopper     : StopperPhase := .none
  stalledSeen : Nat := 0                        -- how often the stalled signal was received
  started     : List Addr := []                 -- log: every address a query was started for, in order
deriving Repr

/-- `haveQuery`. -/
def Trav.haveQuery (c : TravCfg) (s : Trav) : Bool :=
  match s.unq with
  | [] => false
  | cu :: _ =>
    if !KNN.full c.k s.closest then true else
    match cu.id, KNN.farthest s.closest with
    | none, _ => false
    | some _, none => false        -- `Farthest` panics on an empty set; unreachable when `full` and k > 0
    | some i, some far =>
      Id.cmp (Id.distance i c.target) (Id.distance far.id c.target) != .gt

/-- `addNodeLocked` for one node; returns the state and whether it was added. -/
def Trav.addNode (c : TravCfg) (s : Trav) (n : Cand) : Trav :=
  if s.queried.contains n.addr.strKey then s
  else if !c.nodeFilter n then s
  else { s with unq := SSet.add c.target s.unq n, gen := s.gen + 1 }

def Trav.addNodes (c : TravCfg) (s : Trav) (ns : List Cand) : Trav := ns.foldl (Trav.addNode c) s

/-- `startQuery` (with the F3 repair): take the closest candidate; if its address
was already queried, drop it; otherwise mark it, count it and launch the query. -/
def Trav.startQuery (c : TravCfg) (s : Trav) : Trav :=
  match s.unq with
  | [] => s
  | a :: rest =>
    let s := { s with unq := SSet.delete c.target (a :: rest) a }
    if s.queried.contains a.addr.strKey then s
    else { s with queried := s.queried ++ [a.addr.strKey], outstanding := s.outstanding + 1,
                  inflight := s.inflight ++ [(a.addr, .inDoQuery)], started := s.started ++ [a.addr] }

/-- The inner `for op.outstanding < Alpha && op.haveQuery() { startQuery }`, with
fuel = size of the frontier (each round removes one candidate). -/
def Trav.startLoop (c : TravCfg) : Nat → Trav → Trav
  | 0, s => s
  | fuel + 1, s =>
    if s.outstanding < c.alpha && s.haveQuery c then Trav.startLoop c fuel (s.startQuery c) else s

/-- One pass of the `run` loop body up to the `select`. -/
def Trav.runEval (c : TravCfg) (s : Trav) : Trav :=
  match s.run with
  | .awake =>
    if s.stopping then { s with run := .exited } else
    let s := Trav.startLoop c (s.unq.length + 1) s
    let offer := (!s.haveQuery c || c.alpha == 0) && s.outstanding == 0
    if c.sigBeforeUnlock then { s with run := .sleeping s.gen offer } else { s with run := .evaluated offer }
  | _ => s

/-- Only for `sigBeforeUnlock = false`: the channel is taken in a later step. -/
def Trav.captureGen (s : Trav) : Option Trav :=
  match s.run with
  | .evaluated offer => some { s with run := .sleeping s.gen offer }
  | _ => none

inductive WakeReason where
  | broadcast | stopSeen | stalledReceived
deriving Repr, DecidableEq

/-- The `select` returns. -/
def Trav.runWake (s : Trav) (why : WakeReason) : Option Trav :=
  match s.run with
  | .sleeping g offer =>
    match why with
    | .broadcast => if s.gen > g then some { s with run := .awake } else none
    | .stopSeen => if s.stopping then some { s with run := .awake } else none
    | .stalledReceived => if offer then some { s with run := .awake, stalledSeen := s.stalledSeen + 1 } else none
  | _ => none

def setPhase (l : List (Addr × QPhase)) (a : Addr) (p : QPhase) : List (Addr × QPhase) :=
  l.map (fun e => if e.1 == a then (e.1, p) else e)

def phaseOf (l : List (Addr × QPhase)) (a : Addr) : Option QPhase := (l.find? (·.1 == a)).map (·.2)

/-- `addClosest`. -/
def Trav.addClosest (c : TravCfg) (s : Trav) (a : Addr) (r : QResult) : Trav :=
  match r.responder with
  | none => s
  | some id =>
    if !c.nodeFilter ⟨some id, a⟩ then s
    else if !c.dataFilter r.data then s
    else { s with closest := KNN.push c.target c.k s.closest ⟨id, a, r.data⟩ }

inductive TravEv where
  | addNodes (ns : List Cand)
  | runEval
  | captureGen
  | runWake (why : WakeReason)
  | queryReturn (a : Addr) (r : QResult)
  | addClosest (a : Addr)
  | addReplyNodes (a : Addr)
  | addReplyNodes6 (a : Addr)
  | finish (a : Addr)
  | stop
  | stopperStep
deriving Repr

/-- One event; `none` when the event is not enabled in this state. -/
def Trav.step (c : TravCfg) (s : Trav) : TravEv → Option Trav
  | .addNodes ns => some (s.addNodes c ns)
  | .runEval => if s.run == .awake then some (s.runEval c) else none
  | .captureGen => s.captureGen
  | .runWake why => s.runWake why
  | .queryReturn a r =>
    if phaseOf s.inflight a == some .inDoQuery then some { s with inflight := setPhase s.inflight a (.returned r) } else none
  | .addClosest a =>
    match phaseOf s.inflight a with
    | some (.returned r) => some { (s.addClosest c a r) with inflight := setPhase s.inflight a (.closestDone r) }
    | _ => none
  | .addReplyNodes a =>
    match phaseOf s.inflight a with
    | some (.closestDone r) => some { (s.addNodes c r.nodes) with inflight := setPhase s.inflight a (.nodesDone r) }
    | _ => none
  | .addReplyNodes6 a =>
    match phaseOf s.inflight a with
    | some (.nodesDone r) => some { (s.addNodes c r.nodes6) with inflight := setPhase s.inflight a .nodes6Done }
    | _ => none
  | .finish a =>
    match phaseOf s.inflight a with
    | some .nodes6Done =>
      some { s with inflight := s.inflight.filter (fun e => !(e.1 == a)), outstanding := s.outstanding - 1, gen := s.gen + 1 }
    | _ => none
  | .stop =>
    if s.stopping then some s else some { s with stopping := true, stopper := .awake }
  | .stopperStep =>
    match s.stopper with
    | .awake => if s.outstanding == 0 then some { s with stopper := .done } else some { s with stopper := .sleeping s.gen }
    | .sleeping g => if s.gen > g then some { s with stopper := .awake } else none
    | _ => none

def Trav.exec (c : TravCfg) : Trav → List TravEv → Option Trav
  | s, [] => some s
  | s, e :: es => match s.step c e with
    | none => none
    | some s' => Trav.exec c s' es

/-- `Stopped()` has fired. -/
def Trav.isStopped (s : Trav) : Bool := s.stopper == .done

/-! ### Macro step used for trace validation: a query returns and everything it triggers runs to quiescence -/

/-- Run loop to quiescence: wake (if a broadcast is pending) and evaluate, repeatedly. -/
def Trav.settle (c : TravCfg) : Nat → Trav → Trav
  | 0, s => s
  | fuel + 1, s =>
    match s.run with
    | .awake => Trav.settle c fuel (s.runEval c)
    | .evaluated offer => Trav.settle c fuel { s with run := .sleeping s.gen offer }
    | .sleeping g _ =>
      if s.gen > g then Trav.settle c fuel { s with run := .awake }
      else if s.stopping then Trav.settle c fuel { s with run := .awake }
      else s
    | .exited => s

/-- Release the query parked for `a` with result `r`: the goroutine's four
critical sections in source order, then the run loop until it sleeps again. -/
def Trav.release (c : TravCfg) (s : Trav) (a : Addr) (r : QResult) : Option Trav := do
  let s ← s.step c (.queryReturn a r)
  let s ← s.step c (.addClosest a)
  let s ← s.step c (.addReplyNodes a)
  let s ← s.step c (.addReplyNodes6 a)
  let s ← s.step c (.finish a)
  some (Trav.settle c 8 s)

end Dht
