/-
Interpreter for the decision expressions that /verif/extract reads off small
pure Go functions (`Gen.tree…` in Gen/Facts.lean: nested `if`/`return` with the
condition and result expressions as source text). An *atom table* gives each
source expression its meaning in terms of the model's own state; an expression
the table does not know evaluates to `none`, so a changed comparison, constant or
field in the source leaves the corresponding theorem in Props unprovable.
-/
import DhtVerif.Gen.Facts
namespace Dht
open Gen (DExp)

/-- Evaluate a decision expression with the given meaning of conditions and results. -/
def DExp.evalWith {α : Type} (cond : String → Option Bool) (ret : String → Option α) : DExp → Option α
  | .ite c t e =>
    match cond c with
    | some true => DExp.evalWith cond ret t
    | some false => DExp.evalWith cond ret e
    | none => none
  | .ret e => ret e
  | .fall => none
  | .other => none

end Dht
