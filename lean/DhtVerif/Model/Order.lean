/-
Model of /repo/types/addr-maybe-id.go (`AddrMaybeId.CloserThan`) and of the
address order it falls back on (`netip.Addr.Compare`, then port).

An address is what `krpc.NodeAddr.ToNodeAddrPort` produces from raw IP bytes:
4 bytes -> IPv4 (rank 1), 16 bytes -> IPv6 (rank 2), anything else -> the
zero `netip.Addr` (rank 0, no bytes). `netip.Addr.Compare` orders by bit
length (0 < 32 < 128), then by the 128-bit value, which for equal families
is the lexicographic order of the bytes.
-/
import DhtVerif.Model.Int160
namespace Dht

structure Addr where
  rank : Nat
  ip   : List UInt8
  port : Nat
deriving DecidableEq, Repr, Inhabited

/-- `netip.AddrFromSlice` canonicalisation. -/
def Addr.ofBytes (ip : List UInt8) (port : Nat) : Addr :=
  if ip.length = 4 then ⟨1, ip, port⟩
  else if ip.length = 16 then ⟨2, ip, port⟩
  else ⟨0, [], port⟩

/-- Well-formed addresses: what `Addr.ofBytes` can return. -/
def Addr.wf (a : Addr) : Bool :=
  (a.rank == 0 && a.ip == []) || (a.rank == 1 && a.ip.length == 4) || (a.rank == 2 && a.ip.length == 16)

/-- `netip.Addr.Compare` followed by the port comparison. -/
def Addr.cmp (l r : Addr) : Ordering :=
  if l.rank < r.rank then .lt else if l.rank > r.rank then .gt else
  match Id.cmp l.ip r.ip with
  | .lt => .lt
  | .gt => .gt
  | .eq => compare l.port r.port

/-- The key of the traversal's `queried` map: `netip.AddrPort.String()`. All
invalid addresses print as "invalid AddrPort" whatever their port. -/
def Addr.strKey (a : Addr) : Addr := if a.rank = 0 then ⟨0, [], 0⟩ else a

/-- `types.AddrMaybeId`. -/
structure Cand where
  id   : Option Id
  addr : Addr
deriving DecidableEq, Repr, Inhabited

/-- `AddrMaybeId.CloserThan`, following the multiless chain step by step:
`Bool(!l.Id.Ok, !r.Id.Ok)`, then (both known) the distance comparison, then
(if still undecided) address and port. -/
def closerThan (target : Id) (l r : Cand) : Bool :=
  match l.id, r.id with
  | some _, none => true
  | none, some _ => false
  | none, none => l.addr.cmp r.addr == .lt
  | some li, some ri =>
    match Id.cmp (Id.distance li target) (Id.distance ri target) with
    | .lt => true
    | .gt => false
    | .eq => l.addr.cmp r.addr == .lt

/-- `closerThanTarget.Compare` in containers. -/
def candCompare (target : Id) (l r : Cand) : Ordering :=
  if closerThan target l r then .lt else if closerThan target r l then .gt else .eq

end Dht
