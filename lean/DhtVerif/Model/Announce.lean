/-
Model of /repo/announce.go on top of the traversal model: the get_peers traversal
uses the data filter "is a string token"; when it has stopped, `announceClosest`
sends announce_peer to every element of the final closest set with the data
(token) stored with that element; each get_peers response is handed to the
`Peers` channel once; the channel is closed afterwards.
-/
import DhtVerif.Model.Traversal
namespace Dht

/-- The announce traversal's configuration: default K and Alpha, data filter = string token present. -/
def announceCfg (target : Id) (nodeFilter : Cand → Bool) : TravCfg :=
  { target := target, nodeFilter := nodeFilter, dataFilter := fun d => d.isSome }

/-- One announce_peer query: destination and the token it carries. -/
structure AnnounceOut where
  dst   : Addr
  token : List UInt8
deriving Repr, DecidableEq

/-- `announceClosest`: one announce per element of the closest set, with that element's own data. -/
def announceClosest (closest : List KElem) : List AnnounceOut :=
  closest.filterMap (fun e => e.data.map (fun t => ⟨e.addr, t⟩))

/-- A get_peers response as the announce sees it. -/
structure GpResp where
  addr  : Addr
  id    : Id
  token : Option (List UInt8)
deriving Repr, DecidableEq

def GpResp.elem (r : GpResp) : KElem := ⟨r.id, r.addr, r.token⟩

/--
Decidable acceptance of an observed announce run: `resps` are the get_peers
responses received during the traversal (in the order they were processed),
`outs` the announce_peer queries sent afterwards. The set announced to must be a
K-nearest selection (ties between equal distances arbitrary) of the responders
that supplied a token and passed the node filter, each with its own token.
-/
def announceAllowed (target : Id) (k : Nat) (nodeFilter : Cand → Bool) (resps : List GpResp) (outs : List AnnounceOut) : Bool :=
  let elig := List.foldl KNN.upsert [] ((resps.filter (fun r => r.token.isSome && nodeFilter ⟨some r.id, r.addr⟩)).map GpResp.elem)
  let chosen := elig.filter (fun e => outs.any (fun o => o.dst == e.addr && some o.token == e.data))
  outs.all (fun o => elig.any (fun e => o.dst == e.addr && some o.token == e.data)) &&
  (outs.map (·.dst.strKey)).eraseDups.length == outs.length &&
  outs.length == min k elig.length &&
  elig.all (fun e => chosen.contains e || chosen.all (fun m => decide (m.dist target ≤ e.dist target)))

/-- Delivery bookkeeping of `getPeers`: every response is sent on `Peers` once. -/
def delivered (resps : List GpResp) : List (Addr × Id) := resps.map (fun r => (r.addr, r.id))

end Dht
