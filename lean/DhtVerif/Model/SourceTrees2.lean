/-
Second batch of "T1 by translation" (Props/SourceTrees2.lean): what the interpretation of the
regenerated trees needs and the model did not have yet.

* `SExp.evalWith`: interpreter of the *statement trees* (`Gen.SExp`), for Go bodies that thread a
  local variable through assignments (`AddrMaybeId.CloserThan` and its `multiless.Computation`).
  Statements, conditions and results are source text; the atom tables give a statement its
  meaning as a state update and may read the state in conditions and results. Unknown text
  evaluates to `none`.
* `ML`: `github.com/anacrolix/multiless.Computation` (`{ok, less bool}`), the methods
  `AddrMaybeId.CloserThan` uses, transcribed from multiless.go.
* `Addr.cmpAddr`: `netip.Addr.Compare` alone (the model's `Addr.cmp` is that followed by the
  port comparison).
* `lessCompare`: `lessComparer[K].Compare` of k-nearest-nodes (a three-way comparison made of a
  strict `less`).
* `validNodeAddr`, `traversalNodeFilter`: server.go functions of the same names, on the model's
  candidate (`Cand`), server configuration (`SrvCfg`) and `nodeIdSecure`.
-/
import DhtVerif.Gen.Facts
import DhtVerif.Model.Containers
import DhtVerif.Model.Server
namespace Dht
open Gen (SExp)

/-- Evaluate a statement tree from state `s`: `step` is the meaning of a simple statement,
`cond` of a condition, `ret` of a result expression, each in the current state. -/
def SExp.evalWith {σ α : Type} (step : String → σ → Option σ) (cond : String → σ → Option Bool)
    (ret : String → σ → Option α) : SExp → σ → Option α
  | .seq st k, s =>
    match step st s with
    | some s' => SExp.evalWith step cond ret k s'
    | none => none
  | .ite c t e, s =>
    match cond c s with
    | some true => SExp.evalWith step cond ret t s
    | some false => SExp.evalWith step cond ret e s
    | none => none
  | .ret e, s => ret e s
  | .fall, _ => none
  | .other, _ => none

/-! ### multiless.Computation -/

/-- `multiless.Computation`. -/
structure ML where
  ok   : Bool
  less : Bool
deriving DecidableEq, Repr

/-- `multiless.New()`. -/
def ML.new : ML := ⟨false, false⟩

/-- `Computation.EagerSameLess(same, less)`. -/
def ML.eagerSameLess (m : ML) (same less : Bool) : ML := if m.ok || same then m else ⟨true, less⟩

/-- `Computation.Bool(l, r)`: false sorts before true. -/
def ML.bool (m : ML) (l r : Bool) : ML := m.eagerSameLess (l == r) r

/-- `Computation.Cmp(i)` with `i` the integer of a three-way comparison (`i == 0`, `i < 0`). -/
def ML.cmp (m : ML) (o : Ordering) : ML := m.eagerSameLess (o == .eq) (o == .lt)

/-- `multiless.EagerOrdered(start, l, r)` on unsigned integers. -/
def ML.eagerOrdered (m : ML) (l r : Nat) : ML :=
  if m.ok then m else if l == r then ⟨false, false⟩ else ⟨true, decide (l < r)⟩

/-! ### netip.Addr.Compare -/

/-- `netip.Addr.Compare`: bit length (0 < 32 < 128), then the bytes. -/
def Addr.cmpAddr (l r : Addr) : Ordering :=
  if l.rank < r.rank then .lt else if l.rank > r.rank then .gt else Id.cmp l.ip r.ip

/-! ### k-nearest-nodes `lessComparer[K].Compare` -/

/-- `lessComparer[K].Compare(i, j)`. -/
def lessCompare {α : Type} (less : α → α → Bool) (i j : α) : Ordering :=
  if less i j then .lt else if less j i then .gt else .eq

/-- The strict order the deterministic instance `KNN.insertSorted` sorts by: distance to the
target, ties by the address order (Go: ties by a seeded hash of the address string). -/
def KNN.lessDet (target : Id) (l r : KElem) : Bool :=
  l.dist target < r.dist target || (l.dist target == r.dist target && l.addr.cmp r.addr == .lt)

/-! ### server.go `validNodeAddr`, `Server.TraversalNodeFilter` -/

/-- `validNodeAddr` on the UDP address `node.Addr.UDP()` of a candidate: raw IP bytes and port. -/
def validNodeAddr (ip : List UInt8) (port : Nat) : Bool :=
  if port == 0 then false
  else match to4 ip with
    | some v4 => !(v4.getD 0 0 == 0)
    | none => true

/-- `Server.TraversalNodeFilter`. `NodeIdSecure` on an address that makes `crcIP` index out of
range (Go: panic) counts as not secure, as in `Node.isSecure`. A candidate's address is a
`netip.Addr` (`Addr.wf`: no, 4 or 16 bytes), so this concerns only the zero `netip.Addr` with a
non-zero port, which no decoded compact node info produces. -/
def traversalNodeFilter (c : SrvCfg) (n : Cand) : Bool :=
  if !validNodeAddr n.addr.ip n.addr.port then false
  else if c.blocked n.addr.ip then false
  else match n.id with
    | none => true
    | some id => c.tbl.noSecurity || (nodeIdSecure id n.addr.ip).getD false

end Dht
