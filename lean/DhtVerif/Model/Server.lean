/-
Model of the inbound side of /repo/server.go: `serve` (drop gate),
`processPacket` (y-dispatch, transaction matching, table update),
`handleQuery` (hook, passive, method switch), `reply` / `sendError`,
`setReturnNodes`, `filterPeers`, and the outbound gate of `writeToNode`
(closed / blocklist; the limiter is modelled separately in Model/Rate).

A decoded message is the abstract `QMsg` (what `krpc.Msg` holds after a
successful decode); the codec itself is Model/Krpc. The BEP 44 store and the
query hook are environment: their answers are inputs of the step (`Env`), so
the handler is exact for any store / hook behaviour. Tokens are created by the
parameter `mk : ip16 → interval index → token` (SHA-1 with the secret).

The model describes the code *with* the repairs of DESIGN.md section 6 (F1:
missing-args test for announce_peer/put, F4: target by method, F5: nodes6
family filter).
-/
import DhtVerif.Model.Table
import DhtVerif.Model.Token
import DhtVerif.Model.Txn
namespace Dht

/-- `krpc.MsgArgs`, the fields the handlers read. Absent IDs are the zero ID, as in Go. -/
structure QArgs where
  id          : Id
  infoHash    : Id := Id.zero 20
  target      : Id := Id.zero 20
  token       : List UInt8 := []
  port        : Option Int := none
  impliedPort : Bool := false
  want        : List (List UInt8) := []
  seq         : Option Int := none
deriving Repr, DecidableEq

/-- `krpc.Msg` after decoding. -/
structure QMsg where
  y   : List UInt8
  q   : List UInt8 := []
  t   : List UInt8 := []
  a   : Option QArgs := none
  ro  : Bool := false
  rid : Option Id := none      -- `r.id` when an `r` dict is present
deriving Repr, DecidableEq

/-- What the environment answers during one step. -/
structure Env where
  hookPropagate : Bool := true           -- result of `OnQuery` (when configured)
  putErr        : Option (Option Nat) := none   -- `store.Put`: none = ok, some (some c) = krpc error c, some none = other error
  getRes        : Option (Option (Int × Bool)) := none  -- `store.Get`: none = not found; some (some (seq, _)) = item; some none = other error
  getErr        : Option Nat := none     -- krpc error code from `store.Get`
  choice        : Option Node := none    -- eviction choice (map iteration)
deriving Repr

structure SrvCfg where
  tbl          : TableCfg
  passive      : Bool := false
  hasHook      : Bool := false
  hasPeerStore : Bool := false
  hasCallback  : Bool := false
  blocked      : List UInt8 → Bool := fun _ => false     -- `ipBlocked`
  returnK      : Nat := Gen.returnK
  tokInterval  : Nat := Gen.tokenIntervalNs
  tokMaxDelta  : Nat := Gen.tokenMaxDelta

/-- A stored peer: infohash, the raw IP bytes used as the map key, endpoint. -/
structure PeerEntry where
  ih   : Id
  ip   : List UInt8
  port : Int
deriving Repr, DecidableEq

structure Srv where
  ts     : TblState := {}
  peers  : List PeerEntry := []
  txns   : Txns := {}
  closed : Bool := false
deriving Repr

/-- The reply, as the fields the handler decides. Node lists are described by
what may be in them (`nodesTarget` + family flags); the concrete selection is
checked with `closestAllowed`. -/
structure Ret where
  nodesTarget : Option Id := none
  want4       : Bool := false
  want6       : Bool := false
  token       : Option (List UInt8) := none
  values      : List (List UInt8 × Int) := []
  seq         : Option Int := none
  hasV        : Bool := false
deriving Repr, DecidableEq

inductive OutKind where
  | reply (r : Ret)
  | error (code : Nat)
deriving Repr, DecidableEq

/-- A datagram handed to `writeToNode`: destination, echoed `t`, own ID (replies), requester address in `ip` (replies). -/
structure Out where
  dst  : NAddr
  t    : List UInt8
  kind : OutKind
  id   : Option Id := none
  ip   : Option NAddr := none
deriving Repr, DecidableEq

inductive Effect where
  | addPeer (e : PeerEntry)
  | announceCb (ih : Id) (ip : List UInt8) (port : Int) (portOk : Bool)
  | storePut
  | deliver (q : Nat)             -- response handed to a pending query
deriving Repr, DecidableEq

/-! ### BEP 32 gating -/

def wantsContain (ws : List (List UInt8)) (w : String) : Bool := ws.contains w.toUTF8.toList

/-- `shouldReturnNodes`. -/
def shouldReturnNodes (want : List (List UInt8)) (srcIp : List UInt8) : Bool :=
  if want.length != 0 then wantsContain want "n4" else (to4 srcIp).isSome

/-- `shouldReturnNodes6`. -/
def shouldReturnNodes6 (want : List (List UInt8)) (srcIp : List UInt8) : Bool :=
  if want.length != 0 then wantsContain want "n6" else (to4 srcIp).isNone

/-- `filterPeers`: keep/convert stored endpoints per BEP 32. -/
def filterPeers (srcIp : List UInt8) (want : List (List UInt8)) (all : List (List UInt8 × Int)) : List (List UInt8 × Int) :=
  let r4 := shouldReturnNodes want srcIp
  let r6 := shouldReturnNodes6 want srcIp
  all.filterMap (fun (ip, port) =>
    if r4 && ip.length == 4 then some (ip, port)
    else if r6 && ip.length == 16 then some (ip, port)
    else if r4 && (to4 ip).isSome then (to4 ip).map (·, port)
    else if r6 && (to16 ip).isSome then (to16 ip).map (·, port)
    else none)

/-- Family filters handed to `makeReturnNodes`. -/
def fam4 (n : Node) : Bool := (to4 n.addr.ip).isSome
def fam6 (n : Node) : Bool := (to4 n.addr.ip).isNone

/-! ### Tokens -/

abbrev TokenFn := List UInt8 → Nat → List UInt8

def ip16Of (ip : List UInt8) : List UInt8 := (to16 ip).getD ip

def createToken (c : SrvCfg) (mk : TokenFn) (now : Nat) (ip : List UInt8) : List UInt8 :=
  mk (ip16Of ip) (now / c.tokInterval)

def validToken (c : SrvCfg) (mk : TokenFn) (now : Nat) (ip tok : List UInt8) : Bool :=
  (List.range (c.tokMaxDelta + 1)).any (fun d => mk (ip16Of ip) ((now - d * c.tokInterval) / c.tokInterval) == tok)

/-! ### handleQuery -/

def str (s : String) : List UInt8 := s.toUTF8.toList

def mkReply (c : SrvCfg) (src : NAddr) (t : List UInt8) (r : Ret) : Out :=
  { dst := src, t := t, kind := .reply r, id := some c.tbl.root, ip := some src }

def mkError (src : NAddr) (t : List UInt8) (code : Nat) : Out :=
  { dst := src, t := t, kind := .error code }

/-- `setReturnNodes` for an args dict that is present. -/
def setReturnNodes (r : Ret) (a : QArgs) (target : Id) (srcIp : List UInt8) : Ret :=
  { r with nodesTarget := some target,
           want4 := shouldReturnNodes a.want srcIp, want6 := shouldReturnNodes6 a.want srcIp }

def peersFor (s : Srv) (ih : Id) : List (List UInt8 × Int) :=
  (s.peers.filter (·.ih == ih)).map (fun e => (e.ip, e.port))

/-- The method switch of `handleQuery` (after table update, hook and passive test). -/
def dispatch (c : SrvCfg) (mk : TokenFn) (s : Srv) (src : NAddr) (m : QMsg) (env : Env) : List Out × List Effect :=
  let now := s.ts.now
  if m.q == str "ping" then ([mkReply c src m.t {}], [])
  else if m.q == str "get_peers" then
    match m.a with
    | none => ([mkError src m.t Gen.errorCodeProtocolError], [])
    | some a =>
      let r : Ret := if c.hasPeerStore then
          { values := filterPeers src.ip a.want (peersFor s a.infoHash), token := some (createToken c mk now src.ip) }
        else {}
      let r := if r.values.isEmpty then setReturnNodes r a a.infoHash src.ip else r
      ([mkReply c src m.t r], [])
  else if m.q == str "find_node" then
    match m.a with
    | none => ([mkError src m.t Gen.errorCodeProtocolError], [])
    | some a => ([mkReply c src m.t (setReturnNodes {} a a.target src.ip)], [])
  else if m.q == str "announce_peer" then
    match m.a with
    | none => ([mkError src m.t Gen.errorCodeProtocolError], [])
    | some a =>
      if !validToken c mk now src.ip a.token then ([], [])
      else
        let (port, portOk) : Int × Bool :=
          if a.impliedPort then ((src.port : Int), true)
          else match a.port with
            | some p => (p, true)
            | none => (0, false)
        let cb := if c.hasCallback then [Effect.announceCb a.infoHash src.ip port portOk] else []
        let ps := if c.hasPeerStore then [Effect.addPeer ⟨a.infoHash, src.ip, port⟩] else []
        ([mkReply c src m.t {}], cb ++ ps)
  else if m.q == str "put" then
    match m.a with
    | none => ([mkError src m.t Gen.errorCodeProtocolError], [])
    | some a =>
      if !validToken c mk now src.ip a.token then ([], [])
      else match a.seq with
        | none => ([mkError src m.t Gen.errorCodeProtocolError], [])
        | some _ =>
          match env.putErr with
          | none => ([mkReply c src m.t {}], [.storePut])
          | some (some code) => ([mkError src m.t code], [])
          | some none => ([mkError src m.t Gen.errorCodeMethodUnknown], [])
  else if m.q == str "get" then
    match m.a with
    | none => ([mkError src m.t Gen.errorCodeProtocolError], [])
    | some a =>
      let r := setReturnNodes {} a a.target src.ip
      let r := { r with token := some (createToken c mk now src.ip) }
      match env.getErr with
      | some code => ([mkError src m.t code], [])
      | none =>
        match env.getRes with
        | none => ([mkReply c src m.t r], [])
        | some none => ([mkError src m.t Gen.errorCodeGenericError], [])
        | some (some (seq, _)) =>
          let r := { r with seq := some seq }
          match a.seq with
          | some asked => if seq ≤ asked then ([mkReply c src m.t r], []) else ([mkReply c src m.t { r with hasV := true }], [])
          | none => ([mkReply c src m.t { r with hasV := true }], [])
  else ([mkError src m.t Gen.errorCodeMethodUnknown], [])

def applyEffects (s : Srv) : List Effect → Srv
  | [] => s
  | .addPeer e :: es =>
    -- `InMemory.AddPeer`: keyed by infohash and raw IP bytes, replaces
    applyEffects { s with peers := (s.peers.filter (fun x => !(x.ih == e.ih && x.ip == e.ip))) ++ [e] } es
  | _ :: es => applyEffects s es

/-- `handleQuery`. `none` = a panic in the table code. -/
def handleQuery (c : SrvCfg) (mk : TokenFn) (s : Srv) (src : NAddr) (m : QMsg) (env : Env) :
    Option (Srv × List Out × List Effect) :=
  match updateNode c.tbl s.ts.now s.ts.table src (m.a.map (·.id)) (!m.ro) (onQuery s.ts.now) env.choice with
  | none => none
  | some (tbl', _) =>
    let s1 := { s with ts := { s.ts with table := tbl' } }
    if c.hasHook && !env.hookPropagate then some (s1, [], [])
    else if c.passive then some (s1, [], [])
    else
      let (outs, effs) := dispatch c mk s1 src m env
      some (applyEffects s1 effs, outs, effs)

/-- `processPacket` after a successful decode (lock held; released on return in every branch). -/
def processMsg (c : SrvCfg) (mk : TokenFn) (s : Srv) (src : NAddr) (m : QMsg) (env : Env) :
    Option (Srv × List Out × List Effect) :=
  if s.closed then some (s, [], [])
  else if m.y == str "q" then handleQuery c mk s src m env
  else
    -- response / error / unknown type: only the transaction table is consulted
    let key := (src.key.1, src.key.2)
    let addrStr := key.1 ++ [0] ++ (be64 key.2)      -- injective rendering of `addr.String()`
    match s.txns.lookup ⟨m.t, addrStr⟩ with
    | none => some (s, [], [])
    | some q =>
      let (txns', _) := s.txns.inbound addrStr m.t
      let sid := if m.y == str "r" then m.rid else none
      match updateNode c.tbl s.ts.now s.ts.table src sid (!m.ro) (onResponse s.ts.now) env.choice with
      | none => none
      | some (tbl', _) => some ({ s with txns := txns', ts := { s.ts with table := tbl' } }, [], [.deliver q])

inductive Decoded where
  | notDict        -- `len(b) < 2 || b[0] != 'd'`
  | undecodable    -- `bencode.Unmarshal` error (other than trailing bytes)
  | msg (m : QMsg)
deriving Repr

/-- `serve` + `processPacket`: the drop gate, then the message. `size` is the datagram length. -/
def serveDatagram (c : SrvCfg) (mk : TokenFn) (s : Srv) (src : NAddr) (size : Nat) (d : Decoded) (env : Env) :
    Option (Srv × List Out × List Effect) :=
  if size ≥ 65536 then some (s, [], [])
  else if src.port == 0 then some (s, [], [])
  else if s.closed then some (s, [], [])
  else if c.blocked src.ip then some (s, [], [])
  else match d with
    | .notDict => some (s, [], [])
    | .undecodable => some (s, [], [])
    | .msg m => processMsg c mk s src m env

/-- `writeToNode`'s gate in front of `socket.WriteTo`: closed server and blocked destinations write nothing. -/
def writeGate (c : SrvCfg) (s : Srv) (o : Out) : Option Out :=
  if s.closed then none else if c.blocked o.dst.ip then none else some o

/-- The datagrams actually written in reaction to one inbound datagram. -/
def written (c : SrvCfg) (mk : TokenFn) (s : Srv) (src : NAddr) (size : Nat) (d : Decoded) (env : Env) : Option (List Out) :=
  (serveDatagram c mk s src size d env).map (fun r => r.2.1.filterMap (writeGate c r.1))

/-- `makeQueryBytes`: the `ro` flag of an outgoing query. -/
def queryReadOnly (c : SrvCfg) : Bool := c.passive

end Dht
