/-
Model of /repo/security.go (BEP 42): `maskForIP`, `crcIP`, `SecureNodeId`,
`NodeIdSecure`, `isLocalNetwork`.

An IP is the raw `net.IP` byte slice. `to4` is `net.IP.To4` (4 bytes as is;
16 bytes with the v4-mapped prefix -> last 4; otherwise none). The masks come
from the regenerated facts (`Gen.v4Mask`, `Gen.v6Mask`).

Slices the Go code indexes without a guard are explicit `none` (crash)
outcomes: `crcIP` on an address that is neither IPv4 nor at least as long as
the IPv6 mask, `SecureNodeId`/`NodeIdSecure` on IDs shorter than 20 bytes
cannot happen (`[20]byte`) and are excluded by hypothesis.
-/
import DhtVerif.Gen.Facts
namespace Dht

/-- CRC32-C (Castagnoli), reflected, bit by bit: what `crc32.Checksum(_, MakeTable(Castagnoli))` computes. -/
def crcBit (c : UInt32) : UInt32 :=
  if c &&& 1 == 1 then (c >>> 1) ^^^ 0x82F63B78 else c >>> 1

def crcStep (crc : UInt32) (b : UInt8) : UInt32 :=
  crcBit (crcBit (crcBit (crcBit (crcBit (crcBit (crcBit (crcBit (crc ^^^ b.toUInt32))))))))

def crc32c (bs : List UInt8) : UInt32 := (bs.foldl crcStep 0xFFFFFFFF) ^^^ 0xFFFFFFFF

def v4InV6Prefix : List UInt8 := [0,0,0,0,0,0,0,0,0,0,0xff,0xff]

/-- `net.IP.To4`. -/
def to4 (ip : List UInt8) : Option (List UInt8) :=
  if ip.length = 4 then some ip
  else if ip.length = 16 && ip.take 12 == v4InV6Prefix then some (ip.drop 12)
  else none

/-- `maskForIP`. -/
def maskForIP (ip : List UInt8) : List UInt8 :=
  match to4 ip with
  | some _ => Gen.v4Mask.map Nat.toUInt8
  | none => Gen.v6Mask.map Nat.toUInt8

/-- `crcIP`; `none` = the Go code would index past the end of `ip`. -/
def crcIP (ip : List UInt8) (rand : UInt8) : Option UInt32 :=
  let ip := match to4 ip with
    | some v4 => v4
    | none => ip
  let mask := maskForIP ip
  if ip.length < mask.length then none else
  let masked := List.zipWith (· &&& ·) (ip.take mask.length) mask
  match masked with
  | [] => none
  | b0 :: rest => some (crc32c ((b0 ||| ((rand &&& 7) <<< 5)) :: rest))

def byte (crc : UInt32) (shift : UInt32) : UInt8 := (crc >>> shift).toUInt8

/-- `SecureNodeId` (in place in Go; here returns the new ID). -/
def secureNodeId (id ip : List UInt8) : Option (List UInt8) :=
  match crcIP ip (id.getD 19 0) with
  | none => none
  | some crc =>
    some (((id.set 0 (byte crc 24)).set 1 (byte crc 16)).set 2
      ((byte crc 8 &&& 0xf8) ||| (id.getD 2 0 &&& 7)))

def inPrefix (ip4 : List UInt8) (net : List UInt8) (maskBytes : List UInt8) : Bool :=
  List.zipWith (· &&& ·) ip4 maskBytes == net

/-- `isLocalNetwork`: 10/8, 172.16/12, 192.168/16, link-local unicast, loopback. -/
def isLocalNetwork (ip : List UInt8) : Bool :=
  match to4 ip with
  | some v4 =>
    inPrefix v4 [10,0,0,0] [255,0,0,0] || inPrefix v4 [172,16,0,0] [255,240,0,0] ||
    inPrefix v4 [192,168,0,0] [255,255,0,0] ||
    inPrefix v4 [169,254,0,0] [255,255,0,0] || inPrefix v4 [127,0,0,0] [255,0,0,0]
  | none =>
    if ip.length = 16 then
      (ip.getD 0 0 == 0xfe && ip.getD 1 0 &&& 0xc0 == 0x80) ||
      ip == [0,0,0,0,0,0,0,0,0,0,0,0,0,0,0,1]
    else false

/-- `NodeIdSecure`. -/
def nodeIdSecure (id ip : List UInt8) : Option Bool :=
  if isLocalNetwork ip then some true else
  match crcIP ip (id.getD 19 0) with
  | none => none
  | some crc =>
    some (id.getD 0 0 == byte crc 24 && id.getD 1 0 == byte crc 16 &&
      (id.getD 2 0 &&& 0xf8) == (byte crc 8 &&& 0xf8))

/-- The first 21 bits of a 20-byte string, as (byte 0, byte 1, top 5 bits of byte 2). -/
def prefix21 (id : List UInt8) : UInt8 × UInt8 × UInt8 := (id.getD 0 0, id.getD 1 0, id.getD 2 0 &&& 0xf8)

/-- The 21-bit prefix BEP 42 prescribes for an address and seed `r`:
top 21 bits of CRC32-C over the masked address with `r` in its top 3 bits. -/
def bep42Prefix (ip : List UInt8) (r : UInt8) : Option (UInt8 × UInt8 × UInt8) :=
  (crcIP ip r).map (fun crc => (byte crc 24, byte crc 16, byte crc 8 &&& 0xf8))

/-- Addresses the node can actually meet: 4 or 16 raw bytes. -/
def validIp (ip : List UInt8) : Bool := ip.length == 4 || ip.length == 16

end Dht
