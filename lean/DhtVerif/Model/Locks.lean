/-
Lock discipline of the Go source (C01, "… nor deadlocks"): an interprocedural analysis over the
call graph that /verif/extract (locks.go) regenerates from the source of the whole module
(`Gen.lockFuncs`, `Gen.lockBinds`).

What the extractor hands over, per function: the mutexes it locks, the calls it makes, and for
each of these events what the function itself has done to every mutex since it was entered
(bit 1 = nothing yet "E", bit 2 = locked it "H", bit 4 = unlocked it "U"; several bits = depends on
the path). What is defined and checked here:

* `MayAcq P f m`  call-path semantics of "f may lock m, itself or through same-goroutine calls, at a
             moment when no function of the chain has touched m" (so m is still in the state the
             CALLER of f left it in). `closed` says that a table is a post-fixpoint of the rule;
             `closed_sound` (Lemmas/C01Locks.lean) that a post-fixpoint contains `MayAcq`. The table
             itself (`Gen.lockMayAcq`) is computed by the extractor and NOT trusted: only its
             closedness, checked by the kernel, is used. (`solve` computes the least fixpoint in
             Lean; it is used for the small negative control and for `#eval` cross-checks, evaluating
             it for the whole module inside the kernel takes minutes.)
* `recOk`    no acquisition of a mutex the function itself holds; no same-goroutine call, made while
             the caller holds m, of a function that may acquire m.
* `leaveOk`  a callee that may return with a mutex locked (unlock … relock helpers such as
             `pingQuestionableNodesInBucket`) is only called where the caller's own state of that
             mutex is "held" already — so the per-function states computed by the extractor are
             not invalidated by callees.
* `AcqAny`, `Before`, `orderOk`   the relation "m2 is acquired while m1 is held" and a rank that
             strictly increases along it (acyclic lock order).
* `HeldOnEntry`, `closedH`  which mutexes may be held by the callers when a function (in particular a
             callback slot or an interface method) is entered.

Mutexes are CLASSES ("Server.mu" = the field `mu` of any Server): two instances are not told apart,
which only adds alarms. A `go` statement starts with nothing held. Slots (function-typed fields,
parameters, variables, interface methods) are functions whose calls are the bindings.
Over- and under-approximations are listed in Props/C01Locks.lean.
-/
import DhtVerif.Gen.Facts
namespace Dht.Locks

/-- state of the mutexes relative to the entry of the function: (mutex, bits); unlisted = 1 -/
abbrev St := List (Nat × Nat)

structure Acq where
  m : Nat
  op : Nat
  st : St
deriving Repr

structure Call where
  callee : Nat
  mode : Nat
  st : St
deriving Repr

structure Fn where
  id : Nat
  acqs : List Acq
  calls : List Call
  exit : St
deriving Repr

abbrev Prog := List Fn

/- The Boolean functions below are evaluated by the kernel (`decide +kernel`) on the whole module.
They are written with `Nat.beq` / `Nat.blt` / `bif` rather than `==` / `<` / `if`: the kernel evaluates
these several times faster than the `Decidable` instances. -/

def bitsOf : St → Nat → Nat
  | [], _ => 1
  | e :: rest, m => bif Nat.beq e.1 m then e.2 else bitsOf rest m

/-- the function has not touched the mutex on some path to this point -/
def hasE (b : Nat) : Bool := Nat.beq (b % 2) 1
/-- the function has locked the mutex (and not unlocked it) on some path to this point -/
def hasH (b : Nat) : Bool := Nat.beq ((b / 2) % 2) 1

/-- same goroutine? -/
def Call.sync (c : Call) : Bool := Nat.beq c.mode 0

def mem (m : Nat) : List Nat → Bool
  | [] => false
  | x :: xs => Nat.beq x m || mem m xs

abbrev RawFn := Nat × List (Nat × Nat × List (Nat × Nat)) × List (Nat × Nat × List (Nat × Nat)) × List (Nat × Nat)

/-- The facts as a program. A slot's calls are its bindings (nothing is held by a slot itself); the
extractor lists them among the slot's calls (and once more, readable, in `Gen.lockBinds`). -/
def ofFacts (fs : List RawFn) : Prog :=
  fs.map (fun t =>
    { id := t.1
      acqs := t.2.1.map (fun a => ⟨a.1, a.2.1, a.2.2⟩)
      calls := t.2.2.1.map (fun c => ⟨c.1, c.2.1, c.2.2⟩)
      exit := t.2.2.2 })

/-- the regenerated program -/
def prog : Prog := ofFacts Gen.lockFuncs

/-- the functions carry the ids `i, i+1, …` in order; the result is the id after the last -/
def idsFrom : Prog → Nat → Option Nat
  | [], i => some i
  | fn :: rest, i => bif Nat.beq fn.id i then idsFrom rest (i + 1) else none

/-- `P` consists of `n` functions with the ids `0 … n-1`; every callee is one of them; every binding
is a call of its slot, and only slots (ids from `nf` on) have bindings -/
def wellFormed (P : Prog) (n nf : Nat) (binds : List (Nat × Nat)) : Bool :=
  (match idsFrom P 0 with | some k => Nat.beq k n | none => false) &&
  P.all (fun fn => fn.calls.all (fun c => Nat.blt c.callee n) &&
    (Nat.blt fn.id nf ||
      (binds.filter (fun b => Nat.beq b.1 fn.id)).all (fun b =>
        fn.calls.any (fun c => Nat.beq c.callee b.2 && c.sync && c.st.isEmpty)))) &&
  binds.all (fun b => Nat.ble nf b.1 && Nat.blt b.1 n)

/-! ## May-acquire: semantics and table -/

/-- `MayAcq P f m`: along some chain of same-goroutine calls starting in `f`, mutex `m` is locked at
a moment when no function of the chain has touched `m` since it was entered — i.e. `m` is then in
the state in which `f` was called. -/
inductive MayAcq (P : Prog) : Nat → Nat → Prop where
  | direct {f : Nat} {fn : Fn} {a : Acq} : P[f]? = some fn → a ∈ fn.acqs → hasE (bitsOf a.st a.m) = true →
      MayAcq P f a.m
  | call {f : Nat} {fn : Fn} {c : Call} {m : Nat} : P[f]? = some fn → c ∈ fn.calls → c.sync = true →
      hasE (bitsOf c.st m) = true → MayAcq P c.callee m → MayAcq P f m

/-- `AcqAny P f m`: along some chain of same-goroutine calls starting in `f`, mutex `m` is locked. -/
inductive AcqAny (P : Prog) : Nat → Nat → Prop where
  | direct {f : Nat} {fn : Fn} {a : Acq} : P[f]? = some fn → a ∈ fn.acqs → AcqAny P f a.m
  | call {f : Nat} {fn : Fn} {c : Call} {m : Nat} : P[f]? = some fn → c ∈ fn.calls → c.sync = true →
      AcqAny P c.callee m → AcqAny P f m

/-- a table: function id ↦ set of mutexes. The checks and their soundness lemmas only use a table
as a function; the extractor's tables are search trees (`LTree.at`), the tables computed in Lean
association lists (`Tbl.at`). -/
abbrev Look := Nat → List Nat

/-- sparse table: (function, set of mutexes); a function that is not listed has the empty set -/
abbrev Tbl := List (Nat × List Nat)

def Tbl.at : Tbl → Look
  | [], _ => []
  | e :: rest, f => bif Nat.beq e.1 f then e.2 else Tbl.at rest f

/-- look-up in a search tree (no assumption that the tree is ordered: the checks below hold for the
function `LTree.at t` whatever it is) -/
def LTree.at : Gen.LTree → Look
  | .leaf, _ => []
  | .node l k v r, f => bif Nat.beq k f then v else bif Nat.blt f k then LTree.at l f else LTree.at r f

def LTree.toList : Gen.LTree → Tbl
  | .leaf => []
  | .node l k v r => LTree.toList l ++ (k, v) :: LTree.toList r

/-- what one more step of reasoning gives for a function, given the table so far.
`rel = true`: entry-relative (`MayAcq`); `rel = false`: any acquisition (`AcqAny`). -/
def stepFn (rel : Bool) (T : Look) (fn : Fn) : List Nat :=
  ((fn.acqs.filter (fun a => !rel || hasE (bitsOf a.st a.m))).map (·.m)) ++
  fn.calls.flatMap (fun c => bif c.sync then (T c.callee).filter (fun m => !rel || hasE (bitsOf c.st m)) else [])

/-- `T` is a post-fixpoint of `stepFn`. -/
def closed (rel : Bool) (P : Prog) (T : Look) : Bool :=
  P.all (fun fn => (stepFn rel T fn).all (fun m => mem m (T fn.id)))

/-! ## The checks -/

/-- No function locks a mutex it holds itself, and no function calls, while it holds `m`, a function
that may lock `m` in the state the caller left it in. -/
def recOk (P : Prog) (T : Look) : Bool :=
  P.all (fun fn =>
    fn.acqs.all (fun a => !hasH (bitsOf a.st a.m)) &&
    fn.calls.all (fun c => !c.sync || (T c.callee).all (fun m => !hasH (bitsOf c.st m))))

/-- (function, callee, mutex) triples that violate `recOk` (callee = function: the function itself). -/
def recViolations (P : Prog) (T : Look) : List (Nat × Nat × Nat) :=
  P.flatMap (fun fn =>
    ((fn.acqs.filter (fun a => hasH (bitsOf a.st a.m))).map (fun a => (fn.id, fn.id, a.m))) ++
    fn.calls.flatMap (fun c => bif c.sync then
      ((T c.callee).filter (fun m => hasH (bitsOf c.st m))).map (fun m => (fn.id, c.callee, m)) else []))

def heldIn (st : St) : List Nat := (st.filter (fun e => hasH (bitsOf st e.1))).map (·.1)

/-- `L` lists, for every function, the mutexes it may hold when it returns … -/
def leavesClosed (P : Prog) (L : Look) : Bool :=
  P.all (fun fn => (heldIn fn.exit).all (fun m => mem m (L fn.id)))

/-- … and a callee that may return holding `m` is called only where the caller's own state of `m` is
exactly "held" (bits = 2): the callee released and re-acquired the caller's lock. -/
def leaveOk (P : Prog) (L : Look) : Bool :=
  P.all (fun fn => fn.calls.all (fun c => !c.sync || (L c.callee).all (fun m => Nat.beq (bitsOf c.st m) 2)))

/-! ## Lock order -/

/-- `Before P m1 m2`: somewhere `m2` is acquired (directly, or by a callee in the same goroutine)
while the acquiring function holds `m1`. -/
inductive Before (P : Prog) : Nat → Nat → Prop where
  | acq {f : Nat} {fn : Fn} {a : Acq} {m1 : Nat} : P[f]? = some fn → a ∈ fn.acqs →
      hasH (bitsOf a.st m1) = true → m1 ≠ a.m → Before P m1 a.m
  | call {f : Nat} {fn : Fn} {c : Call} {m1 m2 : Nat} : P[f]? = some fn → c ∈ fn.calls → c.sync = true →
      hasH (bitsOf c.st m1) = true → AcqAny P c.callee m2 → m1 ≠ m2 → Before P m1 m2

def nthD : List Nat → Nat → Nat
  | [], _ => 0
  | x :: _, 0 => x
  | _ :: xs, n + 1 => nthD xs n

/-- `rank` strictly increases from every held mutex to every mutex acquired meanwhile (`A`: table of `AcqAny`) -/
def orderOk (P : Prog) (A : Look) (rank : Nat → Nat) : Bool :=
  P.all (fun fn =>
    fn.acqs.all (fun a => (heldIn a.st).all (fun m1 => Nat.beq m1 a.m || Nat.blt (rank m1) (rank a.m))) &&
    fn.calls.all (fun c => !c.sync || (heldIn c.st).all (fun m1 =>
      (A c.callee).all (fun m2 => Nat.beq m1 m2 || Nat.blt (rank m1) (rank m2)))))

/-- the pairs (m1, m2) of `Before`, from the table `A` of `AcqAny` (for reports) -/
def edges (P : Prog) (A : Look) : List (Nat × Nat) :=
  P.flatMap (fun fn =>
    fn.acqs.flatMap (fun a => ((heldIn a.st).filter (fun m1 => !Nat.beq m1 a.m)).map (fun m1 => (m1, a.m))) ++
    fn.calls.flatMap (fun c => bif c.sync then
      (heldIn c.st).flatMap (fun m1 => ((A c.callee).filter (fun m2 => !Nat.beq m1 m2)).map (fun m2 => (m1, m2))) else []))

def dedupPairs (l : List (Nat × Nat)) : List (Nat × Nat) :=
  l.foldl (fun acc x => if acc.contains x then acc else acc ++ [x]) []

/-! ## Mutexes that may be held when a function is entered -/

/-- `HeldOnEntry P g m`: some chain of same-goroutine calls leads to `g`, a function of the chain
holds `m` at its call and no later function of the chain has touched `m`. -/
inductive HeldOnEntry (P : Prog) : Nat → Nat → Prop where
  | site {f : Nat} {fn : Fn} {c : Call} {m : Nat} : P[f]? = some fn → c ∈ fn.calls → c.sync = true →
      hasH (bitsOf c.st m) = true → HeldOnEntry P c.callee m
  | pass {f : Nat} {fn : Fn} {c : Call} {m : Nat} : P[f]? = some fn → c ∈ fn.calls → c.sync = true →
      hasE (bitsOf c.st m) = true → HeldOnEntry P f m → HeldOnEntry P c.callee m

/-- `T` is a post-fixpoint of the two rules of `HeldOnEntry`. -/
def closedH (P : Prog) (T : Look) : Bool :=
  P.all (fun fn => fn.calls.all (fun c => !c.sync ||
    ((heldIn c.st).all (fun m => mem m (T c.callee)) &&
     (T fn.id).all (fun m => !hasE (bitsOf c.st m) || mem m (T c.callee)))))

/-! ## Least fixpoints computed in Lean (negative control, cross-checks by `#eval`) -/

def addNew (l : List Nat) (xs : List Nat) : List Nat :=
  xs.foldl (fun acc x => bif mem x acc then acc else acc ++ [x]) l

def round (rel : Bool) (P : Prog) (T : Tbl) : Tbl :=
  P.map (fun fn => (fn.id, addNew (T.at fn.id) (stepFn rel T.at fn)))

def Tbl.size (T : Tbl) : Nat := (T.map (fun e => e.2.length)).sum

def fix (rel : Bool) (P : Prog) : Nat → Tbl → Tbl
  | 0, T => T
  | k + 1, T =>
    let T' := round rel P T
    bif Nat.beq T'.size T.size then T else fix rel P k T'

/-- Every round but the last adds at least one (function, mutex) pair, so `#functions × #mutexes`
rounds always suffice; `closed` checks the result anyway. -/
def solve (rel : Bool) (P : Prog) (nMutex : Nat) : Tbl :=
  fix rel P (P.length * nMutex + 1) (P.map (fun fn => (fn.id, [])))

/-- same sets? (for `#eval` cross-checks of the extractor's tables against `solve`) -/
def sameAs (P : Prog) (T U : Look) : Bool :=
  P.all (fun fn => (T fn.id).all (fun m => mem m (U fn.id)) && (U fn.id).all (fun m => mem m (T fn.id)))

/-! ## The regenerated tables -/

def mayAcqT : Look := LTree.at Gen.lockMayAcq
def anyAcqT : Look := LTree.at Gen.lockAnyAcq
def heldT : Look := LTree.at Gen.lockHeldOnEntry
def leavesT : Look := LTree.at Gen.lockLeaves
def rank (m : Nat) : Nat := nthD Gen.lockRank m

def fnName (f : Nat) : String := Gen.lockFuncNames.getD f "?"
def muName (m : Nat) : String := Gen.lockMutexes.getD m "?"

/-- violations of the regenerated program, with names (for `#eval` and for reports) -/
def namedViolations : List (String × String × String) :=
  (recViolations prog mayAcqT).map (fun v => (fnName v.1, fnName v.2.1, muName v.2.2))

def namedEdges : List (String × String) :=
  (dedupPairs (edges prog anyAcqT)).map (fun e => (muName e.1, muName e.2))

/-- One call path that justifies `m ∈ T.at f` (for reports): follow the first call that contributes. -/
def witness (P : Prog) (T : Look) : Nat → Nat → Nat → List Nat
  | 0, f, _ => [f]
  | k + 1, f, m =>
    match P[f]? with
    | none => [f]
    | some fn =>
      if fn.acqs.any (fun a => Nat.beq a.m m && hasE (bitsOf a.st a.m)) then [f]
      else match fn.calls.find? (fun c => c.sync && hasE (bitsOf c.st m) && mem m (T c.callee)) with
        | none => [f]
        | some c => f :: witness P T k c.callee m

/-- the violations with one call path each -/
def namedViolationPaths : List (String × List String × String) :=
  (recViolations prog mayAcqT).map (fun v =>
    (fnName v.1, (witness prog mayAcqT 64 v.2.1 v.2.2).map fnName, muName v.2.2))

/-- (function name, mutexes that may be held when it is entered) for the given function names, those
with a non-empty set only -/
def heldWhenCalled (names : List String) : List (String × List String) :=
  names.filterMap (fun n =>
    let h := heldT (Gen.lockFuncNames.idxOf n)
    if h.isEmpty then none else some (n, h.map muName))

end Dht.Locks
