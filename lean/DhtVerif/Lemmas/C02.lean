/- Helper lemmas for C02. -/
import DhtVerif.Model.Traversal
import DhtVerif.Props.C18
import DhtVerif.Lemmas.C04
namespace Dht

/-- What one event offers to the closest set (the `here` of `offered` in Props/C02). -/
def offeredAt (c : TravCfg) (s : Trav) : TravEv → List KElem
  | .addClosest a =>
    match phaseOf s.inflight a with
    | some (.returned r) =>
      match r.responder with
      | some id => if c.nodeFilter ⟨some id, a⟩ && c.dataFilter r.data then [⟨id, a, r.data⟩] else []
      | none => []
    | _ => []
  | _ => []

theorem offeredAt_ok (c : TravCfg) (s : Trav) (e : TravEv) :
    ∀ m ∈ offeredAt c s e, c.nodeFilter ⟨some m.id, m.addr⟩ = true ∧ c.dataFilter m.data = true := by
  intro m hm
  cases e <;> simp only [offeredAt, List.not_mem_nil] at hm
  split at hm
  · split at hm
    · split at hm
      · rename_i hf
        simp only [List.mem_singleton] at hm
        subst hm
        simpa using hf
      · simp at hm
    · simp at hm
  · simp at hm

/-- Events other than `addClosest` leave the closest set alone. -/
theorem Trav.step_closest {c : TravCfg} {s s' : Trav} (e : TravEv)
    (hne : ∀ a, e ≠ .addClosest a) (hs : s.step c e = some s') : s'.closest = s.closest := by
  cases e with
  | addClosest a => exact absurd rfl (hne a)
  | addNodes ns =>
    simp only [Trav.step, Option.some.injEq] at hs
    subst hs; exact (Trav.addNodes_frame c ns s).1
  | runEval =>
    simp only [Trav.step] at hs
    split at hs
    · simp only [Option.some.injEq] at hs
      subst hs; exact Trav.runEval_frame c s
    · cases hs
  | captureGen =>
    simp only [Trav.step, Trav.captureGen] at hs
    split at hs
    · simp only [Option.some.injEq] at hs
      subst hs; rfl
    · cases hs
  | runWake why =>
    simp only [Trav.step, Trav.runWake] at hs
    split at hs
    · split at hs <;> split at hs <;> first
        | (simp only [Option.some.injEq] at hs
           subst hs; rfl)
        | cases hs
    · cases hs
  | queryReturn a r =>
    simp only [Trav.step] at hs
    split at hs
    · simp only [Option.some.injEq] at hs
      subst hs; rfl
    · cases hs
  | addReplyNodes a =>
    simp only [Trav.step] at hs
    split at hs
    · simp only [Option.some.injEq] at hs
      subst hs
      rename_i r _
      exact (Trav.addNodes_frame c r.nodes s).1
    · cases hs
  | addReplyNodes6 a =>
    simp only [Trav.step] at hs
    split at hs
    · simp only [Option.some.injEq] at hs
      subst hs
      rename_i r _
      exact (Trav.addNodes_frame c r.nodes6 s).1
    · cases hs
  | finish a =>
    simp only [Trav.step] at hs
    split at hs
    · simp only [Option.some.injEq] at hs
      subst hs; rfl
    · cases hs
  | stop =>
    simp only [Trav.step] at hs
    split at hs <;>
      (simp only [Option.some.injEq] at hs
       subst hs; rfl)
  | stopperStep =>
    simp only [Trav.step] at hs
    split at hs
    · split at hs <;>
        (simp only [Option.some.injEq] at hs
         subst hs; rfl)
    · split at hs
      · simp only [Option.some.injEq] at hs
        subst hs; rfl
      · cases hs
    · cases hs

theorem KNN.Reach.push_model {t : Id} {k : Nat} {hist s : List KElem} (e : KElem)
    (hr : KNN.Reach t k hist s) : KNN.Reach t k (hist ++ [e]) (KNN.push t k s e) := by
  have hinv := C18.knn_invariant t k hist s hr
  exact KNN.Reach.push e _ hr (KNN.push_allowed t k s e hinv.sorted hinv.nodupS)

/-- One event: the closest set stays a container reached by the pushes offered so far. -/
theorem Trav.step_reach {c : TravCfg} {s s' : Trav} {hist : List KElem} (e : TravEv)
    (hr : KNN.Reach c.target c.k hist s.closest) (hs : s.step c e = some s') :
    KNN.Reach c.target c.k (hist ++ offeredAt c s e) s'.closest := by
  by_cases hne : ∀ a, e ≠ .addClosest a
  · have hcl := Trav.step_closest e hne hs
    have : offeredAt c s e = [] := by
      cases e <;> first | rfl | exact absurd rfl (hne _)
    rw [this, List.append_nil, hcl]; exact hr
  · have : ∃ a, e = .addClosest a := by
      apply Classical.byContradiction
      intro hn
      exact hne (fun a ha => hn ⟨a, ha⟩)
    obtain ⟨a, rfl⟩ := this
    simp only [Trav.step] at hs
    simp only [offeredAt]
    split at hs
    · rename_i r hph
      simp only [Option.some.injEq] at hs
      subst hs
      rw [hph]
      show KNN.Reach c.target c.k _ (s.addClosest c a r).closest
      unfold Trav.addClosest
      cases hresp : r.responder with
      | none => simpa [hresp] using hr
      | some id =>
        by_cases hnf : c.nodeFilter ⟨some id, a⟩ = true
        · by_cases hdf : c.dataFilter r.data = true
          · simp only [hresp, hnf, hdf, Bool.not_true, Bool.false_eq_true, if_false, Bool.and_self,
              if_true]
            exact hr.push_model _
          · simp only [hresp, hnf, hdf, Bool.not_true, Bool.false_eq_true, if_false, Bool.not_false,
              if_true, Bool.and_false, List.append_nil]
            exact hr
        · simp only [hresp, hnf, Bool.not_false, if_true, Bool.false_and, Bool.false_eq_true,
            if_false, List.append_nil]
          exact hr
    · cases hs

theorem KNN.mem_foldl_upsert (hist acc : List KElem) (m : KElem)
    (h : m ∈ hist.foldl KNN.upsert acc) : m ∈ acc ∨ m ∈ hist := by
  induction hist generalizing acc with
  | nil => exact Or.inl h
  | cons e es ih =>
    rcases ih (KNN.upsert acc e) h with h1 | h1
    · rcases (KNN.mem_upsert acc e m).mp h1 with rfl | ⟨h2, _⟩
      · exact Or.inr List.mem_cons_self
      · exact Or.inl h2
    · exact Or.inr (List.mem_cons_of_mem _ h1)

theorem KNN.mem_latest_imp (hist : List KElem) (m : KElem) (h : m ∈ KNN.latest hist) : m ∈ hist := by
  rcases KNN.mem_foldl_upsert hist [] m h with h | h
  · simp at h
  · exact h

end Dht
