/- Helper lemmas for C05 (and C06): inversion of `updateNode` / `TblState.step`,
bucket bookkeeping, counting. -/
import DhtVerif.Model.Table
import DhtVerif.Lemmas.C18
namespace Dht

/-- `upd` changes neither the ID nor the address of an entry. -/
def KeyPres (f : Node → Node) : Prop := ∀ n, (f n).id = n.id ∧ (f n).addr = n.addr

theorem keyPres_onQuery (now : Nat) : KeyPres (onQuery now) := fun _ => ⟨rfl, rfl⟩
theorem keyPres_onResponse (now : Nat) : KeyPres (onResponse now) := fun _ => ⟨rfl, rfl⟩
theorem keyPres_onPingFailed : KeyPres onPingFailed := fun _ => ⟨rfl, rfl⟩
theorem keyPres_id : KeyPres (fun n => n) := fun _ => ⟨rfl, rfl⟩

theorem KeyPres.ite {upd : Node → Node} (h : KeyPres upd) (p : Node → Bool) :
    KeyPres (fun n => if p n then upd n else n) := by
  intro n
  by_cases hp : p n = true <;> simp [hp, h n]

theorem KeyPres.bucket {f : Node → Node} (h : KeyPres f) (c : TableCfg) (n : Node) :
    (f n).bucket c = n.bucket c := by
  simp [Node.bucket, (h n).1]

theorem KeyPres.isSecure {f : Node → Node} (h : KeyPres f) (n : Node) :
    (f n).isSecure = n.isSecure := by
  simp [Node.isSecure, (h n).1, (h n).2]

theorem bucketNodes_map {f : Node → Node} (h : KeyPres f) (c : TableCfg) (t : Table) (i : Nat) :
    bucketNodes c (t.map f) i = (bucketNodes c t i).map f := by
  unfold bucketNodes
  rw [List.filter_map]
  congr 1
  apply List.filter_congr
  intro n _
  simp [h.bucket c n]

theorem bucketNodes_append (c : TableCfg) (t u : Table) (i : Nat) :
    bucketNodes c (t ++ u) i = bucketNodes c t i ++ bucketNodes c u i := by
  simp [bucketNodes]

theorem bucketNodes_filter (c : TableCfg) (t : Table) (p : Node → Bool) (i : Nat) :
    bucketNodes c (t.filter p) i = (bucketNodes c t i).filter p := by
  simp only [bucketNodes, List.filter_filter]
  apply List.filter_congr
  intro n _
  exact Bool.and_comm _ _

theorem bucketNodes_single (c : TableCfg) (n : Node) (i j : Nat) (hn : n.bucket c = some i) :
    bucketNodes c [n] j = if j = i then [n] else [] := by
  by_cases hj : j = i
  · subst hj; simp [bucketNodes, hn]
  · have : ¬ i = j := fun h => hj h.symm
    simp [bucketNodes, hn, hj, this]

theorem bucketNodes_snoc_length (c : TableCfg) (t : Table) (n : Node) (i j : Nat) (hn : n.bucket c = some i) :
    (bucketNodes c (t ++ [n]) j).length = (bucketNodes c t j).length + (if j = i then 1 else 0) := by
  rw [bucketNodes_append, bucketNodes_single c n i j hn]
  by_cases hj : j = i <;> simp [hj]

theorem mem_bucketNodes {c : TableCfg} {t : Table} {i : Nat} {n : Node} :
    n ∈ bucketNodes c t i ↔ n ∈ t ∧ n.bucket c = some i := by
  simp [bucketNodes]

theorem bucketIndex_lt (root id : Id) (i : Nat) (hr : root.length = 20) (hi : id.length = 20)
    (h : bucketIndex root id = some i) : i < 160 := by
  have hne : id ≠ root := by
    intro he
    simp [bucketIndex, he] at h
  obtain ⟨i', h', hlt, _⟩ := bucketIndex_spec root id hr hi hne
  rw [h] at h'
  cases h'
  exact hlt

theorem isBad_false {c : TableCfg} {n : Node} (h : isBad c n = false) :
    n.id ≠ c.root ∧ n.id.isZero = false ∧ (c.noSecurity = false → n.isSecure = true) ∧ n.failed = false := by
  simp [isBad] at h
  obtain ⟨⟨⟨h1, h2⟩, h3⟩, h4⟩ := h
  exact ⟨h1, h2, h3, h4⟩

theorem getNode_none {c : TableCfg} {t : Table} {addr : NAddr} {id : Id}
    (h : getNode c t addr id = none) (hne : id ≠ c.root) :
    ∀ a ∈ t, ¬ (a.id = id ∧ a.addr.key = addr.key) := by
  intro a ha hk
  simp [getNode, hne, Node.is] at h
  exact h a ha hk.1 hk.2

theorem getNode_some {c : TableCfg} {t : Table} {addr : NAddr} {id : Id} {x : Node}
    (h : getNode c t addr id = some x) :
    x ∈ t ∧ x.is addr id = true ∧ x.id = id ∧ x.addr.key = addr.key ∧ id ≠ c.root := by
  unfold getNode at h
  split at h
  · cases h
  · rename_i hne
    have h1 := List.mem_of_find?_eq_some h
    have h2 := List.find?_some h
    have h3 := h2
    simp [Node.is] at h3
    exact ⟨h1, h2, h3.1, h3.2, by simpa using hne⟩

theorem mem_map_keyPres {f : Node → Node} (h : KeyPres f) {t : Table} {n : Node} (hn : n ∈ t.map f) :
    ∃ n0 ∈ t, n = f n0 ∧ n.id = n0.id ∧ n.addr = n0.addr := by
  obtain ⟨n0, h0, rfl⟩ := List.mem_map.mp hn
  exact ⟨n0, h0, rfl, (h n0).1, (h n0).2⟩

theorem pairwise_map_keyPres {f : Node → Node} (h : KeyPres f) {t : Table}
    (hd : t.Pairwise (fun a b => ¬ (a.id = b.id ∧ a.addr.key = b.addr.key))) :
    (t.map f).Pairwise (fun a b => ¬ (a.id = b.id ∧ a.addr.key = b.addr.key)) := by
  rw [List.pairwise_map]
  refine hd.imp ?_
  intro a b hab
  rw [(h a).1, (h a).2, (h b).1, (h b).2]
  exact hab

theorem pairwise_snoc {t : Table} {n : Node}
    (hd : t.Pairwise (fun a b => ¬ (a.id = b.id ∧ a.addr.key = b.addr.key)))
    (hn : ∀ a ∈ t, ¬ (a.id = n.id ∧ a.addr.key = n.addr.key)) :
    (t ++ [n]).Pairwise (fun a b => ¬ (a.id = b.id ∧ a.addr.key = b.addr.key)) := by
  rw [List.pairwise_append]
  refine ⟨hd, List.pairwise_singleton _ _, ?_⟩
  intro a ha b hb
  rw [List.mem_singleton] at hb
  subst hb
  exact hn a ha

theorem sum_map_add (l : List Nat) (f g : Nat → Nat) :
    (l.map (fun i => f i + g i)).sum = (l.map f).sum + (l.map g).sum := by
  induction l with
  | nil => simp
  | cons a l ih => simp only [List.map_cons, List.sum_cons, ih]; omega

theorem sum_indicator (N i0 : Nat) :
    ((List.range N).map (fun i => if i0 = i then 1 else 0)).sum = if i0 < N then 1 else 0 := by
  induction N with
  | zero => simp
  | succ N ih =>
    rw [List.range_succ, List.map_append, List.sum_append, ih]
    by_cases h1 : i0 < N
    · have : i0 ≠ N := by omega
      have h2 : i0 < N + 1 := by omega
      simp [h1, this, h2]
    · by_cases h2 : i0 = N
      · subst h2; simp
      · have h3 : ¬ i0 < N + 1 := by omega
        simp [h1, h2, h3]

theorem sum_le_mul (N k : Nat) (f : Nat → Nat) (h : ∀ i, f i ≤ k) :
    ((List.range N).map f).sum ≤ N * k := by
  induction N with
  | zero => simp
  | succ N ih =>
    rw [List.range_succ, List.map_append, List.sum_append]
    have := h N
    simp only [List.map_cons, List.map_nil, List.sum_cons, List.sum_nil]
    rw [Nat.succ_mul]
    omega

theorem length_eq_sum_buckets (c : TableCfg) (N : Nat) (t : Table)
    (h : ∀ n ∈ t, ∃ i, n.bucket c = some i ∧ i < N) :
    t.length = ((List.range N).map (fun i => (bucketNodes c t i).length)).sum := by
  induction t with
  | nil =>
    have := sum_le_mul N 0 (fun i => (bucketNodes c [] i).length) (fun i => by simp [bucketNodes])
    simp at this ⊢; omega
  | cons n t ih =>
    obtain ⟨i0, hb, hlt⟩ := h n (List.mem_cons_self)
    have ih' := ih (fun m hm => h m (List.mem_cons_of_mem _ hm))
    have : (fun i => (bucketNodes c (n :: t) i).length)
        = (fun i => (if i0 = i then 1 else 0) + (bucketNodes c t i).length) := by
      funext i
      by_cases hi : i0 = i
      · subst hi; simp [bucketNodes, hb]; omega
      · simp [bucketNodes, hb, hi]
    rw [this, sum_map_add, sum_indicator, ← ih']
    simp [hlt]; omega


/-! ### Inversion of `updateNode` -/

theorem updateNode_cases {c : TableCfg} {now : Nat} {t : Table} {addr : NAddr} {id : Option Id} {tryAdd : Bool}
    {upd : Node → Node} {choice : Option Node} {t' : Table} {out : AddOutcome}
    (h : updateNode c now t addr id tryAdd upd choice = some (t', out)) :
    (t' = t ∧ ∃ why, out = .unchanged why) ∨
    (∃ id', id = some id' ∧ (getNode c t addr id').isSome = true ∧
        t' = t.map (fun n => if n.is addr id' then upd n else n) ∧ out = .updated) ∨
    (∃ id' i, id = some id' ∧ tryAdd = true ∧ getNode c t addr id' = none ∧ id' ≠ c.root ∧
        isBad c (upd { id := id', addr := addr }) = false ∧
        (upd { id := id', addr := addr }).bucket c = some i ∧
        (bucketNodes c t i).length < c.k ∧
        t' = t ++ [upd { id := id', addr := addr }] ∧ out = .added) ∨
    (∃ id' i d, id = some id' ∧ tryAdd = true ∧ getNode c t addr id' = none ∧ id' ≠ c.root ∧
        isBad c (upd { id := id', addr := addr }) = false ∧
        (upd { id := id', addr := addr }).bucket c = some i ∧
        d ∈ droppable c now t (upd { id := id', addr := addr }) ∧
        (bucketNodes c (t.filter (fun x => !(x == d))) i).length < c.k ∧
        t' = t.filter (fun x => !(x == d)) ++ [upd { id := id', addr := addr }] ∧
        out = .replaced d ∧ choice = some d) := by
  unfold updateNode at h
  split at h
  · simp at h; left; exact ⟨h.1.symm, _, h.2.symm⟩
  · rename_i id'
    split at h
    · rename_i x hx
      simp at h; right; left
      exact ⟨id', rfl, by simp [hx], h.1.symm, h.2.symm⟩
    · rename_i hg
      split at h
      · simp at h; left; exact ⟨h.1.symm, _, h.2.symm⟩
      · rename_i hta
        split at h
        · simp at h; left; exact ⟨h.1.symm, _, h.2.symm⟩
        · rename_i hroot
          simp only [] at h
          split at h
          · simp at h; left; exact ⟨h.1.symm, _, h.2.symm⟩
          · rename_i hbad
            split at h
            · simp at h
            · rename_i i hi
              split at h
              · rename_i hlen
                simp at h; right; right; left
                refine ⟨id', i, rfl, by simpa using hta, hg, by simpa using hroot, by simpa using hbad, hi, hlen, h.1.symm, h.2.symm⟩
              · split at h
                · simp at h; left; exact ⟨h.1.symm, _, h.2.symm⟩
                · split at h
                  · simp at h
                  · rename_i d
                    split at h
                    · rename_i hd
                      split at h
                      · rename_i hlen
                        simp at h; right; right; right
                        refine ⟨id', i, d, rfl, by simpa using hta, hg, by simpa using hroot, by simpa using hbad, hi, by simpa using hd, hlen, h.1.symm, h.2.symm, rfl⟩
                      · simp at h
                    · simp at h

/-! ### Steps of the state machine -/

/-- The sender ID an event carries. -/
def TblEv.idOf : TblEv → Option Id
  | .recvQuery _ id _ _ => id
  | .recvResponse _ id _ _ => id
  | .apiAdd _ id _ => some id
  | .pingFailed _ id => some id
  | .advance _ => none

theorem step_map_some {c : TableCfg} {s s' : TblState} {out : AddOutcome} {addr : NAddr} {id : Option Id}
    {tryAdd : Bool} {upd : Node → Node} {ch : Option Node}
    (h : (updateNode c s.now s.table addr id tryAdd upd ch).map
        (fun r => (({ s with table := r.1 } : TblState), r.2)) = some (s', out)) :
    updateNode c s.now s.table addr id tryAdd upd ch = some (s'.table, out) ∧ s'.now = s.now := by
  cases hu : updateNode c s.now s.table addr id tryAdd upd ch with
  | none => simp [hu] at h
  | some r =>
    obtain ⟨t', o⟩ := r
    simp [hu] at h
    obtain ⟨h1, h2⟩ := h
    subst h1; subst h2
    exact ⟨rfl, rfl⟩

/-- Every step is either `advance` (table untouched) or one `updateNode` with a key-preserving update. -/
theorem step_cases {c : TableCfg} {s s' : TblState} {ev : TblEv} {out : AddOutcome}
    (h : s.step c ev = some (s', out)) :
    (s'.table = s.table ∧ ∃ why, out = .unchanged why) ∨
    ∃ addr tryAdd upd ch, KeyPres upd ∧
      updateNode c s.now s.table addr ev.idOf tryAdd upd ch = some (s'.table, out) ∧ s'.now = s.now := by
  cases ev with
  | recvQuery src id ro ch =>
    right; exact ⟨src, !ro, onQuery s.now, ch, keyPres_onQuery _, step_map_some h⟩
  | recvResponse src id ro ch =>
    right; exact ⟨src, !ro, onResponse s.now, ch, keyPres_onResponse _, step_map_some h⟩
  | apiAdd addr id ch =>
    right; exact ⟨addr, true, fun n => n, ch, keyPres_id, step_map_some h⟩
  | pingFailed addr id =>
    right; exact ⟨addr, false, onPingFailed, none, keyPres_onPingFailed, step_map_some h⟩
  | advance d =>
    left
    simp [TblState.step] at h
    obtain ⟨h1, h2⟩ := h
    subst h1
    exact ⟨rfl, _, h2.symm⟩

/-! ### No panic -/

theorem length_filter_ne_lt {l : List Node} {d : Node} (hd : d ∈ l) :
    (l.filter (fun x => !(x == d))).length < l.length := by
  rw [List.length_filter_lt_length_iff_exists]
  exact ⟨d, hd, by simp⟩

theorem mem_droppable {c : TableCfg} {now : Nat} {t : Table} {n d : Node} {i : Nat}
    (hn : n.bucket c = some i) :
    d ∈ droppable c now t n ↔
      d ∈ bucketNodes c t i ∧ (isBad c d = true ∨ (isGood c now n = true ∧ d.lastResp = none)) := by
  simp [droppable, hn]

/-- `updateNode` is defined as soon as the bucket bound holds and the choice is
some droppable entry whenever there is one (or no insertion is attempted). -/
theorem updateNode_isSome {c : TableCfg} {now : Nat} {t : Table} {addr : NAddr} {id : Option Id} {tryAdd : Bool}
    {upd : Node → Node} {ch : Option Node}
    (hb : ∀ i, (bucketNodes c t i).length ≤ c.k)
    (hch : tryAdd = false ∨ ∀ id', id = some id' →
      droppable c now t (upd { id := id', addr := addr }) = [] ∨
      ∃ d ∈ droppable c now t (upd { id := id', addr := addr }), ch = some d) :
    (updateNode c now t addr id tryAdd upd ch).isSome = true := by
  unfold updateNode
  split
  · rfl
  · rename_i id'
    split
    · rfl
    · split
      · rfl
      · rename_i hta
        have hta' : tryAdd = true := by simpa using hta
        split
        · rfl
        · simp only []
          split
          · rfl
          · rename_i hbad
            have hnb := isBad_false (by simpa using hbad)
            split
            · rename_i hnone
              exfalso
              have : (upd { id := id', addr := addr }).id = c.root := by
                simpa [Node.bucket, bucketIndex] using hnone
              exact hnb.1 this
            · rename_i i hi
              split
              · rfl
              · split
                · rfl
                · rename_i hne
                  rcases hch with hf | hch
                  · rw [hf] at hta'; cases hta'
                  · rcases hch id' rfl with he | ⟨d, hd, hc⟩
                    · rw [he] at hne; simp at hne
                    · subst hc
                      simp only []
                      have hc : (droppable c now t (upd { id := id', addr := addr })).contains d = true := by
                        simpa using hd
                      rw [if_pos hc]
                      have hdb : d ∈ bucketNodes c t i := ((mem_droppable hi).mp hd).1
                      have hlt : (bucketNodes c (t.filter (fun x => !(x == d))) i).length < c.k := by
                        rw [bucketNodes_filter]
                        exact Nat.lt_of_lt_of_le (length_filter_ne_lt hdb) (hb i)
                      rw [if_pos hlt]
                      rfl

end Dht
