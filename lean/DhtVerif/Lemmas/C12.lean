/- Helper lemmas for C12 (store side). -/
import DhtVerif.Lemmas.B44
namespace Dht.B44

/-- What the property demands of a stored / served item (limits as in the property text). -/
def ItemValid (P : Params) (i : Item) : Prop :=
  i.bv.length ≤ 1000 ∧
  ∀ k, i.k = some k → i.salt.length ≤ 64 ∧ P.verify k (bufferToSign i.salt i.seq i.bv) i.sig = true

/-- … and of the place it is filed under. -/
def RightTarget (P : Params) (t : Target) (i : Item) : Prop :=
  (∀ k, i.k = some k → t = P.H (k ++ i.salt)) ∧ (i.k = none → t = P.H i.bv)

/-- The store invariant. -/
def StoreInv (P : Params) (s : Store) : Prop :=
  ∀ t e, s t = some e → ItemValid P e.item ∧ RightTarget P t e.item

theorem rightTarget_target (P : Params) (i : Item) : RightTarget P (target P i) i := by
  unfold RightTarget target
  cases hk : i.k with
  | none => exact ⟨fun k h => (by cases h), fun _ => rfl⟩
  | some k => exact ⟨fun k' h => (by cases h; rfl), fun h => (by cases h)⟩

theorem check_none_valid (P : Params) (i : Item) (h : check P i = none) : ItemValid P i := by
  unfold check at h
  have hv : Gen.bep44MaxV = 1000 := by decide
  have hsl : Gen.bep44MaxSalt = 64 := by decide
  rw [hv, hsl] at h
  split at h
  · cases h
  · rename_i hlen
    refine ⟨by omega, ?_⟩
    intro k hk
    rw [hk] at h
    simp only [] at h
    split at h
    · cases h
    · rename_i hs
      split at h
      · cases h
      · rename_i hver
        refine ⟨by omega, ?_⟩
        cases hvv : P.verify k (bufferToSign i.salt i.seq i.bv) i.sig with
        | true => rfl
        | false => rw [hvv] at hver; simp at hver

theorem StoreInv.empty (P : Params) : StoreInv P Store.empty := by
  intro t e h; cases h

theorem StoreInv.put (P : Params) (now : Nat) (s : Store) (i : Item) (h : StoreInv P s) :
    StoreInv P (Wrapper.put P now s i).1 := by
  rcases Wrapper.put_cases P now s i with ⟨e, _, h'⟩ | ⟨st, e, _, _, _, h'⟩ | ⟨hc, _, h'⟩
  · rw [h']; exact h
  · rw [h']; exact h
  · rw [h']
    intro t e he
    simp only [] at he
    by_cases ht : t = target P i
    · subst ht
      rw [Store.set_same] at he; cases he
      exact ⟨check_none_valid P i hc, rightTarget_target P i⟩
    · rw [Store.set_other _ _ _ _ ht] at he; exact h t e he

theorem StoreInv.del (P : Params) (s : Store) (t0 : Target) (h : StoreInv P s) : StoreInv P (s.del t0) := by
  intro t e he
  by_cases ht : t = t0
  · subst ht; rw [Store.del_same] at he; cases he
  · rw [Store.del_other _ _ _ ht] at he; exact h t e he

theorem StoreInv.get (P : Params) (exp now : Nat) (s : Store) (t0 : Target) (h : StoreInv P s) :
    StoreInv P (Wrapper.get exp now s t0).1 := by
  cases hs : s t0 with
  | none => rw [Wrapper.get_none _ _ _ _ hs]; exact h
  | some e =>
    rcases Wrapper.get_some exp now s t0 e hs with ⟨_, hg⟩ | ⟨_, hg⟩
    · rw [hg]; exact h
    · rw [hg]; exact StoreInv.del P s t0 h

theorem StoreInv.step (P : Params) (exp : Nat) (s : St) (ev : Ev) (h : StoreInv P s.store) :
    StoreInv P (s.step P exp ev).store := by
  cases ev with
  | put i => exact StoreInv.put P s.now s.store i h
  | get t a => simp only [St.step]; rw [handleGet_store]; exact StoreInv.get P exp s.now s.store t h
  | advance d => exact h

theorem StoreInv.run (P : Params) (exp : Nat) (s : St) (evs : List Ev) (h : StoreInv P s.store) :
    StoreInv P (s.run P exp evs).store := by
  induction evs generalizing s with
  | nil => exact h
  | cons ev rest ih => rw [St.run_cons]; exact ih _ (StoreInv.step P exp s ev h)

end Dht.B44
