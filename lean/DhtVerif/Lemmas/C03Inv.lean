/- Helper lemmas for C03: invariants of the traversal model, preserved by every step. -/
import DhtVerif.Lemmas.C03
namespace Dht

theorem setPhase_map_fst (l : List (Addr × QPhase)) (a : Addr) (p : QPhase) :
    (setPhase l a p).map (·.1) = l.map (·.1) := by
  unfold setPhase
  rw [List.map_map]
  apply List.map_congr_left
  intro e _
  simp only [Function.comp]
  split <;> rfl

theorem setPhase_length (l : List (Addr × QPhase)) (a : Addr) (p : QPhase) :
    (setPhase l a p).length = l.length := by
  simp [setPhase]

theorem phaseOf_mem (l : List (Addr × QPhase)) (a : Addr) (p : QPhase) (h : phaseOf l a = some p) :
    (a, p) ∈ l := by
  unfold phaseOf at h
  cases hf : l.find? (·.1 == a) with
  | none => simp [hf] at h
  | some e =>
    rw [hf] at h
    simp only [Option.map_some, Option.some.injEq] at h
    have h1 := List.find?_some hf
    have h2 := List.mem_of_find?_eq_some hf
    simp only [beq_iff_eq] at h1
    cases e
    simp_all

theorem filter_ne_length (l : List (Addr × QPhase)) (a : Addr) (p : QPhase)
    (hn : (l.map (·.1)).Nodup) (hm : (a, p) ∈ l) :
    (l.filter (fun e => !(e.1 == a))).length + 1 = l.length := by
  induction l with
  | nil => cases hm
  | cons x xs ih =>
    simp only [List.map_cons, List.nodup_cons] at hn
    rcases List.mem_cons.mp hm with h | h
    · subst h
      have : xs.filter (fun e => !(e.1 == a)) = xs := by
        apply List.filter_eq_self.mpr
        intro e he
        simp only [Bool.not_eq_true', beq_eq_false_iff_ne, ne_eq]
        intro e1
        apply hn.1
        have := List.mem_map_of_mem (f := (·.1)) he
        rw [e1] at this
        exact this
      simp [this]
    · have hx : x.1 ≠ a := by
        intro e1
        apply hn.1
        rw [e1]
        exact List.mem_map_of_mem (f := (·.1)) h
      have := ih hn.2 h
      simp [hx, this]

theorem filter_ne_map_sublist (l : List (Addr × QPhase)) (a : Addr) :
    ((l.filter (fun e => !(e.1 == a))).map (·.1)).Sublist (l.map (·.1)) :=
  List.Sublist.map _ List.filter_sublist

theorem Trav.addClosest_cases (c : TravCfg) (s : Trav) (a : Addr) (r : QResult) :
    s.addClosest c a r = s ∨ ∃ cl, s.addClosest c a r = { s with closest := cl } := by
  unfold Trav.addClosest
  split
  · left; rfl
  · split
    · left; rfl
    · split
      · left; rfl
      · right; exact ⟨_, rfl⟩

theorem Trav.Core.withInflight {c : TravCfg} {s : Trav} (h : Trav.Core c s) (a : Addr) (p : QPhase) :
    Trav.Core c { s with inflight := setPhase s.inflight a p } :=
  ⟨h.sorted, h.queriedEq, h.nodup, by rw [setPhase_map_fst]; exact h.inflSub,
    by rw [setPhase_length]; exact h.outEq, h.runGen, h.stopGen, h.stopOut, h.stopIff⟩

theorem Trav.Core.addsTo {c : TravCfg} {ns : List Cand} {s s' : Trav} (h : Trav.Core c s)
    (A : Trav.AddsTo c ns s s') : Trav.Core c s' := by
  have hg := A.gen_le
  refine ⟨A.sorted h.sorted, by rw [A.started, A.queried]; exact h.queriedEq, by rw [A.queried]; exact h.nodup,
    by rw [A.started, A.inflight]; exact h.inflSub, by rw [A.outstanding, A.inflight]; exact h.outEq,
    ?_, ?_, ?_, by rw [A.stopper, A.stopping]; exact h.stopIff⟩
  · intro g o hr
    rw [A.run] at hr
    have := h.runGen g o hr
    omega
  · intro g hr
    rw [A.stopper] at hr
    have := h.stopGen g hr
    omega
  · intro g hr hgen
    rw [A.stopper] at hr
    rw [A.outstanding]
    have := h.stopGen g hr
    exact h.stopOut g hr (by omega)

theorem Trav.Core.step {c : TravCfg} {s s' : Trav} {e : TravEv} (h : Trav.Core c s)
    (hs : s.step c e = some s') : Trav.Core c s' := by
  cases e with
  | addNodes ns =>
    simp only [Trav.step, Option.some.injEq] at hs
    subst hs
    exact h.addsTo (Trav.addNodes_addsTo c ns s)
  | runEval =>
    simp only [Trav.step] at hs
    split at hs
    · rename_i hr
      simp only [Option.some.injEq] at hs
      subst hs
      have hr' : s.run = .awake := by simpa using hr
      unfold Trav.runEval
      rw [hr']
      simp only
      split
      · exact ⟨h.sorted, h.queriedEq, h.nodup, h.inflSub, h.outEq, (by intro g o hh; cases hh), h.stopGen,
          h.stopOut, h.stopIff⟩
      · have L := Trav.startLoop_launch c (s.unq.length + 1) s
        have hc := L.core h
        split
        · exact ⟨hc.sorted, hc.queriedEq, hc.nodup, hc.inflSub, hc.outEq,
            (by intro g o hh; simp only [RunPhase.sleeping.injEq] at hh; dsimp only; omega), hc.stopGen, hc.stopOut, hc.stopIff⟩
        · exact ⟨hc.sorted, hc.queriedEq, hc.nodup, hc.inflSub, hc.outEq,
            (by intro g o hh; cases hh), hc.stopGen, hc.stopOut, hc.stopIff⟩
    · cases hs
  | captureGen =>
    simp only [Trav.step, Trav.captureGen] at hs
    split at hs
    · simp only [Option.some.injEq] at hs
      subst hs
      exact ⟨h.sorted, h.queriedEq, h.nodup, h.inflSub, h.outEq,
        (by intro g o hh; simp only [RunPhase.sleeping.injEq] at hh; dsimp only; omega), h.stopGen, h.stopOut, h.stopIff⟩
    · cases hs
  | runWake why =>
    simp only [Trav.step, Trav.runWake] at hs
    split at hs
    · cases why <;> simp only at hs <;> split at hs <;>
        first
        | (simp only [Option.some.injEq] at hs
           subst hs
           exact ⟨h.sorted, h.queriedEq, h.nodup, h.inflSub, h.outEq, (by intro g o hh; cases hh), h.stopGen,
             h.stopOut, h.stopIff⟩)
        | cases hs
    · cases hs
  | queryReturn a r =>
    simp only [Trav.step] at hs
    split at hs
    · simp only [Option.some.injEq] at hs
      subst hs
      exact h.withInflight a _
    · cases hs
  | addClosest a =>
    simp only [Trav.step] at hs
    split at hs
    · rename_i r hp
      simp only [Option.some.injEq] at hs
      subst hs
      rcases Trav.addClosest_cases c s a r with e | ⟨cl, e⟩ <;> rw [e]
      · exact h.withInflight a _
      · exact Trav.Core.withInflight (s := { s with closest := cl })
          ⟨h.sorted, h.queriedEq, h.nodup, h.inflSub, h.outEq, h.runGen, h.stopGen, h.stopOut, h.stopIff⟩ a _
    · cases hs
  | addReplyNodes a =>
    simp only [Trav.step] at hs
    split at hs
    · rename_i r hp
      simp only [Option.some.injEq] at hs
      subst hs
      have A := Trav.addNodes_addsTo c r.nodes s
      have := (h.addsTo A).withInflight a (.nodesDone r)
      rw [A.inflight] at this
      exact this
    · cases hs
  | addReplyNodes6 a =>
    simp only [Trav.step] at hs
    split at hs
    · rename_i r hp
      simp only [Option.some.injEq] at hs
      subst hs
      have A := Trav.addNodes_addsTo c r.nodes6 s
      have := (h.addsTo A).withInflight a .nodes6Done
      rw [A.inflight] at this
      exact this
    · cases hs
  | finish a =>
    simp only [Trav.step] at hs
    split at hs
    · rename_i hp
      simp only [Option.some.injEq] at hs
      subst hs
      have hm := phaseOf_mem _ _ _ hp
      have hl := filter_ne_length s.inflight a _ h.inflight_nodup hm
      refine ⟨h.sorted, h.queriedEq, h.nodup, (filter_ne_map_sublist s.inflight a).trans h.inflSub, ?_, ?_, ?_, ?_,
        h.stopIff⟩
      · have := h.outEq
        show s.outstanding - 1 = (s.inflight.filter (fun e => !(e.1 == a))).length
        omega
      · intro g o hr
        have := h.runGen g o hr
        show g ≤ s.gen + 1
        omega
      · intro g hr
        have := h.stopGen g hr
        show g ≤ s.gen + 1
        omega
      · intro g hr hg
        have := h.stopGen g hr
        have hg' : s.gen + 1 = g := hg
        omega
    · cases hs
  | stop =>
    simp only [Trav.step] at hs
    split at hs
    · simp only [Option.some.injEq] at hs
      subst hs; exact h
    · rename_i hst
      simp only [Option.some.injEq] at hs
      subst hs
      refine ⟨h.sorted, h.queriedEq, h.nodup, h.inflSub, h.outEq, h.runGen, ?_, ?_, ?_⟩
      · intro g hh; cases hh
      · intro g hh; cases hh
      · simp
  | stopperStep =>
    simp only [Trav.step] at hs
    split at hs
    · rename_i hst
      have hstop : s.stopping = true := h.stopIff.mp (by rw [hst]; simp)
      split at hs
      · simp only [Option.some.injEq] at hs
        subst hs
        refine ⟨h.sorted, h.queriedEq, h.nodup, h.inflSub, h.outEq, h.runGen, ?_, ?_, ?_⟩
        · intro g hh; cases hh
        · intro g hh; cases hh
        · simp [hstop]
      · rename_i hout
        simp only [Option.some.injEq] at hs
        subst hs
        refine ⟨h.sorted, h.queriedEq, h.nodup, h.inflSub, h.outEq, h.runGen, ?_, ?_, ?_⟩
        · intro g hh
          simp only [StopperPhase.sleeping.injEq] at hh
          dsimp only
          omega
        · intro g _ _
          simpa using hout
        · simp [hstop]
    · rename_i g hst
      have hstop : s.stopping = true := h.stopIff.mp (by rw [hst]; simp)
      split at hs
      · simp only [Option.some.injEq] at hs
        subst hs
        refine ⟨h.sorted, h.queriedEq, h.nodup, h.inflSub, h.outEq, h.runGen, ?_, ?_, ?_⟩
        · intro g hh; cases hh
        · intro g hh; cases hh
        · simp [hstop]
      · cases hs
    · cases hs

theorem Trav.Core.exec {c : TravCfg} {evs : List TravEv} {s : Trav} (h : Trav.exec c {} evs = some s) :
    Trav.Core c s :=
  Trav.exec_inv (Trav.Core c) (fun _ _ _ hp hs => hp.step hs) evs {} s (Trav.Core.init c) h

end Dht
