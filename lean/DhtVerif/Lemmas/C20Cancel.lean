/- Helper lemmas for C20 with cancellations: invariants of `CHist` histories in the finite,
positive-rate regime. -/
import DhtVerif.Model.RateCancel
import DhtVerif.Lemmas.C20
namespace Dht

structure CHist.WF (p q burst t0 : Nat) (s : CHist) : Prop where
  ninf : s.c.b.inf = false
  hp : s.c.b.p = p
  hq : s.c.b.q = q
  hburst : s.c.b.burst = burst
  t0_le : t0 ≤ s.c.b.last
  last_le : s.c.b.last ≤ s.now

theorem CBucket.finite_of (c : CBucket) (hinf : c.b.inf = false) (hp : 0 < c.b.p) : c.finite = true := by
  have : c.b.p ≠ 0 := by omega
  simp [CBucket.finite, hinf, this]

theorem CHist.run_cons (s : CHist) (e : CEv) (h : List CEv) : s.run (e :: h) = (s.step e).run h := rfl

theorem CHist.run_append (s : CHist) (h₁ h₂ : List CEv) : s.run (h₁ ++ h₂) = (s.run h₁).run h₂ := by
  simp [CHist.run, List.foldl_append]

/-! ## What one event does -/

/-- `Shape s s' δ`: one event takes `s` to `s'` and wastes `δ` units. -/
inductive CHist.Shape (s : CHist) : CHist → Int → Prop where
  | adv (dt : Nat) : Shape s { s with now := s.now + dt } 0
  | same : Shape s s 0
  /-- a cancellation that does not reach the bucket -/
  | drop (i : Nat) (r : Resv) (hr : s.pending[i]? = some r) :
      Shape s { s with pending := s.pending.eraseIdx i, cancelled := s.cancelled + 1 } (s.c.b.unit : Int)
  | takeOut (le : Nat) (h : 1 ≤ s.c.b.burst) (hd : s.c.b.deficit s.now = 0) :
      Shape s { s with
        c := ⟨{ s.c.b with tokens := s.c.b.tokensAt s.now - (s.c.b.unit : Int), last := s.now }, le⟩,
        out := ⟨s.now, s.c.b.actScaled s.now⟩ :: s.out } 0
  | takePend (le : Nat) (h : 1 ≤ s.c.b.burst) :
      Shape s { s with
        c := ⟨{ s.c.b with tokens := s.c.b.tokensAt s.now - (s.c.b.unit : Int), last := s.now }, le⟩,
        pending := s.pending ++ [⟨s.now + ceilDiv (s.c.b.deficit s.now) s.c.b.p, s.c.b.actScaled s.now⟩] } 0
  | use (i : Nat) (r : Resv) (hr : s.pending[i]? = some r) (hle : r.slot ≤ s.now) :
      Shape s { s with pending := s.pending.eraseIdx i, out := ⟨s.now, r.act⟩ :: s.out } 0
  | give (le : Nat) (h : 0 ≤ s.c.b.tokensAt s.now + (s.c.b.unit : Int)) :
      Shape s { s with
        c := ⟨{ s.c.b with tokens := s.c.b.tokensAt s.now + (s.c.b.unit : Int), last := s.now }, le⟩,
        returned := s.returned + 1 } 0
  /-- a cancellation that credits `ρ > 0` units -/
  | cancel (i : Nat) (r : Resv) (hr : s.pending[i]? = some r) (ρ : Int) (h0 : 0 < ρ)
      (le : Nat) :
      Shape s { s with
        c := ⟨{ s.c.b with tokens := min (s.c.b.cap : Int) (s.c.b.tokensAt s.now + ρ), last := s.now }, le⟩,
        pending := s.pending.eraseIdx i, cancelled := s.cancelled + 1 } ((s.c.b.unit : Int) - ρ)

theorem CHist.step_shape (s : CHist) (e : CEv) (hinf : s.c.b.inf = false) (hp : 0 < s.c.b.p)
    (hl : s.c.b.last ≤ s.now) (ht : e.timely = true) :
    CHist.Shape s (s.step e) (s.wasteStep e) := by
  have hfin := CBucket.finite_of s.c hinf hp
  cases e with
  | adv dt => exact .adv dt
  | allow =>
    by_cases h : 1 ≤ s.c.b.burst ∧ 0 ≤ s.c.b.tokensAt s.now - (s.c.b.unit : Int)
    · simp only [CHist.step, CBucket.allow, Bucket.allow_ok _ _ hinf hp h, if_true]
      exact .takeOut _ h.1 (Bucket.deficit_zero_of_allow _ _ h.2)
    · simp only [CHist.step, CBucket.allow, Bucket.allow_no _ _ hinf hp hl h, Bool.false_and]
      exact .same
  | reserve =>
    by_cases h : 1 ≤ s.c.b.burst
    · simp only [CHist.step, CBucket.reserve, Bucket.reserve_ok _ _ hinf hp h]
      exact .takePend _ h
    · simp only [CHist.step, CBucket.reserve, Bucket.reserve_no _ _ none hinf hp hl h]
      exact .same
  | use i =>
    simp only [CHist.step]
    split
    · rename_i r hr
      split
      · rename_i hle; exact .use i r hr hle
      · exact .same
    · exact .same
  | cancel i =>
    simp only [CHist.step, CHist.wasteStep]
    split
    · rename_i r hr
      have hcr : s.credited r = if s.now ≤ r.slot ∧ 0 < s.c.restore r then s.c.restore r else 0 := by
        simp [CHist.credited, hfin]
      rw [hcr]
      unfold CBucket.cancelAt
      rw [hfin]
      simp only [Bool.not_true, Bool.false_eq_true, if_false]
      by_cases h1 : r.slot < s.now
      · rw [if_pos h1, if_neg (fun hh => by omega), Int.sub_zero]; exact .drop i r hr
      · rw [if_neg h1]
        by_cases h2 : s.c.restore r ≤ 0
        · rw [if_pos h2, if_neg (fun hh => by omega), Int.sub_zero]; exact .drop i r hr
        · rw [if_neg h2, if_pos (⟨by omega, by omega⟩ : s.now ≤ r.slot ∧ 0 < s.c.restore r)]
          exact .cancel i r hr (s.c.restore r) (by omega) _
    · exact .same
  | cancelStale i t => simp [CEv.timely] at ht
  | giveBack =>
    by_cases h : 0 ≤ s.c.b.tokensAt s.now + (s.c.b.unit : Int)
    · simp only [CHist.step, CBucket.giveBack, Bucket.giveBack_ok _ _ hinf hp h, if_true]
      exact .give _ h
    · simp only [CHist.step, CBucket.giveBack, Bucket.giveBack_no _ _ hinf hp hl h, Bool.false_and]
      exact .same

theorem CHist.WF.shape {p q burst t0 : Nat} {s s' : CHist} {δ : Int} (w : s.WF p q burst t0) (h : CHist.Shape s s' δ) :
    s'.WF p q burst t0 := by
  obtain ⟨h1, h2, h3, h4, h5, h6⟩ := w
  cases h with
  | adv dt => exact ⟨h1, h2, h3, h4, h5, by show s.c.b.last ≤ s.now + dt; omega⟩
  | same => exact ⟨h1, h2, h3, h4, h5, h6⟩
  | drop i r hr => exact ⟨h1, h2, h3, h4, h5, h6⟩
  | use i r hr hle => exact ⟨h1, h2, h3, h4, h5, h6⟩
  | takeOut le _ _ => exact ⟨h1, h2, h3, h4, by show t0 ≤ s.now; omega, Nat.le_refl _⟩
  | takePend le _ => exact ⟨h1, h2, h3, h4, by show t0 ≤ s.now; omega, Nat.le_refl _⟩
  | give le _ => exact ⟨h1, h2, h3, h4, by show t0 ≤ s.now; omega, Nat.le_refl _⟩
  | cancel i r hr ρ _ le => exact ⟨h1, h2, h3, h4, by show t0 ≤ s.now; omega, Nat.le_refl _⟩

theorem CHist.WF.init (p q burst t0 : Nat) : (CHist.init p q burst t0).WF p q burst t0 :=
  ⟨rfl, rfl, rfl, rfl, Nat.le_refl _, Nat.le_refl _⟩

/-! ## The live grants -/

theorem CHist.live_erase (s : CHist) (i : Nat) (r : Resv) (hr : s.pending[i]? = some r) :
    s.live.Perm (r.act :: (s.out.map (·.act) ++ (s.pending.eraseIdx i).map (·.act))) := by
  have h1 : (s.pending.map (·.act)).Perm (r.act :: (s.pending.eraseIdx i).map (·.act)) := by
    simpa using (eraseIdx_perm s.pending i r hr).map (·.act)
  exact (List.Perm.append_left (s.out.map (·.act)) h1).trans List.perm_middle

theorem countP_gt_cons (X a : Nat) (l : List Nat) :
    (a :: l).countP (fun g => decide (X < g)) = l.countP (fun g => decide (X < g)) + (if X < a then 1 else 0) := by
  simp [List.countP_cons]

theorem countP_gt_append_single (X a : Nat) (l : List Nat) :
    (l ++ [a]).countP (fun g => decide (X < g)) = l.countP (fun g => decide (X < g)) + (if X < a then 1 else 0) := by
  simp [List.countP_append, List.countP_cons]

/-! ## The invariant

`W` (units) is what cancellations have wasted so far: a cancellation hands back `ρ ≤ unit` of the
token it held, and the rest, `unit − ρ`, is lost to the budget. -/

structure CHist.Inv (t0 : Nat) (s : CHist) (W : Int) : Prop where
  wpos : 0 ≤ W
  /-- `unit·live + tokens + W ≤ cap + p·(last − t0) + unit·returned` -/
  budget : ((s.c.b.unit * s.live.length : Nat) : Int) + s.c.b.tokens + W + ((s.c.b.p * t0 : Nat) : Int)
    ≤ (s.c.b.cap : Int) + ((s.c.b.p * s.c.b.last : Nat) : Int) + ((s.c.b.unit * s.returned : Nat) : Int)
  /-- whatever debt remains at a future scaled instant `X` is covered by live grants due after `X`,
  up to the waste -/
  covered : ∀ X : Nat, s.c.b.p * s.now ≤ X →
    0 ≤ s.c.b.tokens + (X : Int) - ((s.c.b.p * s.c.b.last : Nat) : Int) +
      ((s.c.b.unit * s.live.countP (fun g => decide (X < g)) : Nat) : Int) + W
  pend_ok : ∀ r ∈ s.pending, r.act ≤ s.c.b.p * r.slot
  out_ok : ∀ d ∈ s.out, d.act ≤ s.c.b.p * d.time ∧ d.time ≤ s.now

theorem CHist.Inv.init (p q burst t0 : Nat) : (CHist.init p q burst t0).Inv t0 0 := by
  refine ⟨Int.le_refl _, ?_, ?_, ?_, ?_⟩
  · simp [CHist.init, CBucket.new, Bucket.new, Bucket.cap, Bucket.unit, CHist.live]
  · intro X hX
    simp only [CHist.init, CBucket.new, Bucket.new, CHist.live, List.map_nil, List.append_nil,
      List.countP_nil, Nat.mul_zero] at *
    omega
  · intro r hr; simp [CHist.init] at hr
  · intro d hd; simp [CHist.init] at hd

/-- the live grants once the `i`-th reservation is gone -/
def CHist.liveWithout (s : CHist) (i : Nat) : List Nat :=
  s.out.map (·.act) ++ (s.pending.eraseIdx i).map (·.act)

theorem CHist.live_erase_length (s : CHist) (i : Nat) (r : Resv) (hr : s.pending[i]? = some r) :
    s.live.length = (s.liveWithout i).length + 1 := by
  have := (s.live_erase i r hr).length_eq
  simpa [CHist.liveWithout] using this

theorem CHist.live_erase_countP (s : CHist) (i : Nat) (r : Resv) (hr : s.pending[i]? = some r) (X : Nat) :
    s.live.countP (fun g => decide (X < g)) =
      (s.liveWithout i).countP (fun g => decide (X < g)) + (if X < r.act then 1 else 0) := by
  rw [(s.live_erase i r hr).countP_eq, countP_gt_cons]; rfl

theorem CHist.Inv.shape {p q burst t0 : Nat} (hp : 0 < p) (s s' : CHist) (w : s.WF p q burst t0) {W δ : Int}
    (i : s.Inv t0 W) (sh : CHist.Shape s s' δ) (hW : 0 ≤ W + δ) : s'.Inv t0 (W + δ) := by
  have ht := Bucket.tokensAt_le s.c.b s.now w.last_le
  have hc := Bucket.tokensAt_cases s.c.b s.now w.last_le
  obtain ⟨iw, ib, ic, ip, io⟩ := i
  cases sh with
  | adv dt =>
    rw [Int.add_zero]
    refine ⟨iw, ib, ?_, ip, ?_⟩
    · intro X hX
      have : s.c.b.p * s.now ≤ s.c.b.p * (s.now + dt) := Nat.mul_le_mul_left _ (by omega)
      exact ic X (by simp only at hX; omega)
    · intro d hd
      have := io d hd
      exact ⟨this.1, by show d.time ≤ s.now + dt; omega⟩
  | same => rw [Int.add_zero]; exact ⟨iw, ib, ic, ip, io⟩
  | drop j r hr =>
    have hlen := s.live_erase_length j r hr
    refine ⟨hW, ?_, ?_, ?_, io⟩
    · show ((s.c.b.unit * (s.liveWithout j).length : Nat) : Int) + s.c.b.tokens + (W + (s.c.b.unit : Int)) + ((s.c.b.p * t0 : Nat) : Int)
        ≤ (s.c.b.cap : Int) + ((s.c.b.p * s.c.b.last : Nat) : Int) + ((s.c.b.unit * s.returned : Nat) : Int)
      rw [hlen, Nat.mul_add, Nat.mul_one] at ib
      omega
    · intro X hX
      have i' := ic X hX
      have hcnt := s.live_erase_countP j r hr X
      show 0 ≤ s.c.b.tokens + (X : Int) - ((s.c.b.p * s.c.b.last : Nat) : Int) +
        ((s.c.b.unit * (s.liveWithout j).countP (fun g => decide (X < g)) : Nat) : Int) + (W + (s.c.b.unit : Int))
      rw [hcnt, Nat.mul_add] at i'
      split at i' <;> omega
    · intro r' hr'
      exact ip r' (List.mem_of_mem_eraseIdx hr')
  | takeOut le hb hd =>
    rw [Int.add_zero]
    refine ⟨iw, ?_, ?_, ip, ?_⟩
    · show ((s.c.b.unit * (s.c.b.actScaled s.now :: s.live).length : Nat) : Int) + (s.c.b.tokensAt s.now - (s.c.b.unit : Int)) + W + ((s.c.b.p * t0 : Nat) : Int)
        ≤ (s.c.b.cap : Int) + ((s.c.b.p * s.now : Nat) : Int) + ((s.c.b.unit * s.returned : Nat) : Int)
      simp only [List.length_cons, Nat.mul_succ, Bucket.unit, Bucket.cap] at *
      omega
    · intro X hX
      have i' := ic X hX
      show 0 ≤ (s.c.b.tokensAt s.now - (s.c.b.unit : Int)) + (X : Int) - ((s.c.b.p * s.now : Nat) : Int) +
        ((s.c.b.unit * (s.c.b.actScaled s.now :: s.live).countP (fun g => decide (X < g)) : Nat) : Int) + W
      rw [countP_gt_cons]
      by_cases hlt : X < s.c.b.actScaled s.now
      · rw [if_pos hlt]
        simp only [Bucket.unit, Bucket.cap, Bucket.actScaled, Bucket.deficit, Nat.mul_add, Nat.mul_one] at *
        omega
      · rw [if_neg hlt]
        simp only [Bucket.unit, Bucket.cap, Bucket.actScaled, Bucket.deficit, Nat.add_zero] at *
        omega
    · intro d hd'
      rcases List.mem_cons.mp hd' with h | h
      · subst h
        refine ⟨?_, Nat.le_refl _⟩
        show s.c.b.actScaled s.now ≤ s.c.b.p * s.now
        simp only [Bucket.actScaled, hd]; omega
      · exact io d h
  | takePend le hb =>
    have hlive : ({ s with
        c := ⟨{ s.c.b with tokens := s.c.b.tokensAt s.now - (s.c.b.unit : Int), last := s.now }, le⟩,
        pending := s.pending ++ [⟨s.now + ceilDiv (s.c.b.deficit s.now) s.c.b.p, s.c.b.actScaled s.now⟩] } : CHist).live
        = s.live ++ [s.c.b.actScaled s.now] := by
      simp [CHist.live]
    rw [Int.add_zero]
    refine ⟨iw, ?_, ?_, ?_, io⟩
    · rw [hlive]
      show ((s.c.b.unit * (s.live ++ [s.c.b.actScaled s.now]).length : Nat) : Int) + (s.c.b.tokensAt s.now - (s.c.b.unit : Int)) + W + ((s.c.b.p * t0 : Nat) : Int)
        ≤ (s.c.b.cap : Int) + ((s.c.b.p * s.now : Nat) : Int) + ((s.c.b.unit * s.returned : Nat) : Int)
      simp only [List.length_append, List.length_cons, List.length_nil, Nat.zero_add, Nat.mul_succ, Bucket.unit, Bucket.cap] at *
      omega
    · intro X hX
      have i' := ic X hX
      rw [hlive, countP_gt_append_single]
      show 0 ≤ (s.c.b.tokensAt s.now - (s.c.b.unit : Int)) + (X : Int) - ((s.c.b.p * s.now : Nat) : Int) +
        ((s.c.b.unit * (s.live.countP (fun g => decide (X < g)) + (if X < s.c.b.actScaled s.now then 1 else 0)) : Nat) : Int) + W
      by_cases hlt : X < s.c.b.actScaled s.now
      · rw [if_pos hlt]
        simp only [Bucket.unit, Bucket.cap, Bucket.actScaled, Bucket.deficit, Nat.mul_add, Nat.mul_one] at *
        omega
      · rw [if_neg hlt]
        simp only [Bucket.unit, Bucket.cap, Bucket.actScaled, Bucket.deficit, Nat.add_zero] at *
        omega
    · intro r' hr'
      rcases List.mem_append.mp hr' with h | h
      · exact ip r' h
      · simp only [List.mem_singleton] at h
        subst h
        have hp0 : 0 < s.c.b.p := by rw [w.hp]; exact hp
        have hcd := le_mul_ceilDiv (s.c.b.deficit s.now) s.c.b.p hp0
        show s.c.b.actScaled s.now ≤ s.c.b.p * (s.now + ceilDiv (s.c.b.deficit s.now) s.c.b.p)
        simp only [Bucket.actScaled, Nat.mul_add]
        omega
  | use j r hr hle =>
    have hlen := s.live_erase_length j r hr
    have hlive : ({ s with pending := s.pending.eraseIdx j, out := ⟨s.now, r.act⟩ :: s.out } : CHist).live
        = r.act :: s.liveWithout j := by
      simp [CHist.live, CHist.liveWithout]
    rw [Int.add_zero]
    refine ⟨iw, ?_, ?_, ?_, ?_⟩
    · rw [hlive]
      simp only [List.length_cons]
      rw [hlen] at ib
      exact ib
    · intro X hX
      have i' := ic X hX
      rw [hlive, countP_gt_cons]
      rw [s.live_erase_countP j r hr X] at i'
      exact i'
    · intro r' hr'
      exact ip r' (List.mem_of_mem_eraseIdx hr')
    · intro d hd'
      rcases List.mem_cons.mp hd' with h | h
      · subst h
        have h1 := ip r (List.mem_of_getElem? hr)
        have h2 : s.c.b.p * r.slot ≤ s.c.b.p * s.now := Nat.mul_le_mul_left _ hle
        exact ⟨by show r.act ≤ s.c.b.p * s.now; omega, Nat.le_refl _⟩
      · exact io d h
  | give le hg =>
    rw [Int.add_zero]
    refine ⟨iw, ?_, ?_, ip, io⟩
    · show ((s.c.b.unit * s.live.length : Nat) : Int) + (s.c.b.tokensAt s.now + (s.c.b.unit : Int)) + W + ((s.c.b.p * t0 : Nat) : Int)
        ≤ (s.c.b.cap : Int) + ((s.c.b.p * s.now : Nat) : Int) + ((s.c.b.unit * (s.returned + 1) : Nat) : Int)
      simp only [Nat.mul_succ, Bucket.unit, Bucket.cap] at *
      omega
    · intro X hX
      have i' := ic X hX
      show 0 ≤ (s.c.b.tokensAt s.now + (s.c.b.unit : Int)) + (X : Int) - ((s.c.b.p * s.now : Nat) : Int) +
        ((s.c.b.unit * s.live.countP (fun g => decide (X < g)) : Nat) : Int) + W
      simp only [Bucket.unit, Bucket.cap] at *
      omega
  | cancel j r hr ρ h0 le =>
    have hlen := s.live_erase_length j r hr
    refine ⟨hW, ?_, ?_, ?_, io⟩
    · show ((s.c.b.unit * (s.liveWithout j).length : Nat) : Int) + min (s.c.b.cap : Int) (s.c.b.tokensAt s.now + ρ) + (W + ((s.c.b.unit : Int) - ρ)) + ((s.c.b.p * t0 : Nat) : Int)
        ≤ (s.c.b.cap : Int) + ((s.c.b.p * s.now : Nat) : Int) + ((s.c.b.unit * s.returned : Nat) : Int)
      rw [hlen, Nat.mul_add, Nat.mul_one] at ib
      simp only [Bucket.unit, Bucket.cap] at *
      omega
    · intro X hX
      have i' := ic X hX
      have hcnt := s.live_erase_countP j r hr X
      show 0 ≤ min (s.c.b.cap : Int) (s.c.b.tokensAt s.now + ρ) + (X : Int) - ((s.c.b.p * s.now : Nat) : Int) +
        ((s.c.b.unit * (s.liveWithout j).countP (fun g => decide (X < g)) : Nat) : Int) + (W + ((s.c.b.unit : Int) - ρ))
      rw [hcnt, Nat.mul_add] at i'
      simp only [Bucket.unit, Bucket.cap] at *
      split at i' <;> omega
    · intro r' hr'
      exact ip r' (List.mem_of_mem_eraseIdx hr')

/-- Along every history whose cancellations are timely and whose running waste stays non-negative. -/
theorem CHist.inv_run {p q burst t0 : Nat} (hp : 0 < p) (h : List CEv) :
    ∀ {s : CHist} {W : Int}, s.WF p q burst t0 → s.Inv t0 W → h.all CEv.timely = true → s.wasteOk W h = true →
      (s.run h).WF p q burst t0 ∧ ∃ W', (s.run h).Inv t0 W' := by
  induction h with
  | nil => intro s W w i _ _; exact ⟨w, W, i⟩
  | cons e h ih =>
    intro s W w i ht hok
    simp only [List.all_cons, Bool.and_eq_true] at ht
    simp only [CHist.wasteOk, Bool.and_eq_true, decide_eq_true_eq] at hok
    have sh := CHist.step_shape s e w.ninf (w.hp ▸ hp) w.last_le ht.1
    exact ih (w.shape sh) (CHist.Inv.shape hp s _ w i sh hok.1) ht.2 hok.2

/-- Cancellations that each credit at most their own token never make the running waste negative. -/
theorem CHist.wasteStep_nonneg (s : CHist) (e : CEv) (hok : s.creditOk e = true) : 0 ≤ s.wasteStep e := by
  cases e with
  | cancel i =>
    simp only [CHist.wasteStep, CHist.creditOk] at *
    split
    · rename_i r hr
      simp only [hr, Bool.or_eq_true, decide_eq_true_eq] at hok
      unfold CHist.credited
      split
      · rename_i hc
        simp only [Bool.and_eq_true, decide_eq_true_eq] at hc
        omega
      · omega
    · exact Int.le_refl _
  | _ => exact Int.le_refl _

theorem CHist.wasteOk_of_runOk (h : List CEv) :
    ∀ (s : CHist) (W : Int), 0 ≤ W → s.runOk h = true → s.wasteOk W h = true := by
  induction h with
  | nil => intro s W _ _; rfl
  | cons e h ih =>
    intro s W hW hok
    simp only [CHist.runOk, Bool.and_eq_true] at hok
    have := s.wasteStep_nonneg e hok.1
    simp only [CHist.wasteOk, Bool.and_eq_true, decide_eq_true_eq]
    exact ⟨by omega, ih _ _ (by omega) hok.2⟩

theorem CHist.Inv.prefix_bound {p q burst t0 : Nat} {s : CHist} {W : Int} (w : s.WF p q burst t0) (i : s.Inv t0 W) :
    (q * nsPerSec) * s.effective (p * s.now) + p * t0
      ≤ burst * (q * nsPerSec) + p * s.now + (q * nsPerSec) * s.returned := by
  have ib := i.budget
  have ic := i.covered (p * s.now) (by rw [w.hp]; exact Nat.le_refl _)
  have hl := length_eq_countP_le_add_gt (p * s.now) s.live
  have ht' := Bucket.tokensAt_le s.c.b s.now w.last_le
  unfold CHist.effective
  simp only [Bucket.unit, Bucket.cap, w.hp, w.hq, w.hburst] at ib ic ht'
  rw [hl, Nat.mul_add] at ib
  omega

theorem CHist.Inv.sent_le_effective {p q burst t0 : Nat} {s : CHist} {W : Int} (w : s.WF p q burst t0)
    (i : s.Inv t0 W) : s.sent ≤ s.effective (p * s.now) := by
  have io := i.out_ok
  rw [w.hp] at io
  unfold CHist.sent CHist.effective CHist.live
  rw [List.countP_append]
  have : (s.out.map (·.act)).countP (fun g => decide (g ≤ p * s.now)) = s.out.length := by
    rw [countP_le_of_all, List.length_map]
    intro a ha
    obtain ⟨d, hd, rfl⟩ := List.mem_map.mp ha
    have := io d hd
    have : p * d.time ≤ p * s.now := Nat.mul_le_mul_left _ this.2
    omega
  omega

end Dht
