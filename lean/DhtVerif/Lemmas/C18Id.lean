/- Helper lemmas for C18: xor / cmp / toNat on IDs. -/
import DhtVerif.Model.Containers
namespace Dht
namespace Id

/-! ### xor -/

@[simp] theorem xor_nil_left (b : Id) : xor [] b = [] := by simp [xor]
@[simp] theorem xor_nil_right (a : Id) : xor a [] = [] := by simp [xor]
@[simp] theorem xor_cons (x y : UInt8) (a b : Id) :
    xor (x :: a) (y :: b) = (x ^^^ y) :: xor a b := by simp [xor]

theorem xor_length (a b : Id) : (xor a b).length = min a.length b.length := by
  simp [xor]

theorem xor_comm (a b : Id) : xor a b = xor b a := by
  induction a generalizing b with
  | nil => simp
  | cons x a ih =>
    cases b with
    | nil => simp
    | cons y b => simp [ih b, UInt8.xor_comm]

theorem xor_isZero_iff (a b : Id) (h : a.length = b.length) :
    (xor a b).isZero = true ↔ a = b := by
  induction a generalizing b with
  | nil =>
    cases b with
    | nil => simp [isZero]
    | cons y b => simp at h
  | cons x a ih =>
    cases b with
    | nil => simp at h
    | cons y b =>
      have h' : a.length = b.length := by simpa using h
      have := ih b h'
      simp only [isZero] at this
      simp [isZero, this, UInt8.xor_eq_zero_iff]

theorem xor_right_cancel (t a b : Id) (ha : a.length = t.length) (hb : b.length = t.length)
    (h : xor a t = xor b t) : a = b := by
  induction t generalizing a b with
  | nil =>
    cases a <;> cases b <;> simp_all
  | cons z t ih =>
    cases a with
    | nil => simp at ha
    | cons x a =>
      cases b with
      | nil => simp at hb
      | cons y b =>
        simp only [xor_cons, List.cons.injEq] at h
        have h1 : x = y := (UInt8.xor_left_inj z).mp h.1
        have h2 : a = b := ih a b (by simpa using ha) (by simpa using hb) h.2
        simp [h1, h2]

/-! ### toNat -/

@[simp] theorem toNat_nil : toNat [] = 0 := rfl
theorem toNat_cons (x : UInt8) (xs : Id) :
    toNat (x :: xs) = x.toNat * 256 ^ xs.length + toNat xs := rfl

theorem toNat_lt (a : Id) : a.toNat < 256 ^ a.length := by
  induction a with
  | nil => simp
  | cons x a ih =>
    have hx : x.toNat < 256 := by have := x.toNat_lt; omega
    have h1 : (x.toNat + 1) * 256 ^ a.length ≤ 256 * 256 ^ a.length :=
      Nat.mul_le_mul_right _ (by omega)
    rw [toNat_cons, List.length_cons, Nat.pow_succ]
    rw [Nat.add_mul] at h1
    omega

theorem pow256 (n : Nat) : 256 ^ n = 2 ^ (8 * n) := by
  rw [show (256 : Nat) = 2 ^ 8 from rfl, ← Nat.pow_mul]

theorem toNat_lt_two_pow (a : Id) : a.toNat < 2 ^ (8 * a.length) := by
  rw [← pow256]; exact toNat_lt a

theorem toNat_cons' (x : UInt8) (xs : Id) :
    toNat (x :: xs) = 2 ^ (8 * xs.length) * x.toNat + toNat xs := by
  rw [toNat_cons, pow256, Nat.mul_comm]

theorem testBit_toNat_cons (x : UInt8) (xs : Id) (j : Nat) :
    (toNat (x :: xs)).testBit j =
      if j < 8 * xs.length then (toNat xs).testBit j else x.toNat.testBit (j - 8 * xs.length) := by
  rw [toNat_cons', Nat.testBit_two_pow_mul_add _ (toNat_lt_two_pow xs)]

theorem toNat_xor (a b : Id) (h : a.length = b.length) :
    (xor a b).toNat = a.toNat ^^^ b.toNat := by
  induction a generalizing b with
  | nil =>
    cases b with
    | nil => simp
    | cons y b => simp at h
  | cons x a ih =>
    cases b with
    | nil => simp at h
    | cons y b =>
      have h' : a.length = b.length := by simpa using h
      apply Nat.eq_of_testBit_eq
      intro j
      have hl : (xor a b).length = b.length := by rw [xor_length]; omega
      rw [xor_cons, Nat.testBit_xor, testBit_toNat_cons, testBit_toNat_cons, testBit_toNat_cons,
        hl, h', ih b h', UInt8.toNat_xor]
      split <;> simp [Nat.testBit_xor]

/-! ### cmp -/

theorem cmp_cons (x y : UInt8) (a b : Id) :
    cmp (x :: a) (y :: b) =
      if x.toNat < y.toNat then .lt else if y.toNat < x.toNat then .gt else cmp a b := by
  simp only [cmp, GT.gt, UInt8.lt_iff_toNat_lt]

theorem cmp_eq_compare_toNat (a b : Id) (h : a.length = b.length) :
    cmp a b = compare a.toNat b.toNat := by
  induction a generalizing b with
  | nil =>
    cases b with
    | nil => simp [cmp]
    | cons y b => simp at h
  | cons x a ih =>
    cases b with
    | nil => simp at h
    | cons y b =>
      have h' : a.length = b.length := by simpa using h
      have ha := toNat_lt a
      have hb := toNat_lt b
      rw [h'] at ha
      rw [cmp_cons, toNat_cons, toNat_cons, h', ih b h']
      generalize 256 ^ b.length = P at ha hb
      generalize hA : x.toNat * P = A
      generalize hB : y.toNat * P = B
      by_cases hxy : x.toNat < y.toNat
      · have h2 := Nat.mul_le_mul_right P (show x.toNat + 1 ≤ y.toNat from hxy)
        rw [Nat.add_mul, hA, hB] at h2
        rw [if_pos hxy]
        symm
        rw [Nat.compare_eq_lt]
        omega
      · rw [if_neg hxy]
        by_cases hyx : y.toNat < x.toNat
        · have h2 := Nat.mul_le_mul_right P (show y.toNat + 1 ≤ x.toNat from hyx)
          rw [Nat.add_mul, hA, hB] at h2
          rw [if_pos hyx]
          symm
          rw [Nat.compare_eq_gt]
          omega
        · rw [if_neg hyx]
          have e : x.toNat = y.toNat := by omega
          rw [e] at hA
          have : A = B := by rw [← hA, ← hB]
          subst this
          cases hc : compare (toNat a) (toNat b)
          · rw [Nat.compare_eq_lt] at hc; symm; rw [Nat.compare_eq_lt]; omega
          · rw [Nat.compare_eq_eq] at hc; symm; rw [Nat.compare_eq_eq]; omega
          · rw [Nat.compare_eq_gt] at hc; symm; rw [Nat.compare_eq_gt]; omega

theorem cmp_swap (a b : Id) : (cmp a b).swap = cmp b a := by
  induction a generalizing b with
  | nil => cases b <;> simp [cmp]
  | cons x a ih =>
    cases b with
    | nil => simp [cmp]
    | cons y b =>
      rw [cmp_cons, cmp_cons, ← ih b]
      by_cases hxy : x.toNat < y.toNat
      · have : ¬ y.toNat < x.toNat := by omega
        simp [hxy, this]
      · by_cases hyx : y.toNat < x.toNat
        · simp [hxy, hyx]
        · simp [hxy, hyx]

theorem cmp_eq_iff (a b : Id) : cmp a b = .eq ↔ a = b := by
  induction a generalizing b with
  | nil => cases b <;> simp [cmp]
  | cons x a ih =>
    cases b with
    | nil => simp [cmp]
    | cons y b =>
      have h3 := UInt8.toNat_inj (a := x) (b := y)
      rw [cmp_cons]
      by_cases hxy : x.toNat < y.toNat
      · have : x ≠ y := by intro e; subst e; omega
        simp [hxy, this]
      · by_cases hyx : y.toNat < x.toNat
        · have : x ≠ y := by intro e; subst e; omega
          simp [hxy, hyx, this]
        · have : x = y := by apply h3.mp; omega
          simp [this, ih b]

theorem cmp_self (a : Id) : cmp a a = .eq := (cmp_eq_iff a a).mpr rfl

theorem cmp_gt_iff (a b : Id) : cmp a b = .gt ↔ cmp b a = .lt := by
  rw [← cmp_swap a b]; cases cmp a b <;> simp

theorem cmp_lt_trans (a b c : Id) (h1 : cmp a b = .lt) (h2 : cmp b c = .lt) : cmp a c = .lt := by
  induction a generalizing b c with
  | nil =>
    cases b with
    | nil => simp [cmp] at h1
    | cons y b =>
      cases c with
      | nil => simp [cmp] at h2
      | cons z c => simp [cmp]
  | cons x a ih =>
    cases b with
    | nil => simp [cmp] at h1
    | cons y b =>
      cases c with
      | nil => simp [cmp] at h2
      | cons z c =>
        rw [cmp_cons] at h1 h2 ⊢
        by_cases c1 : x.toNat < y.toNat
        · by_cases c2 : y.toNat < z.toNat
          · have : x.toNat < z.toNat := by omega
            simp [this]
          · by_cases c3 : z.toNat < y.toNat
            · simp [c2, c3] at h2
            · have : x.toNat < z.toNat := by omega
              simp [this]
        · by_cases c1' : y.toNat < x.toNat
          · simp [c1, c1'] at h1
          · simp only [c1, c1', if_false] at h1
            by_cases c2 : y.toNat < z.toNat
            · have : x.toNat < z.toNat := by omega
              simp [this]
            · by_cases c3 : z.toNat < y.toNat
              · simp [c2, c3] at h2
              · simp only [c2, c3, if_false] at h2
                have n1 : ¬ x.toNat < z.toNat := by omega
                have n2 : ¬ z.toNat < x.toNat := by omega
                simp only [n1, n2, if_false]
                exact ih b c h1 h2

theorem cmp_total (a b : Id) (h : a ≠ b) : cmp a b = .lt ∨ cmp b a = .lt := by
  cases hc : cmp a b
  · exact Or.inl rfl
  · exact absurd ((cmp_eq_iff a b).mp hc) h
  · exact Or.inr ((cmp_gt_iff a b).mp hc)

theorem toNat_injective (a b : Id) (h : a.length = b.length) (e : a.toNat = b.toNat) : a = b := by
  have := cmp_eq_compare_toNat a b h
  rw [e, Nat.compare_eq_eq.mpr rfl] at this
  exact (cmp_eq_iff a b).mp this

end Id
end Dht
