/- Helper lemmas for C20: invariants of bucket histories in the finite, positive-rate regime. -/
import DhtVerif.Model.Rate
namespace Dht

/-- Finite positive rate, configuration `(p, q, burst)` as at creation at `t0`, clock sane. -/
structure BHist.WF (p q burst t0 : Nat) (s : BHist) : Prop where
  ninf : s.b.inf = false
  hp : s.b.p = p
  hq : s.b.q = q
  hburst : s.b.burst = burst
  t0_le : t0 ≤ s.b.last
  last_le : s.b.last ≤ s.now

theorem Bucket.tokensAt_eq (b : Bucket) (now : Nat) (h : b.last ≤ now) :
    b.tokensAt now = min (b.cap : Int) (b.tokens + ((b.p * now : Nat) : Int) - ((b.p * b.last : Nat) : Int)) := by
  unfold Bucket.tokensAt Bucket.lastAt
  rw [Nat.min_eq_left h]
  have h1 : b.p * (now - b.last) = b.p * now - b.p * b.last := Nat.mul_sub ..
  have h2 := Nat.mul_le_mul_left b.p h
  rw [h1]
  omega

theorem Bucket.lastAt_eq (b : Bucket) (now : Nat) (h : b.last ≤ now) : b.lastAt now = b.last := by
  unfold Bucket.lastAt; omega


/-! Steps in the finite positive regime, in closed form. -/

theorem Bucket.allow_ok (b : Bucket) (now : Nat) (hinf : b.inf = false) (hp : 0 < b.p)
    (h : 1 ≤ b.burst ∧ 0 ≤ b.tokensAt now - (b.unit : Int)) :
    b.allow now = (true, { b with tokens := b.tokensAt now - (b.unit : Int), last := now }) := by
  unfold Bucket.allow
  rw [if_neg (by simp [hinf]), if_neg (by omega), if_pos h]

theorem Bucket.allow_no (b : Bucket) (now : Nat) (hinf : b.inf = false) (hp : 0 < b.p) (hl : b.last ≤ now)
    (h : ¬(1 ≤ b.burst ∧ 0 ≤ b.tokensAt now - (b.unit : Int))) : b.allow now = (false, b) := by
  unfold Bucket.allow
  rw [if_neg (by simp [hinf]), if_neg (by omega), if_neg h, Bucket.lastAt_eq _ _ hl]

theorem Bucket.reserve_ok (b : Bucket) (now : Nat) (hinf : b.inf = false) (hp : 0 < b.p) (h : 1 ≤ b.burst) :
    b.reserve now none = (some (now + ceilDiv (b.deficit now) b.p),
      { b with tokens := b.tokensAt now - (b.unit : Int), last := now }) := by
  unfold Bucket.reserve
  rw [if_neg (by simp [hinf]), if_neg (by omega), if_pos ⟨h, rfl⟩]

theorem Bucket.reserve_no (b : Bucket) (now : Nat) (m : Option Nat) (hinf : b.inf = false) (hp : 0 < b.p) (hl : b.last ≤ now)
    (h : ¬ 1 ≤ b.burst) : b.reserve now m = (none, b) := by
  unfold Bucket.reserve
  rw [if_neg (by simp [hinf]), if_neg (by omega), if_neg (fun hh => h hh.1), Bucket.lastAt_eq _ _ hl]

theorem Bucket.giveBack_ok (b : Bucket) (now : Nat) (hinf : b.inf = false) (hp : 0 < b.p)
    (h : 0 ≤ b.tokensAt now + (b.unit : Int)) :
    b.giveBack now = (true, { b with tokens := b.tokensAt now + (b.unit : Int), last := now }) := by
  unfold Bucket.giveBack
  rw [if_neg (by simp [hinf]), if_neg (by omega), if_pos h]

theorem Bucket.giveBack_no (b : Bucket) (now : Nat) (hinf : b.inf = false) (hp : 0 < b.p) (hl : b.last ≤ now)
    (h : ¬ 0 ≤ b.tokensAt now + (b.unit : Int)) : b.giveBack now = (false, b) := by
  unfold Bucket.giveBack
  rw [if_neg (by simp [hinf]), if_neg (by omega), if_neg h, Bucket.lastAt_eq _ _ hl]

theorem BHist.step_adv (s : BHist) (dt : Nat) : s.step (.adv dt) = { s with now := s.now + dt } := rfl

theorem BHist.step_allow_ok (s : BHist) (hinf : s.b.inf = false) (hp : 0 < s.b.p)
    (h : 1 ≤ s.b.burst ∧ 0 ≤ s.b.tokensAt s.now - (s.b.unit : Int)) :
    s.step .allow = { s with b := { s.b with tokens := s.b.tokensAt s.now - (s.b.unit : Int), last := s.now },
                             grants := s.b.actScaled s.now :: s.grants } := by
  simp only [BHist.step, Bucket.allow_ok _ _ hinf hp h, if_true]

theorem BHist.step_allow_no (s : BHist) (hinf : s.b.inf = false) (hp : 0 < s.b.p) (hl : s.b.last ≤ s.now)
    (h : ¬(1 ≤ s.b.burst ∧ 0 ≤ s.b.tokensAt s.now - (s.b.unit : Int))) :
    s.step .allow = s := by
  simp [BHist.step, Bucket.allow_no _ _ hinf hp hl h]

theorem BHist.step_reserve_ok (s : BHist) (hinf : s.b.inf = false) (hp : 0 < s.b.p) (h : 1 ≤ s.b.burst) :
    s.step .reserve = { s with b := { s.b with tokens := s.b.tokensAt s.now - (s.b.unit : Int), last := s.now },
                               grants := s.b.actScaled s.now :: s.grants } := by
  simp [BHist.step, Bucket.reserve_ok _ _ hinf hp h]

theorem BHist.step_reserve_no (s : BHist) (hinf : s.b.inf = false) (hp : 0 < s.b.p) (hl : s.b.last ≤ s.now)
    (h : ¬ 1 ≤ s.b.burst) : s.step .reserve = s := by
  simp [BHist.step, Bucket.reserve_no _ _ none hinf hp hl h]

theorem BHist.step_give_ok (s : BHist) (hinf : s.b.inf = false) (hp : 0 < s.b.p)
    (h : 0 ≤ s.b.tokensAt s.now + (s.b.unit : Int)) :
    s.step .giveBack = { s with b := { s.b with tokens := s.b.tokensAt s.now + (s.b.unit : Int), last := s.now },
                                returned := s.returned + 1 } := by
  simp [BHist.step, Bucket.giveBack_ok _ _ hinf hp h]

theorem BHist.step_give_no (s : BHist) (hinf : s.b.inf = false) (hp : 0 < s.b.p) (hl : s.b.last ≤ s.now)
    (h : ¬ 0 ≤ s.b.tokensAt s.now + (s.b.unit : Int)) : s.step .giveBack = s := by
  simp [BHist.step, Bucket.giveBack_no _ _ hinf hp hl h]


/-! Every step has one of four shapes. -/

inductive BHist.Shape (s : BHist) : BHist → Prop where
  | adv (dt : Nat) : Shape s { s with now := s.now + dt }
  | same : Shape s s
  | take (h : 1 ≤ s.b.burst) :
      Shape s { s with b := { s.b with tokens := s.b.tokensAt s.now - (s.b.unit : Int), last := s.now },
                       grants := s.b.actScaled s.now :: s.grants }
  | give (h : 0 ≤ s.b.tokensAt s.now + (s.b.unit : Int)) :
      Shape s { s with b := { s.b with tokens := s.b.tokensAt s.now + (s.b.unit : Int), last := s.now },
                       returned := s.returned + 1 }

theorem BHist.step_shape (s : BHist) (e : BEv) (hinf : s.b.inf = false) (hp : 0 < s.b.p) (hl : s.b.last ≤ s.now) :
    BHist.Shape s (s.step e) := by
  cases e with
  | adv dt => exact .adv dt
  | allow =>
    by_cases h : 1 ≤ s.b.burst ∧ 0 ≤ s.b.tokensAt s.now - (s.b.unit : Int)
    · rw [BHist.step_allow_ok s hinf hp h]; exact .take h.1
    · rw [BHist.step_allow_no s hinf hp hl h]; exact .same
  | reserve =>
    by_cases h : 1 ≤ s.b.burst
    · rw [BHist.step_reserve_ok s hinf hp h]; exact .take h
    · rw [BHist.step_reserve_no s hinf hp hl h]; exact .same
  | giveBack =>
    by_cases h : 0 ≤ s.b.tokensAt s.now + (s.b.unit : Int)
    · rw [BHist.step_give_ok s hinf hp h]; exact .give h
    · rw [BHist.step_give_no s hinf hp hl h]; exact .same

theorem BHist.WF.shape {p q burst t0 : Nat} {s s' : BHist} (w : s.WF p q burst t0) (h : BHist.Shape s s') :
    s'.WF p q burst t0 := by
  obtain ⟨h1, h2, h3, h4, h5, h6⟩ := w
  cases h with
  | adv dt => exact ⟨h1, h2, h3, h4, h5, by show s.b.last ≤ s.now + dt; omega⟩
  | same => exact ⟨h1, h2, h3, h4, h5, h6⟩
  | take _ => exact ⟨h1, h2, h3, h4, by show t0 ≤ s.now; omega, Nat.le_refl _⟩
  | give _ => exact ⟨h1, h2, h3, h4, by show t0 ≤ s.now; omega, Nat.le_refl _⟩

theorem BHist.WF.step {p q burst t0 : Nat} {s : BHist} (w : s.WF p q burst t0) (hp : 0 < p) (e : BEv) :
    (s.step e).WF p q burst t0 :=
  w.shape (BHist.step_shape s e w.ninf (w.hp ▸ hp) w.last_le)

theorem BHist.WF.init (p q burst t0 : Nat) : (BHist.init p q burst t0).WF p q burst t0 :=
  ⟨rfl, rfl, rfl, rfl, Nat.le_refl _, Nat.le_refl _⟩

theorem BHist.run_append (s : BHist) (h₁ h₂ : List BEv) : s.run (h₁ ++ h₂) = (s.run h₁).run h₂ := by
  simp [BHist.run, List.foldl_append]

theorem BHist.run_cons (s : BHist) (e : BEv) (h : List BEv) : s.run (e :: h) = (s.step e).run h := rfl

theorem BHist.WF.run {p q burst t0 : Nat} (hp : 0 < p) (h : List BEv) :
    ∀ {s : BHist}, s.WF p q burst t0 → (s.run h).WF p q burst t0 := by
  induction h with
  | nil => intro s w; exact w
  | cons e h ih => intro s w; exact ih (w.step hp e)

/-- An invariant kept by the four shapes holds along every history. -/
theorem BHist.induct {p q burst t0 : Nat} (hp : 0 < p) (I : BHist → Prop)
    (hstep : ∀ s s', s.WF p q burst t0 → I s → BHist.Shape s s' → I s') (h : List BEv) :
    ∀ {s : BHist}, s.WF p q burst t0 → I s → I (s.run h) := by
  induction h with
  | nil => intro s _ i; exact i
  | cons e h ih =>
    intro s w i
    have sh := BHist.step_shape s e w.ninf (w.hp ▸ hp) w.last_le
    exact ih (w.shape sh) (hstep s _ w i sh)


/-! ## Invariant 1: budget -/


/-- `unit·(grants − returned) + tokens ≤ cap + p·(last − t0)` -/
def BHist.Budget (t0 : Nat) (s : BHist) : Prop :=
  ((s.b.unit * s.grants.length : Nat) : Int) + s.b.tokens + ((s.b.p * t0 : Nat) : Int)
    ≤ (s.b.cap : Int) + ((s.b.p * s.b.last : Nat) : Int) + ((s.b.unit * s.returned : Nat) : Int)

theorem Bucket.tokensAt_le (b : Bucket) (now : Nat) (h : b.last ≤ now) :
    b.tokensAt now ≤ b.tokens + ((b.p * now : Nat) : Int) - ((b.p * b.last : Nat) : Int) ∧
    b.tokensAt now ≤ (b.cap : Int) ∧ b.p * b.last ≤ b.p * now := by
  rw [Bucket.tokensAt_eq b now h]
  have := Nat.mul_le_mul_left b.p h
  omega

theorem BHist.Budget.shape {p q burst t0 : Nat} (s s' : BHist) (w : s.WF p q burst t0) (i : s.Budget t0)
    (sh : BHist.Shape s s') : s'.Budget t0 := by
  have ht := Bucket.tokensAt_le s.b s.now w.last_le
  cases sh with
  | adv dt => exact i
  | same => exact i
  | take _ =>
    unfold BHist.Budget at *
    simp only [List.length_cons, Nat.mul_succ, Bucket.unit, Bucket.cap] at *
    omega
  | give _ =>
    unfold BHist.Budget at *
    simp only [Nat.mul_succ, Bucket.unit, Bucket.cap] at *
    omega


/-! ## Invariant 2: debts are covered by pending grants -/


theorem Bucket.tokensAt_cases (b : Bucket) (now : Nat) (h : b.last ≤ now) :
    b.tokensAt now = b.tokens + ((b.p * now : Nat) : Int) - ((b.p * b.last : Nat) : Int) ∨
    b.tokensAt now = (b.cap : Int) := by
  rw [Bucket.tokensAt_eq b now h]
  omega

/-- Whatever debt remains at a future scaled instant `X` is covered by grants still pending then. -/
def BHist.Covered (s : BHist) : Prop :=
  ∀ X : Nat, s.b.p * s.now ≤ X →
    0 ≤ s.b.tokens + (X : Int) - ((s.b.p * s.b.last : Nat) : Int) +
      ((s.b.unit * s.grants.countP (fun g => decide (X < g)) : Nat) : Int)

theorem BHist.Covered.shape {p q burst t0 : Nat} (s s' : BHist) (w : s.WF p q burst t0) (i : s.Covered)
    (sh : BHist.Shape s s') : s'.Covered := by
  have ht := Bucket.tokensAt_le s.b s.now w.last_le
  have hc := Bucket.tokensAt_cases s.b s.now w.last_le
  cases sh with
  | adv dt =>
    intro X hX
    have : s.b.p * s.now ≤ s.b.p * (s.now + dt) := Nat.mul_le_mul_left _ (by omega)
    exact i X (by simp only at hX; omega)
  | same => exact i
  | take _ =>
    intro X hX
    have i' := i X hX
    simp only [List.countP_cons, Bucket.unit, Bucket.cap, Bucket.actScaled, Bucket.deficit] at *
    split
    · simp only [Nat.mul_add, Nat.mul_one]; omega
    · rename_i hlt
      simp only [decide_eq_true_eq] at hlt
      simp only [Nat.add_zero]
      omega
  | give _ =>
    intro X hX
    have i' := i X hX
    simp only [Bucket.unit, Bucket.cap] at *
    omega


/-! ## Invariant 3: any window -/


/-- grants covered at or after scaled instant `A` -/
def cntFrom (A : Nat) (l : List Nat) : Nat := l.countP (fun g => decide (A ≤ g))

/-- Each grant at or after `A` found the budget `K + (g − A)` sufficient for itself and all
earlier grants at or after `A`. -/
def PG (U A K : Nat) : List Nat → Prop
  | [] => True
  | g :: rest => (A ≤ g → U * cntFrom A (g :: rest) ≤ K + (g - A)) ∧ PG U A K rest

theorem PG.mono {U A K K' : Nat} (hK : K ≤ K') : ∀ {l : List Nat}, PG U A K l → PG U A K' l
  | [], _ => trivial
  | _ :: _, ⟨h1, h2⟩ => ⟨fun h => Nat.le_trans (h1 h) (by omega), PG.mono hK h2⟩

theorem countWin_le_cntFrom (A B : Nat) (l : List Nat) :
    l.countP (fun g => decide (A ≤ g) && decide (g ≤ B)) ≤ cntFrom A l := by
  induction l with
  | nil => simp [cntFrom]
  | cons g rest ih =>
    simp only [cntFrom, List.countP_cons] at *
    by_cases h1 : A ≤ g <;> by_cases h2 : g ≤ B <;> simp [h1, h2] <;> omega

theorem PG.window {U A K B : Nat} (hAB : A ≤ B) : ∀ {l : List Nat}, PG U A K l →
    U * l.countP (fun g => decide (A ≤ g) && decide (g ≤ B)) ≤ K + (B - A)
  | [], _ => by simp
  | g :: rest, ⟨h1, h2⟩ => by
    have ih := PG.window hAB h2
    by_cases hg : A ≤ g ∧ g ≤ B
    · have h := h1 hg.1
      have hle := countWin_le_cntFrom A B rest
      have e1 : (g :: rest).countP (fun g => decide (A ≤ g) && decide (g ≤ B)) =
          rest.countP (fun g => decide (A ≤ g) && decide (g ≤ B)) + 1 := by
        simp [hg.1, hg.2]
      have e2 : cntFrom A (g :: rest) = cntFrom A rest + 1 := by
        simp [cntFrom, hg.1]
      rw [e1]; rw [e2] at h
      have := Nat.mul_le_mul_left U (Nat.add_le_add_right hle 1)
      omega
    · have e1 : (g :: rest).countP (fun g => decide (A ≤ g) && decide (g ≤ B)) =
          rest.countP (fun g => decide (A ≤ g) && decide (g ≤ B)) := by
        simp only [List.countP_cons]
        by_cases ha : A ≤ g <;> by_cases hb : g ≤ B <;> simp [ha, hb] at hg ⊢
      rw [e1]; exact ih

/-- Window invariant for windows starting at scaled instant `A`. -/
def BHist.Window (A : Nat) (s : BHist) : Prop :=
  ((s.b.unit * cntFrom A s.grants : Nat) : Int) +
      min (s.b.cap : Int) (s.b.tokens + ((max A (s.b.p * s.now) : Nat) : Int) - ((s.b.p * s.b.last : Nat) : Int))
    ≤ (s.b.cap : Int) + ((max A (s.b.p * s.now) : Nat) : Int) - (A : Int) + ((s.b.unit * s.returned : Nat) : Int)
  ∧ PG s.b.unit A (s.b.cap + s.b.unit * s.returned) s.grants

theorem BHist.Window.shape {p q burst t0 : Nat} (A : Nat) (s s' : BHist) (w : s.WF p q burst t0) (i : s.Window A)
    (sh : BHist.Shape s s') : s'.Window A := by
  have ht := Bucket.tokensAt_le s.b s.now w.last_le
  have hc := Bucket.tokensAt_cases s.b s.now w.last_le
  obtain ⟨i1, i2⟩ := i
  cases sh with
  | adv dt =>
    have : s.b.p * s.now ≤ s.b.p * (s.now + dt) := Nat.mul_le_mul_left _ (by omega)
    refine ⟨?_, i2⟩
    simp only at *
    omega
  | same => exact ⟨i1, i2⟩
  | take hb =>
    have hUC : s.b.unit ≤ s.b.cap := by
      unfold Bucket.cap; exact Nat.le_mul_of_pos_left _ (by omega)
    have hcnt : cntFrom A (s.b.actScaled s.now :: s.grants) =
        cntFrom A s.grants + (if A ≤ s.b.actScaled s.now then 1 else 0) := by
      simp [cntFrom, List.countP_cons]
    refine ⟨?_, ?_, PG.mono (Nat.le_refl _) i2⟩
    · show ((s.b.unit * cntFrom A (s.b.actScaled s.now :: s.grants) : Nat) : Int) +
          min (s.b.cap : Int) (s.b.tokensAt s.now - (s.b.unit : Int) + ((max A (s.b.p * s.now) : Nat) : Int) - ((s.b.p * s.now : Nat) : Int))
          ≤ (s.b.cap : Int) + ((max A (s.b.p * s.now) : Nat) : Int) - (A : Int) + ((s.b.unit * s.returned : Nat) : Int)
      by_cases hA : A ≤ s.b.actScaled s.now
      · rw [hcnt, if_pos hA]
        simp only [Bucket.actScaled, Bucket.deficit, Nat.mul_add, Nat.mul_one] at *
        omega
      · rw [hcnt, if_neg hA]
        simp only [Bucket.actScaled, Bucket.deficit, Nat.add_zero] at *
        omega
    · intro hA
      show s.b.unit * cntFrom A (s.b.actScaled s.now :: s.grants) ≤ s.b.cap + s.b.unit * s.returned + (s.b.actScaled s.now - A)
      rw [hcnt, if_pos hA]
      simp only [Bucket.actScaled, Bucket.deficit, Nat.mul_add, Nat.mul_one] at *
      omega
  | give _ =>
    refine ⟨?_, PG.mono (by show s.b.cap + s.b.unit * s.returned ≤ s.b.cap + s.b.unit * (s.returned + 1); simp [Nat.mul_add]) i2⟩
    show ((s.b.unit * cntFrom A s.grants : Nat) : Int) +
          min (s.b.cap : Int) (s.b.tokensAt s.now + (s.b.unit : Int) + ((max A (s.b.p * s.now) : Nat) : Int) - ((s.b.p * s.now : Nat) : Int))
          ≤ (s.b.cap : Int) + ((max A (s.b.p * s.now) : Nat) : Int) - (A : Int) + ((s.b.unit * (s.returned + 1) : Nat) : Int)
    simp only [Nat.mul_add, Nat.mul_one] at *
    omega



/-! ## The invariants hold along every history from a fresh bucket -/

theorem BHist.budget_run {p q burst t0 : Nat} (hp : 0 < p) (h : List BEv) :
    ((BHist.init p q burst t0).run h).Budget t0 :=
  BHist.induct hp (BHist.Budget t0) (fun s s' w i sh => BHist.Budget.shape s s' w i sh) h
    (BHist.WF.init p q burst t0)
    (by simp [BHist.Budget, BHist.init, Bucket.new, Bucket.cap, Bucket.unit])

theorem BHist.covered_run {p q burst t0 : Nat} (hp : 0 < p) (h : List BEv) :
    ((BHist.init p q burst t0).run h).Covered :=
  BHist.induct hp BHist.Covered (fun s s' w i sh => BHist.Covered.shape s s' w i sh) h
    (BHist.WF.init p q burst t0)
    (by
      intro X hX
      simp only [BHist.init, Bucket.new, List.countP_nil, Nat.mul_zero] at *
      omega)

theorem BHist.window_run {p q burst t0 : Nat} (hp : 0 < p) (A : Nat) (h : List BEv) :
    ((BHist.init p q burst t0).run h).Window A :=
  BHist.induct hp (BHist.Window A) (fun s s' w i sh => BHist.Window.shape A s s' w i sh) h
    (BHist.WF.init p q burst t0)
    (by
      refine ⟨?_, trivial⟩
      simp only [BHist.init, Bucket.new, Bucket.cap, Bucket.unit, cntFrom, List.countP_nil, Nat.mul_zero]
      omega)

/-- stored tokens never exceed the bucket size by more than the one token a give-back adds -/
def BHist.Capped (s : BHist) : Prop := s.b.tokens ≤ (s.b.cap : Int) + (s.b.unit : Int)

theorem BHist.capped_run {p q burst t0 : Nat} (hp : 0 < p) (h : List BEv) :
    ((BHist.init p q burst t0).run h).Capped :=
  BHist.induct hp BHist.Capped (fun s s' w i sh => by
      have ht := Bucket.tokensAt_le s.b s.now w.last_le
      cases sh with
      | adv dt => exact i
      | same => exact i
      | take _ => unfold BHist.Capped at *; simp only [Bucket.cap, Bucket.unit] at *; omega
      | give _ => unfold BHist.Capped at *; simp only [Bucket.cap, Bucket.unit] at *; omega) h
    (BHist.WF.init p q burst t0)
    (by simp only [BHist.Capped, BHist.init, Bucket.new, Bucket.cap, Bucket.unit]; omega)

theorem length_eq_countP_le_add_gt (X : Nat) (l : List Nat) :
    l.length = l.countP (fun g => decide (g ≤ X)) + l.countP (fun g => decide (X < g)) := by
  induction l with
  | nil => rfl
  | cons g rest ih =>
    simp only [List.length_cons, List.countP_cons]
    by_cases h : g ≤ X
    · have : ¬ X < g := by omega
      simp [h, this]; omega
    · have : X < g := by omega
      simp [h, this]; omega


/-! ## The gate -/


theorem le_mul_ceilDiv (d p : Nat) (hp : 0 < p) : d ≤ p * ceilDiv d p := by
  unfold ceilDiv
  have h1 := Nat.div_add_mod (d + (p - 1)) p
  have h2 := Nat.mod_lt (d + (p - 1)) hp
  omega

/-- `ceilDiv d p` is the least number of nanoseconds that yields `d` units. -/
theorem ceilDiv_least (d p n : Nat) (hp : 0 < p) (h : d ≤ p * n) : ceilDiv d p ≤ n := by
  unfold ceilDiv
  apply Nat.le_of_lt_succ
  rw [Nat.div_lt_iff_lt_mul hp, Nat.succ_mul, Nat.mul_comm n p]
  omega

theorem Bucket.deficit_zero_of_allow (b : Bucket) (now : Nat) (h : 0 ≤ b.tokensAt now - (b.unit : Int)) :
    b.deficit now = 0 := by
  unfold Bucket.deficit; omega

/-- `sendGate` for a rated, non-waiting send in the finite positive regime. -/
theorem sendGate_allow (b : Bucket) (now : Nat) (m : Option Nat) (hinf : b.inf = false) (hp : 0 < b.p) (hl : b.last ≤ now) :
    sendGate false false true false m b now =
      if 1 ≤ b.burst ∧ 0 ≤ b.tokensAt now - (b.unit : Int) then
        (.wrote, { b with tokens := b.tokensAt now - (b.unit : Int), last := now })
      else (.errRateLimited, b) := by
  by_cases h : 1 ≤ b.burst ∧ 0 ≤ b.tokensAt now - (b.unit : Int)
  · simp only [sendGate, Bucket.allow_ok b now hinf hp h, if_pos h]; rfl
  · simp only [sendGate, Bucket.allow_no b now hinf hp hl h, if_neg h]; rfl

/-- `sendGate` for a rated, waiting send (no deadline) in the finite positive regime. -/
theorem sendGate_wait (b : Bucket) (now : Nat) (hinf : b.inf = false) (hp : 0 < b.p) :
    sendGate false false true true none b now =
      if 1 ≤ b.burst then
        (if now + ceilDiv (b.deficit now) b.p ≤ now then Outcome.wrote else .waitsUntil (now + ceilDiv (b.deficit now) b.p),
         { b with tokens := b.tokensAt now - (b.unit : Int), last := now })
      else (.errWait, b) := by
  by_cases h : 1 ≤ b.burst
  · have h' : ¬ b.burst < 1 := by omega
    simp [sendGate, Bucket.waitReserve, hinf, h', Bucket.reserve_ok b now hinf hp h, h]
  · have h' : b.burst < 1 := by omega
    simp [sendGate, Bucket.waitReserve, hinf, h', h]



theorem eraseIdx_perm {α : Type} : ∀ (l : List α) (i : Nat) (w : α), l[i]? = some w → l.Perm (w :: l.eraseIdx i)
  | [], _, _, h => by simp at h
  | a :: l, 0, w, h => by
    simp at h; subst h; exact List.Perm.refl _
  | a :: l, i + 1, w, h => by
    have ih := eraseIdx_perm l i w (by simpa using h)
    simp only [List.eraseIdx_cons_succ]
    exact (List.Perm.cons a ih).trans (List.Perm.swap w a _)

theorem BHist.step_give_facts (h : BHist) :
    (h.step .giveBack).grants = h.grants ∧ (h.step .giveBack).now = h.now ∧
    (h.step .giveBack).returned ≤ h.returned + 1 ∧ h.returned ≤ (h.step .giveBack).returned := by
  simp only [BHist.step]
  split <;> simp

/-- What one gate event does, in the finite positive regime. -/
inductive GSt.Shape (s : GSt) : GSt → Prop where
  | tick (dt : Nat) : Shape s { s with h := s.h.step (.adv dt) }
  | same : Shape s s
  | unrated : Shape s { s with out := ⟨s.h.now, false, 0⟩ :: s.out }
  /-- a token was granted (by event `e`) and is usable now -/
  | send (e : BEv) (act : Nat) (wok : Bool) (hg : (s.h.step e).grants = act :: s.h.grants)
      (hn : (s.h.step e).now = s.h.now) (hr : (s.h.step e).returned = s.h.returned) (ha : act ≤ s.h.b.p * s.h.now) :
      Shape s (GSt.ratedWrite s (s.h.step e) act wok)
  /-- a token was reserved and will be usable at `t` -/
  | enqueue (act t : Nat) (wok : Bool) (hg : (s.h.step .reserve).grants = act :: s.h.grants)
      (hn : (s.h.step .reserve).now = s.h.now) (hr : (s.h.step .reserve).returned = s.h.returned)
      (ha : act ≤ s.h.b.p * t) :
      Shape s { s with h := s.h.step .reserve, waiting := s.waiting ++ [⟨t, act, wok⟩] }
  | wake (i : Nat) (w : Waiter) (hw : s.waiting[i]? = some w) (hle : w.notBefore ≤ s.h.now) :
      Shape s (GSt.ratedWrite { s with waiting := s.waiting.eraseIdx i } s.h w.act w.wok)

theorem GSt.step_shape (s : GSt) (e : GEv) (hinf : s.h.b.inf = false) (hp : 0 < s.h.b.p) (hl : s.h.b.last ≤ s.h.now) :
    GSt.Shape s (s.step e) := by
  cases e with
  | tick dt => exact .tick dt
  | wake i =>
    simp only [GSt.step]
    split
    · rename_i w hw
      split
      · rename_i hle; exact .wake i w hw hle
      · exact .same
    · exact .same
  | call c =>
    obtain ⟨closed, blocked, rate, wait, wok⟩ := c
    cases closed
    case true => simp only [GSt.step, sendGate, if_true]; exact .same
    cases blocked
    case true => simp [GSt.step, sendGate]; exact .same
    cases rate
    case false =>
      cases wok
      · simp [GSt.step, sendGate]; exact .same
      · simp [GSt.step, sendGate]; exact .unrated
    cases wait
    case false =>
      simp only [GSt.step]
      rw [sendGate_allow _ _ _ hinf hp hl]
      by_cases h : 1 ≤ s.h.b.burst ∧ 0 ≤ s.h.b.tokensAt s.h.now - (s.h.b.unit : Int)
      · rw [if_pos h]
        have hs := BHist.step_allow_ok s.h hinf hp h
        have hd := Bucket.deficit_zero_of_allow _ _ h.2
        have hgr : GSt.granted s.h { s.h.b with tokens := s.h.b.tokensAt s.h.now - (s.h.b.unit : Int), last := s.h.now } = s.h.step .allow := by
          rw [hs]; rfl
        simp only [if_true]
        rw [hgr]
        exact .send .allow _ wok (by rw [hs]) (by rw [hs]) (by rw [hs]) (by simp [Bucket.actScaled, hd])
      · rw [if_neg h]
        exact .same
    case true =>
      simp only [GSt.step]
      rw [sendGate_wait _ _ hinf hp]
      by_cases h : 1 ≤ s.h.b.burst
      · rw [if_pos h]
        have hs := BHist.step_reserve_ok s.h hinf hp h
        have hgr : GSt.granted s.h { s.h.b with tokens := s.h.b.tokensAt s.h.now - (s.h.b.unit : Int), last := s.h.now } = s.h.step .reserve := by
          rw [hs]; rfl
        have hc := le_mul_ceilDiv (s.h.b.deficit s.h.now) s.h.b.p hp
        by_cases ht : s.h.now + ceilDiv (s.h.b.deficit s.h.now) s.h.b.p ≤ s.h.now
        · rw [if_pos ht]
          simp only [if_true]
          rw [hgr]
          have hz : ceilDiv (s.h.b.deficit s.h.now) s.h.b.p = 0 := by omega
          refine .send .reserve _ wok (by rw [hs]) (by rw [hs]) (by rw [hs]) ?_
          rw [hz] at hc
          simp only [Bucket.actScaled]; omega
        · rw [if_neg ht]
          simp only
          rw [hgr]
          refine .enqueue _ _ wok (by rw [hs]) (by rw [hs]) (by rw [hs]) ?_
          simp only [Bucket.actScaled, Nat.mul_add]; omega
      · rw [if_neg h]
        exact .same



theorem GSt.Shape.sim {s s' : GSt} (sh : GSt.Shape s s') : ∃ evs : List BEv, s'.h = s.h.run evs := by
  cases sh with
  | tick dt => exact ⟨[.adv dt], rfl⟩
  | same => exact ⟨[], rfl⟩
  | unrated => exact ⟨[], rfl⟩
  | send e act wok _ _ _ _ =>
    cases wok
    · exact ⟨[e, .giveBack], rfl⟩
    · exact ⟨[e], rfl⟩
  | enqueue act t wok _ _ _ _ => exact ⟨[.reserve], rfl⟩
  | wake i w _ _ =>
    cases hw : w.wok
    · exact ⟨[.giveBack], by simp [GSt.ratedWrite, BHist.run]⟩
    · exact ⟨[], by simp [GSt.ratedWrite, BHist.run]⟩

/-- Every grant is accounted for exactly once: consumed by a rated datagram, held by a waiter,
or lost to a failed socket write. -/
structure GSt.Acct (p : Nat) (s : GSt) : Prop where
  perm : s.h.grants.Perm (s.ratedOut.map (·.act) ++ s.waiting.map (·.act) ++ s.failed)
  out_ok : ∀ d ∈ s.ratedOut, d.act ≤ p * d.time ∧ d.time ≤ s.h.now
  failed_ok : ∀ a ∈ s.failed, a ≤ p * s.h.now
  wait_ok : ∀ w ∈ s.waiting, w.act ≤ p * w.notBefore
  ret_le : s.h.returned ≤ s.failed.length

theorem GSt.Acct.ofRatedWrite {p : Nat} (s0 : GSt) (h' : BHist) (act : Nat) (wok : Bool)
    (hperm : h'.grants.Perm (act :: (s0.ratedOut.map (·.act) ++ s0.waiting.map (·.act) ++ s0.failed)))
    (hout : ∀ d ∈ s0.ratedOut, d.act ≤ p * d.time ∧ d.time ≤ h'.now)
    (hfail : ∀ a ∈ s0.failed, a ≤ p * h'.now)
    (hwait : ∀ w ∈ s0.waiting, w.act ≤ p * w.notBefore)
    (hret : h'.returned ≤ s0.failed.length)
    (ha : act ≤ p * h'.now) :
    (GSt.ratedWrite s0 h' act wok).Acct p := by
  cases wok
  · -- the socket write fails: give the token back, remember the lost grant
    have hg := BHist.step_give_facts h'
    refine ⟨?_, ?_, ?_, hwait, ?_⟩
    · show (h'.step .giveBack).grants.Perm (s0.ratedOut.map (·.act) ++ s0.waiting.map (·.act) ++ act :: s0.failed)
      rw [hg.1]
      exact hperm.trans List.perm_middle.symm
    · intro d hd
      show d.act ≤ p * d.time ∧ d.time ≤ (h'.step .giveBack).now
      rw [hg.2.1]; exact hout d hd
    · intro a ha'
      show a ≤ p * (h'.step .giveBack).now
      rw [hg.2.1]
      rcases List.mem_cons.mp ha' with h | h
      · subst h; exact ha
      · exact hfail a h
    · show (h'.step .giveBack).returned ≤ (act :: s0.failed).length
      simp only [List.length_cons]; omega
  · refine ⟨?_, ?_, hfail, hwait, hret⟩
    · show h'.grants.Perm ((GSt.ratedOut { s0 with h := h', out := ⟨h'.now, true, act⟩ :: s0.out }).map (·.act) ++ s0.waiting.map (·.act) ++ s0.failed)
      have : GSt.ratedOut { s0 with h := h', out := ⟨h'.now, true, act⟩ :: s0.out } = ⟨h'.now, true, act⟩ :: s0.ratedOut := by
        simp [GSt.ratedOut]
      rw [this]
      simpa using hperm
    · intro d hd
      have : GSt.ratedOut { s0 with h := h', out := ⟨h'.now, true, act⟩ :: s0.out } = ⟨h'.now, true, act⟩ :: s0.ratedOut := by
        simp [GSt.ratedOut]
      have hd' : d ∈ (⟨h'.now, true, act⟩ : Dgram) :: s0.ratedOut := this ▸ hd
      rcases List.mem_cons.mp hd' with h | h
      · subst h; exact ⟨ha, Nat.le_refl _⟩
      · exact hout d h

theorem GSt.Acct.shape {p q burst t0 : Nat} (s s' : GSt) (w : s.h.WF p q burst t0) (i : s.Acct p)
    (sh : GSt.Shape s s') : s'.Acct p := by
  obtain ⟨iperm, iout, ifail, iwait, iret⟩ := i
  have hpe := w.hp
  cases sh with
  | tick dt =>
    have hm : p * s.h.now ≤ p * (s.h.now + dt) := Nat.mul_le_mul_left _ (by omega)
    refine ⟨iperm, ?_, ?_, iwait, iret⟩
    · intro d hd
      have := iout d hd
      exact ⟨this.1, by show d.time ≤ s.h.now + dt; omega⟩
    · intro a ha
      have := ifail a ha
      show a ≤ p * (s.h.now + dt); omega
  | same => exact ⟨iperm, iout, ifail, iwait, iret⟩
  | unrated =>
    have : GSt.ratedOut { s with out := ⟨s.h.now, false, 0⟩ :: s.out } = s.ratedOut := by simp [GSt.ratedOut]
    exact ⟨by rw [this]; exact iperm, by rw [this]; exact iout, ifail, iwait, iret⟩
  | send e act wok hg hn hr ha =>
    apply GSt.Acct.ofRatedWrite s (s.h.step e) act wok
    · rw [hg]; exact List.Perm.cons act iperm
    · rw [hn]; exact iout
    · rw [hn]; exact ifail
    · exact iwait
    · rw [hr]; exact iret
    · rw [hn, ← hpe]; exact ha
  | enqueue act t wok hg hn hr ha =>
    refine ⟨?_, ?_, ?_, ?_, ?_⟩
    · show (s.h.step .reserve).grants.Perm (s.ratedOut.map (·.act) ++ (s.waiting ++ [(⟨t, act, wok⟩ : Waiter)]).map Waiter.act ++ s.failed)
      rw [hg]
      simp only [List.map_append, List.map_cons, List.map_nil, List.append_assoc, List.singleton_append]
      have := (List.Perm.cons act iperm).trans (List.perm_middle (a := act) (l₁ := s.ratedOut.map (·.act) ++ s.waiting.map (·.act)) (l₂ := s.failed)).symm
      simpa [List.append_assoc] using this
    · intro d hd; show d.act ≤ p * d.time ∧ d.time ≤ (s.h.step .reserve).now; rw [hn]; exact iout d hd
    · intro a ha'; show a ≤ p * (s.h.step .reserve).now; rw [hn]; exact ifail a ha'
    · intro w' hw'
      rcases List.mem_append.mp hw' with h | h
      · exact iwait w' h
      · simp at h; subst h; show act ≤ p * t; rw [← hpe]; exact ha
    · show (s.h.step .reserve).returned ≤ s.failed.length; rw [hr]; exact iret
  | wake i w' hw hle =>
    have hp' := eraseIdx_perm s.waiting i w' hw
    apply GSt.Acct.ofRatedWrite { s with waiting := s.waiting.eraseIdx i } s.h w'.act w'.wok
    · show s.h.grants.Perm (w'.act :: (s.ratedOut.map (·.act) ++ (s.waiting.eraseIdx i).map (·.act) ++ s.failed))
      have h1 : (s.waiting.map (·.act)).Perm (w'.act :: (s.waiting.eraseIdx i).map (·.act)) := by
        simpa using hp'.map (·.act)
      have h2 := (List.Perm.append_left (s.ratedOut.map (·.act)) h1).append_right s.failed
      refine iperm.trans (h2.trans ?_)
      simpa [List.append_assoc] using (List.perm_middle (a := w'.act) (l₁ := s.ratedOut.map (·.act)) (l₂ := (s.waiting.eraseIdx i).map (·.act) ++ s.failed))
    · exact iout
    · exact ifail
    · intro w'' hw''
      exact iwait w'' (List.mem_of_mem_eraseIdx hw'')
    · exact iret
    · have h1 := iwait w' (List.mem_of_getElem? hw)
      have h2 : p * w'.notBefore ≤ p * s.h.now := Nat.mul_le_mul_left _ hle
      omega


/-! ## Gate histories -/

theorem GSt.run_cons (s : GSt) (e : GEv) (h : List GEv) : s.run (e :: h) = (s.step e).run h := rfl

/-- Along every gate history from a fresh limiter: the bucket stays in the regime of the
theorems, every grant is accounted for, and the bucket's own history is one of `BHist`. -/
structure GSt.Inv (p q burst t0 : Nat) (s : GSt) : Prop where
  wf : s.h.WF p q burst t0
  acct : s.Acct p
  sim : ∃ bh : List BEv, s.h = (BHist.init p q burst t0).run bh

theorem GSt.Inv.init (p q burst t0 : Nat) : (GSt.init p q burst t0).Inv p q burst t0 :=
  ⟨BHist.WF.init p q burst t0,
   ⟨List.Perm.refl _, by intro d hd; simp [GSt.init, GSt.ratedOut] at hd, by intro a ha; simp [GSt.init] at ha,
    by intro w hw; simp [GSt.init] at hw, Nat.le_refl _⟩,
   ⟨[], rfl⟩⟩

theorem GSt.Inv.step {p q burst t0 : Nat} (hp : 0 < p) {s : GSt} (i : s.Inv p q burst t0) (e : GEv) :
    (s.step e).Inv p q burst t0 := by
  have sh := GSt.step_shape s e i.wf.ninf (i.wf.hp ▸ hp) i.wf.last_le
  obtain ⟨evs, hev⟩ := sh.sim
  obtain ⟨bh, hbh⟩ := i.sim
  refine ⟨?_, GSt.Acct.shape s _ i.wf i.acct sh, ⟨bh ++ evs, ?_⟩⟩
  · rw [hev]; exact BHist.WF.run hp evs i.wf
  · rw [hev, hbh, BHist.run_append]

theorem GSt.Inv.run {p q burst t0 : Nat} (hp : 0 < p) (h : List GEv) :
    ∀ {s : GSt}, s.Inv p q burst t0 → (s.run h).Inv p q burst t0 := by
  induction h with
  | nil => intro s i; exact i
  | cons e h ih => intro s i; exact ih (i.step hp e)

theorem countP_le_of_all (X : Nat) : ∀ (l : List Nat), (∀ a ∈ l, a ≤ X) → l.countP (fun g => decide (g ≤ X)) = l.length
  | [], _ => rfl
  | a :: l, h => by
    have h1 : a ≤ X := h a (List.mem_cons_self ..)
    have ih := countP_le_of_all X l (fun b hb => h b (List.mem_cons_of_mem _ hb))
    simp [List.countP_cons, h1, ih]

end Dht
