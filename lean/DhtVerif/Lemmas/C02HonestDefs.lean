/-
Definitions for C02Honest (the last sentence of C02): a finite network, its K
closest nodes, and what it means for a lookup history to be answered honestly.
Only definitions live here; the lemmas are in Lemmas/C02Honest*.lean and the
property theorems in Props/C02Honest.lean.
-/
import DhtVerif.Model.Traversal
import DhtVerif.Props.C02
namespace Dht

/-- A network node: its ID and its address. -/
abbrev NetNode := Id × Addr

/-- XOR distance of a network node to the target, as a number (the same number
`KElem.dist` assigns to a member of the closest set with that ID). -/
def netDist (t : Id) (n : NetNode) : Nat := (Id.distance n.1 t).toNat

/-- The network nodes strictly closer to the target than `n`. -/
def closerNodes (t : Id) (net : List NetNode) (n : NetNode) : List NetNode :=
  net.filter (fun m => decide (netDist t m < netDist t n))

/-- The K closest nodes of the network: the nodes that have fewer than `k`
network nodes strictly closer to the target than themselves. (For a
well-formed network distances are pairwise different, so these are exactly
`min k |net|` nodes: `kClosest_length`, and they are the first `k` of the
network sorted by distance: `mem_kClosest_iff_take`.) -/
def kClosest (t : Id) (k : Nat) (net : List NetNode) : List NetNode :=
  net.filter (fun n => decide ((closerNodes t net n).length < k))

/-- A finite network: 20-byte IDs, no ID twice, no (printed) address twice, every address valid. -/
structure NetWF (net : List NetNode) : Prop where
  idLen : ∀ n ∈ net, n.1.length = 20
  idNodup : (net.map (·.1)).Nodup
  addrNodup : (net.map (fun n => n.2.strKey)).Nodup
  addrValid : ∀ n ∈ net, n.2.rank ≠ 0

/-- A network node as a candidate with its true ID (what a reply's node list carries). -/
def NetNode.cand (n : NetNode) : Cand := ⟨some n.1, n.2⟩

/-- The answer of the node at address `a` is *honest* for the network:
the address belongs to a network node, the responder ID is that node's ID, the
data it supplies is acceptable to the data filter (for a `get_peers`-style lookup:
any token), every candidate it lists is well-formed (a known ID has 20 bytes), and the two node
lists together contain every one of the K closest nodes of the network with its
true ID (in any order, split in any way between `nodes` and `nodes6`). -/
def HonestReply (c : TravCfg) (net : List NetNode) (a : Addr) (r : QResult) : Prop :=
  (∃ id, (id, a) ∈ net ∧ r.responder = some id) ∧
  c.dataFilter r.data = true ∧
  (∀ x ∈ r.nodes ++ r.nodes6, x.ok) ∧
  (∀ n ∈ kClosest c.target c.k net, n.cand ∈ r.nodes ++ r.nodes6)

/-- The literal reading: the reply lists *exactly* the K closest nodes of the network. -/
def ExactReply (c : TravCfg) (net : List NetNode) (a : Addr) (r : QResult) : Prop :=
  (∃ id, (id, a) ∈ net ∧ r.responder = some id) ∧
  c.dataFilter r.data = true ∧
  (∀ x, x ∈ r.nodes ++ r.nodes6 ↔ ∃ n ∈ kClosest c.target c.k net, x = n.cand)

/-- One event of an honest history: contacts handed in from outside (seeds, late
`AddNodes`) are well-formed candidates — they may carry any 20-byte ID or none; every query that returns
returns an honest reply (in particular: it *does* answer, with its ID). The other
events are internal steps of the lookup and unconstrained. -/
def HonestEv (c : TravCfg) (net : List NetNode) : TravEv → Prop
  | .addNodes ns => ∀ x ∈ ns, x.ok
  | .queryReturn a r => HonestReply c net a r
  | _ => True

def HonestHist (c : TravCfg) (net : List NetNode) (evs : List TravEv) : Prop :=
  ∀ e ∈ evs, HonestEv c net e

/-- The literal reading of the sentence: seeds name network nodes (with their true ID or
without ID) and every reply lists exactly the K closest nodes. -/
def ExactEv (c : TravCfg) (net : List NetNode) : TravEv → Prop
  | .addNodes ns => ∀ x ∈ ns, ∃ n ∈ net, x.addr = n.2 ∧ (x.id = some n.1 ∨ x.id = none)
  | .queryReturn a r => ExactReply c net a r
  | _ => True

def ExactHist (c : TravCfg) (net : List NetNode) (evs : List TravEv) : Prop :=
  ∀ e ∈ evs, ExactEv c net e

/-- The (ID, address) pairs held by the closest set. -/
def closestNodes (s : Trav) : List NetNode := s.closest.map (fun m => (m.id, m.addr))

end Dht
