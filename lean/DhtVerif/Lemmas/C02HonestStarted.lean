/- Helper lemmas for C02Honest: the start log only grows; a query that returned was started. -/
import DhtVerif.Lemmas.C02Honest
namespace Dht

theorem Trav.addNodes_started (c : TravCfg) (ns : List Cand) (s : Trav) :
    (s.addNodes c ns).started = s.started := by
  unfold Trav.addNodes
  induction ns generalizing s with
  | nil => rfl
  | cons n ns ih => exact (ih (s.addNode c n)).trans (Trav.addNode_fields c s n).2.1

theorem Trav.startQuery_started_mono (c : TravCfg) (s : Trav) :
    ∀ a ∈ s.started, a ∈ (s.startQuery c).started := by
  intro a ha
  unfold Trav.startQuery
  split
  · exact ha
  · simp only
    split
    · exact ha
    · exact List.mem_append_left _ ha

theorem Trav.startLoop_started_mono (c : TravCfg) (fuel : Nat) (s : Trav) :
    ∀ a ∈ s.started, a ∈ (Trav.startLoop c fuel s).started := by
  induction fuel generalizing s with
  | zero => exact fun _ h => h
  | succ fuel ih =>
    intro a ha
    unfold Trav.startLoop
    split
    · exact ih _ a (Trav.startQuery_started_mono c s a ha)
    · exact ha

theorem Trav.runEval_started_mono (c : TravCfg) (s : Trav) :
    ∀ a ∈ s.started, a ∈ (s.runEval c).started := by
  intro a ha
  unfold Trav.runEval
  split
  · split
    · exact ha
    · have h' := Trav.startLoop_started_mono c (s.unq.length + 1) s a ha
      simp only
      split <;> exact h'
  · exact ha

theorem Trav.step_started_mono {c : TravCfg} {s s' : Trav} (e : TravEv)
    (hs : s.step c e = some s') : ∀ a ∈ s.started, a ∈ s'.started := by
  intro x hx
  cases e with
  | addNodes ns =>
    simp only [Trav.step, Option.some.injEq] at hs
    subst hs
    rw [Trav.addNodes_started]; exact hx
  | runEval =>
    simp only [Trav.step] at hs
    split at hs
    · simp only [Option.some.injEq] at hs
      subst hs; exact Trav.runEval_started_mono c s x hx
    · cases hs
  | captureGen =>
    simp only [Trav.step, Trav.captureGen] at hs
    split at hs
    · simp only [Option.some.injEq] at hs
      subst hs; exact hx
    · cases hs
  | runWake why =>
    simp only [Trav.step, Trav.runWake] at hs
    split at hs
    · split at hs <;> split at hs <;> first
        | (simp only [Option.some.injEq] at hs
           subst hs; exact hx)
        | cases hs
    · cases hs
  | queryReturn a r =>
    simp only [Trav.step] at hs
    split at hs
    · simp only [Option.some.injEq] at hs
      subst hs; exact hx
    · cases hs
  | addClosest a =>
    simp only [Trav.step] at hs
    split at hs
    · rename_i r _
      simp only [Option.some.injEq] at hs
      subst hs
      show x ∈ (s.addClosest c a r).started
      rw [(Trav.addClosest_fields c s a r).2.2.1]; exact hx
    · cases hs
  | addReplyNodes a =>
    simp only [Trav.step] at hs
    split at hs
    · rename_i r _
      simp only [Option.some.injEq] at hs
      subst hs
      show x ∈ (s.addNodes c r.nodes).started
      rw [Trav.addNodes_started]; exact hx
    · cases hs
  | addReplyNodes6 a =>
    simp only [Trav.step] at hs
    split at hs
    · rename_i r _
      simp only [Option.some.injEq] at hs
      subst hs
      show x ∈ (s.addNodes c r.nodes6).started
      rw [Trav.addNodes_started]; exact hx
    · cases hs
  | finish a =>
    simp only [Trav.step] at hs
    split at hs
    · simp only [Option.some.injEq] at hs
      subst hs; exact hx
    · cases hs
  | stop =>
    simp only [Trav.step] at hs
    split at hs <;>
      (simp only [Option.some.injEq] at hs
       subst hs; exact hx)
  | stopperStep =>
    simp only [Trav.step] at hs
    split at hs
    · split at hs <;>
        (simp only [Option.some.injEq] at hs
         subst hs; exact hx)
    · split at hs
      · simp only [Option.some.injEq] at hs
        subst hs; exact hx
      · cases hs
    · cases hs

theorem Trav.exec_started_mono {c : TravCfg} (evs : List TravEv) {s0 s : Trav}
    (h : Trav.exec c s0 evs = some s) : ∀ a ∈ s0.started, a ∈ s.started := by
  induction evs generalizing s0 with
  | nil =>
    simp only [Trav.exec, Option.some.injEq] at h
    subst h; exact fun _ h => h
  | cons e es ih =>
    obtain ⟨s1, h1, h2⟩ := (Trav.exec_cons c s0 e es s).mp h
    exact fun a ha => ih h2 a (Trav.step_started_mono e h1 a ha)

/-- A query that returned had been started. -/
theorem Trav.started_of_returned {c : TravCfg} (evs : List TravEv) {s0 s : Trav}
    (hi : Trav.Inv c s0) (h : Trav.exec c s0 evs = some s) (a : Addr) (r : QResult)
    (hr : TravEv.queryReturn a r ∈ evs) : s.started ≠ [] := by
  induction evs generalizing s0 with
  | nil => cases hr
  | cons e es ih =>
    obtain ⟨s1, h1, h2⟩ := (Trav.exec_cons c s0 e es s).mp h
    rcases List.mem_cons.mp hr with he | hr'
    · subst he
      simp only [Trav.step] at h1
      split at h1
      · rename_i hp
        have hm := phaseOf_some_mem (show phaseOf s0.inflight a = some .inDoQuery by simpa using hp)
        have hq := hi.infl_q a hm
        rw [hi.q_eq] at hq
        obtain ⟨a', ha', _⟩ := List.mem_map.mp hq
        have h3 := Trav.exec_started_mono es h2 a' (by
          simp only [Option.some.injEq] at h1
          subst h1; exact ha')
        intro hnil
        rw [hnil] at h3; cases h3
      · cases h1
    · exact ih (Trav.step_inv e hi h1) h2 hr'

end Dht
