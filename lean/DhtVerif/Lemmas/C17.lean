/- Helper lemmas for C17. -/
import DhtVerif.Model.Security
namespace Dht
namespace C17

/-! ### Byte facts -/

theorem u8_merge_hi (c b : UInt8) : ((c &&& 0xf8) ||| (b &&& 7)) &&& 0xf8 = c &&& 0xf8 := by
  apply UInt8.eq_of_toBitVec_eq
  simp only [UInt8.toBitVec_and, UInt8.toBitVec_or]
  ext i hi
  simp only [BitVec.getElem_and, BitVec.getElem_or]
  have : i = 0 ∨ i = 1 ∨ i = 2 ∨ i = 3 ∨ i = 4 ∨ i = 5 ∨ i = 6 ∨ i = 7 := by omega
  rcases this with h | h | h | h | h | h | h | h <;> subst h <;> simp <;> rfl

theorem u8_merge_lo (c b : UInt8) : ((c &&& 0xf8) ||| (b &&& 7)) &&& 7 = b &&& 7 := by
  apply UInt8.eq_of_toBitVec_eq
  simp only [UInt8.toBitVec_and, UInt8.toBitVec_or]
  ext i hi
  simp only [BitVec.getElem_and, BitVec.getElem_or]
  have : i = 0 ∨ i = 1 ∨ i = 2 ∨ i = 3 ∨ i = 4 ∨ i = 5 ∨ i = 6 ∨ i = 7 := by omega
  rcases this with h | h | h | h | h | h | h | h <;> subst h <;> simp <;> rfl

theorem u8_and7_and7 (r : UInt8) : r &&& 7 &&& 7 = r &&& 7 := by
  rw [UInt8.and_assoc, UInt8.and_self]

theorem u8_and_255 (x : UInt8) : x &&& 255 = x := by
  apply UInt8.eq_of_toBitVec_eq
  simp only [UInt8.toBitVec_and]
  ext i hi
  simp only [BitVec.getElem_and]
  have : i = 0 ∨ i = 1 ∨ i = 2 ∨ i = 3 ∨ i = 4 ∨ i = 5 ∨ i = 6 ∨ i = 7 := by omega
  rcases this with h | h | h | h | h | h | h | h <;> subst h <;> simp <;> rfl

/-! ### List shape -/

theorem list20_shape (id : List UInt8) (hid : id.length = 20) :
    ∃ a0 a1 a2 rest, id = a0 :: a1 :: a2 :: rest ∧ rest.length = 17 := by
  match id, hid with
  | a0 :: a1 :: a2 :: rest, h => exact ⟨a0, a1, a2, rest, rfl, by simpa using h⟩

/-! ### `crcIP` -/

theorem maskV4 : Gen.v4Mask.map Nat.toUInt8 = [3, 15, 63, 255] := by decide
theorem maskV6 : Gen.v6Mask.map Nat.toUInt8 = [1, 3, 7, 15, 31, 63, 127, 255] := by decide

theorem to4_length (ip v4 : List UInt8) (h : to4 ip = some v4) : v4.length = 4 := by
  unfold to4 at h
  split at h
  · simp_all
  · split at h
    · rename_i h2
      simp at h h2
      subst h
      simp [h2.1]
    · simp at h

theorem to4_of_len4 (ip : List UInt8) (h : ip.length = 4) : to4 ip = some ip := by
  simp [to4, h]

/-- `crcIP` on a 4-byte (already `to4`-normalised) address. -/
def crc4 (v4 : List UInt8) (r : UInt8) : Option UInt32 :=
  match v4 with
  | [a, b, c, d] => some (crc32c [(a &&& (3 : UInt8)) ||| ((r &&& (7 : UInt8)) <<< (5 : UInt8)), b &&& (15 : UInt8), c &&& (63 : UInt8), d &&& (255 : UInt8)])
  | _ => none

theorem crcIP_of_to4_some (ip v4 : List UInt8) (r : UInt8) (h : to4 ip = some v4) :
    crcIP ip r = crc4 v4 r := by
  have hl := to4_length ip v4 h
  match v4, hl with
  | [a, b, c, d], _ =>
    simp [crcIP, h, to4_of_len4, maskForIP, maskV4, crc4]

theorem crcIP_total (ip : List UInt8) (r : UInt8) (h : validIp ip = true) : ∃ c, crcIP ip r = some c := by
  cases h4 : to4 ip with
  | some v4 =>
    have hl := to4_length ip v4 h4
    rw [crcIP_of_to4_some ip v4 r h4]
    match v4, hl with
    | [a, b, c, d], _ => exact ⟨_, rfl⟩
  | none =>
    have h16 : ip.length = 16 := by
      simp [validIp] at h
      rcases h with h | h
      · rw [to4_of_len4 ip h] at h4; cases h4
      · exact h
    match ip, h16 with
    | a0 :: a1 :: a2 :: a3 :: a4 :: a5 :: a6 :: a7 :: rest, hr =>
      simp at hr
      simp [crcIP, h4, maskForIP, maskV6, hr]

/-! ### `secureNodeId` on a destructured ID -/

theorem getD19_shape (a0 a1 a2 : UInt8) (rest : List UInt8) :
    (a0 :: a1 :: a2 :: rest).getD 19 0 = rest.getD 16 0 := rfl

theorem secure_shape (a0 a1 a2 : UInt8) (rest : List UInt8) (ip : List UInt8) :
    secureNodeId (a0 :: a1 :: a2 :: rest) ip =
      (crcIP ip (rest.getD 16 0)).map (fun crc =>
        byte crc 24 :: byte crc 16 :: ((byte crc 8 &&& 0xf8) ||| (a2 &&& 7)) :: rest) := by
  unfold secureNodeId
  rw [getD19_shape]
  cases crcIP ip (rest.getD 16 0) <;> rfl

/-- Inversion of a successful `secureNodeId` on a 20-byte ID. -/
theorem secure_inv (id ip id' : List UInt8) (hid : id.length = 20)
    (h : secureNodeId id ip = some id') :
    ∃ a0 a1 a2 rest c, id = a0 :: a1 :: a2 :: rest ∧ rest.length = 17 ∧
      crcIP ip (rest.getD 16 0) = some c ∧
      id' = byte c 24 :: byte c 16 :: ((byte c 8 &&& 0xf8) ||| (a2 &&& 7)) :: rest := by
  obtain ⟨a0, a1, a2, rest, rfl, hr⟩ := list20_shape id hid
  rw [secure_shape] at h
  cases hc : crcIP ip (rest.getD 16 0) with
  | none => rw [hc] at h; cases h
  | some c =>
    rw [hc] at h
    exact ⟨a0, a1, a2, rest, c, rfl, hr, hc, (Option.some.inj h).symm⟩

end C17
end Dht
