/- Helper lemmas for C17. -/
import DhtVerif.Model.Security
namespace Dht

end Dht
