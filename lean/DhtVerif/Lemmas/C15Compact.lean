/-
Lemmas for C15: the compact list codec (`unmarshalBinarySlice` / `marshalBinarySlice`).
-/
import DhtVerif.Model.Krpc
namespace Dht
namespace Krpc

/-- A successful decode splits the input into elements of exactly `size` bytes. -/
theorem decCompact_sound (size : Nat) (b : List UInt8) :
    ∀ l, decCompact size b = some l → encCompact l = b ∧ ∀ c ∈ l, c.length = size := by
  induction b using decCompact.induct size with
  | case1 x h0 => intro l h; rw [decCompact] at h; simp [h0] at h
  | case2 x h0 hx =>
    intro l h
    rw [decCompact] at h
    simp only [h0, hx, if_true, if_false] at h
    have : l = [] := by simpa using h.symm
    subst this
    have : x = [] := List.eq_nil_of_length_eq_zero hx
    simp [encCompact, this]
  | case3 x h0 hx hlt => intro l h; rw [decCompact] at h; simp [h0, hx, hlt] at h
  | case4 x h0 hx hlt l' hl' ih =>
    intro l h
    rw [decCompact] at h
    simp only [h0, hx, hlt, if_false, hl'] at h
    have : l = x.take size :: l' := by simpa using h.symm
    subst this
    obtain ⟨h1, h2⟩ := ih l' hl'
    refine ⟨?_, ?_⟩
    · simp only [encCompact, List.flatten_cons] at h1 ⊢
      rw [h1, List.take_append_drop]
    · intro c hc
      simp only [List.mem_cons] at hc
      cases hc with
      | inl hc => rw [hc, List.length_take]; omega
      | inr hc => exact h2 c hc
  | case5 x h0 hx hlt hn ih => intro l h; rw [decCompact] at h; simp [h0, hx, hlt, hn] at h

/-- Decoding succeeds exactly when the length is a multiple of the element size. -/
theorem decCompact_isSome_iff (size : Nat) (hs : 0 < size) (b : List UInt8) :
    (decCompact size b).isSome = true ↔ b.length % size = 0 := by
  induction b using decCompact.induct size with
  | case1 x h0 => omega
  | case2 x h0 hx => rw [decCompact]; simp [h0, hx]
  | case3 x h0 hx hlt =>
    rw [decCompact]
    simp only [h0, hx, hlt, if_true, if_false]
    rw [Nat.mod_eq_of_lt hlt]
    simp only [Option.isSome_none, Bool.false_eq_true, false_iff]
    exact hx
  | case4 x h0 hx hlt l' hl' ih =>
    rw [decCompact]
    simp only [h0, hx, hlt, if_false, hl']
    rw [hl'] at ih
    simp only [Option.isSome_some, List.length_drop, true_iff] at ih ⊢
    rw [Nat.mod_eq_sub_mod (by omega)]; exact ih
  | case5 x h0 hx hlt hn ih =>
    rw [decCompact]
    simp only [h0, hx, hlt, if_false, hn]
    rw [hn] at ih
    simp only [Option.isSome_none, List.length_drop, false_iff, Bool.false_eq_true] at ih ⊢
    rw [Nat.mod_eq_sub_mod (by omega)]; exact ih

/-- Elements of the right width decode back to themselves. -/
theorem decCompact_flatten (size : Nat) (hs : 0 < size) (l : List (List UInt8))
    (hl : ∀ c ∈ l, c.length = size) : decCompact size (encCompact l) = some l := by
  induction l with
  | nil =>
    rw [decCompact]
    have h1 : ¬ size = 0 := by omega
    simp [encCompact, h1]
  | cons c t ih =>
    have hc : c.length = size := hl c (by simp)
    have ht := ih (fun c' hc' => hl c' (by simp [hc']))
    rw [decCompact]
    simp only [encCompact, List.flatten_cons] at ht ⊢
    have h1 : ¬ size = 0 := by omega
    have h2 : ¬ (c ++ t.flatten).length = 0 := by rw [List.length_append]; omega
    have h3 : ¬ (c ++ t.flatten).length < size := by rw [List.length_append]; omega
    simp only [h1, h2, h3, if_false, List.drop_left' hc, List.take_left' hc, ht]

end Krpc
end Dht
