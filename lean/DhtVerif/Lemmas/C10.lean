/- Helper lemmas for C10. -/
import DhtVerif.Model.Token
namespace Dht

end Dht
