/- Helper lemmas for C10. -/
import DhtVerif.Model.Token
namespace Dht

theorem be64_length (n : Nat) : (be64 n).length = 8 := rfl

theorem toUInt8_inj_of_lt {a b : Nat} (ha : a < 256) (hb : b < 256)
    (h : a.toUInt8 = b.toUInt8) : a = b := by
  have h' := congrArg UInt8.toNat h
  simp only [Nat.toUInt8_eq, UInt8.toNat_ofNat'] at h'
  omega

/-- `be64` is injective on numbers below `2^64`. -/
theorem be64_inj {a b : Nat} (ha : a < 2 ^ 64) (hb : b < 2 ^ 64) (h : be64 a = be64 b) : a = b := by
  unfold be64 at h
  simp only [List.cons.injEq, and_true] at h
  obtain ⟨h7, h6, h5, h4, h3, h2, h1, h0⟩ := h
  have e7 := toUInt8_inj_of_lt (Nat.mod_lt _ (by decide)) (Nat.mod_lt _ (by decide)) h7
  have e6 := toUInt8_inj_of_lt (Nat.mod_lt _ (by decide)) (Nat.mod_lt _ (by decide)) h6
  have e5 := toUInt8_inj_of_lt (Nat.mod_lt _ (by decide)) (Nat.mod_lt _ (by decide)) h5
  have e4 := toUInt8_inj_of_lt (Nat.mod_lt _ (by decide)) (Nat.mod_lt _ (by decide)) h4
  have e3 := toUInt8_inj_of_lt (Nat.mod_lt _ (by decide)) (Nat.mod_lt _ (by decide)) h3
  have e2 := toUInt8_inj_of_lt (Nat.mod_lt _ (by decide)) (Nat.mod_lt _ (by decide)) h2
  have e1 := toUInt8_inj_of_lt (Nat.mod_lt _ (by decide)) (Nat.mod_lt _ (by decide)) h1
  have e0 := toUInt8_inj_of_lt (Nat.mod_lt _ (by decide)) (Nat.mod_lt _ (by decide)) h0
  omega

/-- Going back `d` whole intervals lowers the interval counter by exactly `d`. -/
theorem sub_mul_div_interval (u d i : Nat) : (u - d * i) / i = u / i - d := by
  rw [Nat.mul_comm]; exact Nat.sub_mul_div u i d

/-- Equal-IP-length token preimages: the counters and secrets agree. -/
theorem preimage_inj {ip ip' : List UInt8} {a b : Nat} {sec sec' : List UInt8}
    (hl : ip.length = ip'.length)
    (h : ip ++ be64 a ++ sec = ip' ++ be64 b ++ sec') :
    ip = ip' ∧ be64 a = be64 b ∧ sec = sec' := by
  have h1 := List.append_inj h (by simp [hl, be64_length])
  have h2 := List.append_inj h1.1 hl
  exact ⟨h2.1, h2.2, h1.2⟩

theorem valid_eq_true_iff (H : List UInt8 → List UInt8) (s : TokenServer) (tok ip : List UInt8) (now : Nat) :
    s.valid H tok ip now = true ↔ ∃ d, d ≤ s.maxDelta ∧ tok = s.create H ip (now - d * s.interval) := by
  unfold TokenServer.valid
  simp only [List.any_eq_true, List.mem_range, beq_iff_eq]
  constructor
  · rintro ⟨d, hd, e⟩; exact ⟨d, by omega, e.symm⟩
  · rintro ⟨d, hd, e⟩; exact ⟨d, by omega, e.symm⟩

theorem valid_eq_false_iff (H : List UInt8 → List UInt8) (s : TokenServer) (tok ip : List UInt8) (now : Nat) :
    s.valid H tok ip now = false ↔ ∀ d, d ≤ s.maxDelta → tok ≠ s.create H ip (now - d * s.interval) := by
  rw [← Bool.not_eq_true, valid_eq_true_iff]
  simp

end Dht
