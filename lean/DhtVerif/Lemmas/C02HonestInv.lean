/- Helper lemmas for C02Honest: the invariant of honestly answered lookups. -/
import DhtVerif.Lemmas.C02HonestNet
namespace Dht

/-! ### in-flight list -/

theorem mem_setPhase {l : List (Addr × QPhase)} {a : Addr} {p : QPhase} {e : Addr × QPhase}
    (h : e ∈ setPhase l a p) : e = (a, p) ∨ e ∈ l := by
  unfold setPhase at h
  obtain ⟨x, hx, rfl⟩ := List.mem_map.mp h
  by_cases hxa : x.1 = a
  · left; simp [hxa]
  · right; simp [hxa, hx]

theorem phaseOf_mem_H {l : List (Addr × QPhase)} {a : Addr} {p : QPhase}
    (h : phaseOf l a = some p) : (a, p) ∈ l := by
  unfold phaseOf at h
  cases hf : l.find? (·.1 == a) with
  | none => simp [hf] at h
  | some e =>
    have hm := List.mem_of_find?_eq_some hf
    have hp := List.find?_some hf
    simp only [beq_iff_eq] at hp
    simp only [hf, Option.map_some, Option.some.injEq] at h
    have : e = (a, p) := by rw [← hp, ← h]
    rw [← this]; exact hm

/-- The result a query goroutine carries in its phase. -/
def QPhase.res : QPhase → Option QResult
  | .returned r => some r
  | .closestDone r => some r
  | .nodesDone r => some r
  | _ => none

/-- Past `addClosest`. -/
def QPhase.past : QPhase → Bool
  | .closestDone _ => true
  | .nodesDone _ => true
  | .nodes6Done => true
  | _ => false

/-! ### accounted-for candidates -/

/-- The candidate is accounted for: its address was queried, or it waits in the frontier. -/
def Trav.has (s : Trav) (x : Cand) : Prop := x.addr.strKey ∈ s.queried ∨ x ∈ s.unq

/-- Every one of the K closest nodes of the network is accounted for (with its true ID). -/
def Trav.covers (c : TravCfg) (net : List NetNode) (s : Trav) : Prop :=
  ∀ n ∈ kClosest c.target c.k net, s.has n.cand

structure Trav.Grow (s s' : Trav) : Prop where
  q : ∀ k ∈ s.queried, k ∈ s'.queried
  u : ∀ x ∈ s.unq, s'.has x

theorem Trav.Grow.refl (s : Trav) : Trav.Grow s s := ⟨fun _ h => h, fun _ h => Or.inr h⟩

theorem Trav.Grow.has {s s' : Trav} (g : Trav.Grow s s') {x : Cand} (h : s.has x) : s'.has x := by
  rcases h with h | h
  · exact Or.inl (g.q _ h)
  · exact g.u x h

theorem Trav.Grow.trans {s s' s'' : Trav} (g : Trav.Grow s s') (g' : Trav.Grow s' s'') :
    Trav.Grow s s'' :=
  ⟨fun k h => g'.q k (g.q k h), fun x h => g'.has (g.u x h)⟩

theorem Trav.Grow.covers {c : TravCfg} {net : List NetNode} {s s' : Trav} (g : Trav.Grow s s')
    (h : s.covers c net) : s'.covers c net := fun n hn => g.has (h n hn)

theorem Trav.Grow.of_eq {s s' : Trav} (hu : s'.unq = s.unq) (hq : s'.queried = s.queried) :
    Trav.Grow s s' :=
  ⟨fun k h => by rw [hq]; exact h, fun x h => Or.inr (by rw [hu]; exact h)⟩

/-! ### the invariant -/

abbrev SortedU (c : TravCfg) (l : List Cand) : Prop :=
  l.Pairwise (fun a b => closerThan c.target a b = true)

structure Trav.HInv (c : TravCfg) (net : List NetNode) (hist : List KElem) (s : Trav) : Prop where
  unq_ok : ∀ x ∈ s.unq, x.ok'
  unq_sorted : SortedU c s.unq
  hist_net : ∀ m ∈ hist, (m.id, m.addr) ∈ net
  honest : ∀ e ∈ s.inflight, ∀ r, e.2.res = some r → HonestReply c net e.1 r
  resp_past : ∀ e ∈ s.inflight, e.2.past = true → ∃ m ∈ hist, m.addr = e.1
  resp_started : ∀ a ∈ s.started, a ∈ s.inflight.map Prod.fst ∨ ∃ m ∈ hist, m.addr = a
  cov_nodes : ∀ e ∈ s.inflight, ∀ r, e.2 = .nodesDone r →
    ∀ n ∈ kClosest c.target c.k net, n.cand ∈ r.nodes → s.has n.cand
  cov_n6 : ∀ e ∈ s.inflight, e.2 = .nodes6Done → s.covers c net
  cov : s.covers c net ∨ ∀ a ∈ s.started, a ∈ s.inflight.map Prod.fst

theorem Trav.HInv.init (c : TravCfg) (net : List NetNode) : Trav.HInv c net [] {} := by
  constructor <;> simp [SortedU]

/-- Steps that only enlarge the frontier / drop an already queried candidate from it. -/
theorem Trav.HInv.grow {c : TravCfg} {net : List NetNode} {hist : List KElem} {s s' : Trav}
    (h : Trav.HInv c net hist s)
    (hinf : s'.inflight = s.inflight) (hst : s'.started = s.started) (g : Trav.Grow s s')
    (hok : ∀ x ∈ s'.unq, x.ok') (hsorted : SortedU c s'.unq) : Trav.HInv c net hist s' := by
  refine ⟨hok, hsorted, h.hist_net, ?_, ?_, ?_, ?_, ?_, ?_⟩
  · rw [hinf]; exact h.honest
  · rw [hinf]; exact h.resp_past
  · rw [hinf, hst]; exact h.resp_started
  · rw [hinf]; intro e he r hr n hn hnr; exact g.has (h.cov_nodes e he r hr n hn hnr)
  · rw [hinf]; intro e he hr; exact g.covers (h.cov_n6 e he hr)
  · rw [hinf, hst]
    rcases h.cov with h1 | h1
    · exact Or.inl (g.covers h1)
    · exact Or.inr h1

/-- A query is launched for `a`. -/
theorem Trav.HInv.launch {c : TravCfg} {net : List NetNode} {hist : List KElem} {s s' : Trav}
    (h : Trav.HInv c net hist s) (a : Addr)
    (hinf : s'.inflight = s.inflight ++ [(a, .inDoQuery)]) (hst : s'.started = s.started ++ [a])
    (g : Trav.Grow s s')
    (hok : ∀ x ∈ s'.unq, x.ok') (hsorted : SortedU c s'.unq) : Trav.HInv c net hist s' := by
  have hmem : ∀ e ∈ s'.inflight, e ∈ s.inflight ∨ e = (a, .inDoQuery) := by
    intro e he; rw [hinf] at he; simpa using he
  have hfst : ∀ x ∈ s.inflight.map Prod.fst, x ∈ s'.inflight.map Prod.fst := by
    intro x hx; rw [hinf]; simp only [List.map_append, List.mem_append]; exact Or.inl hx
  have hnew : a ∈ s'.inflight.map Prod.fst := by rw [hinf]; simp
  refine ⟨hok, hsorted, h.hist_net, ?_, ?_, ?_, ?_, ?_, ?_⟩
  · intro e he r hr
    rcases hmem e he with he | rfl
    · exact h.honest e he r hr
    · cases hr
  · intro e he hp
    rcases hmem e he with he | rfl
    · exact h.resp_past e he hp
    · cases hp
  · intro x hx
    rw [hst] at hx
    rcases List.mem_append.mp hx with hx | hx
    · rcases h.resp_started x hx with h1 | h1
      · exact Or.inl (hfst x h1)
      · exact Or.inr h1
    · simp only [List.mem_singleton] at hx
      subst hx; exact Or.inl hnew
  · intro e he r hr n hn hnr
    rcases hmem e he with he | rfl
    · exact g.has (h.cov_nodes e he r hr n hn hnr)
    · cases hr
  · intro e he hr
    rcases hmem e he with he | rfl
    · exact g.covers (h.cov_n6 e he hr)
    · cases hr
  · rcases h.cov with h1 | h1
    · exact Or.inl (g.covers h1)
    · right
      intro x hx
      rw [hst] at hx
      rcases List.mem_append.mp hx with hx | hx
      · exact hfst x (h1 x hx)
      · simp only [List.mem_singleton] at hx
        subst hx; exact hnew

/-- The goroutine of `a` moves on to phase `p` (the frontier may have grown, the history of offers too). -/
theorem Trav.HInv.rephase {c : TravCfg} {net : List NetNode} {hist hist' : List KElem} {s s' : Trav}
    (h : Trav.HInv c net hist s) (a : Addr) (p : QPhase)
    (hu : s'.unq = s.unq) (hq : s'.queried = s.queried) (hst : s'.started = s.started)
    (hinf : s'.inflight = setPhase s.inflight a p)
    (hh : ∀ m ∈ hist, m ∈ hist') (hnet : ∀ m ∈ hist', (m.id, m.addr) ∈ net)
    (hp_honest : ∀ r, p.res = some r → HonestReply c net a r)
    (hp_past : p.past = true → ∃ m ∈ hist', m.addr = a)
    (hp_nodes : ∀ r, p = .nodesDone r → ∀ n ∈ kClosest c.target c.k net, n.cand ∈ r.nodes → s.has n.cand)
    (hp_n6 : p = .nodes6Done → s.covers c net) : Trav.HInv c net hist' s' := by
  have g : Trav.Grow s s' := Trav.Grow.of_eq hu hq
  have hmem : ∀ e ∈ s'.inflight, e = (a, p) ∨ e ∈ s.inflight := by
    intro e he; rw [hinf] at he; exact mem_setPhase he
  have hfst : s'.inflight.map Prod.fst = s.inflight.map Prod.fst := by
    rw [hinf, setPhase_map_fst]
  refine ⟨by rw [hu]; exact h.unq_ok, by rw [hu]; exact h.unq_sorted, hnet, ?_, ?_, ?_, ?_, ?_, ?_⟩
  · intro e he r hr
    rcases hmem e he with rfl | he
    · exact hp_honest r hr
    · exact h.honest e he r hr
  · intro e he hp
    rcases hmem e he with rfl | he
    · exact hp_past hp
    · obtain ⟨m, hm, hma⟩ := h.resp_past e he hp
      exact ⟨m, hh m hm, hma⟩
  · rw [hfst, hst]
    intro x hx
    rcases h.resp_started x hx with h1 | ⟨m, hm, hma⟩
    · exact Or.inl h1
    · exact Or.inr ⟨m, hh m hm, hma⟩
  · intro e he r hr n hn hnr
    rcases hmem e he with rfl | he
    · exact g.has (hp_nodes r hr n hn hnr)
    · exact g.has (h.cov_nodes e he r hr n hn hnr)
  · intro e he hr
    rcases hmem e he with rfl | he
    · exact g.covers (hp_n6 hr)
    · exact g.covers (h.cov_n6 e he hr)
  · rw [hfst, hst]
    rcases h.cov with h1 | h1
    · exact Or.inl (g.covers h1)
    · exact Or.inr h1

/-- The deferred finish of the goroutine of `a`. -/
theorem Trav.HInv.finish {c : TravCfg} {net : List NetNode} {hist : List KElem} {s s' : Trav}
    (h : Trav.HInv c net hist s) (a : Addr) (hm : (a, QPhase.nodes6Done) ∈ s.inflight)
    (hu : s'.unq = s.unq) (hq : s'.queried = s.queried) (hst : s'.started = s.started)
    (hinf : s'.inflight = s.inflight.filter (fun e => !(e.1 == a))) : Trav.HInv c net hist s' := by
  have g : Trav.Grow s s' := Trav.Grow.of_eq hu hq
  have hmem : ∀ e ∈ s'.inflight, e ∈ s.inflight := by
    intro e he; rw [hinf] at he; exact (List.mem_filter.mp he).1
  have hfst : ∀ x ∈ s.inflight.map Prod.fst, x ≠ a → x ∈ s'.inflight.map Prod.fst := by
    intro x hx hne
    obtain ⟨e, he, rfl⟩ := List.mem_map.mp hx
    rw [hinf]
    exact List.mem_map.mpr ⟨e, List.mem_filter.mpr ⟨he, by simpa using hne⟩, rfl⟩
  have hcov : s'.covers c net := g.covers (h.cov_n6 _ hm rfl)
  refine ⟨by rw [hu]; exact h.unq_ok, by rw [hu]; exact h.unq_sorted, h.hist_net, ?_, ?_, ?_, ?_, ?_,
    Or.inl hcov⟩
  · intro e he r hr; exact h.honest e (hmem e he) r hr
  · intro e he hp; exact h.resp_past e (hmem e he) hp
  · rw [hst]
    intro x hx
    by_cases hxa : x = a
    · subst hxa
      exact Or.inr (h.resp_past _ hm rfl)
    · rcases h.resp_started x hx with h1 | h1
      · exact Or.inl (hfst x h1 hxa)
      · exact Or.inr h1
  · intro e he r hr n hn hnr; exact g.has (h.cov_nodes e (hmem e he) r hr n hn hnr)
  · intro _ _ _; exact hcov

/-! ### AddNodes -/

theorem Trav.addNode_fields (c : TravCfg) (s : Trav) (n : Cand) :
    (s.addNode c n).queried = s.queried ∧ (s.addNode c n).started = s.started ∧
    (s.addNode c n).inflight = s.inflight := by
  unfold Trav.addNode
  split
  · exact ⟨rfl, rfl, rfl⟩
  · split <;> exact ⟨rfl, rfl, rfl⟩

theorem Trav.addNode_unq (c : TravCfg) (s : Trav) (n : Cand) :
    (s.addNode c n).unq = s.unq ∨
      (s.queried.contains n.addr.strKey = false ∧ c.nodeFilter n = true ∧
        (s.addNode c n).unq = SSet.add c.target s.unq n) := by
  unfold Trav.addNode
  split
  · exact Or.inl rfl
  · rename_i hq
    split
    · exact Or.inl rfl
    · rename_i hf
      right
      refine ⟨by simpa using hq, by simpa using hf, rfl⟩

theorem Trav.HInv.addNode {c : TravCfg} {net : List NetNode} {hist : List KElem} {s : Trav}
    (ht : c.target.length = 20) (h : Trav.HInv c net hist s) (n : Cand) (hn : n.ok') :
    Trav.HInv c net hist (s.addNode c n) ∧ Trav.Grow s (s.addNode c n) ∧
      (c.nodeFilter n = true → (s.addNode c n).has n) := by
  obtain ⟨hq, hst, hinf⟩ := Trav.addNode_fields c s n
  rcases Trav.addNode_unq c s n with hu | ⟨hnq, hf, hu⟩
  · have g : Trav.Grow s (s.addNode c n) := Trav.Grow.of_eq hu hq
    refine ⟨h.grow hinf hst g (by rw [hu]; exact h.unq_ok) (by rw [hu]; exact h.unq_sorted), g, ?_⟩
    intro hf
    -- the node was not inserted although it passes the filter: its address is queried
    unfold Trav.addNode
    split
    · rename_i hc
      exact Or.inl (by simpa using hc)
    · rename_i hc
      simp only [hf, Bool.not_true, Bool.false_eq_true, if_false]
      right
      exact (SSet.mem_add c.target ht s.unq n n h.unq_ok hn).mpr (Or.inl rfl)
  · have g : Trav.Grow s (s.addNode c n) := by
      refine ⟨fun k hk => by rw [hq]; exact hk, ?_⟩
      intro x hx
      right
      rw [hu]
      exact (SSet.mem_add c.target ht s.unq n x h.unq_ok hn).mpr (Or.inr hx)
    have hok : ∀ x ∈ (s.addNode c n).unq, x.ok' := by
      rw [hu]
      intro x hx
      rcases SSet.mem_add_imp _ _ _ _ hx with rfl | hx
      · exact hn
      · exact h.unq_ok x hx
    have hsorted : SortedU c (s.addNode c n).unq := by
      rw [hu]; exact SSet.add_pairwise c.target ht s.unq n h.unq_ok hn h.unq_sorted
    refine ⟨h.grow hinf hst g hok hsorted, g, ?_⟩
    intro _
    right
    rw [hu]
    exact (SSet.mem_add c.target ht s.unq n n h.unq_ok hn).mpr (Or.inl rfl)

theorem Trav.HInv.addNodes {c : TravCfg} {net : List NetNode} {hist : List KElem}
    (ht : c.target.length = 20) (ns : List Cand) {s : Trav} (h : Trav.HInv c net hist s)
    (hns : ∀ x ∈ ns, x.ok') :
    Trav.HInv c net hist (s.addNodes c ns) ∧ Trav.Grow s (s.addNodes c ns) ∧
      (∀ x ∈ ns, c.nodeFilter x = true → (s.addNodes c ns).has x) := by
  unfold Trav.addNodes
  induction ns generalizing s with
  | nil => exact ⟨h, Trav.Grow.refl s, by simp⟩
  | cons n ns ih =>
    obtain ⟨h1, g1, hs1⟩ := h.addNode ht n (hns n List.mem_cons_self)
    obtain ⟨h2, g2, hs2⟩ := ih h1 (fun x hx => hns x (List.mem_cons_of_mem _ hx))
    refine ⟨h2, g1.trans g2, ?_⟩
    intro x hx hf
    rcases List.mem_cons.mp hx with rfl | hx
    · exact g2.has (hs1 hf)
    · exact hs2 x hx hf

/-! ### startQuery / startLoop / runEval -/

theorem Trav.HInv.startQuery {c : TravCfg} {net : List NetNode} {hist : List KElem} {s : Trav}
    (h : Trav.HInv c net hist s) : Trav.HInv c net hist (s.startQuery c) := by
  unfold Trav.startQuery
  split
  · exact h
  · rename_i a rest hunq
    simp only [SSet.delete_head]
    have hok : ∀ x ∈ rest, x.ok' := fun x hx => h.unq_ok x (by rw [hunq]; exact List.mem_cons_of_mem _ hx)
    have hsorted : SortedU c rest := by
      have := h.unq_sorted
      rw [hunq] at this
      exact (List.pairwise_cons.mp this).2
    split
    · rename_i hq
      have hq' : a.addr.strKey ∈ s.queried := by simpa using hq
      refine h.grow rfl rfl ⟨fun k hk => hk, ?_⟩ hok hsorted
      intro x hx
      rw [hunq] at hx
      rcases List.mem_cons.mp hx with rfl | hx
      · exact Or.inl hq'
      · exact Or.inr hx
    · refine h.launch a.addr rfl rfl ⟨?_, ?_⟩ hok hsorted
      · intro k hk
        show k ∈ s.queried ++ [a.addr.strKey]
        exact List.mem_append_left _ hk
      · intro x hx
        rw [hunq] at hx
        rcases List.mem_cons.mp hx with rfl | hx
        · left
          show x.addr.strKey ∈ s.queried ++ [x.addr.strKey]
          simp
        · exact Or.inr hx

theorem Trav.HInv.startLoop {c : TravCfg} {net : List NetNode} {hist : List KElem} (fuel : Nat)
    {s : Trav} (h : Trav.HInv c net hist s) : Trav.HInv c net hist (Trav.startLoop c fuel s) := by
  induction fuel generalizing s with
  | zero => exact h
  | succ fuel ih =>
    unfold Trav.startLoop
    split
    · exact ih h.startQuery
    · exact h

/-- States that differ only outside the frontier, the queried set, the start log and the goroutines. -/
theorem Trav.HInv.congr {c : TravCfg} {net : List NetNode} {hist : List KElem} {s s' : Trav}
    (h : Trav.HInv c net hist s)
    (hu : s'.unq = s.unq) (hq : s'.queried = s.queried) (hst : s'.started = s.started)
    (hinf : s'.inflight = s.inflight) : Trav.HInv c net hist s' :=
  h.grow hinf hst (Trav.Grow.of_eq hu hq) (by rw [hu]; exact h.unq_ok) (by rw [hu]; exact h.unq_sorted)

theorem Trav.HInv.runEval {c : TravCfg} {net : List NetNode} {hist : List KElem} {s : Trav}
    (h : Trav.HInv c net hist s) : Trav.HInv c net hist (s.runEval c) := by
  unfold Trav.runEval
  split
  · split
    · exact h.congr rfl rfl rfl rfl
    · have h' := h.startLoop (c := c) (s.unq.length + 1)
      simp only
      split <;> exact h'.congr rfl rfl rfl rfl
  · exact h

end Dht
