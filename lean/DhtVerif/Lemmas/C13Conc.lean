/- Helper lemmas for C13: the micro-step model under the wrapper lock. -/
import DhtVerif.Lemmas.B44
namespace Dht.B44

theorem setThread_same (f : Nat → TState) (i : Nat) (x : TState) : setThread f i x i = x := by
  simp [setThread]

theorem setThread_other (f : Nat → TState) (i j : Nat) (x : TState) (h : j ≠ i) : setThread f i x j = f j := by
  simp [setThread, h]

theorem replay_append (P : Params) (exp : Nat) (s : Store) (l : List Commit) (c : Commit) :
    replay P exp s (l ++ [c]) = applyCommit P exp (replay P exp s l) c := by
  simp [replay, List.foldl_append]

/-- Between store calls a thread is either not started or finished. -/
def TState.idle : TState → Prop
  | .init _ => True
  | .done _ => True
  | _ => False

/-- How the store may change in one micro-step: per target the sequence number does not go
down, and an entry disappears only through the `Del` of a `Get` that saw it expired. -/
def ConcStep (exp : Nat) (y y' : Sys) : Prop :=
  ∀ t a, y.store t = some a →
    match y'.store t with
    | some b => a.item.seq ≤ b.item.seq
    | none => ∃ tid g, y.threads tid = .delReady t g ∧ a.created + exp ≤ g

/-- The invariant of the micro-step machine when Put/Get hold the lock. -/
structure LockInv (P : Params) (exp : Nat) (s0 : Store) (ops : List Op) (y : Sys) : Prop where
  store_eq : y.store = replay P exp s0 y.log
  checked  : ∀ j i, y.threads j = .init (.put i) → check P i = none
  init_ops : ∀ j op, y.threads j = .init op → ops[j]? = some op
  log_ops  : ∀ c, c ∈ y.log → ops[c.tid]? = some c.op
  log_done : ∀ c, c ∈ y.log → ∃ r, y.threads c.tid = .done r
  log_nodup : (y.log.map (·.tid)).Nodup
  done_logged : ∀ j r, y.threads j = .done r →
    (∃ c, c ∈ y.log ∧ c.tid = j) ∨ (Sys.init P s0 ops).threads j = .done r
  pending  : match y.lock with
    | none => ∀ j, (y.threads j).idle
    | some k => (∀ j, j ≠ k → (y.threads j).idle) ∧
        ((∃ it, y.threads k = .putReady it ∧ ops[k]? = some (.put it) ∧
            ∀ now, Wrapper.put P now y.store it = (y.store.set (target P it) ⟨it, now⟩, none)) ∨
         (∃ t g, y.threads k = .delReady t g ∧ ops[k]? = some (.get t) ∧
            Wrapper.get exp g y.store t = (y.store.del t, none)))

theorem LockInv.init (P : Params) (exp : Nat) (s0 : Store) (ops : List Op) :
    LockInv P exp s0 ops (Sys.init P s0 ops) := by
  have hstart : ∀ j op, (Sys.init P s0 ops).threads j = .init op → ops[j]? = some op ∧ (∀ i, op = .put i → check P i = none) := by
    intro j op h
    simp only [Sys.init] at h
    cases hj : ops[j]? with
    | none => rw [hj] at h; cases h
    | some o =>
      rw [hj] at h
      cases o with
      | put i =>
        simp only [TState.start] at h
        cases hc : check P i with
        | some e => rw [hc] at h; cases h
        | none => rw [hc] at h; cases h; exact ⟨rfl, fun i' hi' => by cases hi'; exact hc⟩
      | get t => simp only [TState.start] at h; cases h; exact ⟨rfl, fun i' hi' => by cases hi'⟩
  refine ⟨rfl, ?_, ?_, ?_, ?_, ?_, ?_, ?_⟩
  · intro j i h; exact (hstart j _ h).2 i rfl
  · intro j op h; exact (hstart j op h).1
  · intro c hc; cases hc
  · intro c hc; cases hc
  · exact List.nodup_nil
  · intro j r h; exact Or.inr h
  · show ∀ j, ((Sys.init P s0 ops).threads j).idle
    intro j
    simp only [Sys.init]
    cases ops[j]? with
    | none => trivial
    | some o =>
      cases o with
      | put i => simp only [TState.start]; cases check P i <;> trivial
      | get t => trivial

/-- A thread that is not idle holds the lock. -/
theorem LockInv.holder (P : Params) (exp : Nat) (s0 : Store) (ops : List Op) (y : Sys)
    (h : LockInv P exp s0 ops y) (tid : Nat) (hn : ¬ (y.threads tid).idle) : y.lock = some tid := by
  have hp := h.pending
  cases hl : y.lock with
  | none => rw [hl] at hp; exact absurd (hp tid) hn
  | some k =>
    rw [hl] at hp
    by_cases hk : tid = k
    · rw [hk]
    · exact absurd (hp.1 tid hk) hn

end Dht.B44

namespace Dht.B44

/-- A thread's operation takes effect (its last store call, or its only one). -/
theorem LockInv.commit (P : Params) (exp : Nat) (s0 : Store) (ops : List Op) (y y' : Sys)
    (h : LockInv P exp s0 ops y) (tid : Nat) (c : Commit) (r : Res)
    (hothers : ∀ j, j ≠ tid → (y.threads j).idle) (hnd : ∀ r, y.threads tid ≠ .done r)
    (hct : c.tid = tid) (hop : ops[tid]? = some c.op)
    (hstore : y'.store = applyCommit P exp y.store c)
    (hthreads : y'.threads = setThread y.threads tid (.done r))
    (hlock : y'.lock = none) (hlog : y'.log = y.log ++ [c]) : LockInv P exp s0 ops y' := by
  have hother : ∀ j, j ≠ tid → y'.threads j = y.threads j := fun j hj => by rw [hthreads, setThread_other _ _ _ _ hj]
  have hself : y'.threads tid = .done r := by rw [hthreads, setThread_same]
  have hnotin : ∀ c', c' ∈ y.log → c'.tid ≠ tid := by
    intro c' hc' he
    obtain ⟨r', hr'⟩ := h.log_done c' hc'
    rw [he] at hr'; exact hnd r' hr'
  refine ⟨?_, ?_, ?_, ?_, ?_, ?_, ?_, ?_⟩
  · rw [hstore, hlog, replay_append, ← h.store_eq]
  · intro j i hj
    by_cases hjt : j = tid
    · rw [hjt, hself] at hj; cases hj
    · rw [hother j hjt] at hj; exact h.checked j i hj
  · intro j op hj
    by_cases hjt : j = tid
    · rw [hjt, hself] at hj; cases hj
    · rw [hother j hjt] at hj; exact h.init_ops j op hj
  · intro c' hc'
    rw [hlog, List.mem_append] at hc'
    rcases hc' with hc' | hc'
    · exact h.log_ops c' hc'
    · simp at hc'; rw [hc', hct]; exact hop
  · intro c' hc'
    rw [hlog, List.mem_append] at hc'
    rcases hc' with hc' | hc'
    · obtain ⟨r', hr'⟩ := h.log_done c' hc'
      exact ⟨r', by rw [hother _ (hnotin c' hc')]; exact hr'⟩
    · simp at hc'; rw [hc', hct]; exact ⟨r, hself⟩
  · rw [hlog, List.map_append, List.nodup_append]
    refine ⟨h.log_nodup, by simp, ?_⟩
    intro a ha b hb
    simp at hb
    obtain ⟨c', hc', hca⟩ := List.mem_map.mp ha
    intro he
    exact hnotin c' hc' (by rw [hca, he, hb, hct])
  · intro j r' hj
    by_cases hjt : j = tid
    · exact Or.inl ⟨c, by rw [hlog]; simp, by rw [hct, hjt]⟩
    · rw [hother j hjt] at hj
      rcases h.done_logged j r' hj with ⟨c', hc', hcj⟩ | hi
      · exact Or.inl ⟨c', by rw [hlog]; exact List.mem_append_left _ hc', hcj⟩
      · exact Or.inr hi
  · rw [hlock]
    show ∀ j, (y'.threads j).idle
    intro j
    by_cases hjt : j = tid
    · rw [hjt, hself]; trivial
    · rw [hother j hjt]; exact hothers j hjt

/-- A thread makes its first store call and keeps the lock. -/
theorem LockInv.acquire (P : Params) (exp : Nat) (s0 : Store) (ops : List Op) (y y' : Sys)
    (h : LockInv P exp s0 ops y) (tid : Nat) (op : Op) (mid : TState)
    (hl : y.lock = none) (hth : y.threads tid = .init op)
    (hstore : y'.store = y.store) (hlog : y'.log = y.log)
    (hthreads : y'.threads = setThread y.threads tid mid) (hlock : y'.lock = some tid)
    (hmid : (∃ it, mid = .putReady it ∧ ops[tid]? = some (.put it) ∧
              ∀ now, Wrapper.put P now y.store it = (y.store.set (target P it) ⟨it, now⟩, none)) ∨
            (∃ t g, mid = .delReady t g ∧ ops[tid]? = some (.get t) ∧
              Wrapper.get exp g y.store t = (y.store.del t, none))) : LockInv P exp s0 ops y' := by
  have hother : ∀ j, j ≠ tid → y'.threads j = y.threads j := fun j hj => by rw [hthreads, setThread_other _ _ _ _ hj]
  have hself : y'.threads tid = mid := by rw [hthreads, setThread_same]
  have hidle : ∀ j, (y.threads j).idle := by have := h.pending; rw [hl] at this; exact this
  have hmid_ni : ∀ o, mid ≠ .init o := by
    intro o he
    rcases hmid with ⟨it, hm, _⟩ | ⟨t, g, hm, _⟩ <;> rw [hm] at he <;> cases he
  have hmid_nd : ∀ r, mid ≠ .done r := by
    intro o he
    rcases hmid with ⟨it, hm, _⟩ | ⟨t, g, hm, _⟩ <;> rw [hm] at he <;> cases he
  refine ⟨?_, ?_, ?_, ?_, ?_, ?_, ?_, ?_⟩
  · rw [hstore, hlog]; exact h.store_eq
  · intro j i hj
    by_cases hjt : j = tid
    · rw [hjt, hself] at hj; exact absurd hj (hmid_ni _)
    · rw [hother j hjt] at hj; exact h.checked j i hj
  · intro j o hj
    by_cases hjt : j = tid
    · rw [hjt, hself] at hj; exact absurd hj (hmid_ni _)
    · rw [hother j hjt] at hj; exact h.init_ops j o hj
  · intro c hc; rw [hlog] at hc; exact h.log_ops c hc
  · intro c hc
    rw [hlog] at hc
    obtain ⟨r, hr⟩ := h.log_done c hc
    have : c.tid ≠ tid := by intro he; rw [he, hth] at hr; cases hr
    exact ⟨r, by rw [hother _ this]; exact hr⟩
  · rw [hlog]; exact h.log_nodup
  · intro j r' hj
    by_cases hjt : j = tid
    · rw [hjt, hself] at hj; exact absurd hj (hmid_nd _)
    · rw [hother j hjt] at hj; rw [hlog]; exact h.done_logged j r' hj
  · rw [hlock]
    refine ⟨fun j hj => by rw [hother j hj]; exact hidle j, ?_⟩
    rw [hself, hstore]
    exact hmid

/-- The invariant is preserved by every enabled micro-step when the lock is held. -/
theorem LockInv.step (P : Params) (exp : Nat) (s0 : Store) (ops : List Op) (y y' : Sys)
    (h : LockInv P exp s0 ops y) (tid now : Nat) (hs : y.step P exp true tid now = some y') :
    LockInv P exp s0 ops y' := by
  unfold Sys.step at hs
  cases hth : y.threads tid with
  | done r => rw [hth] at hs; cases hs
  | init op =>
    rw [hth] at hs
    have hop := h.init_ops tid op hth
    cases op with
    | put i =>
      simp only [Bool.true_and] at hs
      cases hl : y.lock with
      | some k => rw [hl] at hs; simp at hs
      | none =>
        rw [hl] at hs
        simp only [Option.isSome_none, Bool.false_eq_true, if_false, if_true] at hs
        have hidle : ∀ j, (y.threads j).idle := by have := h.pending; rw [hl] at this; exact this
        have hck := h.checked tid i hth
        cases hst : y.store (target P i) with
        | none =>
          rw [hst] at hs; simp only [] at hs; cases hs
          refine h.acquire P exp s0 ops y _ tid _ (.putReady i) hl hth rfl rfl rfl rfl (Or.inl ⟨i, rfl, hop, ?_⟩)
          intro now'; unfold Wrapper.put; rw [hck]; simp only []; rw [hst]
        | some st =>
          rw [hst] at hs; simp only [] at hs
          cases hci : checkIncomingWith P.casSpec st.item i with
          | some e =>
            rw [hci] at hs; simp only [] at hs; cases hs
            refine h.commit P exp s0 ops y _ tid ⟨tid, .put i, now⟩ (.err e) (fun j _ => hidle j)
              (fun r hr => by rw [hth] at hr; cases hr) rfl hop ?_ rfl (by simp) rfl
            show y.store = (Wrapper.put P now y.store i).1
            unfold Wrapper.put; rw [hck]; simp only []; rw [hst]; simp only []; rw [hci]
          | none =>
            rw [hci] at hs; simp only [] at hs; cases hs
            refine h.acquire P exp s0 ops y _ tid _ (.putReady i) hl hth rfl rfl rfl rfl (Or.inl ⟨i, rfl, hop, ?_⟩)
            intro now'; unfold Wrapper.put; rw [hck]; simp only []; rw [hst]; simp only []; rw [hci]
    | get t =>
      simp only [Bool.true_and] at hs
      cases hl : y.lock with
      | some k => rw [hl] at hs; simp at hs
      | none =>
        rw [hl] at hs
        simp only [Option.isSome_none, Bool.false_eq_true, if_false, if_true] at hs
        have hidle : ∀ j, (y.threads j).idle := by have := h.pending; rw [hl] at this; exact this
        cases hst : y.store t with
        | none =>
          rw [hst] at hs; simp only [] at hs; cases hs
          refine h.commit P exp s0 ops y _ tid ⟨tid, .get t, now⟩ .notFound (fun j _ => hidle j)
            (fun r hr => by rw [hth] at hr; cases hr) rfl hop ?_ rfl (by simp) rfl
          show y.store = (Wrapper.get exp now y.store t).1
          rw [Wrapper.get_none _ _ _ _ hst]
        | some e =>
          rw [hst] at hs; simp only [] at hs
          by_cases hf : e.fresh exp now = true
          · rw [if_pos hf] at hs; cases hs
            refine h.commit P exp s0 ops y _ tid ⟨tid, .get t, now⟩ (.item e.item) (fun j _ => hidle j)
              (fun r hr => by rw [hth] at hr; cases hr) rfl hop ?_ rfl (by simp) rfl
            show y.store = (Wrapper.get exp now y.store t).1
            unfold Wrapper.get; rw [hst]; simp only []; rw [if_pos hf]
          · rw [if_neg hf] at hs; cases hs
            refine h.acquire P exp s0 ops y _ tid _ (.delReady t now) hl hth rfl rfl rfl rfl (Or.inr ⟨t, now, rfl, hop, ?_⟩)
            unfold Wrapper.get; rw [hst]; simp only []; rw [if_neg hf]
  | putReady i =>
    rw [hth] at hs; simp only [] at hs; cases hs
    have hlk := h.holder P exp s0 ops y tid (by rw [hth]; exact fun x => x)
    have hp := h.pending
    rw [hlk] at hp
    obtain ⟨hothers, hmid⟩ := hp
    rcases hmid with ⟨it, hit, hop, hput⟩ | ⟨t, g, hit, _, _⟩
    · rw [hth] at hit; cases hit
      refine h.commit P exp s0 ops y _ tid ⟨tid, .put i, now⟩ .ok hothers
        (fun r hr => by rw [hth] at hr; cases hr) rfl hop ?_ rfl rfl rfl
      show y.store.set (target P i) ⟨i, now⟩ = (Wrapper.put P now y.store i).1
      rw [hput now]
    · rw [hth] at hit; cases hit
  | delReady t g =>
    rw [hth] at hs; simp only [] at hs; cases hs
    have hlk := h.holder P exp s0 ops y tid (by rw [hth]; exact fun x => x)
    have hp := h.pending
    rw [hlk] at hp
    obtain ⟨hothers, hmid⟩ := hp
    rcases hmid with ⟨it, hit, _, _⟩ | ⟨t', g', hit, hop, hget⟩
    · rw [hth] at hit; cases hit
    · rw [hth] at hit; cases hit
      refine h.commit P exp s0 ops y _ tid ⟨tid, .get t, g⟩ .notFound hothers
        (fun r hr => by rw [hth] at hr; cases hr) rfl hop ?_ rfl rfl rfl
      show y.store.del t = (Wrapper.get exp g y.store t).1
      rw [hget]

theorem LockInv.run (P : Params) (exp : Nat) (s0 : Store) (ops : List Op) (sched : List (Nat × Nat)) (y y' : Sys)
    (h : LockInv P exp s0 ops y) (hr : Sys.run P exp true y sched = some y') : LockInv P exp s0 ops y' := by
  induction sched generalizing y with
  | nil => simp [Sys.run] at hr; rw [← hr]; exact h
  | cons st rest ih =>
    obtain ⟨tid, now⟩ := st
    simp only [Sys.run] at hr
    cases hs : y.step P exp true tid now with
    | none => rw [hs] at hr; cases hr
    | some y1 => rw [hs] at hr; exact ih y1 (h.step P exp s0 ops y y1 tid now hs) hr

/-- Under the invariant every enabled micro-step is monotone per target. -/
theorem LockInv.concStep (P : Params) (exp : Nat) (s0 : Store) (ops : List Op) (y y' : Sys)
    (h : LockInv P exp s0 ops y) (tid now : Nat) (hs : y.step P exp true tid now = some y') :
    ConcStep exp y y' := by
  have same : y'.store = y.store → ConcStep exp y y' := by
    intro he t a ha; rw [he, ha]; exact Int.le_refl _
  unfold Sys.step at hs
  cases hth : y.threads tid with
  | done r => rw [hth] at hs; cases hs
  | init op =>
    rw [hth] at hs
    cases op with
    | put i =>
      simp only [Bool.true_and] at hs
      split at hs
      · cases hs
      · split at hs
        · cases hs; exact same rfl
        · split at hs <;> (cases hs; exact same rfl)
    | get t =>
      simp only [Bool.true_and] at hs
      split at hs
      · cases hs
      · split at hs
        · cases hs; exact same rfl
        · split at hs <;> (cases hs; exact same rfl)
  | putReady i =>
    rw [hth] at hs; simp only [] at hs; cases hs
    have hlk := h.holder P exp s0 ops y tid (by rw [hth]; exact fun x => x)
    have hp := h.pending
    rw [hlk] at hp
    rcases hp.2 with ⟨it, hit, _, hput⟩ | ⟨t, g, hit, _, _⟩
    · rw [hth] at hit; cases hit
      intro t a ha
      have := Wrapper.put_seqStep P exp now y.store i t a ha
      rw [hput now] at this
      simp only [] at this ⊢
      by_cases ht : t = target P i
      · subst ht; rw [Store.set_same] at this ⊢; exact this
      · rw [Store.set_other _ _ _ _ ht, ha]; exact Int.le_refl _
    · rw [hth] at hit; cases hit
  | delReady t g =>
    rw [hth] at hs; simp only [] at hs; cases hs
    have hlk := h.holder P exp s0 ops y tid (by rw [hth]; exact fun x => x)
    have hp := h.pending
    rw [hlk] at hp
    rcases hp.2 with ⟨it, hit, _, _⟩ | ⟨t', g', hit, _, hget⟩
    · rw [hth] at hit; cases hit
    · rw [hth] at hit; cases hit
      intro t1 a ha
      simp only []
      by_cases ht : t1 = t
      · subst ht
        rw [Store.del_same]
        refine ⟨tid, g, hth, ?_⟩
        rcases Wrapper.get_some exp g y.store t1 a ha with ⟨_, hg⟩ | ⟨hx, _⟩
        · rw [hg] at hget; exact absurd (congrArg Prod.snd hget) (by simp)
        · exact hx
      · rw [Store.del_other _ _ _ ht, ha]; exact Int.le_refl _

end Dht.B44
