/- Helper lemmas for C13. -/
import DhtVerif.Lemmas.B44
namespace Dht.B44

theorem run_without_get (P : Params) (exp : Nat) (t : Target) (evs : List Ev) (s : St)
    (hnoget : ∀ a, Ev.get t a ∉ evs) (a : Entry) (ha : s.store t = some a) :
    ∃ b, (s.run P exp evs).store t = some b ∧ a.item.seq ≤ b.item.seq := by
  induction evs generalizing s a with
  | nil => exact ⟨a, ha, Int.le_refl _⟩
  | cons ev rest ih =>
    rw [St.run_cons]
    have hstep := St.step_seqStep P exp s ev t a ha
    have hsome : ∃ c, (s.step P exp ev).store t = some c := by
      cases ev with
      | put i =>
        simp only [St.step]
        rcases Wrapper.put_cases P s.now s.store i with ⟨e, _, h'⟩ | ⟨st, e, _, _, _, h'⟩ | ⟨_, _, h'⟩
        · rw [h']; exact ⟨a, ha⟩
        · rw [h']; exact ⟨a, ha⟩
        · rw [h']
          by_cases ht : t = target P i
          · subst ht; exact ⟨_, Store.set_same ..⟩
          · exact ⟨a, by simp only []; rw [Store.set_other _ _ _ _ ht, ha]⟩
      | get t0 q =>
        have hne : t ≠ t0 := by
          intro h; subst h; exact hnoget q (by simp)
        simp only [St.step]; rw [handleGet_store]
        cases hs : s.store t0 with
        | none => rw [Wrapper.get_none _ _ _ _ hs]; exact ⟨a, ha⟩
        | some e =>
          rcases Wrapper.get_some exp s.now s.store t0 e hs with ⟨_, h⟩ | ⟨_, h⟩
          · rw [h]; exact ⟨a, ha⟩
          · rw [h]; exact ⟨a, by simp only []; rw [Store.del_other _ _ _ hne, ha]⟩
      | advance d => exact ⟨a, ha⟩
    obtain ⟨c, hc⟩ := hsome
    rw [hc] at hstep
    obtain ⟨b, hb, hle⟩ := ih (s.step P exp ev) (fun q hq => hnoget q (List.mem_cons_of_mem _ hq)) c hc
    exact ⟨b, hb, Int.le_trans hstep hle⟩

theorem run_keeps_entry (P : Params) (exp : Nat) (s : St) (i : Item) (created : Nat) (evs : List Ev)
    (hs : s.store (target P i) = some ⟨i, created⟩)
    (hnoput : ∀ j, Ev.put j ∈ evs → target P j ≠ target P i)
    (hf : (s.run P exp evs).now < created + exp) :
    (s.run P exp evs).store (target P i) = some ⟨i, created⟩ ∧
    Wrapper.get exp (s.run P exp evs).now (s.run P exp evs).store (target P i) = ((s.run P exp evs).store, some i) := by
  have key : (s.run P exp evs).store (target P i) = some ⟨i, created⟩ := by
    induction evs generalizing s with
    | nil => exact hs
    | cons ev rest ih =>
      rw [St.run_cons] at hf ⊢
      have hnow : (s.step P exp ev).now < created + exp :=
        Nat.lt_of_le_of_lt (St.run_now_le P exp _ rest) hf
      apply ih (s.step P exp ev) _ (fun j hj => hnoput j (List.mem_cons_of_mem _ hj)) hf
      cases ev with
      | put j =>
        have hne : target P i ≠ target P j := fun h => hnoput j (by simp) h.symm
        simp only [St.step]
        rcases Wrapper.put_cases P s.now s.store j with ⟨e, _, h'⟩ | ⟨st, e, _, _, _, h'⟩ | ⟨_, _, h'⟩
        · rw [h']; exact hs
        · rw [h']; exact hs
        · rw [h']; simp only []; rw [Store.set_other _ _ _ _ hne]; exact hs
      | get t0 q =>
        simp only [St.step] at hnow ⊢
        rw [handleGet_store]
        cases hs0 : s.store t0 with
        | none => rw [Wrapper.get_none _ _ _ _ hs0]; exact hs
        | some e =>
          rcases Wrapper.get_some exp s.now s.store t0 e hs0 with ⟨_, h⟩ | ⟨hx, h⟩
          · rw [h]; exact hs
          · rw [h]; simp only []
            by_cases ht : target P i = t0
            · subst ht; rw [hs] at hs0; cases hs0; simp at hx; omega
            · rw [Store.del_other _ _ _ ht]; exact hs
      | advance d => exact hs
  refine ⟨key, ?_⟩
  rcases Wrapper.get_some exp _ _ _ _ key with ⟨_, hg⟩ | ⟨hx, _⟩
  · exact hg
  · simp at hx; omega

theorem handleGet_served_fresh (exp now : Nat) (s : Store) (t : Target) (a : Option Int) :
    (∀ i, (handleGet exp now s t a).2 = .full i → ∃ e, s t = some e ∧ e.item = i ∧ now < e.created + exp) ∧
    (∀ q, (handleGet exp now s t a).2 = .seqOnly q → ∃ e, s t = some e ∧ e.item.seq = q ∧ now < e.created + exp) := by
  cases hs : s t with
  | none =>
    have : handleGet exp now s t a = (s, .notFound) := by
      unfold handleGet; rw [Wrapper.get_none _ _ _ _ hs]
    rw [this]; constructor <;> intro _ h <;> cases h
  | some e =>
    rcases Wrapper.get_some exp now s t e hs with ⟨hf, hg⟩ | ⟨_, hg⟩
    · unfold handleGet; rw [hg]
      cases a with
      | none =>
        constructor
        · intro i h; simp only [] at h; cases h; exact ⟨e, rfl, rfl, hf⟩
        · intro q h; simp only [] at h; cases h
      | some a =>
        simp only []
        by_cases hle : e.item.seq ≤ a
        · simp only [hle, if_true]
          constructor
          · intro i h; cases h
          · intro q h; cases h; exact ⟨e, rfl, rfl, hf⟩
        · simp only [hle, if_false]
          constructor
          · intro i h; cases h; exact ⟨e, rfl, rfl, hf⟩
          · intro q h; cases h
    · have : handleGet exp now s t a = (s.del t, .notFound) := by unfold handleGet; rw [hg]
      rw [this]; constructor <;> intro _ h <;> cases h

end Dht.B44
