/- Helper lemmas for C01. -/
import DhtVerif.Model.Server
import DhtVerif.Lemmas.C11
namespace Dht

/-- Index of the first occurrence of an event name in an extracted event list. -/
def idxOf' (l : List String) (x : String) : Nat := l.findIdx (· == x)

/-! ### Bridge between the server step and the table step (`TblState.step`) -/

/-- The table event an accepted, decoded message amounts to: a query updates the
table with the sender ID of its args dict, anything else (if it matches a
pending transaction) with `r.id` when it is a response. -/
def tblEvOf (src : NAddr) (m : QMsg) (ch : Option Node) : TblEv :=
  if m.y == str "q" then .recvQuery src (m.a.map (·.id)) m.ro ch
  else .recvResponse src (respId m) m.ro ch

theorem step_recvQuery (c : TableCfg) (ts : TblState) (src : NAddr) (id : Option Id) (ro : Bool) (ch : Option Node) :
    ts.step c (.recvQuery src id ro ch) =
      (updateNode c ts.now ts.table src id (!ro) (onQuery ts.now) ch).map
        (fun r => ({ ts with table := r.1 }, r.2)) := rfl

theorem step_recvResponse (c : TableCfg) (ts : TblState) (src : NAddr) (id : Option Id) (ro : Bool) (ch : Option Node) :
    ts.step c (.recvResponse src id ro ch) =
      (updateNode c ts.now ts.table src id (!ro) (onResponse ts.now) ch).map
        (fun r => ({ ts with table := r.1 }, r.2)) := rfl

/-- Bridge 1: the table part of `handleQuery` is the `recvQuery` table step. -/
theorem handleQuery_step (c : SrvCfg) (mk : TokenFn) (s s' : Srv) (src : NAddr) (m : QMsg) (env : Env)
    (outs : List Out) (effs : List Effect) (h : handleQuery c mk s src m env = some (s', outs, effs)) :
    ∃ out, s.ts.step c.tbl (.recvQuery src (m.a.map (·.id)) m.ro env.choice) = some (s'.ts, out) := by
  obtain ⟨tbl', out, hup, h2 | h2⟩ := handleQuery_some c mk s s' src m env outs effs h
  · obtain ⟨_, rfl, _, _⟩ := h2
    exact ⟨out, by rw [step_recvQuery, hup]; rfl⟩
  · obtain ⟨_, _, _, _, rfl⟩ := h2
    exact ⟨out, by rw [step_recvQuery, hup, applyEffects_ts]; rfl⟩

/-- `handleQuery` is defined exactly when the table step is (the handlers themselves are total). -/
theorem handleQuery_isSome (c : SrvCfg) (mk : TokenFn) (s : Srv) (src : NAddr) (m : QMsg) (env : Env) :
    (handleQuery c mk s src m env).isSome =
      (s.ts.step c.tbl (.recvQuery src (m.a.map (·.id)) m.ro env.choice)).isSome := by
  rw [step_recvQuery]
  unfold handleQuery
  cases updateNode c.tbl s.ts.now s.ts.table src (m.a.map (·.id)) (!m.ro) (onQuery s.ts.now) env.choice with
  | none => rfl
  | some r =>
    dsimp only
    split
    · rfl
    · split <;> rfl

theorem tblEvOf_q (src : NAddr) (m : QMsg) (ch : Option Node) (h : m.y = str "q") :
    tblEvOf src m ch = .recvQuery src (m.a.map (·.id)) m.ro ch := by
  simp [tblEvOf, h]

theorem tblEvOf_nq (src : NAddr) (m : QMsg) (ch : Option Node) (h : m.y ≠ str "q") :
    tblEvOf src m ch = .recvResponse src (respId m) m.ro ch := by
  simp [tblEvOf, h]

/-- Bridge 2: `processMsg` either leaves the table state alone or performs the
table step of `tblEvOf`. -/
theorem processMsg_step (c : SrvCfg) (mk : TokenFn) (s s' : Srv) (src : NAddr) (m : QMsg) (env : Env)
    (outs : List Out) (effs : List Effect) (h : processMsg c mk s src m env = some (s', outs, effs)) :
    s'.ts = s.ts ∨ ∃ out, s.ts.step c.tbl (tblEvOf src m env.choice) = some (s'.ts, out) := by
  rcases processMsg_some c mk s s' src m env outs effs h with h1 | h1 | h1
  · obtain ⟨_, rfl, _, _⟩ := h1; exact Or.inl rfl
  · obtain ⟨_, hy, hq⟩ := h1
    rw [tblEvOf_q src m _ hy]
    exact Or.inr (handleQuery_step c mk s s' src m env outs effs hq)
  · obtain ⟨_, hy, h2 | h2⟩ := h1
    · obtain ⟨rfl, _, _⟩ := h2; exact Or.inl rfl
    · obtain ⟨q, tbl', out, txns', hup, rfl, _, _⟩ := h2
      rw [tblEvOf_nq src m _ hy]
      exact Or.inr ⟨out, by rw [step_recvResponse, hup]; rfl⟩

/-- `processMsg` is defined whenever the table step of `tblEvOf` is. -/
theorem processMsg_isSome (c : SrvCfg) (mk : TokenFn) (s : Srv) (src : NAddr) (m : QMsg) (env : Env)
    (h : (s.ts.step c.tbl (tblEvOf src m env.choice)).isSome = true) :
    (processMsg c mk s src m env).isSome = true := by
  unfold processMsg
  split
  · rfl
  · split
    · rename_i hy
      have hy' : m.y = str "q" := by simpa using hy
      rw [tblEvOf_q src m _ hy'] at h
      rw [handleQuery_isSome]; exact h
    · rename_i hy
      have hy' : m.y ≠ str "q" := by simpa using hy
      rw [tblEvOf_nq src m _ hy', step_recvResponse] at h
      dsimp only
      split
      · rfl
      · unfold respId at h
        cases hup : updateNode c.tbl s.ts.now s.ts.table src (if m.y == str "r" then m.rid else none) (!m.ro)
            (onResponse s.ts.now) env.choice with
        | none => rw [hup] at h; simp at h
        | some r => rfl

/-- No step changes `closed`. -/
theorem processMsg_closed (c : SrvCfg) (mk : TokenFn) (s s' : Srv) (src : NAddr) (m : QMsg) (env : Env)
    (outs : List Out) (effs : List Effect) (h : processMsg c mk s src m env = some (s', outs, effs)) :
    s'.closed = s.closed := by
  rcases processMsg_some c mk s s' src m env outs effs h with h1 | h1 | h1
  · obtain ⟨_, rfl, _, _⟩ := h1; rfl
  · obtain ⟨_, _, hq⟩ := h1
    obtain ⟨tbl', out, _, h2 | h2⟩ := handleQuery_some c mk s s' src m env outs effs hq
    · obtain ⟨_, rfl, _, _⟩ := h2; rfl
    · obtain ⟨_, _, _, _, rfl⟩ := h2
      rw [applyEffects_closed]; rfl
  · obtain ⟨_, _, h2 | h2⟩ := h1
    · obtain ⟨rfl, _, _⟩ := h2; rfl
    · obtain ⟨q, tbl', out, txns', _, rfl, _, _⟩ := h2; rfl

/-- What `serveDatagram` does: drop, or `processMsg` on a decoded message. -/
theorem serveDatagram_some (c : SrvCfg) (mk : TokenFn) (s s' : Srv) (src : NAddr) (size : Nat) (d : Decoded)
    (env : Env) (outs : List Out) (effs : List Effect)
    (h : serveDatagram c mk s src size d env = some (s', outs, effs)) :
    (s' = s ∧ outs = [] ∧ effs = []) ∨
    ∃ m, d = .msg m ∧ processMsg c mk s src m env = some (s', outs, effs) := by
  unfold serveDatagram at h
  have drop : some (s, ([] : List Out), ([] : List Effect)) = some (s', outs, effs) →
      (s' = s ∧ outs = [] ∧ effs = []) := by
    intro h
    simp only [Option.some.injEq, Prod.mk.injEq] at h
    exact ⟨h.1.symm, h.2.1.symm, h.2.2.symm⟩
  split at h
  · exact Or.inl (drop h)
  split at h
  · exact Or.inl (drop h)
  split at h
  · exact Or.inl (drop h)
  split at h
  · exact Or.inl (drop h)
  split at h
  · exact Or.inl (drop h)
  · exact Or.inl (drop h)
  · exact Or.inr ⟨_, rfl, h⟩

/-- `serveDatagram` is defined whenever `processMsg` is on the decoded message. -/
theorem serveDatagram_isSome (c : SrvCfg) (mk : TokenFn) (s : Srv) (src : NAddr) (size : Nat) (d : Decoded)
    (env : Env) (h : ∀ m, d = .msg m → (processMsg c mk s src m env).isSome = true) :
    (serveDatagram c mk s src size d env).isSome = true := by
  unfold serveDatagram
  split
  · rfl
  split
  · rfl
  split
  · rfl
  split
  · rfl
  cases d with
  | notDict => rfl
  | undecodable => rfl
  | msg m => exact h m rfl

/-- A ping is answered with one reply as soon as the table update is defined. -/
theorem handleQuery_ping (c : SrvCfg) (mk : TokenFn) (s : Srv) (src : NAddr) (m : QMsg) (env : Env)
    (tbl' : Table) (out : AddOutcome) (hq : m.q = str "ping") (hpass : c.passive = false)
    (hhook : c.hasHook = false ∨ env.hookPropagate = true)
    (hup : updateNode c.tbl s.ts.now s.ts.table src (m.a.map (·.id)) (!m.ro) (onQuery s.ts.now) env.choice
      = some (tbl', out)) :
    handleQuery c mk s src m env = some (s.withTable tbl', [mkReply c src m.t {}], []) := by
  unfold handleQuery
  rw [hup]
  have hh : (c.hasHook && !env.hookPropagate) = false := by rcases hhook with h | h <;> simp [h]
  simp only [hh, hpass, Bool.false_eq_true, if_false]
  rw [show ({ s with ts := { s.ts with table := tbl' } } : Srv) = s.withTable tbl' from rfl,
    dispatch_ping c mk _ src m env hq]
  rfl

end Dht
