/- C20, cancellations under the discipline of /repo/ratelimit_serial.go: definitions (`RHist`,
`CHist.runRepo`) and helper lemmas for `Props/C20CancelRepo.lean`. -/
import DhtVerif.Model.RateCancel
import DhtVerif.Lemmas.C20Cancel
namespace Dht

/-! ## The discipline of `limiterWait`

`limiterWait` remembers the value of the counter `sendLimiterGiveBacks` at the moment it reserves;
its `cancel` closure calls `r.CancelAt(time.Now())` only if the counter still has that value, i.e.
if `limiterGiveBack` was not called (successfully or not) since the reservation was made. Otherwise
the reservation is left alone: its token is neither used for a datagram nor handed back.

`CHist.pending` lists the reservations in the order they were made (`reserve` appends, `use` and
`cancel` erase), so the reservations made before the most recent `giveBack` event are a prefix of
it; `RHist.old` is the length of that prefix. -/

/-- The `i`-th pending reservation is abandoned without `CancelAt` being called. -/
def CHist.lapse (s : CHist) (i : Nat) : CHist :=
  match s.pending[i]? with
  | some _ => { s with pending := s.pending.eraseIdx i, cancelled := s.cancelled + 1 }
  | none => s

/-- A history run under the discipline of the repo: `old` pending reservations (the first `old`
entries of `s.pending`) were made before the most recent `giveBack` event. -/
structure RHist where
  s : CHist
  old : Nat := 0
  deriving DecidableEq, Repr

namespace RHist

def init (p q burst t0 : Nat) : RHist := { s := CHist.init p q burst t0 }

/-- One event. `cancel i` is EFFECTIVE (calls `CancelAt`, i.e. is `CHist.step`) only when the
`i`-th pending reservation was made after the most recent `giveBack` event (`old ≤ i`); otherwise
the reservation lapses. Every other event is `CHist.step`. -/
def step (r : RHist) : CEv → RHist
  | .giveBack => { s := r.s.step .giveBack, old := r.s.pending.length }
  | .cancel i =>
    if r.old ≤ i then { s := r.s.step (.cancel i), old := r.old }
    else { s := r.s.lapse i, old := r.old - 1 }
  | .cancelStale i t =>
    if r.old ≤ i then { s := r.s.step (.cancelStale i t), old := r.old }
    else { s := r.s.lapse i, old := r.old - 1 }
  | .use i =>
    { s := r.s.step (.use i),
      old := if i < r.old ∧ (r.s.step (.use i)).pending.length < r.s.pending.length then r.old - 1 else r.old }
  | .adv dt => { s := r.s.step (.adv dt), old := r.old }
  | .allow => { s := r.s.step .allow, old := r.old }
  | .reserve => { s := r.s.step .reserve, old := r.old }

def run (r : RHist) (h : List CEv) : RHist := h.foldl step r

/-- What an event wastes, in units (cf. `CHist.wasteStep`): an effective cancellation gives up one
token of budget and hands back `credited`; a cancellation that is skipped gives up its token. -/
def wasteStep (r : RHist) : CEv → Int
  | .cancel i =>
    if r.old ≤ i then r.s.wasteStep (.cancel i)
    else match r.s.pending[i]? with
      | some _ => (r.s.c.b.unit : Int)
      | none => 0
  | _ => 0

/-- the running total of `wasteStep`, started at `W`, never falls below zero -/
def wasteOk (r : RHist) (W : Int) : List CEv → Bool
  | [] => true
  | e :: h => decide (0 ≤ W + r.wasteStep e) && wasteOk (r.step e) (W + r.wasteStep e) h

/-- an effective cancellation credits at most the token it reserved (cf. `CHist.creditOk`) -/
def creditOk (r : RHist) : CEv → Bool
  | .cancel i => decide (i < r.old) || r.s.creditOk (.cancel i)
  | _ => true

def runOk (r : RHist) : List CEv → Bool
  | [] => true
  | e :: h => r.creditOk e && runOk (r.step e) h

/-- The event cancels, among the reservations that may still be cancelled, only the one made most
recently (the last entry of `pending`). -/
def lifoEv (r : RHist) : CEv → Bool
  | .cancel i => decide (i < r.old) || decide (i + 1 = r.s.pending.length) || decide (r.s.pending.length ≤ i)
  | _ => true

/-- `lifoEv` at every event of the history: reservations are abandoned last-made-first. -/
def lifoOk (r : RHist) : List CEv → Bool
  | [] => true
  | e :: h => r.lifoEv e && lifoOk (r.step e) h

/-- The event cancels, among the reservations that may still be cancelled, only one that is still
waiting for its slot (`now < slot`: its holder sleeps in `limiterWait`) or the one made most
recently (e.g. the deadline test of `limiterWait` right after `ReserveN`). -/
def waitEv (r : RHist) : CEv → Bool
  | .cancel i =>
    decide (i < r.old) || decide (i + 1 = r.s.pending.length) ||
      (match r.s.pending[i]? with
       | some x => decide (r.s.now < x.slot)
       | none => true)
  | _ => true

/-- `waitEv` at every event of the history -/
def waitOk (r : RHist) : List CEv → Bool
  | [] => true
  | e :: h => r.waitEv e && waitOk (r.step e) h

end RHist

/-- The history `h` run from `s` under the discipline of the repo. -/
def CHist.runRepo (s : CHist) (h : List CEv) : CHist := (RHist.run { s := s } h).s

theorem RHist.run_cons (r : RHist) (e : CEv) (h : List CEv) : r.run (e :: h) = (r.step e).run h := rfl

/-! ## One event, as a `CHist.Shape` -/

theorem RHist.step_shape (r : RHist) (e : CEv) (hinf : r.s.c.b.inf = false) (hp : 0 < r.s.c.b.p)
    (hl : r.s.c.b.last ≤ r.s.now) (ht : e.timely = true) :
    CHist.Shape r.s (r.step e).s (r.wasteStep e) := by
  cases e with
  | adv dt => exact CHist.step_shape r.s (.adv dt) hinf hp hl rfl
  | allow => exact CHist.step_shape r.s .allow hinf hp hl rfl
  | reserve => exact CHist.step_shape r.s .reserve hinf hp hl rfl
  | use i => exact CHist.step_shape r.s (.use i) hinf hp hl rfl
  | giveBack => exact CHist.step_shape r.s .giveBack hinf hp hl rfl
  | cancelStale i t => simp [CEv.timely] at ht
  | cancel i =>
    by_cases h : r.old ≤ i
    · simp only [RHist.step, RHist.wasteStep, if_pos h]
      exact CHist.step_shape r.s (.cancel i) hinf hp hl rfl
    · simp only [RHist.step, RHist.wasteStep, if_neg h, CHist.lapse]
      split
      · rename_i x hx
        exact .drop i x hx
      · exact .same

theorem RHist.inv_run {p q burst t0 : Nat} (hp : 0 < p) (h : List CEv) :
    ∀ {r : RHist} {W : Int}, r.s.WF p q burst t0 → r.s.Inv t0 W → h.all CEv.timely = true →
      r.wasteOk W h = true → (r.run h).s.WF p q burst t0 ∧ ∃ W', (r.run h).s.Inv t0 W' := by
  induction h with
  | nil => intro r W w i _ _; exact ⟨w, W, i⟩
  | cons e h ih =>
    intro r W w i ht hok
    simp only [List.all_cons, Bool.and_eq_true] at ht
    simp only [RHist.wasteOk, Bool.and_eq_true, decide_eq_true_eq] at hok
    have sh := RHist.step_shape r e w.ninf (w.hp ▸ hp) w.last_le ht.1
    exact ih (w.shape sh) (CHist.Inv.shape hp r.s _ w i sh hok.1) ht.2 hok.2

theorem RHist.wasteStep_nonneg (r : RHist) (e : CEv) (hok : r.creditOk e = true) : 0 ≤ r.wasteStep e := by
  cases e with
  | cancel i =>
    simp only [RHist.wasteStep, RHist.creditOk, Bool.or_eq_true, decide_eq_true_eq] at *
    by_cases h : r.old ≤ i
    · rw [if_pos h]
      rcases hok with hok | hok
      · omega
      · exact CHist.wasteStep_nonneg r.s (.cancel i) hok
    · rw [if_neg h]
      split <;> omega
  | _ => exact Int.le_refl _

theorem RHist.wasteOk_of_runOk (h : List CEv) :
    ∀ (r : RHist) (W : Int), 0 ≤ W → r.runOk h = true → r.wasteOk W h = true := by
  induction h with
  | nil => intro r W _ _; rfl
  | cons e h ih =>
    intro r W hW hok
    simp only [RHist.runOk, Bool.and_eq_true] at hok
    have := r.wasteStep_nonneg e hok.1
    simp only [RHist.wasteOk, Bool.and_eq_true, decide_eq_true_eq]
    exact ⟨by omega, ih _ _ (by omega) hok.2⟩

/-! ## Steps in closed form (finite positive regime) -/

theorem CHist.step_allow_ok (s : CHist) (hinf : s.c.b.inf = false) (hp : 0 < s.c.b.p)
    (h : 1 ≤ s.c.b.burst ∧ 0 ≤ s.c.b.tokensAt s.now - (s.c.b.unit : Int)) :
    s.step .allow = { s with
      c := ⟨{ s.c.b with tokens := s.c.b.tokensAt s.now - (s.c.b.unit : Int), last := s.now }, s.c.b.p * s.now⟩,
      out := ⟨s.now, s.c.b.actScaled s.now⟩ :: s.out } := by
  have hfin := CBucket.finite_of s.c hinf hp
  simp only [CHist.step, CBucket.allow, Bucket.allow_ok _ _ hinf hp h, hfin, Bool.and_self, if_true]

theorem CHist.step_allow_no (s : CHist) (hinf : s.c.b.inf = false) (hp : 0 < s.c.b.p) (hl : s.c.b.last ≤ s.now)
    (h : ¬(1 ≤ s.c.b.burst ∧ 0 ≤ s.c.b.tokensAt s.now - (s.c.b.unit : Int))) : s.step .allow = s := by
  simp only [CHist.step, CBucket.allow, Bucket.allow_no _ _ hinf hp hl h, Bool.false_and]
  rfl

theorem CHist.step_reserve_ok (s : CHist) (hinf : s.c.b.inf = false) (hp : 0 < s.c.b.p) (h : 1 ≤ s.c.b.burst) :
    s.step .reserve = { s with
      c := ⟨{ s.c.b with tokens := s.c.b.tokensAt s.now - (s.c.b.unit : Int), last := s.now }, s.c.b.actScaled s.now⟩,
      pending := s.pending ++ [⟨s.now + ceilDiv (s.c.b.deficit s.now) s.c.b.p, s.c.b.actScaled s.now⟩] } := by
  have hfin := CBucket.finite_of s.c hinf hp
  simp only [CHist.step, CBucket.reserve, Bucket.reserve_ok _ _ hinf hp h, hfin, if_true]

theorem CHist.step_reserve_no (s : CHist) (hinf : s.c.b.inf = false) (hp : 0 < s.c.b.p) (hl : s.c.b.last ≤ s.now)
    (h : ¬ 1 ≤ s.c.b.burst) : s.step .reserve = s := by
  simp only [CHist.step, CBucket.reserve, Bucket.reserve_no _ _ none hinf hp hl h]

theorem CBucket.cancelAt_noop (c : CBucket) (r : Resv) (t : Nat) (h : r.slot < t ∨ c.restore r ≤ 0) :
    c.cancelAt r t = c := by
  unfold CBucket.cancelAt
  by_cases h1 : (!c.finite) = true
  · rw [if_pos h1]
  · rw [if_neg h1]
    by_cases h2 : r.slot < t
    · rw [if_pos h2]
    · rw [if_neg h2, if_pos (by omega)]

theorem CBucket.cancelAt_credit (c : CBucket) (r : Resv) (t : Nat) (hfin : c.finite = true)
    (h1 : ¬ r.slot < t) (h2 : ¬ c.restore r ≤ 0) :
    c.cancelAt r t =
      { b := { c.b with tokens := min (c.b.cap : Int) (c.b.tokensAt t + c.restore r), last := t },
        lastEvent := if r.act = c.lastEvent ∧ c.b.p * t + c.b.unit ≤ r.act then r.act - c.b.unit else c.lastEvent } := by
  unfold CBucket.cancelAt
  rw [hfin]
  simp only [Bool.not_true, Bool.false_eq_true, if_false]
  rw [if_neg h1, if_neg h2]

theorem CHist.step_cancel_some (s : CHist) (i : Nat) (r : Resv) (hr : s.pending[i]? = some r) :
    s.step (.cancel i) =
      { s with c := s.c.cancelAt r s.now, pending := s.pending.eraseIdx i, cancelled := s.cancelled + 1 } := by
  simp only [CHist.step, hr]

theorem CHist.step_cancel_none (s : CHist) (i : Nat) (hr : s.pending[i]? = none) : s.step (.cancel i) = s := by
  simp only [CHist.step, hr]

/-! ## Reservations abandoned while waiting for their slot, or last-made-first -/

/-- What holds of the reservations that may still be cancelled (`fresh`, in the order they were
made) when reservations are abandoned while waiting or last-made-first: none lies after `lastEvent`; of two of them
the earlier one is due now or lies a whole token before the later one; each is due now or is covered
by the bucket's debt (`act ≤ p·last − tokens`, the scaled instant at which the bucket is back at
zero). -/
structure CBucket.FreshOk (c : CBucket) (now : Nat) (fresh : List Resv) : Prop where
  le_ok : ∀ x ∈ fresh, x.act ≤ c.lastEvent
  spaced : fresh.Pairwise (fun x y => x.act ≤ c.b.p * now ∨ x.act + c.b.unit ≤ y.act)
  below : ∀ x ∈ fresh, x.act ≤ c.b.p * now ∨ (x.act : Int) + c.b.tokens ≤ ((c.b.p * c.b.last : Nat) : Int)
  /-- the slot reported is the first whole nanosecond at which the token is covered -/
  slot_ok : ∀ x ∈ fresh, c.b.p * x.slot < x.act + c.b.p

theorem CBucket.FreshOk.nil (c : CBucket) (now : Nat) : c.FreshOk now [] :=
  ⟨by simp, List.Pairwise.nil, by simp, by simp⟩

theorem CBucket.FreshOk.mono_now {c : CBucket} {now now' : Nat} {fresh : List Resv} (h : now ≤ now')
    (f : c.FreshOk now fresh) : c.FreshOk now' fresh := by
  have hm : c.b.p * now ≤ c.b.p * now' := Nat.mul_le_mul_left _ h
  refine ⟨f.le_ok, f.spaced.imp ?_, ?_, f.slot_ok⟩
  · intro x y hxy; omega
  · intro x hx
    have := f.below x hx
    omega

theorem CBucket.FreshOk.sublist {c : CBucket} {now : Nat} {fresh fresh' : List Resv} (h : fresh'.Sublist fresh)
    (f : c.FreshOk now fresh) : c.FreshOk now fresh' :=
  ⟨fun x hx => f.le_ok x (h.subset hx), f.spaced.sublist h, fun x hx => f.below x (h.subset hx),
    fun x hx => f.slot_ok x (h.subset hx)⟩

/-- after a successful `Allow` every reservation that may still be cancelled is due -/
theorem CBucket.FreshOk.allow {c : CBucket} {now : Nat} {fresh : List Resv} (hl : c.b.last ≤ now)
    (h : 0 ≤ c.b.tokensAt now - (c.b.unit : Int)) (f : c.FreshOk now fresh) :
    CBucket.FreshOk ⟨{ c.b with tokens := c.b.tokensAt now - (c.b.unit : Int), last := now }, c.b.p * now⟩ now fresh := by
  have ht := Bucket.tokensAt_le c.b now hl
  have hdue : ∀ x ∈ fresh, x.act ≤ c.b.p * now := by
    intro x hx
    have := f.below x hx
    omega
  refine ⟨hdue, f.spaced, ?_, f.slot_ok⟩
  intro x hx
  exact Or.inl (hdue x hx)

/-- a new reservation goes on top -/
theorem mul_ceilDiv_lt (d p : Nat) (hp : 0 < p) : p * ceilDiv d p < d + p := by
  unfold ceilDiv
  have := Nat.mul_div_le (d + (p - 1)) p
  omega

theorem CBucket.FreshOk.reserve {c : CBucket} {now : Nat} {fresh : List Resv} (hl : c.b.last ≤ now) (hp : 0 < c.b.p)
    (f : c.FreshOk now fresh) :
    CBucket.FreshOk ⟨{ c.b with tokens := c.b.tokensAt now - (c.b.unit : Int), last := now }, c.b.actScaled now⟩ now
      (fresh ++ [⟨now + ceilDiv (c.b.deficit now) c.b.p, c.b.actScaled now⟩]) := by
  have ht := Bucket.tokensAt_le c.b now hl
  have hact : c.b.actScaled now = c.b.p * now + ((c.b.unit : Int) - c.b.tokensAt now).toNat := rfl
  have hbelow : ∀ x ∈ fresh, x.act ≤ c.b.p * now ∨ x.act + c.b.unit ≤ c.b.actScaled now := by
    intro x hx
    have := f.below x hx
    omega
  refine ⟨?_, ?_, ?_, ?_⟩
  rotate_left 3
  · intro x hx
    rcases List.mem_append.mp hx with hx | hx
    · exact f.slot_ok x hx
    · simp only [List.mem_singleton] at hx
      subst hx
      show c.b.p * (now + ceilDiv (c.b.deficit now) c.b.p) < c.b.actScaled now + c.b.p
      have := mul_ceilDiv_lt (c.b.deficit now) c.b.p hp
      simp only [Bucket.actScaled, Nat.mul_add]
      omega
  · intro x hx
    rcases List.mem_append.mp hx with hx | hx
    · show x.act ≤ c.b.actScaled now
      have := hbelow x hx
      omega
    · simp only [List.mem_singleton] at hx
      subst hx
      exact Nat.le_refl _
  · rw [List.pairwise_append]
    refine ⟨f.spaced, List.pairwise_singleton _ _, ?_⟩
    intro x hx y hy
    simp only [List.mem_singleton] at hy
    subst hy
    exact hbelow x hx
  · intro x hx
    rcases List.mem_append.mp hx with hx | hx
    · have := f.below x hx
      show x.act ≤ c.b.p * now ∨ (x.act : Int) + (c.b.tokensAt now - (c.b.unit : Int)) ≤ ((c.b.p * now : Nat) : Int)
      omega
    · simp only [List.mem_singleton] at hx
      subst hx
      show c.b.actScaled now ≤ c.b.p * now ∨
        ((c.b.actScaled now : Nat) : Int) + (c.b.tokensAt now - (c.b.unit : Int)) ≤ ((c.b.p * now : Nat) : Int)
      omega

/-- the most recent reservation is cancelled and credited -/
theorem CBucket.FreshOk.cancel_last {c : CBucket} {now : Nat} {front : List Resv} {r : Resv} (hl : c.b.last ≤ now)
    (f : c.FreshOk now (front ++ [r])) :
    CBucket.FreshOk
      ⟨{ c.b with tokens := min (c.b.cap : Int) (c.b.tokensAt now + c.restore r), last := now },
        if r.act = c.lastEvent ∧ c.b.p * now + c.b.unit ≤ r.act then r.act - c.b.unit else c.lastEvent⟩ now front := by
  have ht := Bucket.tokensAt_le c.b now hl
  have hr : r ∈ front ++ [r] := by simp
  have hrle := f.le_ok r hr
  have hrb := f.below r hr
  have hsp := (List.pairwise_append.mp f.spaced).2.2
  have hres : c.restore r ≤ (c.b.unit : Int) := by unfold CBucket.restore; omega
  refine ⟨?_, (List.pairwise_append.mp f.spaced).1, ?_, fun x hx => f.slot_ok x (List.mem_append_left _ hx)⟩
  · intro x hx
    have h1 := f.le_ok x (List.mem_append_left _ hx)
    have h2 := hsp x hx r (by simp)
    show x.act ≤ (if r.act = c.lastEvent ∧ c.b.p * now + c.b.unit ≤ r.act then r.act - c.b.unit else c.lastEvent)
    split <;> omega
  · intro x hx
    have h2 := hsp x hx r (by simp)
    show x.act ≤ c.b.p * now ∨
      (x.act : Int) + min (c.b.cap : Int) (c.b.tokensAt now + c.restore r) ≤ ((c.b.p * now : Nat) : Int)
    omega

/-- a reservation that still waits for its slot and is not the most recent one cannot be credited:
the later ones lie a whole token after it -/
theorem CBucket.FreshOk.waiting_noop {c : CBucket} {now : Nat} {fresh : List Resv} (f : c.FreshOk now fresh)
    (j : Nat) (x : Resv) (hx : fresh[j]? = some x) (hj : j + 1 < fresh.length) (hw : now < x.slot) :
    c.restore x ≤ 0 := by
  have hjl : j < fresh.length := by omega
  have hxe : fresh[j] = x := by
    have := List.getElem?_eq_getElem hjl
    rw [this] at hx
    exact Option.some.inj hx
  have hsp := (List.pairwise_iff_getElem.mp f.spaced) j (j + 1) hjl hj (by omega)
  have hle := f.le_ok fresh[j + 1] (List.getElem_mem hj)
  have hs := f.slot_ok x (List.mem_of_getElem? hx)
  have hm : c.b.p * (now + 1) ≤ c.b.p * x.slot := Nat.mul_le_mul_left _ hw
  rw [Nat.mul_add, Nat.mul_one] at hm
  rw [hxe] at hsp
  unfold CBucket.restore
  omega

/-- the invariant of a history in which reservations are abandoned while waiting, or last-made-first -/
structure RHist.Lifo (r : RHist) : Prop where
  ex : ∃ olds fresh, r.s.pending = olds ++ fresh ∧ olds.length = r.old ∧ r.s.c.FreshOk r.s.now fresh

theorem RHist.Lifo.init (p q burst t0 : Nat) : (RHist.init p q burst t0).Lifo :=
  ⟨[], [], rfl, rfl, CBucket.FreshOk.nil _ _⟩

theorem list_last_split {α : Type} : ∀ (l : List α) (j : Nat) (x : α), l[j]? = some x → j + 1 = l.length →
    l = l.eraseIdx j ++ [x]
  | [], j, x, h, _ => by simp at h
  | [a], 0, x, h, _ => by simp at h; simp [h]
  | [a], j + 1, x, h, hl => by simp at hl
  | a :: b :: l, 0, x, h, hl => by simp at hl
  | a :: b :: l, j + 1, x, h, hl => by
    have := list_last_split (b :: l) j x (by simpa using h) (by simpa using hl)
    simp only [List.eraseIdx_cons_succ, List.cons_append]
    rw [← this]

theorem CHist.step_giveBack_pending (s : CHist) : (s.step .giveBack).pending = s.pending := by
  simp only [CHist.step]
  split <;> rfl

/-- a pending reservation leaves the list and the limiter is not touched -/
theorem RHist.Lifo.erase {r r' : RHist} (L : r.Lifo) (i : Nat) (_hi : i < r.s.pending.length)
    (hc : r'.s.c = r.s.c) (hn : r'.s.now = r.s.now) (hpend : r'.s.pending = r.s.pending.eraseIdx i)
    (hold : r'.old = if i < r.old then r.old - 1 else r.old) : r'.Lifo := by
  obtain ⟨olds, fresh, h1, h2, f⟩ := L.ex
  by_cases h : i < r.old
  · refine ⟨olds.eraseIdx i, fresh, ?_, ?_, ?_⟩
    · rw [hpend, h1, List.eraseIdx_append_of_lt_length (by omega)]
    · rw [hold, if_pos h, List.length_eraseIdx, if_pos (by omega)]; omega
    · rw [hc, hn]; exact f
  · refine ⟨olds, fresh.eraseIdx (i - olds.length), ?_, ?_, ?_⟩
    · rw [hpend, h1, List.eraseIdx_append_of_length_le (by omega)]
    · rw [hold, if_neg h]; exact h2
    · rw [hc, hn]; exact f.sublist (List.eraseIdx_sublist _ _)

theorem RHist.Lifo.step {p q burst t0 : Nat} (hp : 0 < p) {r : RHist} (w : r.s.WF p q burst t0) (L : r.Lifo)
    (e : CEv) (ht : e.timely = true) (hl : r.waitEv e = true) : (r.step e).Lifo ∧ r.creditOk e = true := by
  have hinf := w.ninf
  have hp' : 0 < r.s.c.b.p := w.hp ▸ hp
  have hlast := w.last_le
  obtain ⟨olds, fresh, h1, h2, f⟩ := L.ex
  cases e with
  | adv dt =>
    exact ⟨⟨olds, fresh, h1, h2, f.mono_now (Nat.le_add_right _ _)⟩, rfl⟩
  | allow =>
    refine ⟨?_, rfl⟩
    show RHist.Lifo ⟨r.s.step .allow, r.old⟩
    by_cases h : 1 ≤ r.s.c.b.burst ∧ 0 ≤ r.s.c.b.tokensAt r.s.now - (r.s.c.b.unit : Int)
    · rw [CHist.step_allow_ok r.s hinf hp' h]
      exact ⟨olds, fresh, h1, h2, f.allow hlast h.2⟩
    · rw [CHist.step_allow_no r.s hinf hp' hlast h]
      exact L
  | reserve =>
    refine ⟨?_, rfl⟩
    show RHist.Lifo ⟨r.s.step .reserve, r.old⟩
    by_cases h : 1 ≤ r.s.c.b.burst
    · rw [CHist.step_reserve_ok r.s hinf hp' h]
      refine ⟨olds, fresh ++ [⟨r.s.now + ceilDiv (r.s.c.b.deficit r.s.now) r.s.c.b.p, r.s.c.b.actScaled r.s.now⟩], ?_, h2,
        f.reserve hlast hp'⟩
      show r.s.pending ++ _ = _
      rw [h1, List.append_assoc]
    · rw [CHist.step_reserve_no r.s hinf hp' hlast h]
      exact L
  | giveBack =>
    refine ⟨⟨(r.s.step .giveBack).pending, [], ?_, ?_, CBucket.FreshOk.nil _ _⟩, rfl⟩
    · show (r.s.step .giveBack).pending = (r.s.step .giveBack).pending ++ []
      rw [List.append_nil]
    · show (r.s.step .giveBack).pending.length = r.s.pending.length
      rw [CHist.step_giveBack_pending]
  | cancelStale i t => simp [CEv.timely] at ht
  | use i =>
    refine ⟨?_, rfl⟩
    cases hx : r.s.pending[i]? with
    | none =>
      have hs : r.s.step (.use i) = r.s := by simp only [CHist.step, hx]
      show RHist.Lifo ⟨r.s.step (.use i), if i < r.old ∧ (r.s.step (.use i)).pending.length < r.s.pending.length then r.old - 1 else r.old⟩
      rw [hs, if_neg (by omega)]
      exact L
    | some x =>
      by_cases hle : x.slot ≤ r.s.now
      · have hs : r.s.step (.use i) = { r.s with pending := r.s.pending.eraseIdx i, out := ⟨r.s.now, x.act⟩ :: r.s.out } := by
          simp only [CHist.step, hx, if_pos hle]
        have hi : i < r.s.pending.length := by
          rcases Nat.lt_or_ge i r.s.pending.length with h | h
          · exact h
          · rw [List.getElem?_eq_none h] at hx; cases hx
        refine L.erase i hi ?_ ?_ ?_ ?_
        · show (r.s.step (.use i)).c = r.s.c
          rw [hs]
        · show (r.s.step (.use i)).now = r.s.now
          rw [hs]
        · show (r.s.step (.use i)).pending = r.s.pending.eraseIdx i
          rw [hs]
        · show (if i < r.old ∧ (r.s.step (.use i)).pending.length < r.s.pending.length then r.old - 1 else r.old) = _
          rw [hs]
          show (if i < r.old ∧ (r.s.pending.eraseIdx i).length < r.s.pending.length then r.old - 1 else r.old) = _
          rw [List.length_eraseIdx, if_pos hi]
          by_cases h : i < r.old
          · rw [if_pos ⟨h, by omega⟩, if_pos h]
          · rw [if_neg (fun hh => h hh.1), if_neg h]
      · have hs : r.s.step (.use i) = r.s := by simp only [CHist.step, hx, if_neg hle]
        show RHist.Lifo ⟨r.s.step (.use i), if i < r.old ∧ (r.s.step (.use i)).pending.length < r.s.pending.length then r.old - 1 else r.old⟩
        rw [hs, if_neg (by omega)]
        exact L
  | cancel i =>
    simp only [RHist.waitEv, Bool.or_eq_true, decide_eq_true_eq] at hl
    by_cases hio : r.old ≤ i
    · -- effective
      cases hx : r.s.pending[i]? with
      | none =>
        refine ⟨?_, ?_⟩
        · show RHist.Lifo (if r.old ≤ i then ⟨r.s.step (.cancel i), r.old⟩ else ⟨r.s.lapse i, r.old - 1⟩)
          rw [if_pos hio, CHist.step_cancel_none r.s i hx]
          exact L
        · simp only [RHist.creditOk, CHist.creditOk, hx, Bool.or_true]
      | some x =>
        have hi : i < r.s.pending.length := by
          rcases Nat.lt_or_ge i r.s.pending.length with h | h
          · exact h
          · rw [List.getElem?_eq_none h] at hx; cases hx
        have hxf : fresh[i - olds.length]? = some x := by
          rw [h1, List.getElem?_append_right (by omega)] at hx
          exact hx
        have hmem : x ∈ fresh := List.mem_of_getElem? hxf
        have hxle := f.le_ok x hmem
        have hcred : r.creditOk (.cancel i) = true := by
          have hc : r.s.creditOk (.cancel i) = true := by
            simp only [CHist.creditOk, hx, Bool.or_eq_true, decide_eq_true_eq]
            right; unfold CBucket.restore; omega
          show (decide (i < r.old) || r.s.creditOk (.cancel i)) = true
          rw [hc, Bool.or_true]
        refine ⟨?_, hcred⟩
        show RHist.Lifo (if r.old ≤ i then ⟨r.s.step (.cancel i), r.old⟩ else ⟨r.s.lapse i, r.old - 1⟩)
        rw [if_pos hio, CHist.step_cancel_some r.s i x hx]
        by_cases hno : x.slot < r.s.now ∨ r.s.c.restore x ≤ 0
        · rw [CBucket.cancelAt_noop _ _ _ hno]
          exact L.erase i hi rfl rfl rfl (by show r.old = _; rw [if_neg (by omega)])
        · have hfin := CBucket.finite_of r.s.c hinf hp'
          rw [CBucket.cancelAt_credit _ _ _ hfin (fun hh => hno (Or.inl hh)) (fun hh => hno (Or.inr hh))]
          have hlenf : r.s.pending.length = olds.length + fresh.length := by rw [h1, List.length_append]
          have hflen : (i - olds.length) + 1 = fresh.length := by
            rcases hl with (hl | hl) | hl
            · omega
            · omega
            · rw [hx] at hl
              simp only [decide_eq_true_eq] at hl
              rcases Nat.lt_or_ge ((i - olds.length) + 1) fresh.length with hlt | hge
              · exact absurd (Or.inr (f.waiting_noop _ x hxf hlt hl)) hno
              · omega
          have hsplit := list_last_split fresh (i - olds.length) x hxf hflen
          have f' : r.s.c.FreshOk r.s.now (fresh.eraseIdx (i - olds.length) ++ [x]) := by
            rw [← hsplit]; exact f
          refine ⟨olds, fresh.eraseIdx (i - olds.length), ?_, h2, f'.cancel_last hlast⟩
          show r.s.pending.eraseIdx i = _
          rw [h1, List.eraseIdx_append_of_length_le (by omega)]
    · -- skipped
      have hi : i < r.s.pending.length := by
        have : r.s.pending.length = olds.length + fresh.length := by rw [h1, List.length_append]
        omega
      refine ⟨?_, ?_⟩
      · show RHist.Lifo (if r.old ≤ i then ⟨r.s.step (.cancel i), r.old⟩ else ⟨r.s.lapse i, r.old - 1⟩)
        rw [if_neg hio]
        have hx : ∃ x, r.s.pending[i]? = some x := ⟨r.s.pending[i], List.getElem?_eq_getElem hi⟩
        obtain ⟨x, hx⟩ := hx
        have hs : r.s.lapse i = { r.s with pending := r.s.pending.eraseIdx i, cancelled := r.s.cancelled + 1 } := by
          simp only [CHist.lapse, hx]
        rw [hs]
        exact L.erase i hi rfl rfl rfl (by show r.old - 1 = _; rw [if_pos (by omega)])
      · simp only [RHist.creditOk, Bool.or_eq_true, decide_eq_true_eq]
        left; omega

theorem RHist.wait_run {p q burst t0 : Nat} (hp : 0 < p) (h : List CEv) :
    ∀ {r : RHist}, r.s.WF p q burst t0 → r.Lifo → h.all CEv.timely = true → r.waitOk h = true →
      r.runOk h = true := by
  induction h with
  | nil => intro r _ _ _ _; rfl
  | cons e h ih =>
    intro r w L ht hl
    simp only [List.all_cons, Bool.and_eq_true] at ht
    simp only [RHist.waitOk, Bool.and_eq_true] at hl
    have st := L.step hp w e ht.1 hl.1
    have sh := RHist.step_shape r e w.ninf (w.hp ▸ hp) w.last_le ht.1
    simp only [RHist.runOk, Bool.and_eq_true]
    exact ⟨st.2, ih (w.shape sh) st.1 ht.2 hl.2⟩

theorem RHist.waitEv_of_lifoEv (r : RHist) (e : CEv) (h : r.lifoEv e = true) : r.waitEv e = true := by
  cases e with
  | cancel i =>
    simp only [RHist.lifoEv, RHist.waitEv, Bool.or_eq_true, decide_eq_true_eq] at *
    rcases h with (h | h) | h
    · exact Or.inl (Or.inl h)
    · exact Or.inl (Or.inr h)
    · right
      rw [List.getElem?_eq_none h]
  | _ => rfl

theorem RHist.waitOk_of_lifoOk (h : List CEv) : ∀ (r : RHist), r.lifoOk h = true → r.waitOk h = true := by
  induction h with
  | nil => intro _ _; rfl
  | cons e h ih =>
    intro r hl
    simp only [RHist.lifoOk, Bool.and_eq_true] at hl
    simp only [RHist.waitOk, Bool.and_eq_true]
    exact ⟨r.waitEv_of_lifoEv e hl.1, ih _ hl.2⟩

/-! ## Burst 1: any order of cancellation

With a bucket of one token every reservation lies a whole token after the one made before it, so
only the most recent one can be credited at all. -/

structure CBucket.FreshOk1 (c : CBucket) (fresh : List Resv) : Prop where
  le_ok : ∀ x ∈ fresh, x.act ≤ c.lastEvent
  spaced : fresh.Pairwise (fun x y => x.act + c.b.unit ≤ y.act)
  below : ∀ x ∈ fresh, (x.act : Int) + c.b.tokens ≤ ((c.b.p * c.b.last : Nat) : Int)

theorem CBucket.FreshOk1.nil (c : CBucket) : c.FreshOk1 [] :=
  ⟨by simp, List.Pairwise.nil, by simp⟩

theorem CBucket.FreshOk1.sublist {c : CBucket} {fresh fresh' : List Resv} (h : fresh'.Sublist fresh)
    (f : c.FreshOk1 fresh) : c.FreshOk1 fresh' :=
  ⟨fun x hx => f.le_ok x (h.subset hx), f.spaced.sublist h, fun x hx => f.below x (h.subset hx)⟩

theorem CBucket.FreshOk1.allow {c : CBucket} {now : Nat} {fresh : List Resv} (hl : c.b.last ≤ now)
    (h : 0 ≤ c.b.tokensAt now - (c.b.unit : Int)) (f : c.FreshOk1 fresh) :
    CBucket.FreshOk1 ⟨{ c.b with tokens := c.b.tokensAt now - (c.b.unit : Int), last := now }, c.b.p * now⟩ fresh := by
  have ht := Bucket.tokensAt_le c.b now hl
  refine ⟨?_, f.spaced, ?_⟩
  · intro x hx
    have := f.below x hx
    show x.act ≤ c.b.p * now
    omega
  · intro x hx
    have := f.below x hx
    show (x.act : Int) + (c.b.tokensAt now - (c.b.unit : Int)) ≤ ((c.b.p * now : Nat) : Int)
    omega

theorem CBucket.FreshOk1.reserve {c : CBucket} {now : Nat} {fresh : List Resv} (hl : c.b.last ≤ now) (slot : Nat)
    (hcap : c.b.cap = c.b.unit) (f : c.FreshOk1 fresh) :
    CBucket.FreshOk1 ⟨{ c.b with tokens := c.b.tokensAt now - (c.b.unit : Int), last := now }, c.b.actScaled now⟩
      (fresh ++ [⟨slot, c.b.actScaled now⟩]) := by
  have ht := Bucket.tokensAt_le c.b now hl
  have hact : c.b.actScaled now = c.b.p * now + ((c.b.unit : Int) - c.b.tokensAt now).toNat := rfl
  have hsp : ∀ x ∈ fresh, x.act + c.b.unit ≤ c.b.actScaled now := by
    intro x hx
    have := f.below x hx
    omega
  refine ⟨?_, ?_, ?_⟩
  · intro x hx
    rcases List.mem_append.mp hx with hx | hx
    · show x.act ≤ c.b.actScaled now
      have := hsp x hx
      omega
    · simp only [List.mem_singleton] at hx
      subst hx
      exact Nat.le_refl _
  · rw [List.pairwise_append]
    refine ⟨f.spaced, List.pairwise_singleton _ _, ?_⟩
    intro x hx y hy
    simp only [List.mem_singleton] at hy
    subst hy
    exact hsp x hx
  · intro x hx
    rcases List.mem_append.mp hx with hx | hx
    · have := f.below x hx
      show (x.act : Int) + (c.b.tokensAt now - (c.b.unit : Int)) ≤ ((c.b.p * now : Nat) : Int)
      omega
    · simp only [List.mem_singleton] at hx
      subst hx
      show ((c.b.actScaled now : Nat) : Int) + (c.b.tokensAt now - (c.b.unit : Int)) ≤ ((c.b.p * now : Nat) : Int)
      omega

theorem CBucket.FreshOk1.cancel_last {c : CBucket} {now : Nat} {front : List Resv} {r : Resv} (hl : c.b.last ≤ now)
    (f : c.FreshOk1 (front ++ [r])) :
    CBucket.FreshOk1
      ⟨{ c.b with tokens := min (c.b.cap : Int) (c.b.tokensAt now + c.restore r), last := now },
        if r.act = c.lastEvent ∧ c.b.p * now + c.b.unit ≤ r.act then r.act - c.b.unit else c.lastEvent⟩ front := by
  have ht := Bucket.tokensAt_le c.b now hl
  have hr : r ∈ front ++ [r] := by simp
  have hrle := f.le_ok r hr
  have hrb := f.below r hr
  have hsp := (List.pairwise_append.mp f.spaced).2.2
  have hres : c.restore r ≤ (c.b.unit : Int) := by unfold CBucket.restore; omega
  refine ⟨?_, (List.pairwise_append.mp f.spaced).1, ?_⟩
  · intro x hx
    have h1 := f.le_ok x (List.mem_append_left _ hx)
    have h2 := hsp x hx r (by simp)
    show x.act ≤ (if r.act = c.lastEvent ∧ c.b.p * now + c.b.unit ≤ r.act then r.act - c.b.unit else c.lastEvent)
    split <;> omega
  · intro x hx
    have h2 := hsp x hx r (by simp)
    show (x.act : Int) + min (c.b.cap : Int) (c.b.tokensAt now + c.restore r) ≤ ((c.b.p * now : Nat) : Int)
    omega

/-- a reservation that is not the most recent one cannot be credited -/
theorem CBucket.FreshOk1.not_last_noop {c : CBucket} {fresh : List Resv} (f : c.FreshOk1 fresh) (j : Nat) (x : Resv)
    (hx : fresh[j]? = some x) (hj : j + 1 < fresh.length) : c.restore x ≤ 0 := by
  have hy : fresh[j + 1]? = some fresh[j + 1] := List.getElem?_eq_getElem hj
  have hjl : j < fresh.length := by omega
  have hxe : fresh[j] = x := by
    have := List.getElem?_eq_getElem hjl
    rw [this] at hx
    exact Option.some.inj hx
  have hsp := (List.pairwise_iff_getElem.mp f.spaced) j (j + 1) hjl hj (by omega)
  have hle := f.le_ok fresh[j + 1] (List.getElem_mem hj)
  rw [hxe] at hsp
  unfold CBucket.restore
  omega

/-- the invariant for burst 1 -/
structure RHist.One (r : RHist) : Prop where
  ex : ∃ olds fresh, r.s.pending = olds ++ fresh ∧ olds.length = r.old ∧ r.s.c.FreshOk1 fresh

theorem RHist.One.init (p q burst t0 : Nat) : (RHist.init p q burst t0).One :=
  ⟨[], [], rfl, rfl, CBucket.FreshOk1.nil _⟩

theorem RHist.One.erase {r r' : RHist} (L : r.One) (i : Nat) (_hi : i < r.s.pending.length)
    (hc : r'.s.c = r.s.c) (hpend : r'.s.pending = r.s.pending.eraseIdx i)
    (hold : r'.old = if i < r.old then r.old - 1 else r.old) : r'.One := by
  obtain ⟨olds, fresh, h1, h2, f⟩ := L.ex
  by_cases h : i < r.old
  · refine ⟨olds.eraseIdx i, fresh, ?_, ?_, ?_⟩
    · rw [hpend, h1, List.eraseIdx_append_of_lt_length (by omega)]
    · rw [hold, if_pos h, List.length_eraseIdx, if_pos (by omega)]; omega
    · rw [hc]; exact f
  · refine ⟨olds, fresh.eraseIdx (i - olds.length), ?_, ?_, ?_⟩
    · rw [hpend, h1, List.eraseIdx_append_of_length_le (by omega)]
    · rw [hold, if_neg h]; exact h2
    · rw [hc]; exact f.sublist (List.eraseIdx_sublist _ _)

theorem RHist.One.step {p q t0 : Nat} (hp : 0 < p) {r : RHist} (w : r.s.WF p q 1 t0) (L : r.One)
    (e : CEv) (ht : e.timely = true) : (r.step e).One ∧ r.creditOk e = true := by
  have hinf := w.ninf
  have hp' : 0 < r.s.c.b.p := w.hp ▸ hp
  have hlast := w.last_le
  have hcap : r.s.c.b.cap = r.s.c.b.unit := by unfold Bucket.cap; rw [w.hburst, Nat.one_mul]
  obtain ⟨olds, fresh, h1, h2, f⟩ := L.ex
  cases e with
  | adv dt => exact ⟨⟨olds, fresh, h1, h2, f⟩, rfl⟩
  | allow =>
    refine ⟨?_, rfl⟩
    show RHist.One ⟨r.s.step .allow, r.old⟩
    by_cases h : 1 ≤ r.s.c.b.burst ∧ 0 ≤ r.s.c.b.tokensAt r.s.now - (r.s.c.b.unit : Int)
    · rw [CHist.step_allow_ok r.s hinf hp' h]
      exact ⟨olds, fresh, h1, h2, f.allow hlast h.2⟩
    · rw [CHist.step_allow_no r.s hinf hp' hlast h]
      exact L
  | reserve =>
    refine ⟨?_, rfl⟩
    show RHist.One ⟨r.s.step .reserve, r.old⟩
    by_cases h : 1 ≤ r.s.c.b.burst
    · rw [CHist.step_reserve_ok r.s hinf hp' h]
      refine ⟨olds, fresh ++ [⟨r.s.now + ceilDiv (r.s.c.b.deficit r.s.now) r.s.c.b.p, r.s.c.b.actScaled r.s.now⟩], ?_, h2,
        f.reserve hlast _ hcap⟩
      show r.s.pending ++ _ = _
      rw [h1, List.append_assoc]
    · rw [CHist.step_reserve_no r.s hinf hp' hlast h]
      exact L
  | giveBack =>
    refine ⟨⟨(r.s.step .giveBack).pending, [], ?_, ?_, CBucket.FreshOk1.nil _⟩, rfl⟩
    · show (r.s.step .giveBack).pending = (r.s.step .giveBack).pending ++ []
      rw [List.append_nil]
    · show (r.s.step .giveBack).pending.length = r.s.pending.length
      rw [CHist.step_giveBack_pending]
  | cancelStale i t => simp [CEv.timely] at ht
  | use i =>
    refine ⟨?_, rfl⟩
    cases hx : r.s.pending[i]? with
    | none =>
      have hs : r.s.step (.use i) = r.s := by simp only [CHist.step, hx]
      show RHist.One ⟨r.s.step (.use i), if i < r.old ∧ (r.s.step (.use i)).pending.length < r.s.pending.length then r.old - 1 else r.old⟩
      rw [hs, if_neg (by omega)]
      exact L
    | some x =>
      by_cases hle : x.slot ≤ r.s.now
      · have hs : r.s.step (.use i) = { r.s with pending := r.s.pending.eraseIdx i, out := ⟨r.s.now, x.act⟩ :: r.s.out } := by
          simp only [CHist.step, hx, if_pos hle]
        have hi : i < r.s.pending.length := by
          rcases Nat.lt_or_ge i r.s.pending.length with h | h
          · exact h
          · rw [List.getElem?_eq_none h] at hx; cases hx
        refine L.erase i hi ?_ ?_ ?_
        · show (r.s.step (.use i)).c = r.s.c
          rw [hs]
        · show (r.s.step (.use i)).pending = r.s.pending.eraseIdx i
          rw [hs]
        · show (if i < r.old ∧ (r.s.step (.use i)).pending.length < r.s.pending.length then r.old - 1 else r.old) = _
          rw [hs]
          show (if i < r.old ∧ (r.s.pending.eraseIdx i).length < r.s.pending.length then r.old - 1 else r.old) = _
          rw [List.length_eraseIdx, if_pos hi]
          by_cases h : i < r.old
          · rw [if_pos ⟨h, by omega⟩, if_pos h]
          · rw [if_neg (fun hh => h hh.1), if_neg h]
      · have hs : r.s.step (.use i) = r.s := by simp only [CHist.step, hx, if_neg hle]
        show RHist.One ⟨r.s.step (.use i), if i < r.old ∧ (r.s.step (.use i)).pending.length < r.s.pending.length then r.old - 1 else r.old⟩
        rw [hs, if_neg (by omega)]
        exact L
  | cancel i =>
    by_cases hio : r.old ≤ i
    · cases hx : r.s.pending[i]? with
      | none =>
        refine ⟨?_, ?_⟩
        · show RHist.One (if r.old ≤ i then ⟨r.s.step (.cancel i), r.old⟩ else ⟨r.s.lapse i, r.old - 1⟩)
          rw [if_pos hio, CHist.step_cancel_none r.s i hx]
          exact L
        · simp only [RHist.creditOk, CHist.creditOk, hx, Bool.or_true]
      | some x =>
        have hi : i < r.s.pending.length := by
          rcases Nat.lt_or_ge i r.s.pending.length with h | h
          · exact h
          · rw [List.getElem?_eq_none h] at hx; cases hx
        have hxf : fresh[i - olds.length]? = some x := by
          rw [h1, List.getElem?_append_right (by omega)] at hx
          exact hx
        have hmem : x ∈ fresh := List.mem_of_getElem? hxf
        have hxle := f.le_ok x hmem
        have hcred : r.creditOk (.cancel i) = true := by
          have hc : r.s.creditOk (.cancel i) = true := by
            simp only [CHist.creditOk, hx, Bool.or_eq_true, decide_eq_true_eq]
            right; unfold CBucket.restore; omega
          show (decide (i < r.old) || r.s.creditOk (.cancel i)) = true
          rw [hc, Bool.or_true]
        refine ⟨?_, hcred⟩
        show RHist.One (if r.old ≤ i then ⟨r.s.step (.cancel i), r.old⟩ else ⟨r.s.lapse i, r.old - 1⟩)
        rw [if_pos hio, CHist.step_cancel_some r.s i x hx]
        by_cases hno : x.slot < r.s.now ∨ r.s.c.restore x ≤ 0
        · rw [CBucket.cancelAt_noop _ _ _ hno]
          exact L.erase i hi rfl rfl (by show r.old = _; rw [if_neg (by omega)])
        · have hfin := CBucket.finite_of r.s.c hinf hp'
          rw [CBucket.cancelAt_credit _ _ _ hfin (fun hh => hno (Or.inl hh)) (fun hh => hno (Or.inr hh))]
          have hlenf : r.s.pending.length = olds.length + fresh.length := by rw [h1, List.length_append]
          have hflen : (i - olds.length) + 1 = fresh.length := by
            rcases Nat.lt_or_ge ((i - olds.length) + 1) fresh.length with hlt | hge
            · exact absurd (Or.inr (f.not_last_noop _ x hxf hlt)) hno
            · omega
          have hsplit := list_last_split fresh (i - olds.length) x hxf hflen
          have f' : r.s.c.FreshOk1 (fresh.eraseIdx (i - olds.length) ++ [x]) := by
            rw [← hsplit]; exact f
          refine ⟨olds, fresh.eraseIdx (i - olds.length), ?_, h2, f'.cancel_last hlast⟩
          show r.s.pending.eraseIdx i = _
          rw [h1, List.eraseIdx_append_of_length_le (by omega)]
    · have hi : i < r.s.pending.length := by
        have : r.s.pending.length = olds.length + fresh.length := by rw [h1, List.length_append]
        omega
      refine ⟨?_, ?_⟩
      · show RHist.One (if r.old ≤ i then ⟨r.s.step (.cancel i), r.old⟩ else ⟨r.s.lapse i, r.old - 1⟩)
        rw [if_neg hio]
        have hx : ∃ x, r.s.pending[i]? = some x := ⟨r.s.pending[i], List.getElem?_eq_getElem hi⟩
        obtain ⟨x, hx⟩ := hx
        have hs : r.s.lapse i = { r.s with pending := r.s.pending.eraseIdx i, cancelled := r.s.cancelled + 1 } := by
          simp only [CHist.lapse, hx]
        rw [hs]
        exact L.erase i hi rfl rfl (by show r.old - 1 = _; rw [if_pos (by omega)])
      · simp only [RHist.creditOk, Bool.or_eq_true, decide_eq_true_eq]
        left; omega

theorem RHist.one_run {p q t0 : Nat} (hp : 0 < p) (h : List CEv) :
    ∀ {r : RHist}, r.s.WF p q 1 t0 → r.One → h.all CEv.timely = true → r.runOk h = true := by
  induction h with
  | nil => intro r _ _ _; rfl
  | cons e h ih =>
    intro r w L ht
    simp only [List.all_cons, Bool.and_eq_true] at ht
    have st := L.step hp w e ht.1
    have sh := RHist.step_shape r e w.ninf (w.hp ▸ hp) w.last_le ht.1
    simp only [RHist.runOk, Bool.and_eq_true]
    exact ⟨st.2, ih (w.shape sh) st.1 ht.2⟩

/-! ## Without give-backs the discipline changes nothing -/

def CEv.noGiveBack (e : CEv) : Bool := !e.isGiveBack

theorem RHist.step_old_zero (s : CHist) (e : CEv) (h : e.isGiveBack = false) :
    RHist.step ⟨s, 0⟩ e = ⟨s.step e, 0⟩ := by
  cases e with
  | giveBack => simp [CEv.isGiveBack] at h
  | cancel i => simp only [RHist.step, Nat.zero_le, if_true]
  | cancelStale i t => simp only [RHist.step, Nat.zero_le, if_true]
  | use i => simp only [RHist.step, Nat.not_lt_zero, false_and, if_false]
  | adv dt => rfl
  | allow => rfl
  | reserve => rfl

theorem RHist.run_old_zero (h : List CEv) : ∀ (s : CHist), h.all (fun e => !e.isGiveBack) = true →
    RHist.run ⟨s, 0⟩ h = ⟨s.run h, 0⟩ := by
  induction h with
  | nil => intro s _; rfl
  | cons e h ih =>
    intro s hg
    simp only [List.all_cons, Bool.and_eq_true, Bool.not_eq_true'] at hg
    rw [RHist.run_cons, RHist.step_old_zero s e hg.1, CHist.run_cons]
    exact ih _ (by simpa using hg.2)

theorem RHist.wasteStep_old_zero (s : CHist) (e : CEv) : RHist.wasteStep ⟨s, 0⟩ e = s.wasteStep e := by
  cases e with
  | cancel i => simp only [RHist.wasteStep, Nat.zero_le, if_true]
  | _ => rfl

theorem RHist.wasteOk_old_zero (h : List CEv) : ∀ (s : CHist) (W : Int), h.all (fun e => !e.isGiveBack) = true →
    RHist.wasteOk ⟨s, 0⟩ W h = s.wasteOk W h := by
  induction h with
  | nil => intro s W _; rfl
  | cons e h ih =>
    intro s W hg
    simp only [List.all_cons, Bool.and_eq_true, Bool.not_eq_true'] at hg
    simp only [RHist.wasteOk, CHist.wasteOk, RHist.wasteStep_old_zero, RHist.step_old_zero s e hg.1]
    rw [ih _ _ (by simpa using hg.2)]

/-! ## Exhaustive search over short histories (for the bounded check) -/

/-- Every history of at most `n` events drawn from `evs`, run under the discipline of the repo
from `r` with waste `W`, keeps the running waste non-negative. Events that leave the state as it
is and waste nothing are not followed (a history with such an event behaves like the shorter
history without it). -/
def RHist.allWasteOk (evs : List CEv) : Nat → RHist → Int → Bool
  | 0, _, _ => true
  | n + 1, r, W =>
    evs.all fun e => (decide (r.step e = r) && decide (r.wasteStep e = 0)) ||
      (decide (0 ≤ W + r.wasteStep e) && allWasteOk evs n (r.step e) (W + r.wasteStep e))

theorem RHist.allWasteOk_mono (evs : List CEv) : ∀ (n : Nat) (r : RHist) (W : Int),
    RHist.allWasteOk evs (n + 1) r W = true → RHist.allWasteOk evs n r W = true := by
  intro n
  induction n with
  | zero => intro r W _; rfl
  | succ n ih =>
    intro r W hall
    rw [RHist.allWasteOk] at hall ⊢
    simp only [List.all_eq_true, Bool.or_eq_true, Bool.and_eq_true, decide_eq_true_eq] at hall ⊢
    intro e he
    rcases hall e he with h | h
    · exact Or.inl h
    · exact Or.inr ⟨h.1, ih _ _ h.2⟩

theorem RHist.allWasteOk_sound (evs : List CEv) : ∀ (n : Nat) (r : RHist) (W : Int), 0 ≤ W →
    RHist.allWasteOk evs n r W = true →
    ∀ h : List CEv, h.length ≤ n → (∀ e ∈ h, e ∈ evs) → r.wasteOk W h = true := by
  intro n
  induction n with
  | zero =>
    intro r W _ _ h hl _
    have : h = [] := List.length_eq_zero_iff.mp (by omega)
    subst this; rfl
  | succ n ih =>
    intro r W hW hall h hl hm
    cases h with
    | nil => rfl
    | cons e h =>
      have hall' := hall
      rw [RHist.allWasteOk] at hall
      simp only [List.all_eq_true, Bool.or_eq_true, Bool.and_eq_true, decide_eq_true_eq] at hall
      have hlen : h.length ≤ n := by simpa using hl
      have hmem : ∀ e' ∈ h, e' ∈ evs := fun e' he' => hm e' (by simp [he'])
      simp only [RHist.wasteOk, Bool.and_eq_true, decide_eq_true_eq]
      rcases hall e (hm e (by simp)) with hs | hs
      · rw [hs.1, hs.2, Int.add_zero]
        exact ⟨hW, ih r W hW (RHist.allWasteOk_mono evs n r W hall') h hlen hmem⟩
      · exact ⟨hs.1, ih _ _ hs.1 hs.2 h hlen hmem⟩

/-- an event that wastes nothing -/
theorem RHist.wasteOk_cons_zero (r : RHist) (W : Int) (e : CEv) (h : List CEv) (hW : 0 ≤ W)
    (he : r.wasteStep e = 0) : r.wasteOk W (e :: h) = (r.step e).wasteOk W h := by
  simp only [RHist.wasteOk, he, Int.add_zero, hW, decide_true, Bool.true_and]

end Dht
