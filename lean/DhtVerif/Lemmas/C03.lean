/- Helper lemmas for C03. -/
import DhtVerif.Model.Traversal
namespace Dht

end Dht
